(* C30 proofs: round trips, absence of panics, sufficiency of the fuel, NewCSNPs/NewPSNPs. *)
From Coq Require Import List NArith ZArith Bool Arith Lia ZifyBool ZifyNat ZifyN Permutation.
Import ListNotations.
From BioVerif Require Import Model.ISISCodec Spec.ISISCodecSpec.
Open Scope N_scope.
Ltac Zify.zify_post_hook ::= Z.div_mod_to_equations.

(* ------------------------------------------------------------------ readers on what writers wrote *)

Lemma rd_u16_be16 : forall x r, x < 65536 -> rd_u16 (be16 x ++ r) = Ok (x, r).
Proof. intros x r H. unfold be16, rd_u16. cbn [app]. f_equal. f_equal. lia. Qed.

Lemma rd_u32_be32 : forall x r, x < 4294967296 -> rd_u32 (be32 x ++ r) = Ok (x, r).
Proof. intros x r H. unfold be32, rd_u32. cbn [app]. f_equal. f_equal. lia. Qed.

Lemma rd_bytes_app : forall n l r, length l = n -> rd_bytes n (l ++ r) = Ok (l, r).
Proof.
  intros n l r H. unfold rd_bytes. rewrite app_length.
  replace (n <=? length l + length r)%nat with true by (symmetry; apply Nat.leb_le; lia).
  subst n. rewrite firstn_app, Nat.sub_diag, firstn_all. cbn [firstn]. rewrite app_nil_r.
  rewrite skipn_app, Nat.sub_diag, skipn_all. reflexivity.
Qed.

Lemma buf_read_app : forall l r, buf_read (length l) (l ++ r) = Ok (l, length l, r).
Proof.
  intros l r. unfold buf_read. destruct (l ++ r) eqn:E.
  - apply app_eq_nil in E. destruct E; subst. reflexivity.
  - rewrite <- E. rewrite app_length.
    replace (Nat.min (length l) (length l + length r)) with (length l) by lia.
    rewrite firstn_app, Nat.sub_diag, firstn_all. cbn [firstn repeat]. rewrite !app_nil_r.
    rewrite skipn_app, Nat.sub_diag, skipn_all. reflexivity.
Qed.

Lemma be16_length : forall x, length (be16 x) = 2%nat. Proof. reflexivity. Qed.
Lemma be32_length : forall x, length (be32 x) = 4%nat. Proof. reflexivity. Qed.

(* ------------------------------------------------------------------ TLV round trip *)

Lemma enc_area_length : forall a, length (enc_area a) = S (length a).
Proof. reflexivity. Qed.

Lemma area_loop_rt : forall areas f read tlen r,
  tlen < 256 ->
  read + N.of_nat (length (concat (map enc_area areas))) = tlen ->
  (length areas < f)%nat ->
  area_loop f read tlen (concat (map enc_area areas) ++ r) = Ok (areas, r).
Proof.
  induction areas as [|a areas IH]; intros f read tlen r Ht Hs Hf.
  - destruct f; [lia|]. cbn [map concat length app area_loop] in *.
    replace (read <? tlen) with false by lia. reflexivity.
  - destruct f; [cbn [length] in Hf; lia|].
    cbn [map concat] in *. rewrite app_length, enc_area_length in Hs.
    cbn [area_loop]. replace (read <? tlen) with true by lia.
    unfold enc_area at 1. rewrite <- app_assoc. cbn [app rd_u8 bind].
    assert (Ha : N.of_nat (length a) mod 256 = N.of_nat (length a)) by (apply N.mod_small; lia).
    rewrite Ha, Nat2N.id, buf_read_app. cbn [bind].
    rewrite IH; [reflexivity|assumption| |cbn [length] in Hf; lia].
    rewrite N.mod_small by lia. lia.
Qed.

Lemma rd_entry_rt : forall e r, wf_entry e -> rd_entry (enc_entry e ++ r) = Ok (e, r).
Proof.
  intros [life id seq cs] r (H1 & H2 & H3 & H4). unfold wf_entry, u16, u32, len_is in *. cbn in H1, H2, H3, H4.
  unfold rd_entry, enc_entry. cbn [le_life le_id le_seq le_csum].
  rewrite <- !app_assoc. rewrite rd_u16_be16 by assumption. cbn [bind].
  rewrite rd_bytes_app by assumption. cbn [bind].
  rewrite rd_u32_be32 by assumption. cbn [bind].
  rewrite rd_u16_be16 by assumption. reflexivity.
Qed.

Lemma enc_entry_length : forall e, len_is (le_id e) 8 -> length (enc_entry e) = 16%nat.
Proof. intros e H. unfold enc_entry. rewrite !app_length, H. reflexivity. Qed.

Lemma entries_loop_rt : forall es f r,
  Forall wf_entry es -> 16 * N.of_nat (length es) < 256 -> (length es < f)%nat ->
  entries_loop f (16 * N.of_nat (length es)) (concat (map enc_entry es) ++ r) = Ok (es, r).
Proof.
  induction es as [|e es IH]; intros f r Hw Hl Hf.
  - destruct f; [lia|]. reflexivity.
  - destruct f; [cbn [length] in Hf; lia|]. inversion Hw as [|? ? He Hes]; subst.
    cbn [length] in *. cbn [entries_loop map concat].
    replace (0 <? 16 * N.of_nat (S (length es))) with true by lia.
    rewrite <- app_assoc, rd_entry_rt by assumption. cbn [bind].
    replace ((16 * N.of_nat (S (length es)) + 256 - 16) mod 256) with (16 * N.of_nat (length es)) by lia.
    rewrite IH; [reflexivity|assumption|lia|lia].
Qed.

Lemma upd_app : forall pre x rest v, upd (pre ++ x :: rest) (length pre) v = Some (pre ++ v :: rest).
Proof.
  induction pre as [|p pre IH]; intros; cbn [app length upd]; [reflexivity|]. rewrite IH. reflexivity.
Qed.

Lemma proto_loop_rt : forall ids pre r,
  proto_loop (length ids) (length pre) (pre ++ repeat 0 (length ids)) (ids ++ r) = Ok (pre ++ ids, r).
Proof.
  induction ids as [|x ids IH]; intros pre r.
  - cbn. rewrite !app_nil_r. reflexivity.
  - cbn [length proto_loop repeat app rd_u8 bind]. rewrite upd_app.
    replace (pre ++ x :: repeat 0 (length ids)) with ((pre ++ [x]) ++ repeat 0 (length ids))
      by (rewrite <- app_assoc; reflexivity).
    replace (S (length pre)) with (length (pre ++ [x])) by (rewrite app_length; cbn; lia).
    rewrite IH. rewrite <- app_assoc. reflexivity.
Qed.

Lemma rd_u32s_rt : forall addrs r, Forall u32 addrs ->
  rd_u32s (length addrs) (concat (map be32 addrs) ++ r) = Ok (addrs, r).
Proof.
  induction addrs as [|a addrs IH]; intros r H; [reflexivity|].
  inversion H; subst. cbn [length rd_u32s map concat]. rewrite <- app_assoc.
  rewrite rd_u32_be32 by assumption. cbn [bind]. rewrite IH by assumption. reflexivity.
Qed.

Lemma read_unknown_rt : forall ty len v r, len = N.of_nat (length v) ->
  read_unknown ty len (v ++ r) = Ok (TUnknown ty len v, r).
Proof.
  intros ty len v r H. unfold read_unknown. subst len. rewrite Nat2N.id, buf_read_app. cbn [bind].
  rewrite Nat.eqb_refl. reflexivity.
Qed.

Lemma concat_length_ge : forall (A : Type) (f : A -> list N) l,
  (forall a, (1 <= length (f a))%nat) -> (length l <= length (concat (map f l)))%nat.
Proof.
  intros A f l H. induction l as [|a l IH]; [cbn; lia|]. cbn [map concat length]. rewrite app_length.
  specialize (H a). lia.
Qed.

Lemma wf_raw_rt : forall t f r, wf_raw t ->
  read_tlv f (enc_tlv t ++ r) = Ok (TUnknown (tlv_type t) (tlv_len t) (tlv_value t), r).
Proof.
  intros t f r [Hk Hl]. unfold read_tlv, enc_tlv. cbn [app rd_u8 bind]. rewrite Hk.
  apply read_unknown_rt. assumption.
Qed.

Lemma read_tlv_rt : forall t f r, wf_tlv t -> (length (enc_tlv t) <= f)%nat ->
  read_tlv f (enc_tlv t ++ r) = Ok (norm_tlv t, r).
Proof.
  intros t f r [Hlen Hw] Hf.
  destruct t; cbn [tlv_len] in Hlen; unfold u8 in Hlen;
    try (rewrite wf_raw_rt by exact Hw; reflexivity).
  - (* area *) destruct Hw as [-> Hl]. unfold read_tlv, enc_tlv. cbn [tlv_type tlv_len tlv_value app rd_u8 bind kind_of norm_tlv].
    unfold enc_tlv in Hf. cbn [tlv_value length] in Hf.
    rewrite area_loop_rt; [reflexivity|assumption|lia|].
    pose proof (concat_length_ge _ enc_area areas (fun a => ltac:(cbn; lia))). lia.
  - (* checksum *) destruct Hw as [-> Hc]. unfold read_tlv, enc_tlv. cbn [tlv_type tlv_len tlv_value app rd_u8 bind kind_of norm_tlv].
    rewrite rd_u16_be16 by exact Hc. reflexivity.
  - (* hostname *) destruct Hw as [-> Hl]. unfold read_tlv, enc_tlv. cbn [tlv_type tlv_len tlv_value app rd_u8 bind kind_of norm_tlv].
    rewrite rd_bytes_app by (subst len; symmetry; apply Nat2N.id). reflexivity.
  - (* protocols *) destruct Hw as [-> Hl]. unfold read_tlv, enc_tlv. cbn [tlv_type tlv_len tlv_value app rd_u8 bind kind_of norm_tlv].
    subst len. rewrite Nat2N.id.
    pose proof (proto_loop_rt ids [] r) as P. cbn [length app] in P. rewrite P. reflexivity.
  - (* ip interface addresses *) destruct Hw as (-> & Hl & Ha). unfold read_tlv, enc_tlv. cbn [tlv_type tlv_len tlv_value app rd_u8 bind kind_of norm_tlv].
    replace (N.to_nat (len / 4)) with (length addrs) by lia.
    rewrite rd_u32s_rt by assumption. reflexivity.
  - (* p2p adjacency *) destruct Hw as (-> & He & [(-> & -> & ->) | (-> & Hn & Hc)]); unfold u32, len_is in *;
      unfold read_tlv, enc_tlv; cbn [tlv_type tlv_len tlv_value app rd_u8 bind kind_of norm_tlv]; unfold read_p2padj;
      cbn [N.eqb Pos.eqb app rd_u8 bind].
    + rewrite app_nil_r. rewrite rd_u32_be32 by assumption. reflexivity.
    + rewrite <- app_assoc. rewrite rd_u32_be32 by assumption. cbn [bind].
      rewrite <- app_assoc. rewrite rd_bytes_app by assumption. cbn [bind].
      rewrite rd_u32_be32 by assumption. reflexivity.
  - (* is neighbors *) destruct Hw as [-> Hl]. unfold read_tlv, enc_tlv. cbn [tlv_type tlv_len tlv_value app rd_u8 bind kind_of norm_tlv].
    rewrite rd_bytes_app by exact Hl. reflexivity.
  - (* lsp entries *) destruct Hw as (-> & Hl & He). unfold read_tlv, enc_tlv. cbn [tlv_type tlv_len tlv_value app rd_u8 bind kind_of norm_tlv].
    subst len. rewrite entries_loop_rt; [reflexivity|assumption|assumption|].
    unfold enc_tlv in Hf. cbn [tlv_value length] in Hf.
    pose proof (concat_length_ge _ enc_entry es) as P.
    assert (Q : forall a, In a es -> (1 <= length (enc_entry a))%nat).
    { intros a _. unfold enc_entry. rewrite app_length. cbn. lia. }
    assert (length es <= length (concat (map enc_entry es)))%nat.
    { clear -es. induction es as [|e es IH]; [cbn; lia|]. cbn [map concat length]. rewrite app_length.
      unfold enc_entry at 1. rewrite app_length. cbn [length be16]. lia. }
    lia.
Qed.

Lemma read_tlvs_rt : forall ts f, Forall wf_tlv ts -> (length (enc_tlvs ts) < f)%nat ->
  read_tlvs f (enc_tlvs ts) = Ok (map norm_tlv ts).
Proof.
  induction ts as [|t ts IH]; intros f Hw Hf.
  - destruct f; [lia|]. reflexivity.
  - destruct f; [lia|]. inversion Hw as [|? ? Ht Hts]; subst.
    unfold enc_tlvs in *. cbn [map concat] in *. rewrite app_length in Hf.
    cbn [read_tlvs]. remember (enc_tlv t ++ concat (map enc_tlv ts)) as b eqn:Eb.
    destruct b as [|b0 b'].
    { unfold enc_tlv in Eb. discriminate Eb. }
    rewrite Eb. rewrite read_tlv_rt by (assumption || lia). cbn [bind].
    assert (2 <= length (enc_tlv t))%nat by (unfold enc_tlv; cbn [length]; lia).
    rewrite IH by (assumption || lia). reflexivity.
Qed.

(* ------------------------------------------------------------------ PDU round trips *)

Lemma decode_header_rt : forall llc h r, length llc = 3%nat ->
  decode_header (llc ++ enc_header h ++ r) = Ok (h, r).
Proof.
  intros llc h r H. destruct llc as [|a [|b [|c [|d l]]]]; try discriminate H.
  destruct h. reflexivity.
Qed.

Lemma tlvs_len16_lt : forall ts, (20 + tlvs_len16 ts) mod 65536 < 65536.
Proof. intros. apply N.mod_lt. discriminate. Qed.

Lemma hello_rt : forall x f, wf_hello x -> (length (enc_hello x) < f)%nat ->
  decode_p2p_hello f (enc_hello x) = Ok (norm_hello x).
Proof.
  intros [ct sys hold len lcid ts] f (Hs & Hh & Ht) Hf. unfold len_is, u16 in *. cbn in Hs, Hh, Ht.
  unfold decode_p2p_hello, enc_hello, norm_hello, hello_set_len in *.
  cbn [hl_ct hl_sys hl_hold hl_len hl_lcid hl_tlvs] in *.
  cbn [rd_u8 bind]. rewrite rd_bytes_app by assumption. cbn [bind].
  rewrite rd_u16_be16 by assumption. cbn [bind].
  rewrite rd_u16_be16 by apply tlvs_len16_lt. cbn [bind app rd_u8].
  rewrite read_tlvs_rt; [reflexivity|assumption|].
  cbn [length] in Hf. rewrite !app_length in Hf. cbn [length] in Hf. lia.
Qed.

Lemma lsp_rt : forall x f, wf_lsp x -> (length (enc_lsp x) < f)%nat ->
  decode_lsp f (enc_lsp x) = Ok (norm_lsp x).
Proof.
  intros [len life id seq cs tb ts] f (H1 & H2 & H3 & H4 & H5 & Ht) Hf. unfold len_is, u16, u32 in *.
  cbn in H1, H2, H3, H4, H5, Ht.
  unfold decode_lsp, enc_lsp, enc_lsp_cs, norm_lsp in *.
  cbn [ls_len ls_life ls_id ls_seq ls_csum ls_tb ls_tlvs] in *.
  rewrite <- ?app_assoc.
  rewrite rd_u16_be16 by assumption. cbn [bind].
  rewrite rd_u16_be16 by assumption. cbn [bind].
  rewrite rd_bytes_app by assumption. cbn [bind].
  rewrite rd_u32_be32 by assumption. cbn [bind].
  rewrite rd_u16_be16 by assumption. cbn [bind rd_u8].
  rewrite read_tlvs_rt; [reflexivity|assumption|].
  rewrite !app_length in Hf. cbn [length] in Hf. lia.
Qed.

Lemma csnp_rt : forall x f, wf_csnp x -> (length (enc_csnp x) < f)%nat ->
  decode_csnp f (enc_csnp x) = Ok (norm_csnp x).
Proof.
  intros [len src st en ts] f (H1 & H2 & H3 & H4 & Ht) Hf. unfold len_is, u16 in *.
  cbn in H1, H2, H3, H4, Ht.
  unfold decode_csnp, enc_csnp, norm_csnp in *. cbn [cs_len cs_src cs_start cs_end cs_tlvs] in *.
  rewrite rd_u16_be16 by assumption. cbn [bind].
  rewrite rd_bytes_app by assumption. cbn [bind].
  rewrite rd_bytes_app by assumption. cbn [bind].
  rewrite rd_bytes_app by assumption. cbn [bind].
  rewrite read_tlvs_rt; [reflexivity|assumption|].
  rewrite !app_length in Hf. lia.
Qed.

Lemma psnp_rt : forall x f, wf_psnp x -> (length (enc_psnp x) < f)%nat ->
  decode_psnp f (enc_psnp x) = Ok (norm_psnp x).
Proof.
  intros [len src ts] f (H1 & H2 & Ht) Hf. unfold len_is, u16 in *. cbn in H1, H2, Ht.
  unfold decode_psnp, enc_psnp, norm_psnp in *. cbn [ps_len ps_src ps_tlvs] in *.
  rewrite rd_u16_be16 by assumption. cbn [bind].
  rewrite rd_bytes_app by assumption. cbn [bind].
  rewrite read_tlvs_rt; [reflexivity|assumption|].
  rewrite !app_length in Hf. lia.
Qed.

Lemma decode_fuel_enc : forall f llc h b, length llc = 3%nat ->
  decode_fuel f (enc_packet llc (mkPacket h b)) =
  match pdukind_of (h_type h) with
  | PKHello => do x <- decode_p2p_hello f (enc_body b); Ok (mkPacket h (BHello x))
  | PKLsp => do x <- decode_lsp f (enc_body b); Ok (mkPacket h (BLsp x))
  | PKCsnp => do x <- decode_csnp f (enc_body b); Ok (mkPacket h (BCsnp x))
  | PKPsnp => do x <- decode_psnp f (enc_body b); Ok (mkPacket h (BPsnp x))
  | PKOther => Ok (mkPacket h BNone)
  end.
Proof.
  intros f llc h b H. unfold decode_fuel, enc_packet. cbn [p_hdr p_body].
  rewrite decode_header_rt by assumption. reflexivity.
Qed.

Lemma enc_packet_length : forall llc h b,
  length (enc_packet llc (mkPacket h b)) = (length llc + 8 + length (enc_body b))%nat.
Proof. intros. unfold enc_packet. cbn [p_hdr p_body]. rewrite !app_length. cbn [length enc_header]. lia. Qed.

Theorem roundtrip_hello : forall llc h x,
  length llc = 3%nat -> h_type h = 17 -> wf_hello x ->
  decode (enc_packet llc (mkPacket h (BHello x))) = Ok (mkPacket h (BHello (norm_hello x))).
Proof.
  intros llc h x Hl Ht Hw. unfold decode. rewrite decode_fuel_enc by assumption. rewrite Ht. cbn [pdukind_of enc_body].
  rewrite hello_rt; [reflexivity|assumption|]. rewrite enc_packet_length. cbn [enc_body]. lia.
Qed.

Theorem roundtrip_lsp : forall llc h x,
  length llc = 3%nat -> h_type h = 20 -> wf_lsp x ->
  decode (enc_packet llc (mkPacket h (BLsp x))) = Ok (mkPacket h (BLsp (norm_lsp x))).
Proof.
  intros llc h x Hl Ht Hw. unfold decode. rewrite decode_fuel_enc by assumption. rewrite Ht. cbn [pdukind_of enc_body].
  rewrite lsp_rt; [reflexivity|assumption|]. rewrite enc_packet_length. cbn [enc_body]. lia.
Qed.

Theorem roundtrip_csnp : forall llc h x,
  length llc = 3%nat -> h_type h = 25 -> wf_csnp x ->
  decode (enc_packet llc (mkPacket h (BCsnp x))) = Ok (mkPacket h (BCsnp (norm_csnp x))).
Proof.
  intros llc h x Hl Ht Hw. unfold decode. rewrite decode_fuel_enc by assumption. rewrite Ht. cbn [pdukind_of enc_body].
  rewrite csnp_rt; [reflexivity|assumption|]. rewrite enc_packet_length. cbn [enc_body]. lia.
Qed.

Theorem roundtrip_psnp : forall llc h x,
  length llc = 3%nat -> h_type h = 27 -> wf_psnp x ->
  decode (enc_packet llc (mkPacket h (BPsnp x))) = Ok (mkPacket h (BPsnp (norm_psnp x))).
Proof.
  intros llc h x Hl Ht Hw. unfold decode. rewrite decode_fuel_enc by assumption. rewrite Ht. cbn [pdukind_of enc_body].
  rewrite psnp_rt; [reflexivity|assumption|]. rewrite enc_packet_length. cbn [enc_body]. lia.
Qed.

(* ------------------------------------------------------------------ no panic *)

Definition np {A : Type} (r : res A) : Prop := r <> Panic.

Lemma np_bind : forall (A B : Type) (r : res A) (k : A -> res B),
  np r -> (forall a, r = Ok a -> np (k a)) -> np (bind r k).
Proof. intros A B r k Hr Hk. destruct r; cbn; try discriminate; [apply Hk; reflexivity|exfalso; apply Hr; reflexivity]. Qed.

Lemma np_rd_u8 : forall b, np (rd_u8 b). Proof. destruct b; discriminate. Qed.
Lemma np_rd_u16 : forall b, np (rd_u16 b). Proof. destruct b as [|? [|? ?]]; discriminate. Qed.
Lemma np_rd_u32 : forall b, np (rd_u32 b). Proof. destruct b as [|? [|? [|? [|? ?]]]]; discriminate. Qed.
Lemma np_rd_bytes : forall n b, np (rd_bytes n b).
Proof. intros. unfold rd_bytes. destruct (n <=? length b)%nat; discriminate. Qed.
Lemma np_buf_read : forall n b, np (buf_read n b).
Proof. intros. unfold buf_read. destruct b; [destruct (n =? 0)%nat|]; discriminate. Qed.

Lemma np_area_loop : forall f read tlen b, np (area_loop f read tlen b).
Proof.
  induction f as [|f IH]; intros; cbn [area_loop]; [discriminate|].
  destruct (read <? tlen); [|discriminate].
  apply np_bind; [apply np_rd_u8|]. intros [alen b1] _.
  apply np_bind; [apply np_buf_read|]. intros [[area k] b2] _.
  apply np_bind; [apply IH|]. intros [rest b3] _. discriminate.
Qed.

Lemma np_rd_entry : forall b, np (rd_entry b).
Proof.
  intros. unfold rd_entry.
  apply np_bind; [apply np_rd_u16|]. intros [? ?] _.
  apply np_bind; [apply np_rd_bytes|]. intros [? ?] _.
  apply np_bind; [apply np_rd_u32|]. intros [? ?] _.
  apply np_bind; [apply np_rd_u16|]. intros [? ?] _. discriminate.
Qed.

Lemma np_entries_loop : forall f toread b, np (entries_loop f toread b).
Proof.
  induction f as [|f IH]; intros; cbn [entries_loop]; [discriminate|].
  destruct (0 <? toread); [|discriminate].
  apply np_bind; [apply np_rd_entry|]. intros [e b1] _.
  apply np_bind; [apply IH|]. intros [rest b2] _. discriminate.
Qed.

Lemma upd_length : forall l i v l', upd l i v = Some l' -> length l' = length l.
Proof.
  induction l as [|x l IH]; intros i v l' H; [discriminate|]. destruct i; cbn [upd] in H.
  - inversion H; reflexivity.
  - destruct (upd l i v) eqn:E; [|discriminate]. inversion H; subst. cbn [length]. f_equal. eapply IH; eassumption.
Qed.

Lemma upd_in_range : forall l i v, (i < length l)%nat -> upd l i v <> None.
Proof.
  induction l as [|x l IH]; intros i v H; [cbn in H; lia|]. destruct i; cbn [upd]; [discriminate|].
  cbn [length] in H. specialize (IH i v ltac:(lia)). destruct (upd l i v); [discriminate|contradiction].
Qed.

(* the index of ids[i] = protoID stays inside make([]uint8, tlvLength) *)
Lemma np_proto_loop : forall n i arr b, length arr = (i + n)%nat -> np (proto_loop n i arr b).
Proof.
  induction n as [|n IH]; intros i arr b H; cbn [proto_loop]; [discriminate|].
  apply np_bind; [apply np_rd_u8|]. intros [x b1] _.
  destruct (upd arr i x) eqn:E.
  - apply IH. rewrite (upd_length _ _ _ _ E). lia.
  - exfalso. eapply upd_in_range; [|exact E]. lia.
Qed.

Lemma np_rd_u32s : forall n b, np (rd_u32s n b).
Proof.
  induction n as [|n IH]; intros; cbn [rd_u32s]; [discriminate|].
  apply np_bind; [apply np_rd_u32|]. intros [? ?] _.
  apply np_bind; [apply IH|]. intros [? ?] _. discriminate.
Qed.

Lemma np_read_p2padj : forall ty len b, np (read_p2padj ty len b).
Proof.
  intros. unfold read_p2padj. destruct (len =? 5); [|destruct (len =? 15)].
  - apply np_bind; [apply np_rd_u8|]. intros [? ?] _.
    apply np_bind; [apply np_rd_u32|]. intros [? ?] _. discriminate.
  - apply np_bind; [apply np_rd_u8|]. intros [? ?] _.
    apply np_bind; [apply np_rd_u32|]. intros [? ?] _.
    apply np_bind; [apply np_rd_bytes|]. intros [? ?] _.
    apply np_bind; [apply np_rd_u32|]. intros [? ?] _. discriminate.
  - discriminate.
Qed.

Lemma np_read_unknown : forall ty len b, np (read_unknown ty len b).
Proof.
  intros. unfold read_unknown. apply np_bind; [apply np_buf_read|]. intros [[v k] b1] _.
  destruct (k =? N.to_nat len)%nat; discriminate.
Qed.

Lemma np_read_tlv : forall f b, np (read_tlv f b).
Proof.
  intros. unfold read_tlv.
  apply np_bind; [apply np_rd_u8|]. intros [ty b1] _.
  apply np_bind; [apply np_rd_u8|]. intros [len b2] _.
  destruct (kind_of ty).
  - apply np_bind; [apply np_rd_bytes|]. intros [? ?] _. discriminate.
  - apply np_bind; [apply np_rd_u16|]. intros [? ?] _. discriminate.
  - apply np_bind; [apply np_proto_loop; rewrite repeat_length; reflexivity|]. intros [? ?] _. discriminate.
  - apply np_bind; [apply np_rd_u32s|]. intros [? ?] _. discriminate.
  - apply np_bind; [apply np_area_loop|]. intros [? ?] _. discriminate.
  - apply np_read_p2padj.
  - apply np_bind; [apply np_rd_bytes|]. intros [? ?] _. discriminate.
  - apply np_bind; [apply np_entries_loop|]. intros [? ?] _. discriminate.
  - apply np_read_unknown.
Qed.

Lemma np_read_tlvs : forall f b, np (read_tlvs f b).
Proof.
  induction f as [|f IH]; intros; cbn [read_tlvs]; [discriminate|]. destruct b; [discriminate|].
  apply np_bind; [apply np_read_tlv|]. intros [t b1] _.
  apply np_bind; [apply IH|]. intros ts _. discriminate.
Qed.

Lemma np_decode_header : forall b, np (decode_header b).
Proof.
  intros. unfold decode_header.
  destruct b as [|? [|? [|? [|? [|? [|? [|? [|? [|? [|? [|? ?]]]]]]]]]]]; discriminate.
Qed.

Lemma np_decode_p2p_hello : forall f b, np (decode_p2p_hello f b).
Proof.
  intros. unfold decode_p2p_hello.
  apply np_bind; [apply np_rd_u8|]. intros [? ?] _.
  apply np_bind; [apply np_rd_bytes|]. intros [? ?] _.
  apply np_bind; [apply np_rd_u16|]. intros [? ?] _.
  apply np_bind; [apply np_rd_u16|]. intros [? ?] _.
  apply np_bind; [apply np_rd_u8|]. intros [? ?] _.
  apply np_bind; [apply np_read_tlvs|]. intros ? _. discriminate.
Qed.

Lemma np_decode_l2_hello : forall f b, np (decode_l2_hello f b).
Proof.
  intros. unfold decode_l2_hello.
  apply np_bind; [apply np_rd_u8|]. intros [? ?] _.
  apply np_bind; [apply np_rd_bytes|]. intros [? ?] _.
  apply np_bind; [apply np_rd_u16|]. intros [? ?] _.
  apply np_bind; [apply np_rd_u16|]. intros [? ?] _.
  apply np_bind; [apply np_rd_u8|]. intros [? ?] _.
  apply np_bind; [apply np_rd_u8|]. intros [? ?] _.
  apply np_bind; [apply np_rd_bytes|]. intros [? ?] _.
  apply np_bind; [apply np_read_tlvs|]. intros ? _. discriminate.
Qed.

Lemma np_decode_lsp : forall f b, np (decode_lsp f b).
Proof.
  intros. unfold decode_lsp.
  apply np_bind; [apply np_rd_u16|]. intros [? ?] _.
  apply np_bind; [apply np_rd_u16|]. intros [? ?] _.
  apply np_bind; [apply np_rd_bytes|]. intros [? ?] _.
  apply np_bind; [apply np_rd_u32|]. intros [? ?] _.
  apply np_bind; [apply np_rd_u16|]. intros [? ?] _.
  apply np_bind; [apply np_rd_u8|]. intros [? ?] _.
  apply np_bind; [apply np_read_tlvs|]. intros ? _. discriminate.
Qed.

Lemma np_decode_csnp : forall f b, np (decode_csnp f b).
Proof.
  intros. unfold decode_csnp.
  apply np_bind; [apply np_rd_u16|]. intros [? ?] _.
  apply np_bind; [apply np_rd_bytes|]. intros [? ?] _.
  apply np_bind; [apply np_rd_bytes|]. intros [? ?] _.
  apply np_bind; [apply np_rd_bytes|]. intros [? ?] _.
  apply np_bind; [apply np_read_tlvs|]. intros ? _. discriminate.
Qed.

Lemma np_decode_psnp : forall f b, np (decode_psnp f b).
Proof.
  intros. unfold decode_psnp.
  apply np_bind; [apply np_rd_u16|]. intros [? ?] _.
  apply np_bind; [apply np_rd_bytes|]. intros [? ?] _.
  apply np_bind; [apply np_read_tlvs|]. intros ? _. discriminate.
Qed.

Lemma np_decode_fuel : forall f b, np (decode_fuel f b).
Proof.
  intros. unfold decode_fuel. apply np_bind; [apply np_decode_header|]. intros [h b1] _.
  destruct (pdukind_of (h_type h)).
  - apply np_bind; [apply np_decode_p2p_hello|]. intros ? _. discriminate.
  - apply np_bind; [apply np_decode_lsp|]. intros ? _. discriminate.
  - apply np_bind; [apply np_decode_csnp|]. intros ? _. discriminate.
  - apply np_bind; [apply np_decode_psnp|]. intros ? _. discriminate.
  - discriminate.
Qed.

Theorem no_panic : forall b, decode b <> Panic.
Proof. intros. apply np_decode_fuel. Qed.

Theorem no_panic_l2 : forall b, decode_l2 b <> Panic.
Proof. intros. apply np_decode_l2_hello. Qed.

(* ------------------------------------------------------------------ fuel *)

(* r1 is r2 or ran out of fuel *)
Definition lef {A : Type} (r1 r2 : res A) : Prop := r1 = OutOfFuel \/ r1 = r2.

Lemma lef_refl : forall (A : Type) (r : res A), lef r r. Proof. intros; right; reflexivity. Qed.

Lemma lef_bind : forall (A B : Type) (r1 r2 : res A) (k1 k2 : A -> res B),
  lef r1 r2 -> (forall a, lef (k1 a) (k2 a)) -> lef (bind r1 k1) (bind r2 k2).
Proof.
  intros A B r1 r2 k1 k2 [H|H] Hk; subst.
  - left; reflexivity.
  - destruct r2; cbn; try (right; reflexivity). apply Hk.
Qed.

Lemma area_loop_mono : forall f f' read tlen b, (f <= f')%nat ->
  lef (area_loop f read tlen b) (area_loop f' read tlen b).
Proof.
  induction f as [|f IH]; intros f' read tlen b H; [left; reflexivity|].
  destruct f'; [lia|]. cbn [area_loop]. destruct (read <? tlen); [|apply lef_refl].
  apply lef_bind; [apply lef_refl|]. intros [alen b1].
  apply lef_bind; [apply lef_refl|]. intros [[area k] b2].
  apply lef_bind; [apply IH; lia|]. intros [rest b3]. apply lef_refl.
Qed.

Lemma entries_loop_mono : forall f f' toread b, (f <= f')%nat ->
  lef (entries_loop f toread b) (entries_loop f' toread b).
Proof.
  induction f as [|f IH]; intros f' toread b H; [left; reflexivity|].
  destruct f'; [lia|]. cbn [entries_loop]. destruct (0 <? toread); [|apply lef_refl].
  apply lef_bind; [apply lef_refl|]. intros [e b1].
  apply lef_bind; [apply IH; lia|]. intros [rest b2]. apply lef_refl.
Qed.

Lemma read_tlv_mono : forall f f' b, (f <= f')%nat -> lef (read_tlv f b) (read_tlv f' b).
Proof.
  intros f f' b H. unfold read_tlv.
  apply lef_bind; [apply lef_refl|]. intros [ty b1].
  apply lef_bind; [apply lef_refl|]. intros [len b2].
  destruct (kind_of ty); try apply lef_refl.
  - apply lef_bind; [apply area_loop_mono; assumption|]. intros [? ?]. apply lef_refl.
  - apply lef_bind; [apply entries_loop_mono; assumption|]. intros [? ?]. apply lef_refl.
Qed.

Lemma read_tlvs_mono : forall f f' b, (f <= f')%nat -> lef (read_tlvs f b) (read_tlvs f' b).
Proof.
  induction f as [|f IH]; intros f' b H; [left; reflexivity|].
  destruct f'; [lia|]. cbn [read_tlvs]. destruct b; [apply lef_refl|].
  apply lef_bind; [apply read_tlv_mono; lia|]. intros [t b1].
  apply lef_bind; [apply IH; lia|]. intros ts. apply lef_refl.
Qed.

Lemma decode_fuel_mono : forall f f' b, (f <= f')%nat -> lef (decode_fuel f b) (decode_fuel f' b).
Proof.
  intros f f' b H. unfold decode_fuel. apply lef_bind; [apply lef_refl|]. intros [h b1].
  destruct (pdukind_of (h_type h)); try apply lef_refl.
  - apply lef_bind; [|intros; apply lef_refl]. unfold decode_p2p_hello.
    repeat (apply lef_bind; [apply lef_refl|]; intros [? ?]).
    apply lef_bind; [apply read_tlvs_mono; assumption|]. intros; apply lef_refl.
  - apply lef_bind; [|intros; apply lef_refl]. unfold decode_lsp.
    repeat (apply lef_bind; [apply lef_refl|]; intros [? ?]).
    apply lef_bind; [apply read_tlvs_mono; assumption|]. intros; apply lef_refl.
  - apply lef_bind; [|intros; apply lef_refl]. unfold decode_csnp.
    repeat (apply lef_bind; [apply lef_refl|]; intros [? ?]).
    apply lef_bind; [apply read_tlvs_mono; assumption|]. intros; apply lef_refl.
  - apply lef_bind; [|intros; apply lef_refl]. unfold decode_psnp.
    repeat (apply lef_bind; [apply lef_refl|]; intros [? ?]).
    apply lef_bind; [apply read_tlvs_mono; assumption|]. intros; apply lef_refl.
Qed.

Lemma decode_l2_hello_mono : forall f f' b, (f <= f')%nat -> lef (decode_l2_hello f b) (decode_l2_hello f' b).
Proof.
  intros f f' b H. unfold decode_l2_hello.
  repeat (apply lef_bind; [apply lef_refl|]; intros [? ?]).
  apply lef_bind; [apply read_tlvs_mono; assumption|]. intros; apply lef_refl.
Qed.

(* how much of the buffer a successful read leaves *)
Definition leaves {A : Type} (r : res (A * buf)) (b : buf) (k : nat) : Prop :=
  forall a b', r = Ok (a, b') -> (length b' + k <= length b)%nat.

Definition nof {A : Type} (r : res A) : Prop := r <> OutOfFuel.

Lemma nof_bind : forall (A B : Type) (r : res A) (k : A -> res B),
  nof r -> (forall a, r = Ok a -> nof (k a)) -> nof (bind r k).
Proof. intros A B r k Hr Hk. destruct r; cbn; try discriminate; [apply Hk; reflexivity|exfalso; apply Hr; reflexivity]. Qed.

Lemma leaves_rd_u8 : forall b, leaves (rd_u8 b) b 1.
Proof. intros b a b' H. destruct b; inversion H; subst. cbn. lia. Qed.
Lemma leaves_rd_u16 : forall b, leaves (rd_u16 b) b 2.
Proof. intros b a b' H. destruct b as [|? [|? ?]]; inversion H; subst. cbn. lia. Qed.
Lemma leaves_rd_u32 : forall b, leaves (rd_u32 b) b 4.
Proof. intros b a b' H. destruct b as [|? [|? [|? [|? ?]]]]; inversion H; subst. cbn. lia. Qed.
Lemma leaves_rd_bytes : forall n b, leaves (rd_bytes n b) b n.
Proof.
  intros n b a b' H. unfold rd_bytes in H. destruct (n <=? length b)%nat eqn:E; inversion H; subst.
  rewrite skipn_length. apply Nat.leb_le in E. lia.
Qed.
Lemma leaves_buf_read : forall n b, leaves (buf_read n b) b 0.
Proof.
  intros n b a b' H. unfold buf_read in H. destruct b.
  - destruct (n =? 0)%nat; inversion H; subst. cbn. lia.
  - inversion H; subst. rewrite skipn_length. lia.
Qed.

Lemma nof_rd_u8 : forall b, nof (rd_u8 b). Proof. destruct b; discriminate. Qed.
Lemma nof_rd_u16 : forall b, nof (rd_u16 b). Proof. destruct b as [|? [|? ?]]; discriminate. Qed.
Lemma nof_rd_u32 : forall b, nof (rd_u32 b). Proof. destruct b as [|? [|? [|? [|? ?]]]]; discriminate. Qed.
Lemma nof_rd_bytes : forall n b, nof (rd_bytes n b).
Proof. intros. unfold rd_bytes. destruct (n <=? length b)%nat; discriminate. Qed.
Lemma nof_buf_read : forall n b, nof (buf_read n b).
Proof. intros. unfold buf_read. destruct b; [destruct (n =? 0)%nat|]; discriminate. Qed.

(* inversion of a successful bind *)
Lemma bind_ok : forall (A B : Type) (r : res A) (k : A -> res B) (v : B),
  bind r k = Ok v -> exists a, r = Ok a /\ k a = Ok v.
Proof. intros A B r k v H. destruct r; cbn in H; try discriminate. eauto. Qed.

Lemma area_loop_ok : forall f read tlen b, (length b < f)%nat ->
  nof (area_loop f read tlen b) /\ leaves (area_loop f read tlen b) b 0.
Proof.
  induction f as [|f IH]; intros read tlen b H; [lia|]. cbn [area_loop].
  destruct (read <? tlen).
  2:{ split; [discriminate|]. intros a b' E. inversion E; subst. lia. }
  split.
  - apply nof_bind; [apply nof_rd_u8|]. intros [alen b1] E1. apply leaves_rd_u8 in E1.
    apply nof_bind; [apply nof_buf_read|]. intros [[area k] b2] E2. apply leaves_buf_read in E2.
    apply nof_bind; [apply IH; lia|]. intros [rest b3] _. discriminate.
  - intros a b' E.
    apply bind_ok in E. destruct E as ([alen b1] & E1 & E). apply leaves_rd_u8 in E1.
    apply bind_ok in E. destruct E as ([[area k] b2] & E2 & E). apply leaves_buf_read in E2.
    apply bind_ok in E. destruct E as ([rest b3] & E3 & E). apply IH in E3; [|lia].
    inversion E; subst. lia.
Qed.

Lemma leaves_rd_entry : forall b, leaves (rd_entry b) b 16.
Proof.
  intros b a b' E. unfold rd_entry in E.
  apply bind_ok in E. destruct E as ([? b1] & E1 & E). apply leaves_rd_u16 in E1.
  apply bind_ok in E. destruct E as ([? b2] & E2 & E). apply leaves_rd_bytes in E2.
  apply bind_ok in E. destruct E as ([? b3] & E3 & E). apply leaves_rd_u32 in E3.
  apply bind_ok in E. destruct E as ([? b4] & E4 & E). apply leaves_rd_u16 in E4.
  inversion E; subst. lia.
Qed.

Lemma nof_rd_entry : forall b, nof (rd_entry b).
Proof.
  intros. unfold rd_entry.
  apply nof_bind; [apply nof_rd_u16|]. intros [? ?] _.
  apply nof_bind; [apply nof_rd_bytes|]. intros [? ?] _.
  apply nof_bind; [apply nof_rd_u32|]. intros [? ?] _.
  apply nof_bind; [apply nof_rd_u16|]. intros [? ?] _. discriminate.
Qed.

Lemma entries_loop_ok : forall f toread b, (length b < f)%nat ->
  nof (entries_loop f toread b) /\ leaves (entries_loop f toread b) b 0.
Proof.
  induction f as [|f IH]; intros toread b H; [lia|]. cbn [entries_loop].
  destruct (0 <? toread).
  2:{ split; [discriminate|]. intros a b' E. inversion E; subst. lia. }
  split.
  - apply nof_bind; [apply nof_rd_entry|]. intros [e b1] E1. apply leaves_rd_entry in E1.
    apply nof_bind; [apply IH; lia|]. intros [rest b2] _. discriminate.
  - intros a b' E.
    apply bind_ok in E. destruct E as ([e b1] & E1 & E). apply leaves_rd_entry in E1.
    apply bind_ok in E. destruct E as ([rest b2] & E2 & E). apply IH in E2; [|lia].
    inversion E; subst. lia.
Qed.

Lemma proto_loop_ok : forall n i arr b,
  nof (proto_loop n i arr b) /\ leaves (proto_loop n i arr b) b 0.
Proof.
  induction n as [|n IH]; intros i arr b; cbn [proto_loop].
  { split; [discriminate|]. intros a b' E. inversion E; subst. lia. }
  split.
  - apply nof_bind; [apply nof_rd_u8|]. intros [x b1] _. destruct (upd arr i x); [apply IH|discriminate].
  - intros a b' E. apply bind_ok in E. destruct E as ([x b1] & E1 & E). apply leaves_rd_u8 in E1.
    destruct (upd arr i x); [|discriminate]. apply IH in E. lia.
Qed.

Lemma rd_u32s_ok : forall n b, nof (rd_u32s n b) /\ leaves (rd_u32s n b) b 0.
Proof.
  induction n as [|n IH]; intros b; cbn [rd_u32s].
  { split; [discriminate|]. intros a b' E. inversion E; subst. lia. }
  split.
  - apply nof_bind; [apply nof_rd_u32|]. intros [? ?] _.
    apply nof_bind; [apply IH|]. intros [? ?] _. discriminate.
  - intros a b' E. apply bind_ok in E. destruct E as ([x b1] & E1 & E). apply leaves_rd_u32 in E1.
    apply bind_ok in E. destruct E as ([xs b2] & E2 & E). apply IH in E2. inversion E; subst. lia.
Qed.

Lemma read_p2padj_ok : forall ty len b, nof (read_p2padj ty len b) /\ leaves (read_p2padj ty len b) b 0.
Proof.
  intros. unfold read_p2padj. destruct (len =? 5); [|destruct (len =? 15)].
  - split.
    + apply nof_bind; [apply nof_rd_u8|]. intros [? ?] _.
      apply nof_bind; [apply nof_rd_u32|]. intros [? ?] _. discriminate.
    + intros a b' E. apply bind_ok in E. destruct E as ([? b1] & E1 & E). apply leaves_rd_u8 in E1.
      apply bind_ok in E. destruct E as ([? b2] & E2 & E). apply leaves_rd_u32 in E2. inversion E; subst. lia.
  - split.
    + apply nof_bind; [apply nof_rd_u8|]. intros [? ?] _.
      apply nof_bind; [apply nof_rd_u32|]. intros [? ?] _.
      apply nof_bind; [apply nof_rd_bytes|]. intros [? ?] _.
      apply nof_bind; [apply nof_rd_u32|]. intros [? ?] _. discriminate.
    + intros a b' E. apply bind_ok in E. destruct E as ([? b1] & E1 & E). apply leaves_rd_u8 in E1.
      apply bind_ok in E. destruct E as ([? b2] & E2 & E). apply leaves_rd_u32 in E2.
      apply bind_ok in E. destruct E as ([? b3] & E3 & E). apply leaves_rd_bytes in E3.
      apply bind_ok in E. destruct E as ([? b4] & E4 & E). apply leaves_rd_u32 in E4. inversion E; subst. lia.
  - split; [discriminate|]. intros a b' E. inversion E; subst. lia.
Qed.

Lemma read_unknown_ok : forall ty len b, nof (read_unknown ty len b) /\ leaves (read_unknown ty len b) b 0.
Proof.
  intros. unfold read_unknown. split.
  - apply nof_bind; [apply nof_buf_read|]. intros [[v k] b1] _. destruct (k =? N.to_nat len)%nat; discriminate.
  - intros a b' E. apply bind_ok in E. destruct E as ([[v k] b1] & E1 & E). apply leaves_buf_read in E1.
    destruct (k =? N.to_nat len)%nat; inversion E; subst. lia.
Qed.

Lemma read_tlv_ok : forall f b, (length b <= S f)%nat ->
  nof (read_tlv f b) /\ leaves (read_tlv f b) b 2.
Proof.
  intros f b H. unfold read_tlv. split.
  - apply nof_bind; [apply nof_rd_u8|]. intros [ty b1] E1. apply leaves_rd_u8 in E1.
    apply nof_bind; [apply nof_rd_u8|]. intros [len b2] E2. apply leaves_rd_u8 in E2.
    destruct (kind_of ty).
    + apply nof_bind; [apply nof_rd_bytes|]. intros [? ?] _. discriminate.
    + apply nof_bind; [apply nof_rd_u16|]. intros [? ?] _. discriminate.
    + apply nof_bind; [apply proto_loop_ok|]. intros [? ?] _. discriminate.
    + apply nof_bind; [apply rd_u32s_ok|]. intros [? ?] _. discriminate.
    + apply nof_bind; [apply area_loop_ok; lia|]. intros [? ?] _. discriminate.
    + apply read_p2padj_ok.
    + apply nof_bind; [apply nof_rd_bytes|]. intros [? ?] _. discriminate.
    + apply nof_bind; [apply entries_loop_ok; lia|]. intros [? ?] _. discriminate.
    + apply read_unknown_ok.
  - intros a b' E.
    apply bind_ok in E. destruct E as ([ty b1] & E1 & E). apply leaves_rd_u8 in E1.
    apply bind_ok in E. destruct E as ([len b2] & E2 & E). apply leaves_rd_u8 in E2.
    destruct (kind_of ty).
    + apply bind_ok in E. destruct E as ([? b3] & E3 & E). apply leaves_rd_bytes in E3. inversion E; subst. lia.
    + apply bind_ok in E. destruct E as ([? b3] & E3 & E). apply leaves_rd_u16 in E3. inversion E; subst. lia.
    + apply bind_ok in E. destruct E as ([? b3] & E3 & E). apply proto_loop_ok in E3. inversion E; subst. lia.
    + apply bind_ok in E. destruct E as ([? b3] & E3 & E). apply rd_u32s_ok in E3. inversion E; subst. lia.
    + apply bind_ok in E. destruct E as ([? b3] & E3 & E). apply area_loop_ok in E3; [|lia]. inversion E; subst. lia.
    + apply read_p2padj_ok in E. lia.
    + apply bind_ok in E. destruct E as ([? b3] & E3 & E). apply leaves_rd_bytes in E3. inversion E; subst. lia.
    + apply bind_ok in E. destruct E as ([? b3] & E3 & E). apply entries_loop_ok in E3; [|lia]. inversion E; subst. lia.
    + apply read_unknown_ok in E. lia.
Qed.

Lemma read_tlvs_nof : forall f b, (length b < f)%nat -> nof (read_tlvs f b).
Proof.
  induction f as [|f IH]; intros b H; [lia|]. cbn [read_tlvs]. destruct b as [|x b]; [discriminate|].
  apply nof_bind; [apply read_tlv_ok; lia|]. intros [t b1] E1. apply read_tlv_ok in E1; [|lia].
  apply nof_bind; [apply IH; lia|]. intros ts _. discriminate.
Qed.

Lemma leaves_decode_header : forall b, leaves (decode_header b) b 11.
Proof.
  intros b a b' E. unfold decode_header in E.
  destruct b as [|? [|? [|? [|? [|? [|? [|? [|? [|? [|? [|? ?]]]]]]]]]]]; inversion E; subst. cbn [length]. lia.
Qed.

Lemma decode_fuel_nof : forall f b, (length b < f)%nat -> nof (decode_fuel f b).
Proof.
  intros f b H. unfold decode_fuel.
  apply nof_bind; [unfold decode_header; destruct b as [|? [|? [|? [|? [|? [|? [|? [|? [|? [|? [|? ?]]]]]]]]]]]; discriminate|].
  intros [h b0] E0. apply leaves_decode_header in E0.
  destruct (pdukind_of (h_type h)); [| | | |discriminate].
  - apply nof_bind; [|intros; discriminate]. unfold decode_p2p_hello.
    apply nof_bind; [apply nof_rd_u8|]. intros [? b1] E1. apply leaves_rd_u8 in E1.
    apply nof_bind; [apply nof_rd_bytes|]. intros [? b2] E2. apply leaves_rd_bytes in E2.
    apply nof_bind; [apply nof_rd_u16|]. intros [? b3] E3. apply leaves_rd_u16 in E3.
    apply nof_bind; [apply nof_rd_u16|]. intros [? b4] E4. apply leaves_rd_u16 in E4.
    apply nof_bind; [apply nof_rd_u8|]. intros [? b5] E5. apply leaves_rd_u8 in E5.
    apply nof_bind; [apply read_tlvs_nof; lia|]. intros; discriminate.
  - apply nof_bind; [|intros; discriminate]. unfold decode_lsp.
    apply nof_bind; [apply nof_rd_u16|]. intros [? b1] E1. apply leaves_rd_u16 in E1.
    apply nof_bind; [apply nof_rd_u16|]. intros [? b2] E2. apply leaves_rd_u16 in E2.
    apply nof_bind; [apply nof_rd_bytes|]. intros [? b3] E3. apply leaves_rd_bytes in E3.
    apply nof_bind; [apply nof_rd_u32|]. intros [? b4] E4. apply leaves_rd_u32 in E4.
    apply nof_bind; [apply nof_rd_u16|]. intros [? b5] E5. apply leaves_rd_u16 in E5.
    apply nof_bind; [apply nof_rd_u8|]. intros [? b6] E6. apply leaves_rd_u8 in E6.
    apply nof_bind; [apply read_tlvs_nof; lia|]. intros; discriminate.
  - apply nof_bind; [|intros; discriminate]. unfold decode_csnp.
    apply nof_bind; [apply nof_rd_u16|]. intros [? b1] E1. apply leaves_rd_u16 in E1.
    apply nof_bind; [apply nof_rd_bytes|]. intros [? b2] E2. apply leaves_rd_bytes in E2.
    apply nof_bind; [apply nof_rd_bytes|]. intros [? b3] E3. apply leaves_rd_bytes in E3.
    apply nof_bind; [apply nof_rd_bytes|]. intros [? b4] E4. apply leaves_rd_bytes in E4.
    apply nof_bind; [apply read_tlvs_nof; lia|]. intros; discriminate.
  - apply nof_bind; [|intros; discriminate]. unfold decode_psnp.
    apply nof_bind; [apply nof_rd_u16|]. intros [? b1] E1. apply leaves_rd_u16 in E1.
    apply nof_bind; [apply nof_rd_bytes|]. intros [? b2] E2. apply leaves_rd_bytes in E2.
    apply nof_bind; [apply read_tlvs_nof; lia|]. intros; discriminate.
Qed.

Lemma decode_l2_hello_nof : forall f b, (length b < f)%nat -> nof (decode_l2_hello f b).
Proof.
  intros f b H. unfold decode_l2_hello.
  apply nof_bind; [apply nof_rd_u8|]. intros [? b1] E1. apply leaves_rd_u8 in E1.
  apply nof_bind; [apply nof_rd_bytes|]. intros [? b2] E2. apply leaves_rd_bytes in E2.
  apply nof_bind; [apply nof_rd_u16|]. intros [? b3] E3. apply leaves_rd_u16 in E3.
  apply nof_bind; [apply nof_rd_u16|]. intros [? b4] E4. apply leaves_rd_u16 in E4.
  apply nof_bind; [apply nof_rd_u8|]. intros [? b5] E5. apply leaves_rd_u8 in E5.
  apply nof_bind; [apply nof_rd_u8|]. intros [? b6] E6. apply leaves_rd_u8 in E6.
  apply nof_bind; [apply nof_rd_bytes|]. intros [? b7] E7. apply leaves_rd_bytes in E7.
  apply nof_bind; [apply read_tlvs_nof; lia|]. intros; discriminate.
Qed.

(* any fuel above the number of bytes gives the result of packet.Decode, which is never "out of fuel" *)
Theorem fuel_suffices : forall b f, (length b < f)%nat ->
  decode_fuel f b = decode b /\ decode b <> OutOfFuel.
Proof.
  intros b f H. unfold decode.
  assert (N1 : nof (decode_fuel (S (length b)) b)) by (apply decode_fuel_nof; lia).
  split; [|exact N1].
  destruct (decode_fuel_mono (S (length b)) f b ltac:(lia)) as [E|E]; [contradiction|]. symmetry; exact E.
Qed.

Theorem fuel_suffices_l2 : forall b f, (length b < f)%nat ->
  decode_l2_hello f b = decode_l2 b /\ decode_l2 b <> OutOfFuel.
Proof.
  intros b f H. unfold decode_l2.
  assert (N1 : nof (decode_l2_hello (S (length b)) b)) by (apply decode_l2_hello_nof; lia).
  split; [|exact N1].
  destruct (decode_l2_hello_mono (S (length b)) f b ltac:(lia)) as [E|E]; [contradiction|]. symmetry; exact E.
Qed.

Theorem no_panic_l2_total : forall b, decode_l2 b <> Panic /\ decode_l2 b <> OutOfFuel.
Proof. intro b. split; [exact (no_panic_l2 b)|exact (proj2 (fuel_suffices_l2 b (S (length b)) (le_n _)))]. Qed.

(* ------------------------------------------------------------------ NewCSNPs / NewPSNPs *)

Lemma Forall_firstn : forall (A : Type) (P : A -> Prop) n l, Forall P l -> Forall P (firstn n l).
Proof.
  induction n as [|n IH]; intros l H; [constructor|]. destruct l; [constructor|].
  inversion H; subst. cbn [firstn]. constructor; [assumption|apply IH; assumption].
Qed.

Lemma Forall_skipn : forall (A : Type) (P : A -> Prop) n l, Forall P l -> Forall P (skipn n l).
Proof.
  induction n as [|n IH]; intros l H; [assumption|]. destruct l; [constructor|].
  inversion H; subst. cbn [skipn]. apply IH; assumption.
Qed.

Lemma Forall_last : forall (A : Type) (P : A -> Prop) l d, Forall P l -> P d -> P (last l d).
Proof.
  induction l as [|x l IH]; intros d H Hd; [assumption|]. inversion H; subst.
  cbn [last]. destruct l; [assumption|]. apply IH; assumption.
Qed.

Definition entries_tlv (t : tlv) : Prop := match t with TEntries _ _ _ => True | _ => False end.

Lemma wf_new_entries_tlv : forall es, (length es <= 15)%nat -> Forall wf_entry es -> wf_tlv (new_entries_tlv es).
Proof.
  intros es H Hw. unfold new_entries_tlv, wf_tlv. cbn [tlv_len]. unfold u8.
  assert (E : (N.of_nat (length es) mod 256 * 16) mod 256 = 16 * N.of_nat (length es)) by lia.
  rewrite E. repeat split; try lia. assumption.
Qed.

Lemma new_entries_tlvs_ok : forall fuel es, (length es < fuel)%nat -> Forall wf_entry es ->
  exists ts, new_entries_tlvs fuel es = Ok ts /\ Forall wf_tlv ts /\ map norm_tlv ts = ts /\
             concat (map tlv_entries ts) = es.
Proof.
  induction fuel as [|f IH]; intros es H Hw; [lia|]. cbn [new_entries_tlvs].
  destruct (15 <? length es)%nat eqn:E.
  - apply Nat.ltb_lt in E.
    destruct (IH (skipn 15 es)) as (ts & E1 & W & Nm & C).
    { rewrite skipn_length. lia. }
    { apply Forall_skipn; assumption. }
    rewrite E1. cbn [bind]. eexists; split; [reflexivity|]. repeat split.
    + constructor; [|assumption]. apply wf_new_entries_tlv.
      * rewrite firstn_length. lia.
      * apply Forall_firstn; assumption.
    + cbn [map norm_tlv new_entries_tlv]. unfold new_entries_tlv at 1. cbn [norm_tlv]. f_equal. assumption.
    + cbn [map concat tlv_entries new_entries_tlv]. unfold new_entries_tlv. cbn [tlv_entries]. rewrite C. apply firstn_skipn.
  - apply Nat.ltb_ge in E. eexists; split; [reflexivity|]. repeat split.
    + constructor; [|constructor]. apply wf_new_entries_tlv; assumption.
    + cbn. rewrite app_nil_r. reflexivity.
Qed.

Lemma insert_entry_perm : forall e l, Permutation (insert_entry e l) (e :: l).
Proof.
  induction l as [|x l IH]; cbn [insert_entry]; [apply Permutation_refl|].
  destruct (entry_lt e x); [apply Permutation_refl|].
  eapply perm_trans; [apply perm_skip; exact IH|apply perm_swap].
Qed.

Lemma sort_entries_perm_gen : forall l acc,
  Permutation (fold_left (fun a e => insert_entry e a) l acc) (l ++ acc).
Proof.
  induction l as [|e l IH]; intros acc; cbn [fold_left app]; [apply Permutation_refl|].
  eapply perm_trans; [apply IH|].
  eapply perm_trans; [apply Permutation_app_head; apply insert_entry_perm|].
  apply Permutation_sym, Permutation_middle.
Qed.

Lemma sort_entries_perm : forall l, Permutation (sort_entries l) l.
Proof. intros. unfold sort_entries. eapply perm_trans; [apply sort_entries_perm_gen|]. rewrite app_nil_r. apply Permutation_refl. Qed.

Lemma sort_entries_length : forall l, length (sort_entries l) = length l.
Proof. intros. apply Permutation_length, sort_entries_perm. Qed.

Lemma sort_entries_wf : forall l, Forall wf_entry l -> Forall wf_entry (sort_entries l).
Proof.
  intros l H. apply Forall_forall. intros x Hx. eapply Forall_forall; [exact H|].
  eapply Permutation_in; [apply sort_entries_perm|exact Hx].
Qed.

Definition good_csnp (c : csnp) : Prop := wf_csnp c /\ norm_csnp c = c.
Definition good_psnp (p : psnp) : Prop := wf_psnp p /\ norm_psnp p = p.

Lemma slice_ok : forall (A : Type) (l : list A) lo hi, (lo <= hi)%nat -> (hi <= length l)%nat ->
  slice l lo hi = Ok (firstn (hi - lo) (skipn lo l)).
Proof.
  intros A l lo hi H1 H2. unfold slice.
  replace ((lo <=? hi)%nat && (hi <=? length l)%nat) with true; [reflexivity|].
  symmetry. apply andb_true_iff. split; apply Nat.leb_le; assumption.
Qed.

Lemma skipn_add : forall (A : Type) n m (l : list A), skipn (n + m) l = skipn m (skipn n l).
Proof.
  induction n as [|n IH]; intros m l; [reflexivity|]. destruct l; cbn [Nat.add skipn].
  - destruct m; reflexivity.
  - apply IH.
Qed.

(* one chunk: the remaining entries from start on, at most per of them; the chunks partition the list *)
Lemma chunk_split : forall (A : Type) (l : list A) start per,
  firstn (Nat.min per (length l - start)) (skipn start l) ++ skipn (start + per) l = skipn start l.
Proof.
  intros A l start per.
  rewrite skipn_add.
  destruct (Nat.le_ge_cases per (length l - start)) as [H|H].
  - rewrite Nat.min_l by assumption. apply firstn_skipn.
  - rewrite Nat.min_r by assumption.
    rewrite firstn_all2 by (rewrite skipn_length; lia).
    rewrite (skipn_all2 (skipn start l)) by (rewrite skipn_length; lia). apply app_nil_r.
Qed.

Lemma tlvs_len16_u16 : forall ts k, (k + tlvs_len16 ts) mod 65536 < 65536.
Proof. intros. apply N.mod_lt. discriminate. Qed.

Lemma csnp_loop_ok : forall cnt i per src es,
  (1 <= per)%nat -> len_is src 7 -> Forall wf_entry es ->
  (length es <= (i + cnt) * per)%nat ->
  (0 < cnt -> (i + cnt - 1) * per < length es)%nat ->
  exists cs, csnp_loop cnt i per src es = Ok cs /\ length cs = cnt /\ Forall good_csnp cs /\
             concat (map csnp_entries cs) = skipn (i * per) es.
Proof.
  induction cnt as [|cnt IH]; intros i per src es Hp Hs Hw H0 H1.
  - exists []. cbn. repeat split; [constructor|]. rewrite skipn_all2; [reflexivity|]. rewrite Nat.add_0_r in H0. exact H0.
  - cbn [csnp_loop].
    assert (Hst : (i * per < length es)%nat).
    { specialize (H1 ltac:(lia)). nia. }
    replace (length es <? i * per)%nat with false by (symmetry; apply Nat.ltb_ge; lia).
    set (start := (i * per)%nat) in *.
    set (e := Nat.min per (length es - start)).
    assert (He : (1 <= e)%nat) by (unfold e; lia).
    rewrite slice_ok by (unfold e; lia). cbn [bind].
    replace (start + e - start)%nat with e by lia.
    remember (firstn e (skipn start es)) as chunk eqn:Ec.
    assert (Hcl : length chunk = e).
    { subst chunk. rewrite firstn_length, skipn_length. unfold e. lia. }
    assert (Hcw : Forall wf_entry chunk).
    { subst chunk. apply Forall_firstn, Forall_skipn. assumption. }
    destruct chunk as [|first rest]; [cbn in Hcl; lia|].
    destruct (new_entries_tlvs_ok (S (length (first :: rest))) (first :: rest) ltac:(lia) Hcw) as (ts & E1 & W & Nm & C).
    rewrite E1. cbn [bind].
    destruct (IH (S i) per src es Hp Hs Hw) as (cs & E2 & L & G & C2).
    { replace (S i + cnt)%nat with (i + S cnt)%nat by lia. exact H0. }
    { intros Hc. specialize (H1 ltac:(lia)). replace (S i + cnt - 1)%nat with (i + S cnt - 1)%nat by lia. exact H1. }
    rewrite E2. cbn [bind]. eexists; split; [reflexivity|]. repeat split.
    + cbn [length]. lia.
    + constructor; [|assumption]. split.
      * unfold wf_csnp, new_csnp. cbn [cs_len cs_src cs_start cs_end cs_tlvs].
        inversion Hcw as [|? ? Hf Hr]; subst.
        repeat split; try assumption.
        -- apply tlvs_len16_u16.
        -- apply Hf.
        -- apply (Forall_last _ (fun x => len_is (le_id x) 8) (first :: rest) first).
           ++ eapply Forall_impl; [|exact Hcw]. intros a Ha. apply Ha.
           ++ apply Hf.
      * unfold norm_csnp, new_csnp. cbn [cs_len cs_src cs_start cs_end cs_tlvs]. rewrite Nm. reflexivity.
    + cbn [map concat]. unfold csnp_entries at 1, new_csnp. cbn [cs_tlvs]. rewrite C, C2, Ec.
      unfold e, start. replace (S i * per)%nat with (i * per + per)%nat by lia. apply chunk_split.
Qed.

Lemma ceil_div_bounds : forall n per, (1 <= per)%nat ->
  (n <= ceil_div n per * per)%nat /\ (0 < ceil_div n per -> (ceil_div n per - 1) * per < n)%nat /\
  (ceil_div n per = 0 -> n = 0)%nat.
Proof.
  intros n per H. unfold ceil_div.
  pose proof (Nat.div_mod (n + per - 1) per ltac:(lia)) as D.
  pose proof (Nat.mod_upper_bound (n + per - 1) per ltac:(lia)) as U.
  set (q := ((n + per - 1) / per)%nat) in *. set (r := ((n + per - 1) mod per)%nat) in *.
  repeat split; nia.
Qed.

Lemma set_first_start_ok : forall cs, cs <> [] -> Forall good_csnp cs ->
  exists cs', set_first_start cs = Ok cs' /\ length cs' = length cs /\ Forall good_csnp cs' /\
              concat (map csnp_entries cs') = concat (map csnp_entries cs).
Proof.
  intros [|c r] H G; [contradiction|]. inversion G as [|? ? [W Nm] Gr]; subst. destruct c as [len src st en ts].
  eexists; split; [reflexivity|]. repeat split.
  - constructor; [|assumption]. destruct W as (W1 & W2 & W3 & W4 & W5). split.
    + unfold wf_csnp. cbn [cs_len cs_src cs_start cs_end cs_tlvs]. repeat split; try assumption.
    + unfold norm_csnp in *. cbn [cs_len cs_src cs_start cs_end cs_tlvs] in *. injection Nm as Nm. rewrite Nm. reflexivity.
Qed.

Lemma set_last_end_ok : forall cs, cs <> [] -> Forall good_csnp cs ->
  exists cs', set_last_end cs = Ok cs' /\ length cs' = length cs /\ Forall good_csnp cs' /\
              concat (map csnp_entries cs') = concat (map csnp_entries cs).
Proof.
  induction cs as [|c r IH]; intros H G; [contradiction|]. inversion G as [|? ? [W Nm] Gr]; subst.
  destruct r as [|c2 r].
  - destruct c as [len src st en ts]. eexists; split; [reflexivity|]. repeat split.
    constructor; [|constructor]. destruct W as (W1 & W2 & W3 & W4 & W5). split.
    + unfold wf_csnp. cbn [cs_len cs_src cs_start cs_end cs_tlvs]. repeat split; try assumption.
    + unfold norm_csnp in *. cbn [cs_len cs_src cs_start cs_end cs_tlvs] in *. injection Nm as Nm. rewrite Nm. reflexivity.
  - destruct (IH ltac:(discriminate) Gr) as (r' & E & L & G' & C).
    cbn [set_last_end]. cbn [set_last_end] in E. rewrite E. cbn [bind].
    eexists; split; [reflexivity|]. repeat split.
    + cbn [length] in *. lia.
    + constructor; [split; assumption|assumption].
    + cbn [map concat]. rewrite C. reflexivity.
Qed.

Theorem new_csnps_ok : forall src es maxlen,
  len_is src 7 -> Forall wf_entry es ->
  exists cs, new_csnps src es maxlen = Ok cs /\ Forall good_csnp cs /\
    ((1 <= entries_per_pdu (maxlen - 33))%Z -> concat (map csnp_entries cs) = sort_entries es).
Proof.
  intros src es maxlen Hs Hw. unfold new_csnps.
  destruct (entries_per_pdu (maxlen - 33) <? 1)%Z eqn:Ep.
  { exists []. split; [reflexivity|]. split; [constructor|]. lia. }
  set (per := Z.to_nat (entries_per_pdu (maxlen - 33))).
  assert (Hp : (1 <= per)%nat) by (unfold per; lia).
  destruct (ceil_div_bounds (length es) per Hp) as (B1 & B2 & B3).
  destruct (ceil_div (length es) per =? 0)%nat eqn:En.
  { apply Nat.eqb_eq in En. exists []. split; [reflexivity|]. split; [constructor|]. intros _.
    specialize (B3 En). destruct es; [reflexivity|discriminate]. }
  apply Nat.eqb_neq in En.
  destruct (csnp_loop_ok (ceil_div (length es) per) 0 per src (sort_entries es) Hp Hs (sort_entries_wf _ Hw))
    as (cs & E & L & G & C).
  { rewrite sort_entries_length. cbn [Nat.add]. exact B1. }
  { intros _. rewrite sort_entries_length. cbn [Nat.add]. apply B2. lia. }
  rewrite E. cbn [bind].
  destruct (set_first_start_ok cs) as (cs1 & E1 & L1 & G1 & C1); [destruct cs; [cbn in L; lia|discriminate]|assumption|].
  rewrite E1. cbn [bind].
  destruct (set_last_end_ok cs1) as (cs2 & E2 & L2 & G2 & C2); [destruct cs1; [cbn in L1; lia|discriminate]|assumption|].
  exists cs2. split; [exact E2|]. split; [assumption|]. intros _. rewrite C2, C1, C. reflexivity.
Qed.

Lemma psnp_len_u16 : forall ts k, fold_left (fun acc t => (acc + tlv_len t + 2) mod 65536) ts k < 65536 \/ ts = [].
Proof.
  intros ts. induction ts as [|t ts IH] using rev_ind; intros k; [right; reflexivity|left].
  rewrite fold_left_app. cbn [fold_left]. apply N.mod_lt. discriminate.
Qed.

Lemma psnp_loop_ok : forall cnt i per src es,
  (1 <= per)%nat -> len_is src 7 -> Forall wf_entry es ->
  (length es <= (i + cnt) * per)%nat ->
  (0 < cnt -> (i + cnt - 1) * per < length es)%nat ->
  exists ps, psnp_loop cnt i per src es = Ok ps /\ length ps = cnt /\ Forall good_psnp ps /\
             concat (map psnp_entries ps) = skipn (i * per) es.
Proof.
  induction cnt as [|cnt IH]; intros i per src es Hp Hs Hw H0 H1.
  - exists []. cbn. repeat split; [constructor|]. rewrite skipn_all2; [reflexivity|]. rewrite Nat.add_0_r in H0. exact H0.
  - cbn [psnp_loop].
    assert (Hst : (i * per < length es)%nat).
    { specialize (H1 ltac:(lia)). nia. }
    replace (length es <? i * per)%nat with false by (symmetry; apply Nat.ltb_ge; lia).
    set (start := (i * per)%nat) in *.
    set (e := Nat.min per (length es - start)).
    assert (He : (1 <= e)%nat) by (unfold e; lia).
    rewrite slice_ok by (unfold e; lia). cbn [bind].
    replace (start + e - start)%nat with e by lia.
    remember (firstn e (skipn start es)) as chunk eqn:Ec.
    assert (Hcl : length chunk = e).
    { subst chunk. rewrite firstn_length, skipn_length. unfold e. lia. }
    assert (Hcw : Forall wf_entry chunk).
    { subst chunk. apply Forall_firstn, Forall_skipn. assumption. }
    destruct chunk as [|first rest]; [cbn in Hcl; lia|].
    unfold new_psnp.
    destruct (new_entries_tlvs_ok (S (length (first :: rest))) (first :: rest) ltac:(lia) Hcw) as (ts & E1 & W & Nm & C).
    rewrite E1. cbn [bind].
    destruct (IH (S i) per src es Hp Hs Hw) as (ps & E2 & L & G & C2).
    { replace (S i + cnt)%nat with (i + S cnt)%nat by lia. exact H0. }
    { intros Hc. specialize (H1 ltac:(lia)). replace (S i + cnt - 1)%nat with (i + S cnt - 1)%nat by lia. exact H1. }
    rewrite E2. cbn [bind]. eexists; split; [reflexivity|]. repeat split.
    + cbn [length]. lia.
    + constructor; [|assumption]. split.
      * unfold wf_psnp. cbn [ps_len ps_src ps_tlvs]. repeat split; try assumption.
        destruct (psnp_len_u16 ts 17) as [H|H]; [exact H|]. subst ts. cbn in C. discriminate C.
      * unfold norm_psnp. cbn [ps_len ps_src ps_tlvs]. rewrite Nm. reflexivity.
    + cbn [map concat]. unfold psnp_entries at 1. cbn [ps_tlvs]. rewrite C, C2, Ec.
      unfold e, start. replace (S i * per)%nat with (i * per + per)%nat by lia. apply chunk_split.
Qed.

Theorem new_psnps_ok : forall src es maxlen,
  len_is src 7 -> Forall wf_entry es ->
  exists ps, new_psnps src es maxlen = Ok ps /\ Forall good_psnp ps /\
    ((1 <= entries_per_pdu (maxlen - 17))%Z -> concat (map psnp_entries ps) = es).
Proof.
  intros src es maxlen Hs Hw. unfold new_psnps.
  destruct (entries_per_pdu (maxlen - 17) <? 1)%Z eqn:Ep.
  { exists []. split; [reflexivity|]. split; [constructor|]. lia. }
  set (per := Z.to_nat (entries_per_pdu (maxlen - 17))).
  assert (Hp : (1 <= per)%nat) by (unfold per; lia).
  destruct (ceil_div_bounds (length es) per Hp) as (B1 & B2 & B3).
  destruct (psnp_loop_ok (ceil_div (length es) per) 0 per src es Hp Hs Hw) as (ps & E & L & G & C).
  { cbn [Nat.add]. exact B1. }
  { intros H. cbn [Nat.add]. apply B2. assumption. }
  exists ps. split; [exact E|]. split; [assumption|]. intros _. rewrite C. reflexivity.
Qed.

(* every PDU NewCSNPs / NewPSNPs returns decodes back to itself *)
Theorem new_csnps_roundtrip : forall src es maxlen llc h,
  len_is src 7 -> Forall wf_entry es -> length llc = 3%nat -> h_type h = 25 ->
  exists cs, new_csnps src es maxlen = Ok cs /\
    Forall (fun c => decode (enc_packet llc (mkPacket h (BCsnp c))) = Ok (mkPacket h (BCsnp c))) cs /\
    ((1 <= entries_per_pdu (maxlen - 33))%Z ->
       concat (map csnp_entries cs) = sort_entries es /\ Permutation (sort_entries es) es).
Proof.
  intros src es maxlen llc h Hs Hw Hl Ht.
  destruct (new_csnps_ok src es maxlen Hs Hw) as (cs & E & G & C).
  exists cs. split; [exact E|]. split.
  - eapply Forall_impl; [|exact G]. intros c [W Nm]. rewrite roundtrip_csnp by assumption. rewrite Nm. reflexivity.
  - intros Hp. split; [apply C; exact Hp|apply sort_entries_perm].
Qed.

Theorem new_psnps_roundtrip : forall src es maxlen llc h,
  len_is src 7 -> Forall wf_entry es -> length llc = 3%nat -> h_type h = 27 ->
  exists ps, new_psnps src es maxlen = Ok ps /\
    Forall (fun p => decode (enc_packet llc (mkPacket h (BPsnp p))) = Ok (mkPacket h (BPsnp p))) ps /\
    ((1 <= entries_per_pdu (maxlen - 17))%Z -> concat (map psnp_entries ps) = es).
Proof.
  intros src es maxlen llc h Hs Hw Hl Ht.
  destruct (new_psnps_ok src es maxlen Hs Hw) as (ps & E & G & C).
  exists ps. split; [exact E|]. split.
  - eapply Forall_impl; [|exact G]. intros c [W Nm]. rewrite roundtrip_psnp by assumption. rewrite Nm. reflexivity.
  - exact C.
Qed.

(* ------------------------------------------------------------------ TLV constructors *)

Lemma area_len_fold : forall areas acc,
  acc + N.of_nat (length (concat (map enc_area areas))) < 256 ->
  fold_left (fun acc a => (acc + N.of_nat (length a) + 1) mod 256) areas acc =
  acc + N.of_nat (length (concat (map enc_area areas))).
Proof.
  induction areas as [|a areas IH]; intros acc H; cbn [fold_left map concat length] in *; [lia|].
  rewrite app_length, enc_area_length in *. rewrite N.mod_small by lia. rewrite IH; lia.
Qed.

Lemma new_area_wf : forall areas, N.of_nat (length (concat (map enc_area areas))) < 256 -> wf_tlv (new_area_tlv areas).
Proof.
  intros areas H. unfold new_area_tlv, wf_tlv. cbn [tlv_len]. rewrite area_len_fold by lia.
  unfold u8. repeat split; lia.
Qed.

Lemma new_dynhost_wf : forall nm, N.of_nat (length nm) < 256 -> wf_tlv (new_dynhost_tlv nm).
Proof. intros nm H. unfold new_dynhost_tlv, wf_tlv, u8. cbn [tlv_len]. rewrite N.mod_small by lia. repeat split; lia. Qed.

Lemma new_proto_wf : forall ids, N.of_nat (length ids) < 256 -> wf_tlv (new_proto_tlv ids).
Proof. intros ids H. unfold new_proto_tlv, wf_tlv, u8. cbn [tlv_len]. rewrite N.mod_small by lia. repeat split; lia. Qed.

Lemma new_ipif_wf : forall addrs, Forall u32 addrs -> 4 * N.of_nat (length addrs) < 256 -> wf_tlv (new_ipif_tlv addrs).
Proof.
  intros addrs Ha H. unfold new_ipif_tlv, wf_tlv, u8. cbn [tlv_len]. rewrite N.mod_small by lia.
  repeat split; try lia. assumption.
Qed.

Lemma new_entries_wf : forall es, Forall wf_entry es -> 16 * N.of_nat (length es) < 256 -> wf_tlv (new_entries_tlv es).
Proof. intros es Hw H. apply wf_new_entries_tlv; [lia|assumption]. Qed.

Lemma new_p2padj_wf : forall st ecid, u32 ecid -> wf_tlv (new_p2padj_tlv st ecid).
Proof. intros st ecid H. unfold new_p2padj_tlv, wf_tlv, u8. cbn [tlv_len]. repeat split; try lia; try assumption. left. repeat split. Qed.

Lemma new_padding_wf : forall len, len < 256 -> wf_tlv (new_padding_tlv len).
Proof.
  intros len H. unfold new_padding_tlv, wf_tlv, wf_raw, u8. cbn [tlv_len tlv_type tlv_value kind_of].
  rewrite repeat_length. repeat split; lia.
Qed.

Lemma new_terid_wf : forall a, wf_tlv (new_terid_tlv a).
Proof. intros a. unfold new_terid_tlv, wf_tlv, wf_raw, u8. cbn. repeat split; lia. Qed.

(* a sub-TLV whose length byte says what its Serialize writes *)
Definition sub_ok (s : subtlv) : Prop :=
  match s with
  | SLinkLR _ l _ _ => l = 8
  | SIPv4 _ l _ => l = 4
  | SRaw _ l v => l = N.of_nat (length v)
  end.

Lemma enc_sub_length : forall s, sub_ok s -> N.of_nat (length (enc_sub s)) = sub_len s + 2.
Proof. intros [ty l a b|ty l a|ty l v] H; cbn in *; subst; cbn; lia. Qed.

Definition nbr_ok (n : extisnbr) : Prop :=
  len_is (xn_id n) 7 /\ xn_sublen n = N.of_nat (length (concat (map enc_sub (xn_subs n)))).

Lemma extis_nbr_fold : forall subs n, Forall sub_ok subs -> nbr_ok n ->
  N.of_nat (length (concat (map enc_sub (xn_subs n ++ subs)))) < 256 ->
  nbr_ok (fold_left extis_nbr_add_sub subs n).
Proof.
  induction subs as [|s subs IH]; intros n Hs Hn Hl; [exact Hn|]. inversion Hs; subst.
  cbn [fold_left]. apply IH; [assumption| |].
  - destruct Hn as [Hi Hn]. split; [exact Hi|]. unfold extis_nbr_add_sub. cbn [xn_id xn_sublen xn_subs].
    rewrite map_app, concat_app, app_length. cbn [map concat]. rewrite app_nil_r.
    rewrite map_app, concat_app, app_length in Hl. cbn [map concat] in Hl. rewrite app_length in Hl.
    pose proof (enc_sub_length s ltac:(assumption)). rewrite N.mod_small by lia. lia.
  - unfold extis_nbr_add_sub. cbn [xn_subs]. rewrite <- app_assoc. exact Hl.
Qed.

Lemma new_extis_nbr_ok : forall id m subs, len_is id 7 -> Forall sub_ok subs ->
  N.of_nat (length (concat (map enc_sub subs))) < 256 -> nbr_ok (new_extis_nbr id m subs).
Proof.
  intros id m subs Hi Hs Hl. unfold new_extis_nbr. apply extis_nbr_fold; [assumption| |exact Hl].
  split; [exact Hi|reflexivity].
Qed.

Lemma enc_extisnbr_length : forall n, nbr_ok n -> N.of_nat (length (enc_extisnbr n)) = 11 + xn_sublen n.
Proof.
  intros n [Hi Hs]. unfold enc_extisnbr, len_is in *. rewrite !app_length. cbn [length tl be32]. rewrite Hi, Hs. set (L := length (concat (map enc_sub (xn_subs n)))). clearbody L. clear. lia.
Qed.

Lemma extis_fold : forall ns ty len ns0, Forall nbr_ok ns ->
  len = N.of_nat (length (concat (map enc_extisnbr ns0))) ->
  N.of_nat (length (concat (map enc_extisnbr (ns0 ++ ns)))) < 256 ->
  fold_left extis_add ns (TExtIS ty len ns0) =
  TExtIS ty (N.of_nat (length (concat (map enc_extisnbr (ns0 ++ ns))))) (ns0 ++ ns).
Proof.
  induction ns as [|n ns IH]; intros ty len ns0 Hn Hl Hb.
  - cbn [fold_left]. rewrite app_nil_r. subst len. reflexivity.
  - inversion Hn; subst. cbn [fold_left extis_add].
    replace (ns0 ++ n :: ns) with ((ns0 ++ [n]) ++ ns) in * by (rewrite <- app_assoc; reflexivity).
    apply IH; [assumption| |exact Hb].
    rewrite map_app, concat_app, app_length. cbn [map concat]. rewrite app_nil_r.
    rewrite !map_app, !concat_app, !app_length in Hb. cbn [map concat] in Hb. rewrite app_nil_r in Hb.
    pose proof (enc_extisnbr_length n ltac:(assumption)). rewrite N.mod_small by lia. lia.
Qed.

Lemma new_extis_wf : forall ns, Forall nbr_ok ns ->
  N.of_nat (length (concat (map enc_extisnbr ns))) < 256 -> wf_tlv (new_extis_tlv ns).
Proof.
  intros ns Hn Hb. unfold new_extis_tlv. rewrite (extis_fold ns 22 0 []); [|assumption|reflexivity|exact Hb].
  cbn [app]. unfold wf_tlv, wf_raw, u8. cbn [tlv_len tlv_type tlv_value kind_of]. repeat split; lia.
Qed.

Lemma bytes_in_addr_le : forall p, bytes_in_addr p <= 8.
Proof. intros. unfold bytes_in_addr. lia. Qed.

Lemma enc_extip_length : forall m p a, N.of_nat (length (enc_extip (mkExtIp m p a []))) = 5 + bytes_in_addr p.
Proof.
  intros. unfold enc_extip. cbn [xp_metric xp_udpfx xp_addr xp_subs map concat]. rewrite app_nil_r.
  rewrite app_length. cbn [length be32]. rewrite firstn_length.
  replace (length (be32 a ++ [0; 0; 0; 0])) with 8%nat by reflexivity.
  pose proof (bytes_in_addr_le p). lia.
Qed.

Definition plain_reach (r : extipreach) : Prop := xp_subs r = [].

Lemma extip_fold : forall rs ty len rs0, Forall plain_reach rs ->
  len = N.of_nat (length (concat (map enc_extip rs0))) ->
  N.of_nat (length (concat (map enc_extip (rs0 ++ rs)))) < 256 ->
  fold_left extip_add rs (TExtIP ty len rs0) =
  TExtIP ty (N.of_nat (length (concat (map enc_extip (rs0 ++ rs))))) (rs0 ++ rs).
Proof.
  induction rs as [|r rs IH]; intros ty len rs0 Hp Hl Hb.
  - cbn [fold_left]. rewrite app_nil_r. subst len. reflexivity.
  - inversion Hp as [|? ? Hr Hrs]; subst. cbn [fold_left extip_add].
    replace (rs0 ++ r :: rs) with ((rs0 ++ [r]) ++ rs) in * by (rewrite <- app_assoc; reflexivity).
    apply IH; [assumption| |exact Hb].
    rewrite map_app, concat_app, app_length. cbn [map concat]. rewrite app_nil_r.
    rewrite !map_app, !concat_app, !app_length in Hb. cbn [map concat] in Hb. rewrite app_nil_r in Hb.
    destruct r as [m p a subs]. unfold plain_reach in Hr. cbn in Hr. subst subs.
    pose proof (enc_extip_length m p a). cbn [xp_udpfx]. rewrite N.mod_small by lia. lia.
Qed.

Lemma new_extip_wf : forall rs,
  N.of_nat (length (concat (map enc_extip (map (fun r => match r with (m, p, a) => mkExtIp m p a [] end) rs)))) < 256 ->
  wf_tlv (new_extip_tlv rs).
Proof.
  intros rs Hb. unfold new_extip_tlv. rewrite (extip_fold _ 135 0 []); [| |reflexivity|exact Hb].
  - cbn [app]. unfold wf_tlv, wf_raw, u8. cbn [tlv_len tlv_type tlv_value kind_of]. repeat split; lia.
  - apply Forall_forall. intros r Hr. apply in_map_iff in Hr. destruct Hr as ([[m p] a] & <- & _). reflexivity.
Qed.

(* every TLV constructor returns a well-formed TLV as long as its content fits into 255 value bytes *)
Theorem ctors_wf :
  (forall areas, N.of_nat (length (concat (map enc_area areas))) < 256 -> wf_tlv (new_area_tlv areas)) /\
  (forall nm, N.of_nat (length nm) < 256 -> wf_tlv (new_dynhost_tlv nm)) /\
  (forall ids, N.of_nat (length ids) < 256 -> wf_tlv (new_proto_tlv ids)) /\
  (forall addrs, Forall u32 addrs -> 4 * N.of_nat (length addrs) < 256 -> wf_tlv (new_ipif_tlv addrs)) /\
  (forall es, Forall wf_entry es -> 16 * N.of_nat (length es) < 256 -> wf_tlv (new_entries_tlv es)) /\
  (forall st ecid, u32 ecid -> wf_tlv (new_p2padj_tlv st ecid)) /\
  (forall len, len < 256 -> wf_tlv (new_padding_tlv len)) /\
  (forall a, wf_tlv (new_terid_tlv a)) /\
  (forall specs : list (list N * N * list subtlv),
     Forall (fun s => match s with (id, _, subs) =>
       len_is id 7 /\ Forall sub_ok subs /\ N.of_nat (length (concat (map enc_sub subs))) < 256 end) specs ->
     let ns := map (fun s => match s with (id, m, subs) => new_extis_nbr id m subs end) specs in
     N.of_nat (length (concat (map enc_extisnbr ns))) < 256 -> wf_tlv (new_extis_tlv ns)) /\
  (forall rs : list (N * N * N),
     N.of_nat (length (concat (map enc_extip (map (fun r => match r with (m, p, a) => mkExtIp m p a [] end) rs)))) < 256 ->
     wf_tlv (new_extip_tlv rs)).
Proof.
  split; [exact new_area_wf|]. split; [exact new_dynhost_wf|]. split; [exact new_proto_wf|].
  split; [exact new_ipif_wf|]. split; [exact new_entries_wf|]. split; [exact new_p2padj_wf|].
  split; [exact new_padding_wf|]. split; [exact new_terid_wf|]. split; [|exact new_extip_wf].
  intros specs Hs ns Hb. apply new_extis_wf; [|exact Hb]. subst ns.
  apply Forall_forall. intros n Hn. apply in_map_iff in Hn. destruct Hn as ([[id m] subs] & <- & Hin).
  eapply Forall_forall in Hs; [|exact Hin]. cbn in Hs. destruct Hs as (H1 & H2 & H3).
  apply new_extis_nbr_ok; assumption.
Qed.
