(* C30 proofs: round trips, absence of panics, sufficiency of the fuel, NewCSNPs/NewPSNPs. *)
From Coq Require Import List NArith ZArith Bool Arith Lia ZifyBool ZifyNat ZifyN.
Import ListNotations.
From BioVerif Require Import Model.ISISCodec Spec.ISISCodecSpec.
Open Scope N_scope.
Ltac Zify.zify_post_hook ::= Z.div_mod_to_equations.

(* ------------------------------------------------------------------ readers on what writers wrote *)

Lemma rd_u16_be16 : forall x r, x < 65536 -> rd_u16 (be16 x ++ r) = Ok (x, r).
Proof. intros x r H. unfold be16, rd_u16. cbn [app]. f_equal. f_equal. lia. Qed.

Lemma rd_u32_be32 : forall x r, x < 4294967296 -> rd_u32 (be32 x ++ r) = Ok (x, r).
Proof. intros x r H. unfold be32, rd_u32. cbn [app]. f_equal. f_equal. lia. Qed.

Lemma rd_bytes_app : forall n l r, length l = n -> rd_bytes n (l ++ r) = Ok (l, r).
Proof.
  intros n l r H. unfold rd_bytes. rewrite app_length.
  replace (n <=? length l + length r)%nat with true by (symmetry; apply Nat.leb_le; lia).
  subst n. rewrite firstn_app, Nat.sub_diag, firstn_all. cbn [firstn]. rewrite app_nil_r.
  rewrite skipn_app, Nat.sub_diag, skipn_all. reflexivity.
Qed.

Lemma buf_read_app : forall l r, buf_read (length l) (l ++ r) = Ok (l, length l, r).
Proof.
  intros l r. unfold buf_read. destruct (l ++ r) eqn:E.
  - apply app_eq_nil in E. destruct E; subst. reflexivity.
  - rewrite <- E. rewrite app_length.
    replace (Nat.min (length l) (length l + length r)) with (length l) by lia.
    rewrite firstn_app, Nat.sub_diag, firstn_all. cbn [firstn repeat]. rewrite !app_nil_r.
    rewrite skipn_app, Nat.sub_diag, skipn_all. reflexivity.
Qed.

Lemma be16_length : forall x, length (be16 x) = 2%nat. Proof. reflexivity. Qed.
Lemma be32_length : forall x, length (be32 x) = 4%nat. Proof. reflexivity. Qed.

(* ------------------------------------------------------------------ TLV round trip *)

Lemma enc_area_length : forall a, length (enc_area a) = S (length a).
Proof. reflexivity. Qed.

Lemma area_loop_rt : forall areas f read tlen r,
  tlen < 256 ->
  read + N.of_nat (length (concat (map enc_area areas))) = tlen ->
  (length areas < f)%nat ->
  area_loop f read tlen (concat (map enc_area areas) ++ r) = Ok (areas, r).
Proof.
  induction areas as [|a areas IH]; intros f read tlen r Ht Hs Hf.
  - destruct f; [lia|]. cbn [map concat length app area_loop] in *.
    replace (read <? tlen) with false by lia. reflexivity.
  - destruct f; [cbn [length] in Hf; lia|].
    cbn [map concat] in *. rewrite app_length, enc_area_length in Hs.
    cbn [area_loop]. replace (read <? tlen) with true by lia.
    unfold enc_area at 1. rewrite <- app_assoc. cbn [app rd_u8 bind].
    assert (Ha : N.of_nat (length a) mod 256 = N.of_nat (length a)) by (apply N.mod_small; lia).
    rewrite Ha, Nat2N.id, buf_read_app. cbn [bind].
    rewrite IH; [reflexivity|assumption| |cbn [length] in Hf; lia].
    rewrite N.mod_small by lia. lia.
Qed.

Lemma rd_entry_rt : forall e r, wf_entry e -> rd_entry (enc_entry e ++ r) = Ok (e, r).
Proof.
  intros [life id seq cs] r (H1 & H2 & H3 & H4). unfold wf_entry, u16, u32, len_is in *. cbn in H1, H2, H3, H4.
  unfold rd_entry, enc_entry. cbn [le_life le_id le_seq le_csum].
  rewrite <- !app_assoc. rewrite rd_u16_be16 by assumption. cbn [bind].
  rewrite rd_bytes_app by assumption. cbn [bind].
  rewrite rd_u32_be32 by assumption. cbn [bind].
  rewrite rd_u16_be16 by assumption. reflexivity.
Qed.

Lemma enc_entry_length : forall e, len_is (le_id e) 8 -> length (enc_entry e) = 16%nat.
Proof. intros e H. unfold enc_entry. rewrite !app_length, H. reflexivity. Qed.

Lemma entries_loop_rt : forall es f r,
  Forall wf_entry es -> 16 * N.of_nat (length es) < 256 -> (length es < f)%nat ->
  entries_loop f (16 * N.of_nat (length es)) (concat (map enc_entry es) ++ r) = Ok (es, r).
Proof.
  induction es as [|e es IH]; intros f r Hw Hl Hf.
  - destruct f; [lia|]. reflexivity.
  - destruct f; [cbn [length] in Hf; lia|]. inversion Hw as [|? ? He Hes]; subst.
    cbn [length] in *. cbn [entries_loop map concat].
    replace (0 <? 16 * N.of_nat (S (length es))) with true by lia.
    rewrite <- app_assoc, rd_entry_rt by assumption. cbn [bind].
    replace ((16 * N.of_nat (S (length es)) + 256 - 16) mod 256) with (16 * N.of_nat (length es)) by lia.
    rewrite IH; [reflexivity|assumption|lia|lia].
Qed.

Lemma upd_app : forall pre x rest v, upd (pre ++ x :: rest) (length pre) v = Some (pre ++ v :: rest).
Proof.
  induction pre as [|p pre IH]; intros; cbn [app length upd]; [reflexivity|]. rewrite IH. reflexivity.
Qed.

Lemma proto_loop_rt : forall ids pre r,
  proto_loop (length ids) (length pre) (pre ++ repeat 0 (length ids)) (ids ++ r) = Ok (pre ++ ids, r).
Proof.
  induction ids as [|x ids IH]; intros pre r.
  - cbn. rewrite !app_nil_r. reflexivity.
  - cbn [length proto_loop repeat app rd_u8 bind]. rewrite upd_app.
    replace (pre ++ x :: repeat 0 (length ids)) with ((pre ++ [x]) ++ repeat 0 (length ids))
      by (rewrite <- app_assoc; reflexivity).
    replace (S (length pre)) with (length (pre ++ [x])) by (rewrite app_length; cbn; lia).
    rewrite IH. rewrite <- app_assoc. reflexivity.
Qed.

Lemma rd_u32s_rt : forall addrs r, Forall u32 addrs ->
  rd_u32s (length addrs) (concat (map be32 addrs) ++ r) = Ok (addrs, r).
Proof.
  induction addrs as [|a addrs IH]; intros r H; [reflexivity|].
  inversion H; subst. cbn [length rd_u32s map concat]. rewrite <- app_assoc.
  rewrite rd_u32_be32 by assumption. cbn [bind]. rewrite IH by assumption. reflexivity.
Qed.

Lemma read_unknown_rt : forall ty len v r, len = N.of_nat (length v) ->
  read_unknown ty len (v ++ r) = Ok (TUnknown ty len v, r).
Proof.
  intros ty len v r H. unfold read_unknown. subst len. rewrite Nat2N.id, buf_read_app. cbn [bind].
  rewrite Nat.eqb_refl. reflexivity.
Qed.

Lemma concat_length_ge : forall (A : Type) (f : A -> list N) l,
  (forall a, (1 <= length (f a))%nat) -> (length l <= length (concat (map f l)))%nat.
Proof.
  intros A f l H. induction l as [|a l IH]; [cbn; lia|]. cbn [map concat length]. rewrite app_length.
  specialize (H a). lia.
Qed.

Lemma wf_raw_rt : forall t f r, wf_raw t ->
  read_tlv f (enc_tlv t ++ r) = Ok (TUnknown (tlv_type t) (tlv_len t) (tlv_value t), r).
Proof.
  intros t f r [Hk Hl]. unfold read_tlv, enc_tlv. cbn [app rd_u8 bind]. rewrite Hk.
  apply read_unknown_rt. assumption.
Qed.

Lemma read_tlv_rt : forall t f r, wf_tlv t -> (length (enc_tlv t) <= f)%nat ->
  read_tlv f (enc_tlv t ++ r) = Ok (norm_tlv t, r).
Proof.
  intros t f r [Hlen Hw] Hf.
  destruct t; cbn [tlv_len] in Hlen; unfold u8 in Hlen;
    try (rewrite wf_raw_rt by exact Hw; reflexivity).
  - (* area *) destruct Hw as [-> Hl]. unfold read_tlv, enc_tlv. cbn [tlv_type tlv_len tlv_value app rd_u8 bind kind_of norm_tlv].
    unfold enc_tlv in Hf. cbn [tlv_value length] in Hf.
    rewrite area_loop_rt; [reflexivity|assumption|lia|].
    pose proof (concat_length_ge _ enc_area areas (fun a => ltac:(cbn; lia))). lia.
  - (* checksum *) destruct Hw as [-> Hc]. unfold read_tlv, enc_tlv. cbn [tlv_type tlv_len tlv_value app rd_u8 bind kind_of norm_tlv].
    rewrite rd_u16_be16 by exact Hc. reflexivity.
  - (* hostname *) destruct Hw as [-> Hl]. unfold read_tlv, enc_tlv. cbn [tlv_type tlv_len tlv_value app rd_u8 bind kind_of norm_tlv].
    rewrite rd_bytes_app by (subst len; symmetry; apply Nat2N.id). reflexivity.
  - (* protocols *) destruct Hw as [-> Hl]. unfold read_tlv, enc_tlv. cbn [tlv_type tlv_len tlv_value app rd_u8 bind kind_of norm_tlv].
    subst len. rewrite Nat2N.id.
    pose proof (proto_loop_rt ids [] r) as P. cbn [length app] in P. rewrite P. reflexivity.
  - (* ip interface addresses *) destruct Hw as (-> & Hl & Ha). unfold read_tlv, enc_tlv. cbn [tlv_type tlv_len tlv_value app rd_u8 bind kind_of norm_tlv].
    replace (N.to_nat (len / 4)) with (length addrs) by lia.
    rewrite rd_u32s_rt by assumption. reflexivity.
  - (* p2p adjacency *) destruct Hw as (-> & He & [(-> & -> & ->) | (-> & Hn & Hc)]); unfold u32, len_is in *;
      unfold read_tlv, enc_tlv; cbn [tlv_type tlv_len tlv_value app rd_u8 bind kind_of norm_tlv]; unfold read_p2padj;
      cbn [N.eqb Pos.eqb app rd_u8 bind].
    + rewrite app_nil_r. rewrite rd_u32_be32 by assumption. reflexivity.
    + rewrite <- app_assoc. rewrite rd_u32_be32 by assumption. cbn [bind].
      rewrite <- app_assoc. rewrite rd_bytes_app by assumption. cbn [bind].
      rewrite rd_u32_be32 by assumption. reflexivity.
  - (* is neighbors *) destruct Hw as [-> Hl]. unfold read_tlv, enc_tlv. cbn [tlv_type tlv_len tlv_value app rd_u8 bind kind_of norm_tlv].
    rewrite rd_bytes_app by exact Hl. reflexivity.
  - (* lsp entries *) destruct Hw as (-> & Hl & He). unfold read_tlv, enc_tlv. cbn [tlv_type tlv_len tlv_value app rd_u8 bind kind_of norm_tlv].
    subst len. rewrite entries_loop_rt; [reflexivity|assumption|assumption|].
    unfold enc_tlv in Hf. cbn [tlv_value length] in Hf.
    pose proof (concat_length_ge _ enc_entry es) as P.
    assert (Q : forall a, In a es -> (1 <= length (enc_entry a))%nat).
    { intros a _. unfold enc_entry. rewrite app_length. cbn. lia. }
    assert (length es <= length (concat (map enc_entry es)))%nat.
    { clear -es. induction es as [|e es IH]; [cbn; lia|]. cbn [map concat length]. rewrite app_length.
      unfold enc_entry at 1. rewrite app_length. cbn [length be16]. lia. }
    lia.
Qed.

Lemma read_tlvs_rt : forall ts f, Forall wf_tlv ts -> (length (enc_tlvs ts) < f)%nat ->
  read_tlvs f (enc_tlvs ts) = Ok (map norm_tlv ts).
Proof.
  induction ts as [|t ts IH]; intros f Hw Hf.
  - destruct f; [lia|]. reflexivity.
  - destruct f; [lia|]. inversion Hw as [|? ? Ht Hts]; subst.
    unfold enc_tlvs in *. cbn [map concat] in *. rewrite app_length in Hf.
    cbn [read_tlvs]. remember (enc_tlv t ++ concat (map enc_tlv ts)) as b eqn:Eb.
    destruct b as [|b0 b'].
    { unfold enc_tlv in Eb. discriminate Eb. }
    rewrite Eb. rewrite read_tlv_rt by (assumption || lia). cbn [bind].
    assert (2 <= length (enc_tlv t))%nat by (unfold enc_tlv; cbn [length]; lia).
    rewrite IH by (assumption || lia). reflexivity.
Qed.

(* ------------------------------------------------------------------ PDU round trips *)

Lemma decode_header_rt : forall llc h r, length llc = 3%nat ->
  decode_header (llc ++ enc_header h ++ r) = Ok (h, r).
Proof.
  intros llc h r H. destruct llc as [|a [|b [|c [|d l]]]]; try discriminate H.
  destruct h. reflexivity.
Qed.

Lemma tlvs_len16_lt : forall ts, (20 + tlvs_len16 ts) mod 65536 < 65536.
Proof. intros. apply N.mod_lt. discriminate. Qed.

Lemma hello_rt : forall x f, wf_hello x -> (length (enc_hello x) < f)%nat ->
  decode_p2p_hello f (enc_hello x) = Ok (norm_hello x).
Proof.
  intros [ct sys hold len lcid ts] f (Hs & Hh & Ht) Hf. unfold len_is, u16 in *. cbn in Hs, Hh, Ht.
  unfold decode_p2p_hello, enc_hello, norm_hello, hello_set_len in *.
  cbn [hl_ct hl_sys hl_hold hl_len hl_lcid hl_tlvs] in *.
  cbn [rd_u8 bind]. rewrite rd_bytes_app by assumption. cbn [bind].
  rewrite rd_u16_be16 by assumption. cbn [bind].
  rewrite rd_u16_be16 by apply tlvs_len16_lt. cbn [bind app rd_u8].
  rewrite read_tlvs_rt; [reflexivity|assumption|].
  cbn [length] in Hf. rewrite !app_length in Hf. cbn [length] in Hf. lia.
Qed.

Lemma lsp_rt : forall x f, wf_lsp x -> (length (enc_lsp x) < f)%nat ->
  decode_lsp f (enc_lsp x) = Ok (norm_lsp x).
Proof.
  intros [len life id seq cs tb ts] f (H1 & H2 & H3 & H4 & H5 & Ht) Hf. unfold len_is, u16, u32 in *.
  cbn in H1, H2, H3, H4, H5, Ht.
  unfold decode_lsp, enc_lsp, enc_lsp_cs, norm_lsp in *.
  cbn [ls_len ls_life ls_id ls_seq ls_csum ls_tb ls_tlvs] in *.
  rewrite <- ?app_assoc.
  rewrite rd_u16_be16 by assumption. cbn [bind].
  rewrite rd_u16_be16 by assumption. cbn [bind].
  rewrite rd_bytes_app by assumption. cbn [bind].
  rewrite rd_u32_be32 by assumption. cbn [bind].
  rewrite rd_u16_be16 by assumption. cbn [bind rd_u8].
  rewrite read_tlvs_rt; [reflexivity|assumption|].
  rewrite !app_length in Hf. cbn [length] in Hf. lia.
Qed.

Lemma csnp_rt : forall x f, wf_csnp x -> (length (enc_csnp x) < f)%nat ->
  decode_csnp f (enc_csnp x) = Ok (norm_csnp x).
Proof.
  intros [len src st en ts] f (H1 & H2 & H3 & H4 & Ht) Hf. unfold len_is, u16 in *.
  cbn in H1, H2, H3, H4, Ht.
  unfold decode_csnp, enc_csnp, norm_csnp in *. cbn [cs_len cs_src cs_start cs_end cs_tlvs] in *.
  rewrite rd_u16_be16 by assumption. cbn [bind].
  rewrite rd_bytes_app by assumption. cbn [bind].
  rewrite rd_bytes_app by assumption. cbn [bind].
  rewrite rd_bytes_app by assumption. cbn [bind].
  rewrite read_tlvs_rt; [reflexivity|assumption|].
  rewrite !app_length in Hf. lia.
Qed.

Lemma psnp_rt : forall x f, wf_psnp x -> (length (enc_psnp x) < f)%nat ->
  decode_psnp f (enc_psnp x) = Ok (norm_psnp x).
Proof.
  intros [len src ts] f (H1 & H2 & Ht) Hf. unfold len_is, u16 in *. cbn in H1, H2, Ht.
  unfold decode_psnp, enc_psnp, norm_psnp in *. cbn [ps_len ps_src ps_tlvs] in *.
  rewrite rd_u16_be16 by assumption. cbn [bind].
  rewrite rd_bytes_app by assumption. cbn [bind].
  rewrite read_tlvs_rt; [reflexivity|assumption|].
  rewrite !app_length in Hf. lia.
Qed.

Lemma decode_fuel_enc : forall f llc h b, length llc = 3%nat ->
  decode_fuel f (enc_packet llc (mkPacket h b)) =
  match pdukind_of (h_type h) with
  | PKHello => do x <- decode_p2p_hello f (enc_body b); Ok (mkPacket h (BHello x))
  | PKLsp => do x <- decode_lsp f (enc_body b); Ok (mkPacket h (BLsp x))
  | PKCsnp => do x <- decode_csnp f (enc_body b); Ok (mkPacket h (BCsnp x))
  | PKPsnp => do x <- decode_psnp f (enc_body b); Ok (mkPacket h (BPsnp x))
  | PKOther => Ok (mkPacket h BNone)
  end.
Proof.
  intros f llc h b H. unfold decode_fuel, enc_packet. cbn [p_hdr p_body].
  rewrite decode_header_rt by assumption. reflexivity.
Qed.

Lemma enc_packet_length : forall llc h b,
  length (enc_packet llc (mkPacket h b)) = (length llc + 8 + length (enc_body b))%nat.
Proof. intros. unfold enc_packet. cbn [p_hdr p_body]. rewrite !app_length. cbn [length enc_header]. lia. Qed.

Theorem roundtrip_hello : forall llc h x,
  length llc = 3%nat -> h_type h = 17 -> wf_hello x ->
  decode (enc_packet llc (mkPacket h (BHello x))) = Ok (mkPacket h (BHello (norm_hello x))).
Proof.
  intros llc h x Hl Ht Hw. unfold decode. rewrite decode_fuel_enc by assumption. rewrite Ht. cbn [pdukind_of enc_body].
  rewrite hello_rt; [reflexivity|assumption|]. rewrite enc_packet_length. cbn [enc_body]. lia.
Qed.

Theorem roundtrip_lsp : forall llc h x,
  length llc = 3%nat -> h_type h = 20 -> wf_lsp x ->
  decode (enc_packet llc (mkPacket h (BLsp x))) = Ok (mkPacket h (BLsp (norm_lsp x))).
Proof.
  intros llc h x Hl Ht Hw. unfold decode. rewrite decode_fuel_enc by assumption. rewrite Ht. cbn [pdukind_of enc_body].
  rewrite lsp_rt; [reflexivity|assumption|]. rewrite enc_packet_length. cbn [enc_body]. lia.
Qed.

Theorem roundtrip_csnp : forall llc h x,
  length llc = 3%nat -> h_type h = 25 -> wf_csnp x ->
  decode (enc_packet llc (mkPacket h (BCsnp x))) = Ok (mkPacket h (BCsnp (norm_csnp x))).
Proof.
  intros llc h x Hl Ht Hw. unfold decode. rewrite decode_fuel_enc by assumption. rewrite Ht. cbn [pdukind_of enc_body].
  rewrite csnp_rt; [reflexivity|assumption|]. rewrite enc_packet_length. cbn [enc_body]. lia.
Qed.

Theorem roundtrip_psnp : forall llc h x,
  length llc = 3%nat -> h_type h = 27 -> wf_psnp x ->
  decode (enc_packet llc (mkPacket h (BPsnp x))) = Ok (mkPacket h (BPsnp (norm_psnp x))).
Proof.
  intros llc h x Hl Ht Hw. unfold decode. rewrite decode_fuel_enc by assumption. rewrite Ht. cbn [pdukind_of enc_body].
  rewrite psnp_rt; [reflexivity|assumption|]. rewrite enc_packet_length. cbn [enc_body]. lia.
Qed.
