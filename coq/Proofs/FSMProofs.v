(* Proofs for C23 (and the framing lemma shared with C21): every step of the session model is a step
   of the abstract RFC 4271 machine of Spec/RFC4271FSM.v. *)
From Coq Require Import List NArith Bool Lia.
Import ListNotations.
From BioVerif Require Import Model.FSM Spec.RFC4271FSM.
Local Open Scope N_scope.

(* ---------------------------------------------------------------- framing never panics *)

Lemma recv_msg_no_panic : forall len avail, recv_msg len avail <> FrPanic.
Proof.
  intros len avail. unfold recv_msg, slice_in_range, MinLen, MaxLen.
  destruct ((len <? 19) || (4096 <? len)) eqn:G; [discriminate|].
  apply orb_false_elim in G. destruct G as [G1 G2].
  apply N.ltb_ge in G1. apply N.ltb_ge in G2.
  assert (H1 : (19 <=? len) = true) by (apply N.leb_le; exact G1).
  assert (H2 : (len <=? 4096) = true) by (apply N.leb_le; exact G2).
  rewrite H1, H2. cbn [andb negb].
  destruct (avail <? len - 19); discriminate.
Qed.

Lemma frame_of_no_panic : forall m, frame_of m <> FrPanic.
Proof. intros [ | | | | | mk len typ avail | |]; cbn [frame_of]; try discriminate. apply recv_msg_no_panic. Qed.

(* ---------------------------------------------------------------- invariant *)

Definition inv (s : sess) : Prop :=
  (s_att s = true <-> s_st s = Established) /\
  (in_session (s_st s) = true -> exists b, s_conn s = ConnOpen b).

Lemma inv_init : forall c, inv (init_sess c).
Proof.
  intro c. unfold inv, init_sess. cbn. destruct (c_passive c); cbn; split; try (split; discriminate); discriminate.
Qed.

Ltac innermost x :=
  match x with
  | context [match ?y with _ => _ end] => innermost y
  | _ => destruct x eqn:?
  end.
Ltac break_match :=
  match goal with
  | |- context [match ?x with _ => _ end] => innermost x
  end.

Ltac rdx :=
  cbv beta iota zeta delta
    [step handle enter cl wr wr_ok listens uninit close_bump_idle decode_error_exit open_received
     set_st set_att set_conn set_neg set_retry set_upd set_imp bump hold_expired
     s_st s_att s_conn s_neg s_retry s_upd s_imp sname_eqb andb negb fst snd app
     inv abs in_session is_down a_st a_att a_open].

Ltac solve_one :=
  match goal with
  | |- _ /\ _ => split; solve_one
  | |- _ <-> _ => split; intro; solve_one
  | |- exists _, _ => eexists; reflexivity
  | |- _ -> _ => intro; solve_one
  | |- In _ _ => cbn; tauto
  | _ => first [reflexivity | discriminate | (cbn in *; first [reflexivity | discriminate | tauto | congruence])]
  end.

Ltac finish_spec :=
  rdx; split; [ solve_one | constructor; rdx; solve_one ].

Ltac crunch :=
  rdx; repeat (break_match; rdx); try discriminate; try finish_spec.

(* The core of the refinement: one model step from a state satisfying the invariant is a step of the
   abstract machine and re-establishes the invariant. *)
Lemma step_refines : forall c s e,
  inv s ->
  inv (fst (step c s e)) /\ spec_step (abs s) (snd (step c s e)) (abs (fst (step c s e))).
Proof.
  intros c [st att cn ng rt up im] e [Hatt Hconn]. cbn in Hatt, Hconn.
  destruct st.
  - (* Idle *)
    assert (att = false) by (destruct att; [destruct Hatt as [H _]; specialize (H eq_refl); discriminate | reflexivity]).
    subst att. clear Hatt Hconn.
    destruct e; crunch.
    all: try (exfalso; eapply frame_of_no_panic; eassumption).
  - (* Connect *)
    assert (att = false) by (destruct att; [destruct Hatt as [H _]; specialize (H eq_refl); discriminate | reflexivity]).
    subst att. clear Hatt Hconn.
    destruct e; crunch.
    all: try (exfalso; eapply frame_of_no_panic; eassumption).
  - (* Active *)
    assert (att = false) by (destruct att; [destruct Hatt as [H _]; specialize (H eq_refl); discriminate | reflexivity]).
    subst att. clear Hatt Hconn. destruct cn.
    all: destruct e; crunch.
    all: try (exfalso; eapply frame_of_no_panic; eassumption).
  - (* OpenSent *)
    assert (att = false) by (destruct att; [destruct Hatt as [H _]; specialize (H eq_refl); discriminate | reflexivity]).
    subst att. clear Hatt. destruct (Hconn eq_refl) as [b Hb]. subst cn. clear Hconn.
    destruct e; crunch.
    all: try (exfalso; eapply frame_of_no_panic; eassumption).
  - (* OpenConfirm *)
    assert (att = false) by (destruct att; [destruct Hatt as [H _]; specialize (H eq_refl); discriminate | reflexivity]).
    subst att. clear Hatt. destruct (Hconn eq_refl) as [b Hb]. subst cn. clear Hconn.
    destruct e; crunch.
    all: try (exfalso; eapply frame_of_no_panic; eassumption).
  - (* Established *)
    assert (att = true) by (destruct Hatt as [_ H]; exact (H eq_refl)).
    subst att. clear Hatt. destruct (Hconn eq_refl) as [b Hb]. subst cn. clear Hconn.
    destruct e; crunch.
    all: try (exfalso; eapply frame_of_no_panic; eassumption).
  - (* Ceased *)
    assert (att = false) by (destruct att; [destruct Hatt as [H _]; specialize (H eq_refl); discriminate | reflexivity]).
    subst att. clear Hatt Hconn.
    crunch.
Qed.

(* ---------------------------------------------------------------- whole event sequences *)

Lemma run_refines : forall c es s,
  inv s ->
  inv (fst (run c s es)) /\ spec_trace (abs s) (snd (run c s es)) (abs (fst (run c s es))).
Proof.
  intros c es. induction es as [|e es IH]; intros s Hs; cbn [run].
  - cbn. split; [assumption | constructor].
  - destruct (step_refines c s e Hs) as [Hi Hsp].
    destruct (step c s e) as [s1 o1] eqn:E. cbn [fst snd] in Hi, Hsp.
    destruct (IH s1 Hi) as [Hi2 Htr].
    destruct (run c s1 es) as [s2 os] eqn:R. cbn [fst snd] in *.
    split; [assumption | econstructor; eassumption].
Qed.

Lemma final_inv : forall c es, inv (final c es).
Proof. intros. unfold final. apply run_refines. apply inv_init. Qed.

Theorem refines : forall c es,
  spec_trace (abs (init_sess c)) (snd (run c (init_sess c) es)) (abs (final c es)).
Proof. intros. unfold final. apply run_refines. apply inv_init. Qed.

Theorem attached_iff_established : forall c es,
  s_att (final c es) = true <-> s_st (final c es) = Established.
Proof. intros. apply (final_inv c es). Qed.

Lemma in_existsb : forall (f : out -> bool) (x : out) (l : list out), In x l -> f x = true -> existsb f l = true.
Proof. intros f x l Hin Hf. apply existsb_exists. exists x. split; assumption. Qed.

Theorem updates_only_in_established : forall c es e ann wd,
  In (ProcessedUpdate ann wd) (snd (step c (final c es) e)) ->
  s_st (final c es) = Established /\ s_st (fst (step c (final c es) e)) = Established.
Proof.
  intros c es e ann wd Hin.
  destruct (step_refines c (final c es) e (final_inv c es)) as [_ Hsp].
  apply (sp_update_established _ _ _ Hsp).
  eapply in_existsb; [exact Hin | reflexivity].
Qed.

Theorem down_closes : forall c es e,
  in_session (s_st (final c es)) = true ->
  is_down (s_st (fst (step c (final c es) e))) = true ->
  In Closed (snd (step c (final c es) e)) /\ s_conn (fst (step c (final c es) e)) = ConnClosed.
Proof.
  intros c es e Hin Hdown.
  destruct (step_refines c (final c es) e (final_inv c es)) as [_ Hsp].
  destruct (sp_down_closes _ _ _ Hsp Hin Hdown) as [Hc Ho]. split; [exact Hc|].
  (* the connection of a session state is never nil, and a closed one stays a closed one *)
  pose proof (final_inv c es) as [_ Hconn]. destruct (Hconn Hin) as [b Hb].
  clear Hsp Hc. revert Ho Hdown. generalize (final c es) Hin Hb. clear.
  intros [st att cn ng rt up im] Hin Hb. cbn in Hin, Hb. subst cn.
  destruct st; try discriminate; destruct e; crunch.
  all: try (exfalso; eapply frame_of_no_panic; eassumption).
  all: rdx; intros; try reflexivity; try discriminate.
Qed.

Theorem no_crash : forall c es e, ~ In Crash (snd (step c (final c es) e)).
Proof.
  intros c es e Hin.
  destruct (step_refines c (final c es) e (final_inv c es)) as [_ Hsp].
  pose proof (sp_no_crash _ _ _ Hsp) as Hn.
  rewrite (in_existsb is_crash Crash _ Hin eq_refl) in Hn. discriminate.
Qed.
