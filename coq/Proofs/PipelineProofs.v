(* Pipeline, part 3: the receiving side of the composed model.
   - frame lemmas: which component of which session an event can touch (non-interference);
   - every Adj-RIB-In of the composed model is a run of the component model (Model.AdjRIBIn.run) on the
     recorded calls (ss_ops);
   - invariant J: the Loc-RIB's candidates of a prefix are, up to Path.Compare, the union over ALL sessions of
     what the component model says client 0 of that session's Adj-RIB-In holds;
   - with C05 (mirror_fixed, unregister_exact) as black boxes: the Loc-RIB is the union of the contributions of
     the sessions that are up; nothing of a session that is down. *)
From Coq Require Import List NArith Bool Arith Lia Permutation.
Import ListNotations.
From BioVerif Require Import Model.Pipeline Spec.PipelineSpec Proofs.PipelineIn Proofs.PipelineLoc.
From BioVerif Require Model.AdjRIBIn Model.LocRIBClients Model.AdjRIBOut Model.UpdateSender Model.LocView
  Spec.AdjRIBInSpec Spec.LocRIBClientsSpec Proofs.AdjRIBInProofs Proofs.LocRIBClientsProofs.

Local Open Scope nat_scope.

(* ------------------------------------------------------------------ lists *)

Lemma upd_nth_length : forall (A : Type) k (f : A -> A) l, length (upd_nth k f l) = length l.
Proof. intros A k f l. revert k. induction l as [|x l IH]; intros [|k]; cbn; auto. Qed.

Lemma nth_error_upd_same : forall (A : Type) k (f : A -> A) l x,
  nth_error l k = Some x -> nth_error (upd_nth k f l) k = Some (f x).
Proof.
  intros A k f l. revert k. induction l as [|y l IH]; intros [|k] x H; cbn in *; try discriminate.
  - now inversion H.
  - now apply IH.
Qed.

Lemma nth_error_upd_other : forall (A : Type) k j (f : A -> A) l,
  j <> k -> nth_error (upd_nth k f l) j = nth_error l j.
Proof.
  intros A k j f l. revert k j. induction l as [|y l IH]; intros [|k] [|j] NE; cbn; try reflexivity; try congruence.
  apply IH. congruence.
Qed.

Lemma upd_nth_none : forall (A : Type) k (f : A -> A) l, nth_error l k = None -> upd_nth k f l = l.
Proof.
  intros A k f l. revert k. induction l as [|y l IH]; intros [|k] H; cbn in *; try reflexivity; try discriminate.
  f_equal. now apply IH.
Qed.

Lemma map_upd_nth : forall (A B : Type) (g : A -> B) k (f : A -> A) l,
  (forall x, nth_error l k = Some x -> g (f x) = g x) -> map g (upd_nth k f l) = map g l.
Proof.
  intros A B g k f l. revert k. induction l as [|y l IH]; intros [|k] H; cbn; try reflexivity.
  - f_equal. apply H. reflexivity.
  - f_equal. apply IH. intros x Hx. apply H. exact Hx.
Qed.

Lemma gained_app : forall (A : Type) (new old : list A), gained old (new ++ old) = rev new.
Proof.
  intros A new old. unfold gained. rewrite app_length.
  replace (length new + length old - length old) with (length new) by lia.
  rewrite firstn_app, firstn_all, Nat.sub_diag. cbn. now rewrite app_nil_r.
Qed.

Lemma concat_upd_snoc : forall (K : Type) k (x : K) (l : list (list K)) a,
  nth_error l k = Some a -> Permutation (concat (upd_nth k (fun a => a ++ [x]) l)) (concat l ++ [x]).
Proof.
  intros K k x l. revert k. induction l as [|b l IH]; intros [|k] a H; cbn in *; try discriminate.
  - rewrite <- !app_assoc. apply Permutation_app_head. apply Permutation_app_comm.
  - rewrite <- app_assoc. apply Permutation_app_head. eapply IH; eassumption.
Qed.

Lemma concat_upd_rm1 : forall (K : Type) (dec : forall a b : K, {a = b} + {a <> b}) k (x : K) (l : list (list K)),
  (forall j b, j <> k -> nth_error l j = Some b -> ~ In x b) ->
  concat (upd_nth k (rm1 dec x) l) = rm1 dec x (concat l).
Proof.
  intros K dec k x l. revert k. induction l as [|b l IH]; intros [|k] H; cbn [upd_nth concat]; try reflexivity.
  - destruct (in_dec dec x b) as [HI|HN].
    + now rewrite rm1_app_l.
    + rewrite rm1_app_r by assumption. rewrite (rm1_notin _ dec x b HN). f_equal.
      symmetry. apply rm1_notin. intros HC. apply in_concat in HC. destruct HC as [c [Hc Hx]].
      apply In_nth_error in Hc. destruct Hc as [j Hj]. apply (H (S j) c); [discriminate|exact Hj|exact Hx].
  - rewrite rm1_app_r.
    + f_equal. apply IH. intros j c NE Hj. apply (H (S j) c); [congruence|exact Hj].
    + apply (H 0 b); [discriminate|reflexivity].
Qed.

Lemma NoDup_map_nth_inj : forall (A B : Type) (f : A -> B) (l : list A) i j x y,
  NoDup (map f l) -> nth_error l i = Some x -> nth_error l j = Some y -> f x = f y -> i = j.
Proof.
  intros A B f l. induction l as [|a l IH]; intros [|i] [|j] x y ND Hi Hj E; cbn in *; try discriminate; try reflexivity.
  - inversion Hi; subst. inversion ND; subst. exfalso. apply H1. rewrite E. apply in_map. eapply nth_error_In; eassumption.
  - inversion Hj; subst. inversion ND; subst. exfalso. apply H1. rewrite <- E. apply in_map. eapply nth_error_In; eassumption.
  - f_equal. inversion ND; subst. eapply IH; eassumption.
Qed.

(* ------------------------------------------------------------------ the composed model *)

Section Pipe.
  Variable P : Type.
  Variable apply : P -> N -> AdjRIBOut.path -> option AdjRIBOut.path.
  Variable sel : nat -> list (LocRIBClients.entry AdjRIBOut.path) -> list (LocRIBClients.entry AdjRIBOut.path) * nat.
  Variable tagf : AdjRIBOut.bgp -> N.
  Hypothesis Hsel : LocRIBClientsSpec.sel_ok AdjRIBOut.path sel.
  Variable cfgs : list (scfg P).

  Notation sst := (sst P).
  Notation pst := (pst P).
  Notation lstep := (LocRIBClients.step AdjRIBOut.path AdjRIBOut.path_compare AdjRIBOut.path_equal sel).
  Notation loc_op := (loc_op P apply sel tagf cfgs).
  Notation in_op := (in_op P apply sel tagf cfgs).
  Notation pstep := (Pipeline.step P apply sel tagf cfgs).
  Notation prun := (Pipeline.run P apply sel tagf cfgs).

  (* the receiving half of a session's state *)
  Definition inpart (s : sst) := (ss_up P s, ss_in P s, ss_ops P s).

  Lemma set_out_inpart : forall s a u l, inpart (set_out P s a u l) = inpart s.
  Proof. reflexivity. Qed.
  Lemma set_hist_inpart : forall s h, inpart (set_hist P s h) = inpart s.
  Proof. reflexivity. Qed.

  Lemma with_cfg_inpart : forall k f ss, (forall c s, inpart (f c s) = inpart s) ->
    map inpart (with_cfg P cfgs k f ss) = map inpart ss.
  Proof.
    intros k f ss H. unfold with_cfg. destruct (nth_error cfgs k) as [c|]; [|reflexivity].
    apply map_upd_nth. intros x _. apply H.
  Qed.

  Lemma deliver_inpart : forall ss b, map inpart (deliver P apply tagf cfgs ss b) = map inpart ss.
  Proof.
    intros ss b. destruct b; cbn [deliver]; try reflexivity; apply with_cfg_inpart; intros; reflexivity.
  Qed.

  Lemma deliver_fold_inpart : forall cbs ss,
    map inpart (fold_left (deliver P apply tagf cfgs) cbs ss) = map inpart ss.
  Proof.
    induction cbs as [|b cbs IH]; intros ss; cbn [fold_left]; [reflexivity|].
    rewrite IH. apply deliver_inpart.
  Qed.

  Lemma map_combine_seq : forall (B : Type) (h : sst -> B) (g : nat * sst -> sst) ss n,
    (forall k s, h (g (k, s)) = h s) -> map h (map g (combine (seq n (length ss)) ss)) = map h ss.
  Proof.
    intros B h g ss. induction ss as [|s ss IH]; intros n H; [reflexivity|].
    cbn. rewrite H. f_equal. apply IH. exact H.
  Qed.

  Lemma note_views_inpart : forall loc ps only ss, map inpart (note_views P loc ps only ss) = map inpart ss.
  Proof.
    intros loc ps only ss. unfold note_views. apply map_combine_seq. intros k s.
    destruct (LocRIBClients.lookup k (LocRIBClients.clients loc)); [|reflexivity].
    destruct (match only with Some k' => Nat.eqb k k' | None => true end); reflexivity.
  Qed.

  (* ---------------------------------------------------------------- one Loc-RIB operation *)

  Lemma loc_op_inpart : forall st o, map inpart (ps_sess P (loc_op st o)) = map inpart (ps_sess P st).
  Proof.
    intros st o. unfold Pipeline.loc_op. destruct (lstep (ps_loc P st) o) as [loc' cbs|]; [|reflexivity].
    destruct (op_prefixes loc' o) as [ps only]. cbn [ps_sess].
    rewrite note_views_inpart. apply deliver_fold_inpart.
  Qed.

  Lemma loc_op_ok : forall st o loc' cbs, lstep (ps_loc P st) o = LocRIBClients.Ok loc' cbs ->
    ps_loc P (loc_op st o) = loc'.
  Proof.
    intros st o loc' cbs H. unfold Pipeline.loc_op. rewrite H. now destruct (op_prefixes loc' o).
  Qed.

  Lemma loc_op_length : forall st o, length (ps_sess P (loc_op st o)) = length (ps_sess P st).
  Proof. intros. rewrite <- (map_length inpart), loc_op_inpart. apply map_length. Qed.

  (* ---------------------------------------------------------------- bags *)

  Definition bag0 (s : sst) : AdjRIBIn.ctable := AdjRIBIn.ct_get 0%N (AdjRIBIn.ctabs (ss_in P s)).

  Definition part (c : scfg P) (B : AdjRIBIn.ctable) (p : N) : list AdjRIBOut.path :=
    map ckey (map (lift_of P c) (AdjRIBIn.at_pfx p B)).

  Definition parts (cs : list (scfg P)) (bs : list AdjRIBIn.ctable) (p : N) : list (list AdjRIBOut.path) :=
    map (fun cb : scfg P * AdjRIBIn.ctable => part (fst cb) (snd cb) p) (combine cs bs).

  Lemma parts_upd : forall cs bs p k f c b,
    nth_error cs k = Some c -> nth_error bs k = Some b ->
    parts cs (upd_nth k f bs) p = upd_nth k (fun _ => part c (f b) p) (parts cs bs p).
  Proof.
    intros cs. induction cs as [|c0 cs IH]; intros [|b0 bs] p [|k] f c b Hc Hb; cbn in *; try discriminate.
    - inversion Hc; inversion Hb; subst. reflexivity.
    - unfold parts in *. cbn. f_equal. now apply IH.
  Qed.

  Lemma parts_nth : forall cs bs p k c b,
    nth_error cs k = Some c -> nth_error bs k = Some b -> nth_error (parts cs bs p) k = Some (part c b p).
  Proof.
    intros cs. induction cs as [|c0 cs IH]; intros [|b0 bs] p [|k] c b Hc Hb; cbn in *; try discriminate.
    - inversion Hc; inversion Hb; subst. reflexivity.
    - now apply IH.
  Qed.

  Lemma parts_nth_inv : forall cs bs p j x,
    nth_error (parts cs bs p) j = Some x ->
    exists c b, nth_error cs j = Some c /\ nth_error bs j = Some b /\ x = part c b p.
  Proof.
    intros cs. induction cs as [|c0 cs IH]; intros [|b0 bs] p [|j] x H; cbn in *; try discriminate.
    - inversion H. eauto.
    - now apply IH.
  Qed.

  Lemma upd_nth_same : forall (A : Type) k (l : list A) x, nth_error l k = Some x -> upd_nth k (fun _ => x) l = l.
  Proof.
    intros A k l. revert k. induction l as [|y l IH]; intros [|k] x H; cbn in *; try discriminate.
    - now inversion H.
    - f_equal. now apply IH.
  Qed.

  Lemma upd_nth_twice : forall (A : Type) k (l : list A) (f g : A -> A),
    upd_nth k f (upd_nth k g l) = upd_nth k (fun x => f (g x)) l.
  Proof.
    intros A k l. revert k. induction l as [|y l IH]; intros [|k] f g; cbn; try reflexivity. f_equal. apply IH.
  Qed.

  Definition rmf (q : AdjRIBIn.path) (l : list AdjRIBIn.path) : list AdjRIBIn.path :=
    (fix go (l : list AdjRIBIn.path) := match l with [] => [] | a :: r => if AdjRIBIn.pcmp a q then r else a :: go r end) l.

  Lemma at_pfx_add : forall p p0 q t,
    AdjRIBIn.at_pfx p (AdjRIBIn.ct_add p0 q t) = if N.eqb p0 p then AdjRIBIn.at_pfx p t ++ [q] else AdjRIBIn.at_pfx p t.
  Proof.
    intros p p0 q t. unfold AdjRIBIn.at_pfx, AdjRIBIn.ct_add. rewrite filter_app, map_app. cbn.
    destruct (N.eqb p0 p); cbn; [reflexivity|apply app_nil_r].
  Qed.

  Lemma at_pfx_remove : forall p p0 q t,
    AdjRIBIn.at_pfx p (AdjRIBIn.ct_remove p0 q t) = if N.eqb p0 p then rmf q (AdjRIBIn.at_pfx p t) else AdjRIBIn.at_pfx p t.
  Proof.
    intros p p0 q t. induction t as [|[p' q'] r IH]; [now destruct (N.eqb p0 p)|].
    cbn [AdjRIBIn.ct_remove]. unfold AdjRIBIn.at_pfx in *. cbn [filter fst].
    destruct (N.eqb_spec p' p0) as [->|NE]; cbn [andb].
    - destruct (N.eqb_spec p0 p) as [->|NE2].
      + cbn [map snd rmf]. destruct (AdjRIBIn.pcmp q' q); [reflexivity|]. cbn [filter fst map snd].
        rewrite N.eqb_refl. cbn [map snd]. f_equal. exact IH.
      + destruct (AdjRIBIn.pcmp q' q).
        * reflexivity.
        * cbn [filter fst]. apply N.eqb_neq in NE2. rewrite NE2. exact IH.
    - cbn [filter fst]. destruct (N.eqb_spec p' p) as [->|NE2].
      + cbn [map snd]. apply N.eqb_neq in NE. rewrite N.eqb_sym in NE. rewrite NE in *. f_equal. exact IH.
      + exact IH.
  Qed.

  Lemma part_rmf : forall c q l,
    map ckey (map (lift_of P c) (rmf q l)) =
    rm1 LocView.path_eq_dec (ckey (lift_of P c q)) (map ckey (map (lift_of P c) l)).
  Proof.
    intros c q l. rewrite !map_map. unfold rmf.
    apply (rm1_map_first AdjRIBOut.path LocView.path_eq_dec AdjRIBIn.path (fun a => ckey (lift_of P c a))
             (fun a => AdjRIBIn.pcmp a q) (ckey (lift_of P c q)) l).
    intros a _. rewrite AdjRIBInProofs.pcmp_iff. unfold lift_of. symmetry. apply ckey_lift_iff.
  Qed.

  (* an element of another session's part has another Source *)
  Lemma part_src : forall c b p x, In x (part c b p) -> src_of x = Some (sc_ip P c).
  Proof.
    intros c b p x H. unfold part in H. rewrite map_map in H. apply in_map_iff in H. destruct H as [q [<- _]].
    rewrite src_ckey. reflexivity.
  Qed.

  (* ---------------------------------------------------------------- one call of an Adj-RIB-In on the Loc-RIB *)

  Lemma upd_nth_at : forall (A : Type) k (l : list A) (f : A -> A) a,
    nth_error l k = Some a -> upd_nth k (fun _ => f a) l = upd_nth k f l.
  Proof.
    intros A k l. revert k. induction l as [|y l IH]; intros [|k] f a H; cbn in *; try discriminate; try reflexivity.
    - now inversion H.
    - f_equal. now apply IH.
  Qed.

  Lemma lpfx_inj : forall p q, lpfx p = lpfx q -> p = q.
  Proof. intros p q H. now apply N2Nat.inj. Qed.

  (* the Loc-RIB's candidates, up to Path.Compare, are the union of the bags bs (one per session) *)
  Definition Jp (st : pst) (bs : list AdjRIBIn.ctable) : Prop :=
    forall p, Permutation (map ckey (candidates P st p)) (concat (parts cfgs bs p)).

  Definition ev_op (c : scfg P) (acc : pst) (e : AdjRIBIn.event) : pst :=
    match loc_of_event P c e with Some lo => loc_op acc lo | None => acc end.

  Lemma ev_op_inpart : forall c st e, map inpart (ps_sess P (ev_op c st e)) = map inpart (ps_sess P st).
  Proof. intros c st e. unfold ev_op. destruct (loc_of_event P c e); [apply loc_op_inpart|reflexivity]. Qed.

  Lemma J_add : forall k c st bs B p0 q,
    nth_error cfgs k = Some c -> nth_error bs k = Some B -> Jp st bs ->
    Jp (loc_op st (LocRIBClients.OAdd (lpfx p0) (lift_of P c q))) (upd_nth k (fun _ => AdjRIBIn.ct_add p0 q B) bs).
  Proof.
    intros k c st bs B p0 q Hc Hb J p.
    destruct (loc_add sel Hsel (ps_loc P st) (lpfx p0) (lift_of P c q)) as [loc' [cbs [Hs [HP [HO _]]]]].
    unfold candidates. rewrite (loc_op_ok _ _ _ _ Hs). fold (vals loc' (lpfx p)).
    rewrite (parts_upd cfgs bs p k _ c B Hc Hb).
    destruct (N.eq_dec p p0) as [->|NE].
    - unfold part. rewrite at_pfx_add, N.eqb_refl, !map_app. cbn [map].
      fold (part c B p0).
      rewrite (upd_nth_at _ k (parts cfgs bs p0) (fun a => a ++ [ckey (lift_of P c q)]) (part c B p0))
        by (now apply parts_nth).
      eapply Permutation_trans; [apply Permutation_map, HP|]. rewrite map_app. cbn [map].
      eapply Permutation_trans; [apply Permutation_app_tail, (J p0)|].
      apply Permutation_sym. eapply concat_upd_snoc. apply (parts_nth cfgs bs p0 k c B Hc Hb).
    - rewrite HO by (intros E; apply NE; now apply lpfx_inj).
      unfold part. rewrite at_pfx_add.
      destruct (N.eqb_spec p0 p) as [E|_]; [congruence|].
      fold (part c B p). rewrite upd_nth_same by (now apply parts_nth). apply J.
  Qed.

  Lemma J_remove : forall k c st bs B p0 q,
    distinct_peers P cfgs ->
    nth_error cfgs k = Some c -> nth_error bs k = Some B -> Jp st bs ->
    Jp (loc_op st (LocRIBClients.ORemove (lpfx p0) (lift_of P c q))) (upd_nth k (fun _ => AdjRIBIn.ct_remove p0 q B) bs).
  Proof.
    intros k c st bs B p0 q DP Hc Hb J p.
    destruct (loc_remove sel Hsel (ps_loc P st) (lpfx p0) (lift_of P c q)) as [loc' [cbs [Hs [HP [HO _]]]]].
    unfold candidates. rewrite (loc_op_ok _ _ _ _ Hs). fold (vals loc' (lpfx p)).
    rewrite (parts_upd cfgs bs p k _ c B Hc Hb).
    destruct (N.eq_dec p p0) as [->|NE].
    - unfold part at 1. rewrite at_pfx_remove, N.eqb_refl, part_rmf. fold (part c B p0).
      rewrite (upd_nth_at _ k (parts cfgs bs p0) (rm1 LocView.path_eq_dec (ckey (lift_of P c q))) (part c B p0))
        by (now apply parts_nth).
      eapply Permutation_trans; [apply Permutation_map, HP|].
      unfold lift_of at 1, lift. rewrite rm_first_ckey. fold (lift (sc_ip P c) (sc_bgpid P c) (AdjRIBIn.ibgp (sc_sa P c)) q).
      fold (lift_of P c q).
      eapply Permutation_trans; [apply rm1_perm, (J p0)|].
      rewrite concat_upd_rm1; [reflexivity|].
      intros j b NEj Hj HI. apply parts_nth_inv in Hj. destruct Hj as [cj [bj [Hcj [_ ->]]]].
      apply part_src in HI. rewrite src_ckey in HI. cbn in HI. inversion HI as [E].
      apply NEj. symmetry. eapply (NoDup_map_nth_inj _ _ (sc_ip P) cfgs); eauto.
    - rewrite HO by (intros E; apply NE; now apply lpfx_inj).
      unfold part. rewrite at_pfx_remove.
      destruct (N.eqb_spec p0 p) as [E|_]; [congruence|].
      fold (part c B p). rewrite upd_nth_same by (now apply parts_nth). apply J.
  Qed.

  Lemma in_event1 : forall k c e st bs B,
    distinct_peers P cfgs -> nth_error cfgs k = Some c -> nth_error bs k = Some B ->
    plain e -> Jp st bs -> Jp (ev_op c st e) (upd_nth k (fun _ => ev_apply 0%N B e) bs).
  Proof.
    intros k c e st bs B DP Hc Hb PL J. unfold ev_op.
    destruct e as [k' p0 q|k' p0 q|k' p0 q|k' p0 o n|k']; cbn [loc_of_event ev_apply]; try contradiction.
    - destruct (N.eqb k' 0); [now apply J_add|]. now rewrite upd_nth_same.
    - destruct (N.eqb k' 0); [now apply J_add|]. now rewrite upd_nth_same.
    - destruct (N.eqb k' 0); [now apply J_remove|]. now rewrite upd_nth_same.
    - now rewrite upd_nth_same.
  Qed.

  Lemma in_events : forall k c evs st bs B,
    distinct_peers P cfgs -> nth_error cfgs k = Some c -> nth_error bs k = Some B ->
    Forall plain evs -> Jp st bs ->
    Jp (fold_left (ev_op c) evs st) (upd_nth k (fun _ => replay 0%N evs B) bs).
  Proof.
    intros k c evs. induction evs as [|e evs IH]; intros st bs B DP Hc Hb PL J; cbn [fold_left replay].
    - now rewrite upd_nth_same.
    - inversion PL as [|? ? Pe PL']; subst.
      pose proof (in_event1 k c e st bs B DP Hc Hb Pe J) as J1.
      specialize (IH (ev_op c st e) (upd_nth k (fun _ => ev_apply 0%N B e) bs) (ev_apply 0%N B e) DP Hc
                     (nth_error_upd_same _ k _ bs B Hb) PL' J1).
      rewrite upd_nth_twice in IH. exact IH.
  Qed.

  Lemma ev_fold_inpart : forall c evs st,
    map inpart (ps_sess P (fold_left (ev_op c) evs st)) = map inpart (ps_sess P st).
  Proof.
    intros c evs. induction evs as [|e evs IH]; intros st; cbn [fold_left]; [reflexivity|].
    rewrite IH. apply ev_op_inpart.
  Qed.

  (* ---------------------------------------------------------------- one call on an Adj-RIB-In *)

  Definition bagI (i : AdjRIBIn.st) : AdjRIBIn.ctable := AdjRIBIn.ct_get 0%N (AdjRIBIn.ctabs i).
  Notation itriple := (bool * AdjRIBIn.st * list AdjRIBIn.op)%type.
  Definition tbag (t : itriple) : AdjRIBIn.ctable := bagI (snd (fst t)).
  Definition tstep (o : AdjRIBIn.op) (t : itriple) : itriple :=
    (fst (fst t), AdjRIBIn.step (snd (fst t)) o, snd t ++ [o]).

  Lemma bag0_inpart : forall ss, map bag0 ss = map tbag (map inpart ss).
  Proof. intros. rewrite map_map. reflexivity. Qed.

  Lemma map_upd_nth_comm : forall (A B : Type) (g : A -> B) (f : A -> A) (f' : B -> B) k l,
    (forall x, g (f x) = f' (g x)) -> map g (upd_nth k f l) = upd_nth k f' (map g l).
  Proof.
    intros A B g f f' k l H. revert k. induction l as [|y l IH]; intros [|k]; cbn; try reflexivity.
    - now rewrite H.
    - now rewrite IH.
  Qed.

  Lemma candidates_with_sess : forall st ss p, candidates P (with_sess P st ss) p = candidates P st p.
  Proof. reflexivity. Qed.

  Lemma in_op_inv : forall k c o st,
    distinct_peers P cfgs -> nth_error cfgs k = Some c -> not_replace o ->
    length (ps_sess P st) = length cfgs ->
    Jp st (map bag0 (ps_sess P st)) ->
    Jp (in_op k st o) (map bag0 (ps_sess P (in_op k st o))) /\
    map inpart (ps_sess P (in_op k st o)) = upd_nth k (tstep o) (map inpart (ps_sess P st)).
  Proof.
    intros k c o st DP Hc NR HL J. unfold Pipeline.in_op. rewrite Hc.
    destruct (nth_error (ps_sess P st) k) as [s|] eqn:Hs.
    2:{ exfalso. apply nth_error_None in Hs. assert (k < length cfgs) by (apply nth_error_Some; congruence). lia. }
    destruct (Ext_step o (ss_in P s)) as [new [HLog [HPl HBag]]].
    rewrite HLog, gained_app.
    set (F := fun s0 : sst => set_in P s0 (AdjRIBIn.step (ss_in P s) o) (ss_ops P s0 ++ [o])).
    set (st1 := with_sess P st (upd_nth k F (ps_sess P st))).
    fold (ev_op c).
    assert (Hi : nth_error (map inpart (ps_sess P st)) k = Some (inpart s)) by (now apply map_nth_error).
    assert (I1 : map inpart (ps_sess P st1) = upd_nth k (tstep o) (map inpart (ps_sess P st))).
    { unfold st1. cbn [with_sess ps_sess].
      rewrite <- (upd_nth_at _ k (ps_sess P st) F s Hs).
      rewrite (map_upd_nth_comm _ _ inpart (fun _ => F s) (fun _ => tstep o (inpart s))) by reflexivity.
      apply (upd_nth_at _ k (map inpart (ps_sess P st)) (tstep o) (inpart s) Hi). }
    split; [|rewrite ev_fold_inpart; exact I1].
    rewrite bag0_inpart, ev_fold_inpart, I1.
    rewrite <- (upd_nth_at _ k (map inpart (ps_sess P st)) (tstep o) (inpart s) Hi).
    rewrite (map_upd_nth_comm _ _ tbag (fun _ => tstep o (inpart s)) (fun _ => replay 0%N (rev new) (bag0 s))).
    2:{ intros _. unfold tbag, tstep, bagI. cbn [fst snd inpart]. apply HBag. }
    rewrite <- bag0_inpart.
    apply in_events; try assumption.
    - now apply map_nth_error.
    - apply Forall_rev. now apply HPl.
  Qed.

  (* ---------------------------------------------------------------- every Adj-RIB-In is a run of the component model *)

  Definition SgoodW (c : scfg P) (t : itriple) : Prop :=
    snd (fst t) = AdjRIBIn.run (sc_sa P c) (sc_pol P c) (snd t) /\
    AdjRIBInSpec.reg_once [] (snd t) = true /\ AdjRIBInSpec.fixed_policy (snd t).

  (* (is the session up, who is registered at its Adj-RIB-In) *)
  Definition tlink (t : itriple) : bool * list N := (fst (fst t), AdjRIBInSpec.spec_regs (snd t)).
  Definition LinkOk (x : bool * list N) : Prop := snd x = if fst x then [0%N] else [].

  Definition okop (o : AdjRIBIn.op) (t : itriple) : Prop :=
    match o with
    | AdjRIBIn.ReplaceChain _ => False
    | AdjRIBIn.Register c' => ~ In c' (AdjRIBInSpec.spec_regs (snd t))
    | _ => True
    end.

  Lemma reg_once_snoc_reg : forall ops r c,
    AdjRIBInSpec.reg_once r (ops ++ [AdjRIBIn.Register c]) =
    AdjRIBInSpec.reg_once r ops && negb (existsb (N.eqb c) (fold_left AdjRIBInProofs.regs_step ops r)).
  Proof.
    induction ops as [|x ops IH]; intros r c; cbn [app AdjRIBInSpec.reg_once fold_left].
    - now rewrite andb_true_r.
    - destruct x; cbn [AdjRIBInProofs.regs_step]; try apply IH.
      rewrite IH. destruct (existsb (N.eqb c0) r); cbn [negb andb]; reflexivity.
  Qed.

  Lemma SgoodW_tstep : forall c o t, SgoodW c t -> okop o t -> SgoodW c (tstep o t).
  Proof.
    intros c o [[u i] ops] [HR [HO HF]] OK. unfold SgoodW, tstep in *. cbn [fst snd] in *. split; [|split].
    - rewrite AdjRIBInProofs.run_snoc. now rewrite HR.
    - destruct o; try (rewrite AdjRIBInProofs.reg_once_snoc_other; [exact HO|exact I]).
      rewrite reg_once_snoc_reg, HO, <- AdjRIBInProofs.spec_regs_fold. cbn [andb].
      apply negb_true_iff. destruct (existsb (N.eqb c0) (AdjRIBInSpec.spec_regs ops)) eqn:E; [|reflexivity].
      exfalso. apply OK. apply existsb_exists in E. destruct E as [x [Hx E]]. apply N.eqb_eq in E. now subst.
    - intros x Hx. apply in_app_or in Hx. destruct Hx as [Hx|[<-|[]]]; [now apply HF|].
      destruct o; try exact I. contradiction.
  Qed.

  Lemma tlink_tstep : forall o t, tlink (tstep o t) = (fst (tlink t), AdjRIBInProofs.regs_step (snd (tlink t)) o).
  Proof. intros o [[u i] ops]. unfold tlink, tstep. cbn [fst snd]. now rewrite AdjRIBInProofs.spec_regs_snoc. Qed.

  Lemma tlink_vrf : forall o t, vrf_op o -> tlink (tstep o t) = tlink t.
  Proof. intros o t H. rewrite tlink_tstep. destruct o; try contradiction; now destruct (tlink t). Qed.

  Lemma tbag_vrf : forall o t, vrf_op o -> tbag (tstep o t) = tbag t.
  Proof.
    intros o [[u i] ops] H. unfold tbag, tstep, bagI. cbn [fst snd].
    destruct (vrf_op_frame o i H) as [_ [_ [_ [E _]]]]. now rewrite E.
  Qed.

  Lemma Forall2_upd_nth : forall (A B : Type) (R : A -> B -> Prop) k (f : B -> B) l1 l2,
    Forall2 R l1 l2 -> (forall x y, nth_error l1 k = Some x -> nth_error l2 k = Some y -> R x y -> R x (f y)) ->
    Forall2 R l1 (upd_nth k f l2).
  Proof.
    intros A B R k f l1 l2 H. revert k. induction H as [|x y l1 l2 Hxy H IH]; intros [|k] Hf; cbn.
    - constructor.
    - constructor.
    - constructor; [apply Hf; [reflexivity|reflexivity|assumption]|assumption].
    - constructor; [assumption|]. apply IH. intros a b Ha Hb. now apply Hf.
  Qed.

  Lemma Forall2_nth : forall (A B : Type) (R : A -> B -> Prop) l1 l2 k x,
    Forall2 R l1 l2 -> nth_error l1 k = Some x -> exists y, nth_error l2 k = Some y /\ R x y.
  Proof.
    intros A B R l1 l2 k x H. revert k. induction H as [|a b l1 l2 Hab H IH]; intros [|k] Hk; cbn in *; try discriminate.
    - inversion Hk; subst. eauto.
    - now apply IH.
  Qed.

  Lemma Forall2_length' : forall (A B : Type) (R : A -> B -> Prop) l1 l2, Forall2 R l1 l2 -> length l2 = length l1.
  Proof. intros A B R l1 l2 H. induction H; cbn; congruence. Qed.

  (* what is carried from event to event *)
  Record Inv (st : pst) : Prop := mkInv {
    inv_J : Jp st (map bag0 (ps_sess P st));
    inv_W : Forall2 SgoodW cfgs (map inpart (ps_sess P st));
    inv_L : Forall LinkOk (map tlink (map inpart (ps_sess P st)))
  }.

  Lemma Inv_length : forall st, Inv st -> length (ps_sess P st) = length cfgs.
  Proof. intros st [_ W _]. apply Forall2_length' in W. now rewrite map_length in W. Qed.

  (* J and W through one call on the Adj-RIB-In of session k *)
  Lemma in_op_JW : forall k c o st,
    distinct_peers P cfgs -> nth_error cfgs k = Some c ->
    Jp st (map bag0 (ps_sess P st)) -> Forall2 SgoodW cfgs (map inpart (ps_sess P st)) ->
    (forall t, nth_error (map inpart (ps_sess P st)) k = Some t -> okop o t) ->
    Jp (in_op k st o) (map bag0 (ps_sess P (in_op k st o))) /\
    Forall2 SgoodW cfgs (map inpart (ps_sess P (in_op k st o))) /\
    map inpart (ps_sess P (in_op k st o)) = upd_nth k (tstep o) (map inpart (ps_sess P st)).
  Proof.
    intros k c o st DP Hc J W OK.
    assert (HL : length (ps_sess P st) = length cfgs) by (apply Forall2_length' in W; now rewrite map_length in W).
    destruct (Forall2_nth _ _ _ _ _ k c W Hc) as [t [Ht Gt]].
    assert (NR : not_replace o) by (specialize (OK t Ht); destruct o; try exact I; contradiction).
    destruct (in_op_inv k c o st DP Hc NR HL J) as [J' I'].
    split; [exact J'|]. split; [|exact I'].
    rewrite I'. apply Forall2_upd_nth; [exact W|].
    intros x y Hx Hy Rxy. rewrite Hc in Hx. inversion Hx; subst x. apply SgoodW_tstep; [exact Rxy|now apply OK].
  Qed.

  (* ---------------------------------------------------------------- VRF changes, registrations *)

  Definition JW (st : pst) : Prop :=
    Jp st (map bag0 (ps_sess P st)) /\ Forall2 SgoodW cfgs (map inpart (ps_sess P st)).

  Lemma in_op_vrf : forall j o st, distinct_peers P cfgs -> vrf_op o -> JW st ->
    JW (in_op j st o) /\ map tlink (map inpart (ps_sess P (in_op j st o))) = map tlink (map inpart (ps_sess P st)).
  Proof.
    intros j o st DP VO [J W]. destruct (nth_error cfgs j) as [c|] eqn:Hc.
    - destruct (in_op_JW j c o st DP Hc J W) as [J' [W' I']].
      { intros t _. destruct o; try contradiction; exact I. }
      split; [split; assumption|]. rewrite I'. apply map_upd_nth. intros x _. now apply tlink_vrf.
    - unfold Pipeline.in_op. rewrite Hc. split; [split; assumption|reflexivity].
  Qed.

  Lemma in_ops_vrf : forall j ops st, distinct_peers P cfgs -> Forall vrf_op ops -> JW st ->
    JW (fold_left (in_op j) ops st) /\
    map tlink (map inpart (ps_sess P (fold_left (in_op j) ops st))) = map tlink (map inpart (ps_sess P st)).
  Proof.
    intros j ops. induction ops as [|o ops IH]; intros st DP VO H; cbn [fold_left]; [auto|].
    inversion VO; subst. destruct (in_op_vrf j o st DP H2 H) as [H' E'].
    destruct (IH (in_op j st o) DP H3 H') as [H'' E'']. split; [exact H''|congruence].
  Qed.

  Lemma vrf_broadcast_inv : forall js ops st, distinct_peers P cfgs -> Forall vrf_op ops -> JW st ->
    JW (vrf_broadcast P apply sel tagf cfgs js ops st) /\
    map tlink (map inpart (ps_sess P (vrf_broadcast P apply sel tagf cfgs js ops st))) = map tlink (map inpart (ps_sess P st)).
  Proof.
    intros js ops. unfold vrf_broadcast. induction js as [|j js IH]; intros st DP VO H; cbn [fold_left]; [auto|].
    destruct (in_ops_vrf j ops st DP VO H) as [H' E'].
    destruct (IH _ DP VO H') as [H'' E'']. split; [exact H''|congruence].
  Qed.

  Lemma vrf_add_ops : forall c, Forall vrf_op (vrf_add P c).
  Proof. intros c. unfold vrf_add. destruct (sc_cid P c); repeat constructor. Qed.
  Lemma vrf_del_ops : forall c, Forall vrf_op (vrf_del P c).
  Proof. intros c. unfold vrf_del. destruct (sc_cid P c); repeat constructor. Qed.

  Lemma vrf_list_facts : forall ops, Forall vrf_op ops ->
    forall r, AdjRIBInSpec.reg_once r ops = true /\ fold_left AdjRIBInProofs.regs_step ops r = r.
  Proof.
    induction 1 as [|o ops Ho H IH]; intros r; cbn; [auto|].
    destruct o; try contradiction; apply IH.
  Qed.

  Lemma vrf_list_fixed : forall ops, Forall vrf_op ops -> AdjRIBInSpec.fixed_policy ops.
  Proof.
    intros ops H x Hx. rewrite Forall_forall in H. specialize (H x Hx). destruct x; try exact I. contradiction.
  Qed.

  Lemma vrf_fold_ctabs : forall ops i, Forall vrf_op ops -> AdjRIBIn.ctabs (fold_left AdjRIBIn.step ops i) = AdjRIBIn.ctabs i.
  Proof.
    induction ops as [|o ops IH]; intros i H; cbn [fold_left]; [reflexivity|].
    inversion H; subst. rewrite IH by assumption. now destruct (vrf_op_frame o i H2) as [_ [_ [_ [E _]]]].
  Qed.

  (* registering / unregistering a client does not touch the routes *)
  Lemma loc_op_client_candidates : forall st o,
    match o with LocRIBClients.ORegister _ _ | LocRIBClients.OUnregister _ => True | _ => False end ->
    forall p, candidates P (loc_op st o) p = candidates P st p.
  Proof.
    intros st o Ho p. unfold candidates, Pipeline.loc_op.
    destruct o as [? ?|? ?|? ? ?|c oc|c|c]; try contradiction; cbn [LocRIBClients.step].
    - destruct (LocRIBClients.dump_routes AdjRIBOut.path c oc (LocRIBClients.routes (ps_loc P st))); reflexivity.
    - reflexivity.
  Qed.

  Lemma JW_same : forall st st', (forall p, candidates P st' p = candidates P st p) ->
    map inpart (ps_sess P st') = map inpart (ps_sess P st) -> JW st -> JW st'.
  Proof.
    intros st st' HC HI [J W]. split.
    - intros p. rewrite HC, bag0_inpart, HI, <- bag0_inpart. apply J.
    - now rewrite HI.
  Qed.

  (* ---------------------------------------------------------------- the invariant through every event *)

  Lemma Forall_upd_nth : forall (A : Type) (Q : A -> Prop) k (f : A -> A) l,
    Forall Q l -> (forall x, nth_error l k = Some x -> Q (f x)) -> Forall Q (upd_nth k f l).
  Proof.
    intros A Q k f l H. revert k. induction H as [|x l Hx H IH]; intros [|k] Hf; cbn; constructor; auto.
  Qed.

  Definition noreg (o : AdjRIBIn.op) : Prop :=
    match o with AdjRIBIn.Register _ | AdjRIBIn.Unregister _ | AdjRIBIn.ReplaceChain _ => False | _ => True end.

  Lemma tlink_noreg : forall o t, noreg o -> tlink (tstep o t) = tlink t.
  Proof. intros o t H. rewrite tlink_tstep. destruct o; try contradiction; now destruct (tlink t). Qed.

  Lemma map_tlink_tstep : forall o k l,
    map tlink (upd_nth k (tstep o) l) = upd_nth k (fun x => (fst x, AdjRIBInProofs.regs_step (snd x) o)) (map tlink l).
  Proof. intros. apply map_upd_nth_comm. intros x. apply tlink_tstep. Qed.

  Lemma sess_of_cfg : forall st k c, Inv st -> nth_error cfgs k = Some c -> exists s, nth_error (ps_sess P st) k = Some s.
  Proof.
    intros st k c HI Hc. destruct (nth_error (ps_sess P st) k) as [s|] eqn:E; [eauto|].
    apply nth_error_None in E. rewrite (Inv_length st HI) in E.
    assert (k < length cfgs) by (apply nth_error_Some; congruence). lia.
  Qed.

  Lemma cfg_of_sess : forall st k s, Inv st -> nth_error (ps_sess P st) k = Some s -> exists c, nth_error cfgs k = Some c.
  Proof.
    intros st k s HI Hs. destruct (nth_error cfgs k) as [c|] eqn:E; [eauto|].
    apply nth_error_None in E. rewrite <- (Inv_length st HI) in E.
    assert (k < length (ps_sess P st)) by (apply nth_error_Some; congruence). lia.
  Qed.

  (* a plain call (AddPath / RemovePath of the peer) on the Adj-RIB-In of a session *)
  Lemma Inv_in_op_noreg : forall st k o, distinct_peers P cfgs -> Inv st -> noreg o -> Inv (in_op k st o).
  Proof.
    intros st k o DP HI NO. destruct (nth_error cfgs k) as [c|] eqn:Hc.
    - destruct HI as [J W L].
      destruct (in_op_JW k c o st DP Hc J W) as [J' [W' I']].
      { intros t _. destruct o; try contradiction; exact I. }
      constructor; [exact J'|exact W'|].
      rewrite I', (map_upd_nth _ _ tlink k (tstep o)); [exact L|]. intros x _. now apply tlink_noreg.
    - unfold Pipeline.in_op. now rewrite Hc.
  Qed.

  Lemma Inv_us_event : forall st k l, Inv st -> Inv (us_event P cfgs k l st).
  Proof.
    intros st k l [J W L]. unfold us_event. destruct (is_up P st k); [|constructor; assumption].
    match goal with |- Inv ?x => set (st' := x) end.
    assert (HI : map inpart (ps_sess P st') = map inpart (ps_sess P st)).
    { unfold st'. cbn [with_sess ps_sess]. apply with_cfg_inpart. intros. reflexivity. }
    assert (HC : forall p, candidates P st' p = candidates P st p) by reflexivity.
    constructor.
    - intros p. rewrite HC, bag0_inpart, HI, <- bag0_inpart. apply J.
    - now rewrite HI.
    - now rewrite HI.
  Qed.

  Lemma bag_of_down : forall c t, SgoodW c t -> snd (tlink t) = [] -> tbag t = [].
  Proof.
    intros c [[u i] ops] [HR [HO HF]] HL. unfold tbag, bagI, tlink in *. cbn [fst snd] in *. rewrite HR.
    apply (AdjRIBInProofs.mirror (sc_sa P c) (sc_pol P c) ops HO (AdjRIBInProofs.fixed_policy_replace_ok ops _ HF) 0%N).
    rewrite HL. intros [].
  Qed.

  Lemma Inv_step : forall st ev, distinct_peers P cfgs -> Inv st -> Inv (pstep st ev).
  Proof.
    intros st ev DP HI. destruct ev as [k|k|k p q|k p i|k key|k]; cbn [Pipeline.step].
    - (* EUp *)
      destruct (nth_error cfgs k) as [c|] eqn:Hc; [|exact HI].
      destruct (is_up P st k) eqn:Hup; [exact HI|].
      destruct (sess_of_cfg st k c HI Hc) as [s Hs].
      assert (Hdown : ss_up P s = false) by (unfold is_up in Hup; now rewrite Hs in Hup).
      destruct HI as [J W L].
      set (others := others_up P cfgs st k).
      set (pre := flat_map (cfg_ops P cfgs (vrf_add P)) others).
      assert (VP : Forall vrf_op pre).
      { unfold pre. apply Forall_forall. intros x Hx. apply in_flat_map in Hx. destruct Hx as [j [_ Hx]].
        unfold cfg_ops in Hx. destruct (nth_error cfgs j) as [cj|]; [|destruct Hx].
        pose proof (vrf_add_ops cj) as F. rewrite Forall_forall in F. now apply F. }
      set (fresh := mkSst P true (fold_left AdjRIBIn.step pre (AdjRIBIn.init (sc_sa P c) (sc_pol P c)))
                          (AdjRIBOut.init P (sc_exp P c)) UpdateSender.init pre [] []).
      set (st1 := with_sess P st (upd_nth k (fun _ => fresh) (ps_sess P st))).
      assert (Hi : nth_error (map inpart (ps_sess P st)) k = Some (inpart s)) by (now apply map_nth_error).
      assert (I1 : map inpart (ps_sess P st1) = upd_nth k (fun _ => inpart fresh) (map inpart (ps_sess P st))).
      { unfold st1. cbn [with_sess ps_sess]. now apply map_upd_nth_comm. }
      destruct (Forall2_nth _ _ _ _ _ k c W Hc) as [t [Ht Gt]]. rewrite Hi in Ht. inversion Ht; subst t. clear Ht.
      assert (Ls : LinkOk (tlink (inpart s))).
      { rewrite Forall_forall in L. apply L. apply in_map. eapply nth_error_In. exact Hi. }
      assert (Lr : snd (tlink (inpart s)) = []).
      { unfold LinkOk in Ls. cbn [tlink inpart fst snd] in *. now rewrite Hdown in Ls. }
      assert (B0 : tbag (inpart s) = []) by (eapply bag_of_down; eassumption).
      assert (B1 : tbag (inpart fresh) = []).
      { unfold tbag, bagI, fresh, inpart. cbn [fst snd ss_in]. now rewrite vrf_fold_ctabs. }
      assert (JW1 : JW st1).
      { split.
        - intros p. unfold st1. rewrite candidates_with_sess, bag0_inpart. fold st1. rewrite I1.
          rewrite (map_upd_nth_comm _ _ tbag (fun _ => inpart fresh) (fun _ => tbag (inpart fresh))) by reflexivity.
          rewrite B1, <- B0, upd_nth_same by (now apply map_nth_error). rewrite <- bag0_inpart. apply J.
        - rewrite I1. apply Forall2_upd_nth; [exact W|]. intros x y Hx _ _. rewrite Hc in Hx. inversion Hx; subst x.
          unfold SgoodW, fresh, inpart. cbn [fst snd ss_in ss_ops]. split; [reflexivity|]. split.
          + apply (vrf_list_facts pre VP).
          + now apply vrf_list_fixed. }
      assert (T1 : map tlink (map inpart (ps_sess P st1)) = upd_nth k (fun _ => (true, [])) (map tlink (map inpart (ps_sess P st)))).
      { rewrite I1. apply map_upd_nth_comm. intros _. unfold tlink, fresh, inpart. cbn [fst snd ss_up ss_ops].
        f_equal. rewrite AdjRIBInProofs.spec_regs_fold. apply (vrf_list_facts pre VP). }
      destruct (vrf_broadcast_inv (others ++ [k]) (vrf_add P c) st1 DP (vrf_add_ops c) JW1) as [[J2 W2] T2].
      set (st2 := vrf_broadcast P apply sel tagf cfgs (others ++ [k]) (vrf_add P c) st1) in *.
      assert (Hk2 : nth_error (map tlink (map inpart (ps_sess P st2))) k = Some (true, [])).
      { rewrite T2, T1. apply nth_error_upd_same with (x := tlink (inpart s)). now apply map_nth_error. }
      destruct (in_op_JW k c (AdjRIBIn.Register 0%N) st2 DP Hc J2 W2) as [J3 [W3 I3]].
      { intros t Ht. unfold okop. apply (map_nth_error tlink) in Ht. rewrite Hk2 in Ht.
        assert (E2 : AdjRIBInSpec.spec_regs (snd t) = []) by (unfold tlink in Ht; now inversion Ht).
        rewrite E2. intros []. }
      set (st3 := in_op k st2 (AdjRIBIn.Register 0%N)) in *.
      set (st4 := loc_op st3 (LocRIBClients.ORegister k (sc_opts P c))).
      assert (I4 : map inpart (ps_sess P st4) = map inpart (ps_sess P st3)) by apply loc_op_inpart.
      destruct (JW_same st3 st4 (loc_op_client_candidates st3 (LocRIBClients.ORegister k (sc_opts P c)) I) I4 (conj J3 W3)) as [J4 W4].
      constructor; [exact J4|exact W4|].
      rewrite I4, I3, map_tlink_tstep, T2, T1, upd_nth_twice.
      apply Forall_upd_nth; [exact L|]. intros x _. reflexivity.
    - (* EDown *)
      destruct (nth_error cfgs k) as [c|] eqn:Hc; [|exact HI].
      destruct (is_up P st k) eqn:Hup; cbn [negb]; [|exact HI].
      destruct (sess_of_cfg st k c HI Hc) as [s Hs].
      assert (Hu : ss_up P s = true) by (unfold is_up in Hup; now rewrite Hs in Hup).
      destruct HI as [J W L].
      assert (Hi : nth_error (map inpart (ps_sess P st)) k = Some (inpart s)) by (now apply map_nth_error).
      assert (Ls : tlink (inpart s) = (true, [0%N])).
      { assert (LO : LinkOk (tlink (inpart s))).
        { rewrite Forall_forall in L. apply L. apply in_map. eapply nth_error_In. exact Hi. }
        unfold LinkOk in LO. unfold tlink in *. cbn [inpart fst snd] in *. rewrite Hu in *. now rewrite LO. }
      destruct (vrf_broadcast_inv (others_up P cfgs st k ++ [k]) (vrf_del P c) st DP (vrf_del_ops c) (conj J W)) as [[J1 W1] T1].
      set (st1 := vrf_broadcast P apply sel tagf cfgs (others_up P cfgs st k ++ [k]) (vrf_del P c) st) in *.
      destruct (in_op_JW k c (AdjRIBIn.Unregister 0%N) st1 DP Hc J1 W1) as [J2 [W2 I2]].
      { intros t _. exact I. }
      set (st2 := in_op k st1 (AdjRIBIn.Unregister 0%N)) in *.
      set (st3 := loc_op st2 (LocRIBClients.OUnregister k)).
      assert (I3 : map inpart (ps_sess P st3) = map inpart (ps_sess P st2)) by apply loc_op_inpart.
      destruct (JW_same st2 st3 (loc_op_client_candidates st2 (LocRIBClients.OUnregister k) I) I3 (conj J2 W2)) as [J3 W3].
      set (st4 := with_sess P st3 (upd_nth k (fun s0 => set_up P s0 false) (ps_sess P st3))).
      assert (I4 : map inpart (ps_sess P st4) =
                   upd_nth k (fun t : itriple => (false, snd (fst t), snd t)) (map inpart (ps_sess P st3))).
      { unfold st4. cbn [with_sess ps_sess]. apply map_upd_nth_comm. intros x. reflexivity. }
      constructor.
      + intros p. unfold st4. rewrite candidates_with_sess, bag0_inpart. fold st4. rewrite I4.
        rewrite (map_upd_nth _ _ tbag k) by (intros x _; reflexivity).
        rewrite <- bag0_inpart. apply J3.
      + rewrite I4. apply Forall2_upd_nth; [exact W3|]. intros x y _ _ G. exact G.
      + rewrite I4.
        rewrite (map_upd_nth_comm _ _ tlink (fun t : itriple => (false, snd (fst t), snd t)) (fun x => (false, snd x))) by reflexivity.
        rewrite I3, I2, map_tlink_tstep, T1, upd_nth_twice.
        apply Forall_upd_nth; [exact L|]. intros x Hx.
        rewrite (map_nth_error tlink _ _ Hi) in Hx. inversion Hx; subst x. rewrite Ls. reflexivity.
    - (* EAnnounce *)
      destruct (is_up P st k); [|exact HI]. now apply Inv_in_op_noreg.
    - (* EWithdraw *)
      destruct (is_up P st k); [|exact HI]. now apply Inv_in_op_noreg.
    - now apply Inv_us_event.
    - now apply Inv_us_event.
  Qed.

  (* ---------------------------------------------------------------- all histories *)

  Lemma parts_dead : forall cs p, concat (parts cs (map bag0 (map (dead_sst P) cs)) p) = [].
  Proof. induction cs as [|c cs IH]; intros p; [reflexivity|]. unfold parts in *. cbn. apply IH. Qed.

  Lemma Inv_init : Inv (Pipeline.init P cfgs).
  Proof.
    constructor; unfold Pipeline.init; cbn [ps_sess].
    - intros p. rewrite parts_dead. reflexivity.
    - induction cfgs as [|c cs IH]; cbn; constructor; [|exact IH].
      unfold SgoodW, inpart. cbn. split; [reflexivity|]. split; [reflexivity|]. intros x [].
    - induction cfgs as [|c cs IH]; cbn; constructor; [reflexivity|exact IH].
  Qed.

  Lemma Inv_run : forall evs, distinct_peers P cfgs -> Inv (prun evs).
  Proof.
    intros evs DP. unfold Pipeline.run.
    assert (G : forall st, Inv st -> Inv (fold_left pstep evs st)).
    { induction evs as [|e evs' IH]; intros st HI; cbn [fold_left]; [exact HI|]. apply IH. now apply Inv_step. }
    apply G. apply Inv_init.
  Qed.

  Lemma Permutation_filter' : forall (A : Type) (f : A -> bool) l l', Permutation l l' -> Permutation (filter f l) (filter f l').
  Proof.
    intros A f l l' H. induction H; cbn.
    - constructor.
    - destruct (f x); [now constructor|assumption].
    - destruct (f x), (f y); cbn; solve [apply perm_swap | apply Permutation_refl].
    - eapply Permutation_trans; eassumption.
  Qed.

  Lemma at_pfx_ekey : forall p A, AdjRIBIn.at_pfx p (map AdjRIBInSpec.ekey A) = map AdjRIBInSpec.pkey (AdjRIBIn.at_pfx p A).
  Proof.
    intros p A. unfold AdjRIBIn.at_pfx. induction A as [|[p' q] A IH]; [reflexivity|]. cbn.
    destruct (N.eqb p' p); cbn; now rewrite IH.
  Qed.

  Lemma part_perm : forall c p A B,
    Permutation (map AdjRIBInSpec.ekey A) (map AdjRIBInSpec.ekey B) ->
    Permutation (map ckey (map (lift_of P c) (AdjRIBIn.at_pfx p A))) (map ckey (map (lift_of P c) (AdjRIBIn.at_pfx p B))).
  Proof.
    intros c p A B H.
    assert (G : forall X, map ckey (map (lift_of P c) (AdjRIBIn.at_pfx p X)) =
                          map (fun q => ckey (lift_of P c q)) (AdjRIBIn.at_pfx p (map AdjRIBInSpec.ekey X))).
    { intros X. rewrite at_pfx_ekey, !map_map. apply map_ext. intros q. unfold lift_of. apply ckey_lift_pkey. }
    rewrite !G. apply Permutation_map. unfold AdjRIBIn.at_pfx. apply Permutation_map. now apply Permutation_filter'.
  Qed.

  Lemma part_contribution : forall c s p, SgoodW c (inpart s) -> LinkOk (tlink (inpart s)) ->
    Permutation (part c (bag0 s) p) (map ckey (if ss_up P s then contribution_at P c (ss_ops P s) p else [])).
  Proof.
    intros c s p G LO. destruct (ss_up P s) eqn:Hu.
    - destruct G as [HR [HO HF]]. unfold LinkOk, tlink, inpart in LO. cbn [fst snd] in *. rewrite Hu in LO.
      unfold part, contribution_at, bag0. cbn [inpart fst snd] in HR. rewrite HR.
      apply part_perm.
      apply (AdjRIBInProofs.mirror_fixed (sc_sa P c) (sc_pol P c) (ss_ops P s) HF HO 0%N). rewrite LO. now left.
    - assert (E : tbag (inpart s) = []).
      { apply (bag_of_down c); [exact G|]. unfold LinkOk, tlink, inpart in *. cbn [fst snd] in *. now rewrite Hu in LO. }
      unfold part. unfold tbag, bagI, inpart in E. cbn [fst snd] in E. unfold bag0. rewrite E. reflexivity.
  Qed.

  Lemma parts_union : forall cs ss p,
    Forall2 SgoodW cs (map inpart ss) -> Forall LinkOk (map tlink (map inpart ss)) ->
    Permutation (concat (parts cs (map bag0 ss) p))
      (map ckey (flat_map (fun x : scfg P * sst => if ss_up P (snd x) then contribution_at P (fst x) (ss_ops P (snd x)) p else [])
                          (combine cs ss))).
  Proof.
    induction cs as [|c cs IH]; intros [|s ss] p W L.
    - reflexivity.
    - reflexivity.
    - cbn [map] in W. inversion W.
    - cbn [map] in W, L. inversion W as [|? ? ? ? W1 W2]; subst. inversion L as [|? ? L1 L2]; subst.
      unfold parts. cbn [map combine concat flat_map fst snd]. rewrite map_app.
      apply Permutation_app; [now apply part_contribution|].
      apply (IH ss p W2 L2).
  Qed.

  (* C05 + C06 + C07, composed: after any history the candidates of a prefix are (up to Path.Compare) the union over
     the sessions that are up of their eligible, current, import-policy-rewritten announcements *)
  Theorem locrib_is_union_of_contributions : forall evs p,
    distinct_peers P cfgs ->
    Permutation (map ckey (candidates P (prun evs) p)) (map ckey (union_of_contributions P cfgs (prun evs) p)).
  Proof.
    intros evs p DP. destruct (Inv_run evs DP) as [J W L].
    eapply Permutation_trans; [apply J|]. unfold union_of_contributions. now apply parts_union.
  Qed.

  (* ... in particular nothing learned from a session that is down: no candidate carries its address as Source *)
  Theorem no_candidate_of_down_session : forall evs k c s p x,
    distinct_peers P cfgs ->
    nth_error cfgs k = Some c -> nth_error (ps_sess P (prun evs)) k = Some s -> ss_up P s = false ->
    In x (candidates P (prun evs) p) -> src_of x <> Some (sc_ip P c).
  Proof.
    intros evs k c s p x DP Hc Hs Hd Hx HS.
    pose proof (locrib_is_union_of_contributions evs p DP) as HP.
    assert (HI : In (ckey x) (map ckey (union_of_contributions P cfgs (prun evs) p))).
    { eapply Permutation_in; [exact HP|]. now apply in_map. }
    apply in_map_iff in HI. destruct HI as [y [Ey Hy]].
    unfold union_of_contributions in Hy. apply in_flat_map in Hy. destruct Hy as [[c' s'] [Hcs Hy]].
    cbn [fst snd] in Hy. destruct (ss_up P s') eqn:Hu'; [|destruct Hy].
    unfold contribution_at in Hy. apply in_map_iff in Hy. destruct Hy as [q [<- _]].
    assert (ES : src_of (ckey x) = Some (sc_ip P c')) by (rewrite <- Ey, src_ckey; reflexivity).
    rewrite src_ckey, HS in ES. inversion ES as [E].
    apply In_nth_error in Hcs. destruct Hcs as [j Hj].
    assert (Hj1 : nth_error cfgs j = Some c' /\ nth_error (ps_sess P (prun evs)) j = Some s').
    { clear -Hj. revert j Hj. generalize (ps_sess P (prun evs)). induction cfgs as [|a l IH]; intros [|b m] [|j] Hj; cbn in *; try discriminate.
      - inversion Hj. auto.
      - now apply IH. }
    destruct Hj1 as [Hj1 Hj2].
    assert (j = k) by (eapply (NoDup_map_nth_inj _ _ (sc_ip P) cfgs); eauto).
    subst j. rewrite Hs in Hj2. inversion Hj2; subst s'. congruence.
  Qed.

  (* ---------------------------------------------------------------- non-interference between receiving sessions *)

  (* what a session's Adj-RIB-In holds and does: everything but the VRF's refcounters it reads *)
  Definition icore (t : itriple) :=
    (fst (fst t), AdjRIBIn.tab (snd (fst t)), AdjRIBIn.regs (snd (fst t)), AdjRIBIn.ctabs (snd (fst t)),
     AdjRIBIn.log (snd (fst t)), AdjRIBIn.chain (snd (fst t)), AdjRIBIn.sa (snd (fst t))).

  Lemma icore_vrf : forall o t, vrf_op o -> icore (tstep o t) = icore t.
  Proof.
    intros o [[u i] ops] H. unfold icore, tstep. cbn [fst snd].
    destruct (vrf_op_frame o i H) as [E1 [E2 [E3 [E4 [E5 E6]]]]]. now rewrite E1, E2, E3, E4, E5, E6.
  Qed.

  Lemma in_op_inparts : forall k o st,
    map inpart (ps_sess P (in_op k st o)) = map inpart (ps_sess P st) \/
    map inpart (ps_sess P (in_op k st o)) = upd_nth k (tstep o) (map inpart (ps_sess P st)).
  Proof.
    intros k o st. unfold Pipeline.in_op.
    destruct (nth_error cfgs k) as [c|]; [|now left].
    destruct (nth_error (ps_sess P st) k) as [s|] eqn:Hs; [|now left]. right.
    fold (ev_op c). rewrite ev_fold_inpart. cbn [with_sess ps_sess].
    set (F := fun s0 : sst => set_in P s0 (AdjRIBIn.step (ss_in P s) o) (ss_ops P s0 ++ [o])).
    rewrite <- (upd_nth_at _ k (ps_sess P st) F s Hs).
    rewrite (map_upd_nth_comm _ _ inpart (fun _ => F s) (fun _ => tstep o (inpart s))) by reflexivity.
    apply upd_nth_at. now apply map_nth_error.
  Qed.

  Lemma in_op_other : forall k o st j, j <> k ->
    nth_error (map inpart (ps_sess P (in_op k st o))) j = nth_error (map inpart (ps_sess P st)) j.
  Proof.
    intros k o st j NE. destruct (in_op_inparts k o st) as [E|E]; rewrite E; [reflexivity|].
    now apply nth_error_upd_other.
  Qed.

  Lemma in_op_icore : forall k o st, vrf_op o ->
    map icore (map inpart (ps_sess P (in_op k st o))) = map icore (map inpart (ps_sess P st)).
  Proof.
    intros k o st VO. destruct (in_op_inparts k o st) as [E|E]; rewrite E; [reflexivity|].
    apply map_upd_nth. intros x _. now apply icore_vrf.
  Qed.

  Lemma vrf_broadcast_icore : forall js ops st, Forall vrf_op ops ->
    map icore (map inpart (ps_sess P (vrf_broadcast P apply sel tagf cfgs js ops st))) = map icore (map inpart (ps_sess P st)).
  Proof.
    intros js ops. unfold vrf_broadcast. induction js as [|j js IH]; intros st VO; cbn [fold_left]; [reflexivity|].
    rewrite IH by assumption. clear IH. revert st. induction VO as [|o ops Ho VO IH]; intros st; cbn [fold_left]; [reflexivity|].
    rewrite IH. now apply in_op_icore.
  Qed.

  Definition ev_session (ev : Pipeline.event) : nat :=
    match ev with EUp k | EDown k | EAnnounce k _ _ | EWithdraw k _ _ | EDequeue k _ | EEmit k => k end.

  (* an event of session k never changes what another session's Adj-RIB-In holds, whom it serves, what it told them, or
     its policy; only a session coming up / going down is seen by the others, through the VRF's contributing ASNs and
     cluster ids *)
  Lemma icore_nth : forall (L L' : list itriple) j,
    nth_error L j = nth_error L' j -> nth_error (map icore L) j = nth_error (map icore L') j.
  Proof. intros L L' j E. rewrite (nth_error_map icore j L), (nth_error_map icore j L'). now rewrite E. Qed.

  Lemma map_upd_other : forall (A B : Type) (g : A -> B) k j (f : A -> A) l, j <> k ->
    nth_error (map g (upd_nth k f l)) j = nth_error (map g l) j.
  Proof.
    intros A B g k j f l NE. rewrite (nth_error_map g j (upd_nth k f l)), (nth_error_map g j l).
    now rewrite nth_error_upd_other.
  Qed.

  Theorem noninterference : forall st ev j,
    ev_session ev <> j ->
    nth_error (map icore (map inpart (ps_sess P (pstep st ev)))) j = nth_error (map icore (map inpart (ps_sess P st))) j /\
    (match ev with EUp _ | EDown _ => True
     | _ => nth_error (map inpart (ps_sess P (pstep st ev))) j = nth_error (map inpart (ps_sess P st)) j end).
  Proof.
    intros st ev j NE.
    destruct ev as [k|k|k p q|k p i|k key|k]; cbn [Pipeline.step ev_session] in *.
    - split; [|exact I].
      destruct (nth_error cfgs k) as [c|]; [|reflexivity]. destruct (is_up P st k); [reflexivity|].
      rewrite loc_op_inpart.
      eapply eq_trans; [apply icore_nth, in_op_other; congruence|].
      rewrite vrf_broadcast_icore by apply vrf_add_ops.
      apply icore_nth. cbn [with_sess ps_sess]. apply map_upd_other. congruence.
    - split; [|exact I].
      destruct (nth_error cfgs k) as [c|]; [|reflexivity]. destruct (negb (is_up P st k)); [reflexivity|].
      eapply eq_trans; [apply icore_nth; cbn [with_sess ps_sess]; apply map_upd_other; congruence|].
      rewrite loc_op_inpart.
      eapply eq_trans; [apply icore_nth, in_op_other; congruence|].
      now rewrite vrf_broadcast_icore by apply vrf_del_ops.
    - assert (E : nth_error (map inpart (ps_sess P (if is_up P st k then in_op k st (AdjRIBIn.Announce p q) else st))) j =
                  nth_error (map inpart (ps_sess P st)) j).
      { destruct (is_up P st k); [|reflexivity]. apply in_op_other. congruence. }
      split; [now apply icore_nth|exact E].
    - assert (E : nth_error (map inpart (ps_sess P (if is_up P st k then in_op k st (AdjRIBIn.Withdraw p i) else st))) j =
                  nth_error (map inpart (ps_sess P st)) j).
      { destruct (is_up P st k); [|reflexivity]. apply in_op_other. congruence. }
      split; [now apply icore_nth|exact E].
    - assert (E : map inpart (ps_sess P (us_event P cfgs k (UpdateSender.Dequeue key) st)) = map inpart (ps_sess P st)).
      { unfold us_event. destruct (is_up P st k); [|reflexivity]. cbn [with_sess ps_sess]. apply with_cfg_inpart. intros. reflexivity. }
      split; now rewrite E.
    - assert (E : map inpart (ps_sess P (us_event P cfgs k UpdateSender.EmitOne st)) = map inpart (ps_sess P st)).
      { unfold us_event. destruct (is_up P st k); [|reflexivity]. cbn [with_sess ps_sess]. apply with_cfg_inpart. intros. reflexivity. }
      split; now rewrite E.
  Qed.
End Pipe.
