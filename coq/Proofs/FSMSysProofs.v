(* Proofs for C07: the speaker model (sessions sharing one VRF: Loc-RIB, Adj-RIB-Ins, contributing
   ASN / cluster-id refcounts, Adj-RIB-Outs registered with the Loc-RIB) keeps, for ALL event
   histories, exactly the contributions of the sessions that are Established. *)
From Coq Require Import List NArith Bool Lia PeanoNat.
Import ListNotations.
From BioVerif Require Import Model.FSM Spec.RFC4271FSM Proofs.FSMProofs.
Local Open Scope N_scope.

(* ---------------------------------------------------------------- observers *)

Definition rib_of (y : sys) (j : N) : list rib_entry :=
  filter (fun x => match x with (s0, _, _) => s0 =? j end) (y_rib y).
Definition adjin_of (y : sys) (j : N) : list N := alist_get (y_adjin y) j.

Definition nfamN (c : cfg) : N := N.of_nat (length (nfam c)).
Definition asn_c (a : N) (c : cfg) (s : sess) : N :=
  if s_att s && (c_las c =? a) then nfamN c else 0.
Definition cid_c (a : N) (c : cfg) (s : sess) : N :=
  if s_att s && (c_rr c && (cluster_of c =? a)) then nfamN c else 0.
Definition cl4_c (c : cfg) (s : sess) : N := if s_att s && c_v4 c then 1 else 0.
Definition cl6_c (c : cfg) (s : sess) : N := if s_att s && c_v6 c then 1 else 0.

(* sum of a per-session contribution over all sessions *)
Fixpoint total (f : cfg -> sess -> N) (l : list (cfg * sess)) : N :=
  match l with
  | [] => 0
  | (c, s) :: r => f c s + total f r
  end.

(* the same sum without session i *)
Fixpoint total_but (f : cfg -> sess -> N) (l : list (cfg * sess)) (i : nat) : N :=
  match l, i with
  | [], _ => 0
  | _ :: r, O => total f r
  | (c, s) :: r, S j => f c s + total_but f r j
  end.

Lemma total_split : forall f l i c s,
  nth_sess l i = Some (c, s) -> total f l = total_but f l i + f c s.
Proof.
  intros f l. induction l as [|[c0 s0] r IH]; intros i c s H; [destruct i; discriminate|].
  destruct i as [|j]; cbn in *.
  - inversion H; subst. lia.
  - rewrite (IH j c s H). lia.
Qed.

Lemma total_set : forall f l i c s x,
  nth_sess l i = Some (c, s) ->
  total f (set_nth_sess l i x) = total_but f l i + f (fst x) (snd x).
Proof.
  intros f l. induction l as [|[c0 s0] r IH]; intros i c s [cx sx] H; [destruct i; discriminate|].
  destruct i as [|j]; cbn in *.
  - lia.
  - rewrite (IH j c s (cx, sx) H). cbn. lia.
Qed.

Lemma nth_set_same : forall l i x c s,
  nth_sess l i = Some (c, s) -> nth_sess (set_nth_sess l i x) i = Some x.
Proof.
  induction l as [|y r IH]; intros i x c s H; [destruct i; discriminate|].
  destruct i; cbn in *; [reflexivity | eapply IH; eassumption].
Qed.

Lemma nth_set_other : forall l i j x,
  i <> j -> nth_sess (set_nth_sess l i x) j = nth_sess l j.
Proof.
  induction l as [|y r IH]; intros i j x H; [destruct i; reflexivity|].
  destruct i, j; cbn; try reflexivity; try congruence. apply IH. congruence.
Qed.

(* ---------------------------------------------------------------- multiset refcounts *)

Lemma rc_count_remove : forall l k a,
  rc_count (rc_remove l k) a = if k =? a then rc_count l a - 1 else rc_count l a.
Proof.
  induction l as [|x r IH]; intros k a; cbn [rc_remove rc_count].
  - destruct (k =? a); reflexivity.
  - destruct (x =? k) eqn:E1.
    + apply N.eqb_eq in E1. subst x. destruct (k =? a) eqn:E2; [lia | reflexivity].
    + cbn [rc_count]. rewrite IH. destruct (x =? a) eqn:E2; destruct (k =? a) eqn:E3; try reflexivity.
      apply N.eqb_eq in E2. apply N.eqb_eq in E3. subst. rewrite N.eqb_refl in E1. discriminate.
Qed.

Lemma rc_count_add_n : forall (xs : list bool) l k a,
  rc_count (fold_left (fun l0 _ => rc_add l0 k) xs l) a =
  rc_count l a + (if k =? a then N.of_nat (length xs) else 0).
Proof.
  induction xs as [|x xs IH]; intros l k a; cbn [fold_left length].
  - destruct (k =? a); cbn; lia.
  - rewrite IH. unfold rc_add. cbn [rc_count]. destruct (k =? a) eqn:E; lia.
Qed.

Lemma rc_count_remove_n : forall (xs : list bool) l k a,
  rc_count (fold_left (fun l0 _ => rc_remove l0 k) xs l) a =
  rc_count l a - (if k =? a then N.of_nat (length xs) else 0).
Proof.
  induction xs as [|x xs IH]; intros l k a; cbn [fold_left length].
  - destruct (k =? a); cbn; lia.
  - rewrite IH. rewrite rc_count_remove. destruct (k =? a) eqn:E; lia.
Qed.

(* ---------------------------------------------------------------- association lists and RIB filters *)

Lemma alist_get_set : forall l k v k',
  alist_get (alist_set l k v) k' = if k =? k' then v else alist_get l k'.
Proof.
  induction l as [|[k0 v0] r IH]; intros k v k'; cbn.
  - destruct (k =? k'); reflexivity.
  - destruct (k0 =? k) eqn:E1; cbn.
    + apply N.eqb_eq in E1. subst k0. destruct (k =? k'); reflexivity.
    + rewrite IH. destruct (k0 =? k') eqn:E2; destruct (k =? k') eqn:E3; try reflexivity.
      apply N.eqb_eq in E2. apply N.eqb_eq in E3. subst. rewrite N.eqb_refl in E1. discriminate.
Qed.

Lemma filter_filter_other : forall (rib : list rib_entry) (j : N) (g : rib_entry -> bool),
  (forall x, (match x with (s0, _, _) => s0 =? j end) = true -> g x = true) ->
  filter (fun x => match x with (s0, _, _) => s0 =? j end) (filter g rib) =
  filter (fun x => match x with (s0, _, _) => s0 =? j end) rib.
Proof.
  intros rib j g Hg. induction rib as [|x r IH]; cbn; [reflexivity|].
  destruct (g x) eqn:G; cbn.
  - rewrite IH. reflexivity.
  - destruct (match x with (s0, _, _) => s0 =? j end) eqn:F; [rewrite (Hg x F) in G; discriminate | exact IH].
Qed.

Lemma rib_of_without_other : forall rib sid rid j, sid <> j ->
  filter (fun x => match x with (s0, _, _) => s0 =? j end) (rib_without rib sid rid) =
  filter (fun x => match x with (s0, _, _) => s0 =? j end) rib.
Proof.
  intros. unfold rib_without. apply (filter_filter_other rib j).
  intros [[s0 r0] b] F. apply N.eqb_eq in F. subst s0.
  destruct (j =? sid) eqn:E; [apply N.eqb_eq in E; congruence | reflexivity].
Qed.

Lemma rib_of_without_sess_other : forall rib sid j, sid <> j ->
  filter (fun x => match x with (s0, _, _) => s0 =? j end) (rib_without_sess rib sid) =
  filter (fun x => match x with (s0, _, _) => s0 =? j end) rib.
Proof.
  intros. unfold rib_without_sess. apply (filter_filter_other rib j).
  intros [[s0 r0] b] F. apply N.eqb_eq in F. subst s0.
  destruct (j =? sid) eqn:E; [apply N.eqb_eq in E; congruence | reflexivity].
Qed.

Lemma rib_of_without_sess_self : forall rib sid,
  filter (fun x => match x with (s0, _, _) => s0 =? sid end) (rib_without_sess rib sid) = [].
Proof.
  intros. unfold rib_without_sess. induction rib as [|[[s0 r0] b] r IH]; cbn; [reflexivity|].
  destruct (s0 =? sid) eqn:E; cbn; [exact IH | rewrite E; exact IH].
Qed.

(* ---------------------------------------------------------------- apply_update touches only RIB and Adj-RIB-In of its session *)

Lemma apply_withdraw_fold : forall sid wd y,
  let y' := fold_left (apply_withdraw sid) wd y in
  y_sess y' = y_sess y /\ y_asn y' = y_asn y /\ y_cid y' = y_cid y /\ y_cl4 y' = y_cl4 y /\ y_cl6 y' = y_cl6 y /\
  (forall j, sid <> j -> rib_of y' j = rib_of y j /\ adjin_of y' j = adjin_of y j).
Proof.
  intros sid wd. induction wd as [|r wd IH]; intros y; cbn [fold_left].
  - repeat split; reflexivity.
  - specialize (IH (apply_withdraw sid y r)). cbn zeta in IH.
    destruct IH as (A & B & C & D & E & F). cbn in A, B, C, D, E.
    repeat split; try assumption; destruct (F j H) as [F1 F2].
    + rewrite F1. unfold rib_of. cbn. apply rib_of_without_other. exact H.
    + rewrite F2. unfold adjin_of. cbn. rewrite alist_get_set.
      destruct (sid =? j) eqn:Q; [apply N.eqb_eq in Q; congruence | reflexivity].
Qed.

Lemma apply_announce_fold : forall (imp : import_policy) sid ann y,
  let y' := fold_left (apply_announce imp sid) ann y in
  y_sess y' = y_sess y /\ y_asn y' = y_asn y /\ y_cid y' = y_cid y /\ y_cl4 y' = y_cl4 y /\ y_cl6 y' = y_cl6 y /\
  (forall j, sid <> j -> rib_of y' j = rib_of y j /\ adjin_of y' j = adjin_of y j).
Proof.
  intros imp sid ann. induction ann as [|r ann IH]; intros y; cbn [fold_left].
  - repeat split; reflexivity.
  - specialize (IH (apply_announce imp sid y r)). cbn zeta in IH.
    destruct IH as (A & B & C & D & E & F). cbn in A, B, C, D, E.
    repeat split; try assumption; destruct (F j H) as [F1 F2].
    + rewrite F1. unfold rib_of. cbn.
      assert (Hn : (sid =? j) = false) by (destruct (sid =? j) eqn:Q; [apply N.eqb_eq in Q; congruence | reflexivity]).
      rewrite filter_app. unfold imported. destruct imp; cbn; try rewrite Hn; rewrite app_nil_r;
        apply rib_of_without_other; exact H.
    + rewrite F2. unfold adjin_of. cbn. rewrite alist_get_set.
      destruct (sid =? j) eqn:Q; [apply N.eqb_eq in Q; congruence | reflexivity].
Qed.

Lemma apply_update_frame : forall c (imp : import_policy) sid ann wd y,
  let y' := apply_update c imp sid ann wd y in
  y_sess y' = y_sess y /\ y_asn y' = y_asn y /\ y_cid y' = y_cid y /\ y_cl4 y' = y_cl4 y /\ y_cl6 y' = y_cl6 y /\
  (forall j, sid <> j -> rib_of y' j = rib_of y j /\ adjin_of y' j = adjin_of y j).
Proof.
  intros c imp sid ann wd y. unfold apply_update. destruct (c_v4 c); cbn [negb].
  - pose proof (apply_withdraw_fold sid wd y) as W. cbn zeta in W.
    pose proof (apply_announce_fold imp sid ann (fold_left (apply_withdraw sid) wd y)) as A. cbn zeta in A.
    destruct W as (W1 & W2 & W3 & W4 & W5 & W6). destruct A as (A1 & A2 & A3 & A4 & A5 & A6).
    cbn zeta. repeat split; try congruence;
      destruct (A6 j H) as [P1 P2]; destruct (W6 j H) as [Q1 Q2]; congruence.
  - cbn zeta. repeat split; reflexivity.
Qed.

Lemma apply_poison_frame : forall c (imp : import_policy) sid rid b v y,
  let y' := apply_poison c imp sid rid b v y in
  y_sess y' = y_sess y /\ y_asn y' = y_asn y /\ y_cid y' = y_cid y /\ y_cl4 y' = y_cl4 y /\ y_cl6 y' = y_cl6 y /\
  (forall j, sid <> j -> rib_of y' j = rib_of y j /\ adjin_of y' j = adjin_of y j).
Proof.
  intros c imp sid rid b v y. unfold apply_poison. destruct (c_v4 c); cbn [negb]; cbn zeta.
  - repeat split; try reflexivity.
    + unfold rib_of. cbn.
      assert (Hn : (sid =? j) = false) by (destruct (sid =? j) eqn:Q; [apply N.eqb_eq in Q; congruence | reflexivity]).
      rewrite filter_app. unfold imported.
      destruct (if b then 0 <? rc_count (y_asn y) v else 0 <? rc_count (y_cid y) v); destruct imp;
        cbn; try rewrite Hn; rewrite app_nil_r; apply rib_of_without_other; exact H.
    + unfold adjin_of. cbn. rewrite alist_get_set.
      destruct (sid =? j) eqn:Q; [apply N.eqb_eq in Q; congruence | reflexivity].
  - repeat split; reflexivity.
Qed.

Lemma reimported_other : forall (imp : import_policy) h sid j l, sid <> j ->
  filter (fun x : rib_entry => match x with (s0, _, _) => s0 =? j end)
    (flat_map (fun rid => if is_hidden h sid rid then [] else imported imp sid rid) l) = [].
Proof.
  intros imp h sid j l H.
  assert (Hn : (sid =? j) = false) by (destruct (sid =? j) eqn:Q; [apply N.eqb_eq in Q; congruence | reflexivity]).
  induction l as [|r l IH]; cbn [flat_map]; [reflexivity|].
  rewrite filter_app, IH, app_nil_r. destruct (is_hidden h sid r); [reflexivity|].
  unfold imported. destruct imp; cbn; try rewrite Hn; reflexivity.
Qed.

Lemma apply_reimport_frame : forall c (imp : import_policy) sid att y,
  let y' := apply_reimport c imp sid att y in
  y_sess y' = y_sess y /\ y_asn y' = y_asn y /\ y_cid y' = y_cid y /\ y_cl4 y' = y_cl4 y /\ y_cl6 y' = y_cl6 y /\
  adjin_of y' sid = adjin_of y sid /\
  (adjin_of y sid = [] -> rib_of y sid = [] -> rib_of y' sid = []) /\
  (forall j, sid <> j -> rib_of y' j = rib_of y j /\ adjin_of y' j = adjin_of y j).
Proof.
  intros c imp sid att y. unfold apply_reimport. destruct (att && c_v4 c); cbn [negb]; cbn zeta.
  - repeat split; try reflexivity.
    + intros Ha _. unfold rib_of, adjin_of in *. cbn. rewrite Ha. cbn. rewrite app_nil_r. apply rib_of_without_sess_self.
    + unfold rib_of. cbn. rewrite filter_app, (reimported_other imp _ sid j _ H), app_nil_r.
      apply rib_of_without_sess_other. exact H.
  - repeat split; try reflexivity. intros _ Hr. exact Hr.
Qed.

(* ---------------------------------------------------------------- well-formed action lists *)

(* Init only when detached, UPDATE processing only when attached *)
Fixpoint outs_ok (att : bool) (os : list out) : bool :=
  match os with
  | [] => true
  | Init :: r => negb att && outs_ok true r
  | Uninit :: r => outs_ok false r
  | ProcessedUpdate _ _ :: r => att && outs_ok att r
  | ProcessedPoison _ _ _ :: r => att && outs_ok att r
  | _ :: r => outs_ok att r
  end.

(* fix the attachment flag and the connection that the invariant dictates for the state at hand *)
Ltac prep_state att cn Hatt Hconn :=
  first
    [ (assert (att = true) by (destruct Hatt as [_ HH]; exact (HH eq_refl)))
    | (assert (att = false) by (destruct att; [destruct Hatt as [HH _]; specialize (HH eq_refl); discriminate | reflexivity])) ];
  subst att; clear Hatt;
  first [ (let b := fresh "b" in let Hb := fresh "Hb" in destruct (Hconn eq_refl) as [b Hb]; subst cn; clear Hconn)
        | (clear Hconn; destruct cn) ].

Lemma step_outs_ok : forall c s e, inv s -> outs_ok (s_att s) (snd (step c s e)) = true.
Proof.
  intros c [st att cn ng rt up im] e [Hatt Hconn]. cbn in Hatt, Hconn.
  destruct st; prep_state att cn Hatt Hconn.
  all: destruct e; rdx; repeat (break_match; rdx); try discriminate; try reflexivity.
  all: try (exfalso; eapply frame_of_no_panic; eassumption).
Qed.

(* ---------------------------------------------------------------- effect of a well-formed action list *)

Section Fold.
  Variables (c : cfg) (sid : N).

  Lemma apply_outs_sess : forall os att imp y, y_sess (apply_outs c sid att imp os y) = y_sess y.
  Proof.
    induction os as [|o os IH]; intros att imp y; cbn [apply_outs]; [reflexivity|].
    destruct o; try apply IH.
    - rewrite IH. reflexivity.
    - rewrite IH. unfold apply_uninit. destruct att; reflexivity.
    - rewrite IH. apply (apply_update_frame c imp sid ann wd y).
    - rewrite IH. apply (apply_poison_frame c imp sid rid by_asn v y).
    - rewrite IH. apply (apply_reimport_frame c p sid att y).
  Qed.

  (* other sessions' routes and Adj-RIB-Ins are untouched *)
  Lemma apply_outs_other : forall os att imp y j, sid <> j ->
    rib_of (apply_outs c sid att imp os y) j = rib_of y j /\
    adjin_of (apply_outs c sid att imp os y) j = adjin_of y j.
  Proof.
    induction os as [|o os IH]; intros att imp y j H; cbn [apply_outs]; [split; reflexivity|].
    assert (Hn : (sid =? j) = false) by (destruct (sid =? j) eqn:Q; [apply N.eqb_eq in Q; congruence | reflexivity]).
    destruct o; try (apply IH; exact H).
    - destruct (IH true imp (apply_init c sid y) j H) as [A B]. rewrite A, B. unfold rib_of, adjin_of. cbn.
      rewrite alist_get_set, Hn. split; reflexivity.
    - destruct (IH false imp (apply_uninit c sid att y) j H) as [A B]. rewrite A, B.
      unfold apply_uninit. destruct att; cbn [negb]; [|split; reflexivity].
      unfold rib_of, adjin_of. cbn. rewrite alist_get_set, Hn. split; [apply rib_of_without_sess_other; exact H | reflexivity].
    - destruct (IH att imp (apply_update c imp sid ann wd y) j H) as [A B]. rewrite A, B.
      apply (apply_update_frame c imp sid ann wd y). exact H.
    - destruct (IH att imp (apply_poison c imp sid rid by_asn v y) j H) as [A B]. rewrite A, B.
      apply (apply_poison_frame c imp sid rid by_asn v y). exact H.
    - destruct (IH att p (apply_reimport c p sid att y) j H) as [A B]. rewrite A, B.
      apply (apply_reimport_frame c p sid att y). exact H.
  Qed.

  (* the session's own contribution to RIB and Adj-RIB-In is empty whenever it ends detached *)
  Lemma apply_outs_self_empty : forall os att imp y,
    outs_ok att os = true ->
    (att = false -> rib_of y sid = [] /\ adjin_of y sid = []) ->
    att_after att os = false ->
    rib_of (apply_outs c sid att imp os y) sid = [] /\ adjin_of (apply_outs c sid att imp os y) sid = [].
  Proof.
    induction os as [|o os IH]; intros att imp y Hok HP Hend; cbn [apply_outs att_after outs_ok] in *.
    - apply HP. exact Hend.
    - destruct o; try (apply IH; assumption).
      + apply andb_prop in Hok. destruct Hok as [_ Hok]. apply IH; [exact Hok | discriminate | exact Hend].
      + apply IH; [exact Hok | | exact Hend]. intros _.
        unfold apply_uninit. destruct att; cbn [negb].
        * unfold rib_of, adjin_of. cbn. rewrite alist_get_set, N.eqb_refl.
          split; [apply rib_of_without_sess_self | reflexivity].
        * apply HP. reflexivity.
      + apply andb_prop in Hok. destruct Hok as [Ha Hok]. subst att.
        apply IH; [exact Hok | discriminate | exact Hend].
      + apply andb_prop in Hok. destruct Hok as [Ha Hok]. subst att.
        apply IH; [exact Hok | discriminate | exact Hend].
      + apply IH; [exact Hok | | exact Hend]. intro Hf. subst att.
        unfold apply_reimport. cbn. apply HP. reflexivity.
  Qed.

  (* without UPDATE processing an empty contribution stays empty (Init creates fresh Adj-RIBs) *)
  Lemma apply_outs_stays_empty : forall os att imp y,
    existsb is_update os = false ->
    rib_of y sid = [] /\ adjin_of y sid = [] ->
    rib_of (apply_outs c sid att imp os y) sid = [] /\ adjin_of (apply_outs c sid att imp os y) sid = [].
  Proof.
    induction os as [|o os IH]; intros att imp y Hno HP; cbn [apply_outs existsb] in *; [exact HP|].
    destruct o; cbn [is_update orb] in Hno; try (apply IH; assumption); try discriminate.
    - apply IH; [exact Hno|]. destruct HP as [P1 P2]. unfold rib_of, adjin_of in *. cbn.
      rewrite alist_get_set, N.eqb_refl. split; [exact P1 | reflexivity].
    - apply IH; [exact Hno|]. unfold apply_uninit. destruct att; cbn [negb]; [|exact HP].
      unfold rib_of, adjin_of. cbn. rewrite alist_get_set, N.eqb_refl.
      split; [apply rib_of_without_sess_self | reflexivity].
    - apply IH; [exact Hno|]. destruct HP as [P1 P2].
      destruct (apply_reimport_frame c p sid att y) as (_ & _ & _ & _ & _ & A & B & _).
      split; [apply B; assumption | rewrite A; exact P2].
  Qed.

  Definition g_asn (a : N) (b : bool) : N := if b && (c_las c =? a) then nfamN c else 0.
  Definition g_cid (a : N) (b : bool) : N := if b && (c_rr c && (cluster_of c =? a)) then nfamN c else 0.
  Definition g_cl4 (b : bool) : N := if b && c_v4 c then 1 else 0.
  Definition g_cl6 (b : bool) : N := if b && c_v6 c then 1 else 0.

  (* refcounts and client counts: whatever the other sessions hold (R) plus this session's share *)
  Lemma apply_outs_counts : forall os att imp y a Ra Rc R4 R6,
    outs_ok att os = true ->
    rc_count (y_asn y) a = Ra + g_asn a att ->
    rc_count (y_cid y) a = Rc + g_cid a att ->
    y_cl4 y = R4 + g_cl4 att ->
    y_cl6 y = R6 + g_cl6 att ->
    let y' := apply_outs c sid att imp os y in
    rc_count (y_asn y') a = Ra + g_asn a (att_after att os) /\
    rc_count (y_cid y') a = Rc + g_cid a (att_after att os) /\
    y_cl4 y' = R4 + g_cl4 (att_after att os) /\
    y_cl6 y' = R6 + g_cl6 (att_after att os).
  Proof.
    induction os as [|o os IH]; intros att imp y a Ra Rc R4 R6 Hok Ha Hc H4 H6;
      cbn [apply_outs att_after outs_ok] in *.
    - cbn zeta. repeat split; assumption.
    - destruct o; try (apply IH; assumption).
      + (* Init *)
        apply andb_prop in Hok. destruct Hok as [Hatt Hok]. destruct att; [discriminate|].
        apply IH; [exact Hok | | | |]; unfold apply_init; cbn [y_asn y_cid y_cl4 y_cl6].
        * rewrite rc_count_add_n, Ha. unfold g_asn, nfamN. cbn [andb]. destruct (c_las c =? a); lia.
        * unfold g_cid in *. cbn [andb] in *. destruct (c_rr c); cbn [andb].
          -- rewrite rc_count_add_n, Hc. unfold nfamN. destruct (cluster_of c =? a); lia.
          -- rewrite Hc. lia.
        * rewrite H4. unfold g_cl4. cbn [andb]. destruct (c_v4 c); lia.
        * rewrite H6. unfold g_cl6. cbn [andb]. destruct (c_v6 c); lia.
      + (* Uninit *)
        apply IH; [exact Hok | | | |]; unfold apply_uninit; destruct att; cbn [negb y_asn y_cid y_cl4 y_cl6];
          try assumption.
        * rewrite rc_count_remove_n, Ha. unfold g_asn, nfamN. cbn [andb]. destruct (c_las c =? a); lia.
        * unfold g_cid in *. cbn [andb] in *. destruct (c_rr c); cbn [andb] in *.
          -- rewrite rc_count_remove_n, Hc. unfold nfamN. destruct (cluster_of c =? a); lia.
          -- rewrite Hc. lia.
        * rewrite H4. unfold g_cl4. cbn [andb]. destruct (c_v4 c); lia.
        * rewrite H6. unfold g_cl6. cbn [andb]. destruct (c_v6 c); lia.
      + (* ProcessedUpdate *)
        apply andb_prop in Hok. destruct Hok as [_ Hok].
        destruct (apply_update_frame c imp sid ann wd y) as (_ & E1 & E2 & E3 & E4 & _).
        apply IH; [exact Hok | rewrite E1 | rewrite E2 | rewrite E3 | rewrite E4]; assumption.
      + (* ProcessedPoison *)
        apply andb_prop in Hok. destruct Hok as [_ Hok].
        destruct (apply_poison_frame c imp sid rid by_asn v y) as (_ & E1 & E2 & E3 & E4 & _).
        apply IH; [exact Hok | rewrite E1 | rewrite E2 | rewrite E3 | rewrite E4]; assumption.
      + (* ReplacedImport *)
        destruct (apply_reimport_frame c p sid att y) as (_ & E1 & E2 & E3 & E4 & _).
        apply IH; [exact Hok | rewrite E1 | rewrite E2 | rewrite E3 | rewrite E4]; assumption.
  Qed.
End Fold.

(* ---------------------------------------------------------------- the invariant of the speaker *)

Record sinv (y : sys) : Prop := {
  si_inv : forall i c s, nth_sess (y_sess y) i = Some (c, s) -> inv s;
  si_empty : forall i c s, nth_sess (y_sess y) i = Some (c, s) -> s_att s = false ->
             rib_of y (N.of_nat i) = [] /\ adjin_of y (N.of_nat i) = [];
  si_asn : forall a, rc_count (y_asn y) a = total (asn_c a) (y_sess y);
  si_cid : forall a, rc_count (y_cid y) a = total (cid_c a) (y_sess y);
  si_cl4 : y_cl4 y = total cl4_c (y_sess y);
  si_cl6 : y_cl6 y = total cl6_c (y_sess y)
}.

Lemma total_zero_init : forall f cs,
  (forall c, f c (init_sess c) = 0) -> total f (map (fun c => (c, init_sess c)) cs) = 0.
Proof. intros f cs H. induction cs as [|c r IH]; cbn; [reflexivity | rewrite H, IH; reflexivity]. Qed.

Lemma nth_sess_map_init : forall cs i c s,
  nth_sess (map (fun c0 => (c0, init_sess c0)) cs) i = Some (c, s) -> s = init_sess c.
Proof.
  induction cs as [|c0 r IH]; intros i c s H; [destruct i; discriminate|].
  destruct i; cbn in H; [inversion H; reflexivity | eapply IH; eassumption].
Qed.

Lemma sinv_init : forall cs, sinv (init_sys cs).
Proof.
  intro cs. constructor; unfold init_sys; cbn.
  - intros i c s H. rewrite (nth_sess_map_init _ _ _ _ H). apply inv_init.
  - intros. split; reflexivity.
  - intro a. symmetry. apply total_zero_init. intro c. unfold asn_c, init_sess. cbn. reflexivity.
  - intro a. symmetry. apply total_zero_init. intro c. unfold cid_c, init_sess. cbn. reflexivity.
  - symmetry. apply total_zero_init. intro c. reflexivity.
  - symmetry. apply total_zero_init. intro c. reflexivity.
Qed.

Lemma of_nat_neq : forall i j : nat, i <> j -> N.of_nat i <> N.of_nat j.
Proof. intros i j H E. apply H. apply Nnat.Nat2N.inj. exact E. Qed.

Lemma sys_step_sinv : forall y i e, sinv y -> sinv (fst (sys_step y i e)).
Proof.
  intros y i e Hy. unfold sys_step.
  destruct (nth_sess (y_sess y) i) as [[c s]|] eqn:Hn; [|exact Hy].
  pose proof (si_inv y Hy i c s Hn) as Hinv.
  pose proof (step_refines c s e Hinv) as [Hinv' Hsp].
  pose proof (step_outs_ok c s e Hinv) as Hok.
  destruct (step c s e) as [s' os] eqn:Hstep. cbn [fst snd] in *.
  pose proof (sp_att_by_actions _ _ _ Hsp) as Hatt'. cbn in Hatt'.
  set (sid := N.of_nat i) in *.
  set (y1 := apply_outs c sid (s_att s) (s_imp s) os y) in *.
  assert (Hsess1 : y_sess y1 = y_sess y) by apply apply_outs_sess.
  cbn [fst].
  constructor; cbn [y_sess y_rib y_adjin y_asn y_cid y_cl4 y_cl6]; rewrite ?Hsess1.
  - (* per-session invariants *)
    intros j c0 s0 H. destruct (Nat.eq_dec i j) as [E|E].
    + subst j. rewrite (nth_set_same _ _ _ _ _ Hn) in H. inversion H; subst. exact Hinv'.
    + rewrite (nth_set_other _ _ _ _ E) in H. eapply si_inv; eassumption.
  - (* detached sessions contribute nothing *)
    intros j c0 s0 H Hdet.
    change (rib_of y1 (N.of_nat j) = [] /\ adjin_of y1 (N.of_nat j) = []).
    destruct (Nat.eq_dec i j) as [E|E].
    + subst j. rewrite (nth_set_same _ _ _ _ _ Hn) in H. inversion H; subst c0 s0.
      apply apply_outs_self_empty; [exact Hok | | rewrite <- Hatt'; exact Hdet].
      intro Hd. eapply si_empty; eassumption.
    + rewrite (nth_set_other _ _ _ _ E) in H.
      destruct (apply_outs_other c sid os (s_att s) (s_imp s) y (N.of_nat j) (of_nat_neq _ _ E)) as [A B].
      fold y1 in A, B. rewrite A, B. eapply si_empty; eassumption.
  - intro a.
    rewrite (total_set (asn_c a) _ _ _ _ (c, s') Hn). cbn [fst snd].
    pose proof (total_split (asn_c a) _ _ _ _ Hn) as Hs.
    destruct (apply_outs_counts c sid os (s_att s) (s_imp s) y a (total_but (asn_c a) (y_sess y) i)
                (total_but (cid_c a) (y_sess y) i) (total_but cl4_c (y_sess y) i) (total_but cl6_c (y_sess y) i) Hok)
      as (A & _ & _ & _).
    + rewrite (si_asn y Hy a), Hs. reflexivity.
    + rewrite (si_cid y Hy a), (total_split (cid_c a) _ _ _ _ Hn). reflexivity.
    + rewrite (si_cl4 y Hy), (total_split cl4_c _ _ _ _ Hn). reflexivity.
    + rewrite (si_cl6 y Hy), (total_split cl6_c _ _ _ _ Hn). reflexivity.
    + fold y1 in A. rewrite A, <- Hatt'. reflexivity.
  - intro a.
    rewrite (total_set (cid_c a) _ _ _ _ (c, s') Hn). cbn [fst snd].
    destruct (apply_outs_counts c sid os (s_att s) (s_imp s) y a (total_but (asn_c a) (y_sess y) i)
                (total_but (cid_c a) (y_sess y) i) (total_but cl4_c (y_sess y) i) (total_but cl6_c (y_sess y) i) Hok)
      as (_ & A & _ & _).
    + rewrite (si_asn y Hy a), (total_split (asn_c a) _ _ _ _ Hn). reflexivity.
    + rewrite (si_cid y Hy a), (total_split (cid_c a) _ _ _ _ Hn). reflexivity.
    + rewrite (si_cl4 y Hy), (total_split cl4_c _ _ _ _ Hn). reflexivity.
    + rewrite (si_cl6 y Hy), (total_split cl6_c _ _ _ _ Hn). reflexivity.
    + fold y1 in A. rewrite A, <- Hatt'. reflexivity.
  - rewrite (total_set cl4_c _ _ _ _ (c, s') Hn). cbn [fst snd].
    destruct (apply_outs_counts c sid os (s_att s) (s_imp s) y 0 (total_but (asn_c 0) (y_sess y) i)
                (total_but (cid_c 0) (y_sess y) i) (total_but cl4_c (y_sess y) i) (total_but cl6_c (y_sess y) i) Hok)
      as (_ & _ & A & _).
    + rewrite (si_asn y Hy 0), (total_split (asn_c 0) _ _ _ _ Hn). reflexivity.
    + rewrite (si_cid y Hy 0), (total_split (cid_c 0) _ _ _ _ Hn). reflexivity.
    + rewrite (si_cl4 y Hy), (total_split cl4_c _ _ _ _ Hn). reflexivity.
    + rewrite (si_cl6 y Hy), (total_split cl6_c _ _ _ _ Hn). reflexivity.
    + fold y1 in A. rewrite A, <- Hatt'. reflexivity.
  - rewrite (total_set cl6_c _ _ _ _ (c, s') Hn). cbn [fst snd].
    destruct (apply_outs_counts c sid os (s_att s) (s_imp s) y 0 (total_but (asn_c 0) (y_sess y) i)
                (total_but (cid_c 0) (y_sess y) i) (total_but cl4_c (y_sess y) i) (total_but cl6_c (y_sess y) i) Hok)
      as (_ & _ & _ & A).
    + rewrite (si_asn y Hy 0), (total_split (asn_c 0) _ _ _ _ Hn). reflexivity.
    + rewrite (si_cid y Hy 0), (total_split (cid_c 0) _ _ _ _ Hn). reflexivity.
    + rewrite (si_cl4 y Hy), (total_split cl4_c _ _ _ _ Hn). reflexivity.
    + rewrite (si_cl6 y Hy), (total_split cl6_c _ _ _ _ Hn). reflexivity.
    + fold y1 in A. rewrite A, <- Hatt'. reflexivity.
Qed.

Lemma sys_run_sinv : forall es y, sinv y -> sinv (sys_run y es).
Proof.
  induction es as [|[i e] r IH]; intros y Hy; cbn [sys_run]; [exact Hy|].
  apply IH. apply sys_step_sinv. exact Hy.
Qed.

Definition reach (cs : list cfg) (es : list (nat * ev)) : sys := sys_run (init_sys cs) es.

Lemma reach_sinv : forall cs es, sinv (reach cs es).
Proof. intros. apply sys_run_sinv. apply sinv_init. Qed.

(* ---------------------------------------------------------------- C07 *)

(* After ANY history: a session that is not Established has nothing in the Loc-RIB and an empty Adj-RIB-In. *)
Theorem withdraws_everything : forall cs es i c s,
  nth_sess (y_sess (reach cs es)) i = Some (c, s) ->
  s_st s <> Established ->
  s_att s = false /\ rib_of (reach cs es) (N.of_nat i) = [] /\ adjin_of (reach cs es) (N.of_nat i) = [].
Proof.
  intros cs es i c s Hn Hst. pose proof (reach_sinv cs es) as Hy.
  destruct (si_inv _ Hy i c s Hn) as [Hatt _].
  assert (Hd : s_att s = false) by (destruct (s_att s); [exfalso; apply Hst; apply Hatt; reflexivity | reflexivity]).
  split; [exact Hd|]. eapply si_empty; eassumption.
Qed.

(* ... and the loop-detection refcounts and the Adj-RIB-Out registrations are exactly those of the
   sessions that are attached (= Established): nothing of a session that left remains, nothing is
   released twice. *)
Theorem refcounts_exact : forall cs es,
  let y := reach cs es in
  (forall a, rc_count (y_asn y) a = total (asn_c a) (y_sess y)) /\
  (forall a, rc_count (y_cid y) a = total (cid_c a) (y_sess y)) /\
  y_cl4 y = total cl4_c (y_sess y) /\ y_cl6 y = total cl6_c (y_sess y).
Proof. intros cs es. pose proof (reach_sinv cs es) as Hy. cbn zeta. repeat split; apply Hy. Qed.

Lemma att_after_uninit : forall os, att_after true os = false -> In Uninit os.
Proof.
  assert (G : forall os b, att_after b os = false -> b = true -> In Uninit os).
  { induction os as [|o os IH]; intros b H Hb; cbn in *; [congruence|].
    destruct o; try (right; eapply IH; eassumption).
    - (* Init *) right. eapply IH; [exact H | reflexivity].
    - left. reflexivity. }
  intros os H. eapply G; [exact H | reflexivity].
Qed.

(* Every exit from Established, whatever the event, goes through uninit and closes the connection. *)
Theorem every_exit_uninits : forall cs es i c s e,
  nth_sess (y_sess (reach cs es)) i = Some (c, s) ->
  s_st s = Established ->
  s_st (fst (step c s e)) <> Established ->
  In Uninit (snd (step c s e)) /\ s_att (fst (step c s e)) = false.
Proof.
  intros cs es i c s e Hn Hst Hleft. pose proof (reach_sinv cs es) as Hy.
  pose proof (si_inv _ Hy i c s Hn) as Hinv.
  destruct (step_refines c s e Hinv) as [[Hatt' _] Hsp].
  assert (Hd : s_att (fst (step c s e)) = false).
  { destruct (s_att (fst (step c s e))); [exfalso; apply Hleft; apply Hatt'; reflexivity | reflexivity]. }
  split; [|exact Hd].
  pose proof (sp_att_by_actions _ _ _ Hsp) as Ha. cbn in Ha.
  destruct Hinv as [Hatt _]. rewrite (proj2 Hatt Hst) in Ha. rewrite Hd in Ha.
  apply att_after_uninit. symmetry. exact Ha.
Qed.

(* Init is only ever emitted for a session that was detached, in a step that processes no UPDATE *)
Lemma step_init_fresh : forall c s e, inv s ->
  In Init (snd (step c s e)) -> s_att s = false /\ existsb is_update (snd (step c s e)) = false.
Proof.
  intros c [st att cn ng rt up im] e [Hatt Hconn]. cbn in Hatt, Hconn.
  destruct st; prep_state att cn Hatt Hconn.
  all: destruct e; rdx; repeat (break_match; rdx); try discriminate.
  all: try (exfalso; eapply frame_of_no_panic; eassumption).
  all: cbn; intro HI; repeat (destruct HI as [HI|HI]; try discriminate); try contradiction; split; reflexivity.
Qed.

(* A (re-)establishment starts from empty Adj-RIBs: right after the step that attaches session i its
   Adj-RIB-In is empty and the Loc-RIB holds nothing of it. *)
Theorem reestablish_starts_empty : forall cs es i e,
  let y := reach cs es in
  In Init (snd (sys_step y i e)) ->
  rib_of (fst (sys_step y i e)) (N.of_nat i) = [] /\ adjin_of (fst (sys_step y i e)) (N.of_nat i) = [].
Proof.
  intros cs es i e y. pose proof (reach_sinv cs es) as Hy. fold y in Hy.
  unfold sys_step. destruct (nth_sess (y_sess y) i) as [[c s]|] eqn:Hn; [|intros []].
  pose proof (si_inv y Hy i c s Hn) as Hinv.
  pose proof (step_init_fresh c s e Hinv) as Hfresh.
  destruct (step c s e) as [s' os] eqn:Hstep. cbn [fst snd] in *. intro HInit.
  destruct (Hfresh HInit) as [Hdet Hnoupd].
  unfold rib_of, adjin_of. cbn [y_rib y_adjin].
  change (rib_of (apply_outs c (N.of_nat i) (s_att s) (s_imp s) os y) (N.of_nat i) = [] /\
          adjin_of (apply_outs c (N.of_nat i) (s_att s) (s_imp s) os y) (N.of_nat i) = []).
  apply apply_outs_stays_empty; [exact Hnoupd|].
  eapply si_empty; eassumption.
Qed.

(* Loop detection stays armed for every session that is Established, whatever the other sessions did:
   its local AS - and its cluster id if it is a route reflector client - is contributing. Together with
   [apply_poison] (a path carrying a contributing ASN / cluster id is hidden) this is "a flap of one
   session withdraws exactly its own contribution, nothing else's". *)
Lemma nfamN_pos : forall c, c_v4 c || c_v6 c = true -> 0 < nfamN c.
Proof. intros c H. unfold nfamN, nfam. destruct (c_v4 c), (c_v6 c); cbn in *; try discriminate; lia. Qed.

Theorem loop_detection_intact : forall cs es i c s,
  nth_sess (y_sess (reach cs es)) i = Some (c, s) ->
  s_st s = Established -> c_v4 c || c_v6 c = true ->
  0 < rc_count (y_asn (reach cs es)) (c_las c) /\
  (c_rr c = true -> 0 < rc_count (y_cid (reach cs es)) (cluster_of c)).
Proof.
  intros cs es i c s Hn Hst Hf. pose proof (reach_sinv cs es) as Hy.
  destruct (si_inv _ Hy i c s Hn) as [Hatt _]. pose proof (proj2 Hatt Hst) as Ha.
  pose proof (nfamN_pos c Hf) as Hp. split.
  - rewrite (si_asn _ Hy), (total_split _ _ _ _ _ Hn). unfold asn_c. rewrite Ha, N.eqb_refl. cbn [andb]. lia.
  - intro Hr. rewrite (si_cid _ Hy), (total_split _ _ _ _ _ Hn). unfold cid_c. rewrite Ha, Hr, N.eqb_refl. cbn [andb]. lia.
Qed.

(* Replacing the import policy of an attached session re-derives what the Loc-RIB holds of it from its
   Adj-RIB-In: whatever the policy was when the session came up (reject-all included), the eligible
   paths learned so far are in the Loc-RIB as the new policy presents them. *)
Lemma reimported_self : forall (imp : import_policy) h sid l,
  filter (fun x : rib_entry => match x with (s0, _, _) => s0 =? sid end)
    (flat_map (fun rid => if is_hidden h sid rid then [] else imported imp sid rid) l) =
  flat_map (fun rid => if is_hidden h sid rid then [] else imported imp sid rid) l.
Proof.
  intros imp h sid l. induction l as [|r l IH]; cbn [flat_map]; [reflexivity|].
  rewrite filter_app, IH. destruct (is_hidden h sid r); [reflexivity|].
  unfold imported. destruct imp; cbn; rewrite ?N.eqb_refl; reflexivity.
Qed.

Theorem replacement_reattaches : forall y i c s p,
  nth_sess (y_sess y) i = Some (c, s) -> s_st s <> Ceased -> s_att s = true -> c_v4 c = true ->
  rib_of (fst (sys_step y i (EReplaceImport p))) (N.of_nat i) =
  flat_map (fun rid => if is_hidden (y_hidden y) (N.of_nat i) rid then [] else imported p (N.of_nat i) rid)
           (adjin_of y (N.of_nat i)).
Proof.
  intros y i c s p Hn Hc Ha H4. unfold sys_step. rewrite Hn.
  unfold step. destruct (s_st s) eqn:E; try (exfalso; apply Hc; reflexivity);
    cbn [fst snd apply_outs]; unfold apply_reimport; rewrite Ha, H4; cbn [andb negb];
    unfold rib_of, adjin_of; cbn [y_rib]; rewrite filter_app, rib_of_without_sess_self, reimported_self; reflexivity.
Qed.
