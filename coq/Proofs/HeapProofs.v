(* C13: no export-side operation of the Adj-RIB-Out writes to an object that existed before it started. *)
From Coq Require Import List NArith Bool Lia.
Import ListNotations.
From BioVerif Require Import Model.PathIDs Model.AdjRIBOut Model.Heap.
Local Open Scope N_scope.

(* ids are handed out in increasing order: everything stored lives below nxt *)
Definition wfh (h : heap) : Prop :=
  (forall o ob, obj_get o (objs h) = Some ob -> o < nxt h /\ forall k, o_blk ob = Some k -> k < nxt h) /\
  (forall k a, blk_get k (blks h) = Some a -> k < nxt h) /\
  (forall a k, cache_get a (cache h) = Some k -> k < nxt h).

(* whatever existed in h0 - path objects and blocks - is the same in h *)
Definition keeps (h0 h : heap) : Prop :=
  nxt h0 <= nxt h /\
  (forall o, o < nxt h0 -> obj_get o (objs h) = obj_get o (objs h0)) /\
  (forall k, k < nxt h0 -> blk_get k (blks h) = blk_get k (blks h0)).

(* object o, and the block it points to, were made after h0 *)
Definition own (h0 h : heap) (o : N) : Prop :=
  nxt h0 <= o /\ forall ob k, obj_get o (objs h) = Some ob -> o_blk ob = Some k -> nxt h0 <= k.

Lemma keeps_refl : forall h, keeps h h.
Proof. intros h. split; [lia|]. split; auto. Qed.

Lemma keeps_trans : forall h0 h1 h2, keeps h0 h1 -> keeps h1 h2 -> keeps h0 h2.
Proof.
  intros h0 h1 h2 [A [B C]] [A' [B' C']]. split; [lia|]. split.
  - intros o Ho. rewrite B' by lia. now apply B.
  - intros k Hk. rewrite C' by lia. now apply C.
Qed.

Lemma wf_empty : wfh heap_empty.
Proof. split; [|split]; cbn; intros; discriminate. Qed.

Lemma obj_get_cons : forall o o' v l, obj_get o ((o', v) :: l) = if N.eqb o' o then Some v else obj_get o l.
Proof. reflexivity. Qed.
Lemma blk_get_cons : forall o o' v l, blk_get o ((o', v) :: l) = if N.eqb o' o then Some v else blk_get o l.
Proof. reflexivity. Qed.

(* ---------------------------------------------------------------- the four primitives *)

Lemma alloc_copy_ok : forall h o h' o',
  wfh h -> alloc_copy h o = (h', o') -> wfh h' /\ keeps h h' /\ own h h' o'.
Proof.
  intros h o h' o' [W1 [W2 W3]] H. unfold alloc_copy in H.
  destruct (obj_get o (objs h)) as [ob|] eqn:G.
  2:{ inversion H; subst. split; [split; [|split]; assumption|]. split; [apply keeps_refl|].
      split; [lia|]. intros ob k Gk. apply W1 in Gk. lia. }
  destruct (o_blk ob) as [k|] eqn:B.
  - destruct (blk_get k (blks h)) as [a|] eqn:GB.
    2:{ inversion H; subst. split; [split; [|split]; assumption|]. split; [apply keeps_refl|].
        split; [lia|]. intros ob' k' Gk. apply W1 in Gk. lia. }
    inversion H; subst h' o'. clear H. split; [|split].
    + split; [|split]; cbn [objs blks cache nxt].
      * intros o2 ob2. rewrite obj_get_cons. destruct (N.eqb (nxt h) o2) eqn:E.
        -- apply N.eqb_eq in E. subst o2. intros X; inversion X; subst ob2. cbn [o_blk].
           split; [lia|]. intros k2 Y; inversion Y; lia.
        -- intros X. destruct (W1 _ _ X) as [A1 A2]. split; [lia|]. intros k2 Y. specialize (A2 _ Y). lia.
      * intros k2 a2. rewrite blk_get_cons. destruct (N.eqb (nxt h + 1) k2) eqn:E.
        -- apply N.eqb_eq in E. intros _. lia.
        -- intros X. apply W2 in X. lia.
      * intros a2 k2 X. apply W3 in X. lia.
    + split; cbn [objs blks nxt]; [lia|]. split.
      * intros o2 Ho. rewrite obj_get_cons. destruct (N.eqb (nxt h) o2) eqn:E; [apply N.eqb_eq in E; lia|reflexivity].
      * intros k2 Hk. rewrite blk_get_cons. destruct (N.eqb (nxt h + 1) k2) eqn:E; [apply N.eqb_eq in E; lia|reflexivity].
    + split; [lia|]. cbn [objs]. intros ob2 k2. rewrite obj_get_cons, N.eqb_refl.
      intros X Y. inversion X; subst ob2. cbn [o_blk] in Y. inversion Y. lia.
  - inversion H; subst h' o'. clear H. split; [|split].
    + split; [|split]; cbn [objs blks cache nxt].
      * intros o2 ob2. rewrite obj_get_cons. destruct (N.eqb (nxt h) o2) eqn:E.
        -- apply N.eqb_eq in E. subst o2. intros X; inversion X; subst ob2.
           split; [lia|]. intros k2 Y. congruence.
        -- intros X. destruct (W1 _ _ X) as [A1 A2]. split; [lia|]. intros k2 Y. specialize (A2 _ Y). lia.
      * intros k2 a2 X. apply W2 in X. lia.
      * intros a2 k2 X. apply W3 in X. lia.
    + split; cbn [objs blks nxt]; [lia|]. split; [|auto].
      intros o2 Ho. rewrite obj_get_cons. destruct (N.eqb (nxt h) o2) eqn:E; [apply N.eqb_eq in E; lia|reflexivity].
    + split; [lia|]. cbn [objs]. intros ob2 k2. rewrite obj_get_cons, N.eqb_refl.
      intros X Y. inversion X; subst ob2. congruence.
Qed.

Lemma write_full_ok : forall h0 h o v,
  wfh h -> keeps h0 h -> own h0 h o ->
  wfh (write_full h o v) /\ keeps h0 (write_full h o v) /\
  (forall o2, own h0 h o2 -> own h0 (write_full h o v) o2).
Proof.
  intros h0 h o v [W1 [W2 W3]] [K1 [K2 K3]] [O1 O2]. unfold write_full.
  destruct (obj_get o (objs h)) as [ob|] eqn:G.
  2:{ split; [split; [|split]; assumption|]. split; [split; [|split]; assumption|]. auto. }
  destruct (W1 _ _ G) as [Lo Lb].
  destruct v as [sn|r b].
  - (* the object becomes a static path again: not used, harmless *)
    split; [|split].
    + split; [|split]; cbn [objs blks cache nxt]; try assumption.
      intros o2 ob2. rewrite obj_get_cons. destruct (N.eqb o o2) eqn:E; [|apply W1].
      apply N.eqb_eq in E. subst o2. intros X; inversion X; subst ob2. cbn [o_blk]. auto.
    + split; cbn [objs blks nxt]; [assumption|]. split; [|assumption].
      intros o2 Ho. rewrite obj_get_cons. destruct (N.eqb o o2) eqn:E; [apply N.eqb_eq in E; lia|now apply K2].
    + intros o2 [P1 P2]. split; [assumption|]. cbn [objs]. intros ob2 k2. rewrite obj_get_cons.
      destruct (N.eqb o o2) eqn:E; [|apply P2].
      apply N.eqb_eq in E. subst o2. intros X Y. inversion X; subst ob2. cbn [o_blk] in Y. eapply (O2 ob); [reflexivity|eassumption].
  - destruct (o_blk ob) as [k|] eqn:B.
    + assert (Hk : nxt h0 <= k) by (eapply (O2 ob); [reflexivity|eassumption]).
      split; [|split].
      * split; [|split]; cbn [objs blks cache nxt]; try assumption.
        -- intros o2 ob2. rewrite obj_get_cons. destruct (N.eqb o o2) eqn:E; [|apply W1].
           apply N.eqb_eq in E. subst o2. intros X; inversion X; subst ob2. cbn [o_blk].
           split; [assumption|]. intros k2 Y; inversion Y; subst. now apply Lb.
        -- intros k2 a2. rewrite blk_get_cons. destruct (N.eqb k k2) eqn:E; [|apply W2].
           apply N.eqb_eq in E. subst k2. intros _. now apply Lb.
      * split; cbn [objs blks nxt]; [assumption|]. split.
        -- intros o2 Ho. rewrite obj_get_cons. destruct (N.eqb o o2) eqn:E; [apply N.eqb_eq in E; lia|now apply K2].
        -- intros k2 Hk2. rewrite blk_get_cons. destruct (N.eqb k k2) eqn:E; [apply N.eqb_eq in E; lia|now apply K3].
      * intros o2 [P1 P2]. split; [assumption|]. cbn [objs]. intros ob2 k2. rewrite obj_get_cons.
        destruct (N.eqb o o2) eqn:E; [|apply P2].
        apply N.eqb_eq in E. subst o2. intros X Y. inversion X; subst ob2. cbn [o_blk] in Y. inversion Y; subst. exact Hk.
    + split; [|split].
      * split; [|split]; cbn [objs blks cache nxt].
        -- intros o2 ob2. rewrite obj_get_cons. destruct (N.eqb o o2) eqn:E.
           ++ apply N.eqb_eq in E. subst o2. intros X; inversion X; subst ob2. cbn [o_blk].
              split; [lia|]. intros k2 Y; inversion Y; lia.
           ++ intros X. destruct (W1 _ _ X) as [A1 A2]. split; [lia|]. intros k2 Y. specialize (A2 _ Y). lia.
        -- intros k2 a2. rewrite blk_get_cons. destruct (N.eqb (nxt h) k2) eqn:E.
           ++ apply N.eqb_eq in E. intros _. lia.
           ++ intros X. apply W2 in X. lia.
        -- intros a2 k2 X. apply W3 in X. lia.
      * split; cbn [objs blks nxt]; [lia|]. split.
        -- intros o2 Ho. rewrite obj_get_cons. destruct (N.eqb o o2) eqn:E; [apply N.eqb_eq in E; lia|now apply K2].
        -- intros k2 Hk2. rewrite blk_get_cons. destruct (N.eqb (nxt h) k2) eqn:E; [apply N.eqb_eq in E; lia|now apply K3].
      * intros o2 [P1 P2]. split; [assumption|]. cbn [objs]. intros ob2 k2. rewrite obj_get_cons.
        destruct (N.eqb o o2) eqn:E; [|apply P2].
        apply N.eqb_eq in E. subst o2. intros X Y. inversion X; subst ob2. cbn [o_blk] in Y. inversion Y; subst. lia.
Qed.

Lemma write_obj_ok : forall h0 h o v,
  wfh h -> keeps h0 h -> nxt h0 <= o -> wfh (write_obj h o v) /\ keeps h0 (write_obj h o v).
Proof.
  intros h0 h o v [W1 [W2 W3]] [K1 [K2 K3]] Ho. unfold write_obj.
  destruct (obj_get o (objs h)) as [ob|] eqn:G.
  2:{ split; [split; [|split]; assumption|split; [|split]; assumption]. }
  split.
  - split; [|split]; cbn [objs blks cache nxt]; try assumption.
    intros o2 ob2. rewrite obj_get_cons. destruct (N.eqb o o2) eqn:E; [|apply W1].
    apply N.eqb_eq in E. subst o2. intros X; inversion X; subst ob2. cbn [o_blk]. apply (W1 _ _ G).
  - split; cbn [objs blks nxt]; [assumption|]. split; [|assumption].
    intros o2 Ho2. rewrite obj_get_cons. destruct (N.eqb o o2) eqn:E; [apply N.eqb_eq in E; lia|now apply K2].
Qed.

Lemma dedup_ok : forall h0 h o,
  wfh h -> keeps h0 h -> nxt h0 <= o -> wfh (dedup h o) /\ keeps h0 (dedup h o).
Proof.
  intros h0 h o [W1 [W2 W3]] [K1 [K2 K3]] Ho. unfold dedup.
  destruct (obj_get o (objs h)) as [ob|] eqn:G; [|split; [split; [|split]; assumption|split; [|split]; assumption]].
  destruct (o_blk ob) as [k|] eqn:B; [|split; [split; [|split]; assumption|split; [|split]; assumption]].
  destruct (blk_get k (blks h)) as [a|] eqn:GB; [|split; [split; [|split]; assumption|split; [|split]; assumption]].
  destruct (cache_get a (cache h)) as [k'|] eqn:C.
  - split.
    + split; [|split]; cbn [objs blks cache nxt]; try assumption.
      intros o2 ob2. rewrite obj_get_cons. destruct (N.eqb o o2) eqn:E; [|apply W1].
      apply N.eqb_eq in E. subst o2. intros X; inversion X; subst ob2. cbn [o_blk].
      split; [exact (proj1 (W1 _ _ G))|]. intros k2 Y; inversion Y; subst. eapply W3; eassumption.
    + split; cbn [objs blks nxt]; [assumption|]. split; [|assumption].
      intros o2 Ho2. rewrite obj_get_cons. destruct (N.eqb o o2) eqn:E; [apply N.eqb_eq in E; lia|now apply K2].
  - split.
    + split; [|split]; cbn [objs blks cache nxt]; try assumption.
      intros a2 k2. cbn [cache_get]. destruct (ablock_eq_dec a a2); [|apply W3].
      intros X; inversion X; subst. eapply W2; eassumption.
    + split; [|split]; assumption.
Qed.

(* ---------------------------------------------------------------- the operations *)

Section Ops.
  Variable P : Type.
  Variable apply : P -> N -> path -> option path.
  Variable s : sess.

  Notation st := (heap * haro P)%type.

  (* an operation is safe if, from a well-formed store, it leads to a well-formed store in which
     everything that existed before is untouched *)
  Definition safe (g : st -> st) : Prop :=
    forall x, wfh (fst x) -> wfh (fst (g x)) /\ keeps (fst x) (fst (g x)).

  Lemma safe_fold : forall (A : Type) (g : st -> A -> st) (l : list A),
    (forall a, safe (fun x => g x a)) -> safe (fun x => fold_left g l x).
  Proof.
    intros A g l Hg. induction l as [|a l IH]; intros x W; cbn [fold_left].
    - split; [assumption|apply keeps_refl].
    - destruct (Hg a x W) as [W1 K1]. destruct (IH (g x a) W1) as [W2 K2].
      split; [assumption|eapply keeps_trans; eassumption].
  Qed.

  Lemma hadd_inner_ok : forall h0 x pfx o q,
    wfh (fst x) -> keeps h0 (fst x) -> nxt h0 <= o ->
    wfh (fst (hadd_inner P s x pfx o q)) /\ keeps h0 (fst (hadd_inner P s x pfx o q)).
  Proof.
    intros h0 [h t] pfx o q W K Ho. cbn [fst] in *. unfold hadd_inner.
    destruct (s_addpath s); [|cbn [fst]; auto].
    destruct (path_hkey q) as [kq|]; [|cbn [fst]; auto].
    destruct (pid_add hkey hkey_eq_dec kq (t_pm t)) as [m [i| |]]; cbn [fst]; auto.
    now apply write_obj_ok.
  Qed.

  Lemma hremove_exported_heap : forall x pfx q, fst (hremove_exported P s x pfx q) = fst x.
  Proof.
    intros [h t] pfx q. unfold hremove_exported. cbn [fst].
    destruct (entries pfx (t_tbl t)); [reflexivity|].
    destruct (s_addpath s); [|reflexivity].
    destruct (find_by h _ _) as [sp|]; [|reflexivity].
    destruct (path_hkey sp) as [kq|]; [|reflexivity].
    destruct (pid_release hkey hkey_eq_dec kq (t_pm t)) as [m [i|]]; reflexivity.
  Qed.

  Lemma hremove_safe : forall pfx arg, safe (fun x => hremove P apply s x pfx arg).
  Proof.
    intros pfx arg [h t] W. cbn [fst] in W. unfold hremove.
    destruct (read h arg) as [v|]; [|cbn [fst]; split; [assumption|apply keeps_refl]].
    destruct (should_propagate s v); [|cbn [fst]; split; [assumption|apply keeps_refl]].
    destruct (alloc_copy h arg) as [h1 o1] eqn:AC.
    destruct (alloc_copy_ok _ _ _ _ W AC) as [W1 [K1 O1]].
    destruct (apply (t_cur t) pfx v) as [q|]; [|cbn [fst]; auto].
    rewrite hremove_exported_heap. cbn [fst].
    destruct (write_full_ok h h1 o1 q W1 K1 O1) as [W2 [K2 _]]. auto.
  Qed.

  Lemma hwipe_safe : forall pfx, safe (fun x => hwipe P apply s x pfx).
  Proof.
    intros pfx x W. unfold hwipe.
    exact (safe_fold N (fun acc o => hremove P apply s acc pfx o) _ (fun a => hremove_safe pfx a) x W).
  Qed.

  (* the common start: afterwards o1 and its block are new *)
  Lemma hprepare_ok : forall h arg h2 o1 rb,
    wfh h -> hprepare s h arg = (h2, o1, rb) -> wfh h2 /\ keeps h h2 /\ own h h2 o1.
  Proof.
    intros h arg h2 o1 rb W H. unfold hprepare in H.
    destruct (alloc_copy h arg) as [h1 oc] eqn:AC.
    destruct (alloc_copy_ok _ _ _ _ W AC) as [W1 [K1 O1]].
    destruct (read h1 oc) as [v1|].
    - destruct (redistribute s v1) as [r b]. inversion H; subst h2 o1 rb.
      destruct (write_full_ok h h1 oc (PBgp r b) W1 K1 O1) as [W2 [K2 O2]]. auto.
    - inversion H; subst. auto.
  Qed.

  Lemma hadd_safe : forall pfx arg, safe (fun x => hadd P apply s x pfx arg).
  Proof.
    intros pfx arg [h t] W. cbn [fst] in W. unfold hadd.
    destruct (hprepare s h arg) as [[h2 o1] rb] eqn:HP.
    destruct (hprepare_ok _ _ _ _ _ W HP) as [W2 [K2 O2]].
    destruct rb as [[r b]|]; [|cbn [fst]; auto].
    destruct (should_propagate s (PBgp r b)).
    - destruct (rewrite s r b) as [b'|]; [|cbn [fst]; auto].
      destruct (write_full_ok h h2 o1 (PBgp r b') W2 K2 O2) as [W3 [K3 O3]].
      destruct (alloc_copy (write_full h2 o1 (PBgp r b')) o1) as [h4 o2] eqn:AC.
      destruct (alloc_copy_ok _ _ _ _ W3 AC) as [W4 [K4 O4]].
      assert (K04 : keeps h h4) by (eapply keeps_trans; eassumption).
      assert (O04 : own h h4 o2).
      { destruct O4 as [A B]. destruct K3 as [N3 _]. split; [lia|]. intros ob k X Y. specialize (B ob k X Y). lia. }
      destruct (apply (t_cur t) pfx (PBgp r b')) as [q|]; [|cbn [fst]; auto].
      destruct (write_full_ok h h4 o2 q W4 K04 O04) as [W5 [K5 _]].
      destruct (dedup_ok h (write_full h4 o2 q) o2 W5 K5 (proj1 O04)) as [W6 K6].
      apply hadd_inner_ok; [assumption|assumption|exact (proj1 O04)].
    - destruct (s_addpath s); [|cbn [fst]; auto].
      destruct (hwipe_safe pfx (h2, t) W2) as [W3 K3]. split; [assumption|].
      eapply keeps_trans; eassumption.
  Qed.

  Lemma hrefresh_one_safe : forall nw pfx arg, safe (fun x => hrefresh_one P apply s nw pfx x arg).
  Proof.
    intros nw pfx arg [h t] W. cbn [fst] in W. unfold hrefresh_one.
    destruct (hprepare s h arg) as [[h2 o1] rb] eqn:HP.
    destruct (hprepare_ok _ _ _ _ _ W HP) as [W2 [K2 O2]].
    destruct rb as [[r b]|]; [|cbn [fst]; auto].
    destruct (should_propagate s (PBgp r b)); [|cbn [fst]; auto].
    destruct (rewrite s r b) as [b'|]; [|cbn [fst]; auto].
    destruct (write_full_ok h h2 o1 (PBgp r b') W2 K2 O2) as [W3 [K3 O3]].
    destruct (alloc_copy (write_full h2 o1 (PBgp r b')) o1) as [h4 oc] eqn:AC.
    destruct (alloc_copy_ok _ _ _ _ W3 AC) as [W4 [K4 O4]].
    assert (K04 : keeps h h4) by (eapply keeps_trans; eassumption).
    assert (O04 : own h h4 oc).
    { destruct O4 as [A B]. destruct K3 as [N3 _]. split; [lia|]. intros ob k X Y. specialize (B ob k X Y). lia. }
    destruct (alloc_copy h4 o1) as [h5 on] eqn:AC2.
    destruct (alloc_copy_ok _ _ _ _ W4 AC2) as [W5 [K5 O5]].
    assert (K05 : keeps h h5) by (eapply keeps_trans; eassumption).
    assert (O05n : own h h5 on).
    { destruct O5 as [A B]. destruct K04 as [N4 _]. split; [lia|]. intros ob k X Y. specialize (B ob k X Y). lia. }
    assert (O05c : own h h5 oc).
    { destruct O04 as [A B]. split; [assumption|]. intros ob k X Y.
      destruct K5 as [_ [KO _]].
      destruct (N.lt_ge_cases oc (nxt h4)) as [L|L].
      - rewrite KO in X by assumption. eapply B; eassumption.
      - (* nothing lives at or above nxt h4 in h4; in h5 only the new copy does, whose block is new too *)
        destruct O5 as [A5 B5]. destruct (N.eq_dec oc on) as [->|NE]; [specialize (B5 ob k X Y); destruct K04; lia|].
        exfalso. clear - AC2 X L NE W4.
        unfold alloc_copy in AC2. destruct W4 as [W41 _].
        destruct (obj_get o1 (objs h4)) as [ob1|]; [|inversion AC2; subst; apply W41 in X; lia].
        destruct (o_blk ob1) as [k1|].
        + destruct (blk_get k1 (blks h4)); inversion AC2; subst; cbn [objs] in X.
          * rewrite obj_get_cons in X. destruct (N.eqb (nxt h4) oc) eqn:E; [apply N.eqb_eq in E; congruence|].
            apply W41 in X. lia.
          * apply W41 in X. lia.
        + inversion AC2; subst; cbn [objs] in X. rewrite obj_get_cons in X.
          destruct (N.eqb (nxt h4) oc) eqn:E; [apply N.eqb_eq in E; congruence|]. apply W41 in X. lia. }
    destruct (apply (t_cur t) pfx (PBgp r b')) as [c|]; destruct (apply nw pfx (PBgp r b')) as [n|].
    - destruct (write_full_ok h h5 oc c W5 K05 O05c) as [W6 [K6 O6]].
      destruct (write_full_ok h (write_full h5 oc c) on n W6 K6 (O6 on O05n)) as [W7 [K7 _]].
      destruct (path_compare c n); [cbn [fst]; auto|].
      apply hadd_inner_ok; rewrite ?hremove_exported_heap; cbn [fst]; [assumption|assumption|exact (proj1 O05n)].
    - rewrite hremove_exported_heap. cbn [fst].
      destruct (write_full_ok h h5 oc c W5 K05 O05c) as [W6 [K6 _]]. auto.
    - destruct (write_full_ok h h5 on n W5 K05 O05n) as [W6 [K6 _]].
      apply hadd_inner_ok; cbn [fst]; [assumption|assumption|exact (proj1 O05n)].
    - cbn [fst]. auto.
  Qed.

  Lemma hreplace_safe : forall nw view, safe (fun x => hreplace P apply s x nw view).
  Proof.
    intros nw view x W. unfold hreplace. cbn [fst].
    apply (safe_fold _ (fun acc r => fold_left (hrefresh_one P apply s nw (fst r)) (snd r) acc) view); [|assumption].
    intros r. apply (safe_fold _ (hrefresh_one P apply s nw (fst r)) (snd r)).
    intros arg. apply hrefresh_one_safe.
  Qed.

  Theorem hstep_safe : forall o, safe (fun x => hstep P apply s x o).
  Proof.
    intros [pfx arg|pfx arg|nw view|pfx arg|pfx arg|]; cbn [hstep].
    - apply hadd_safe.
    - apply hremove_safe.
    - apply hreplace_safe.
    - intros x W. split; [assumption|apply keeps_refl].
    - intros x W. split; [assumption|apply keeps_refl].
    - intros x W. split; [assumption|apply keeps_refl].
  Qed.
End Ops.

(* ---------------------------------------------------------------- what this means for stored routes *)

(* the value of a path object that existed before is the same afterwards *)
Lemma keeps_read : forall h0 h o, wfh h0 -> keeps h0 h -> o < nxt h0 -> read h o = read h0 o.
Proof.
  intros h0 h o [W1 _] [_ [K2 K3]] Ho. unfold read. rewrite K2 by assumption.
  destruct (obj_get o (objs h0)) as [ob|] eqn:G; [|reflexivity].
  destruct (o_val ob) as [sn|r b]; [reflexivity|].
  destruct (o_blk ob) as [k|] eqn:B; [|reflexivity].
  rewrite K3; [reflexivity|]. destruct (W1 _ _ G) as [_ L]. now apply L.
Qed.

(* the environment adding a path object keeps the store well-formed *)
Lemma hnew_ok : forall h v sh h' o, wfh h -> hnew h v sh = (h', o) -> wfh h' /\ keeps h h'.
Proof.
  intros h v sh h' o W H. destruct W as [W1 [W2 W3]]. unfold hnew in H.
  destruct v as [sn|r b].
  - inversion H; subst. split.
    + split; [|split]; cbn [objs blks cache nxt].
      * intros o2 ob2. rewrite obj_get_cons. destruct (N.eqb (nxt h) o2) eqn:E.
        -- apply N.eqb_eq in E. subst o2. intros X; inversion X; subst ob2. cbn [o_blk]. split; [lia|discriminate].
        -- intros X. destruct (W1 _ _ X) as [A1 A2]. split; [lia|]. intros k2 Y. specialize (A2 _ Y). lia.
      * intros k2 a2 X. apply W2 in X. lia.
      * intros a2 k2 X. apply W3 in X. lia.
    + split; cbn [objs blks nxt]; [lia|]. split; [|auto].
      intros o2 Ho. rewrite obj_get_cons. destruct (N.eqb (nxt h) o2) eqn:E; [apply N.eqb_eq in E; lia|reflexivity].
  - set (h1 := mkHeap ((nxt h, mkObj (PBgp r b) (Some (nxt h + 1))) :: objs h) ((nxt h + 1, a_of b) :: blks h)
                      (cache h) (nxt h + 2)) in *.
    assert (W1' : wfh h1).
    { split; [|split]; cbn [h1 objs blks cache nxt].
      - intros o2 ob2. rewrite obj_get_cons. destruct (N.eqb (nxt h) o2) eqn:E.
        + apply N.eqb_eq in E. subst o2. intros X; inversion X; subst ob2. cbn [o_blk].
          split; [lia|]. intros k2 Y; inversion Y; lia.
        + intros X. destruct (W1 _ _ X) as [A1 A2]. split; [lia|]. intros k2 Y. specialize (A2 _ Y). lia.
      - intros k2 a2. rewrite blk_get_cons. destruct (N.eqb (nxt h + 1) k2) eqn:E.
        + apply N.eqb_eq in E. intros _. lia.
        + intros X. apply W2 in X. lia.
      - intros a2 k2 X. apply W3 in X. lia. }
    assert (K1' : keeps h h1).
    { split; cbn [h1 objs blks nxt]; [lia|]. split.
      - intros o2 Ho. rewrite obj_get_cons. destruct (N.eqb (nxt h) o2) eqn:E; [apply N.eqb_eq in E; lia|reflexivity].
      - intros k2 Hk. rewrite blk_get_cons. destruct (N.eqb (nxt h + 1) k2) eqn:E; [apply N.eqb_eq in E; lia|reflexivity]. }
    destruct sh; inversion H; subst; [|auto].
    apply dedup_ok; [assumption|assumption|cbn; lia].
Qed.
