(* C15: the definitions REGENERATED from the Go source (Gen/NetGen.v, tools/gosub2coq) agree with the
   hand-written model (Model/NetArith.v) the C15 theorems are about.  These proofs are deliberately shallow
   (conversion, case splits on the branch conditions, one induction per loop): when net/prefix.go or net/ip.go
   changes its meaning, NetGen.v changes and this file stops compiling. *)
From Coq Require Import ZArith Lia Bool List.
From BioVerif Require Import Lib.Word Lib.WordLemmas Model.NetArith Gen.NetGen.
Open Scope Z_scope.

Lemma gen_math_Min_eq a b : g_util_math_Min a b = Z.min a b.
Proof. unfold g_util_math_Min. destruct (Z.ltb_spec a b); lia. Qed.

Lemma gen_math_Max_eq a b : g_util_math_Max a b = Z.max a b.
Proof. unfold g_util_math_Max. destruct (Z.ltb_spec b a); lia. Qed.

Lemma gen_copy_eq a : g_IP_copy a = a.
Proof. reflexivity. Qed.

Lemma gen_IPv4_eq v : g_IPv4 v = IPv4 v.
Proof. reflexivity. Qed.

Lemma gen_IPv6_eq h l : g_IPv6 h l = IPv6 h l.
Proof. reflexivity. Qed.

Lemma gen_NewPfx_eq a l : g_NewPfx a l = NewPfx a l.
Proof. reflexivity. Qed.

Lemma gen_ToUint32_eq a : g_IP_ToUint32 a = ToUint32 a.
Proof. reflexivity. Qed.

Lemma gen_min_eq a b : g_min a b = wminu a b.
Proof. reflexivity. Qed.

Lemma gen_IP_Equal_eq a b : g_IP_Equal a b = ip_equal a b.
Proof. reflexivity. Qed.

Lemma gen_IP_Compare_eq a b : g_IP_Compare a b = ip_compare a b.
Proof. reflexivity. Qed.

Lemma gen_bitAtPositionIPv4_eq a pos : g_IP_bitAtPositionIPv4 a pos = bitAtPositionIPv4 a pos.
Proof. reflexivity. Qed.

Lemma gen_bitAtPositionIPv6_eq a pos : g_IP_bitAtPositionIPv6 a pos = bitAtPositionIPv6 a pos.
Proof. reflexivity. Qed.

Lemma gen_BitAtPosition_eq a pos : g_IP_BitAtPosition a pos = BitAtPosition a pos.
Proof. reflexivity. Qed.

Lemma gen_maskLastNBitsIPv4_eq a n : g_IP_maskLastNBitsIPv4 a n = maskLastNBitsIPv4 a n.
Proof. reflexivity. Qed.

Lemma gen_maskLastNBitsIPv6_eq a n : g_IP_maskLastNBitsIPv6 a n = maskLastNBitsIPv6 a n.
Proof.
  unfold g_IP_maskLastNBitsIPv6, maskLastNBitsIPv6. rewrite gen_math_Min_eq, gen_math_Max_eq. reflexivity.
Qed.

Lemma gen_MaskLastNBits_eq a n : g_IP_MaskLastNBits a n = MaskLastNBits a n.
Proof.
  unfold g_IP_MaskLastNBits, MaskLastNBits. rewrite gen_maskLastNBitsIPv6_eq. reflexivity.
Qed.

Lemma gen_containsIPv4_eq p x : g_Prefix_containsIPv4 p x = containsIPv4 p x.
Proof. reflexivity. Qed.

Lemma gen_containsIPv6_eq p x : g_Prefix_containsIPv6 p x = containsIPv6 p x.
Proof. unfold g_Prefix_containsIPv6, containsIPv6. destruct (plen p <=? 64); reflexivity. Qed.

Lemma gen_Contains_eq p x : g_Prefix_Contains p x = Contains p x.
Proof. unfold g_Prefix_Contains, Contains. rewrite gen_containsIPv6_eq. reflexivity. Qed.

Lemma gen_Prefix_Equal_eq p x : g_Prefix_Equal p x = pfx_equal p x.
Proof. reflexivity. Qed.

Lemma gen_checkLastNBitsUint32_eq x n : g_checkLastNBitsUint32 x n = checkLastNBitsUint32 x n.
Proof. reflexivity. Qed.

Lemma gen_checkLastNBitsUint64_eq x n : g_checkLastNBitsUint64 x n = checkLastNBitsUint64 x n.
Proof. reflexivity. Qed.

Lemma gen_Valid_eq p : g_Prefix_Valid p = Valid p.
Proof. reflexivity. Qed.

Lemma gen_baseAddr4_eq p : g_Prefix_baseAddr4 p = baseAddr4 p.
Proof. reflexivity. Qed.

Lemma gen_baseAddr6_eq p : g_Prefix_baseAddr6 p = baseAddr6 p.
Proof. unfold g_Prefix_baseAddr6, baseAddr6. destruct (plen p <=? 64); reflexivity. Qed.

Lemma gen_BaseAddr_eq p : g_Prefix_BaseAddr p = BaseAddr p.
Proof. unfold g_Prefix_BaseAddr, BaseAddr. rewrite gen_baseAddr6_eq. reflexivity. Qed.

(* ---- the two loops ---- *)

Lemma gen_supernet4_loop_eq fuel : forall a b m,
  g_Prefix_supernetIPv4_loop1 fuel a b m =
  match supernet4_loop fuel a b m with Some (a', m') => Some (a', a', m') | None => None end.
Proof.
  induction fuel as [|f IH]; intros a b m; [reflexivity|].
  cbn [g_Prefix_supernetIPv4_loop1 supernet4_loop].
  destruct (Z.eqb_spec a b) as [->|NE]; cbn [negb]; [reflexivity | apply IH].
Qed.

Lemma gen_supernetIPv4_eq p x : g_Prefix_supernetIPv4 p x = supernetIPv4 p x.
Proof.
  unfold g_Prefix_supernetIPv4, supernetIPv4. rewrite gen_supernet4_loop_eq.
  change (g_min (plen p) (plen x)) with (wminu (plen p) (plen x)).
  change g_IP_ToUint32 with ToUint32.
  destruct (supernet4_loop 34 _ _ _) as [[a' m']|]; reflexivity.
Qed.

Lemma gen_supernet6_loop_eq fuel : forall M p x a b n mask,
  match g_Prefix_supernetIPv6_loop1 fuel M p x a b n mask with
  | Some (_, _, n', mask') => Some (n', mask')
  | None => None
  end = supernet6_loop fuel (addr p) (addr x) M a b n mask.
Proof.
  induction fuel as [|f IH]; intros M p x a b n mask; [reflexivity|].
  cbn [g_Prefix_supernetIPv6_loop1 supernet6_loop].
  destruct (Bool.eqb a b && (n <? M)); [|reflexivity].
  rewrite IH. reflexivity.
Qed.

Lemma gen_supernetIPv6_eq p x : g_Prefix_supernetIPv6 p x = supernetIPv6 p x.
Proof.
  unfold g_Prefix_supernetIPv6, supernetIPv6.
  rewrite <- (gen_supernet6_loop_eq 257 (wminu (plen p) (plen x)) p x).
  change (g_min (plen p) (plen x)) with (wminu (plen p) (plen x)).
  change g_IP_BitAtPosition with BitAtPosition.
  destruct (g_Prefix_supernetIPv6_loop1 257 _ p x _ _ 0 0) as [[[[a' b'] n'] mask']|]; reflexivity.
Qed.

Lemma gen_GetSupernet_eq p x : g_Prefix_GetSupernet p x = GetSupernet p x.
Proof.
  unfold g_Prefix_GetSupernet, GetSupernet. rewrite gen_supernetIPv4_eq, gen_supernetIPv6_eq. reflexivity.
Qed.
