(* C28: the BMP router model's tables mirror the monitored sessions (Spec/BMPMirrorSpec.v). *)
From Coq Require Import List NArith ZArith Bool Lia ZifyBool ZifyNat ZifyN.
Import ListNotations.
From BioVerif Require Import Model.BMPCodec Model.BMPRouter Spec.BMPMirrorSpec
  Proofs.BMPCodecProofs Proofs.BMPServeProofs Proofs.BMPTableLemmas.
Open Scope N_scope.

(* ------------------------------------------------------------------ what the neighbors' Adj-RIB-Ins hold *)

Definition contrib (rd : N) (v6 : bool) (n : nbr) : list entry :=
  if n_vrf n =? rd then map (tag (n_src n)) (rib_of v6 n) else [].

Definition expected (l : list nbr) (rd : N) (v6 : bool) : list entry := flat_map (contrib rd v6) l.

Lemma expected_app : forall a b rd v6, expected (a ++ b) rd v6 = expected a rd v6 ++ expected b rd v6.
Proof. intros. unfold expected. apply flat_map_app. Qed.

Lemma expected_cons : forall n l rd v6, expected (n :: l) rd v6 = contrib rd v6 n ++ expected l rd v6.
Proof. reflexivity. Qed.

(* neighbor lookup *)
Lemma find_nbr_in : forall k l n, find_nbr k l = Some n -> In n l /\ key_of n = k.
Proof.
  intros k. induction l as [|x l IH]; cbn [find_nbr]; intros n H; [discriminate|].
  destruct (nkey_eqb (key_of x) k) eqn:E.
  - inversion H; subst. split; [left; reflexivity|apply nkey_eqb_eq; exact E].
  - destruct (IH n H). split; [right; assumption|assumption].
Qed.

Lemma find_nbr_none : forall k l, find_nbr k l = None -> forall n, In n l -> key_of n <> k.
Proof.
  intros k. induction l as [|x l IH]; cbn [find_nbr]; intros H n Hn; [contradiction|].
  destruct (nkey_eqb (key_of x) k) eqn:E; [discriminate|].
  destruct Hn as [->|Hn]; [apply nkey_eqb_neq; exact E|apply IH; assumption].
Qed.

Lemma in_find_nbr : forall l n, NoDup (map key_of l) -> In n l -> find_nbr (key_of n) l = Some n.
Proof.
  induction l as [|x l IH]; intros n Hd Hn; [contradiction|].
  cbn [map] in Hd. inversion Hd as [|? ? Hx Hd']; subst. cbn [find_nbr].
  destruct Hn as [->|Hn].
  - rewrite nkey_eqb_refl. reflexivity.
  - destruct (nkey_eqb (key_of x) (key_of n)) eqn:E.
    + apply nkey_eqb_eq in E. exfalso. apply Hx. rewrite E. apply in_map. exact Hn.
    + apply IH; assumption.
Qed.

(* replacing a neighbor by one with the same key *)
Lemma put_nbr_keys : forall n' l, map key_of (put_nbr n' l) = map key_of l.
Proof.
  intros n'. induction l as [|x l IH]; cbn [put_nbr map]; [reflexivity|].
  destruct (nkey_eqb (key_of x) (key_of n')) eqn:E; cbn [map].
  - apply nkey_eqb_eq in E. rewrite E. reflexivity.
  - rewrite IH. reflexivity.
Qed.

Lemma put_nbr_in : forall n' l m, NoDup (map key_of l) -> In m (put_nbr n' l) ->
  (m = n' /\ exists n, In n l /\ key_of n = key_of n') \/ (In m l /\ key_of m <> key_of n').
Proof.
  intros n'. induction l as [|x l IH]; cbn [put_nbr]; intros m Hd Hm; [contradiction|].
  cbn [map] in Hd. inversion Hd as [|? ? Hx Hd']; subst.
  destruct (nkey_eqb (key_of x) (key_of n')) eqn:E.
  - apply nkey_eqb_eq in E. destruct Hm as [<-|Hm].
    + left. split; [reflexivity|]. exists x. split; [left; reflexivity|assumption].
    + right. split; [right; assumption|]. intros Hk. apply Hx. rewrite E, <- Hk. apply in_map. exact Hm.
  - destruct Hm as [<-|Hm].
    + right. split; [left; reflexivity|apply nkey_eqb_neq; exact E].
    + destruct (IH m Hd' Hm) as [(A & n & B & C)|(A & B)].
      * left. split; [assumption|]. exists n. split; [right; assumption|assumption].
      * right. split; [right; assumption|assumption].
Qed.

Lemma in_put_nbr : forall n' l n, In n l -> key_of n = key_of n' -> In n' (put_nbr n' l).
Proof.
  intros n'. induction l as [|x l IH]; cbn [put_nbr]; intros n Hn Hk; [contradiction|].
  destruct (nkey_eqb (key_of x) (key_of n')) eqn:E; [left; reflexivity|].
  destruct Hn as [->|Hn].
  - apply nkey_eqb_neq in E. contradiction.
  - right. eapply IH; eauto.
Qed.

Lemma in_put_nbr_other : forall n' l m, In m l -> key_of m <> key_of n' -> In m (put_nbr n' l).
Proof.
  intros n'. induction l as [|x l IH]; cbn [put_nbr]; intros m Hm Hk; [contradiction|].
  destruct (nkey_eqb (key_of x) (key_of n')) eqn:E.
  - destruct Hm as [->|Hm]; [apply nkey_eqb_eq in E; contradiction|right; assumption].
  - destruct Hm as [->|Hm]; [left; reflexivity|right; apply IH; assumption].
Qed.

Lemma expected_put_nbr : forall n n' l rd v6 x,
  NoDup (map key_of l) -> In n l -> key_of n' = key_of n ->
  (cnt x (expected (put_nbr n' l) rd v6) + cnt x (contrib rd v6 n) =
   cnt x (expected l rd v6) + cnt x (contrib rd v6 n'))%nat.
Proof.
  intros n n' l rd v6 x. induction l as [|y l IH]; intros Hd Hn Hk; [contradiction|].
  cbn [map] in Hd. inversion Hd as [|? ? Hy Hd']; subst. cbn [put_nbr].
  destruct (nkey_eqb (key_of y) (key_of n')) eqn:E.
  - apply nkey_eqb_eq in E. destruct Hn as [->|Hn].
    + rewrite !expected_cons, !cnt_app. lia.
    + exfalso. apply Hy. rewrite E, Hk. apply in_map. exact Hn.
  - destruct Hn as [->|Hn].
    + apply nkey_eqb_neq in E. congruence.
    + rewrite !expected_cons, !cnt_app. specialize (IH Hd' Hn Hk). lia.
Qed.

Lemma del_nbr_in : forall k l m, In m (del_nbr k l) -> In m l.
Proof.
  intros k. induction l as [|x l IH]; cbn [del_nbr]; intros m Hm; [contradiction|].
  destruct (nkey_eqb (key_of x) k); [right; assumption|].
  destruct Hm as [->|Hm]; [left; reflexivity|right; apply IH; assumption].
Qed.

Lemma del_nbr_keys : forall k l, NoDup (map key_of l) ->
  NoDup (map key_of (del_nbr k l)) /\ (forall m, In m (del_nbr k l) -> key_of m <> k) /\
  (forall m, In m l -> key_of m <> k -> In m (del_nbr k l)).
Proof.
  intros k. induction l as [|x l IH]; cbn [del_nbr map]; intros Hd.
  - split; [constructor|]. split; intros; contradiction.
  - inversion Hd as [|? ? Hx Hd']; subst. destruct (IH Hd') as (A & B & C).
    destruct (nkey_eqb (key_of x) k) eqn:E.
    + apply nkey_eqb_eq in E. split; [assumption|]. split.
      * intros m Hm Hk. apply Hx. rewrite E, <- Hk. apply in_map. exact Hm.
      * intros m [->|Hm] Hk; [contradiction|assumption].
    + cbn [map]. split.
      * constructor; [|assumption]. intros Hin. apply Hx. apply in_map_iff in Hin.
        destruct Hin as (m & Hk & Hm). apply in_map_iff. exists m. split; [assumption|].
        eapply del_nbr_in; eauto.
      * split.
        -- intros m [<-|Hm]; [apply nkey_eqb_neq; exact E|apply B; assumption].
        -- intros m [->|Hm] Hk; [left; reflexivity|right; apply C; assumption].
Qed.

Lemma expected_del_nbr : forall n l rd v6 x,
  NoDup (map key_of l) -> In n l ->
  (cnt x (expected (del_nbr (key_of n) l) rd v6) + cnt x (contrib rd v6 n) = cnt x (expected l rd v6))%nat.
Proof.
  intros n l rd v6 x. induction l as [|y l IH]; intros Hd Hn; [contradiction|].
  cbn [map] in Hd. inversion Hd as [|? ? Hy Hd']; subst. cbn [del_nbr].
  destruct (nkey_eqb (key_of y) (key_of n)) eqn:E.
  - apply nkey_eqb_eq in E. destruct Hn as [->|Hn].
    + rewrite expected_cons, cnt_app. lia.
    + exfalso. apply Hy. rewrite E. apply in_map. exact Hn.
  - destruct Hn as [->|Hn].
    + rewrite nkey_eqb_refl in E. discriminate.
    + rewrite !expected_cons, !cnt_app. specialize (IH Hd' Hn). lia.
Qed.

(* an entry counted in `expected` comes from some neighbor *)
Lemma expected_pos : forall l rd v6 x, (cnt x (expected l rd v6) > 0)%nat ->
  exists n, In n l /\ (cnt x (contrib rd v6 n) > 0)%nat.
Proof.
  induction l as [|y l IH]; intros rd v6 x H; [cbn in H; lia|].
  rewrite expected_cons, cnt_app in H.
  destruct (cnt x (contrib rd v6 y)) eqn:C.
  - destruct (IH rd v6 x) as (n & A & B); [lia|]. exists n. split; [right; assumption|assumption].
  - exists y. split; [left; reflexivity|lia].
Qed.

(* if every other neighbor contributes nothing, `expected` is the one contribution *)
Lemma expected_single : forall l n rd v6 x, In n l -> NoDup (map key_of l) ->
  (forall m, In m l -> key_of m <> key_of n -> cnt x (contrib rd v6 m) = 0%nat) ->
  cnt x (expected l rd v6) = cnt x (contrib rd v6 n).
Proof.
  induction l as [|y l IH]; intros n rd v6 x Hn Hd Ho; [contradiction|].
  cbn [map] in Hd. inversion Hd as [|? ? Hy Hd']; subst.
  rewrite expected_cons, cnt_app. destruct Hn as [->|Hn].
  - assert (cnt x (expected l rd v6) = 0%nat).
    { destruct (cnt x (expected l rd v6)) eqn:C; [reflexivity|].
      destruct (expected_pos l rd v6 x) as (m & A & B); [lia|].
      rewrite Ho in B; [lia|right; assumption|].
      intros Hk. apply Hy. rewrite <- Hk. apply in_map. exact A. }
    lia.
  - rewrite (IH n rd v6 x Hn Hd').
    + rewrite Ho; [lia|left; reflexivity|].
      intros Hk. apply Hy. rewrite Hk. apply in_map. exact Hn.
    + intros m Hm Hk. apply Ho; [right; assumption|assumption].
Qed.

(* ------------------------------------------------------------------ filters on an Adj-RIB-In *)

Lemma cntk_filter : forall (f : rkey -> bool) y l,
  cntk y (filter f l) = if f y then cntk y l else 0%nat.
Proof.
  intros f y. induction l as [|x l IH]; cbn [filter cntk]; [destruct (f y); reflexivity|].
  destruct (f x) eqn:Fx; cbn [cntk]; rewrite IH.
  - destruct (rkey_eqb x y) eqn:E; cbn [b2n].
    + apply rkey_eqb_eq in E. subst. rewrite Fx. reflexivity.
    + destruct (f y); reflexivity.
  - destruct (rkey_eqb x y) eqn:E; cbn [b2n].
    + apply rkey_eqb_eq in E. subst. rewrite Fx. reflexivity.
    + destruct (f y); reflexivity.
Qed.

Lemma cnt_map_partition : forall (f : rkey -> bool) s x l,
  cnt x (map (tag s) l) =
  (cnt x (map (tag s) (filter f l)) + cnt x (map (tag s) (filter (fun y => negb (f y)) l)))%nat.
Proof.
  intros f s x. induction l as [|y l IH]; cbn [map filter cnt]; [reflexivity|].
  destruct (f y); cbn [negb map cnt]; rewrite IH; lia.
Qed.

Lemma hits_self : forall ap p id, hits ap p id (p, id) = true.
Proof.
  intros. unfold hits. cbn [fst snd].
  assert (prefix_eqb p p = true) by (apply prefix_eqb_eq; reflexivity). rewrite H.
  rewrite N.eqb_refl. destruct ap; reflexivity.
Qed.

Lemma hits_ap_only_self : forall p id y, hits true p id y = true -> y = (p, id).
Proof.
  intros p id [yp yi] H. unfold hits in H. cbn [fst snd negb orb] in H.
  apply andb_true_iff in H. destruct H as [H1 H2]. apply prefix_eqb_eq in H1. apply N.eqb_eq in H2.
  subst. reflexivity.
Qed.

Lemma cntk_zero_not_in : forall y l, cntk y l = 0%nat -> ~ In y l.
Proof.
  intros y. induction l as [|x l IH]; cbn [cntk]; intros H Hin; [contradiction|].
  destruct Hin as [->|Hin].
  - rewrite rkey_eqb_refl in H. cbn [b2n] in H. lia.
  - apply IH; [lia|assumption].
Qed.

Lemma not_in_cntk_zero : forall y l, ~ In y l -> cntk y l = 0%nat.
Proof.
  intros y. induction l as [|x l IH]; cbn [cntk]; intros H; [reflexivity|].
  destruct (rkey_eqb x y) eqn:E.
  - apply rkey_eqb_eq in E. subst. exfalso. apply H. left. reflexivity.
  - cbn [b2n]. rewrite IH; [reflexivity|]. intros Hin. apply H. right. assumption.
Qed.

(* ------------------------------------------------------------------ the invariant *)

Record inv (st : rstate) (tr : list tevent) : Prop := mk_inv {
  i_keys : NoDup (map key_of (r_nbrs st));
  i_sess : forall n, In n (r_nbrs st) ->
           sess tr (key_of n) = Some (n_src n, n_ap4 n, n_ap6 n, nbr_ibgp n, n_rid n);
  i_sess' : forall k x, sess tr k = Some x -> exists n, In n (r_nbrs st) /\ key_of n = k;
  i_src : forall n, In n (r_nbrs st) -> snd (n_src n) = n_addr n;
  i_rib : forall n v6 y, In n (r_nbrs st) -> cntk y (rib_of v6 n) = b2n (live tr (key_of n) v6 y);
  i_id0 : forall n v6 y, In n (r_nbrs st) -> ap_of v6 n = false -> In y (rib_of v6 n) -> snd y = 0;
  i_tab : forall rd v6 x, cnt x (table st rd v6) = cnt x (expected (r_nbrs st) rd v6);
  i_vrf : forall n, In n (r_nbrs st) -> vrf_exists (n_vrf n) st = true;
  i_ign : r_ignored st = []
}.

Lemma inv_ext_gen : forall st st' tr,
  r_nbrs st' = r_nbrs st ->
  (forall rd v6, table st' rd v6 = table st rd v6) ->
  (forall rd, vrf_exists rd st' = vrf_exists rd st) ->
  r_ignored st' = r_ignored st ->
  inv st tr -> inv st' tr.
Proof.
  intros st st' tr H1 H2 H2' H3 [A B C D E F G H I].
  constructor; try rewrite H1; auto.
  - intros rd v6 x. rewrite H2. apply G.
  - intros n Hn. rewrite H2'. apply H. exact Hn.
  - congruence.
Qed.

Lemma inv_ext : forall st st' tr,
  r_nbrs st' = r_nbrs st -> r_vrfs st' = r_vrfs st -> r_ignored st' = r_ignored st ->
  inv st tr -> inv st' tr.
Proof.
  intros st st' tr H1 H2 H3 I. apply (inv_ext_gen st); auto.
  - intros. unfold table. rewrite H2. reflexivity.
  - intros. unfold vrf_exists. rewrite H2. reflexivity.
Qed.

Lemma contrib_le_expected : forall n l rd v6 x, NoDup (map key_of l) -> In n l ->
  (cnt x (contrib rd v6 n) <= cnt x (expected l rd v6))%nat.
Proof.
  intros n l rd v6 x Hd Hn. pose proof (expected_del_nbr n l rd v6 x Hd Hn). lia.
Qed.

(* set_rib keeps everything but the one Adj-RIB-In *)
Lemma set_rib_fields : forall v6 r n,
  key_of (set_rib v6 r n) = key_of n /\ n_src (set_rib v6 r n) = n_src n /\
  n_vrf (set_rib v6 r n) = n_vrf n /\ n_addr (set_rib v6 r n) = n_addr n /\
  n_ap4 (set_rib v6 r n) = n_ap4 n /\ n_ap6 (set_rib v6 r n) = n_ap6 n /\
  nbr_ibgp (set_rib v6 r n) = nbr_ibgp n /\ n_rid (set_rib v6 r n) = n_rid n /\
  (forall w, ap_of w (set_rib v6 r n) = ap_of w n) /\
  (forall w, rib_of w (set_rib v6 r n) = if Bool.eqb v6 w then r else rib_of w n).
Proof. intros [] r n; repeat split; intros []; reflexivity. Qed.

(* one Adj-RIB-In call on an up neighbor keeps the invariant, the trace growing by that event *)
Lemma rib_op_inv : forall st tr n isann v6 p id,
  inv st tr -> In n (r_nbrs st) ->
  (ap_of v6 n || (id =? 0)) = true ->
  inv (rib_op n isann v6 p id st)
      ((if isann then EAnn (key_of n) v6 (p, id) else EWdr (key_of n) v6 (p, id)) :: tr).
Proof.
  intros st tr n isann v6 p id I Hn Hwf.
  destruct I as [IK IS IS' ISR IR I0 IT IV IG].
  unfold rib_op.
  remember (ap_of v6 n) as ap eqn:Hapd. set (rib := rib_of v6 n).
  set (gone := filter (hits ap p id) rib).
  set (kept := filter (fun x => negb (hits ap p id x)) rib).
  set (rib' := if isann then kept ++ [(p, id)] else kept).
  set (st1 := loc_remove_all (n_vrf n) v6 (n_src n) gone st).
  set (st2 := if isann then loc_add (n_vrf n) v6 (tag (n_src n) (p, id)) st1 else st1).
  set (n' := set_rib v6 rib' n).
  set (ev' := if isann then EAnn (key_of n) v6 (p, id) else EWdr (key_of n) v6 (p, id)).
  destruct (loc_remove_all_frame (n_vrf n) v6 (n_src n) gone st) as (F1 & F2 & F3 & F4).
  fold st1 in F1, F2, F3, F4.
  assert (F : r_nbrs st2 = r_nbrs st /\ r_ignored st2 = r_ignored st /\
              (forall rd', vrf_exists rd' st2 = vrf_exists rd' st)).
  { unfold st2. destruct isann.
    - destruct (loc_add_frame (n_vrf n) v6 (tag (n_src n) (p, id)) st1) as (A & B & _ & D).
      repeat split; try congruence; try (intros rd'; rewrite D; apply F4).
    - repeat split; auto. }
  destruct F as (G1 & G2 & G3).
  destruct (set_rib_fields v6 rib' n) as (K1 & K2 & K3 & K4 & K5 & K6 & K9 & K10 & K7 & K8). fold n' in K1, K2, K3, K4, K5, K6, K7, K8, K9, K10.
  assert (Hsess : forall k, sess (ev' :: tr) k = sess tr k) by (intros k; unfold ev'; destruct isann; reflexivity).
  assert (Hkeys : map key_of (put_nbr n' (r_nbrs st)) = map key_of (r_nbrs st)) by apply put_nbr_keys.
  constructor; cbn [r_nbrs r_ignored set_nbrs]; rewrite ?G1.
  - rewrite Hkeys. exact IK.
  - intros m Hm. rewrite Hsess. destruct (put_nbr_in n' _ m IK Hm) as [(-> & _)|(A & _)].
    + rewrite K1, K2, K5, K6, K9, K10. apply IS. exact Hn.
    + apply IS. exact A.
  - intros k x Hs. rewrite Hsess in Hs. destruct (IS' k x Hs) as (m & A & B).
    destruct (nkey_eqb (key_of m) (key_of n)) eqn:E.
    + apply nkey_eqb_eq in E. exists n'. split; [|congruence].
      eapply in_put_nbr; [exact Hn|congruence].
    + apply nkey_eqb_neq in E. exists m. split; [|assumption].
      apply in_put_nbr_other; [assumption|congruence].
  - intros m Hm. destruct (put_nbr_in n' _ m IK Hm) as [(-> & _)|(A & _)].
    + rewrite K2, K4. apply ISR. exact Hn.
    + apply ISR. exact A.
  - (* Adj-RIB-In contents follow `live` *)
    intros m w y Hm. destruct (put_nbr_in n' _ m IK Hm) as [(-> & _)|(A & B)].
    + rewrite K1, K8. destruct (Bool.eqb v6 w) eqn:Ew.
      * apply Bool.eqb_prop in Ew. subst w.
        assert (Hkept : cntk y kept = if hits ap p id y then 0%nat else cntk y rib).
        { unfold kept. rewrite cntk_filter. destruct (hits ap p id y); reflexivity. }
        assert (Hs : sess tr (key_of n) <> None) by (rewrite (IS n Hn); discriminate).
        destruct (rkey_eqb (p, id) y) eqn:Ey.
        -- apply rkey_eqb_eq in Ey. subst y.
           unfold ev', rib'. destruct isann; cbn [live];
             rewrite nkey_eqb_refl, Bool.eqb_reflx, rkey_eqb_refl; cbn [andb].
           ++ rewrite cntk_app, Hkept, hits_self. cbn [cntk]. rewrite rkey_eqb_refl. cbn [b2n].
              destruct (sess tr (key_of n)); [reflexivity|contradiction].
           ++ rewrite Hkept, hits_self. reflexivity.
        -- assert (Hl : live (ev' :: tr) (key_of n) v6 y = live tr (key_of n) v6 y).
           { unfold ev'. destruct isann; cbn [live]; rewrite Ey, !andb_false_r; reflexivity. }
           rewrite Hl.
           assert (Hr : cntk y rib' = cntk y kept).
           { unfold rib'. destruct isann; [|reflexivity]. rewrite cntk_app. cbn [cntk]. rewrite Ey. cbn [b2n]. lia. }
           rewrite Hr, Hkept. destruct (hits ap p id y) eqn:Eh.
           ++ (* only without add-path can another key be hit: it has another path id, none is stored *)
              destruct ap.
              ** apply hits_ap_only_self in Eh. subst y. rewrite rkey_eqb_refl in Ey. discriminate.
              ** cbn [orb] in Hwf. assert (id = 0) by lia. subst id.
                 rewrite <- (IR n v6 y Hn). fold rib. symmetry. apply not_in_cntk_zero.
                 intros Hin. pose proof (I0 n v6 y Hn (eq_sym Hapd) Hin) as H0.
                 unfold hits in Eh. apply andb_true_iff in Eh. destruct Eh as [Ep _].
                 apply prefix_eqb_eq in Ep. apply rkey_eqb_neq in Ey. apply Ey.
                 destruct y as [yp yi]. cbn [fst snd] in *. subst. reflexivity.
           ++ apply IR. exact Hn.
      * assert (Hl : live (ev' :: tr) (key_of n) w y = live tr (key_of n) w y).
        { unfold ev'. destruct isann; cbn [live]; rewrite Ew, andb_false_r; reflexivity. }
        rewrite Hl. apply IR. exact Hn.
    + assert (Hl : live (ev' :: tr) (key_of m) w y = live tr (key_of m) w y).
      { assert (nkey_eqb (key_of n) (key_of m) = false) by (apply nkey_eqb_neq; congruence).
        unfold ev'. destruct isann; cbn [live]; rewrite H; reflexivity. }
      rewrite Hl. apply IR. exact A.
  - (* without add-path only path id 0 is stored *)
    intros m w y Hm Hap Hy. destruct (put_nbr_in n' _ m IK Hm) as [(-> & _)|(A & _)].
    + rewrite K7 in Hap. rewrite K8 in Hy. destruct (Bool.eqb v6 w) eqn:Ew.
      * apply Bool.eqb_prop in Ew. subst w.
        assert (Hk : In y kept -> snd y = 0).
        { intros Hin. unfold kept in Hin. apply filter_In in Hin. destruct Hin as [Hin _].
          apply (I0 n v6 y Hn Hap Hin). }
        unfold rib' in Hy. destruct isann; [|auto].
        apply in_app_or in Hy. destruct Hy as [Hy|[<-|[]]]; [auto|].
        cbn [snd]. rewrite <- Hapd in Hap. rewrite Hap in Hwf. cbn [orb] in Hwf. lia.
      * apply (I0 n w y Hn Hap Hy).
    + apply (I0 m w y A Hap Hy).
  - (* the table follows the Adj-RIB-Ins *)
    intros rd' w x.
    assert (Ht3 : table (set_nbrs (put_nbr n' (r_nbrs st)) st2) rd' w = table st2 rd' w) by reflexivity.
    rewrite Ht3.
    pose proof (expected_put_nbr n n' (r_nbrs st) rd' w x IK Hn K1) as HE.
    pose proof (contrib_le_expected n (r_nbrs st) rd' w x IK Hn) as HL.
    pose proof (IT rd' w x) as HT.
    pose proof (table_loc_remove_all (n_vrf n) v6 (n_src n) gone st rd' w x) as H1. fold st1 in H1.
    assert (Hpart : cnt x (map (tag (n_src n)) rib) =
                    (cnt x (map (tag (n_src n)) gone) + cnt x (map (tag (n_src n)) kept))%nat)
      by (unfold gone, kept; apply cnt_map_partition).
    assert (Hc : cnt x (contrib rd' w n) =
                 if N.eqb (n_vrf n) rd' then cnt x (map (tag (n_src n)) (rib_of w n)) else 0%nat)
      by (unfold contrib; destruct (n_vrf n =? rd'); reflexivity).
    assert (Hc' : cnt x (contrib rd' w n') =
                 if N.eqb (n_vrf n) rd'
                 then cnt x (map (tag (n_src n)) (if Bool.eqb v6 w then rib' else rib_of w n)) else 0%nat)
      by (unfold contrib; rewrite K3, K2, K8; destruct (n_vrf n =? rd'); reflexivity).
    assert (Hex : vrf_exists (n_vrf n) st1 = true) by (rewrite F4; apply IV; exact Hn).
    destruct (N.eqb (n_vrf n) rd') eqn:Erd; cbn [andb] in H1.
    + destruct (Bool.eqb v6 w) eqn:Ew.
      * apply Bool.eqb_prop in Ew. subst w. fold rib in Hc.
        unfold st2, rib' in *. destruct isann.
        -- rewrite table_loc_add. rewrite Hex, Erd, Bool.eqb_reflx. cbn [andb].
           rewrite map_app, cnt_app in Hc'. cbn [map cnt] in Hc'. lia.
        -- lia.
      * unfold st2. destruct isann.
        -- rewrite table_loc_add. rewrite Ew, !andb_false_r. cbn [andb b2n]. lia.
        -- lia.
    + unfold st2. destruct isann.
      * rewrite table_loc_add. rewrite Erd, !andb_false_r. cbn [andb b2n]. lia.
      * lia.
  - intros m Hm. assert (Hv : forall rd', vrf_exists rd' (set_nbrs (put_nbr n' (r_nbrs st)) st2) = vrf_exists rd' st)
      by (intros rd'; rewrite <- G3; reflexivity).
    rewrite Hv. destruct (put_nbr_in n' _ m IK Hm) as [(-> & _)|(A & _)].
    + rewrite K3. apply IV. exact Hn.
    + apply IV. exact A.
  - congruence.
Qed.

Lemma rib_op_closed : forall n isann v6 p id st, r_closed (rib_op n isann v6 p id st) = r_closed st.
Proof.
  intros. unfold rib_op. cbn [r_closed set_nbrs].
  destruct (loc_remove_all_frame (n_vrf n) v6 (n_src n)
              (filter (hits (ap_of v6 n) p id) (rib_of v6 n)) st) as (_ & _ & C & _).
  destruct isann; [|exact C].
  destruct (loc_add_frame (n_vrf n) v6 (tag (n_src n) (p, id))
              (loc_remove_all (n_vrf n) v6 (n_src n) (filter (hits (ap_of v6 n) p id) (rib_of v6 n)) st))
    as (_ & _ & C' & _). congruence.
Qed.

Lemma apply_event_closed : forall k ev st, r_closed (apply_event k ev st) = r_closed st.
Proof.
  intros. unfold apply_event. destruct (find_nbr k (r_nbrs st)); [|reflexivity].
  destruct ev; apply rib_op_closed.
Qed.

Lemma inv_find : forall st tr k x, inv st tr -> sess tr k = Some x ->
  exists n, find_nbr k (r_nbrs st) = Some n /\ In n (r_nbrs st) /\ key_of n = k /\
            x = (n_src n, n_ap4 n, n_ap6 n, nbr_ibgp n, n_rid n).
Proof.
  intros st tr k x I Hs. destruct (i_sess' _ _ I k x Hs) as (n & Hn & Hk).
  exists n. split; [rewrite <- Hk; apply in_find_nbr; [apply (i_keys _ _ I)|exact Hn]|].
  split; [exact Hn|]. split; [exact Hk|].
  pose proof (i_sess _ _ I n Hn) as H. rewrite Hk in H. congruence.
Qed.

Lemma inv_find_none : forall st tr k, inv st tr -> sess tr k = None -> find_nbr k (r_nbrs st) = None.
Proof.
  intros st tr k I Hs. destruct (find_nbr k (r_nbrs st)) as [n|] eqn:F; [|reflexivity].
  apply find_nbr_in in F. destruct F as (Hn & Hk). pose proof (i_sess _ _ I n Hn) as H.
  rewrite Hk in H. congruence.
Qed.

Lemma apply_events_inv : forall evs st tr k s a4 a6 ib rid,
  inv st tr -> sess tr k = Some (s, a4, a6, ib, rid) ->
  forallb (wf_uevent a4 a6 ib rid) evs = true ->
  inv (fold_left (fun acc ev => apply_event k ev acc) evs st) (rev (map (tevent_of k) evs) ++ tr) /\
  r_closed (fold_left (fun acc ev => apply_event k ev acc) evs st) = r_closed st.
Proof.
  induction evs as [|ev evs IH]; intros st tr k s a4 a6 ib rid I Hs Hwf; cbn [fold_left map rev app].
  - split; [exact I|reflexivity].
  - cbn [forallb] in Hwf. apply andb_true_iff in Hwf. destruct Hwf as (Hw1 & Hw2).
    destruct (inv_find _ _ _ _ I Hs) as (n & F & Hn & Hk & Hx). inversion Hx; subst s a4 a6 ib rid.
    assert (I' : inv (apply_event k ev st) (tevent_of k ev :: tr)).
    { unfold apply_event. rewrite F. subst k. destruct ev as [v6 p id a|v6 p id]; cbn [tevent_of].
      - cbn [wf_uevent] in Hw1. apply andb_true_iff in Hw1. destruct Hw1 as (Hw1 & Hh).
        unfold bmp_contributing_asns, bmp_contributing_cluster_ids. rewrite Hh.
        apply (rib_op_inv st tr n true v6 p id I Hn). destruct v6; exact Hw1.
      - apply (rib_op_inv st tr n false v6 p id I Hn). cbn [wf_uevent] in Hw1. destruct v6; exact Hw1. }
    assert (Hs' : sess (tevent_of k ev :: tr) k = Some (n_src n, n_ap4 n, n_ap6 n, nbr_ibgp n, n_rid n))
      by (destruct ev; cbn [tevent_of sess]; exact Hs).
    destruct (IH (apply_event k ev st) (tevent_of k ev :: tr) k _ _ _ _ _ I' Hs' Hw2) as (A & B).
    rewrite <- app_assoc. cbn [app]. split; [exact A|]. rewrite B. apply apply_event_closed.
Qed.

(* ------------------------------------------------------------------ VRF creation *)

Lemma find_vrf_app : forall rd a b,
  find_vrf rd (a ++ b) = match find_vrf rd a with Some v => Some v | None => find_vrf rd b end.
Proof.
  intros rd. induction a as [|x a IH]; intros b; cbn [app find_vrf]; [reflexivity|].
  destruct (v_rd x =? rd); [reflexivity|apply IH].
Qed.

Lemma create_vrf_spec : forall rd st,
  r_nbrs (create_vrf rd st) = r_nbrs st /\ r_ignored (create_vrf rd st) = r_ignored st /\
  r_closed (create_vrf rd st) = r_closed st /\
  vrf_exists rd (create_vrf rd st) = true /\
  (forall rd', vrf_exists rd' st = true -> vrf_exists rd' (create_vrf rd st) = true) /\
  (forall rd' v6 x, cnt x (table (create_vrf rd st) rd' v6) = cnt x (table st rd' v6)).
Proof.
  intros rd st. unfold create_vrf, vrf_exists, table.
  destruct (find_vrf rd (r_vrfs st)) as [v|] eqn:F.
  - rewrite F. repeat split; auto.
  - cbn [r_nbrs r_ignored r_closed r_vrfs set_vrfs]. repeat split.
    + rewrite find_vrf_app, F. cbn [find_vrf v_rd]. rewrite N.eqb_refl. reflexivity.
    + intros rd' H. rewrite find_vrf_app. destruct (find_vrf rd' (r_vrfs st)); [reflexivity|discriminate].
    + intros rd' v6 x. rewrite find_vrf_app. destruct (find_vrf rd' (r_vrfs st)) eqn:F'; [reflexivity|].
      cbn [find_vrf v_rd]. destruct (rd =? rd'); [destruct v6; reflexivity|reflexivity].
Qed.

Lemma NoDup_snoc : forall (A : Type) (l : list A) (a : A), NoDup l -> ~ In a l -> NoDup (l ++ [a]).
Proof.
  intros A l a Hd Hn. induction l as [|x l IH]; cbn [app].
  - constructor; [intros []|constructor].
  - inversion Hd as [|? ? Hx Hd']; subst. constructor.
    + intros Hin. apply in_app_or in Hin. destruct Hin as [Hin|[<-|[]]]; [contradiction|].
      apply Hn. left. reflexivity.
    + apply IH; [assumption|]. intros Hin. apply Hn. right. assumption.
Qed.

Section Handlers.
Variable open_decode : bytes -> option open_info.
Variable upd_apply : bool -> bool -> bool -> bytes -> list uevent.
Variable c : cfg.
Hypothesis Hign : ignore_asns c = [].

Let interp := interp open_decode upd_apply c.
Let wf_msg := wf_msg open_decode upd_apply c.

Lemma src_of_addr : forall h, wf_pph h = true -> snd (src_of h) = p_addr h.
Proof.
  intros h H. unfold wf_pph in H. unfold src_of. destruct (flag_v h); cbn [snd orb] in *; [reflexivity|].
  apply N.mod_small. apply N.ltb_lt. exact H.
Qed.

Lemma bump_inv : forall i st tr, inv st tr -> inv (bump i st) tr.
Proof. intros i st tr I. apply (inv_ext st); auto. Qed.

Lemma peer_up_inv : forall st tr h lo lp rp sent rcvd info,
  inv st tr -> wf_msg tr (MPeerUp h lo lp rp sent rcvd info) = true ->
  inv (peer_up open_decode c h sent rcvd st) (rev (interp tr (MPeerUp h lo lp rp sent rcvd info)) ++ tr) /\
  r_closed (peer_up open_decode c h sent rcvd st) = r_closed st.
Proof.
  intros st tr h lo lp rp sent rcvd info I Hwf.
  unfold peer_up, ignored_asn. rewrite Hign. cbn [existsb].
  unfold wf_msg, BMPMirrorSpec.wf_msg in Hwf. apply andb_true_iff in Hwf. destruct Hwf as (Hpph & Hwf).
  unfold interp, BMPMirrorSpec.interp in *. unfold ignored_asn in *. rewrite Hign in *. cbn [existsb] in *.
  destruct (open_decode sent) as [so|]; [|cbn [rev app]; split; [apply bump_inv; exact I|reflexivity]].
  destruct (open_decode rcvd) as [ro|]; [|cbn [rev app]; split; [apply bump_inv; exact I|reflexivity]].
  destruct (asn_of_open ro =? p_as h) eqn:Eas; cbn [negb];
    [|cbn [rev app]; split; [apply bump_inv; exact I|reflexivity]].
  unfold key_of_pph in *. set (k := (p_rd h, p_addr h)) in *.
  destruct (sess tr k) as [x|] eqn:Hs; [discriminate|].
  pose proof (bump_inv 3 st tr I) as I3.
  destruct (create_vrf_spec (p_rd h) (bump 3 st)) as (V1 & V2 & V3 & V4 & V5 & V6).
  assert (Fn : find_nbr k (r_nbrs (create_vrf (p_rd h) (bump 3 st))) = None).
  { rewrite V1. apply (inv_find_none _ tr k I3 Hs). }
  rewrite Fn. cbn [rev app].
  set (n := mk_nbr (p_rd h) (p_addr h) (src_of h) (p_as h) (asn_of_open so)
                   (addpath_rx so ro 1) (addpath_rx so ro 2) (negb (len (o_asn4 ro) =? 0)) (o_bgpid so) [] []).
  set (st1 := create_vrf (p_rd h) (bump 3 st)) in *.
  destruct I3 as [IK IS IS' ISR IR I0 IT IV IG].
  assert (Hkn : key_of n = k) by reflexivity.
  assert (Hfresh : forall m, In m (r_nbrs (bump 3 st)) -> key_of m <> k).
  { apply find_nbr_none. rewrite <- V1. exact Fn. }
  split; [|cbn [r_closed set_nbrs]; rewrite V3; reflexivity].
  constructor; cbn [r_nbrs r_ignored set_nbrs]; rewrite ?V1.
  - rewrite map_app. cbn [map]. apply NoDup_snoc; [exact IK|].
    intros Hin. apply in_map_iff in Hin. destruct Hin as (m & A & B). apply (Hfresh m B). congruence.
  - intros m Hm. apply in_app_or in Hm. destruct Hm as [Hm|[<-|[]]].
    + cbn [sess]. assert (nkey_eqb k (key_of m) = false) by (apply nkey_eqb_neq; intros E; apply (Hfresh m Hm); congruence).
      rewrite H. apply IS. exact Hm.
    + cbn [sess]. rewrite Hkn, nkey_eqb_refl. reflexivity.
  - intros k0 x Hx. cbn [sess] in Hx. destruct (nkey_eqb k k0) eqn:E.
    + apply nkey_eqb_eq in E. exists n. split; [apply in_or_app; right; left; reflexivity|congruence].
    + destruct (IS' k0 x Hx) as (m & A & B). exists m. split; [apply in_or_app; left; assumption|assumption].
  - intros m Hm. apply in_app_or in Hm. destruct Hm as [Hm|[<-|[]]]; [apply ISR; exact Hm|].
    cbn [n_src n_addr n]. apply src_of_addr. exact Hpph.
  - intros m w y Hm. apply in_app_or in Hm. destruct Hm as [Hm|[<-|[]]].
    + cbn [live]. assert (nkey_eqb k (key_of m) = false) by (apply nkey_eqb_neq; intros E; apply (Hfresh m Hm); congruence).
      rewrite H. apply IR. exact Hm.
    + cbn [live]. rewrite Hkn, nkey_eqb_refl. destruct w; reflexivity.
  - intros m w y Hm Hap Hy. apply in_app_or in Hm. destruct Hm as [Hm|[<-|[]]]; [apply (I0 m w y Hm Hap Hy)|].
    destruct w; contradiction.
  - intros rd' w x.
    assert (Ht : table (set_nbrs (r_nbrs (bump 3 st) ++ [n]) st1) rd' w = table st1 rd' w) by reflexivity.
    rewrite Ht, V6, IT, expected_app, cnt_app.
    assert (cnt x (expected [n] rd' w) = 0%nat).
    { unfold expected. cbn [flat_map]. rewrite app_nil_r. unfold contrib.
      destruct (n_vrf n =? rd'); [destruct w; reflexivity|reflexivity]. }
    lia.
  - intros m Hm.
    assert (Hv : forall rd', vrf_exists rd' (set_nbrs (r_nbrs (bump 3 st) ++ [n]) st1) = vrf_exists rd' st1)
      by reflexivity.
    rewrite Hv. apply in_app_or in Hm. destruct Hm as [Hm|[<-|[]]].
    + apply V5. apply IV. exact Hm.
    + exact V4.
  - rewrite V2. exact IG.
Qed.

Lemma dispose_nbr_frame : forall n st,
  r_nbrs (dispose_nbr n st) = r_nbrs st /\ r_ignored (dispose_nbr n st) = r_ignored st /\
  r_closed (dispose_nbr n st) = r_closed st /\
  (forall rd', vrf_exists rd' (dispose_nbr n st) = vrf_exists rd' st).
Proof.
  intros n st. unfold dispose_nbr.
  destruct (loc_remove_all_frame (n_vrf n) false (n_src n) (n_rib4 n) st) as (A & B & C & D).
  destruct (loc_remove_all_frame (n_vrf n) true (n_src n) (n_rib6 n)
              (loc_remove_all (n_vrf n) false (n_src n) (n_rib4 n) st)) as (A' & B' & C' & D').
  repeat split; try congruence; try (intros rd'; rewrite D', D; reflexivity).
Qed.

Lemma table_dispose_nbr : forall n st rd' w x,
  cnt x (table (dispose_nbr n st) rd' w) = (cnt x (table st rd' w) - cnt x (contrib rd' w n))%nat.
Proof.
  intros n st rd' w x. unfold dispose_nbr. rewrite !table_loc_remove_all. unfold contrib.
  destruct (N.eqb (n_vrf n) rd'); cbn [andb cnt]; [|lia].
  destruct w; cbn [Bool.eqb rib_of cnt]; lia.
Qed.

Lemma peer_down_inv : forall st tr h rs data,
  inv st tr ->
  inv (peer_down h st) (rev (interp tr (MPeerDown h rs data)) ++ tr) /\
  r_closed (peer_down h st) = r_closed st.
Proof.
  intros st tr h rs data I. unfold peer_down. pose proof (bump_inv 2 st tr I) as I2.
  assert (Hig : r_ignored (bump 2 st) = []) by apply (i_ign _ _ I2).
  rewrite Hig. cbn [mem_src]. unfold interp, BMPMirrorSpec.interp, key_of_pph. cbn [rev app].
  set (k := (p_rd h, p_addr h)). set (st0 := bump 2 st) in *.
  assert (Hc0 : r_closed st0 = r_closed st) by reflexivity.
  destruct I2 as [IK IS IS' ISR IR I0 IT IV IG].
  unfold neighbor_down. destruct (find_nbr k (r_nbrs st0)) as [n|] eqn:F.
  - apply find_nbr_in in F. destruct F as (Hn & Hk).
    destruct (dispose_nbr_frame n st0) as (D1 & D2 & D3 & D4).
    destruct (del_nbr_keys k (r_nbrs st0) IK) as (K1 & K2 & K3).
    split; [|cbn [r_closed set_nbrs]; congruence].
    constructor; cbn [r_nbrs r_ignored set_nbrs]; rewrite ?D1.
    + exact K1.
    + intros m Hm. cbn [sess]. assert (nkey_eqb k (key_of m) = false) by (apply nkey_eqb_neq; intros E; apply (K2 m Hm); congruence).
      rewrite H. apply IS. eapply del_nbr_in; eauto.
    + intros k0 x Hx. cbn [sess] in Hx. destruct (nkey_eqb k k0) eqn:E; [discriminate|].
      destruct (IS' k0 x Hx) as (m & A & B). exists m. split; [|assumption].
      apply K3; [assumption|]. apply nkey_eqb_neq in E. congruence.
    + intros m Hm. apply ISR. eapply del_nbr_in; eauto.
    + intros m w y Hm. cbn [live]. assert (nkey_eqb k (key_of m) = false) by (apply nkey_eqb_neq; intros E; apply (K2 m Hm); congruence).
      rewrite H. apply IR. eapply del_nbr_in; eauto.
    + intros m w y Hm. apply I0. eapply del_nbr_in; eauto.
    + intros rd' w x.
      assert (Ht : table (set_nbrs (del_nbr k (r_nbrs st0)) (dispose_nbr n st0)) rd' w = table (dispose_nbr n st0) rd' w) by reflexivity.
      rewrite Ht, table_dispose_nbr, IT. rewrite <- Hk.
      pose proof (expected_del_nbr n (r_nbrs st0) rd' w x IK Hn). lia.
    + intros m Hm.
      assert (Hv : forall rd', vrf_exists rd' (set_nbrs (del_nbr k (r_nbrs st0)) (dispose_nbr n st0)) = vrf_exists rd' st0)
        by (intros rd'; rewrite <- D4; reflexivity).
      rewrite Hv. apply IV. eapply del_nbr_in; eauto.
    + congruence.
  - pose proof (find_nbr_none _ _ F) as Hf. split; [|exact Hc0].
    constructor; auto.
    + intros m Hm. cbn [sess]. assert (nkey_eqb k (key_of m) = false) by (apply nkey_eqb_neq; intros E; apply (Hf m Hm); congruence).
      rewrite H. apply IS. exact Hm.
    + intros k0 x Hx. cbn [sess] in Hx. destruct (nkey_eqb k k0) eqn:E; [discriminate|]. apply (IS' k0 x Hx).
    + intros m w y Hm. cbn [live]. assert (nkey_eqb k (key_of m) = false) by (apply nkey_eqb_neq; intros E; apply (Hf m Hm); congruence).
      rewrite H. apply IR. exact Hm.
Qed.

Lemma route_monitoring_inv : forall st tr h upd,
  inv st tr -> wf_msg tr (MRouteMon h upd) = true ->
  inv (route_monitoring upd_apply c h upd st) (rev (interp tr (MRouteMon h upd)) ++ tr) /\
  r_closed (route_monitoring upd_apply c h upd st) = r_closed st.
Proof.
  intros st tr h upd I Hwf. unfold route_monitoring. pose proof (bump_inv 0 st tr I) as I0.
  unfold interp, BMPMirrorSpec.interp.
  destruct ((ignore_pre c && negb (flag_l h)) || (ignore_post c && flag_l h));
    [cbn [rev app]; split; [exact I0|reflexivity]|].
  rewrite (i_ign _ _ I0). cbn [mem_src].
  unfold wf_msg, BMPMirrorSpec.wf_msg in Hwf. apply andb_true_iff in Hwf. destruct Hwf as (_ & Hwf).
  unfold key_of_pph in *. set (k := (p_rd h, p_addr h)) in *.
  destruct (sess tr k) as [[[[[s a4] a6] ib] rid]|] eqn:Hs.
  - destruct (inv_find _ _ _ _ I0 Hs) as (n & F & Hn & Hk & Hx). rewrite F. inversion Hx; subst s a4 a6 ib rid.
    rewrite <- map_rev. rewrite map_rev.
    destruct (apply_events_inv (upd_apply (n_ap4 n) (n_ap6 n) (negb (flag_a h)) upd) (bump 0 st) tr k _ _ _ _ _ I0 Hs Hwf)
      as (A & B).
    split; [exact A|]. rewrite B. reflexivity.
  - rewrite (inv_find_none _ _ _ I0 Hs). cbn [rev app]. split; [exact I0|reflexivity].
Qed.

End Handlers.

(* ------------------------------------------------------------------ resets *)

Lemma loc_remove_no_vrfs : forall rd v6 e st, r_vrfs st = [] -> loc_remove rd v6 e st = st.
Proof. intros rd v6 e st H. unfold loc_remove. rewrite H. reflexivity. Qed.

Lemma loc_remove_all_no_vrfs : forall rd v6 s xs st, r_vrfs st = [] -> loc_remove_all rd v6 s xs st = st.
Proof.
  intros rd v6 s xs. unfold loc_remove_all. induction xs as [|x xs IH]; intros st H; cbn [fold_left]; [reflexivity|].
  rewrite loc_remove_no_vrfs by exact H. apply IH. exact H.
Qed.

Lemma dispose_all_spec : forall st,
  r_nbrs (dispose_all st) = [] /\ r_ignored (dispose_all st) = r_ignored st /\
  r_closed (dispose_all st) = r_closed st /\ (r_vrfs st = [] -> r_vrfs (dispose_all st) = []).
Proof.
  intros st. unfold dispose_all. cbn [r_nbrs r_ignored r_closed r_vrfs set_nbrs].
  generalize (r_nbrs st) as l. intros l. revert st. induction l as [|n l IH]; intros st; cbn [fold_left].
  - auto.
  - destruct (IH (dispose_nbr n st)) as (_ & B & C & D).
    destruct (dispose_nbr_frame n st) as (_ & B' & C' & _).
    split; [reflexivity|]. split; [congruence|]. split; [congruence|].
    intros Hv. apply D. unfold dispose_nbr. rewrite !loc_remove_all_no_vrfs; auto.
    rewrite loc_remove_all_no_vrfs; auto.
Qed.

Lemma cleanup_spec : forall st,
  r_nbrs (cleanup st) = [] /\ r_vrfs (cleanup st) = [] /\ r_ignored (cleanup st) = r_ignored st /\
  r_closed (cleanup st) = r_closed st.
Proof.
  intros st. unfold cleanup. destruct (dispose_all_spec (dispose_vrfs st)) as (A & B & C & D).
  repeat split; auto.
Qed.

Lemma inv_reset : forall st tr, r_nbrs st = [] -> r_vrfs st = [] -> r_ignored st = [] -> inv st (EReset :: tr).
Proof.
  intros st tr H1 H2 H3. constructor; rewrite ?H1; cbn [map]; auto; try (intros; contradiction).
  - constructor.
  - intros k x Hx. cbn [sess] in Hx. discriminate.
  - intros rd v6 x. unfold table. rewrite H2. reflexivity.
Qed.

(* ------------------------------------------------------------------ one message, one action, a history *)

Lemma initiation_frame : forall ts st,
  r_nbrs (fold_left (fun acc t => if t_type t =? 2 then set_name (t_info t) acc else acc) ts st) = r_nbrs st /\
  r_vrfs (fold_left (fun acc t => if t_type t =? 2 then set_name (t_info t) acc else acc) ts st) = r_vrfs st /\
  r_ignored (fold_left (fun acc t => if t_type t =? 2 then set_name (t_info t) acc else acc) ts st) = r_ignored st /\
  r_closed (fold_left (fun acc t => if t_type t =? 2 then set_name (t_info t) acc else acc) ts st) = r_closed st.
Proof.
  induction ts as [|t ts IH]; intros st; cbn [fold_left]; [auto|].
  destruct (IH (if t_type t =? 2 then set_name (t_info t) st else st)) as (A & B & C & D).
  destruct (t_type t =? 2); auto.
Qed.

Lemma observe_frame : forall id rd v6 st,
  r_nbrs (observe id rd v6 st) = r_nbrs st /\ r_ignored (observe id rd v6 st) = r_ignored st /\
  r_closed (observe id rd v6 st) = r_closed st /\
  (forall rd' w, table (observe id rd v6 st) rd' w = table st rd' w) /\
  (forall rd', vrf_exists rd' (observe id rd v6 st) = vrf_exists rd' st).
Proof.
  intros id rd v6 st. unfold observe. destruct (find_vrf rd (r_vrfs st)) as [v|] eqn:F; [|auto 6].
  cbn [r_nbrs r_ignored r_closed set_log set_vrfs]. repeat split; auto.
  - intros rd' w. unfold table. cbn [r_vrfs set_log set_vrfs]. rewrite find_put_vrf.
    assert (Hrd : v_rd (set_obs v6 (id :: obs v6 v) v) = rd)
      by (destruct v6; cbn [set_obs v_rd]; apply (find_vrf_rd _ _ _ F)).
    rewrite Hrd. destruct (rd =? rd') eqn:E; [|reflexivity].
    assert (rd' = rd) by lia. subst rd'. rewrite F. destruct v6, w; reflexivity.
  - intros rd'. unfold vrf_exists. cbn [r_vrfs set_log set_vrfs]. rewrite find_put_vrf.
    assert (Hrd : v_rd (set_obs v6 (id :: obs v6 v) v) = rd)
      by (destruct v6; cbn [set_obs v_rd]; apply (find_vrf_rd _ _ _ F)).
    rewrite Hrd. destruct (rd =? rd') eqn:E; [|reflexivity].
    destruct (find_vrf rd' (r_vrfs st)); reflexivity.
Qed.

Section History.
Variable open_decode : bytes -> option open_info.
Variable upd_apply : bool -> bool -> bool -> bytes -> list uevent.
Variable c : cfg.
Hypothesis Hign : ignore_asns c = [].

Let interp := interp open_decode upd_apply c.
Let wf_msg := wf_msg open_decode upd_apply c.

(* the state after serve has handled one decoded message *)
Definition post (st : rstate) (m : bmp_msg) : rstate :=
  let st' := snd (process_msg open_decode upd_apply c st m) in
  if r_closed st' then cleanup st' else st'.

Definition is_term (m : bmp_msg) : bool := match m with MTerm _ => true | _ => false end.

Lemma post_inv : forall st tr m,
  inv st tr -> r_closed st = false -> wf_msg tr m = true ->
  inv (post st m) (rev (interp tr m) ++ tr) /\ r_closed (post st m) = is_term m.
Proof.
  intros st tr m I Hc Hwf. unfold post. destruct m as [h upd|h cnt0 stats|h rs data|h lo lp rp sent rcvd info|ts|ts|h ts];
    cbn [process_msg snd is_term].
  - destruct (route_monitoring_inv open_decode upd_apply c st tr h upd I Hwf) as (A & B).
    rewrite B, Hc. split; [exact A|rewrite B; exact Hc].
  - rewrite Hc. cbn [rev app]. split; [exact I|exact Hc].
  - destruct (peer_down_inv open_decode upd_apply c st tr h rs data I) as (A & B).
    rewrite B, Hc. split; [exact A|rewrite B; exact Hc].
  - destruct (peer_up_inv open_decode upd_apply c Hign st tr h lo lp rp sent rcvd info I Hwf) as (A & B).
    rewrite B, Hc. split; [exact A|rewrite B; exact Hc].
  - unfold initiation. destruct (initiation_frame ts (bump 4 st)) as (A & B & C & D).
    rewrite D. cbn [r_closed bump set_counters]. rewrite Hc. cbn [rev app].
    split; [|rewrite D; exact Hc]. apply (inv_ext st); auto.
  - unfold termination. rewrite term_tlvs_never_panic. cbn [snd].
    destruct (dispose_all_spec (set_closed true (bump 5 st))) as (A & B & C & D).
    rewrite C. cbn [r_closed set_closed].
    destruct (cleanup_spec (dispose_all (set_closed true (bump 5 st)))) as (E & F & G & H).
    split; [|rewrite H, C; reflexivity].
    cbn [rev app]. apply inv_reset; auto. rewrite G, B. cbn [r_ignored set_closed bump set_counters].
    apply (i_ign _ _ I).
  - cbn [r_closed bump set_counters]. rewrite Hc. cbn [rev app]. split; [|exact Hc]. apply (inv_ext st); auto.
Qed.

Lemma step_frame : forall st f m, r_closed st = false ->
  frame_msg f = Some m ->
  exists k n, step open_decode upd_apply c st (AFrame f) = SDone (post st m) k n.
Proof.
  intros st f m Hc Hf. unfold frame_msg in Hf.
  destruct (recv f) as [m0 rest k|k|k|] eqn:ER; try discriminate.
  destruct rest as [|b rest]; [|discriminate].
  destruct (decode m0) as [r k2] eqn:ED. destruct r as [x| | |]; try discriminate. inversion Hf; subst x.
  pose proof (recv_spec f) as RS. rewrite ER in RS. destruct RS as (R1 & R2 & _).
  unfold min_len in R1. rewrite len_nil in R2.
  cbn [step]. cbn [run_stream]. rewrite Hc. cbn [negb andb].
  destruct (len f =? 0) eqn:E0; [lia|]. rewrite ER.
  unfold process. rewrite ED.
  pose proof (process_msg_never_panics open_decode upd_apply c st m) as PN.
  unfold post. destruct (process_msg open_decode upd_apply c st m) as [o st'] eqn:EP. cbn [fst snd] in *. subst o.
  destruct (length f) as [|j] eqn:EL; [unfold len in *; lia|].
  cbn [run_stream]. destruct (r_closed st'); [eauto|].
  cbn [negb andb]. rewrite len_nil. cbn [N.eqb]. eauto.
Qed.

Definition trace_from (tr : list tevent) (acts : list action) : list tevent :=
  fold_left (fun tr a => rev (interp_action open_decode upd_apply c tr a) ++ tr) acts tr.

Lemma run_inv : forall acts st tr closed,
  inv st tr -> r_closed st = closed -> wf_from open_decode upd_apply c tr closed acts = true ->
  exists st', run open_decode upd_apply c st acts = Some st' /\ inv st' (trace_from tr acts).
Proof.
  induction acts as [|a acts IH]; intros st tr closed I Hc Hwf.
  - exists st. split; [reflexivity|exact I].
  - cbn [wf_from] in Hwf. cbn [run]. unfold trace_from. cbn [fold_left]. fold (trace_from).
    destruct a as [f|id rd v6|].
    + apply andb_true_iff in Hwf. destruct Hwf as (Hcl & Hwf).
      assert (Hcf : closed = false) by (destruct closed; [discriminate|reflexivity]). rewrite Hcf in Hc.
      destruct (frame_msg f) as [m|] eqn:Ef; [|discriminate].
      apply andb_true_iff in Hwf. destruct Hwf as (Hm & Hwf).
      destruct (step_frame st f m Hc Ef) as (k & n & Es). rewrite Es.
      destruct (post_inv st tr m I Hc Hm) as (I' & Hc').
      cbn [interp_action]. rewrite Ef.
      assert (Hcl2 : (match m with MTerm _ => true | _ => false end) = is_term m) by reflexivity.
      rewrite Hcl2 in Hwf.
      exact (IH (post st m) _ (is_term m) I' Hc' Hwf).
    + cbn [step]. destruct (observe_frame id rd v6 st) as (A & B & C & D & E).
      cbn [interp_action rev app].
      apply (IH (observe id rd v6 st) tr closed); [|congruence|exact Hwf].
      apply (inv_ext_gen st); auto.
    + cbn [step]. destruct (cleanup_spec st) as (A & B & C & D).
      cbn [interp_action rev app].
      apply (IH (set_closed false (cleanup st)) (EReset :: tr) false); [|reflexivity|exact Hwf].
      apply inv_reset; cbn [r_nbrs r_vrfs r_ignored set_closed]; auto.
      rewrite C. apply (i_ign _ _ I).
Qed.

End History.

Lemma inv_init : inv init [].
Proof.
  constructor; cbn [init r_nbrs r_ignored map]; auto; try (intros; contradiction).
  - constructor.
  - intros k x H. discriminate.
Qed.

(* ------------------------------------------------------------------ what the invariant says about the tables *)

Lemma in_cnt_pos : forall e l, In e l -> (cnt e l > 0)%nat.
Proof.
  intros e. induction l as [|x l IH]; intros H; [contradiction|]. cbn [cnt].
  destruct H as [->|H]; [rewrite entry_eqb_refl; cbn [b2n]; lia|specialize (IH H); lia].
Qed.

Lemma cnt_pos_in : forall e l, (cnt e l > 0)%nat -> In e l.
Proof.
  intros e. induction l as [|x l IH]; cbn [cnt]; intros H; [lia|].
  destruct (entry_eqb x e) eqn:E; [left; apply entry_eqb_eq; exact E|right; apply IH; cbn [b2n] in H; lia].
Qed.

(* a route of an up peer is in its VRF's table exactly when it is live *)
Lemma inv_mirror_up : forall st tr k s a4 a6 ib rid v6 y,
  inv st tr -> sess tr k = Some (s, a4, a6, ib, rid) ->
  cnt (tag s y) (table st (fst k) v6) = b2n (live tr k v6 y).
Proof.
  intros st tr k s a4 a6 ib rid v6 y I Hs.
  destruct (inv_find _ _ _ _ I Hs) as (n & F & Hn & Hk & Hx). inversion Hx; subst s a4 a6 ib rid.
  rewrite (i_tab _ _ I).
  rewrite (expected_single (r_nbrs st) n (fst k) v6 (tag (n_src n) y) Hn (i_keys _ _ I)).
  - unfold contrib. assert (n_vrf n = fst k) by (rewrite <- Hk; reflexivity). rewrite H, N.eqb_refl.
    rewrite cnt_tag_map. rewrite (i_rib _ _ I n v6 y Hn). rewrite Hk. reflexivity.
  - intros m Hm Hkm. unfold contrib. destruct (n_vrf m =? fst k) eqn:E; [|reflexivity].
    unfold tag. apply cnt_tag_other_src. intros Es.
    pose proof (i_src _ _ I m Hm) as A. pose proof (i_src _ _ I n Hn) as B.
    apply Hkm. unfold key_of. rewrite <- A, <- B, Es.
    assert (n_vrf m = n_vrf n) by (assert (n_vrf n = fst k) by (rewrite <- Hk; reflexivity); lia).
    congruence.
Qed.

(* and nothing else is in any table: every entry is a live route of a peer that is up *)
Lemma inv_mirror_only : forall st tr rd v6 e,
  inv st tr -> In e (table st rd v6) ->
  exists addr a4 a6 ib rid,
    sess tr (rd, addr) = Some (fst (fst e), a4, a6, ib, rid) /\
    live tr (rd, addr) v6 (snd (fst e), snd e) = true.
Proof.
  intros st tr rd v6 e I Hin. apply in_cnt_pos in Hin. rewrite (i_tab _ _ I) in Hin.
  destruct (expected_pos _ _ _ _ Hin) as (n & Hn & Hc). unfold contrib in Hc.
  destruct (n_vrf n =? rd) eqn:E; [|cbn in Hc; lia].
  apply cnt_pos_in in Hc. apply in_map_iff in Hc. destruct Hc as (y & Hy & Hyin). subst e.
  exists (n_addr n), (n_ap4 n), (n_ap6 n), (nbr_ibgp n), (n_rid n). unfold tag. cbn [fst snd].
  assert (Hk : key_of n = (rd, n_addr n)) by (unfold key_of; f_equal; lia).
  rewrite <- Hk. split; [apply (i_sess _ _ I n Hn)|].
  pose proof (i_rib _ _ I n v6 y Hn) as R.
  assert (cntk y (rib_of v6 n) > 0)%nat.
  { destruct (cntk y (rib_of v6 n)) eqn:C; [|lia]. exfalso. eapply cntk_zero_not_in; eauto. }
  destruct y as [yp yi]. cbn [fst snd]. destruct (live tr (key_of n) v6 (yp, yi)); [reflexivity|cbn [b2n] in R; lia].
Qed.

Section Mirror.
Variable open_decode : bytes -> option open_info.
Variable upd_apply : bool -> bool -> bool -> bytes -> list uevent.
Variable c : cfg.
Hypothesis Hign : ignore_asns c = [].

Theorem mirror : forall acts,
  wf open_decode upd_apply c acts = true ->
  exists st, run open_decode upd_apply c init acts = Some st /\
    (forall k s a4 a6 ib rid v6 y, sess (trace open_decode upd_apply c acts) k = Some (s, a4, a6, ib, rid) ->
       cnt (tag s y) (table st (fst k) v6) = b2n (live (trace open_decode upd_apply c acts) k v6 y)) /\
    (forall rd v6 e, In e (table st rd v6) ->
       exists addr a4 a6 ib rid,
         sess (trace open_decode upd_apply c acts) (rd, addr) = Some (fst (fst e), a4, a6, ib, rid) /\
         live (trace open_decode upd_apply c acts) (rd, addr) v6 (snd (fst e), snd e) = true).
Proof.
  intros acts Hwf. unfold wf in Hwf.
  destruct (run_inv open_decode upd_apply c Hign acts init [] false inv_init eq_refl Hwf) as (st & R & I).
  exists st. split; [exact R|]. unfold trace. unfold trace_from in I. split.
  - intros. eapply inv_mirror_up; eauto.
  - intros. eapply inv_mirror_only; eauto.
Qed.

(* after a peer down, a termination message or the loss of the connection nothing of the peer /
   of the session remains *)
Corollary nothing_remains : forall acts st,
  wf open_decode upd_apply c acts = true ->
  run open_decode upd_apply c init acts = Some st ->
  (* tables hold only routes of peers whose session is up ... *)
  (forall rd v6 e, In e (table st rd v6) ->
     exists addr x, sess (trace open_decode upd_apply c acts) (rd, addr) = Some x /\ fst (fst (fst (fst x))) = fst (fst e)) /\
  (* ... a peer whose last word was peer down has none ... *)
  (forall k tr', trace open_decode upd_apply c acts = EDown k :: tr' ->
     forall v6 e, In e (table st (fst k) v6) ->
     exists addr x, addr <> snd k /\ sess tr' (fst k, addr) = Some x) /\
  (* ... and after a termination message / connection loss there are no neighbors and no tables *)
  (forall tr', trace open_decode upd_apply c acts = EReset :: tr' ->
     r_nbrs st = [] /\ forall rd v6, table st rd v6 = []).
Proof.
  intros acts st Hwf Hrun. unfold wf in Hwf.
  destruct (run_inv open_decode upd_apply c Hign acts init [] false inv_init eq_refl Hwf) as (st' & R & I).
  rewrite Hrun in R. inversion R; subst st'. unfold trace_from in I. fold (trace open_decode upd_apply c acts) in I.
  split; [|split].
  - intros rd v6 e Hin. destruct (inv_mirror_only _ _ _ _ _ I Hin) as (addr & a4 & a6 & ib & rid & A & _).
    exists addr, (fst (fst e), a4, a6, ib, rid). split; [exact A|reflexivity].
  - intros k tr' Ht v6 e Hin. destruct (inv_mirror_only _ _ _ _ _ I Hin) as (addr & a4 & a6 & ib & rid & A & _).
    rewrite Ht in A. cbn [sess] in A. destruct (nkey_eqb k (fst k, addr)) eqn:E; [discriminate|].
    exists addr, (fst (fst e), a4, a6, ib, rid). split; [|exact A].
    intros Ea. subst addr. destruct k as [k1 k2]. cbn [fst snd] in E. rewrite nkey_eqb_refl in E. discriminate.
  - intros tr' Ht. split.
    + destruct (r_nbrs st) as [|n l] eqn:En; [reflexivity|]. exfalso.
      pose proof (i_sess _ _ I n) as H. rewrite En in H. specialize (H (or_introl eq_refl)).
      rewrite Ht in H. cbn [sess] in H. discriminate.
    + intros rd v6. destruct (table st rd v6) as [|e t] eqn:Et; [reflexivity|]. exfalso.
      assert (Hin : In e (table st rd v6)) by (rewrite Et; left; reflexivity).
      destruct (inv_mirror_only _ _ _ _ _ I Hin) as (addr & a4 & a6 & ib & rid & A & _).
      rewrite Ht in A. cbn [sess] in A. discriminate.
Qed.

End Mirror.

(* ------------------------------------------------------------------ the statement, and why it needs its guard *)

Definition mirror_holds (open_decode : bytes -> option open_info)
    (upd_apply : bool -> bool -> bool -> bytes -> list uevent) (c : cfg) (acts : list action) : Prop :=
  exists st, run open_decode upd_apply c init acts = Some st /\
    (forall k s a4 a6 ib rid v6 y, sess (trace open_decode upd_apply c acts) k = Some (s, a4, a6, ib, rid) ->
       cnt (tag s y) (table st (fst k) v6) = b2n (live (trace open_decode upd_apply c acts) k v6 y)) /\
    (forall rd v6 e, In e (table st rd v6) ->
       exists addr a4 a6 ib rid,
         sess (trace open_decode upd_apply c acts) (rd, addr) = Some (fst (fst e), a4, a6, ib, rid) /\
         live (trace open_decode upd_apply c acts) (rd, addr) v6 (snd (fst e), snd e) = true).

Theorem mirror_partial : forall open_decode upd_apply c, ignore_asns c = [] ->
  forall acts, wf open_decode upd_apply c acts = true -> mirror_holds open_decode upd_apply c acts.
Proof. intros od ua c H acts Hwf. exact (mirror od ua c H acts Hwf). Qed.

(* Witness: IgnorePeerASNs = [65010]. Peer 10.0.0.2 of VRF 0 has AS 65010 and is ignored; the router
   remembers ignored peers by address only, so the peer 10.0.0.2 (AS 65011) of VRF 1 is silenced as
   well: its announcement of 1.0.0.0/24 is live but not in the table of VRF 1. *)
Definition wit_open (b : bytes) : option open_info := Some (mk_open (be (firstn 2 (skipn 20 b))) 1 [] []).
Definition wit_apply (_ _ _ : bool) (b : bytes) : list uevent :=
  match b with [1; p; i] => [UAnn false (p, 24) i (mk_pa false [65011] 0 [])] | _ => [] end.
Definition wit_cfg : cfg := mk_cfg [65010] false false.
Definition wit_pph (rd aslo : N) : bytes :=
  [0; 0] ++ repeat 0 7 ++ [rd] ++ repeat 0 12 ++ [10; 0; 0; 2] ++ [0; 0; 253; aslo] ++ repeat 0 12.
Definition wit_openmsg (lo : N) : bytes := repeat 255 16 ++ [0; 29; 1; 4; 253; lo; 0; 180; 1; 1; 1; 1; 0].
Definition wit_up (rd aslo : N) : bytes :=
  [3; 0; 0; 0; 126; 3] ++ wit_pph rd aslo ++ repeat 0 16 ++ [0; 179; 156; 64] ++ wit_openmsg 233 ++ wit_openmsg aslo.
Definition wit_rm (rd aslo : N) : bytes := [3; 0; 0; 0; 51; 0] ++ wit_pph rd aslo ++ [1; 1; 0].
Definition wit_hist : list action := [AFrame (wit_up 0 242); AFrame (wit_up 1 243); AFrame (wit_rm 1 243)].

Theorem mirror_refuted :
  exists open_decode upd_apply c acts,
    wf open_decode upd_apply c acts = true /\ ~ mirror_holds open_decode upd_apply c acts.
Proof.
  exists wit_open, wit_apply, wit_cfg, wit_hist. split; [vm_compute; reflexivity|].
  intros (st & R & H1 & _). vm_compute in R. injection R as <-.
  specialize (H1 (1, 167772162) (false, 167772162) false false false 1 false ((1, 24), 0)).
  vm_compute in H1. specialize (H1 eq_refl). discriminate.
Qed.

(* Second witness, for the other guard of wf: a path the Adj-RIB-In of the pseudo session hides. The
   eBGP peer 10.0.0.2 of VRF 1 reports 1.0.0.0/24 with an empty AS_PATH: the route is live, the table
   does not hold it (AdjRIBIn.validatePath: HiddenReasonEmptyASPath). *)
Definition wit2_apply (_ _ _ : bool) (b : bytes) : list uevent :=
  match b with [1; p; i] => [UAnn false (p, 24) i (mk_pa true [] 0 [])] | _ => [] end.
Definition wit2_cfg : cfg := mk_cfg [] false false.
Definition wit2_hist : list action := [AFrame (wit_up 1 243); AFrame (wit_rm 1 243)].

Theorem mirror_hidden_refuted :
  exists open_decode upd_apply c acts,
    ignore_asns c = [] /\ ~ mirror_holds open_decode upd_apply c acts.
Proof.
  exists wit_open, wit2_apply, wit2_cfg, wit2_hist. split; [reflexivity|].
  intros (st & R & H1 & _). vm_compute in R. injection R as <-.
  specialize (H1 (1, 167772162) (false, 167772162) false false false 1 false ((1, 24), 0)).
  vm_compute in H1. specialize (H1 eq_refl). discriminate.
Qed.
