(* C08, part B: one RemovePath / AddPath call of the Loc-RIB, under the guards, keeps "table of the
   prefix = export view of the paths the session has been told about". *)
From Coq Require Import List NArith Bool Lia Permutation.
Import ListNotations.
From BioVerif Require Import Model.PathIDs Model.AdjRIBOut Model.LocView Spec.ExportViewSpec
  Proofs.PathIDsProofs Proofs.PathIDsInv Proofs.AroIDsProofs Proofs.ExportViewA.
Local Open Scope N_scope.

Lemma set_pid_same_strip : forall a b, set_pid 0 a = set_pid 0 b -> set_pid (b_pid a) b = a.
Proof. intros a b H. destruct a, b. unfold set_pid in *. cbn in *. inversion H. reflexivity. Qed.

Section Other.
  Variable P : Type.
  Variable apply : P -> N -> path -> option path.
  Variable s : sess.

  (* calls for one prefix leave the other prefixes and the current chain alone *)
  Lemma add_inner_other : forall a pfx pfx' p, pfx <> pfx' ->
    tbl_get pfx' (tbl (add_inner P s a pfx p)) = tbl_get pfx' (tbl a).
  Proof.
    intros a pfx pfx' p NE. unfold add_inner. destruct (s_addpath s).
    - destruct (path_hkey p); [|reflexivity].
      destruct (pid_add hkey hkey_eq_dec h (pm a)) as [m [i| |]]; cbn [tbl]; [|reflexivity|reflexivity].
      now apply tbl_get_add_other.
    - cbn [tbl]. rewrite tbl_get_add_other by assumption. now apply tbl_get_drop_other.
  Qed.

  Lemma add_inner_cur : forall a pfx p, cur (add_inner P s a pfx p) = cur a.
  Proof.
    intros. unfold add_inner. destruct (s_addpath s); [|reflexivity].
    destruct (path_hkey p); [|reflexivity].
    destruct (pid_add hkey hkey_eq_dec h (pm a)) as [m [i| |]]; reflexivity.
  Qed.

  Lemma remove_exported_other : forall a pfx pfx' p, pfx <> pfx' ->
    tbl_get pfx' (tbl (fst (remove_exported P s a pfx p))) = tbl_get pfx' (tbl a).
  Proof.
    intros a pfx pfx' p NE. unfold remove_exported.
    destruct (tbl_get pfx (tbl a)); [reflexivity|].
    destruct (s_addpath s).
    - destruct (find _ _); [|reflexivity].
      destruct (path_hkey p1); [|reflexivity].
      destruct (pid_release hkey hkey_eq_dec h (pm a)) as [m [i|]]; cbn [fst tbl with_tbl];
        now apply tbl_get_remove_other.
    - cbn [fst tbl]. now apply tbl_get_remove_other.
  Qed.

  Lemma remove_exported_cur : forall a pfx p, cur (fst (remove_exported P s a pfx p)) = cur a.
  Proof.
    intros. unfold remove_exported.
    destruct (tbl_get pfx (tbl a)); [reflexivity|].
    destruct (s_addpath s); [|reflexivity].
    destruct (find _ _); [|reflexivity].
    destruct (path_hkey p1); [|reflexivity].
    destruct (pid_release hkey hkey_eq_dec h (pm a)) as [m [i|]]; reflexivity.
  Qed.

  Lemma remove_path_other : forall a pfx pfx' p, pfx <> pfx' ->
    tbl_get pfx' (tbl (fst (remove_path P apply s a pfx p))) = tbl_get pfx' (tbl a).
  Proof.
    intros a pfx pfx' p NE. unfold remove_path. destruct (should_propagate s p); [|reflexivity].
    destruct (apply (cur a) pfx p); [now apply remove_exported_other|reflexivity].
  Qed.

  Lemma remove_path_cur : forall a pfx p, cur (fst (remove_path P apply s a pfx p)) = cur a.
  Proof.
    intros. unfold remove_path. destruct (should_propagate s p); [|reflexivity].
    destruct (apply (cur a) pfx p); [apply remove_exported_cur|reflexivity].
  Qed.

  Lemma wipe_other_cur : forall pfx pfx' l a, pfx <> pfx' ->
    let a' := fold_left (fun acc sp => fst (remove_path P apply s acc pfx sp)) l a in
    tbl_get pfx' (tbl a') = tbl_get pfx' (tbl a) /\ cur a' = cur a.
  Proof.
    intros pfx pfx' l. induction l as [|x l IH]; intros a NE; cbn [fold_left]; [auto|].
    destruct (IH (fst (remove_path P apply s a pfx x)) NE) as [A B]. cbn zeta in *.
    rewrite A, B. split; [now apply remove_path_other|apply remove_path_cur].
  Qed.

  Lemma add_path_other : forall a pfx pfx' p, pfx <> pfx' ->
    tbl_get pfx' (tbl (add_path P apply s a pfx p)) = tbl_get pfx' (tbl a).
  Proof.
    intros a pfx pfx' p NE. unfold add_path. destruct (redistribute s p) as [r b].
    destruct (should_propagate s (PBgp r b)).
    - destruct (rewrite s r b); [|reflexivity].
      destruct (apply (cur a) pfx (PBgp r b0)); [now apply add_inner_other|reflexivity].
    - destruct (s_addpath s); [|reflexivity]. unfold wipe. now apply wipe_other_cur.
  Qed.

  Lemma add_path_cur : forall a pfx p, cur (add_path P apply s a pfx p) = cur a.
  Proof.
    intros a pfx p. unfold add_path. destruct (redistribute s p) as [r b].
    destruct (should_propagate s (PBgp r b)).
    - destruct (rewrite s r b); [|reflexivity].
      destruct (apply (cur a) pfx (PBgp r b0)); [apply add_inner_cur|reflexivity].
    - destruct (s_addpath s); [|reflexivity]. unfold wipe.
      destruct (N.eq_dec pfx (pfx + 1)) as [E|NE]; [lia|].
      exact (proj2 (wipe_other_cur pfx (pfx + 1) _ a NE)).
  Qed.
End Other.

Section Guarded.
  Variable P : Type.
  Variable apply : P -> N -> path -> option path.
  Variable s : sess.
  Variable c : P.
  Variable h : list (N * list path).

  Notation f := (apply c).
  Hypothesis G : guards f s h.

  Definition E (pfx : N) (p : path) : option path := export_with f s pfx p.

  (* a path the Loc-RIB told the session about, some time in the history *)
  Definition inh (pfx : N) (p : path) : Prop := exists l, In (pfx, l) h /\ In p l.

  Lemma inh_bgp : forall pfx p, inh pfx p -> exists b, p = PBgp 0 b.
  Proof. intros pfx p [l [A B]]. eapply (g_bgp f s h G); eassumption. Qed.

  Lemma E_bgp : forall pfx b,
    E pfx (PBgp 0 b) =
    if should_propagate s (PBgp 0 b)
    then match rewrite s 0 b with Some _ => f pfx (PBgp 0 b) | None => None end
    else None.
  Proof.
    intros pfx b. unfold E, export_with. cbn [redistribute].
    destruct (should_propagate s (PBgp 0 b)); [|reflexivity].
    destruct (rewrite s 0 b) as [b'|] eqn:R; [|reflexivity].
    now rewrite (g_transparent f s h G 0 b b' R).
  Qed.

  Lemma E_some_f : forall pfx b q, E pfx (PBgp 0 b) = Some q -> f pfx (PBgp 0 b) = Some q.
  Proof.
    intros pfx b q H. rewrite E_bgp in H.
    destruct (should_propagate s (PBgp 0 b)); [|discriminate].
    destruct (rewrite s 0 b); [exact H|discriminate].
  Qed.

  Lemma E_is_bgp : forall pfx b q, E pfx (PBgp 0 b) = Some q -> exists r' b', q = PBgp r' b'.
  Proof. intros pfx b q H. apply E_some_f in H. eapply (g_fbgp f s h G); eassumption. Qed.

  Lemma add_path_E : forall a pfx b, cur a = c ->
    add_path P apply s a pfx (PBgp 0 b) =
    match E pfx (PBgp 0 b) with
    | Some q => add_inner P s a pfx q
    | None => if should_propagate s (PBgp 0 b) then a else if s_addpath s then wipe P apply s a pfx else a
    end.
  Proof.
    intros a pfx b Hc. unfold add_path. cbn [redistribute]. rewrite E_bgp, Hc.
    destruct (should_propagate s (PBgp 0 b)); [|reflexivity].
    destruct (rewrite s 0 b) as [b'|] eqn:R; [|reflexivity].
    rewrite (g_transparent f s h G 0 b b' R).
    destruct (f pfx (PBgp 0 b)); reflexivity.
  Qed.

  (* ---------------------------------------------------------------- best only *)

  Section BestOnly.
    Hypothesis Hbo : s_addpath s = false.

    Lemma best_remove : forall a pfx b, cur a = c ->
      tbl_get pfx (tbl a) = export_view f s pfx [PBgp 0 b] ->
      tbl_get pfx (tbl (fst (remove_path P apply s a pfx (PBgp 0 b)))) = [].
    Proof.
      intros a pfx b Hc HT. unfold export_view in HT. cbn [flat_map] in HT. rewrite app_nil_r in HT.
      fold (E pfx (PBgp 0 b)) in HT.
      unfold remove_path. rewrite Hc.
      destruct (should_propagate s (PBgp 0 b)) eqn:SP.
      - destruct (f pfx (PBgp 0 b)) as [q|] eqn:F.
        + unfold remove_exported.
          destruct (tbl_get pfx (tbl a)) as [|e T] eqn:TG; [cbn [fst]; exact TG|].
          rewrite Hbo. cbn [fst tbl]. rewrite tbl_get_remove_same, TG.
          (* the table holds E = Some q: the single entry is q itself *)
          rewrite E_bgp, SP in HT. destruct (rewrite s 0 b); [|discriminate].
          rewrite F in HT. cbn [opt_list] in HT. inversion HT; subst e T.
          destruct (g_fbgp f s h G _ _ _ _ F) as [r' [b' ->]].
          cbn [remove_first_cmp]. now rewrite path_compare_refl_bgp.
        + cbn [fst]. rewrite E_bgp, SP in HT. destruct (rewrite s 0 b); [rewrite F in HT|]; exact HT.
      - cbn [fst]. rewrite E_bgp, SP in HT. exact HT.
    Qed.

    Lemma best_add : forall a pfx b, cur a = c ->
      tbl_get pfx (tbl a) = [] ->
      tbl_get pfx (tbl (add_path P apply s a pfx (PBgp 0 b))) = export_view f s pfx [PBgp 0 b].
    Proof.
      intros a pfx b Hc HT. unfold export_view. cbn [flat_map]. rewrite app_nil_r.
      fold (E pfx (PBgp 0 b)). rewrite (add_path_E a pfx b Hc).
      destruct (E pfx (PBgp 0 b)) as [q|]; cbn [opt_list].
      - unfold add_inner. rewrite Hbo. cbn [tbl]. now rewrite tbl_get_add_same, tbl_get_drop_same.
      - rewrite Hbo. destruct (should_propagate s (PBgp 0 b)); exact HT.
    Qed.
  End BestOnly.

  (* ---------------------------------------------------------------- add path *)

  Section AddPath.
    Hypothesis Hap : s_addpath s = true.

    (* table of the prefix = export view of W, path ids aside *)
    Definition AP (a : aro P) (pfx : N) (W : list path) : Prop :=
      Permutation (map strip (tbl_get pfx (tbl a))) (map strip (export_view f s pfx W)).

    (* every entry of the prefix comes from a path of W *)
    Lemma AP_entry_origin : forall a pfx W e,
      AP a pfx W -> In e (tbl_get pfx (tbl a)) ->
      exists p q, In p W /\ E pfx p = Some q /\ strip q = strip e.
    Proof.
      intros a pfx W e H HI. unfold AP in H.
      assert (HS : In (strip e) (map strip (export_view f s pfx W))).
      { eapply Permutation_in; [exact H|]. now apply in_map. }
      apply in_map_iff in HS. destruct HS as [q [EQ HQ]].
      unfold export_view in HQ. apply in_flat_map in HQ. destruct HQ as [p [HP HO]].
      fold (E pfx p) in HO. destruct (E pfx p) as [q'|] eqn:EP; cbn [opt_list] in HO; [|destruct HO].
      destruct HO as [->|[]]. eauto.
    Qed.

    Lemma export_view_split : forall pfx W1 p W2,
      export_view f s pfx (W1 ++ p :: W2) =
      export_view f s pfx W1 ++ opt_list (E pfx p) ++ export_view f s pfx W2.
    Proof. intros. unfold export_view. rewrite flat_map_app. reflexivity. Qed.

    (* RemovePath for a path p of W *)
    Lemma ap_remove : forall a pfx W1 p W2,
      cur a = c -> Inv P a -> AP a pfx (W1 ++ p :: W2) ->
      NoDup (W1 ++ p :: W2) -> (forall x, In x (W1 ++ p :: W2) -> inh pfx x) ->
      let a' := fst (remove_path P apply s a pfx p) in
      AP a' pfx (W1 ++ W2).
    Proof.
      intros a pfx W1 p W2 Hc I H ND HW a'.
      assert (HP : inh pfx p) by (apply HW, in_or_app; right; now left).
      destruct (inh_bgp pfx p HP) as [b ->].
      destruct HP as [lp [HLp HPp]].
      assert (SP : should_propagate s (PBgp 0 b) = true) by (eapply (g_prop f s h G Hap); eassumption).
      unfold AP in *. rewrite export_view_split in H. unfold export_view at 1 in H.
      subst a'. unfold remove_path. rewrite Hc, SP.
      destruct (f pfx (PBgp 0 b)) as [q|] eqn:F.
      2:{ cbn [fst]. rewrite E_bgp, SP in H. destruct (rewrite s 0 b); [rewrite F in H|]; cbn [opt_list app] in H;
          unfold export_view; rewrite flat_map_app; exact H. }
      (* who can be found: only an entry that stems from p itself *)
      assert (Origin : forall sp, In sp (tbl_get pfx (tbl a)) -> path_compare (strip sp) (strip q) = true ->
                       E pfx (PBgp 0 b) = Some q /\ strip sp = strip q).
      { intros sp HI HC.
        assert (APfull : AP a pfx (W1 ++ PBgp 0 b :: W2)).
        { unfold AP. rewrite export_view_split. exact H. }
        destruct (AP_entry_origin a pfx _ sp APfull HI) as [p2 [q2 [HP2 [EP2 ES2]]]].
        destruct (inh_bgp pfx p2 (HW p2 HP2)) as [b2 ->].
        destruct (HW _ HP2) as [l2 [HL2 HPl2]].
        pose proof (E_some_f pfx b2 q2 EP2) as F2.
        assert (PBgp 0 b2 = PBgp 0 b).
        { eapply (g_apart f s h G Hap pfx l2 lp); try eassumption. now rewrite ES2. }
        inversion H0; subst b2. rewrite F in F2. inversion F2; subst q2. split; [exact EP2|now symmetry]. }
      unfold remove_exported.
      destruct (tbl_get pfx (tbl a)) as [|e0 T0] eqn:TG.
      { (* empty table: then p was not exported *)
        cbn [fst]. rewrite TG. cbn [map] in *.
        apply Permutation_nil in H. apply map_eq_nil in H.
        apply app_eq_nil in H. destruct H as [H1 H]. apply app_eq_nil in H. destruct H as [_ H2].
        unfold export_view. rewrite flat_map_app. unfold export_view in H1, H2. rewrite H1, H2. constructor. }
      rewrite Hap. rewrite <- TG in *.
      destruct (find (fun sp => is_announcement_of sp q) (tbl_get pfx (tbl a))) as [sp|] eqn:FD.
      2:{ (* nothing found: p was not exported *)
        cbn [fst].
        destruct (E pfx (PBgp 0 b)) as [q'|] eqn:EP.
        - exfalso. pose proof (E_some_f pfx b q' EP) as F'. rewrite F in F'. inversion F'; subst q'.
          assert (HS : In (strip q) (map strip (tbl_get pfx (tbl a)))).
          { eapply Permutation_in; [apply Permutation_sym; exact H|].
            rewrite !map_app. apply in_or_app; right. apply in_or_app; left. cbn. now left. }
          apply in_map_iff in HS. destruct HS as [e [ES HE]].
          destruct (E_is_bgp pfx b q EP) as [rq [bq ->]].
          destruct e as [snh|re be]; [discriminate ES|].
          unfold strip in ES. cbn [path_set_pid] in ES.
          assert (ES' : set_pid 0 be = set_pid 0 bq) by congruence.
          pose proof (find_none _ _ FD _ HE) as NA. cbn [is_announcement_of] in NA.
          rewrite (set_pid_same_strip be bq ES'), bgp_compare_refl in NA. discriminate.
        - cbn [opt_list app] in H. unfold export_view. rewrite flat_map_app. exact H. }
      apply find_some in FD. destruct FD as [HIn HA].
      destruct (Origin sp HIn (is_announcement_strip sp q HA)) as [EP ESP].
      rewrite EP in H. cbn [opt_list] in H.
      pose proof HIn as HIn'. apply in_tbl_get in HIn'.
      destruct (I_tbl P a I pfx sp HIn') as [rs [bs [-> Bsp]]]. cbn [path_hkey].
      destruct (prel_present hkey hkey_eq_dec (pm a) (hkey_of bs) (b_pid bs) (I_wf P a I) Bsp) as [m' [PR _]].
      rewrite PR. cbn [fst tbl]. rewrite tbl_get_remove_same.
      destruct (remove_first_cmp_split (PBgp rs bs) (tbl_get pfx (tbl a))) as [l1 [x [l2 [EL [CX ER]]]]].
      { exists (PBgp rs bs). split; [exact HIn|apply path_compare_refl_bgp]. }
      rewrite ER.
      (* the entry that goes is one of p's, too *)
      assert (HX : In x (tbl_get pfx (tbl a))) by (rewrite EL; apply in_or_app; right; now left).
      assert (CXS : path_compare (strip x) (strip q) = true).
      { apply path_compare_strip in CX. rewrite ESP in CX. exact CX. }
      destruct (Origin x HX CXS) as [_ EX].
      rewrite EL in H. rewrite !map_app in H. cbn [map] in H. rewrite EX in H.
      unfold export_view. rewrite flat_map_app, !map_app.
      eapply Permutation_app_inv. exact H.
    Qed.

    (* AddPath for a path p the session has not been told about yet *)
    Lemma ap_add : forall a pfx W p,
      cur a = c -> Inv P a -> AP a pfx W -> inh pfx p ->
      let a' := add_path P apply s a pfx p in
      errs a' = errs a -> AP a' pfx (W ++ [p]).
    Proof.
      intros a pfx W p Hc I H HP a' HE.
      destruct (inh_bgp pfx p HP) as [b ->].
      destruct HP as [lp [HLp HPp]].
      assert (SP : should_propagate s (PBgp 0 b) = true) by (eapply (g_prop f s h G Hap); eassumption).
      unfold AP in *. unfold export_view. rewrite flat_map_app. cbn [flat_map]. rewrite app_nil_r.
      fold (export_view f s pfx W). fold (E pfx (PBgp 0 b)).
      subst a'. rewrite (add_path_E a pfx b Hc) in *. rewrite SP in *.
      destruct (E pfx (PBgp 0 b)) as [q|] eqn:EP; cbn [opt_list].
      2:{ rewrite app_nil_r. exact H. }
      destruct (E_is_bgp pfx b q EP) as [rq [bq ->]].
      unfold add_inner in *. rewrite Hap in *. cbn [path_hkey] in *.
      destruct (pid_add hkey hkey_eq_dec (hkey_of bq) (pm a)) as [m [i| |]] eqn:PA.
      - cbn [tbl]. rewrite tbl_get_add_same, !map_app. cbn [map]. rewrite strip_set_pid.
        now apply Permutation_app_tail.
      - cbn [errs] in HE. lia.
      - exfalso. destruct (padd_outcome hkey hkey_eq_dec _ _ _ _ (I_wf P a I) PA) as [ND _]. now apply ND.
    Qed.
  End AddPath.
End Guarded.
