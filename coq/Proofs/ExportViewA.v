(* C08, part A: table facts - what the primitives do to the paths of one prefix and to the others;
   the error counter only grows; Compare facts. *)
From Coq Require Import List NArith Bool Lia Permutation.
Import ListNotations.
From BioVerif Require Import Model.PathIDs Model.AdjRIBOut Model.LocView Spec.ExportViewSpec
  Proofs.PathIDsProofs Proofs.PathIDsInv Proofs.AroIDsProofs.
Local Open Scope N_scope.

(* ---------------------------------------------------------------- tbl_get under the three updates *)

Lemma tbl_get_add_same : forall pfx p t, tbl_get pfx (tbl_add pfx p t) = tbl_get pfx t ++ [p].
Proof.
  intros. unfold tbl_get, tbl_add. rewrite filter_app, map_app. cbn [filter fst]. now rewrite N.eqb_refl.
Qed.

Lemma tbl_get_add_other : forall pfx pfx' p t, pfx <> pfx' -> tbl_get pfx' (tbl_add pfx p t) = tbl_get pfx' t.
Proof.
  intros pfx pfx' p t NE. unfold tbl_get, tbl_add. rewrite filter_app, map_app. cbn [filter fst].
  destruct (N.eqb pfx pfx') eqn:E; [apply N.eqb_eq in E; contradiction|]. cbn. now rewrite app_nil_r.
Qed.

Lemma tbl_get_drop_same : forall pfx t, tbl_get pfx (tbl_drop pfx t) = [].
Proof.
  intros pfx t. unfold tbl_get, tbl_drop. induction t as [|[k x] t IH]; [reflexivity|].
  cbn [filter fst]. destruct (N.eqb k pfx) eqn:E; cbn [negb]; [exact IH|].
  cbn [filter fst]. rewrite E. exact IH.
Qed.

Lemma tbl_get_drop_other : forall pfx pfx' t, pfx <> pfx' -> tbl_get pfx' (tbl_drop pfx t) = tbl_get pfx' t.
Proof.
  intros pfx pfx' t NE. unfold tbl_get, tbl_drop. induction t as [|[k x] t IH]; [reflexivity|].
  cbn [filter fst]. destruct (N.eqb k pfx) eqn:E; cbn [negb].
  - apply N.eqb_eq in E. subst k. destruct (N.eqb pfx pfx') eqn:E2; [apply N.eqb_eq in E2; contradiction|]. exact IH.
  - cbn [filter fst]. destruct (N.eqb k pfx'); cbn [map]; now rewrite IH.
Qed.

Lemma tbl_get_remove_other : forall pfx pfx' p t, pfx <> pfx' -> tbl_get pfx' (tbl_remove_first pfx p t) = tbl_get pfx' t.
Proof.
  intros pfx pfx' p t NE. unfold tbl_get. induction t as [|[k x] t IH]; [reflexivity|].
  cbn [tbl_remove_first]. destruct (N.eqb k pfx && path_compare x p) eqn:E.
  - apply andb_prop in E. destruct E as [E _]. apply N.eqb_eq in E. subst k.
    cbn [filter fst]. destruct (N.eqb pfx pfx') eqn:E2; [apply N.eqb_eq in E2; contradiction|reflexivity].
  - cbn [filter fst]. destruct (N.eqb k pfx'); cbn [map]; now rewrite IH.
Qed.

(* the paths of the prefix itself: the first one that Compares equal goes *)
Fixpoint remove_first_cmp (p : path) (l : list path) : list path :=
  match l with
  | [] => []
  | x :: l' => if path_compare x p then l' else x :: remove_first_cmp p l'
  end.

Lemma tbl_get_remove_same : forall pfx p t,
  tbl_get pfx (tbl_remove_first pfx p t) = remove_first_cmp p (tbl_get pfx t).
Proof.
  intros pfx p t. unfold tbl_get. induction t as [|[k x] t IH]; [reflexivity|].
  cbn [tbl_remove_first]. destruct (N.eqb k pfx) eqn:E; cbn [andb].
  - destruct (path_compare x p) eqn:C.
    + cbn [filter fst map snd remove_first_cmp]. rewrite E. cbn [map snd remove_first_cmp]. now rewrite C.
    + cbn [filter fst]. rewrite E. cbn [map snd remove_first_cmp]. rewrite C. now rewrite IH.
  - cbn [filter fst]. rewrite E. exact IH.
Qed.

Lemma remove_first_cmp_split : forall p l,
  (exists x, In x l /\ path_compare x p = true) ->
  exists l1 x l2, l = l1 ++ x :: l2 /\ path_compare x p = true /\ remove_first_cmp p l = l1 ++ l2.
Proof.
  induction l as [|y l IH]; intros [x [HI HC]]; [destruct HI|].
  cbn [remove_first_cmp]. destruct (path_compare y p) eqn:C.
  - exists [], y, l. auto.
  - destruct HI as [->|HI]; [congruence|].
    destruct (IH (ex_intro _ x (conj HI HC))) as [l1 [z [l2 [A [B D]]]]].
    exists (y :: l1), z, l2. subst l. rewrite D. auto.
Qed.

Lemma remove_first_cmp_none : forall p l,
  (forall x, In x l -> path_compare x p = false) -> remove_first_cmp p l = l.
Proof.
  induction l as [|y l IH]; intros H; [reflexivity|].
  cbn [remove_first_cmp]. rewrite (H y (or_introl eq_refl)). f_equal. apply IH. intros x Hx. apply H. now right.
Qed.

(* ---------------------------------------------------------------- Compare and the path id *)

Lemma path_compare_refl_bgp : forall r b, path_compare (PBgp r b) (PBgp r b) = true.
Proof. intros. cbn. apply bgp_compare_refl. Qed.

(* bgp_compare is a conjunction of one test on the path id and tests that do not look at it *)
Lemma bgp_compare_set_pid : forall a b i,
  bgp_compare a b = true -> bgp_compare (set_pid i a) (set_pid i b) = true.
Proof.
  intros a b i H. unfold bgp_compare in *. cbn [set_pid b_pid b_nh b_src b_lp b_med b_bgpid b_oid b_ebgp
    b_atomic b_origin b_agg b_aspath b_cl b_comms b_lcomms b_unk].
  rewrite N.eqb_refl.
  repeat (apply andb_prop in H; destruct H as [H ?]).
  repeat (apply andb_true_intro; split); try assumption; reflexivity.
Qed.

Lemma bgp_compare_set_pid_l : forall a b i,
  bgp_compare a (set_pid (b_pid a) b) = true -> bgp_compare (set_pid i a) (set_pid i b) = true.
Proof.
  intros a b i H. apply (bgp_compare_set_pid _ _ i) in H.
  unfold set_pid in H at 2. cbn [b_pid b_nh b_src b_lp b_med b_bgpid b_oid b_ebgp
    b_atomic b_origin b_agg b_aspath b_aslen b_otc b_cl b_comms b_lcomms b_unk set_pid] in H. exact H.
Qed.

Lemma is_announcement_strip : forall sp q,
  is_announcement_of sp q = true -> path_compare (strip sp) (strip q) = true.
Proof.
  intros [snh|r a] [snh'|r' b]; cbn [is_announcement_of]; intros H; try discriminate.
  unfold strip. cbn [path_set_pid path_compare]. now apply bgp_compare_set_pid_l.
Qed.

Lemma path_compare_strip : forall x y, path_compare x y = true -> path_compare (strip x) (strip y) = true.
Proof.
  intros [[n|]|r a] [[m|]|r' b]; cbn [path_compare]; intros H; try discriminate.
  - exact H.
  - unfold strip. cbn [path_set_pid path_compare]. now apply (bgp_compare_set_pid _ _ 0).
Qed.

Lemma strip_set_pid : forall i p, strip (path_set_pid i p) = strip p.
Proof. intros i [snh|r b]; reflexivity. Qed.

Lemma announcement_of_own : forall i r b, is_announcement_of (PBgp r (set_pid i b)) (PBgp r b) = true.
Proof.
  intros. cbn [is_announcement_of b_pid set_pid].
  change (set_pid i b) with (set_pid i b). apply bgp_compare_refl.
Qed.

(* ---------------------------------------------------------------- the error counter only grows *)

Section Mono.
  Variable P : Type.
  Variable apply : P -> N -> path -> option path.
  Variable s : sess.

  Lemma errs_add_inner : forall a pfx p, errs a <= errs (add_inner P s a pfx p).
  Proof.
    intros a pfx p. unfold add_inner.
    destruct (s_addpath s); [|cbn; lia].
    destruct (path_hkey p); [|lia].
    destruct (pid_add hkey hkey_eq_dec h (pm a)) as [m [i| |]]; cbn [errs]; lia.
  Qed.

  Lemma errs_remove_exported : forall a pfx p, errs (fst (remove_exported P s a pfx p)) = errs a.
  Proof.
    intros a pfx p. unfold remove_exported.
    destruct (tbl_get pfx (tbl a)); [reflexivity|].
    destruct (s_addpath s); [|reflexivity].
    destruct (find _ _); [|reflexivity].
    destruct (path_hkey p1); [|reflexivity].
    destruct (pid_release hkey hkey_eq_dec h (pm a)) as [m [i|]]; reflexivity.
  Qed.

  Lemma errs_remove_path : forall a pfx p, errs (fst (remove_path P apply s a pfx p)) = errs a.
  Proof.
    intros a pfx p. unfold remove_path. destruct (should_propagate s p); [|reflexivity].
    destruct (apply (cur a) pfx p); [apply errs_remove_exported|reflexivity].
  Qed.

  Lemma errs_fold_le : forall (A : Type) (g : aro P -> A -> aro P) (l : list A) (a : aro P),
    (forall a x, errs a <= errs (g a x)) -> errs a <= errs (fold_left g l a).
  Proof.
    induction l as [|x l IH]; intros a H; cbn [fold_left]; [lia|].
    specialize (IH (g a x) H). specialize (H a x). lia.
  Qed.

  Lemma errs_add_path : forall a pfx p, errs a <= errs (add_path P apply s a pfx p).
  Proof.
    intros a pfx p. unfold add_path. destruct (redistribute s p) as [r b].
    destruct (should_propagate s (PBgp r b)).
    - destruct (rewrite s r b); [|lia]. destruct (apply (cur a) pfx (PBgp r b0)); [apply errs_add_inner|lia].
    - destruct (s_addpath s); [|lia]. unfold wipe. apply errs_fold_le.
      intros a' x. rewrite errs_remove_path. lia.
  Qed.

  Lemma errs_step_change : forall a pfx o,
    (exists p, o = OAdd pfx p) \/ (exists p, o = ORemove pfx p) -> errs a <= errs (step P apply s a o).
  Proof.
    intros a pfx o [[p ->]|[p ->]]; cbn [step]; [apply errs_add_path|rewrite errs_remove_path; lia].
  Qed.
End Mono.
