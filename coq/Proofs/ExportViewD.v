(* C08, part D: the guards are met by real sessions and policies; the unguarded statement is false
   (witnesses of the three known findings). *)
From Coq Require Import List NArith Bool Lia Permutation.
Import ListNotations.
From BioVerif Require Import Model.PathIDs Model.AdjRIBOut Model.LocView Spec.ExportViewSpec
  Proofs.ExportViewC.
Local Open Scope N_scope.

(* ---------------------------------------------------------------- sessions that do not rewrite *)

Lemma transparent_ibgp_nonclient : forall s,
  s_ibgp s = true -> s_rrclient s = false -> forall r b b', rewrite s r b = Some b' -> b' = b.
Proof.
  intros s Hi Hr r b b' H. unfold rewrite, rewrite_ibgp in H. rewrite Hi, Hr in H.
  destruct (negb (N.eqb r 0)); [congruence|].
  destruct (negb (b_ebgp b) && negb false); [discriminate|congruence].
Qed.

Lemma transparent_rs_client_no_roles : forall s,
  s_ibgp s = false -> s_rsclient s = true -> s_role_on s = false ->
  forall r b b', rewrite s r b = Some b' -> b' = b.
Proof.
  intros s Hi Hrs Hro r b b' H. unfold rewrite, rewrite_ebgp in H. rewrite Hi, Hrs, Hro in H.
  cbn [negb] in H. congruence.
Qed.

(* ---------------------------------------------------------------- every chain answers BGP with BGP *)

Lemma do_action_bgp : forall a r b,
  match do_action a (PBgp r b) with
  | RCont q | RAccept q => exists r' b', q = PBgp r' b'
  | RReject => True
  end.
Proof. intros [v|v|ip|asn t| |] r b; cbn [do_action]; eauto. Qed.

Lemma do_actions_bgp : forall l r b,
  match do_actions l (PBgp r b) with
  | RCont q | RAccept q => exists r' b', q = PBgp r' b'
  | RReject => True
  end.
Proof.
  induction l as [|a l IH]; intros r b; cbn [do_actions]; [eauto|].
  pose proof (do_action_bgp a r b) as H.
  destruct (do_action a (PBgp r b)) as [q|q|]; [|exact H|exact I].
  destruct H as [r' [b' ->]]. apply IH.
Qed.

Lemma do_terms_bgp : forall ts pfx r b,
  match do_terms ts pfx (PBgp r b) with
  | RCont q | RAccept q => exists r' b', q = PBgp r' b'
  | RReject => True
  end.
Proof.
  induction ts as [|t ts IH]; intros pfx r b; cbn [do_terms]; [eauto|].
  destruct (term_matches t pfx); [|apply IH].
  pose proof (do_actions_bgp (t_then t) r b) as H.
  destruct (do_actions (t_then t) (PBgp r b)) as [q|q|]; [|exact H|exact I].
  destruct H as [r' [b' ->]]. apply IH.
Qed.

Lemma interp_bgp : forall c pfx r b q, interp c pfx (PBgp r b) = Some q -> exists r' b', q = PBgp r' b'.
Proof.
  induction c as [|fl c IH]; intros pfx r b q H; cbn [interp] in H.
  - inversion H. eauto.
  - pose proof (do_terms_bgp fl pfx r b) as HT.
    destruct (do_terms fl pfx (PBgp r b)) as [q'|q'|]; [| |discriminate].
    + destruct HT as [r' [b' ->]]. eapply IH; eassumption.
    + inversion H; subst. exact HT.
Qed.

(* ---------------------------------------------------------------- the unguarded statement is false *)

(* well-formed history: duplicate-free views, one path at most for a best-only session *)
Definition wf_history (s : sess) (h : list (N * list path)) : Prop :=
  (forall pfx l, In (pfx, l) h -> NoDup l) /\
  (s_addpath s = false -> forall pfx l, In (pfx, l) h -> (length l <= 1)%nat).

Definition full_statement (s : sess) (c : chain) (h : list (N * list path)) : Prop :=
  let st := feed chain interp s c h in
  errs (snd st) = 0 -> ribout_is_export_view (interp c) s (fst st) (snd st).

Definition mk_sess (ibgp rs rr ap : bool) : sess := mkSess ibgp rs rr ap 65000 16843009 33686018 9 false 0.
Definition mk_path (src otc : N) (ebgp : bool) (cs : option (list N)) : bgp :=
  mkBgp src src 100 0 src 0 None ebgp false 0 otc [(true, [65001])] 1 None cs None [] 0.

Ltac wf_hist :=
  split;
  [ intros pfx l HI; cbn [In] in HI;
    repeat (destruct HI as [HI|HI]; [inversion HI; subst; repeat constructor; cbn; intuition discriminate|]);
    destruct HI
  | intros Hbo pfx l HI; cbn in Hbo; try discriminate Hbo; cbn [In] in HI;
    repeat (destruct HI as [HI|HI]; [inversion HI; subst; cbn; lia|]); destruct HI ].

(* K1: an eBGP session (prepend, next-hop-self): the route stays after the Loc-RIB withdrew it *)
Definition k1_h : list (N * list path) := [(0, [PBgp 0 (mk_path 50529027 0 true None)]); (0, [])].

Lemma refuted_stale_rewriting :
  exists s c h, wf_history s h /\ ~ full_statement s c h.
Proof.
  exists (mk_sess false false false false), [], k1_h. split; [wf_hist|].
  intros H. unfold full_statement in H. specialize (H eq_refl 0).
  apply Permutation_length in H. vm_compute in H. discriminate.
Qed.

(* K1, redistribution: a static route towards an iBGP peer stays after it was withdrawn *)
Definition k1s_h : list (N * list path) := [(0, [PStatic (Some 84215045)]); (0, [])].

Lemma refuted_stale_redistributed :
  exists s c h, wf_history s h /\ ~ full_statement s c h.
Proof.
  exists (mk_sess true false false false), [], k1s_h. split; [wf_hist|].
  intros H. unfold full_statement in H. specialize (H eq_refl 0).
  apply Permutation_length in H. vm_compute in H. discriminate.
Qed.

(* K2: add-path session; the peer's own path becomes the best: the other, exportable path is withdrawn *)
Definition k2_h : list (N * list path) :=
  [(0, [PBgp 0 (mk_path 50529027 0 true None)]);
   (0, [PBgp 0 (mk_path 33686018 0 true None); PBgp 0 (mk_path 50529027 0 true None)])].

Lemma refuted_addpath_wipe :
  exists s c h, wf_history s h /\ ~ full_statement s c h.
Proof.
  exists (mk_sess true false false true), [], k2_h. split; [wf_hist|].
  intros H. unfold full_statement in H. specialize (H eq_refl 0).
  apply Permutation_length in H. vm_compute in H. discriminate.
Qed.

(* K3: add-path session; two paths that Compare cannot tell apart (they differ in OTC): withdrawing the
   second one removes the first *)
Definition k3_h : list (N * list path) :=
  [(0, [PBgp 0 (mk_path 50529027 0 true None); PBgp 0 (mk_path 50529027 7 true None)]);
   (0, [PBgp 0 (mk_path 50529027 0 true None)])].

Lemma refuted_addpath_sibling :
  exists s c h, wf_history s h /\ ~ full_statement s c h.
Proof.
  exists (mk_sess true false false true), [], k3_h. split; [wf_hist|].
  intros H. unfold full_statement in H. specialize (H eq_refl 0).
  assert (HI : In (strip (PBgp 0 (mk_path 50529027 0 true None)))
                  (map (norm (mk_sess true false false true))
                       (tbl_get 0 (tbl (snd (feed chain interp (mk_sess true false false true) [] k3_h)))))).
  { eapply Permutation_in; [apply Permutation_sym; exact H|]. vm_compute. now left. }
  vm_compute in HI. destruct HI as [HI|[]]. discriminate.
Qed.

(* ---------------------------------------------------------------- the guards are satisfiable *)

Definition ex_h : list (N * list path) :=
  [(0, [PBgp 0 (mk_path 50529027 0 true None)]);
   (0, [PBgp 0 (mk_path 67372036 0 true (Some [100])); PBgp 0 (mk_path 50529027 0 true None)]);
   (1, [PBgp 0 (mk_path 67372036 0 true (Some [100]))]);
   (0, [PBgp 0 (mk_path 67372036 0 true (Some [100]))])].

Lemma ex_guards : guards (interp []) (mk_sess true false false true) ex_h.
Proof.
  constructor.
  - apply transparent_ibgp_nonclient; reflexivity.
  - intros pfx l p HI HP. cbn [In ex_h] in HI.
    repeat (destruct HI as [HI|HI]; [inversion HI; subst; cbn [In] in HP;
      repeat (destruct HP as [HP|HP]; [subst; eauto|]); destruct HP|]). destruct HI.
  - intros _ pfx l p HI HP. cbn [In ex_h] in HI.
    repeat (destruct HI as [HI|HI]; [inversion HI; subst; cbn [In] in HP;
      repeat (destruct HP as [HP|HP]; [subst; reflexivity|]); destruct HP|]). destruct HI.
  - intros _ pfx l1 l2 p1 p2 q1 q2 H1 H2 P1 P2 F1 F2 C.
    cbn [interp] in F1, F2. inversion F1; subst q1. inversion F2; subst q2.
    cbn [In ex_h] in H1, H2.
    repeat (destruct H1 as [H1|H1]; [inversion H1; subst; cbn [In] in P1|]); try destruct H1;
    repeat (destruct P1 as [P1|P1]; [subst p1|]); try destruct P1;
    repeat (destruct H2 as [H2|H2]; [inversion H2; subst; cbn [In] in P2|]); try destruct H2;
    repeat (destruct P2 as [P2|P2]; [subst p2|]); try destruct P2;
    try reflexivity; vm_compute in C; discriminate.
  - intros pfx l HI. cbn [In ex_h] in HI.
    repeat (destruct HI as [HI|HI]; [inversion HI; subst; repeat constructor; cbn; intuition discriminate|]).
    destruct HI.
  - discriminate.
  - intros pfx r b q H. eapply interp_bgp; eassumption.
Qed.
