(* C15 proofs, part 1: containment, equality, validity, base address, bit extraction, ordering,
   masking of the last bits, byte count.  Each model function (Model/NetArith.v) is first
   characterised by div / mod on the words, then tied to the bit-level definition
   (Spec/NetSpec.v) through the lemmas of Proofs/NetBits.v. *)
From Coq Require Import ZArith Lia Bool List.
From BioVerif Require Import Lib.Word Lib.WordLemmas Model.NetArith Spec.NetSpec Proofs.NetBits.
Import ListNotations.
Open Scope Z_scope.

Lemma p8 : 2 ^ 8 = 256. Proof. reflexivity. Qed.

Ltac u8 :=
  repeat match goal with
         | |- context [wsub 8 ?a ?b] => rewrite (wsub_small 8 a b) by (rewrite ?p8; lia)
         end.

(* ---------- generic list facts used for the two-word IPv6 addresses ---------- *)

Lemma app_eq_len_inv (A : Type) (l1 l1' l2 l2' : list A) :
  length l1 = length l1' -> (l1 ++ l2 = l1' ++ l2' <-> l1 = l1' /\ l2 = l2').
Proof.
  revert l1'. induction l1 as [|a l1 IH]; intros [|b l1'] HL; try discriminate.
  - cbn. split; [auto | intros [_ E]; exact E].
  - cbn in HL. injection HL as HL. cbn. split.
    + intros E. injection E as E1 E2. apply IH in E2; [|exact HL]. destruct E2. subst. auto.
    + intros [E1 E2]. injection E1 as E1 E3. subst. reflexivity.
Qed.

Lemma firstn_app_le (A : Type) (l1 l2 : list A) k :
  (k <= length l1)%nat -> firstn k (l1 ++ l2) = firstn k l1.
Proof.
  intros H. rewrite firstn_app. replace (k - length l1)%nat with O by lia.
  cbn. apply app_nil_r.
Qed.

Lemma firstn_app_ge (A : Type) (l1 l2 : list A) k :
  (length l1 <= k)%nat -> firstn k (l1 ++ l2) = l1 ++ firstn (k - length l1) l2.
Proof. intros H. rewrite firstn_app. rewrite firstn_all2 by lia. reflexivity. Qed.

Lemma keep_first_app_l (l1 l2 : list bool) k :
  (k <= length l1)%nat -> keep_first k (l1 ++ l2) = keep_first k l1 ++ repeat false (length l2).
Proof.
  intros H. unfold keep_first. rewrite firstn_app_le by lia. rewrite app_length.
  replace (length l1 + length l2 - k)%nat with ((length l1 - k) + length l2)%nat by lia.
  rewrite repeat_app, app_assoc. reflexivity.
Qed.

Lemma keep_first_app_r (l1 l2 : list bool) k :
  (length l1 <= k)%nat -> keep_first k (l1 ++ l2) = l1 ++ keep_first (k - length l1) l2.
Proof.
  intros H. unfold keep_first. rewrite firstn_app_ge by lia. rewrite app_length.
  replace (length l1 + length l2 - k)%nat with (length l2 - (k - length l1))%nat by lia.
  rewrite app_assoc. reflexivity.
Qed.

(* ---------- well-formed addresses ---------- *)

Lemma wf4 a : wf_ip a -> legacy a = true -> hi a = 0 /\ 0 <= lo a < 2 ^ 32.
Proof. unfold wf_ip; intros H L; rewrite L in H; exact H. Qed.

Lemma wf6 a : wf_ip a -> legacy a = false -> (0 <= hi a < 2 ^ 64) /\ (0 <= lo a < 2 ^ 64).
Proof. unfold wf_ip; intros H L; rewrite L in H; exact H. Qed.

Lemma ToUint32_spec a : 0 <= lo a -> ToUint32 a = lo a mod 2 ^ 32.
Proof.
  intros H. unfold ToUint32, wconv, wand.
  replace (wshr 64 (maxu 64) 32) with (2 ^ 32 - 1) by (vm_compute; reflexivity).
  rewrite Z.land_comm, land_ones_mod by lia. rewrite wrap_mod by lia. apply Z.mod_mod. lia.
Qed.

Lemma ToUint32_small a : 0 <= lo a < 2 ^ 32 -> ToUint32 a = lo a.
Proof. intros H. rewrite ToUint32_spec by lia. apply Z.mod_small; lia. Qed.

(* ---------- prefix agreement of two addresses, per family ---------- *)

Lemma firstn_ip_bits4 a b (k : nat) :
  legacy a = true -> legacy b = true ->
  0 <= lo a < 2 ^ 32 -> 0 <= lo b < 2 ^ 32 -> (k <= 32)%nat ->
  (firstn k (ip_bits a) = firstn k (ip_bits b) <->
   lo a / 2 ^ (32 - Z.of_nat k) = lo b / 2 ^ (32 - Z.of_nat k)).
Proof.
  intros La Lb Ha Hb Hk. unfold ip_bits. rewrite La, Lb.
  apply (firstn_bits_div 32 k); auto.
Qed.

Lemma firstn_ip_bits6 a b (k : nat) :
  legacy a = false -> legacy b = false ->
  0 <= hi a < 2 ^ 64 -> 0 <= lo a < 2 ^ 64 -> 0 <= hi b < 2 ^ 64 -> 0 <= lo b < 2 ^ 64 ->
  (k <= 128)%nat ->
  (firstn k (ip_bits a) = firstn k (ip_bits b) <->
   if (k <=? 64)%nat then hi a / 2 ^ (64 - Z.of_nat k) = hi b / 2 ^ (64 - Z.of_nat k)
   else hi a = hi b /\ lo a / 2 ^ (128 - Z.of_nat k) = lo b / 2 ^ (128 - Z.of_nat k)).
Proof.
  intros La Lb Hha Hla Hhb Hlb Hk. unfold ip_bits. rewrite La, Lb.
  destruct (Nat.leb_spec k 64) as [L | L].
  - rewrite !firstn_app_le by (rewrite length_bits; lia).
    apply (firstn_bits_div 64 k); auto.
  - rewrite !firstn_app_ge by (rewrite length_bits; lia).
    rewrite app_eq_len_inv by (rewrite !length_bits; reflexivity).
    rewrite !length_bits.
    rewrite (firstn_bits_div 64 (k - 64)) by (auto; lia).
    replace (Z.of_nat 64 - Z.of_nat (k - 64)) with (128 - Z.of_nat k) by lia.
    split; intros [E1 E2]; split; auto.
    + apply (bits_inj 64); auto.
    + rewrite E1; reflexivity.
Qed.

(* ---------- Contains ---------- *)

Lemma containsIPv4_div p x :
  0 <= lo (addr p) < 2 ^ 32 -> 0 <= lo (addr x) < 2 ^ 32 -> 0 <= plen p <= 32 ->
  containsIPv4 p x = (lo (addr p) / 2 ^ (32 - plen p) =? lo (addr x) / 2 ^ (32 - plen p)).
Proof.
  intros Hp Hx Hl. unfold containsIPv4, wand. rewrite !ToUint32_small by lia. u8.
  rewrite !land_wshl_maxu by lia. apply mul_pow2_eqb. lia.
Qed.

Lemma containsIPv6_div p x :
  0 <= hi (addr p) < 2 ^ 64 -> 0 <= lo (addr p) < 2 ^ 64 ->
  0 <= hi (addr x) < 2 ^ 64 -> 0 <= lo (addr x) < 2 ^ 64 -> 0 <= plen p <= 128 ->
  containsIPv6 p x =
  if plen p <=? 64
  then hi (addr p) / 2 ^ (64 - plen p) =? hi (addr x) / 2 ^ (64 - plen p)
  else (hi (addr p) =? hi (addr x)) &&
       (lo (addr p) / 2 ^ (128 - plen p) =? lo (addr x) / 2 ^ (128 - plen p)).
Proof.
  intros Hhp Hlp Hhx Hlx Hl. unfold containsIPv6, wand.
  destruct (plen p <=? 64) eqn:E.
  - apply Z.leb_le in E. u8. rewrite !land_wshl_maxu by lia. rewrite !Z.land_0_r, Z.eqb_refl, andb_true_r.
    apply mul_pow2_eqb. lia.
  - apply Z.leb_gt in E. u8. rewrite !land_wshl_maxu by lia. rewrite !land_maxu by lia.
    f_equal. apply mul_pow2_eqb. lia.
Qed.

Theorem Contains_correct p x :
  wf_pfx p -> wf_pfx x -> (Contains p x = true <-> contains_spec p x).
Proof.
  intros [Wp Lp] [Wx Lx]. unfold Contains, contains_spec, same_family, pbits, plen_nat.
  destruct (legacy (addr p)) eqn:Fp; destruct (legacy (addr x)) eqn:Fx; cbn [Bool.eqb negb];
    try (split; [discriminate | intros [F _]; discriminate]).
  - (* IPv4 *)
    unfold width in Lp, Lx. rewrite Fp in Lp. rewrite Fx in Lx.
    destruct (wf4 _ Wp Fp) as [_ Rp]. destruct (wf4 _ Wx Fx) as [_ Rx].
    destruct (plen x <=? plen p) eqn:E.
    + apply Z.leb_le in E. split; [discriminate | intros (_ & H & _); lia].
    + apply Z.leb_gt in E. rewrite containsIPv4_div by lia. rewrite Z.eqb_eq.
      rewrite (firstn_ip_bits4 _ _ (Z.to_nat (plen p))) by (auto; lia).
      rewrite Z2Nat.id by lia. tauto.
  - (* IPv6 *)
    unfold width in Lp, Lx. rewrite Fp in Lp. rewrite Fx in Lx.
    destruct (wf6 _ Wp Fp) as [Rhp Rlp]. destruct (wf6 _ Wx Fx) as [Rhx Rlx].
    destruct (plen x <=? plen p) eqn:E.
    + apply Z.leb_le in E. split; [discriminate | intros (_ & H & _); lia].
    + apply Z.leb_gt in E. rewrite containsIPv6_div by lia.
      rewrite (firstn_ip_bits6 _ _ (Z.to_nat (plen p))) by (auto; lia).
      rewrite Z2Nat.id by lia.
      destruct (plen p <=? 64) eqn:E2.
      * apply Z.leb_le in E2. destruct (Nat.leb_spec (Z.to_nat (plen p)) 64); [|lia].
        rewrite Z.eqb_eq. tauto.
      * apply Z.leb_gt in E2. destruct (Nat.leb_spec (Z.to_nat (plen p)) 64); [lia|].
        rewrite andb_true_iff, !Z.eqb_eq. tauto.
Qed.

(* ---------- Equal ---------- *)

Lemma ip_equal_eq a b : ip_equal a b = true <-> a = b.
Proof.
  unfold ip_equal. rewrite !andb_true_iff, !Z.eqb_eq, eqb_true_iff.
  destruct a, b; cbn. split; [intros [[-> ->] ->]; reflexivity | intros E; injection E; auto].
Qed.

Lemma pfx_equal_eq p x : pfx_equal p x = true <-> p = x.
Proof.
  unfold pfx_equal. rewrite andb_true_iff, ip_equal_eq, Z.eqb_eq.
  destruct p, x; cbn. split; [intros [-> ->]; reflexivity | intros E; injection E; auto].
Qed.

Lemma ip_bits_inj a b : wf_ip a -> wf_ip b -> legacy a = legacy b -> ip_bits a = ip_bits b -> a = b.
Proof.
  intros Wa Wb F E. destruct a as [ha la fa], b as [hb lb fb]. cbn [legacy] in F. subst fb.
  unfold wf_ip, ip_bits in *. cbn [legacy hi lo] in *. destruct fa.
  - destruct Wa as [-> Ra], Wb as [-> Rb]. f_equal. apply (bits_inj 32); auto.
  - destruct Wa as [Rha Rla], Wb as [Rhb Rlb].
    apply app_eq_len_inv in E; [|rewrite !length_bits; reflexivity]. destruct E as [E1 E2].
    f_equal; apply (bits_inj 64); auto.
Qed.

Theorem Equal_correct p x :
  wf_pfx p -> wf_pfx x -> (pfx_equal p x = true <-> equal_spec p x).
Proof.
  intros [Wp _] [Wx _]. rewrite pfx_equal_eq. unfold equal_spec, same_family, pbits. split.
  - intros ->. auto.
  - intros (F & L & B). destruct p as [ap lp], x as [ax lx]. cbn in *. subst lx. f_equal.
    apply ip_bits_inj; auto.
Qed.

(* ---------- Valid ---------- *)

Lemma checkLastNBitsUint32_spec x len :
  0 <= len <= 32 ->
  checkLastNBitsUint32 x (wsub 8 32 len) = (x mod 2 ^ (32 - len) =? 0).
Proof.
  intros Hl. unfold checkLastNBitsUint32. u8. replace (32 - (32 - len)) with len by lia.
  rewrite wshl_spec by lia.
  destruct (Z.eqb_spec (x mod 2 ^ (32 - len)) 0) as [E | E].
  - apply Z.eqb_eq. apply (shl_zero_iff 32 len x); [lia | exact E].
  - apply Z.eqb_neq. intros F. apply E. apply (shl_zero_iff 32 len x); [lia | exact F].
Qed.

Lemma checkLastNBitsUint64_spec x n :
  0 <= n <= 64 ->
  checkLastNBitsUint64 x n = (x mod 2 ^ n =? 0).
Proof.
  intros Hl. unfold checkLastNBitsUint64. u8.
  rewrite wshl_spec by lia.
  destruct (Z.eqb_spec (x mod 2 ^ n) 0) as [E | E].
  - apply Z.eqb_eq. apply (shl_zero_iff 64 (64 - n) x); [lia|].
    replace (64 - (64 - n)) with n by lia. exact E.
  - apply Z.eqb_neq. intros F. apply E. apply (shl_zero_iff 64 (64 - n) x) in F; [|lia].
    replace (64 - (64 - n)) with n in F by lia. exact F.
Qed.

Lemma skipn_app_le (A : Type) (l1 l2 : list A) k :
  (k <= length l1)%nat -> skipn k (l1 ++ l2) = skipn k l1 ++ l2.
Proof.
  intros H. rewrite skipn_app. replace (k - length l1)%nat with O by lia. reflexivity.
Qed.

Lemma skipn_app_ge (A : Type) (l1 l2 : list A) k :
  (length l1 <= k)%nat -> skipn k (l1 ++ l2) = skipn (k - length l1) l2.
Proof. intros H. rewrite skipn_app. rewrite skipn_all2 by lia. reflexivity. Qed.

Theorem Valid_correct p : wf_pfx p -> (Valid p = true <-> valid_spec p).
Proof.
  intros [Wp Lp]. unfold Valid, valid_spec, pbits, plen_nat, ip_bits. unfold width in Lp.
  destruct (legacy (addr p)) eqn:Fp.
  - destruct (wf4 _ Wp Fp) as [_ Rp].
    unfold wconv. rewrite wrap_small by lia.
    rewrite checkLastNBitsUint32_spec by lia. rewrite Z.eqb_eq.
    rewrite length_bits. rewrite (skipn_bits_mod 32) by lia.
    replace (Z.of_nat 32 - Z.of_nat (Z.to_nat (plen p))) with (32 - plen p) by lia. tauto.
  - destruct (wf6 _ Wp Fp) as [Rh Rl].
    rewrite app_length, !length_bits.
    destruct (plen p <=? 64) eqn:E.
    + apply Z.leb_le in E.
      rewrite skipn_app_le by (rewrite length_bits; lia).
      replace (64 + 64 - Z.to_nat (plen p))%nat with ((64 - Z.to_nat (plen p)) + 64)%nat by lia.
      rewrite repeat_app.
      rewrite app_eq_len_inv by (rewrite skipn_length, length_bits, repeat_length; reflexivity).
      rewrite (skipn_bits_mod 64) by lia.
      replace (Z.of_nat 64 - Z.of_nat (Z.to_nat (plen p))) with (64 - plen p) by lia.
      destruct (Z.eqb_spec (lo (addr p)) 0) as [Z0 | NZ]; cbn [negb].
      * u8. rewrite checkLastNBitsUint64_spec by lia. rewrite Z.eqb_eq.
        rewrite Z0, bits_zero. tauto.
      * split; [discriminate|]. intros [_ B]. exfalso. apply NZ.
        apply (bits_inj 64); [lia | lia |]. rewrite bits_zero. exact B.
    + apply Z.leb_gt in E.
      rewrite skipn_app_ge by (rewrite length_bits; lia). rewrite length_bits.
      replace (64 + 64 - Z.to_nat (plen p))%nat with (64 - (Z.to_nat (plen p) - 64))%nat by lia.
      rewrite (skipn_bits_mod 64) by lia.
      replace (Z.of_nat 64 - Z.of_nat (Z.to_nat (plen p) - 64)) with (128 - plen p) by lia.
      u8. replace (64 - (plen p - 64)) with (128 - plen p) by lia.
      rewrite checkLastNBitsUint64_spec by lia. rewrite Z.eqb_eq. tauto.
Qed.

(* ---------- BaseAddr ---------- *)

Lemma baseAddr4_div p :
  0 <= lo (addr p) < 2 ^ 32 -> 0 <= plen p <= 32 ->
  baseAddr4 p = mkip (hi (addr p)) (lo (addr p) / 2 ^ (32 - plen p) * 2 ^ (32 - plen p)) (legacy (addr p)).
Proof.
  intros R L. unfold baseAddr4. u8. f_equal.
  assert (R64 : 0 <= lo (addr p) < 2 ^ 64) by (pose proof (pow2_lt 32 64); lia).
  apply wshl_wshr; lia.
Qed.

Lemma baseAddr6_div p :
  0 <= hi (addr p) < 2 ^ 64 -> 0 <= lo (addr p) < 2 ^ 64 -> 0 <= plen p <= 128 ->
  baseAddr6 p =
  if plen p <=? 64
  then mkip (hi (addr p) / 2 ^ (64 - plen p) * 2 ^ (64 - plen p)) 0 (legacy (addr p))
  else mkip (hi (addr p)) (lo (addr p) / 2 ^ (128 - plen p) * 2 ^ (128 - plen p)) (legacy (addr p)).
Proof.
  intros Rh Rl L. unfold baseAddr6.
  destruct (plen p <=? 64) eqn:E.
  - apply Z.leb_le in E. u8. f_equal. apply wshl_wshr; lia.
  - apply Z.leb_gt in E. u8. f_equal. apply wshl_wshr; lia.
Qed.

Ltac rng :=
  first [ assumption | apply div_mul_pow2_range; lia
        | pose proof (pow2_pos 64 ltac:(lia)); lia ].
Ltac clear_low w :=
  match goal with
  | |- bits _ (?a / 2 ^ ?e * 2 ^ ?e) = keep_first ?k _ =>
    replace (a / 2 ^ e * 2 ^ e)
      with (a / 2 ^ (Z.of_nat w - Z.of_nat k) * 2 ^ (Z.of_nat w - Z.of_nat k))
      by (replace (Z.of_nat w - Z.of_nat k) with e by lia; reflexivity);
    apply bits_clear_low; lia
  end.
Ltac wf3 :=split; [ split; rng | split; [ reflexivity | ] ].

Theorem BaseAddr_correct p :
  wf_pfx p ->
  wf_ip (BaseAddr p) /\ legacy (BaseAddr p) = legacy (addr p) /\
  ip_bits (BaseAddr p) = base_spec p.
Proof.
  intros [Wp Lp]. unfold BaseAddr, base_spec, pbits, plen_nat. unfold width in Lp.
  destruct (legacy (addr p)) eqn:Fp.
  - destruct (wf4 _ Wp Fp) as [H0 Rp]. rewrite baseAddr4_div by lia.
    unfold wf_ip, ip_bits. cbn [legacy hi lo]. rewrite Fp. wf3.
    clear_low 32%nat.
  - destruct (wf6 _ Wp Fp) as [Rh Rl]. rewrite baseAddr6_div by lia.
    destruct (plen p <=? 64) eqn:E.
    + apply Z.leb_le in E. unfold wf_ip, ip_bits. cbn [legacy hi lo]. rewrite Fp.
      wf3.
      rewrite keep_first_app_l by (rewrite length_bits; lia).
      rewrite length_bits, bits_zero. f_equal.
      clear_low 64%nat.
    + apply Z.leb_gt in E. unfold wf_ip, ip_bits. cbn [legacy hi lo]. rewrite Fp.
      wf3.
      rewrite keep_first_app_r by (rewrite length_bits; lia).
      rewrite length_bits. f_equal.
      clear_low 64%nat.
Qed.

(* a prefix is valid exactly when it equals its own base address *)
Theorem Valid_iff_base p : wf_pfx p -> (Valid p = true <-> BaseAddr p = addr p).
Proof.
  intros W. pose proof (BaseAddr_correct p W) as (WB & FB & BB). destruct W as [Wp Lp].
  rewrite (Valid_correct p (conj Wp Lp)). unfold valid_spec, base_spec, keep_first in *.
  split.
  - intros V. apply ip_bits_inj; auto. rewrite BB. unfold pbits in *. rewrite <- V.
    apply firstn_skipn.
  - intros E. rewrite E in BB. unfold pbits in *.
    rewrite <- (firstn_skipn (plen_nat p) (ip_bits (addr p))) in BB at 1.
    apply app_inv_head in BB. exact BB.
Qed.

(* ---------- BitAtPosition ---------- *)

Theorem BitAtPosition_correct a pos :
  wf_ip a -> 0 <= pos < 256 -> BitAtPosition a pos = bit_spec a pos.
Proof.
  intros W Hp. unfold BitAtPosition, bit_spec, ip_bits.
  destruct (legacy a) eqn:F.
  - destruct (wf4 _ W F) as [_ R]. unfold bitAtPositionIPv4, wand.
    destruct (32 <? pos) eqn:E.
    + apply Z.ltb_lt in E. destruct (Z.leb_spec pos 0); [lia|].
      symmetry. apply nth_overflow. rewrite length_bits. lia.
    + apply Z.ltb_ge in E. u8. rewrite ToUint32_small by lia. rewrite wshl_one by lia.
      destruct (Z.leb_spec pos 0) as [P0 | P1].
      * destruct (Z.ltb_spec (32 - pos) 32); [lia|]. rewrite Z.land_0_r. reflexivity.
      * destruct (Z.ltb_spec (32 - pos) 32); [|lia]. rewrite land_pow2_nonzero by lia.
        rewrite nth_bits by lia. f_equal. lia.
  - destruct (wf6 _ W F) as [Rh Rl]. unfold bitAtPositionIPv6, wand.
    destruct (128 <? pos) eqn:E.
    + apply Z.ltb_lt in E. destruct (Z.leb_spec pos 0); [lia|].
      symmetry. apply nth_overflow. rewrite app_length, !length_bits. lia.
    + apply Z.ltb_ge in E. destruct (pos <=? 64) eqn:E2.
      * apply Z.leb_le in E2. u8. rewrite wshl_one by lia.
        destruct (Z.leb_spec pos 0) as [P0 | P1].
        -- destruct (Z.ltb_spec (64 - pos) 64); [lia|]. rewrite Z.land_0_r. reflexivity.
        -- destruct (Z.ltb_spec (64 - pos) 64); [|lia]. rewrite land_pow2_nonzero by lia.
           rewrite app_nth1 by (rewrite length_bits; lia).
           rewrite nth_bits by lia. f_equal. lia.
      * apply Z.leb_gt in E2. u8. rewrite wshl_one by lia.
        destruct (Z.leb_spec pos 0); [lia|].
        destruct (Z.ltb_spec (128 - pos) 64); [|lia]. rewrite land_pow2_nonzero by lia.
        rewrite app_nth2 by (rewrite length_bits; lia). rewrite length_bits.
        rewrite nth_bits by lia. f_equal. lia.
Qed.

(* ---------- Compare ---------- *)

Lemma ip_compare_words a b :
  ip_compare a b =
  cmp_int (match hi a ?= hi b with Eq => lo a ?= lo b | c => c end).
Proof.
  unfold ip_compare.
  destruct (Z.compare_spec (hi a) (hi b)) as [E | L | G].
  - rewrite E, Z.ltb_irrefl.
    destruct (Z.compare_spec (lo a) (lo b)) as [E' | L' | G'].
    + rewrite E', Z.ltb_irrefl. reflexivity.
    + destruct (Z.ltb_spec (lo b) (lo a)); [lia|]. destruct (Z.ltb_spec (lo a) (lo b)); [reflexivity | lia].
    + destruct (Z.ltb_spec (lo b) (lo a)); [reflexivity | lia].
  - destruct (Z.ltb_spec (hi b) (hi a)); [lia|]. destruct (Z.ltb_spec (hi a) (hi b)); [reflexivity | lia].
  - destruct (Z.ltb_spec (hi b) (hi a)); [reflexivity | lia].
Qed.

Theorem Compare_correct a b :
  wf_ip a -> wf_ip b -> legacy a = legacy b -> ip_compare a b = compare_spec a b.
Proof.
  intros Wa Wb F. rewrite ip_compare_words. unfold compare_spec, ip_bits. rewrite <- F.
  destruct (legacy a) eqn:Fa.
  - symmetry in F. destruct (wf4 _ Wa Fa) as [Ha Ra]. destruct (wf4 _ Wb F) as [Hb Rb].
    rewrite Ha, Hb. cbn [Z.compare]. rewrite lex_cmp_bits.
    rewrite !Z.mod_small by (cbn; lia). reflexivity.
  - symmetry in F. destruct (wf6 _ Wa Fa) as [Rha Rla]. destruct (wf6 _ Wb F) as [Rhb Rlb].
    rewrite lex_cmp_app by (rewrite !length_bits; reflexivity).
    rewrite !lex_cmp_bits. rewrite !Z.mod_small by (cbn; lia). reflexivity.
Qed.

Lemma ip_compare_zero a b : ip_compare a b = 0 <-> hi a = hi b /\ lo a = lo b.
Proof.
  rewrite ip_compare_words.
  destruct (Z.compare_spec (hi a) (hi b)); destruct (Z.compare_spec (lo a) (lo b)); cbn; lia.
Qed.

(* ---------- MaskLastNBits ---------- *)

Theorem MaskLastNBits_correct a n :
  wf_ip a -> 0 <= n <= width a ->
  wf_ip (MaskLastNBits a n) /\ legacy (MaskLastNBits a n) = legacy a /\
  ip_bits (MaskLastNBits a n) = mask_last_spec a (Z.to_nat n).
Proof.
  intros W Hn. unfold MaskLastNBits, mask_last_spec. unfold width in Hn.
  destruct (legacy a) eqn:F.
  - destruct (wf4 _ W F) as [H0 R].
    assert (R64 : 0 <= lo a < 2 ^ 64) by (pose proof (pow2_lt 32 64); lia).
    unfold maskLastNBitsIPv4, wand. rewrite land_wshl_maxu by lia.
    unfold wf_ip, ip_bits. cbn [legacy hi lo]. rewrite F. rewrite length_bits.
    wf3.
    clear_low 32%nat.
  - destruct (wf6 _ W F) as [Rh Rl].
    unfold maskLastNBitsIPv6, wand, wconv.
    rewrite !wrap_small by (rewrite p8; lia).
    rewrite !land_wshl_maxu by lia.
    unfold wf_ip, ip_bits. cbn [legacy hi lo]. rewrite F. rewrite app_length, !length_bits.
    wf3.
    destruct (Z.le_gt_cases n 64) as [L | G].
    + rewrite Z.min_l, Z.max_r by lia. rewrite Z.pow_0_r, Z.div_1_r, Z.mul_1_r.
      rewrite keep_first_app_r by (rewrite length_bits; lia). rewrite length_bits. f_equal.
      clear_low 64%nat.
    + rewrite Z.min_r, Z.max_l by lia.
      rewrite keep_first_app_l by (rewrite length_bits; lia). rewrite length_bits.
      rewrite (Z.div_small (lo a) (2 ^ 64)) by lia. rewrite Z.mul_0_l, bits_zero. f_equal.
      clear_low 64%nat.
Qed.

(* ---------- BytesInAddr ---------- *)

Theorem BytesInAddr_correct l : 0 <= l < 256 -> bytes_spec l (BytesInAddr l).
Proof.
  intros H. unfold bytes_spec, BytesInAddr, wconv.
  rewrite wrap_small by (rewrite p8; split; [apply Z.div_pos; lia | apply Z.div_lt_upper_bound; lia]).
  pose proof (Z.div_mod (l + 7) 8 ltac:(lia)). pose proof (Z.mod_pos_bound (l + 7) 8 ltac:(lia)). lia.
Qed.
