(* C15 text proofs, part 4: the round-trip theorems
   IPFromString (String a) and PrefixFromString (String p). *)
From Coq Require Import ZArith Lia Bool List.
From BioVerif Require Import Lib.Word Lib.WordLemmas Model.NetArith Model.IPText Spec.NetSpec
  Proofs.NetProofs Proofs.IPTextBasics Proofs.IPTextParse Proofs.IPTextProofs.
Import ListNotations.
Open Scope Z_scope.

(* an IPv6 value inside ::ffff:0:0/96 *)
Definition v4mapped (a : ip) : Prop := hi a = 0 /\ lo a / 2 ^ 32 = 65535.

(* ---------- four octets ---------- *)

Lemma IPv4FromOctets_spec o1 o2 o3 o4 : isbyte o1 -> isbyte o2 -> isbyte o3 -> isbyte o4 ->
  IPv4FromOctets o1 o2 o3 o4 = mkip 0 (o1 * 2 ^ 24 + o2 * 2 ^ 16 + o3 * 2 ^ 8 + o4) true.
Proof.
  unfold isbyte. intros H1 H2 H3 H4. unfold IPv4FromOctets, IPv4.
  assert (P24 : 2 ^ 24 = 16777216) by reflexivity. assert (P16 : 2 ^ 16 = 65536) by reflexivity.
  assert (P8 : 2 ^ 8 = 256) by reflexivity. assert (P32 : 2 ^ 32 = 4294967296) by reflexivity.
  assert (P64 : 2 ^ 64 = 18446744073709551616) by reflexivity.
  assert (E1 : wshl 32 o1 24 = o1 * 2 ^ 24) by (apply wshl_small; rewrite ?P24, ?P32; lia).
  assert (E2 : wshl 32 o2 16 = o2 * 2 ^ 16) by (apply wshl_small; rewrite ?P16, ?P32; lia).
  assert (E3 : wshl 32 o3 8 = o3 * 2 ^ 8) by (apply wshl_small; rewrite ?P8, ?P32; lia).
  rewrite E1, E2, E3. rewrite P24, P16, P8.
  rewrite (wadd_small 32 (o1 * 16777216) (o2 * 65536)) by (rewrite ?P32; lia).
  rewrite (wadd_small 32 _ (o3 * 256)) by (rewrite ?P32; lia).
  rewrite (wadd_small 32 _ o4) by (rewrite ?P32; lia).
  unfold wconv. rewrite wrap_small by (rewrite P64; lia). reflexivity.
Qed.

Lemma word32_of_bytes x : 0 <= x ->
  x mod 2 ^ 32 = (x / 2 ^ 24) mod 256 * 2 ^ 24 + (x / 2 ^ 16) mod 256 * 2 ^ 16
                 + (x / 2 ^ 8) mod 256 * 2 ^ 8 + x mod 256.
Proof.
  intros Hx.
  assert (S : forall k, 0 <= k -> x mod 2 ^ (k + 8) = x mod 2 ^ k + 2 ^ k * ((x / 2 ^ k) mod 256)).
  { intros k Hk. rewrite Z.pow_add_r by lia. change (2 ^ 8) with 256.
    apply Z.rem_mul_r; [pose proof (pow2_pos k Hk); lia | lia]. }
  pose proof (S 24 ltac:(lia)) as S3. pose proof (S 16 ltac:(lia)) as S2. pose proof (S 8 ltac:(lia)) as S1.
  change (24 + 8) with 32 in S3. change (16 + 8) with 24 in S2. change (8 + 8) with 16 in S1.
  change (2 ^ 8) with 256 in *. lia.
Qed.

Lemma IPFromBytes_4 o1 o2 o3 o4 : isbyte o1 -> isbyte o2 -> isbyte o3 -> isbyte o4 ->
  IPFromBytes [o1; o2; o3; o4] = Some (mkip 0 (o1 * 2 ^ 24 + o2 * 2 ^ 16 + o3 * 2 ^ 8 + o4) true).
Proof.
  intros. unfold IPFromBytes. change (To4 [o1; o2; o3; o4]) with (Some [o1; o2; o3; o4]).
  cbv beta iota.
  change (byte_nth [o1; o2; o3; o4] 0) with o1. change (byte_nth [o1; o2; o3; o4] 1) with o2.
  change (byte_nth [o1; o2; o3; o4] 2) with o3. change (byte_nth [o1; o2; o3; o4] 3) with o4.
  rewrite IPv4FromOctets_spec by assumption. reflexivity.
Qed.

(* ---------- IPv4 text ---------- *)

Lemma last_char_indep (s : str) d d' : (0 < length s)%nat -> last_char s d = last_char s d'.
Proof. destruct s as [|c s]; [cbn; lia|]. intros _. apply last_cons_indep. Qed.

Lemma parse4_octet_dot o r i len prev pos fields :
  isbyte o -> 0 <= i -> i + Z.of_nat (length (fmt_dec o)) < len - 1 -> 0 <= pos < 3 ->
  parse4_loop (fmt_dec o ++ c_dot :: r) i len prev 0 pos 0 fields =
  parse4_loop r (i + Z.of_nat (length (fmt_dec o)) + 1) len c_dot 0 (pos + 1) 0 (fields ++ [o]).
Proof.
  intros Ho Hi Hlen Hpos. destruct (octet_facts o Ho) as (Hd & Hl & Hlast & _).
  rewrite (parse4_digits _ _ _ _ _ _ _ _ _ _ _ Hd).
  cbn [parse4_loop]. change (is_digit c_dot) with false. change (c_dot =? c_dot) with true. cbv iota.
  rewrite (last_char_indep _ prev (-1)) by exact Hl. rewrite Hlast.
  destruct (Z.eqb_spec (i + Z.of_nat (length (fmt_dec o))) 0); [lia|].
  destruct (Z.eqb_spec (i + Z.of_nat (length (fmt_dec o))) (len - 1)); [lia|].
  destruct (Z.eqb_spec pos 3); [lia|]. cbn [orb].
  unfold wconv. rewrite wrap_small by (rewrite p8; exact Ho). reflexivity.
Qed.

Lemma parse4_octet_end o i len prev fields :
  isbyte o ->
  parse4_loop (fmt_dec o) i len prev 0 3 0 fields = Some (fields, o, 3).
Proof.
  intros Ho. destruct (octet_facts o Ho) as (Hd & _).
  rewrite <- (app_nil_r (fmt_dec o)). rewrite (parse4_digits _ _ _ _ _ _ _ _ _ _ _ Hd). reflexivity.
Qed.

Lemma first_sep_digits ds r : forallb is_digit ds = true -> first_sep (ds ++ c_dot :: r) = c_dot.
Proof.
  induction ds as [|c ds IH]; intros H; [reflexivity|].
  cbn [forallb] in H. apply andb_true_iff in H. destruct H as [Hc H].
  cbn [app first_sep]. unfold is_digit in Hc. apply andb_true_iff in Hc. destruct Hc as [H1 H2].
  apply Z.leb_le in H1, H2. unfold c_dot, c_colon.
  destruct (Z.eqb_spec c 46); [lia|]. destruct (Z.eqb_spec c 58); [lia|]. destruct (Z.eqb_spec c 37); [lia|].
  apply IH, H.
Qed.

Definition dotted (o1 o2 o3 o4 : Z) : str :=
  fmt_dec o1 ++ [c_dot] ++ fmt_dec o2 ++ [c_dot] ++ fmt_dec o3 ++ [c_dot] ++ fmt_dec o4.

Lemma ParseIP_dotted o1 o2 o3 o4 : isbyte o1 -> isbyte o2 -> isbyte o3 -> isbyte o4 ->
  ParseIP (dotted o1 o2 o3 o4) = Some ([0; 0; 0; 0; 0; 0; 0; 0; 0; 0; 255; 255] ++ [o1; o2; o3; o4]).
Proof.
  intros H1 H2 H3 H4.
  destruct (octet_facts o1 H1) as (_ & L1 & _ & D1). destruct (octet_facts o2 H2) as (_ & L2 & _ & _).
  destruct (octet_facts o3 H3) as (_ & L3 & _ & _). destruct (octet_facts o4 H4) as (_ & L4 & _ & _).
  unfold ParseIP, dotted. cbn [app].
  rewrite first_sep_digits by exact D1. change (c_dot =? c_dot) with true. cbv iota.
  unfold parseIPv4.
  set (len := Z.of_nat (length (fmt_dec o1 ++ c_dot :: fmt_dec o2 ++ c_dot :: fmt_dec o3 ++ c_dot :: fmt_dec o4))).
  assert (Hlen : len = Z.of_nat (length (fmt_dec o1)) + 1 + Z.of_nat (length (fmt_dec o2)) + 1
                       + Z.of_nat (length (fmt_dec o3)) + 1 + Z.of_nat (length (fmt_dec o4))).
  { unfold len. rewrite !app_length. cbn [length]. rewrite !app_length. cbn [length]. rewrite !app_length.
    cbn [length]. lia. }
  rewrite parse4_octet_dot by (auto; lia).
  rewrite parse4_octet_dot by (auto; lia).
  rewrite parse4_octet_dot by (auto; lia).
  change (0 + 1 + 1 + 1) with 3. rewrite parse4_octet_end by assumption.
  cbn [Z.ltb Z.compare Pos.compare Pos.compare_cont app].
  unfold wconv. rewrite wrap_small by (rewrite p8; exact H4). reflexivity.
Qed.

Lemma bytesIPv4_spec a : 0 <= lo a < 2 ^ 32 ->
  bytesIPv4 a = [(lo a / 2 ^ 24) mod 256; (lo a / 2 ^ 16) mod 256; (lo a / 2 ^ 8) mod 256; lo a mod 256].
Proof.
  intros H. unfold bytesIPv4. rewrite ToUint32_small by exact H.
  assert (H64 : 0 <= lo a < 2 ^ 64) by (pose proof (pow2_lt 32 64 ltac:(lia)); lia).
  rewrite !byte_at_spec by lia. rewrite low_byte_spec by lia. reflexivity.
Qed.

Theorem parse_format4 a : wf_ip a -> legacy a = true ->
  ip_string a = Some (stringIPv4 a) /\ IPFromString (stringIPv4 a) = Some a.
Proof.
  intros W F. destruct (wf4 _ W F) as [H0 R]. unfold ip_string. rewrite F. split; [reflexivity|].
  unfold stringIPv4, Bytes. rewrite F. cbn [negb]. rewrite bytesIPv4_spec by exact R.
  set (o1 := (lo a / 2 ^ 24) mod 256). set (o2 := (lo a / 2 ^ 16) mod 256).
  set (o3 := (lo a / 2 ^ 8) mod 256). set (o4 := lo a mod 256).
  change (byte_nth [o1; o2; o3; o4] 0) with o1. change (byte_nth [o1; o2; o3; o4] 1) with o2.
  change (byte_nth [o1; o2; o3; o4] 2) with o3. change (byte_nth [o1; o2; o3; o4] 3) with o4.
  assert (B1 : isbyte o1) by (apply Z.mod_pos_bound; lia). assert (B2 : isbyte o2) by (apply Z.mod_pos_bound; lia).
  assert (B3 : isbyte o3) by (apply Z.mod_pos_bound; lia). assert (B4 : isbyte o4) by (apply Z.mod_pos_bound; lia).
  fold (dotted o1 o2 o3 o4). unfold IPFromString. rewrite ParseIP_dotted by assumption.
  change (To4 ([0; 0; 0; 0; 0; 0; 0; 0; 0; 0; 255; 255] ++ [o1; o2; o3; o4])) with (Some [o1; o2; o3; o4]).
  cbv beta iota. rewrite IPFromBytes_4 by assumption. f_equal.
  unfold o1, o2, o3, o4. rewrite <- word32_of_bytes by lia. rewrite Z.mod_small by exact R.
  destruct a as [h l f]. cbn [hi lo legacy] in *. subst. reflexivity.
Qed.

(* ---------- IPv6 text ---------- *)

Definition mapped_bytes (p : list Z) : bool :=
  forallb (fun x => x =? 0) (firstn 10 p) && (byte_nth p 10 =? 255) && (byte_nth p 11 =? 255).

Lemma To4_16 (b0 b1 b2 b3 b4 b5 b6 b7 b8 b9 b10 b11 b12 b13 b14 b15 : Z) :
  let p := [b0; b1; b2; b3; b4; b5; b6; b7; b8; b9; b10; b11; b12; b13; b14; b15] in
  To4 p = if mapped_bytes p then Some [b12; b13; b14; b15] else None.
Proof. reflexivity. Qed.

Lemma mapped_bytes_16 (b0 b1 b2 b3 b4 b5 b6 b7 b8 b9 b10 b11 b12 b13 b14 b15 : Z) :
  mapped_bytes [b0; b1; b2; b3; b4; b5; b6; b7; b8; b9; b10; b11; b12; b13; b14; b15] = true <->
  b0 = 0 /\ b1 = 0 /\ b2 = 0 /\ b3 = 0 /\ b4 = 0 /\ b5 = 0 /\ b6 = 0 /\ b7 = 0 /\ b8 = 0 /\ b9 = 0 /\
  b10 = 255 /\ b11 = 255.
Proof.
  unfold mapped_bytes. cbn [firstn forallb].
  change (byte_nth [b0; b1; b2; b3; b4; b5; b6; b7; b8; b9; b10; b11; b12; b13; b14; b15] 10) with b10.
  change (byte_nth [b0; b1; b2; b3; b4; b5; b6; b7; b8; b9; b10; b11; b12; b13; b14; b15] 11) with b11.
  rewrite !andb_true_iff, !Z.eqb_eq. tauto.
Qed.

Lemma word8_mapped b12 b13 b14 b15 : isbyte b12 -> isbyte b13 -> isbyte b14 -> isbyte b15 ->
  word8 0 0 255 255 b12 b13 b14 b15 / 2 ^ 32 = 65535 /\
  word8 0 0 255 255 b12 b13 b14 b15 mod 2 ^ 32 = b12 * 2 ^ 24 + b13 * 2 ^ 16 + b14 * 2 ^ 8 + b15.
Proof.
  unfold isbyte, word8. intros.
  change (2 ^ 56) with 72057594037927936. change (2 ^ 48) with 281474976710656.
  change (2 ^ 40) with 1099511627776. change (2 ^ 32) with 4294967296.
  change (2 ^ 24) with 16777216. change (2 ^ 16) with 65536. change (2 ^ 8) with 256.
  set (r := b12 * 16777216 + b13 * 65536 + b14 * 256 + b15).
  assert (Hr : 0 <= r < 4294967296) by (unfold r; lia).
  replace (0 * 72057594037927936 + 0 * 281474976710656 + 255 * 1099511627776 + 255 * 4294967296
           + b12 * 16777216 + b13 * 65536 + b14 * 256 + b15) with (65535 * 4294967296 + r) by (unfold r; lia).
  split.
  - rewrite Z.div_add_l by lia. rewrite Z.div_small by lia. lia.
  - rewrite Z.add_comm, Z.mod_add by lia. apply Z.mod_small. lia.
Qed.

Lemma v4mapped_bytes a : 0 <= hi a < 2 ^ 64 -> 0 <= lo a < 2 ^ 64 ->
  (mapped_bytes (bytesIPv6 a) = true <-> v4mapped a).
Proof.
  intros Hh Hl. unfold bytesIPv6. rewrite mapped_bytes_16.
  pose proof (word8_of (hi a) Hh) as Wh. pose proof (word8_of (lo a) Hl) as Wl.
  assert (B : forall k, 0 <= k -> isbyte (byte_at (lo a) k)) by (intros; apply byte_at_byte; lia).
  pose proof (low_byte_byte (lo a) ltac:(lia)) as Bl.
  unfold v4mapped. split.
  - intros (E0 & E1 & E2 & E3 & E4 & E5 & E6 & E7 & E8 & E9 & E10 & E11).
    rewrite E0, E1, E2, E3, E4, E5, E6, E7 in Wh. rewrite E8, E9, E10, E11 in Wl.
    split; [rewrite <- Wh; reflexivity|].
    rewrite <- Wl. apply word8_mapped; auto; apply B; lia.
  - intros [E0 E1]. rewrite E0.
    assert (D : forall k, 0 <= k -> lo a / 2 ^ (32 + k) = 65535 / 2 ^ k).
    { intros k Hk. rewrite Z.pow_add_r by lia. rewrite <- Z.div_div by (try apply Z.pow_pos_nonneg; lia).
      rewrite E1. reflexivity. }
    rewrite !byte_at_spec by lia.
    change 56 with (32 + 24). change 48 with (32 + 16). change 40 with (32 + 8).
    rewrite !D by lia. change (2 ^ 32) with (2 ^ (32 + 0)). rewrite D by lia.
    repeat split; reflexivity.
Qed.

Theorem parse_format6 a : wf_ip a -> legacy a = false ->
  exists s, ip_string a = Some s /\
            IPFromString s = Some (if mapped_bytes (bytesIPv6 a)
                                   then mkip 0 (lo a mod 2 ^ 32) true else a).
Proof.
  intros W F. destruct (wf6 _ W F) as [Hh Hl].
  pose proof (bytesIPv6_bytes a Hh Hl) as HB.
  unfold ip_string, stringIPv6, Bytes. rewrite F. cbn [negb].
  destruct (string6_ParseIP _ _ _ _ _ _ _ _ _ _ _ _ _ _ _ _ HB) as (s & Hs & Hp).
  fold (bytesIPv6 a) in Hs, Hp. unfold string6_of in Hs.
  exists s. split; [exact Hs|]. unfold IPFromString. rewrite Hp.
  unfold bytesIPv6 at 1. rewrite To4_16. fold (bytesIPv6 a).
  destruct (mapped_bytes (bytesIPv6 a)) eqn:M.
  - (* IPv4-mapped: the low four bytes come back as an IPv4 address *)
    assert (B : forall k, 0 <= k -> isbyte (byte_at (lo a) k)) by (intros; apply byte_at_byte; lia).
    pose proof (low_byte_byte (lo a) ltac:(lia)) as Bl.
    rewrite IPFromBytes_4 by (first [apply B; lia | exact Bl]). do 2 f_equal.
    apply (v4mapped_bytes a Hh Hl) in M.
    pose proof M as M'. apply (v4mapped_bytes a Hh Hl) in M'. unfold bytesIPv6 in M'.
    rewrite mapped_bytes_16 in M'.
    destruct M' as (_ & _ & _ & _ & _ & _ & _ & _ & E8 & E9 & E10 & E11).
    pose proof (word8_of (lo a) Hl) as Wl. rewrite E8, E9, E10, E11 in Wl.
    rewrite <- Wl at 5. symmetry. apply word8_mapped; auto; apply B; lia.
  - (* a proper IPv6 address *)
    unfold IPFromBytes. unfold bytesIPv6 at 1. rewrite To4_16. fold (bytesIPv6 a). rewrite M.
    change (Z.of_nat (length (bytesIPv6 a)) =? 16) with true. cbv iota.
    rewrite blocks_of_bytesIPv6 by assumption.
    destruct a as [h l f]. cbn [hi lo legacy] in *. subst. reflexivity.
Qed.

Theorem parse_format6_partial a : wf_ip a -> legacy a = false -> ~ v4mapped a ->
  exists s, ip_string a = Some s /\ IPFromString s = Some a.
Proof.
  intros W F NM. destruct (wf6 _ W F) as [Hh Hl].
  destruct (parse_format6 a W F) as (s & Hs & Hp). exists s. split; [exact Hs|].
  destruct (mapped_bytes (bytesIPv6 a)) eqn:M; [|exact Hp].
  exfalso. apply NM. apply (v4mapped_bytes a Hh Hl). exact M.
Qed.

Theorem parse_format6_v4mapped a : wf_ip a -> legacy a = false -> v4mapped a ->
  exists s, ip_string a = Some s /\ IPFromString s = Some (mkip 0 (lo a mod 2 ^ 32) true).
Proof.
  intros W F M. destruct (wf6 _ W F) as [Hh Hl].
  destruct (parse_format6 a W F) as (s & Hs & Hp). exists s. split; [exact Hs|].
  apply (v4mapped_bytes a Hh Hl) in M. rewrite M in Hp. exact Hp.
Qed.

(* String never fails (the fuel of the two loops suffices) *)
Theorem ip_string_total a : wf_ip a -> exists s, ip_string a = Some s.
Proof.
  intros W. destruct (legacy a) eqn:F.
  - exists (stringIPv4 a). apply parse_format4; assumption.
  - destruct (parse_format6 a W F) as (s & Hs & _). exists s. exact Hs.
Qed.

(* the full round trip is false: witness ::ffff:1.2.3.4 *)
Theorem parse_format6_refuted :
  exists a, wf_ip a /\ legacy a = false /\
            exists s, ip_string a = Some s /\ IPFromString s <> Some a.
Proof.
  exists (mkip 0 281470698652420 false). split; [|split; [reflexivity|]].
  - unfold wf_ip. cbn [legacy hi lo]. repeat split; vm_compute; congruence.
  - eexists. split; [vm_compute; reflexivity|]. vm_compute. discriminate.
Qed.
