(* C33 proofs: an invariant of the per-interface state that every device update preserves. *)
From Coq Require Import List Bool Arith Lia.
Import ListNotations.
From BioVerif Require Import Model.Ifa Spec.IfaSpec.

Definition link_up (f : ifa) : bool := dev_known f && oper_up f.

(* Between two events: the done channel is open; a passive interface owns nothing; an active
   interface whose link is up runs both routines on an open handle with a live ticker; an active
   interface whose link is not up runs nothing and its handle (if any) is closed. *)
Definition inv (f : ifa) : Prop :=
  subscribed f = true /\ done_closed f = false /\
  (if passive f then
     eth f = NoHandle /\ initialized f = false /\ sender f = false /\ receiver f = false
   else if link_up f then
     initialized f = true /\ eth f = Open /\ sender f = true /\ receiver f = true /\ ticker_live f = true
   else
     initialized f = false /\ sender f = false /\ receiver f = false /\ eth f <> Open).

Lemma inv_new : forall p, inv (new_ifa p).
Proof.
  intros p. unfold inv, new_ifa, link_up. simpl. destruct p; repeat split; congruence.
Qed.

Lemma device_update_inv : forall f up, inv f ->
  exists f', device_update f up = Ok f' /\ inv f' /\ passive f' = passive f /\ link_up f' = up.
Proof.
  intros f up Hinv.
  destruct f as [p k u i d e n t s r sb].
  unfold inv, link_up in Hinv. simpl in Hinv.
  destruct Hinv as [Hsb [Hd Hrest]]. subst d sb.
  destruct p.
  - (* passive *)
    destruct Hrest as (He & Hi & Hs & Hr). subst e i s r.
    destruct k, u, up; unfold device_update, start, stop, settle, inv, link_up; simpl;
      eexists; (split; [reflexivity |]); simpl; repeat split; congruence.
  - destruct (k && u) eqn:Hku.
    + (* active, link up *)
      destruct Hrest as (Hi & He & Hs & Hr & Ht). subst i e s r t.
      apply andb_true_iff in Hku. destruct Hku as [Hk Hu]. subst k u.
      destruct up; unfold device_update, start, stop, settle, inv, link_up; simpl;
        eexists; (split; [reflexivity |]); simpl; repeat split; congruence.
    + (* active, link not up *)
      destruct Hrest as (Hi & Hs & Hr & He). subst i s r.
      destruct k, u; try discriminate Hku;
        destruct up; unfold device_update, start, stop, settle, inv, link_up; simpl;
        eexists; (split; [reflexivity |]); simpl; repeat split; congruence.
Qed.

Lemma deliver_head : forall f up, inv f -> deliver head_discipline f up = device_update f up.
Proof.
  intros f up [Hsb _]. unfold deliver. rewrite Hsb. cbn [stop_unsubscribes head_discipline andb].
  destruct (device_update f up); reflexivity.
Qed.

Lemma update_nth_inv : forall i s up, Forall inv s ->
  exists s', update_nth head_discipline i s up = Ok s' /\ Forall inv s' /\ length s' = length s /\
    forall j, match nth_error s j, nth_error s' j with
              | Some f, Some f' => passive f' = passive f /\
                                   link_up f' = (if Nat.eqb j i then up else link_up f)
              | None, None => True
              | _, _ => False
              end.
Proof.
  induction i as [| i IH]; intros s up Hall.
  - destruct s as [| f r].
    + exists []. simpl. repeat split; auto. intros j. destruct j; simpl; auto.
    + inversion Hall as [| ? ? Hf Hr]; subst.
      destruct (device_update_inv f up Hf) as (f' & Hdu & Hinv' & Hp & Hl).
      exists (f' :: r). simpl. rewrite (deliver_head f up Hf), Hdu. simpl. repeat split; auto.
      intros j. destruct j as [| j]; simpl.
      * split; auto.
      * destruct (nth_error r j); auto.
  - destruct s as [| f r].
    + exists []. simpl. repeat split; auto. intros j. destruct j; simpl; auto.
    + inversion Hall as [| ? ? Hf Hr]; subst.
      destruct (IH r up Hr) as (r' & Hup & Hall' & Hlen & Hnth).
      exists (f :: r'). simpl. rewrite Hup. simpl. repeat split; auto.
      intros j. destruct j as [| j]; simpl.
      * split; auto.
      * apply Hnth.
Qed.

Lemma regen_ok : forall s, regen s = Ok tt.
Proof.
  induction s as [| f r IH]; simpl; auto.
  destruct (dev_known f) eqn:Hk; simpl; auto.
Qed.

Lemma psnp_ok : forall s, psnp_tick s = Ok tt.
Proof.
  induction s as [| f r IH]; simpl; auto.
  destruct (passive f); simpl; auto.
  destruct (eth f); simpl; auto.
Qed.

Definition hello_count (f : ifa) : nat := if sends_hellos f then 1 else 0.

Lemma hello_tick_ok : forall s, Forall inv s -> hello_tick s = Ok (map hello_count s).
Proof.
  induction s as [| f r IH]; intros Hall; simpl; auto.
  inversion Hall as [| ? ? Hf Hr]; subst.
  rewrite (IH Hr).
  unfold hello_count, sends_hellos.
  destruct Hf as [_ [_ Hf]].
  destruct (passive f).
  - destruct Hf as (He & _ & Hs & _). rewrite Hs. simpl. reflexivity.
  - destruct (link_up f).
    + destruct Hf as (_ & He & Hs & _ & Ht). rewrite He, Hs, Ht. simpl. reflexivity.
    + destruct Hf as (_ & Hs & _ & _). rewrite Hs. simpl. reflexivity.
Qed.

Lemma life_ok : forall s, Forall inv s -> life s = Ok (map hello_count s).
Proof.
  intros s Hall. unfold life. rewrite regen_ok. simpl. rewrite psnp_ok. simpl.
  apply hello_tick_ok; auto.
Qed.

(* a tick or a frame arriving while DeviceUpdate holds the lock, under HEAD's discipline: the
   update itself proceeds as without it; a tick yields one more hello iff the sender was sending *)
Definition during_hellos (f : ifa) (w : during) : nat :=
  match w with TickDuring => hello_count f | FrameDuring => 0%nat end.

Lemma device_update_during_inv : forall f up w, inv f ->
  exists f', device_update_during head_discipline f up w = Ok (f', during_hellos f w) /\
             device_update f up = Ok f'.
Proof.
  intros f up w Hinv.
  destruct (device_update_inv f up Hinv) as (f' & Hdu & _).
  exists f'. split; [| exact Hdu].
  unfold device_update_during, head_discipline. cbn [sender_locks receiver_locks].
  rewrite !andb_false_r. rewrite Hdu.
  unfold during_hellos, hello_count, sends_hellos.
  destruct Hinv as [_ [_ Hi]]. destruct w; cbn [bind].
  - destruct (passive f).
    + destruct Hi as (_ & _ & Hs & _). rewrite Hs. simpl. destruct (dev_known f && oper_up f && negb up); reflexivity.
    + destruct (link_up f).
      * destruct Hi as (_ & He & Hs & _ & Ht). rewrite He, Hs, Ht. simpl.
        destruct (dev_known f && oper_up f && negb up); reflexivity.
      * destruct Hi as (_ & Hs & _ & _). rewrite Hs. simpl.
        destruct (dev_known f && oper_up f && negb up); reflexivity.
  - simpl. destruct (dev_known f && oper_up f && negb up); reflexivity.
Qed.

Lemma update_nth_during_ok : forall i s up w, Forall inv s ->
  exists s', update_nth head_discipline i s up = Ok s' /\
    update_nth_during head_discipline i s up w =
      Ok (s', match nth_error s i with Some f => during_hellos f w | None => 0%nat end).
Proof.
  induction i as [| i IH]; intros s up w Hall.
  - destruct s as [| f r]; [exists []; split; reflexivity |].
    inversion Hall as [| ? ? Hf Hr]; subst.
    destruct (device_update_during_inv f up w Hf) as (f' & Hd & Hu).
    exists (f' :: r). simpl. rewrite (deliver_head f up Hf), Hu. rewrite (proj1 Hf), Hd. simpl. split; reflexivity.
  - destruct s as [| f r]; [exists []; split; reflexivity |].
    inversion Hall as [| ? ? Hf Hr]; subst.
    destruct (IH r up w Hr) as (r' & Hu & Hd).
    exists (f :: r'). simpl. rewrite Hu, Hd. simpl. split; reflexivity.
Qed.

Definition ev_target (e : event) : nat * bool :=
  match e with Dev i up => (i, up) | DevDuring i up _ => (i, up) end.

Definition ev_during (s : srv) (e : event) : nat :=
  match e with
  | Dev _ _ => 0%nat
  | DevDuring i _ w => match nth_error s i with Some f => during_hellos f w | None => 0%nat end
  end.

Lemma step_inv : forall s e, Forall inv s ->
  exists s', step head_discipline s e = Ok (s', (ev_during s e, map hello_count s')) /\ Forall inv s' /\
      forall j, match nth_error s j, nth_error s' j with
                | Some f, Some f' => passive f' = passive f /\
                                     link_up f' = (if Nat.eqb j (fst (ev_target e)) then snd (ev_target e) else link_up f)
                | None, None => True
                | _, _ => False
                end.
Proof.
  intros s e Hall. destruct e as [i up | i up w].
  - destruct (update_nth_inv i s up Hall) as (s' & Hup & Hall' & _ & Hnth).
    exists s'. unfold step. rewrite Hup. simpl. rewrite (life_ok s' Hall'). simpl.
    repeat split; auto.
  - destruct (update_nth_inv i s up Hall) as (s' & Hup & Hall' & _ & Hnth).
    destruct (update_nth_during_ok i s up w Hall) as (s'' & Hup' & Hd).
    rewrite Hup in Hup'. injection Hup' as <-.
    exists s'. unfold step. rewrite Hd. simpl. rewrite (life_ok s' Hall'). simpl.
    repeat split; auto.
Qed.

Lemma run_inv : forall evs s, Forall inv s ->
  exists s', run head_discipline s evs = Ok s' /\ Forall inv s' /\
    forall j, match nth_error s j, nth_error s' j with
              | Some f, Some f' => passive f' = passive f /\
                                   link_up f' = last_up evs j (link_up f)
              | None, None => True
              | _, _ => False
              end.
Proof.
  induction evs as [| e r IH]; intros s Hall.
  - exists s. simpl. repeat split; auto.
    intros j. destruct (nth_error s j); auto.
  - destruct (step_inv s e Hall) as (s1 & Hstep & Hall1 & Hnth1).
    destruct (IH s1 Hall1) as (s2 & Hrun & Hall2 & Hnth2).
    exists s2. simpl. rewrite Hstep. simpl. repeat split; auto.
    intros j. specialize (Hnth2 j). specialize (Hnth1 j).
    destruct (nth_error s j) as [f |], (nth_error s1 j) as [f1 |], (nth_error s2 j) as [f2 |];
      try contradiction; auto.
    destruct Hnth1 as [Hp1 Hl1]. destruct Hnth2 as [Hp2 Hl2].
    split; [congruence |]. rewrite Hl2, Hl1. destruct e as [i up | i up w]; reflexivity.
Qed.

Lemma init_inv : forall kinds, Forall inv (init kinds).
Proof.
  intros kinds. unfold init. apply Forall_forall. intros f Hin.
  apply in_map_iff in Hin. destruct Hin as (p & Hp & _). subst f. apply inv_new.
Qed.

Lemma init_nth : forall kinds j,
  match nth_error (init kinds) j with
  | Some f => link_up f = false
  | None => True
  end.
Proof.
  intros kinds j. unfold init. rewrite nth_error_map.
  destruct (nth_error kinds j); simpl; auto.
Qed.

Theorem no_panic : forall kinds evs, survives kinds evs.
Proof.
  intros kinds evs. destruct (run_inv evs (init kinds) (init_inv kinds)) as (s' & Hrun & _).
  exists s'. exact Hrun.
Qed.

Lemma after_run : forall kinds evs s i f,
  run head_discipline (init kinds) evs = Ok s -> nth_error s i = Some f ->
  inv f /\ link_up f = last_up evs i false.
Proof.
  intros kinds evs s i f Hrun Hnth.
  destruct (run_inv evs (init kinds) (init_inv kinds)) as (s' & Hrun' & Hall & Hn).
  rewrite Hrun in Hrun'. injection Hrun' as Hs. subst s'.
  split.
  - eapply Forall_forall; [exact Hall |]. eapply nth_error_In; eauto.
  - specialize (Hn i). rewrite Hnth in Hn. pose proof (init_nth kinds i) as Hi.
    destruct (nth_error (init kinds) i) as [f0 |]; [| contradiction].
    destruct Hn as [_ Hl]. rewrite Hl, Hi. reflexivity.
Qed.

Theorem hellos_after_up_all : forall kinds evs, hellos_after_up kinds evs.
Proof.
  intros kinds evs s i f Hrun Hnth Hact Hlast.
  destruct (after_run kinds evs s i f Hrun Hnth) as [[_ [_ Hinv]] Hl].
  rewrite Hact in Hinv. rewrite Hl, Hlast in Hinv.
  destruct Hinv as (_ & He & Hs & Hr & Ht).
  unfold sends_hellos, can_form_adjacency. rewrite He, Hs, Hr, Ht. auto.
Qed.

Theorem quiet_otherwise_all : forall kinds evs, quiet_otherwise kinds evs.
Proof.
  intros kinds evs s i f Hrun Hnth Hcase.
  destruct (after_run kinds evs s i f Hrun Hnth) as [[_ [_ Hinv]] Hl].
  unfold sends_hellos, can_form_adjacency.
  destruct (passive f) eqn:Hp.
  - destruct Hinv as (_ & _ & Hs & Hr). rewrite Hs, Hr. auto.
  - destruct Hcase as [Hc | Hc]; [discriminate |].
    rewrite Hl, Hc in Hinv. destruct Hinv as (_ & Hs & Hr & _). rewrite Hs, Hr. auto.
Qed.

(* every step's hello output is what sends_hellos says: about the state before the step for the
   hello a tick during the update produces, about the new state for the following interval *)
Theorem step_output : forall kinds evs s e,
  run head_discipline (init kinds) evs = Ok s ->
  exists s', step head_discipline s e = Ok (s', (ev_during s e, map hello_count s')).
Proof.
  intros kinds evs s e Hrun.
  destruct (run_inv evs (init kinds) (init_inv kinds)) as (s0 & Hrun' & Hall & _).
  rewrite Hrun in Hrun'. injection Hrun' as Hs. subst s0.
  destruct (step_inv s e Hall) as (s' & Hstep & _). exists s'. exact Hstep.
Qed.

(* ---- the flipped discipline: a hello sender that takes the interface lock ---- *)

(* in ANY state between events in which an active interface's link is up, a link-down update during
   which the hello ticker fires blocks for good when the sender takes nifa.mu *)
Theorem sender_lock_blocks : forall f rl us, inv f -> passive f = false -> link_up f = true ->
  device_update_during (mkDisc true rl us) f false TickDuring = Blocked WaitHelloSender.
Proof.
  intros f rl us [_ [_ Hi]] Hp Hl. rewrite Hp, Hl in Hi. destruct Hi as (_ & He & Hs & _ & Ht).
  unfold device_update_during. unfold link_up in Hl. rewrite Hl, Hs, Ht, He. reflexivity.
Qed.

(* the same for a receiver that takes it *)
Theorem receiver_lock_blocks : forall f sl us, inv f -> passive f = false -> link_up f = true ->
  device_update_during (mkDisc sl true us) f false FrameDuring = Blocked WaitReceiver.
Proof.
  intros f sl us [_ [_ Hi]] Hp Hl. rewrite Hp, Hl in Hi. destruct Hi as (_ & He & _ & Hr & _).
  unfold device_update_during. unfold link_up in Hl. rewrite Hl, Hr, He. reflexivity.
Qed.

(* ---- the subscription with the device server ---- *)

Theorem stays_subscribed : forall kinds evs s i f,
  run head_discipline (init kinds) evs = Ok s -> nth_error s i = Some f -> subscribed f = true.
Proof.
  intros kinds evs s i f Hrun Hnth.
  destruct (after_run kinds evs s i f Hrun Hnth) as [[Hsb _] _]. exact Hsb.
Qed.

(* flipped wiring: _stop gives the subscription up - the interface never hears the link come back *)
Theorem unsubscribe_in_stop_loses_link_up :
  match run (mkDisc false false true) (init [false]) [Dev 0 true; Dev 0 false; Dev 0 true] with
  | Ok [f] => subscribed f = false /\ sends_hellos f = false /\
              last_up [Dev 0 true; Dev 0 false; Dev 0 true] 0 false = true
  | _ => False
  end.
Proof. vm_compute. repeat split; reflexivity. Qed.
