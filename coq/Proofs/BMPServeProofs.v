(* C27: Router.serve (Model/BMPRouter.v) on any byte stream: no panic, no fuel exhaustion, every
   message consumes at least its 6 byte header, BMP-layer allocation linear in the bytes received. *)
From Coq Require Import List NArith ZArith Bool Lia ZifyBool ZifyNat ZifyN.
Import ListNotations.
From BioVerif Require Import Model.BMPCodec Model.BMPRouter Proofs.BMPCodecProofs.
Open Scope N_scope.

Lemma term_tlvs_never_panic : forall ts, term_tlvs_panic ts = false.
Proof.
  induction ts as [|t r IH]; [reflexivity|].
  cbn [term_tlvs_panic]. destruct (t_type t =? 1); [|exact IH].
  destruct (len (t_info t) <? 2) eqn:E; [exact IH|].
  unfold slice_to_panics. rewrite E. exact IH.
Qed.

Section Serve.
Variable open_decode : bytes -> option open_info.
Variable upd_apply : bool -> bool -> bool -> bytes -> list uevent.
Variable c : cfg.

Lemma process_msg_never_panics : forall st m, fst (process_msg open_decode upd_apply c st m) = POk.
Proof.
  intros st m. destruct m; cbn [process_msg fst]; try reflexivity.
  unfold termination. rewrite term_tlvs_never_panic. reflexivity.
Qed.

Lemma process_spec : forall st msg, framed msg ->
  fst (fst (process open_decode upd_apply c st msg)) = POk /\
  snd (process open_decode upd_apply c st msg) <= 4 * len msg + 1704.
Proof.
  intros st msg Hf. unfold process. pose proof (decode_spec msg Hf) as (S & C).
  destruct (decode msg) as [r k]. cbn [fst snd] in S, C.
  destruct r as [m| | |]; try contradiction; cbn [fst snd]; split; try lia; try reflexivity.
  apply process_msg_never_panics.
Qed.

Lemma bytes_ok_app : forall a b, bytes_ok (a ++ b) -> bytes_ok a /\ bytes_ok b.
Proof. intros a b H. unfold bytes_ok in *. apply Forall_app in H. exact H. Qed.

(* what recv hands over is framed *)
Lemma recv_framed : forall s m rest k, bytes_ok s -> recv s = RMsg m rest k ->
  framed m /\ bytes_ok rest /\ len m + len rest = len s /\ min_len <= len m /\
  k <= 4 * len m + default_buffer_len.
Proof.
  intros s m rest k Hb H. pose proof (recv_spec s) as R. rewrite H in R.
  destruct R as (R1 & R2 & R3 & R4 & R5). subst s. apply bytes_ok_app in Hb. destruct Hb as (Hm & Hr).
  repeat split; auto.
Qed.

Lemma run_stream_spec : forall fuel final st s cost frames,
  bytes_ok s -> (length s < fuel)%nat ->
  exists st' cost' frames',
    run_stream open_decode upd_apply c fuel final st s cost frames = SDone st' cost' frames' /\
    frames <= frames' /\
    6 * (frames' - frames) <= len s /\
    cost' <= cost + 8 * len s + 5800 * (frames' - frames + 1).
Proof.
  induction fuel as [|f IH]; intros final st s cost frames Hb Hf; [lia|].
  cbn [run_stream]. destruct (r_closed st).
  { eexists _, _, _. split; [reflexivity|]. unfold default_buffer_len. repeat split; lia. }
  destruct (negb final && (len s =? 0)).
  { eexists _, _, _. split; [reflexivity|]. repeat split; lia. }
  pose proof (recv_spec s) as RS.
  destruct (recv s) as [m rest k|k|k|] eqn:ER; try contradiction.
  - destruct (recv_framed _ _ _ _ Hb ER) as (Fm & Hr & L & Lm & Ck).
    pose proof (process_spec st m Fm) as (P1 & P2).
    destruct (process open_decode upd_apply c st m) as [[o st'] k2]. cbn [fst snd] in P1, P2. subst o.
    unfold min_len, default_buffer_len in *.
    assert (Hf' : (length rest < f)%nat) by (unfold len in *; lia).
    destruct (IH final st' rest (cost + k + k2) (frames + 1) Hr Hf') as (st2 & c2 & f2 & E & A1 & A2 & A3).
    exists st2, c2, f2. split; [exact E|]. repeat split; lia.
  - eexists _, _, _. split; [reflexivity|]. unfold default_buffer_len in *. repeat split; lia.
Qed.

Theorem serve_total : forall st s, bytes_ok s ->
  exists st' cost frames,
    serve open_decode upd_apply c st s = SDone st' cost frames /\
    6 * frames <= len s /\
    cost <= 8 * len s + 5800 * (frames + 1).
Proof.
  intros st s Hb. unfold serve.
  destruct (run_stream_spec (S (length s)) true st s 0 0 Hb (Nat.lt_succ_diag_r _))
    as (st' & c' & f' & E & A1 & A2 & A3).
  exists st', c', f'. split; [exact E|]. split; lia.
Qed.

(* the coarser form with constants only: c = 975, c' = 5800 *)
Corollary serve_alloc_linear : forall st s st' cost frames, bytes_ok s ->
  serve open_decode upd_apply c st s = SDone st' cost frames ->
  cost <= 975 * len s + 5800.
Proof.
  intros st s st' cost frames Hb H. destruct (serve_total st s Hb) as (st2 & c2 & f2 & E & A1 & A2).
  rewrite H in E. inversion E; subst. lia.
Qed.

Theorem serve_no_panic : forall st s, bytes_ok s ->
  (forall k f, serve open_decode upd_apply c st s <> SPanic k f) /\
  serve open_decode upd_apply c st s <> SFuel.
Proof.
  intros st s Hb. destruct (serve_total st s Hb) as (st2 & c2 & f2 & E & _). rewrite E.
  split; intros; discriminate.
Qed.

(* a history step on arriving bytes is total as well *)
Lemma step_total : forall st a, (forall f, a = AFrame f -> bytes_ok f) ->
  exists st' k n, step open_decode upd_apply c st a = SDone st' k n.
Proof.
  intros st a Hb. destruct a as [f| |]; cbn [step].
  - destruct (run_stream_spec (S (length f)) false st f 0 0 (Hb f eq_refl) (Nat.lt_succ_diag_r _))
      as (st' & c' & f' & E & _). eauto.
  - eauto.
  - eauto.
Qed.

End Serve.

(* every message consumes input: at least the common header *)
Theorem recv_consumes : forall s m rest k, recv s = RMsg m rest k -> len rest + 6 <= len s.
Proof.
  intros s m rest k H. pose proof (recv_spec s) as R. rewrite H in R.
  destruct R as (R1 & R2 & _). unfold min_len in *. lia.
Qed.

Theorem recv_never_panics : forall s, (forall k, recv s <> RPanic k) /\ recv s <> RFuel.
Proof.
  intros s. pose proof (recv_spec s) as R. destruct (recv s); try contradiction; split; intros; discriminate.
Qed.

Theorem decode_never_panics : forall msg, framed msg ->
  fst (decode msg) <> Panic /\ fst (decode msg) <> Fuel.
Proof.
  intros msg Hf. pose proof (decode_spec msg Hf) as (S & _).
  destruct (fst (decode msg)); try contradiction; split; discriminate.
Qed.

Lemma serve_never_panics :
  forall (open_decode : bytes -> option open_info) (upd_apply : bool -> bool -> bool -> bytes -> list uevent)
         (c : cfg) (st : rstate) (s : bytes),
  bytes_ok s ->
  forall k f, serve open_decode upd_apply c st s <> SPanic k f.
Proof. intros od ua c st s Hb. exact (proj1 (serve_no_panic od ua c st s Hb)). Qed.

Lemma fuel_suffices :
  (forall (open_decode : bytes -> option open_info) (upd_apply : bool -> bool -> bool -> bytes -> list uevent)
          (c : cfg) (st : rstate) (s : bytes),
     bytes_ok s -> serve open_decode upd_apply c st s <> SFuel) /\
  (forall s, recv s <> RFuel) /\
  (forall s m rest k, recv s = RMsg m rest k -> len rest + 6 <= len s) /\
  (forall msg, framed msg -> fst (decode msg) <> Fuel).
Proof.
  split; [intros od ua c st s Hb; exact (proj2 (serve_no_panic od ua c st s Hb))|].
  split; [intros s; exact (proj2 (recv_never_panics s))|].
  split; [exact recv_consumes|].
  intros msg Hf; exact (proj2 (decode_never_panics msg Hf)).
Qed.
