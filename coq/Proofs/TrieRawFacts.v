(* C01 companion: with host bits set (Model/TrieRaw.v) the trie is not a prefix map. *)
From Coq Require Import List Bool Arith ZArith NArith.
From BioVerif Require Import Lib.BitPfx Model.Trie Model.TrieRaw.
Import ListNotations.

Definition ten_slash8 : rpfx :=            (* 10.0.0.0/8 *)
  ipv4_prefix [false;false;false;false;true;false;true;false] false 8.
Definition ten_one_slash8 : rpfx :=        (* 10.0.0.1/8: same prefix, a host bit set *)
  ipv4_prefix [false;false;false;false;true;false;true;false] true 8.

(* Adding 10.0.0.0/8 and then 10.0.0.1/8: Equal says "different", neither Contains the other, so
   the trie builds a supernet node 10.0.0.0/7 and hangs both below it ON THE SAME SIDE: the
   second overwrites the first.  The first route is gone, the dump shows one route, the count
   says two. *)
Lemma noncanonical_breaks_trie :
  ten_slash8 <> ten_one_slash8 /\
  let t := r_run N N.eqb [Add _ _ ten_slash8 1%N; Add _ _ ten_one_slash8 2%N] in
  rt_get N t ten_slash8 = None /\
  rt_dump N t = [(ten_one_slash8, [2%N])] /\
  rt_count N t = 2%Z.
Proof. split; [discriminate|]. vm_compute. repeat split. Qed.
