(* C13: isolation over whole histories of a two-session world. *)
From Coq Require Import List NArith Bool Lia.
Import ListNotations.
From BioVerif Require Import Model.PathIDs Model.AdjRIBOut Model.Heap Spec.HeapSpec Proofs.HeapProofs.
Local Open Scope N_scope.

Section World.
  Variable P : Type.
  Variable apply : P -> N -> path -> option path.
  Variables sa sb : sess.

  Lemma wstep_ok : forall (w : world P) o,
    wfh (w_heap w) ->
    wfh (w_heap (wstep P apply sa sb w o)) /\ keeps (w_heap w) (w_heap (wstep P apply sa sb w o)).
  Proof.
    intros w [v sh|op|op] W; cbn [wstep].
    - destruct (hnew (w_heap w) v sh) as [h' o'] eqn:E. cbn [fst w_heap].
      eapply hnew_ok; eassumption.
    - pose proof (hstep_safe P apply sa op (w_heap w, w_a w) W) as S.
      destruct (hstep P apply sa (w_heap w, w_a w) op) as [h t]. cbn [fst w_heap] in *. exact S.
    - pose proof (hstep_safe P apply sb op (w_heap w, w_b w) W) as S.
      destruct (hstep P apply sb (w_heap w, w_b w) op) as [h t]. cbn [fst w_heap] in *. exact S.
  Qed.

  Lemma wrun_ok : forall ops (w : world P),
    wfh (w_heap w) ->
    wfh (w_heap (wrun P apply sa sb w ops)) /\ keeps (w_heap w) (w_heap (wrun P apply sa sb w ops)).
  Proof.
    induction ops as [|o ops IH]; intros w W; cbn [wrun fold_left].
    - split; [assumption|apply keeps_refl].
    - destruct (wstep_ok w o W) as [W1 K1].
      destruct (IH _ W1) as [W2 K2]. split; [assumption|eapply keeps_trans; eassumption].
  Qed.

  (* a route, once stored, reads the same after any continuation of the history *)
  Theorem isolation_history : forall ops (w : world P) oid,
    wfh (w_heap w) -> oid < nxt (w_heap w) ->
    read (w_heap (wrun P apply sa sb w ops)) oid = read (w_heap w) oid.
  Proof.
    intros ops w oid W L. destruct (wrun_ok ops w W) as [_ K]. now apply keeps_read.
  Qed.
End World.

(* one export-side operation *)
Theorem isolation_step :
  forall (P : Type) (apply : P -> N -> path -> option path) (s : sess) (x : heap * haro P) (o : hop P),
  wfh (fst x) ->
  let x' := hstep P apply s x o in
  wfh (fst x') /\
  (forall oid, oid < nxt (fst x) -> read (fst x') oid = read (fst x) oid) /\
  (forall k, k < nxt (fst x) -> blk_get k (blks (fst x')) = blk_get k (blks (fst x))) /\
  (forall tb : list N, Forall (fun oid => oid < nxt (fst x)) tb -> map (read (fst x')) tb = map (read (fst x)) tb).
Proof.
  intros P apply s x o W x'. destruct (hstep_safe P apply s o x W) as [W' K]. fold x' in W', K.
  split; [assumption|]. split; [|split].
  - intros oid L. now apply keeps_read.
  - intros k L. destruct K as [_ [_ K3]]. now apply K3.
  - intros tb F. apply map_ext_in. intros oid HI. rewrite Forall_forall in F. apply keeps_read; auto.
Qed.

(* the model can tell the difference: rewriting the Loc-RIB's object in place (the code before fix
   678760d8) changes what the Loc-RIB stores - and what everybody sharing the block stores *)
Definition bad_sess : sess := mkSess false false false false 65000 16843009 33686018 9 false 0.
Definition bad_path : bgp :=
  mkBgp 50529027 50529027 100 0 50529027 0 None true false 0 0 [(true, [65001])] 1 None None None [] 0.

Lemma in_place_breaks :
  let h1 := fst (hnew heap_empty (PBgp 0 bad_path) true) in      (* the Loc-RIB's object, id 0 *)
  let h2 := fst (hnew h1 (PBgp 0 bad_path) true) in              (* an Adj-RIB-In's object, id 2, same block *)
  let h3 := refresh_in_place bad_sess h2 0 in
  wfh h2 /\ read h3 0 <> read h2 0 /\ read h3 2 <> read h2 2.
Proof.
  cbn zeta. split; [|split].
  - destruct (hnew heap_empty (PBgp 0 bad_path) true) as [h1 o1] eqn:E1.
    destruct (hnew_ok _ _ _ _ _ wf_empty E1) as [W1 _]. cbn [fst].
    destruct (hnew h1 (PBgp 0 bad_path) true) as [h2 o2] eqn:E2.
    destruct (hnew_ok _ _ _ _ _ W1 E2) as [W2 _]. exact W2.
  - vm_compute. discriminate.
  - vm_compute. discriminate.
Qed.
