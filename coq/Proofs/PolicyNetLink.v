(* C14 <-> C15 link: the word-level Prefix.Equal / Prefix.Contains of Model/Policy.v (on N) are
   the functions of C15's hand-written model Model/NetArith.v (on Z, Lib/Word.v operators) and the
   functions regenerated from the Go source (Gen/NetGen.v), for ALL words and lengths (no range
   condition: both sides wrap in the same way).  Consequently the policy engine instantiated with
   the generated functions satisfies the reference-interpreter theorem.
   This file deliberately proves its own equivalence with the two generated functions it needs
   (and their callees) instead of importing C15's NetGenEquiv.v, so that only a change of
   Prefix.Equal / Prefix.Contains / containsIPv4/6 / IP.Equal / IP.ToUint32 breaks the C14
   obligation. *)
From Coq Require Import ZArith NArith Bool Lia List.
From BioVerif Require Import Lib.Word Lib.WordLemmas Model.NetArith Gen.NetGen.
From BioVerif Require Import Model.Policy Model.PolicyNet Spec.PolicyRef Proofs.PolicyBits Proofs.PolicyProofs Proofs.PolicySim.

(* ---- N <-> Z transfer *)

Lemma n2z_eqb a b : (Z.of_N a =? Z.of_N b)%Z = (a =? b)%N.
Proof.
  apply eq_iff_eq_true. rewrite Z.eqb_eq, N.eqb_eq. split; [apply N2Z.inj | intros; subst; reflexivity].
Qed.

Lemma n2z_leb a b : (Z.of_N a <=? Z.of_N b)%Z = (a <=? b)%N.
Proof.
  apply eq_iff_eq_true. rewrite Z.leb_le, N.leb_le. symmetry. apply N2Z.inj_le.
Qed.

Lemma n2z_land a b : Z.of_N (N.land a b) = Z.land (Z.of_N a) (Z.of_N b).
Proof. destruct a, b; reflexivity. Qed.

Lemma n2z_shiftl a n : Z.of_N (N.shiftl a n) = Z.shiftl (Z.of_N a) (Z.of_N n).
Proof.
  rewrite N.shiftl_mul_pow2, Z.shiftl_mul_pow2 by apply N2Z.is_nonneg.
  rewrite N2Z.inj_mul, N2Z.inj_pow. reflexivity.
Qed.

Lemma n2z_u8sub a b : Z.of_N (u8sub a b) = wsub 8 (Z.of_N a) (Z.of_N b).
Proof.
  unfold u8sub, wsub. rewrite wrap_mod by lia. rewrite N2Z.inj_mod.
  assert (Hb : (b mod 256 < 256)%N) by (apply N.mod_lt; discriminate).
  rewrite N2Z.inj_sub by lia. rewrite N2Z.inj_add, N2Z.inj_mod.
  change (Z.of_N 256) with 256%Z. change (2 ^ 8)%Z with 256%Z.
  replace (Z.of_N a + 256 - Z.of_N b mod 256)%Z with (Z.of_N a - Z.of_N b mod 256 + 1 * 256)%Z by lia.
  rewrite Z.mod_add by lia. apply Zminus_mod_idemp_r.
Qed.

(* MaxUintW << s on uintW *)
Lemma shl_max_z w s : (0 < w)%Z -> (0 <= s)%Z ->
  wshl w (maxu w) s = (Z.shiftl (maxu w) s mod 2 ^ w)%Z.
Proof.
  intros Hw Hs. unfold wshl. destruct (w <=? s)%Z eqn:E.
  - apply Z.leb_le in E. rewrite Z.shiftl_mul_pow2 by lia.
    replace s with ((s - w) + w)%Z by lia. rewrite Z.pow_add_r by lia.
    rewrite Z.mul_assoc. symmetry. apply Z.mod_mul. apply Z.pow_nonzero; lia.
  - apply wrap_mod. lia.
Qed.

Lemma n2z_shl32 s : Z.of_N (shl32 s) = wshl 32 (maxu 32) (Z.of_N s).
Proof.
  rewrite shl_max_z by (try lia; apply N2Z.is_nonneg).
  unfold shl32. rewrite N2Z.inj_mod, n2z_shiftl. reflexivity.
Qed.

Lemma n2z_shl64 s : Z.of_N (shl64 s) = wshl 64 (maxu 64) (Z.of_N s).
Proof.
  rewrite shl_max_z by (try lia; apply N2Z.is_nonneg).
  unfold shl64. rewrite N2Z.inj_mod, n2z_shiftl. reflexivity.
Qed.

Lemma n2z_to_u32 a : Z.of_N (to_u32 a) = ToUint32 (to_net_ip a).
Proof.
  unfold to_u32, ToUint32, to_net_ip, wconv, wand. cbn [NetArith.lo].
  change (wshr 64 (maxu 64) 32) with (Z.ones 32).
  rewrite Z.land_comm, Z.land_ones by lia.
  rewrite wrap_small by (apply Z.mod_pos_bound; lia).
  rewrite N2Z.inj_mod. reflexivity.
Qed.

(* ---- Policy.v = NetArith.v *)

Theorem equal_link p x : Policy.pfx_equal p x = NetArith.pfx_equal (to_net_pfx p) (to_net_pfx x).
Proof.
  unfold Policy.pfx_equal, NetArith.pfx_equal, ip_eqb, ip_equal, to_net_pfx, to_net_ip.
  cbn [NetArith.addr NetArith.plen NetArith.hi NetArith.lo NetArith.legacy].
  rewrite !n2z_eqb.
  destruct (Bool.eqb (ip_v4 (pf_addr p)) (ip_v4 (pf_addr x))),
           (ip_hi (pf_addr p) =? ip_hi (pf_addr x))%N, (ip_lo (pf_addr p) =? ip_lo (pf_addr x))%N; reflexivity.
Qed.

Lemma n2z_u8sub32 b : Z.of_N (u8sub 32 b) = wsub 8 32 (Z.of_N b).
Proof. exact (n2z_u8sub 32 b). Qed.
Lemma n2z_u8sub64 b : Z.of_N (u8sub 64 b) = wsub 8 64 (Z.of_N b).
Proof. exact (n2z_u8sub 64 b). Qed.
Lemma n2z_u8sub128 b : Z.of_N (u8sub 128 b) = wsub 8 128 (Z.of_N b).
Proof. exact (n2z_u8sub 128 b). Qed.
Lemma n2z_leb64 a : (Z.of_N a <=? 64)%Z = (a <=? 64)%N.
Proof. exact (n2z_leb a 64). Qed.

Lemma contains4_link p x : contains4 p x = containsIPv4 (to_net_pfx p) (to_net_pfx x).
Proof.
  unfold contains4, containsIPv4. cbn [to_net_pfx NetArith.addr NetArith.plen]. unfold wand.
  rewrite <- !n2z_to_u32, <- n2z_u8sub32, <- n2z_shl32, <- !n2z_land, n2z_eqb. reflexivity.
Qed.

Lemma contains6_link p x : contains6 p x = containsIPv6 (to_net_pfx p) (to_net_pfx x).
Proof.
  unfold contains6, containsIPv6. cbn [to_net_pfx to_net_ip NetArith.addr NetArith.plen NetArith.hi NetArith.lo].
  rewrite n2z_leb64.
  destruct (pf_len p <=? 64)%N; unfold wand.
  - rewrite <- n2z_u8sub64, <- n2z_shl64, <- !n2z_land, n2z_eqb.
    change 0%Z with (Z.of_N 0). rewrite <- !n2z_land, n2z_eqb. reflexivity.
  - rewrite <- n2z_u8sub128, <- n2z_shl64.
    change (maxu 64) with (Z.of_N max64).
    rewrite <- !n2z_land, !n2z_eqb. reflexivity.
Qed.

Theorem contains_link p x : Policy.pfx_contains p x = NetArith.Contains (to_net_pfx p) (to_net_pfx x).
Proof.
  unfold Policy.pfx_contains, NetArith.Contains.
  rewrite <- contains4_link, <- contains6_link.
  cbn [to_net_pfx to_net_ip NetArith.addr NetArith.plen NetArith.legacy]. rewrite n2z_leb. reflexivity.
Qed.

(* ---- NetArith.v = the regenerated NetGen.v, for the functions the matchers use *)

Lemma gen_ToUint32 a : g_IP_ToUint32 a = ToUint32 a.
Proof. reflexivity. Qed.

Lemma gen_IP_Equal a b : g_IP_Equal a b = ip_equal a b.
Proof. reflexivity. Qed.

Lemma gen_Prefix_Equal p x : g_Prefix_Equal p x = NetArith.pfx_equal p x.
Proof. reflexivity. Qed.

Lemma gen_containsIPv4 p x : g_Prefix_containsIPv4 p x = containsIPv4 p x.
Proof. reflexivity. Qed.

Lemma gen_containsIPv6 p x : g_Prefix_containsIPv6 p x = containsIPv6 p x.
Proof. unfold g_Prefix_containsIPv6, containsIPv6. destruct (NetArith.plen p <=? 64)%Z; reflexivity. Qed.

Lemma gen_Prefix_Contains p x : g_Prefix_Contains p x = NetArith.Contains p x.
Proof.
  unfold g_Prefix_Contains, NetArith.Contains. rewrite gen_containsIPv4, gen_containsIPv6. reflexivity.
Qed.

Theorem gen_equal_link p x : gen_equal p x = Policy.pfx_equal p x.
Proof. unfold gen_equal. rewrite gen_Prefix_Equal. symmetry. apply equal_link. Qed.

Theorem gen_contains_link p x : gen_contains p x = Policy.pfx_contains p x.
Proof. unfold gen_contains. rewrite gen_Prefix_Contains. symmetry. apply contains_link. Qed.

Theorem matcher_match_gen_link m pat p : matcher_match_gen m pat p = matcher_match m pat p.
Proof.
  unfold matcher_match_gen, matcher_match, matcher_match_w.
  rewrite !gen_equal_link, !gen_contains_link. reflexivity.
Qed.

Lemma matcher_match_gen_ok : mm_ok matcher_match_gen.
Proof. intros m pat p Wp Wx. rewrite matcher_match_gen_link. apply matcher_ok; assumption. Qed.

(* the reference-interpreter theorem for the engine running on the generated net functions *)
Theorem process_ref_gen env c p st r v :
  chain_wfb env c = true -> prefix_wfb p = true -> path_wfb v = true ->
  nth_error st r = Some v ->
  exists st' r',
    process_gen env c p st r = Ok (st', r', snd (chain_ref env c p v)) /\
    nth_error st' r' = Some (fst (chain_ref env c p v)) /\
    (length st <= r')%nat /\
    (forall k, (k < length st)%nat -> nth_error st' k = nth_error st k).
Proof. apply process_ref_w. exact matcher_match_gen_ok. Qed.

(* ---- the two engines are the same function (no well-formedness needed) *)

Lemma any_of_ext {A : Type} (f g : A -> bool) l : (forall x, f x = g x) -> any_of f l = any_of g l.
Proof. intros H. induction l as [| x l IH]; simpl; [reflexivity |]. rewrite H, IH. reflexivity. Qed.

Section Ext.
Variables mm mm' : matcher -> Policy.prefix -> Policy.prefix -> bool.
Hypothesis Hext : forall m a b, mm m a b = mm' m a b.

Lemma cond_matches_w_ext env c p pa : cond_matches_w mm env c p pa = cond_matches_w mm' env c p pa.
Proof.
  unfold cond_matches_w, matches_prefix_lists_w, matches_route_filters_w. f_equal. f_equal. f_equal. f_equal.
  - destruct (is_nil (c_pls c)); [reflexivity |]. apply any_of_ext. intros l.
    unfold pl_matches_w. apply any_of_ext. intros a. apply Hext.
  - destruct (is_nil (c_rfs c)); [reflexivity |]. apply any_of_ext. intros f.
    unfold rf_matches_w. apply Hext.
Qed.

Lemma term_process_w_ext env t p st r : term_process_w mm env t p st r = term_process_w mm' env t p st r.
Proof.
  unfold term_process_w. destruct (nth_error st r) as [pa |]; [| reflexivity].
  rewrite (any_of_ext _ (fun f => cond_matches_w mm' env f p pa)); [reflexivity |].
  intros f. apply cond_matches_w_ext.
Qed.

Lemma filter_process_w_ext env f p : forall st r, filter_process_w mm env f p st r = filter_process_w mm' env f p st r.
Proof.
  induction f as [| t f IH]; intros st r; [reflexivity |].
  cbn [filter_process_w]. rewrite term_process_w_ext.
  destruct (term_process_w mm' env t p st r) as [| [st1 tr]]; [reflexivity |].
  destruct (ar_term tr); [reflexivity | apply IH].
Qed.

Lemma chain_loop_w_ext env c p : forall st r, chain_loop_w mm env c p st r = chain_loop_w mm' env c p st r.
Proof.
  induction c as [| f c IH]; intros st r; [reflexivity |].
  cbn [chain_loop_w]. rewrite filter_process_w_ext.
  destruct (filter_process_w mm' env f p st r) as [| [st1 fr]]; [reflexivity |].
  destruct (ar_term fr); [reflexivity | apply IH].
Qed.

Lemma process_w_ext env c p st r : process_w mm env c p st r = process_w mm' env c p st r.
Proof.
  unfold process_w. destruct (nth_error st r); [| reflexivity]. unfold alloc. apply chain_loop_w_ext.
Qed.
End Ext.

Theorem process_gen_is_process env c p st r : process_gen env c p st r = process env c p st r.
Proof. unfold process_gen, process. apply process_w_ext. apply matcher_match_gen_link. Qed.
