(* C11: well-formedness invariant of the path-id manager and its preservation by addPath/releasePath. *)
From Coq Require Import List NArith Bool Lia ZArith.
From Coq Require Import ZifyBool ZifyNat ZifyN.
Import ListNotations.
From BioVerif Require Import Model.PathIDs Proofs.PathIDsProofs.
Local Open Scope N_scope.

Ltac Zify.zify_post_hook ::= Z.div_mod_to_equations.

Lemma ids_set_length : forall i c d m, ids_get i m = Some d -> length (ids_set i c m) = length m.
Proof.
  intros i c d m G. rewrite <- (map_length fst (ids_set i c m)), (ids_set_keys _ _ d) by exact G.
  apply map_length.
Qed.

Section PathIDsInv.
  Variable K : Type.
  Variable K_eq_dec : forall a b : K, {a = b} + {a <> b}.

  Notation bget := (byk_get K K_eq_dec).
  Notation bdel := (byk_del K K_eq_dec).
  Notation padd := (pid_add K K_eq_dec).
  Notation prel := (pid_release K K_eq_dec).

  (* ---------------------------------------------------------------- byk facts *)

  Lemma bget_cons : forall k k' i m,
    bget k' ((k, i) :: m) = if K_eq_dec k k' then Some i else bget k' m.
  Proof. reflexivity. Qed.

  Lemma bget_in_keys : forall k i m, bget k m = Some i -> In k (map fst m).
  Proof.
    induction m as [|[k' j] m IH]; cbn [byk_get map fst]; intros H; [discriminate|].
    destruct (K_eq_dec k' k); [now left|right; auto].
  Qed.

  Lemma bget_not_in_keys : forall k m, bget k m = None -> ~ In k (map fst m).
  Proof.
    induction m as [|[k' j] m IH]; cbn [byk_get map fst]; intros H; [tauto|].
    destruct (K_eq_dec k' k); [discriminate|]. intros [A|A]; [congruence|]. now apply IH.
  Qed.

  Lemma bget_del_same : forall k m, bget k (bdel k m) = None.
  Proof.
    induction m as [|[k' j] m IH]; cbn [byk_del filter fst byk_get]; [reflexivity|].
    destruct (K_eq_dec k' k) as [E|E]; [exact IH|].
    cbn [byk_get]. destruct (K_eq_dec k' k); [contradiction|exact IH].
  Qed.

  Lemma bget_del_other : forall k k' m, k <> k' -> bget k' (bdel k m) = bget k' m.
  Proof.
    induction m as [|[k'' j] m IH]; cbn [byk_del filter fst byk_get]; intros NE; [reflexivity|].
    destruct (K_eq_dec k'' k) as [E|E].
    - subst k''. destruct (K_eq_dec k k'); [contradiction|]. now apply IH.
    - cbn [byk_get]. destruct (K_eq_dec k'' k'); [reflexivity|]. now apply IH.
  Qed.

  Lemma bdel_keys_nodup : forall k m, NoDup (map fst m) -> NoDup (map fst (bdel k m)).
  Proof.
    induction m as [|[k' j] m IH]; cbn [byk_del filter fst map]; intros ND; [constructor|].
    inversion ND as [|? ? NI ND']; subst.
    destruct (K_eq_dec k' k); [now apply IH|]. cbn [map fst].
    constructor; [|now apply IH].
    intros H. apply NI. clear - H.
    induction m as [|[k2 e] m IHm]; cbn [byk_del filter fst map] in *; [assumption|].
    destruct (K_eq_dec k2 k); [right; auto|]. cbn [map fst] in H.
    destruct H as [H|H]; [now left|right; auto].
  Qed.

  (* ---------------------------------------------------------------- the invariant *)

  (* reference count of a key *)
  Definition rc (m : pidm K) (k : K) : N :=
    match bget k (byk m) with Some i => refcount i (ids m) | None => 0 end.

  Record wf (m : pidm K) : Prop := mkWf {
    wf_ids_nodup : NoDup (map fst (ids m));
    wf_byk_nodup : NoDup (map fst (byk m));
    wf_inj : forall k1 k2 i, bget k1 (byk m) = Some i -> bget k2 (byk m) = Some i -> k1 = k2;
    wf_byk_ids : forall k i, bget k (byk m) = Some i -> exists c, ids_get i (ids m) = Some c /\ 1 <= c;
    wf_ids_byk : forall i c, ids_get i (ids m) = Some c -> exists k, bget k (byk m) = Some i;
    wf_lt : forall i c, ids_get i (ids m) = Some c -> i < w32;
    wf_used : used m = N.of_nat (length (ids m));
    wf_len : N.of_nat (length (ids m)) <= max32
  }.

  Lemma wf_empty : wf pidm_empty.
  Proof.
    constructor; cbn; try constructor; try discriminate; intros; try discriminate.
  Qed.

  Lemma rc_pos_iff : forall m k, wf m -> (1 <= rc m k <-> exists i, bget k (byk m) = Some i).
  Proof.
    intros m k W. unfold rc. split.
    - destruct (bget k (byk m)) eqn:E; [eauto|lia].
    - intros [i E]. rewrite E. destruct (wf_byk_ids m W k i E) as [c [G C]].
      unfold refcount. now rewrite G.
  Qed.

  (* ---------------------------------------------------------------- addPath *)

  Lemma padd_existing : forall m k i,
    wf m -> bget k (byk m) = Some i ->
    exists m', padd k m = (m', AddOk i) /\ wf m' /\ byk m' = byk m /\
      rc m' k = rc m k + 1 /\ (forall k', k' <> k -> rc m' k' = rc m k').
  Proof.
    intros m k i W E. unfold pid_add. rewrite E.
    destruct (wf_byk_ids m W k i E) as [c [G C]].
    eexists; split; [reflexivity|]. cbn [byk ids].
    assert (RC : refcount i (ids m) = c) by (unfold refcount; now rewrite G).
    split; [|split; [reflexivity|split]].
    - constructor; cbn [ids byk last used].
      + rewrite (ids_set_keys _ _ c) by exact G. apply (wf_ids_nodup m W).
      + apply (wf_byk_nodup m W).
      + apply (wf_inj m W).
      + intros k1 i1 E1. destruct (N.eq_dec i i1) as [<-|NE].
        * rewrite ids_get_set_same. eexists; split; [reflexivity|lia].
        * rewrite ids_get_set_other by exact NE. apply (wf_byk_ids m W k1 i1 E1).
      + intros i1 c1 G1. destruct (N.eq_dec i i1) as [<-|NE].
        * eauto.
        * rewrite ids_get_set_other in G1 by exact NE. apply (wf_ids_byk m W i1 c1 G1).
      + intros i1 c1 G1. destruct (N.eq_dec i i1) as [<-|NE].
        * apply (wf_lt m W i c G).
        * rewrite ids_get_set_other in G1 by exact NE. apply (wf_lt m W i1 c1 G1).
      + rewrite (wf_used m W). f_equal. symmetry. eapply ids_set_length; exact G.
      + rewrite (ids_set_length _ _ c) by exact G. apply (wf_len m W).
    - unfold rc; cbn [byk ids]. rewrite E. unfold refcount at 1. rewrite ids_get_set_same. lia.
    - intros k' NE. unfold rc; cbn [byk ids]. destruct (bget k' (byk m)) as [i'|] eqn:E'; [|reflexivity].
      assert (i <> i') by (intros ->; apply NE; eapply (wf_inj m W); eassumption).
      unfold refcount. now rewrite ids_get_set_other.
  Qed.

  Lemma padd_fresh : forall m k,
    wf m -> bget k (byk m) = None -> N.of_nat (length (ids m)) < max32 ->
    exists m' i, padd k m = (m', AddOk i) /\ wf m' /\ bget k (byk m') = Some i /\
      rc m' k = 1 /\ (forall k', k' <> k -> bget k' (byk m') = bget k' (byk m) /\ rc m' k' = rc m k') /\
      length (ids m') = S (length (ids m)).
  Proof.
    intros m k W E L. unfold pid_add. rewrite E.
    rewrite (wf_used m W).
    destruct (N.eqb (N.of_nat (length (ids m))) max32) eqn:EU; [apply N.eqb_eq in EU; lia|].
    assert (Hc : (last m + 1) mod w32 < w32) by (apply N.mod_lt; discriminate).
    destruct (next_free_some (S (length (ids m))) ((last m + 1) mod w32) (ids m) Hc) as [i NF].
    { unfold max32, w32 in *. lia. }
    { lia. }
    rewrite NF. destruct (next_free_spec _ _ _ _ Hc NF) as [Gi Li].
    eexists; exists i; split; [reflexivity|]. cbn [byk ids].
    assert (FreshB : forall k', bget k' (byk m) <> Some i).
    { intros k' E'. destruct (wf_byk_ids m W k' i E') as [c [G _]]. congruence. }
    split; [|split; [|split; [|split]]].
    - constructor; cbn [ids byk last used map fst].
      + constructor; [now apply ids_get_not_in_keys|apply (wf_ids_nodup m W)].
      + constructor; [now apply bget_not_in_keys|apply (wf_byk_nodup m W)].
      + intros k1 k2 i1. rewrite !bget_cons.
        destruct (K_eq_dec k k1) as [<-|N1]; destruct (K_eq_dec k k2) as [<-|N2]; intros A B.
        * reflexivity.
        * inversion A; subst. exfalso; eapply FreshB; eassumption.
        * inversion B; subst. exfalso; eapply FreshB; eassumption.
        * eapply (wf_inj m W); eassumption.
      + intros k1 i1. rewrite bget_cons. destruct (K_eq_dec k k1) as [<-|N1]; intros A.
        * inversion A; subst. rewrite ids_get_cons, N.eqb_refl. eexists; split; [reflexivity|lia].
        * destruct (wf_byk_ids m W k1 i1 A) as [c [G C]].
          rewrite ids_get_cons. destruct (N.eqb i i1) eqn:EI; [apply N.eqb_eq in EI; subst; congruence|eauto].
      + intros i1 c1. rewrite ids_get_cons. destruct (N.eqb i i1) eqn:EI; intros G.
        * apply N.eqb_eq in EI; subst. exists k. rewrite bget_cons. now destruct (K_eq_dec k k).
        * destruct (wf_ids_byk m W i1 c1 G) as [k1 E1]. exists k1. rewrite bget_cons.
          destruct (K_eq_dec k k1) as [<-|]; [congruence|assumption].
      + intros i1 c1. rewrite ids_get_cons. destruct (N.eqb i i1) eqn:EI; intros G.
        * apply N.eqb_eq in EI; now subst.
        * apply (wf_lt m W i1 c1 G).
      + cbn [length]. unfold max32, w32 in *. lia.
      + cbn [length]. unfold max32 in *. lia.
    - rewrite bget_cons. now destruct (K_eq_dec k k).
    - unfold rc; cbn [byk ids]. rewrite bget_cons. destruct (K_eq_dec k k); [|contradiction].
      unfold refcount. now rewrite ids_get_cons, N.eqb_refl.
    - intros k' NE. unfold rc; cbn [byk ids]. rewrite bget_cons.
      destruct (K_eq_dec k k') as [<-|_]; [contradiction|]. split; [reflexivity|].
      destruct (bget k' (byk m)) as [i'|] eqn:E'; [|reflexivity].
      unfold refcount. rewrite ids_get_cons.
      destruct (N.eqb i i') eqn:EI; [apply N.eqb_eq in EI; subst; exfalso; eapply FreshB; eassumption|reflexivity].
    - reflexivity.
  Qed.

  (* the two failure outcomes *)
  Lemma padd_outcome : forall m k m' r,
    wf m -> padd k m = (m', r) ->
    r <> AddDiverge /\ (r = AddErr -> m' = m /\ N.of_nat (length (ids m)) = max32).
  Proof.
    intros m k m' r W H.
    destruct (bget k (byk m)) as [i|] eqn:E.
    - destruct (padd_existing m k i W E) as [m2 [P _]]. rewrite P in H. inversion H; subst.
      split; [discriminate|discriminate].
    - destruct (N.eq_dec (N.of_nat (length (ids m))) max32) as [EQ|NE].
      + unfold pid_add in H. rewrite E, (wf_used m W), EQ, N.eqb_refl in H. inversion H; subst.
        split; [discriminate|auto].
      + pose proof (wf_len m W).
        destruct (padd_fresh m k W E) as [m2 [i [P _]]]; [lia|]. rewrite P in H. inversion H; subst.
        split; discriminate.
  Qed.

  (* ---------------------------------------------------------------- releasePath *)

  Lemma prel_absent : forall m k, bget k (byk m) = None -> prel k m = (m, None).
  Proof. intros m k E. unfold pid_release. now rewrite E. Qed.

  Lemma prel_present : forall m k i,
    wf m -> bget k (byk m) = Some i ->
    exists m', prel k m = (m', Some i) /\ wf m' /\
      rc m' k = rc m k - 1 /\
      (rc m k = 1 -> bget k (byk m') = None) /\
      (rc m k <> 1 -> bget k (byk m') = Some i) /\
      (forall k', k' <> k -> bget k' (byk m') = bget k' (byk m) /\ rc m' k' = rc m k').
  Proof.
    intros m k i W E. unfold pid_release. rewrite E.
    destruct (wf_byk_ids m W k i E) as [c [G C]].
    assert (RC : refcount i (ids m) = c) by (unfold refcount; now rewrite G).
    assert (RK : rc m k = c) by (unfold rc; now rewrite E).
    rewrite RC. unfold dec64. destruct (N.eqb c 0) eqn:C0; [apply N.eqb_eq in C0; lia|].
    destruct (N.eqb (c - 1) 0) eqn:C1.
    - (* last reference: the identifier is freed *)
      apply N.eqb_eq in C1. assert (c = 1) by lia. subst c.
      eexists; split; [reflexivity|]. cbn [byk ids].
      assert (OtherId : forall k' i', k' <> k -> bget k' (byk m) = Some i' -> i <> i').
      { intros k' i' NE E' ->. apply NE. eapply (wf_inj m W); eassumption. }
      split; [|split; [|split; [|split]]].
      + constructor; cbn [ids byk last used].
        * apply ids_del_keys_nodup, (wf_ids_nodup m W).
        * apply bdel_keys_nodup, (wf_byk_nodup m W).
        * intros k1 k2 i1 A B.
          destruct (K_eq_dec k k1) as [<-|N1]; [now rewrite bget_del_same in A|].
          destruct (K_eq_dec k k2) as [<-|N2]; [now rewrite bget_del_same in B|].
          rewrite bget_del_other in A, B by assumption. eapply (wf_inj m W); eassumption.
        * intros k1 i1 A.
          destruct (K_eq_dec k k1) as [<-|N1]; [now rewrite bget_del_same in A|].
          rewrite bget_del_other in A by assumption.
          rewrite ids_get_del_other by (eapply OtherId; eauto).
          apply (wf_byk_ids m W k1 i1 A).
        * intros i1 c1 G1.
          destruct (N.eq_dec i i1) as [<-|NI]; [now rewrite ids_get_del_same in G1|].
          rewrite ids_get_del_other in G1 by assumption.
          destruct (wf_ids_byk m W i1 c1 G1) as [k1 E1]. exists k1.
          destruct (K_eq_dec k k1) as [<-|N1]; [congruence|]. now rewrite bget_del_other.
        * intros i1 c1 G1.
          destruct (N.eq_dec i i1) as [<-|NI]; [now rewrite ids_get_del_same in G1|].
          rewrite ids_get_del_other in G1 by assumption. apply (wf_lt m W i1 c1 G1).
        * pose proof (ids_del_length i _ (ids m) (wf_ids_nodup m W) G) as L.
          pose proof (wf_len m W). rewrite (wf_used m W). unfold max32, w32 in *. lia.
        * pose proof (ids_del_length i _ (ids m) (wf_ids_nodup m W) G) as L.
          pose proof (wf_len m W). lia.
      + rewrite RK. unfold rc; cbn [byk ids]. rewrite bget_del_same. lia.
      + intros _. apply bget_del_same.
      + intros NE. exfalso. apply NE. lia.
      + intros k' NE. rewrite bget_del_other by congruence. split; [reflexivity|].
        unfold rc; cbn [byk ids]. rewrite bget_del_other by congruence.
        destruct (bget k' (byk m)) as [i'|] eqn:E'; [|reflexivity].
        unfold refcount. rewrite ids_get_del_other; [reflexivity|]. eapply OtherId; eauto.
    - apply N.eqb_neq in C1.
      eexists; split; [reflexivity|]. cbn [byk ids].
      split; [|split; [|split; [|split]]].
      + constructor; cbn [ids byk last used].
        * rewrite (ids_set_keys _ _ c) by exact G. apply (wf_ids_nodup m W).
        * apply (wf_byk_nodup m W).
        * apply (wf_inj m W).
        * intros k1 i1 E1. destruct (N.eq_dec i i1) as [<-|NE].
          -- rewrite ids_get_set_same. eexists; split; [reflexivity|lia].
          -- rewrite ids_get_set_other by exact NE. apply (wf_byk_ids m W k1 i1 E1).
        * intros i1 c1 G1. destruct (N.eq_dec i i1) as [<-|NE]; [eauto|].
          rewrite ids_get_set_other in G1 by exact NE. apply (wf_ids_byk m W i1 c1 G1).
        * intros i1 c1 G1. destruct (N.eq_dec i i1) as [<-|NE]; [apply (wf_lt m W i c G)|].
          rewrite ids_get_set_other in G1 by exact NE. apply (wf_lt m W i1 c1 G1).
        * rewrite (wf_used m W). f_equal. symmetry. eapply ids_set_length; exact G.
        * rewrite (ids_set_length _ _ c) by exact G. apply (wf_len m W).
      + rewrite RK. unfold rc; cbn [byk ids]. rewrite E. unfold refcount. rewrite ids_get_set_same. lia.
      + intros A. lia.
      + intros _. exact E.
      + intros k' NE. split; [reflexivity|]. unfold rc; cbn [byk ids].
        destruct (bget k' (byk m)) as [i'|] eqn:E'; [|reflexivity].
        assert (i <> i') by (intros ->; apply NE; eapply (wf_inj m W); eassumption).
        unfold refcount. now rewrite ids_get_set_other.
  Qed.

End PathIDsInv.
