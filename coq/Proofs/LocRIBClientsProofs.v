(* C04 proofs: the invariant "every registered client holds exactly want(options, route)" is
   preserved by every operation of the Loc-RIB model. *)
From Coq Require Import List Arith Bool Permutation Lia.
Import ListNotations.
From BioVerif Require Import Model.LocRIBClients Spec.LocRIBClientsSpec.

(* ------------------------------------------------------------------ association lists *)

Definition keys {A : Type} (m : list (nat * A)) : list nat := map fst m.

Lemma lookup_In : forall A (m : list (nat * A)) k v,
  lookup k m = Some v -> In (k, v) m.
Proof.
  induction m as [|[k' v'] m IH]; simpl; intros k v H; [discriminate|].
  destruct (k' =? k) eqn:E.
  - apply Nat.eqb_eq in E. inversion H. subst. now left.
  - right. now apply IH.
Qed.

Lemma In_lookup : forall A (m : list (nat * A)) k v,
  NoDup (keys m) -> In (k, v) m -> lookup k m = Some v.
Proof.
  induction m as [|[k' v'] m IH]; simpl; intros k v ND H; [contradiction|].
  inversion ND as [|x l Hn ND']; subst.
  destruct H as [H|H].
  - inversion H; subst. now rewrite Nat.eqb_refl.
  - destruct (k' =? k) eqn:E.
    + apply Nat.eqb_eq in E. subst. exfalso. apply Hn.
      change k with (fst (k, v)). now apply in_map.
    + now apply IH.
Qed.

Lemma lookup_None_keys : forall A (m : list (nat * A)) k,
  lookup k m = None <-> ~ In k (keys m).
Proof.
  induction m as [|[k' v'] m IH]; simpl; intros k.
  - split; auto.
  - destruct (k' =? k) eqn:E.
    + apply Nat.eqb_eq in E. subst. split; [discriminate|]. intros H. exfalso. apply H. now left.
    + apply Nat.eqb_neq in E. rewrite IH. split.
      * intros H [H1|H1]; [now apply E|now apply H].
      * intros H H1. apply H. now right.
Qed.

Lemma keys_del : forall A (m : list (nat * A)) k k',
  In k' (keys (del k m)) <-> In k' (keys m) /\ k' <> k.
Proof.
  intros A m k k'. unfold keys, del. rewrite !in_map_iff. split.
  - intros [x [Hx Hin]]. apply filter_In in Hin. destruct Hin as [Hin Hf].
    apply negb_true_iff in Hf. apply Nat.eqb_neq in Hf. subst. split; [|assumption].
    exists x. now split.
  - intros [[x [Hx Hin]] Hne]. exists x. split; [assumption|].
    apply filter_In. split; [assumption|]. apply negb_true_iff. apply Nat.eqb_neq. now subst.
Qed.

Lemma NoDup_map_filter : forall A B (f : A -> B) (g : A -> bool) (l : list A),
  NoDup (map f l) -> NoDup (map f (filter g l)).
Proof.
  induction l as [|x l IH]; simpl; intros ND; [constructor|].
  inversion ND as [|y l' Hn ND']; subst.
  destruct (g x); simpl.
  - constructor; [|now apply IH].
    intros H. apply Hn. apply in_map_iff in H. destruct H as [z [Hz Hin]].
    apply filter_In in Hin. apply in_map_iff. exists z. now split.
  - now apply IH.
Qed.

Lemma NoDup_keys_del : forall A (m : list (nat * A)) k,
  NoDup (keys m) -> NoDup (keys (del k m)).
Proof. intros. unfold keys, del. now apply NoDup_map_filter. Qed.

Lemma lookup_del : forall A (m : list (nat * A)) k k',
  lookup k' (del k m) = if k =? k' then None else lookup k' m.
Proof.
  induction m as [|[k0 v0] m IH]; simpl; intros k k'.
  - now destruct (k =? k').
  - destruct (k0 =? k) eqn:E0; simpl.
    + apply Nat.eqb_eq in E0. subst. rewrite IH.
      destruct (k =? k') eqn:E; [reflexivity|reflexivity].
    + rewrite IH. destruct (k0 =? k') eqn:E1; [|reflexivity].
      apply Nat.eqb_eq in E1. subst. now rewrite Nat.eqb_sym, E0.
Qed.

Lemma keys_insert : forall A (m : list (nat * A)) k v k',
  In k' (keys (insert k v m)) <-> k' = k \/ In k' (keys m).
Proof.
  induction m as [|[k0 v0] m IH]; simpl; intros k v k'.
  - split; intros [H|H]; auto; contradiction.
  - destruct (k <? k0); simpl.
    + split; intros H; intuition.
    + rewrite IH. split; intros H; intuition.
Qed.

Lemma NoDup_keys_insert : forall A (m : list (nat * A)) k v,
  NoDup (keys m) -> ~ In k (keys m) -> NoDup (keys (insert k v m)).
Proof.
  induction m as [|[k0 v0] m IH]; simpl; intros k v ND Hn.
  - constructor; [auto|constructor].
  - destruct (k <? k0); simpl.
    + constructor; assumption.
    + inversion ND as [|x l Hn0 ND']; subst. constructor.
      * fold (keys (insert k v m)). rewrite keys_insert. intros [H|H]; [|now apply Hn0].
        apply Hn. now left.
      * apply IH; [assumption|]. intros H. apply Hn. now right.
Qed.

Lemma lookup_insert : forall A (m : list (nat * A)) k v k',
  ~ In k (keys m) ->
  lookup k' (insert k v m) = if k =? k' then Some v else lookup k' m.
Proof.
  induction m as [|[k0 v0] m IH]; simpl; intros k v k' Hn.
  - reflexivity.
  - destruct (k <? k0); simpl.
    + reflexivity.
    + rewrite IH by (intros H; apply Hn; now right).
      destruct (k0 =? k') eqn:E0; [|reflexivity].
      apply Nat.eqb_eq in E0. subst.
      destruct (k =? k') eqn:E; [|reflexivity].
      apply Nat.eqb_eq in E. subst. exfalso. apply Hn. now left.
Qed.

Lemma In_insert : forall A (m : list (nat * A)) k v x,
  In x (insert k v m) <-> x = (k, v) \/ In x m.
Proof.
  induction m as [|[k0 v0] m IH]; simpl; intros k v x.
  - split; intros [H|H]; auto; contradiction.
  - destruct (k <? k0); simpl.
    + split; intros H; intuition.
    + rewrite IH. split; intros H; intuition.
Qed.

Lemma not_in_keys_del : forall A (m : list (nat * A)) k, ~ In k (keys (del k m)).
Proof. intros A m k H. apply keys_del in H. now destruct H. Qed.

Lemma lookup_put : forall A (m : list (nat * A)) k v k',
  lookup k' (put k v m) = if k =? k' then Some v else lookup k' m.
Proof.
  intros. unfold put. rewrite lookup_insert by apply not_in_keys_del.
  rewrite lookup_del. now destruct (k =? k').
Qed.

Lemma NoDup_keys_put : forall A (m : list (nat * A)) k v,
  NoDup (keys m) -> NoDup (keys (put k v m)).
Proof.
  intros. unfold put. apply NoDup_keys_insert.
  - now apply NoDup_keys_del.
  - apply not_in_keys_del.
Qed.

Lemma In_put : forall A (m : list (nat * A)) k v x,
  In x (put k v m) -> x = (k, v) \/ (In x m /\ fst x <> k).
Proof.
  intros A m k v x H. unfold put in H. apply In_insert in H. destruct H as [H|H]; [now left|].
  right. unfold del in H. apply filter_In in H. destruct H as [H1 H2].
  apply negb_true_iff in H2. apply Nat.eqb_neq in H2. now split.
Qed.

Lemma In_del : forall A (m : list (nat * A)) k x,
  In x (del k m) -> In x m /\ fst x <> k.
Proof.
  intros A m k x H. unfold del in H. apply filter_In in H. destruct H as [H1 H2].
  apply negb_true_iff in H2. apply Nat.eqb_neq in H2. now split.
Qed.

(* ------------------------------------------------------------------ plain list facts *)

Lemma NoDup_app_intro : forall A (l1 l2 : list A),
  NoDup l1 -> NoDup l2 -> (forall x, In x l1 -> ~ In x l2) -> NoDup (l1 ++ l2).
Proof.
  induction l1 as [|x l1 IH]; simpl; intros l2 N1 N2 D; [assumption|].
  inversion N1 as [|y l Hn N1']; subst. constructor.
  - intros H. apply in_app_or in H. destruct H as [H|H]; [now apply Hn|].
    apply (D x); [now left|assumption].
  - apply IH; [assumption|assumption|]. intros y Hy. apply D. now right.
Qed.

Lemma firstn_min_length : forall A (l : list A) n,
  firstn (Nat.min n (length l)) l = firstn n l.
Proof.
  induction l as [|x l IH]; intros n.
  - now destruct n.
  - destruct n; [reflexivity|]. simpl. now rewrite IH.
Qed.

Lemma In_firstn : forall A (l : list A) n x, In x (firstn n l) -> In x l.
Proof.
  induction l as [|y l IH]; intros n x H.
  - rewrite firstn_nil in H. contradiction.
  - destruct n; simpl in H; [contradiction|]. destruct H as [H|H]; [now left|right; eauto].
Qed.

Lemma NoDup_firstn : forall A (l : list A) n, NoDup l -> NoDup (firstn n l).
Proof.
  induction l as [|y l IH]; intros n ND.
  - rewrite firstn_nil. constructor.
  - destruct n; simpl; [constructor|]. inversion ND as [|z l' Hn ND']; subst. constructor.
    + intros H. apply Hn. eapply In_firstn; eauto.
    + now apply IH.
Qed.

Lemma filter_nil_all : forall A (g : A -> bool) (l : list A),
  (forall x, In x l -> g x = false) -> filter g l = [].
Proof.
  induction l as [|x l IH]; simpl; intros H; [reflexivity|].
  rewrite (H x) by now left. apply IH. intros y Hy. apply H. now right.
Qed.

Lemma filter_all : forall A (g : A -> bool) (l : list A),
  (forall x, In x l -> g x = true) -> filter g l = l.
Proof.
  induction l as [|x l IH]; simpl; intros H; [reflexivity|].
  rewrite (H x) by now left. f_equal. apply IH. intros y Hy. apply H. now right.
Qed.

Lemma filter_app' : forall A (g : A -> bool) (l1 l2 : list A),
  filter g (l1 ++ l2) = filter g l1 ++ filter g l2.
Proof.
  induction l1 as [|x l1 IH]; simpl; intros l2; [reflexivity|].
  destruct (g x); simpl; now rewrite IH.
Qed.

(* filter over a flat_map indexed by a key: only the key's own block survives *)
Lemma filter_flat_map_none : forall A B (g : B -> bool) (f : nat * A -> list B) (m : list (nat * A)),
  (forall kv, In kv m -> filter g (f kv) = []) -> filter g (flat_map f m) = [].
Proof.
  induction m as [|kv m IH]; simpl; intros H; [reflexivity|].
  rewrite filter_app', (H kv) by now left. simpl. apply IH. intros x Hx. apply H. now right.
Qed.

Lemma filter_flat_map_key : forall A B (g : B -> bool) (f : nat * A -> list B) (m : list (nat * A)) k,
  NoDup (keys m) ->
  (forall kv, fst kv <> k -> filter g (f kv) = []) ->
  filter g (flat_map f m) =
  match lookup k m with Some v => filter g (f (k, v)) | None => [] end.
Proof.
  induction m as [|[k0 v0] m IH]; simpl; intros k ND H; [reflexivity|].
  inversion ND as [|x l Hn ND']; subst. rewrite filter_app'.
  destruct (k0 =? k) eqn:E.
  - apply Nat.eqb_eq in E. subst.
    rewrite filter_flat_map_none; [now rewrite app_nil_r|].
    intros kv Hkv. apply H. intros Heq. apply Hn. subst. now apply in_map.
  - apply Nat.eqb_neq in E. rewrite (H (k0, v0)) by (simpl; assumption). simpl.
    now apply IH.
Qed.

(* ------------------------------------------------------------------ object ids, diffs, accounts *)

Section Proofs.

Variable val : Type.
Notation entry := (entry val).

Definition oids (l : list entry) : list oid := map fst l.

Lemma oids_inj : forall (l : list entry) x y,
  NoDup (oids l) -> In x l -> In y l -> fst x = fst y -> x = y.
Proof.
  induction l as [|z l IH]; simpl; intros x y ND Hx Hy E; [contradiction|].
  inversion ND as [|w l' Hn ND']; subst.
  destruct Hx as [Hx|Hx]; destruct Hy as [Hy|Hy]; subst.
  - reflexivity.
  - exfalso. apply Hn. rewrite E. now apply in_map.
  - exfalso. apply Hn. rewrite <- E. now apply in_map.
  - now apply IH.
Qed.

Lemma NoDup_oids_entries : forall l : list entry, NoDup (oids l) -> NoDup l.
Proof. intros l. unfold oids. apply NoDup_map_inv. Qed.

Lemma has_oid_In : forall o (l : list entry), has_oid val o l = true <-> In o (oids l).
Proof.
  intros o l. unfold has_oid, oids. rewrite existsb_exists, in_map_iff. split.
  - intros [x [Hin E]]. apply Nat.eqb_eq in E. now exists x.
  - intros [x [E Hin]]. exists x. split; [assumption|]. now apply Nat.eqb_eq.
Qed.

Lemma In_paths_diff : forall (a b : list entry) x,
  In x (paths_diff val a b) <-> In x a /\ ~ In (fst x) (oids b).
Proof.
  intros a b x. unfold paths_diff. rewrite filter_In, negb_true_iff, <- has_oid_In.
  split; intros [H1 H2]; split; try assumption.
  - now rewrite H2.
  - now apply not_true_is_false.
Qed.

Lemma NoDup_oids_diff : forall a b : list entry, NoDup (oids a) -> NoDup (oids (paths_diff val a b)).
Proof. intros. unfold oids, paths_diff. now apply NoDup_map_filter. Qed.

Lemma NoDup_oids_firstn : forall (l : list entry) n, NoDup (oids l) -> NoDup (oids (firstn n l)).
Proof. intros l n H. unfold oids. rewrite <- firstn_map. now apply NoDup_firstn. Qed.

Lemma Permutation_NoDup_oids : forall l l' : list entry,
  Permutation l l' -> NoDup (oids l') -> NoDup (oids l).
Proof.
  intros l l' P ND. eapply Permutation_NoDup; [|exact ND].
  apply Permutation_sym. unfold oids. now apply Permutation_map.
Qed.

(* taking one held path out *)
Lemma take_out_spec : forall (l : list entry) x,
  NoDup (oids l) -> In x l ->
  exists l', take_out val (fst x) l = Some l' /\
             NoDup (oids l') /\
             (forall y, In y l' <-> In y l /\ fst y <> fst x).
Proof.
  induction l as [|z l IH]; simpl; intros x ND Hin; [contradiction|].
  inversion ND as [|w l0 Hn ND']; subst.
  destruct (fst z =? fst x) eqn:E.
  - apply Nat.eqb_eq in E. exists l. split; [reflexivity|]. split; [assumption|].
    intros y. split.
    + intros Hy. split; [now right|]. intros Ey. apply Hn. rewrite E, <- Ey. now apply in_map.
    + intros [[Hy|Hy] Hne]; [|assumption]. subst. congruence.
  - apply Nat.eqb_neq in E. destruct Hin as [Hin|Hin]; [subst; congruence|].
    destruct (IH x ND' Hin) as [l' [Ht [ND1 Hm]]]. rewrite Ht.
    exists (z :: l'). split; [reflexivity|]. split.
    + simpl. constructor; [|assumption]. intros H. apply Hn.
      unfold oids in H. apply in_map_iff in H. destruct H as [y [Ey Hy]].
      apply Hm in Hy. destruct Hy as [Hy _]. rewrite <- Ey. now apply in_map.
    + intros y. simpl. rewrite Hm. split.
      * intros [Hy|[Hy Hne]]; [subst; split; [now left|assumption]|split; [now right|assumption]].
      * intros [[Hy|Hy] Hne]; [now left|right; now split].
Qed.

(* a run of removals addressed to (c,p) *)
Lemma remove_all : forall c p (D H : list entry),
  NoDup (oids D) -> NoDup (oids H) -> incl D H ->
  exists H', fold_left (apply1 val) (map (CbRemove c p) D) (Some H) = Some H' /\
             NoDup (oids H') /\
             (forall y, In y H' <-> In y H /\ ~ In (fst y) (oids D)).
Proof.
  intros c p. induction D as [|x D IH]; simpl; intros H NDD NDH Hincl.
  - exists H. split; [reflexivity|]. split; [assumption|]. intros y. tauto.
  - inversion NDD as [|w l0 Hn NDD']; subst.
    assert (Hx : In x H) by (apply Hincl; now left).
    destruct (take_out_spec H x NDH Hx) as [H1 [Ht [ND1 Hm]]]. rewrite Ht.
    assert (Hincl1 : incl D H1).
    { intros d Hd. apply Hm. split; [apply Hincl; now right|].
      intros E. apply Hn. rewrite <- E. now apply in_map. }
    destruct (IH H1 NDD' ND1 Hincl1) as [H' [Hf [ND' Hm']]].
    exists H'. split; [assumption|]. split; [assumption|].
    intros y. rewrite Hm', Hm. split.
    + intros [[Hy Hne] Hnd]. split; [assumption|]. intros [E|Hi]; [now apply Hne|now apply Hnd].
    + intros [Hy Hnd]. split; [split; [assumption|]|].
      * intros E. apply Hnd. now left.
      * intros Hi. apply Hnd. now right.
Qed.

Lemma add_all : forall c p (A H : list entry),
  fold_left (apply1 val) (map (CbAdd c p) A) (Some H) = Some (rev A ++ H).
Proof.
  intros c p. induction A as [|x A IH]; simpl; intros H; [reflexivity|].
  rewrite IH. now rewrite <- app_assoc.
Qed.

Lemma dump_all : forall c p (A H : list entry),
  fold_left (apply1 val) (map (CbDump c p) A) (Some H) = Some (rev A ++ H).
Proof.
  intros c p. induction A as [|x A IH]; simpl; intros H; [reflexivity|].
  rewrite IH. now rewrite <- app_assoc.
Qed.

(* two lists of path objects agree on the value of every object they share *)
Definition compat (O N : list entry) : Prop :=
  forall x y, In x O -> In y N -> fst x = fst y -> x = y.

(* the multiset identity (old \ (old\new)) + (new\old) = new, on the client's account *)
Lemma diff_update : forall c p (O N H : list entry),
  NoDup (oids O) -> NoDup (oids N) -> compat O N -> Permutation H O ->
  exists H', fold_left (apply1 val)
               (map (CbRemove c p) (paths_diff val O N) ++ map (CbAdd c p) (paths_diff val N O))
               (Some H) = Some H' /\
             Permutation H' N.
Proof.
  intros c p O N H NDO NDN Hc HP.
  assert (NDH : NoDup (oids H)) by (eapply Permutation_NoDup_oids; eauto).
  assert (Hincl : incl (paths_diff val O N) H).
  { intros d Hd. apply In_paths_diff in Hd. destruct Hd as [Hd _].
    eapply Permutation_in; [apply Permutation_sym; exact HP|assumption]. }
  destruct (remove_all c p (paths_diff val O N) H (NoDup_oids_diff O N NDO) NDH Hincl)
    as [H1 [Hf [ND1 Hm]]].
  rewrite fold_left_app, Hf, add_all.
  eexists. split; [reflexivity|].
  assert (HO : forall y, In y H <-> In y O).
  { intros y. split; intros Hy; [eapply Permutation_in; eauto|].
    eapply Permutation_in; [apply Permutation_sym; exact HP|assumption]. }
  apply NoDup_Permutation.
  - apply NoDup_oids_entries. unfold oids. rewrite map_app, map_rev.
    apply NoDup_app_intro.
    + apply NoDup_rev. apply (NoDup_oids_diff N O NDN).
    + exact ND1.
    + intros o Ho Ho1. apply in_rev in Ho.
      apply in_map_iff in Ho. destruct Ho as [a [Ea Ha]].
      apply in_map_iff in Ho1. destruct Ho1 as [b [Eb Hb]].
      apply In_paths_diff in Ha. destruct Ha as [_ Ha].
      apply Hm in Hb. destruct Hb as [Hb _]. apply HO in Hb.
      apply Ha. rewrite Ea, <- Eb. now apply in_map.
  - apply NoDup_oids_entries. assumption.
  - intros x. rewrite in_app_iff, <- in_rev, In_paths_diff, Hm, HO. split.
    + intros [[Hx _]|[Hx Hnd]]; [assumption|].
      destruct (in_dec Nat.eq_dec (fst x) (oids N)) as [Hi|Hi].
      * unfold oids in Hi. apply in_map_iff in Hi. destruct Hi as [y [Ey Hy]].
        assert (x = y) by (apply Hc; auto). now subst.
      * exfalso. apply Hnd. apply in_map. apply In_paths_diff. now split.
    + intros Hx. destruct (in_dec Nat.eq_dec (fst x) (oids O)) as [Hi|Hi].
      * right. unfold oids in Hi. apply in_map_iff in Hi. destruct Hi as [z [Ez Hz]].
        assert (z = x) by (apply Hc; auto). subst z. split; [assumption|].
        intros Hd. unfold oids in Hd. apply in_map_iff in Hd. destruct Hd as [w [Ew Hw]].
        apply In_paths_diff in Hw. destruct Hw as [_ Hw]. apply Hw. rewrite Ew. now apply in_map.
      * left. now split.
Qed.

(* ------------------------------------------------------------------ the model's pieces *)

Variable cmp eqv : val -> val -> bool.
Variable sel : nat -> list entry -> list entry * nat.
Hypothesis Hsel : sel_ok val sel.

Lemma limit_slice_want : forall o (r : route val), limit_slice val o r = want val o r.
Proof. intros. unfold limit_slice, want. now rewrite firstn_min_length. Qed.

Lemma held_snoc : forall c p (tr : trace val) it,
  held val c p (tr ++ [it]) = held_step val c p (held val c p tr) it.
Proof. intros. unfold held. now rewrite fold_left_app. Qed.

Lemma filter_map_remove : forall c p c' p' (l : list entry),
  filter (for_me val c p) (map (CbRemove c' p') l) =
  if (c' =? c) && (p' =? p) then map (CbRemove c' p') l else [].
Proof.
  intros. destruct ((c' =? c) && (p' =? p)) eqn:E.
  - apply filter_all. intros x Hx. apply in_map_iff in Hx. destruct Hx as [e [He _]]. now subst.
  - apply filter_nil_all. intros x Hx. apply in_map_iff in Hx. destruct Hx as [e [He _]]. now subst.
Qed.

Lemma filter_map_add : forall c p c' p' (l : list entry),
  filter (for_me val c p) (map (CbAdd c' p') l) =
  if (c' =? c) && (p' =? p) then map (CbAdd c' p') l else [].
Proof.
  intros. destruct ((c' =? c) && (p' =? p)) eqn:E.
  - apply filter_all. intros x Hx. apply in_map_iff in Hx. destruct Hx as [e [He _]]. now subst.
  - apply filter_nil_all. intros x Hx. apply in_map_iff in Hx. destruct Hx as [e [He _]]. now subst.
Qed.

Lemma filter_map_dump : forall c p c' p' (l : list entry),
  filter (for_me val c p) (map (CbDump c' p') l) =
  if (c' =? c) && (p' =? p) then map (CbDump c' p') l else [].
Proof.
  intros. destruct ((c' =? c) && (p' =? p)) eqn:E.
  - apply filter_all. intros x Hx. apply in_map_iff in Hx. destruct Hx as [e [He _]]. now subst.
  - apply filter_nil_all. intros x Hx. apply in_map_iff in Hx. destruct Hx as [e [He _]]. now subst.
Qed.

(* of everything propagateChanges sends, client c's account for prefix p sees its own diff *)
Lemma filter_propagate : forall c p cl p' (oldr newr : route val),
  NoDup (keys cl) ->
  filter (for_me val c p) (propagate val cl p' oldr newr) =
  if p' =? p then
    match lookup c cl with
    | Some o => map (CbRemove c p') (paths_diff val (limit_slice val o oldr) (limit_slice val o newr)) ++
                map (CbAdd c p') (paths_diff val (limit_slice val o newr) (limit_slice val o oldr))
    | None => []
    end
  else [].
Proof.
  intros c p cl p' oldr newr ND. unfold propagate, remove_from_clients, add_to_clients.
  rewrite filter_app'.
  rewrite (filter_flat_map_key _ _ (for_me val c p) _ cl c ND).
  2:{ intros kv Hne. rewrite filter_map_remove.
      apply Nat.eqb_neq in Hne. unfold cid in *. now rewrite Hne. }
  rewrite (filter_flat_map_key _ _ (for_me val c p) _ cl c ND).
  2:{ intros kv Hne. rewrite filter_map_add.
      apply Nat.eqb_neq in Hne. unfold cid in *. now rewrite Hne. }
  destruct (lookup c cl) as [o|]; simpl.
  - rewrite filter_map_remove, filter_map_add, Nat.eqb_refl. simpl.
    now destruct (p' =? p).
  - now destruct (p' =? p).
Qed.

(* ------------------------------------------------------------------ invariants *)

Definition good_route (t : nat) (r : route val) : Prop :=
  paths r <> [] /\ NoDup (oids (paths r)) /\
  (forall e, In e (paths r) -> fst e < t) /\ ecmp r <= length (paths r).

Definition RInv (st : state val) : Prop :=
  NoDup (keys (routes st)) /\ NoDup (keys (clients st)) /\
  forall p r, lookup p (routes st) = Some r -> good_route (clock st) r.

Definition CInv (st : state val) (tr : trace val) : Prop :=
  forall c o p, lookup c (clients st) = Some o ->
    exists h, held val c p tr = Some h /\ Permutation h (want val o (route_at st p)).

Lemma good_route_mono : forall t t' r, t <= t' -> good_route t r -> good_route t' r.
Proof.
  intros t t' r Hle [H1 [H2 [H3 H4]]]. repeat split; try assumption.
  intros e He. specialize (H3 e He). lia.
Qed.

Lemma old_route_facts : forall st p, RInv st ->
  NoDup (oids (paths (route_at st p))) /\
  (forall e, In e (paths (route_at st p)) -> fst e < clock st).
Proof.
  intros st p [_ [_ HR]]. unfold route_at. destruct (lookup p (routes st)) as [r|] eqn:E.
  - destruct (HR p r E) as [_ [H2 [H3 _]]]. now split.
  - simpl. split; [constructor|contradiction].
Qed.

Lemma lookup_store : forall (rs : list (pfx * route val)) p newr p',
  lookup p' (store val p newr rs) =
  if p =? p' then match paths newr with [] => None | _ :: _ => Some newr end else lookup p' rs.
Proof.
  intros. unfold store. destruct (paths newr).
  - rewrite lookup_del. reflexivity.
  - rewrite lookup_put. reflexivity.
Qed.

Lemma NoDup_keys_store : forall (rs : list (pfx * route val)) p newr,
  NoDup (keys rs) -> NoDup (keys (store val p newr rs)).
Proof.
  intros. unfold store. destruct (paths newr).
  - now apply NoDup_keys_del.
  - now apply NoDup_keys_put.
Qed.

Lemma want_nil_paths : forall o (r : route val), paths r = [] -> want val o r = [].
Proof. intros o r H. unfold want. rewrite H. apply firstn_nil. Qed.

Lemma compat_sub : forall O N : list entry,
  NoDup (oids O) ->
  (forall y, In y N -> In y O \/ ~ In (fst y) (oids O)) ->
  compat O N.
Proof.
  intros O N ND H x y Hx Hy E. destruct (H y Hy) as [Hy'|Hy'].
  - eapply oids_inj; eauto.
  - exfalso. apply Hy'. rewrite <- E. now apply in_map.
Qed.

Lemma compat_firstn : forall (O N : list entry) n m,
  compat O N -> compat (firstn n O) (firstn m N).
Proof.
  intros O N n m H x y Hx Hy. apply H; eapply In_firstn; eauto.
Qed.

(* what is needed of the route that replaces the old one at prefix p *)
Definition next_ok (st : state val) (p : pfx) (newr : route val) : Prop :=
  NoDup (oids (paths newr)) /\
  (forall e, In e (paths newr) -> fst e < S (clock st)) /\
  ecmp newr <= length (paths newr) /\
  compat (paths (route_at st p)) (paths newr).

Definition not_register (o : op val) : Prop :=
  match o with ORegister _ _ => False | _ => True end.

Lemma held_step_plain : forall c p h (o : op val) cbs,
  not_register o -> held_step val c p h (o, cbs) = deliver val c p h cbs.
Proof. intros c p h o cbs H. unfold held_step. destruct o; simpl in *; try reflexivity. contradiction. Qed.

Lemma route_change_inv : forall st tr p newr o,
  RInv st -> CInv st tr -> not_register o -> next_ok st p newr ->
  RInv (mkState (store val p newr (routes st)) (clients st) (S (clock st))) /\
  CInv (mkState (store val p newr (routes st)) (clients st) (S (clock st)))
       (tr ++ [(o, propagate val (clients st) p (route_at st p) newr)]).
Proof.
  intros st tr p newr o HR HC Hnr [N1 [N2 [N3 N4]]].
  pose proof (old_route_facts st p HR) as [O1 O2].
  destruct HR as [R1 [R2 R3]]. split.
  - split; [|split]; simpl.
    + now apply NoDup_keys_store.
    + assumption.
    + intros p' r Hl. rewrite lookup_store in Hl. destruct (p =? p').
      * destruct (paths newr) eqn:Ep; [discriminate|]. inversion Hl; subst r.
        repeat split; rewrite Ep; try assumption. discriminate.
      * apply good_route_mono with (clock st); [lia|]. now apply (R3 p').
  - intros c oc p0 Hl. simpl in Hl.
    destruct (HC c oc p0 Hl) as [h [Hh HP]].
    rewrite held_snoc, Hh, held_step_plain by assumption.
    unfold deliver. rewrite filter_propagate by assumption. rewrite Hl.
    unfold route_at at 3. simpl. rewrite lookup_store.
    destruct (p =? p0) eqn:E.
    + apply Nat.eqb_eq in E. subst p0. rewrite !limit_slice_want.
      destruct (diff_update c p (want val oc (route_at st p)) (want val oc newr) h) as [H' [Hf HP']].
      * unfold want. now apply NoDup_oids_firstn.
      * unfold want. now apply NoDup_oids_firstn.
      * unfold want. now apply compat_firstn.
      * assumption.
      * exists H'. split; [assumption|].
        destruct (paths newr) eqn:Ep.
        -- rewrite (want_nil_paths oc newr Ep) in HP'.
           now rewrite (want_nil_paths oc nil_route eq_refl).
        -- assumption.
    + simpl. exists h. split; [reflexivity|]. exact HP.
Qed.

Lemma noop_inv : forall st tr o,
  RInv st -> CInv st tr -> not_register o ->
  RInv (tick val st) /\ CInv (tick val st) (tr ++ [(o, [])]).
Proof.
  intros st tr o [R1 [R2 R3]] HC Hnr. split.
  - split; [|split]; simpl; try assumption.
    intros p r Hl. apply good_route_mono with (clock st); [lia|]. now apply (R3 p).
  - intros c oc p Hl. simpl in Hl. destruct (HC c oc p Hl) as [h [Hh HP]].
    exists h. rewrite held_snoc, Hh, held_step_plain by assumption. split; [reflexivity|exact HP].
Qed.

(* path selection keeps what the theorems need *)
Lemma selected_facts : forall t (pre O : list entry),
  NoDup (oids pre) -> (forall e, In e pre -> fst e < S t) ->
  NoDup (oids O) -> (forall y, In y pre -> In y O \/ ~ In (fst y) (oids O)) ->
  NoDup (oids (paths (selected val sel t pre))) /\
  (forall e, In e (paths (selected val sel t pre)) -> fst e < S t) /\
  ecmp (selected val sel t pre) <= length (paths (selected val sel t pre)) /\
  compat O (paths (selected val sel t pre)).
Proof.
  intros t pre O ND Hlt NDO Hsub. unfold selected.
  destruct (Hsel t pre) as [HP Hle]. destruct (sel t pre) as [srt e]. simpl in *.
  split; [|split; [|split]].
  - eapply Permutation_NoDup_oids; eauto.
  - intros x Hx. apply Hlt. eapply Permutation_in; eauto.
  - rewrite (Permutation_length HP). exact Hle.
  - apply compat_sub; [assumption|]. intros y Hy. apply Hsub. eapply Permutation_in; eauto.
Qed.

Lemma remove_first_In : forall f (l : list entry) y, In y (remove_first val f l) -> In y l.
Proof.
  induction l as [|x l IH]; simpl; intros y H; [contradiction|].
  destruct (f x); [now right|]. destruct H as [H|H]; [now left|right; now apply IH].
Qed.

Lemma remove_first_NoDup : forall f (l : list entry),
  NoDup (oids l) -> NoDup (oids (remove_first val f l)).
Proof.
  induction l as [|x l IH]; simpl; intros ND; [constructor|].
  inversion ND as [|w l0 Hn ND']; subst. destruct (f x); [assumption|]. simpl. constructor.
  - intros H. apply Hn. unfold oids in H. apply in_map_iff in H. destruct H as [y [Ey Hy]].
    rewrite <- Ey. apply in_map. eapply remove_first_In; eauto.
  - now apply IH.
Qed.

Lemma replace_first_In : forall f n (l pre : list entry) y,
  replace_first val f n l = Some pre -> In y pre -> y = n \/ In y l.
Proof.
  induction l as [|x l IH]; simpl; intros pre y H Hy; [discriminate|].
  destruct (f x).
  - inversion H; subst. destruct Hy as [Hy|Hy]; [now left|right; now right].
  - destruct (replace_first val f n l) as [r|] eqn:E; [|discriminate]. inversion H; subst.
    destruct Hy as [Hy|Hy]; [right; now left|].
    destruct (IH r y eq_refl Hy) as [H1|H1]; [now left|right; now right].
Qed.

Lemma replace_first_NoDup : forall f n (l pre : list entry),
  replace_first val f n l = Some pre -> NoDup (oids l) -> ~ In (fst n) (oids l) ->
  NoDup (oids pre).
Proof.
  induction l as [|x l IH]; simpl; intros pre H ND Hn; [discriminate|].
  inversion ND as [|w l0 Hx ND']; subst. destruct (f x).
  - inversion H; subst. simpl. constructor; [|assumption]. intros Hi. apply Hn. now right.
  - destruct (replace_first val f n l) as [r|] eqn:E; [|discriminate]. inversion H; subst.
    simpl. constructor.
    + intros Hi. unfold oids in Hi. apply in_map_iff in Hi. destruct Hi as [y [Ey Hy]].
      destruct (replace_first_In f n l r y E Hy) as [H1|H1].
      * subst y. apply Hn. left. now rewrite Ey.
      * apply Hx. rewrite <- Ey. now apply in_map.
    + apply IH; [reflexivity|assumption|]. intros Hi. apply Hn. now right.
Qed.

(* initial dump and refresh *)
Lemma slice_dump : forall t o (r : route val), good_route t r ->
  slice_to val (dump_count val o r) (paths r) = Some (want val o r).
Proof.
  intros t o r [H1 [_ [_ H4]]]. unfold slice_to, dump_count, want, limit.
  destruct (bestOnly o).
  - destruct (paths r); [congruence|]. reflexivity.
  - destruct (ecmpOnly o).
    + apply Nat.leb_le in H4. now rewrite H4.
    + assert (Hm : Nat.min (maxPaths o) (length (paths r)) <=? length (paths r) = true)
        by (apply Nat.leb_le; apply Nat.le_min_r).
      rewrite Hm. now rewrite firstn_min_length.
Qed.

Lemma dump_routes_spec : forall t c o (rs : list (pfx * route val)),
  (forall p r, In (p, r) rs -> good_route t r) ->
  dump_routes val c o rs =
  Some (flat_map (fun pr => map (CbDump c (fst pr)) (want val o (snd pr))) rs).
Proof.
  induction rs as [|[p r] rs IH]; simpl; intros H; [reflexivity|].
  rewrite (slice_dump t o r) by (apply (H p r); now left).
  rewrite IH by (intros p' r' Hin; apply (H p' r'); now right). reflexivity.
Qed.

Lemma refresh_routes_spec : forall t c o (rs : list (pfx * route val)),
  (forall p r, In (p, r) rs -> good_route t r) ->
  refresh_routes val c o rs =
  Some (map (fun pr => CbRefresh c (fst pr) (want val o (snd pr))) rs).
Proof.
  induction rs as [|[p r] rs IH]; simpl; intros H; [reflexivity|].
  rewrite (slice_dump t o r) by (apply (H p r); now left).
  rewrite IH by (intros p' r' Hin; apply (H p' r'); now right). reflexivity.
Qed.

Lemma RInv_routes_good : forall st, RInv st ->
  forall p r, In (p, r) (routes st) -> good_route (clock st) r.
Proof.
  intros st [R1 [_ R3]] p r Hin. apply (R3 p). now apply In_lookup.
Qed.

(* ------------------------------------------------------------------ one operation *)

Notation step := (step val cmp eqv sel).
Notation run := (run val cmp eqv sel).

Lemma fresh_not_in : forall t (l : list entry),
  (forall e, In e l -> fst e < t) -> ~ In t (oids l).
Proof.
  intros t l H Hi. unfold oids in Hi. apply in_map_iff in Hi. destruct Hi as [e [Ee He]].
  specialize (H e He). lia.
Qed.

Lemma route_change_inv' : forall st tr p oldr newr o,
  RInv st -> CInv st tr -> not_register o -> route_at st p = oldr -> next_ok st p newr ->
  RInv (mkState (store val p newr (routes st)) (clients st) (S (clock st))) /\
  CInv (mkState (store val p newr (routes st)) (clients st) (S (clock st)))
       (tr ++ [(o, propagate val (clients st) p oldr newr)]).
Proof. intros st tr p oldr newr o HR HC Hn E Hk. subst oldr. now apply route_change_inv. Qed.

Lemma next_ok_selected : forall st p (pre : list entry),
  RInv st ->
  NoDup (oids pre) -> (forall e, In e pre -> fst e < S (clock st)) ->
  (forall y, In y pre -> In y (paths (route_at st p)) \/ ~ In (fst y) (oids (paths (route_at st p)))) ->
  next_ok st p (selected val sel (clock st) pre).
Proof.
  intros st p pre HR ND Hlt Hsub. pose proof (old_route_facts st p HR) as [O1 O2].
  destruct (selected_facts (clock st) pre (paths (route_at st p)) ND Hlt O1 Hsub) as [A [B [C D]]].
  unfold next_ok. repeat split; assumption.
Qed.

Lemma next_ok_nil : forall st p, next_ok st p nil_route.
Proof.
  intros st p. unfold next_ok. simpl. repeat split; try constructor; try contradiction.
  intros x y _ Hy. contradiction.
Qed.

Lemma step_inv : forall st tr o, RInv st -> CInv st tr ->
  exists st' cbs, step st o = Ok st' cbs /\ RInv st' /\ CInv st' (tr ++ [(o, cbs)]).
Proof.
  intros st tr o HR HC. destruct o as [p v|p v|p vo vn|c oc|c|c]; simpl.
  - (* AddPath *)
    eexists; eexists; split; [reflexivity|].
    pose proof (old_route_facts st p HR) as [O1 O2].
    apply route_change_inv; try assumption; [exact I|].
    apply next_ok_selected; try assumption.
    + unfold oids. rewrite map_app. apply NoDup_app_intro; [exact O1|repeat constructor; auto|].
      intros x Hx [Hy|[]]. subst x. now apply (fresh_not_in (clock st) _ O2).
    + intros e He. apply in_app_or in He. destruct He as [He|[He|[]]].
      * specialize (O2 e He). lia.
      * subst e. simpl. lia.
    + intros y Hy. apply in_app_or in Hy. destruct Hy as [Hy|[Hy|[]]]; [now left|].
      right. subst y. simpl. now apply fresh_not_in.
  - (* RemovePath *)
    destruct (lookup p (routes st)) as [oldr|] eqn:El.
    + assert (Hra : route_at st p = oldr) by (unfold route_at; now rewrite El).
      eexists; eexists; split; [reflexivity|].
      pose proof (old_route_facts st p HR) as [O1 O2]. rewrite Hra in O1, O2.
      apply route_change_inv'; try assumption; [exact I|].
      destruct (remove_first val (fun e => cmp (snd e) v) (paths oldr)) as [|e0 l0] eqn:Epre.
      * apply next_ok_nil.
      * rewrite <- Epre. apply next_ok_selected; try assumption.
        -- now apply remove_first_NoDup.
        -- intros e He. apply remove_first_In in He. specialize (O2 e He). lia.
        -- intros y Hy. left. rewrite Hra. eapply remove_first_In; eauto.
    + eexists; eexists; split; [reflexivity|]. apply noop_inv; try assumption. exact I.
  - (* ReplacePath *)
    destruct (lookup p (routes st)) as [oldr|] eqn:El.
    + assert (Hra : route_at st p = oldr) by (unfold route_at; now rewrite El).
      pose proof (old_route_facts st p HR) as [O1 O2]. rewrite Hra in O1, O2.
      destruct (replace_first val (fun e => eqv (snd e) vo) (clock st, vn) (paths oldr)) as [pre|] eqn:Epre.
      * eexists; eexists; split; [reflexivity|].
        apply route_change_inv'; try assumption; [exact I|].
        apply next_ok_selected; try assumption.
        -- eapply replace_first_NoDup; eauto. simpl. now apply fresh_not_in.
        -- intros e He. destruct (replace_first_In _ _ _ _ e Epre He) as [H1|H1].
           ++ subst e. simpl. lia.
           ++ specialize (O2 e H1). lia.
        -- intros y Hy. rewrite Hra. destruct (replace_first_In _ _ _ _ y Epre Hy) as [H1|H1].
           ++ right. subst y. simpl. now apply fresh_not_in.
           ++ now left.
      * eexists; eexists; split; [reflexivity|]. apply noop_inv; try assumption. exact I.
    + eexists; eexists; split; [reflexivity|]. apply noop_inv; try assumption. exact I.
  - (* RegisterWithOptions *)
    rewrite (dump_routes_spec (clock st) c oc (routes st) (RInv_routes_good st HR)).
    eexists; eexists; split; [reflexivity|].
    destruct HR as [R1 [R2 R3]]. split.
    + split; [|split]; simpl; [assumption|now apply NoDup_keys_put|].
      intros p r Hl. apply good_route_mono with (clock st); [lia|]. now apply (R3 p).
    + intros c1 o1 p Hl. simpl in Hl. rewrite lookup_put in Hl.
      rewrite held_snoc. unfold held_step. simpl.
      destruct (c =? c1) eqn:E.
      * apply Nat.eqb_eq in E. subst c1. inversion Hl; subst o1.
        unfold deliver. rewrite filter_app'. simpl (filter _ [CbEndOfRIB c]). rewrite app_nil_r.
        rewrite (filter_flat_map_key _ _ (for_me val c p) _ (routes st) p R1).
        2:{ intros kv Hne. rewrite filter_map_dump. apply Nat.eqb_neq in Hne.
            unfold pfx in *. rewrite Hne. now rewrite andb_false_r. }
        unfold route_at. simpl. destruct (lookup p (routes st)) as [r|].
        -- rewrite filter_map_dump, !Nat.eqb_refl. simpl. rewrite dump_all.
           eexists; split; [reflexivity|]. rewrite app_nil_r.
           apply Permutation_sym, Permutation_rev.
        -- simpl. exists []. split; [reflexivity|]. now rewrite want_nil_paths.
      * destruct (HC c1 o1 p Hl) as [h [Hh HP]]. rewrite Hh. exists h. split; [|exact HP].
        unfold deliver. rewrite filter_nil_all; [reflexivity|].
        intros x Hx. apply in_app_or in Hx. destruct Hx as [Hx|[Hx|[]]].
        -- apply in_flat_map in Hx. destruct Hx as [kv [_ Hx]].
           apply in_map_iff in Hx. destruct Hx as [e [He _]]. subst x. simpl. now rewrite E.
        -- subst x. reflexivity.
  - (* Unregister *)
    eexists; eexists; split; [reflexivity|].
    destruct HR as [R1 [R2 R3]]. split.
    + split; [|split]; simpl; [assumption|now apply NoDup_keys_del|].
      intros p r Hl. apply good_route_mono with (clock st); [lia|]. now apply (R3 p).
    + intros c1 o1 p Hl. simpl in Hl. rewrite lookup_del in Hl.
      destruct (c =? c1); [discriminate|].
      destruct (HC c1 o1 p Hl) as [h [Hh HP]]. exists h.
      rewrite held_snoc, Hh, held_step_plain by exact I. split; [reflexivity|exact HP].
  - (* RefreshClient *)
    rewrite (refresh_routes_spec (clock st) c _ (routes st) (RInv_routes_good st HR)).
    eexists; eexists; split; [reflexivity|].
    destruct (noop_inv st tr (ORefresh c) HR HC I) as [HR' HC']. split; [assumption|].
    intros c1 o1 p Hl. destruct (HC' c1 o1 p Hl) as [h [Hh HP]]. exists h. split; [|exact HP].
    rewrite held_snoc, held_step_plain in * by exact I. rewrite <- Hh.
    unfold deliver. simpl. rewrite filter_nil_all; [reflexivity|].
    intros x Hx. apply in_map_iff in Hx. destruct Hx as [pr [Hx _]]. now subst x.
Qed.

Lemma run_inv : forall ops st tr, RInv st -> CInv st tr ->
  exists st' tr', run st tr ops = Some (st', tr') /\ RInv st' /\ CInv st' tr'.
Proof.
  induction ops as [|o ops IH]; simpl; intros st tr HR HC.
  - exists st, tr. auto.
  - destruct (step_inv st tr o HR HC) as [st' [cbs [Hs [HR' HC']]]]. rewrite Hs. now apply IH.
Qed.

Lemma init_inv : RInv init /\ CInv init [].
Proof.
  split.
  - split; [constructor|split; [constructor|]]. intros p r H. discriminate.
  - intros c o p H. discriminate.
Qed.

(* ------------------------------------------------------------------ the theorems *)

Theorem clients_hold_selection : forall ops : list (op val),
  exists st tr, run init [] ops = Some (st, tr) /\
    forall c o p, lookup c (clients st) = Some o ->
      exists h, held val c p tr = Some h /\ Permutation h (want val o (route_at st p)).
Proof.
  intros ops. destruct init_inv as [HR HC].
  destruct (run_inv ops init [] HR HC) as [st [tr [Hr [_ HC']]]].
  exists st, tr. split; [assumption|exact HC'].
Qed.

Theorem clients_hold_selection_values : forall (ops : list (op val)) st tr,
  run init [] ops = Some (st, tr) ->
  forall c o p, lookup c (clients st) = Some o ->
    exists h, held val c p tr = Some h /\
              Permutation (map snd h) (map snd (want val o (route_at st p))).
Proof.
  intros ops st tr Hr c o p Hl.
  destruct (clients_hold_selection ops) as [st' [tr' [Hr' H]]].
  rewrite Hr in Hr'. inversion Hr'; subst st' tr'.
  destruct (H c o p Hl) as [h [Hh HP]]. exists h. split; [assumption|]. now apply Permutation_map.
Qed.

Lemma run_RInv : forall ops st tr, run init [] ops = Some (st, tr) -> RInv st.
Proof.
  intros ops st tr Hr. destruct init_inv as [HR HC].
  destruct (run_inv ops init [] HR HC) as [st' [tr' [Hr' [HR' _]]]].
  rewrite Hr in Hr'. inversion Hr'. now subst.
Qed.

Theorem refresh_resends_selection : forall (ops : list (op val)) st tr c o,
  run init [] ops = Some (st, tr) -> lookup c (clients st) = Some o ->
  NoDup (map fst (routes st)) /\
  step st (ORefresh c) =
  Ok (tick val st) (map (fun pr => CbRefresh c (fst pr) (want val o (snd pr))) (routes st)).
Proof.
  intros ops st tr c o Hr Hl. pose proof (run_RInv ops st tr Hr) as HR.
  split; [now destruct HR|]. simpl. rewrite Hl.
  now rewrite (refresh_routes_spec (clock st) c o (routes st) (RInv_routes_good st HR)).
Qed.

(* ------------------------------------------------------------------ silence *)

Lemma propagate_cid : forall cl p (oldr newr : route val) b,
  In b (propagate val cl p oldr newr) -> In (cb_cid val b) (keys cl).
Proof.
  intros cl p oldr newr b H. unfold propagate in H. apply in_app_or in H.
  destruct H as [H|H]; apply in_flat_map in H; destruct H as [co [Hco H]];
    apply in_map_iff in H; destruct H as [e [He _]]; subst b; simpl; now apply in_map.
Qed.

Lemma dump_cid : forall c o (rs : list (pfx * route val)) cbs b,
  dump_routes val c o rs = Some cbs -> In b cbs -> cb_cid val b = c.
Proof.
  induction rs as [|[p r] rs IH]; simpl; intros cbs b H Hb.
  - inversion H; subst. contradiction.
  - destruct (slice_to val (dump_count val o r) (paths r)) as [es|]; [|discriminate].
    destruct (dump_routes val c o rs) as [more|]; [|discriminate]. inversion H; subst.
    apply in_app_or in Hb. destruct Hb as [Hb|Hb]; [|now apply (IH more)].
    apply in_map_iff in Hb. destruct Hb as [e [He _]]. now subst b.
Qed.

Lemma refresh_cid : forall c o (rs : list (pfx * route val)) cbs b,
  refresh_routes val c o rs = Some cbs -> In b cbs -> cb_cid val b = c.
Proof.
  induction rs as [|[p r] rs IH]; simpl; intros cbs b H Hb.
  - inversion H; subst. contradiction.
  - destruct (slice_to val (dump_count val o r) (paths r)) as [es|]; [|discriminate].
    destruct (refresh_routes val c o rs) as [more|]; [|discriminate]. inversion H; subst.
    destruct Hb as [Hb|Hb]; [now subst b|now apply (IH more)].
Qed.

Lemma refresh_zero : forall c (rs : list (pfx * route val)) cbs b,
  refresh_routes val c zero_opts rs = Some cbs -> In b cbs -> exists p, b = CbRefresh c p [].
Proof.
  induction rs as [|[p r] rs IH]; simpl; intros cbs b H Hb.
  - inversion H; subst. contradiction.
  - unfold slice_to, dump_count in H. simpl in H.
    destruct (refresh_routes val c zero_opts rs) as [more|]; [|discriminate]. inversion H; subst.
    destruct Hb as [Hb|Hb]; [subst b; now exists p|now apply (IH more)].
Qed.

(* whoever is called is registered afterwards, or asked for it itself and got nothing *)
Lemma step_targets : forall st o st' cbs b,
  step st o = Ok st' cbs -> In b cbs ->
  lookup (cb_cid val b) (clients st') <> None \/
  (lookup (cb_cid val b) (clients st) = None /\ empty_refresh val (cb_cid val b) (o, cbs) b).
Proof.
  intros st o st' cbs b Hs Hb.
  assert (Hprop : forall p oldr newr, In b (propagate val (clients st) p oldr newr) ->
                  lookup (cb_cid val b) (clients st) <> None).
  { intros p oldr newr H. apply propagate_cid in H. intros Hn.
    apply lookup_None_keys in Hn. now apply Hn. }
  destruct o as [p v|p v|p vo vn|c oc|c|c]; simpl in Hs.
  - inversion Hs; subst. left. simpl. eapply Hprop; eauto.
  - destruct (lookup p (routes st)) as [oldr|]; inversion Hs; subst; [|contradiction].
    left. simpl. eapply Hprop; eauto.
  - destruct (lookup p (routes st)) as [oldr|]; [|inversion Hs; subst; contradiction].
    destruct (replace_first val (fun e => eqv (snd e) vo) (clock st, vn) (paths oldr)) as [pre|];
      inversion Hs; subst; [|contradiction].
    left. simpl. eapply Hprop; eauto.
  - destruct (dump_routes val c oc (routes st)) as [d|] eqn:Ed; [|discriminate].
    inversion Hs; subst. left. simpl.
    assert (Hc : cb_cid val b = c).
    { apply in_app_or in Hb. destruct Hb as [Hb|[Hb|[]]]; [eapply dump_cid; eauto|now subst b]. }
    rewrite Hc, lookup_put, Nat.eqb_refl. discriminate.
  - inversion Hs; subst. contradiction.
  - destruct (lookup c (clients st)) as [oc|] eqn:El.
    + destruct (refresh_routes val c oc (routes st)) as [d|] eqn:Ed; [|discriminate].
      inversion Hs; subst. left. simpl. rewrite (refresh_cid _ _ _ _ _ Ed Hb), El. discriminate.
    + destruct (refresh_routes val c zero_opts (routes st)) as [d|] eqn:Ed; [|discriminate].
      inversion Hs; subst. right. rewrite (refresh_cid _ _ _ _ _ Ed Hb). split; [assumption|].
      split; [reflexivity|]. eapply refresh_zero; eauto.
Qed.

Lemma step_keeps_unregistered : forall st o st' cbs c,
  step st o = Ok st' cbs -> lookup c (clients st) = None ->
  (forall oc, o <> ORegister c oc) -> lookup c (clients st') = None.
Proof.
  intros st o st' cbs c Hs Hl Hn.
  destruct o as [p v|p v|p vo vn|c' oc|c'|c']; simpl in Hs.
  - inversion Hs; subst. assumption.
  - destruct (lookup p (routes st)); inversion Hs; subst; assumption.
  - destruct (lookup p (routes st)) as [oldr|]; [|inversion Hs; subst; assumption].
    destruct (replace_first val (fun e => eqv (snd e) vo) (clock st, vn) (paths oldr));
      inversion Hs; subst; assumption.
  - destruct (dump_routes val c' oc (routes st)); [|discriminate]. inversion Hs; subst. simpl.
    rewrite lookup_put. destruct (c' =? c) eqn:E; [|assumption].
    apply Nat.eqb_eq in E. subst c'. exfalso. now apply (Hn oc).
  - inversion Hs; subst. simpl. rewrite lookup_del. now destruct (c' =? c).
  - destruct (refresh_routes val c' _ (routes st)); [|discriminate]. inversion Hs; subst. assumption.
Qed.

Lemma run_app : forall ops1 ops2 st tr,
  run st tr (ops1 ++ ops2) =
  match run st tr ops1 with Some (s1, t1) => run s1 t1 ops2 | None => None end.
Proof.
  induction ops1 as [|o ops1 IH]; simpl; intros ops2 st tr; [reflexivity|].
  destruct (step st o) as [st' cbs|]; [apply IH|reflexivity].
Qed.

Lemma run_trace : forall ops st tr st' tr',
  run st tr ops = Some (st', tr') -> exists ext, tr' = tr ++ ext /\ map fst ext = ops.
Proof.
  induction ops as [|o ops IH]; simpl; intros st tr st' tr' H.
  - inversion H; subst. exists []. now rewrite app_nil_r.
  - destruct (step st o) as [s1 cbs|]; [|discriminate].
    destruct (IH _ _ _ _ H) as [ext [E1 E2]]. exists ((o, cbs) :: ext). split.
    + rewrite E1, <- app_assoc. reflexivity.
    + simpl. now rewrite E2.
Qed.

Lemma quiet_run : forall c ops st tr st' tr',
  lookup c (clients st) = None -> (forall oc, ~ In (ORegister c oc) ops) ->
  run st tr ops = Some (st', tr') ->
  exists ext, tr' = tr ++ ext /\ map fst ext = ops /\ Forall (quiet_for val c) ext.
Proof.
  intros c. induction ops as [|o ops IH]; simpl; intros st tr st' tr' Hl Hn H.
  - inversion H; subst. exists []. rewrite app_nil_r. auto.
  - destruct (step st o) as [s1 cbs|] eqn:Hs; [|discriminate].
    assert (Hno : forall oc, o <> ORegister c oc) by (intros oc E; apply (Hn oc); now left).
    pose proof (step_keeps_unregistered _ _ _ _ c Hs Hl Hno) as Hl1.
    destruct (IH s1 (tr ++ [(o, cbs)]) st' tr' Hl1) as [ext [E1 [E2 E3]]]; [|assumption|].
    { intros oc Hi. apply (Hn oc). now right. }
    exists ((o, cbs) :: ext). split; [|split].
    + rewrite E1, <- app_assoc. reflexivity.
    + simpl. now rewrite E2.
    + constructor; [|assumption]. intros b Hb Hc. simpl in Hb.
      destruct (step_targets _ _ _ _ b Hs Hb) as [H1|[_ H1]].
      * exfalso. apply H1. now rewrite Hc.
      * now rewrite Hc in H1.
Qed.

Theorem silent_after_unregister : forall (ops1 : list (op val)) c ops2 st tr,
  (forall oc, ~ In (ORegister c oc) ops2) ->
  run init [] (ops1 ++ OUnregister c :: ops2) = Some (st, tr) ->
  exists tr1 tr2, tr = tr1 ++ (OUnregister c, []) :: tr2 /\
                  map fst tr1 = ops1 /\ map fst tr2 = ops2 /\
                  Forall (quiet_for val c) tr2.
Proof.
  intros ops1 c ops2 st tr Hn Hr. rewrite run_app in Hr.
  destruct (run init [] ops1) as [[s1 t1]|] eqn:H1; [|discriminate].
  destruct (run_trace _ _ _ _ _ H1) as [ext1 [E1 E2]]. simpl in E1. subst t1.
  simpl in Hr.
  destruct (quiet_run c ops2 (mkState (routes s1) (del c (clients s1)) (S (clock s1)))
              (ext1 ++ [(OUnregister c, [])]) st tr) as [ext [F1 [F2 F3]]].
  - simpl. rewrite lookup_del. now rewrite Nat.eqb_refl.
  - assumption.
  - exact Hr.
  - exists ext1, ext. split; [|auto]. rewrite F1, <- app_assoc. reflexivity.
Qed.

End Proofs.

(* ------------------------------------------------------------------ the example selection *)

Lemma ins_desc_perm : forall x l, Permutation (ins_desc x l) (x :: l).
Proof.
  induction l as [|y l IH]; simpl; [auto|].
  destruct (lp_of y <? lp_of x); [auto|].
  eapply perm_trans; [apply perm_skip; exact IH|apply perm_swap].
Qed.

Lemma sort_desc_perm : forall l, Permutation (sort_desc l) l.
Proof.
  induction l as [|x l IH]; simpl; [auto|].
  eapply perm_trans; [apply ins_desc_perm|now apply perm_skip].
Qed.

Lemma leading_le : forall k l, leading k l <= length l.
Proof. induction l as [|y l IH]; simpl; [lia|]. destruct (lp_of y =? k); lia. Qed.

Lemma ref_sel_ok : sel_ok (nat * nat) ref_sel.
Proof.
  intros t l. unfold ref_sel. split; [apply sort_desc_perm|].
  pose proof (Permutation_length (sort_desc_perm l)) as E. cbn [snd]. unfold entry in *.
  destruct (sort_desc l) as [|x s]; [lia|].
  rewrite <- E. apply leading_le.
Qed.
