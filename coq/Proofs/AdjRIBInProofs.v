From Coq Require Import List NArith Bool Permutation Lia.
Import ListNotations.
From BioVerif Require Import Model.AdjRIBIn Spec.AdjRIBInSpec.
Open Scope N_scope.

(* ------------------------------------------------------------------ basics *)
Lemma list_eqb_eq : forall a b, list_eqb a b = true <-> a = b.
Proof.
  induction a as [|x a IH]; destruct b as [|y b]; simpl; split; intro H; try congruence; try discriminate.
  - apply andb_true_iff in H. destruct H as [H1 H2]. apply N.eqb_eq in H1. apply IH in H2. congruence.
  - inversion H; subst. apply andb_true_iff. split. apply N.eqb_refl. apply IH. reflexivity.
Qed.

Lemma pcmp_iff : forall a b, pcmp a b = true <-> pkey a = pkey b.
Proof.
  intros a b. unfold pcmp, pkey, set_hid, set_otc. destruct a, b; simpl.
  rewrite !andb_true_iff, !N.eqb_eq, !list_eqb_eq. split.
  - intros [[[[[[H1 H2] H3] H4] H5] H6] H7]. subst. reflexivity.
  - intro H. inversion H; subst. repeat split; reflexivity.
Qed.

Lemma pcmp_refl : forall a, pcmp a a = true.
Proof. intro a. apply pcmp_iff. reflexivity. Qed.

Lemma pcmp_false_iff : forall a b, pcmp a b = false <-> pkey a <> pkey b.
Proof.
  intros a b. split; intro H.
  - intro E. apply pcmp_iff in E. congruence.
  - destruct (pcmp a b) eqn:E; [apply pcmp_iff in E; contradiction | reflexivity].
Qed.

Lemma pcmp_peq : forall a b, pcmp a b = true -> peq a b = true.
Proof.
  intros a b H. unfold pcmp in H. unfold peq.
  rewrite !andb_true_iff in H. destruct H as [[[[[[H1 H2] H3] H4] H5] H6] H7].
  apply list_eqb_eq in H5. apply list_eqb_eq in H7.
  rewrite H1, H2, H3, H4, H6, H5, H7, !N.eqb_refl. simpl.
  rewrite orb_true_r. reflexivity.
Qed.

Lemma peq_pid : forall a b, peq a b = true -> pid a = pid b.
Proof.
  intros a b H. unfold peq in H. rewrite !andb_true_iff in H.
  destruct H as [[[[[[H1 _] _] _] _] _] _]. apply N.eqb_eq. exact H1.
Qed.

Lemma pkey_pid : forall q, pid (pkey q) = pid q.
Proof. destruct q; reflexivity. Qed.

(* ------------------------------------------------------------------ client tables as bags of keys *)
Definition keys (t : list (pfx * path)) : list (pfx * path) := map ekey t.

Lemma match_iff : forall p q p' q', ((p' =? p) && pcmp q' q = true) <-> ekey (p', q') = ekey (p, q).
Proof.
  intros. unfold ekey; simpl. rewrite andb_true_iff, N.eqb_eq, pcmp_iff. split.
  - intros [H1 H2]. congruence.
  - intro H. inversion H. split; congruence.
Qed.

Lemma keys_ct_add : forall p q t, keys (ct_add p q t) = keys t ++ [ekey (p, q)].
Proof. intros. unfold keys, ct_add. rewrite map_app. reflexivity. Qed.

Lemma ct_remove_perm : forall p q t, In (ekey (p, q)) (keys t) ->
  Permutation (keys t) (ekey (p, q) :: keys (ct_remove p q t)).
Proof.
  induction t as [|[p' q'] r IH]; intro H; [contradiction|].
  cbn [ct_remove]. destruct ((p' =? p) && pcmp q' q) eqn:E.
  - apply match_iff in E. unfold keys. cbn [map]. exact (eq_ind _ (fun k => Permutation (k :: map ekey r) (ekey (p, q) :: map ekey r)) (Permutation_refl _) _ (eq_sym E)).
  - unfold keys in *. cbn [map] in *. destruct H as [H|H].
    + apply match_iff in H. congruence.
    + eapply perm_trans; [apply perm_skip, IH, H | apply perm_swap].
Qed.

Lemma ct_remove_subset : forall p q t e, In e (ct_remove p q t) -> In e t.
Proof.
  induction t as [|[p' q'] r IH]; simpl; intros e H; [contradiction|].
  destruct ((p' =? p) && pcmp q' q); [right; exact H|].
  destruct H as [H|H]; [left; exact H | right; apply IH, H].
Qed.

Definition remove_list (l : list (pfx * path)) (t : ctable) : ctable :=
  fold_left (fun acc e => ct_remove (fst e) (snd e) acc) l t.

Lemma remove_list_perm : forall l t r, Permutation (keys t) (keys l ++ r) ->
  Permutation (keys (remove_list l t)) r.
Proof.
  induction l as [|[p q] l IH]; simpl; intros t r H; [exact H|].
  apply IH. assert (Hin : In (ekey (p, q)) (keys t)).
  { eapply Permutation_in; [apply Permutation_sym, H | left; reflexivity]. }
  apply ct_remove_perm in Hin. eapply Permutation_cons_inv.
  eapply perm_trans; [apply Permutation_sym, Hin | exact H].
Qed.

Lemma remove_list_subset : forall l t e, In e (remove_list l t) -> In e t.
Proof.
  induction l as [|[p q] l IH]; simpl; intros t e H; [exact H|].
  apply IH in H. eapply ct_remove_subset, H.
Qed.

Lemma keys_nil : forall t, Permutation (keys t) [] -> t = [].
Proof. intros t H. apply Permutation_sym, Permutation_nil in H. destruct t; [reflexivity | discriminate]. Qed.

(* ------------------------------------------------------------------ calls to clients *)
Lemma ct_get_upd_same : forall c f m, ct_get c (ct_upd c f m) = f (ct_get c m).
Proof.
  induction m as [|[k t] r IH]; simpl.
  - rewrite N.eqb_refl. reflexivity.
  - destruct (k =? c) eqn:E; simpl; rewrite E; [reflexivity | exact IH].
Qed.

Lemma ct_get_upd_other : forall c c' f m, c <> c' -> ct_get c (ct_upd c' f m) = ct_get c m.
Proof.
  induction m as [|[k t] r IH]; simpl; intro H.
  - destruct (c' =? c) eqn:E; [apply N.eqb_eq in E; congruence | reflexivity].
  - destruct (k =? c') eqn:E; simpl.
    + apply N.eqb_eq in E. subst k.
      destruct (c' =? c) eqn:E2; [apply N.eqb_eq in E2; congruence | reflexivity].
    + destruct (k =? c); [reflexivity | apply IH, H].
Qed.

(* the part of the state that calls to clients never touch *)
Definition core_eq (s s' : st) : Prop :=
  sa s = sa s' /\ chain s = chain s' /\ tab s = tab s' /\ asns s = asns s' /\ cids s = cids s' /\ regs s = regs s'.

Lemma core_eq_refl : forall s, core_eq s s.
Proof. intro s. repeat split. Qed.
Lemma core_eq_trans : forall a b c, core_eq a b -> core_eq b c -> core_eq a c.
Proof. unfold core_eq. intros a b c H1 H2. intuition congruence. Qed.

Lemma call_core : forall c e f s, core_eq s (call c e f s).
Proof. intros. repeat split. Qed.

Definition mem (c : N) (l : list N) : bool := existsb (N.eqb c) l.

Lemma mem_In : forall c l, mem c l = true <-> In c l.
Proof.
  intros. unfold mem. rewrite existsb_exists. split.
  - intros [x [H1 H2]]. apply N.eqb_eq in H2. subst. exact H1.
  - intro H. exists c. split; [exact H | apply N.eqb_refl].
Qed.

Lemma calls_core : forall (mk : N -> event) f l s,
  core_eq s (fold_left (fun acc c => call c (mk c) f acc) l s).
Proof.
  induction l as [|c l IH]; simpl; intro s; [apply core_eq_refl|].
  eapply core_eq_trans; [apply (call_core c (mk c) f s) | apply IH].
Qed.

Lemma calls_get : forall (mk : N -> event) f l s c, NoDup l ->
  ct_get c (ctabs (fold_left (fun acc c => call c (mk c) f acc) l s)) =
  if mem c l then f (ct_get c (ctabs s)) else ct_get c (ctabs s).
Proof.
  induction l as [|k l IH]; simpl; intros s c Hnd; [reflexivity|].
  inversion Hnd as [|? ? Hk Hl]; subst. rewrite IH by exact Hl. simpl.
  destruct (c =? k) eqn:E.
  - apply N.eqb_eq in E. subst k. simpl.
    destruct (mem c l) eqn:M; [apply mem_In in M; contradiction|].
    apply ct_get_upd_same.
  - simpl. assert (c <> k) by (intro; subst; rewrite N.eqb_refl in E; discriminate).
    rewrite ct_get_upd_other by assumption. reflexivity.
Qed.

Lemma call_all_core : forall mk f s, core_eq s (call_all mk f s).
Proof. intros. apply calls_core. Qed.

Lemma call_all_get : forall mk f s c, NoDup (regs s) ->
  ct_get c (ctabs (call_all mk f s)) =
  if mem c (regs s) then f (ct_get c (ctabs s)) else ct_get c (ctabs s).
Proof. intros. apply calls_get. assumption. Qed.

(* what a policy makes of one stored entry, and of a table *)
Definition img (ch : policy) (e : pfx * path) : list (pfx * path) :=
  if hid (snd e) =? 0 then
    match ch (fst e) (snd e) with Some q' => [(fst e, q')] | None => [] end
  else [].
Definition contrib (ch : policy) (t : list (pfx * path)) : list (pfx * path) := flat_map (img ch) t.

Lemma contrib_app : forall ch a b, contrib ch (a ++ b) = contrib ch a ++ contrib ch b.
Proof. intros. unfold contrib. apply flat_map_app. Qed.

Lemma notify_remove_spec : forall p removed s,
  NoDup (regs s) ->
  let s' := notify_remove p removed s in
  core_eq s s' /\
  forall c, ct_get c (ctabs s') =
    if mem c (regs s) then remove_list (contrib (chain s) (map (pair p) removed)) (ct_get c (ctabs s))
    else ct_get c (ctabs s).
Proof.
  induction removed as [|q l IH]; intros s Hnd; simpl.
  - split; [apply core_eq_refl|]. intro c. destruct (mem c (regs s)); reflexivity.
  - unfold notify_remove in *. simpl. unfold img at 1. simpl.
    destruct (hid q =? 0) eqn:Eh; simpl.
    + destruct (chain s p q) as [q'|] eqn:Ec.
      * pose proof (call_all_core (fun c => EvRemove c p q') (ct_remove p q') s) as Hc.
        pose proof (call_all_get (fun c => EvRemove c p q') (ct_remove p q') s) as Hg.
        set (s1 := call_all (fun c => EvRemove c p q') (ct_remove p q') s) in *.
        assert (Hnd1 : NoDup (regs s1)) by (destruct Hc as (_&_&_&_&_&Hr); rewrite <- Hr; exact Hnd).
        destruct (IH s1 Hnd1) as [IH1 IH2]. split; [eapply core_eq_trans; eassumption|].
        intro c. rewrite IH2. destruct Hc as (_&Hch&_&_&_&Hr). rewrite <- Hr, <- Hch.
        rewrite Hg by exact Hnd. destruct (mem c (regs s)); reflexivity.
      * apply IH. exact Hnd.
    + apply IH. exact Hnd.
Qed.

(* ------------------------------------------------------------------ the Adj-RIB-In table: one path per slot *)
Definition tkey (ap : bool) (e : pfx * path) : N * N := (fst e, if ap then pid (snd e) else 0).
Definition sel (ap : bool) (p : pfx) (i : N) (e : pfx * path) : bool :=
  (fst e =? p) && (negb ap || (pid (snd e) =? i)).

Lemma sel_tkey : forall ap p i e, sel ap p i e = true <-> tkey ap e = (p, if ap then i else 0).
Proof.
  intros ap p i [p' q]. unfold sel, tkey; simpl. rewrite andb_true_iff, N.eqb_eq. destruct ap; simpl.
  - rewrite N.eqb_eq. split; [intros [? ?]; congruence | intro H; inversion H; auto].
  - split; [intros [? _]; congruence | intro H; inversion H; auto].
Qed.

Lemma sel_self : forall ap e, sel ap (fst e) (pid (snd e)) e = true.
Proof. intros. apply sel_tkey. reflexivity. Qed.

Lemma NoDup_map_inj_in : forall {A B} (f : A -> B) l x y,
  NoDup (map f l) -> In x l -> In y l -> f x = f y -> x = y.
Proof.
  induction l as [|a l IH]; simpl; intros x y Hnd Hx Hy E; [contradiction|].
  inversion Hnd as [|? ? Hn Hl]; subst.
  destruct Hx as [Hx|Hx], Hy as [Hy|Hy]; subst.
  - reflexivity.
  - exfalso. apply Hn. rewrite E. apply in_map, Hy.
  - exfalso. apply Hn. rewrite <- E. apply in_map, Hx.
  - apply IH; assumption.
Qed.

Lemma NoDup_map_filter : forall {A B} (f : A -> B) g l, NoDup (map f l) -> NoDup (map f (filter g l)).
Proof.
  induction l as [|a l IH]; simpl; intro H; [constructor|].
  inversion H as [|? ? Hn Hl]; subst. destruct (g a); simpl.
  - constructor; [|apply IH, Hl]. intro Hin. apply Hn.
    apply in_map_iff in Hin. destruct Hin as [x [E Hx]]. apply filter_In in Hx.
    rewrite <- E. apply in_map, Hx.
  - apply IH, Hl.
Qed.

Lemma filter_all : forall {A} (g : A -> bool) l, (forall x, In x l -> g x = true) -> filter g l = l.
Proof.
  induction l as [|a l IH]; simpl; intro H; [reflexivity|].
  rewrite (H a) by (left; reflexivity). f_equal. apply IH. intros x Hx. apply H. right. exact Hx.
Qed.

Lemma filter_filter : forall {A} (f g : A -> bool) l,
  filter f (filter g l) = filter (fun x => g x && f x) l.
Proof.
  induction l as [|a l IH]; simpl; [reflexivity|].
  destruct (g a); simpl; [destruct (f a); simpl; congruence | exact IH].
Qed.

Lemma ct_remove_exact : forall ap p x t, NoDup (map (tkey ap) t) -> In (p, x) t ->
  ct_remove p x t = filter (fun e => negb (sel ap p (pid x) e)) t.
Proof.
  induction t as [|[p' q'] r IH]; intros Hnd Hin; [contradiction|].
  inversion Hnd as [|? ? Hn Hl]; subst. cbn [ct_remove filter].
  destruct ((p' =? p) && pcmp q' x) eqn:E.
  - apply andb_true_iff in E. destruct E as [E1 E2]. apply N.eqb_eq in E1. subst p'.
    assert (Hs : sel ap p (pid x) (p, q') = true).
    { apply sel_tkey. unfold tkey; simpl. apply pcmp_peq, peq_pid in E2. rewrite E2. reflexivity. }
    rewrite Hs. simpl. symmetry. apply filter_all. intros e He.
    destruct (sel ap p (pid x) e) eqn:Es; [|reflexivity]. exfalso. apply Hn.
    apply sel_tkey in Es. apply sel_tkey in Hs. rewrite Hs, <- Es. apply in_map, He.
  - destruct Hin as [Hin|Hin].
    + inversion Hin; subst. rewrite N.eqb_refl, pcmp_refl in E. discriminate.
    + destruct (sel ap p (pid x) (p', q')) eqn:Es.
      * exfalso. apply Hn. apply sel_tkey in Es. rewrite Es.
        change (p, if ap then pid x else 0) with (tkey ap (p, x)). apply in_map, Hin.
      * simpl. f_equal. apply IH; assumption.
Qed.

Definition covered (ap : bool) (p : pfx) (L : list (pfx * path)) (x : pfx * path) : bool :=
  existsb (fun e => sel ap p (pid (snd e)) x) L.

Lemma rt_remove_all_cov : forall ap p L t,
  NoDup (map (tkey ap) t) -> NoDup (map (tkey ap) L) ->
  (forall e, In e L -> In e t /\ fst e = p) ->
  rt_remove_all p (map snd L) t = filter (fun x => negb (covered ap p L x)) t.
Proof.
  induction L as [|e L IH]; intros t Ht HL Hsub.
  - simpl. symmetry. apply filter_all. reflexivity.
  - cbn [map rt_remove_all fold_left]. fold (rt_remove_all p (map snd L) (ct_remove p (snd e) t)).
    destruct (Hsub e (or_introl eq_refl)) as [Het Hep]. destruct e as [pe x]. simpl in Hep. subst pe. simpl.
    rewrite (ct_remove_exact ap) by assumption.
    inversion HL as [|? ? HnL HL']; subst.
    rewrite IH.
    + rewrite filter_filter. apply filter_ext. intro y. unfold covered. simpl.
      rewrite negb_orb. reflexivity.
    + apply NoDup_map_filter, Ht.
    + exact HL'.
    + intros e' He'. destruct (Hsub e' (or_intror He')) as [H1 H2]. split; [|exact H2].
      apply filter_In. split; [exact H1|].
      destruct (sel ap p (pid x) e') eqn:Es; [|reflexivity]. exfalso. apply HnL.
      apply sel_tkey in Es. change (p, if ap then pid x else 0) with (tkey ap (p, x)) in Es.
      rewrite <- Es. apply in_map, He'.
Qed.

Lemma filter_sublist_NoDup : forall {A B} (f : A -> B) g l, NoDup (map f l) -> NoDup (map f (filter g l)).
Proof. intros. apply NoDup_map_filter. assumption. Qed.

(* removing everything a predicate g selects at prefix p *)
Lemma rt_remove_all_sel : forall ap p (g : pfx * path -> bool) t,
  NoDup (map (tkey ap) t) -> (forall e, g e = true -> fst e = p) ->
  rt_remove_all p (map snd (filter g t)) t = filter (fun e => negb (g e)) t.
Proof.
  intros ap p g t Ht Hg.
  rewrite (rt_remove_all_cov ap).
  - apply filter_ext_in. intros x Hx. f_equal. unfold covered.
    destruct (g x) eqn:Eg.
    + apply existsb_exists. exists x. split; [apply filter_In; auto|].
      rewrite <- (Hg x Eg). apply sel_self.
    + destruct (existsb _ _) eqn:Ee; [|reflexivity]. exfalso.
      apply existsb_exists in Ee. destruct Ee as [e [He Hs]]. apply filter_In in He. destruct He as [He Ge].
      apply sel_tkey in Hs. assert (x = e).
      { eapply (NoDup_map_inj_in (tkey ap)); eauto. rewrite Hs. unfold tkey. rewrite (Hg e Ge). reflexivity. }
      subst. congruence.
  - exact Ht.
  - apply NoDup_map_filter, Ht.
  - intros e He. apply filter_In in He. destruct He as [He Ge]. split; [exact He | apply Hg, Ge].
Qed.

Lemma filter_map_snd : forall (h : pfx * path -> bool) (g : path -> bool) (t : list (pfx * path)),
  filter g (map snd (filter h t)) = map snd (filter (fun e => h e && g (snd e)) t).
Proof.
  induction t as [|e t IH]; simpl; [reflexivity|].
  destruct (h e); simpl; [destruct (g (snd e)); simpl; congruence | exact IH].
Qed.

Lemma old_paths_sel : forall (ap : bool) p i t,
  (if ap then filter (fun x => pid x =? i) (at_pfx p t) else at_pfx p t) = map snd (filter (sel ap p i) t).
Proof.
  intros. unfold at_pfx. destruct ap.
  - rewrite filter_map_snd. reflexivity.
  - f_equal. apply filter_ext. intro e. unfold sel. simpl. rewrite andb_true_r. reflexivity.
Qed.

Lemma pair_filter_sel : forall p (g : pfx * path -> bool) t, (forall e, g e = true -> fst e = p) ->
  map (pair p) (map snd (filter g t)) = filter g t.
Proof.
  intros p g t Hg. rewrite map_map. rewrite <- (map_id (filter g t)) at 2.
  apply map_ext_in. intros [p' q] He. apply filter_In in He. destruct He as [_ Ge].
  apply Hg in Ge. simpl in *. subst. reflexivity.
Qed.

Lemma sel_fst : forall ap p i e, sel ap p i e = true -> fst e = p.
Proof. intros ap p i e H. unfold sel in H. apply andb_true_iff in H. destruct H as [H _]. apply N.eqb_eq, H. Qed.

Lemma contrib_partition : forall ch (g : pfx * path -> bool) t,
  Permutation (contrib ch t) (contrib ch (filter g t) ++ contrib ch (filter (fun e => negb (g e)) t)).
Proof.
  induction t as [|e t IH]; simpl; [constructor|].
  destruct (g e); simpl.
  - rewrite <- app_assoc. apply Permutation_app_head, IH.
  - eapply perm_trans; [apply Permutation_app_head, IH|].
    rewrite !app_assoc. apply Permutation_app_tail, Permutation_app_comm.
Qed.

(* ------------------------------------------------------------------ what each operation does *)
Definition apx (s : st) : bool := addpath_rx (sa s).
Definition Kinv (s : st) : Prop := NoDup (map (tkey (apx s)) (tab s)).

Definition stored_form (s : st) (q : path) : path :=
  let hv := validate (sa s) (asns s) (cids s) q in
  let h := fst hv in
  let qv := snd hv in
  let ql := if (h =? 0) && negb (ibgp (sa s)) && (lpref qv =? 0) then set_lpref qv (deflp (sa s)) else qv in
  set_hid ql h.

Lemma validate_otc_pid : forall a q q', validate_otc a q = Some q' -> pid q' = pid q.
Proof.
  intros a q q' H. unfold validate_otc in H.
  repeat match type of H with
  | (if ?b then _ else _) = _ => destruct b
  end; inversion H; subst; reflexivity.
Qed.

Lemma validate_pid : forall a r1 r2 q, pid (snd (validate a r1 r2 q)) = pid q.
Proof.
  intros. unfold validate.
  repeat match goal with
  | |- context [if ?b then _ else _] => destruct b; simpl; try reflexivity
  end.
  destruct (validate_otc a q) eqn:E; simpl; [eapply validate_otc_pid, E | reflexivity].
Qed.

Lemma stored_form_pid : forall s q, pid (stored_form s q) = pid q.
Proof.
  intros. unfold stored_form. cbv zeta.
  destruct (_ && _ && _); simpl; apply validate_pid.
Qed.

Lemma stored_form_hid : forall s q, hid (stored_form s q) = fst (validate (sa s) (asns s) (cids s) q).
Proof. intros. unfold stored_form. reflexivity. Qed.

(* fields other than tab / ctabs / log *)
Definition cfg_eq (s s' : st) : Prop :=
  sa s' = sa s /\ chain s' = chain s /\ asns s' = asns s /\ cids s' = cids s /\ regs s' = regs s.

Lemma core_cfg : forall s s', core_eq s s' -> cfg_eq s s'.
Proof. unfold core_eq, cfg_eq. intros. intuition congruence. Qed.

(* remove the entries selected by g (all at prefix p) and tell the clients; t' is the new table *)
Lemma drop_notify : forall p (g : pfx * path -> bool) t' s,
  NoDup (regs s) -> (forall e, g e = true -> fst e = p) ->
  let s' := notify_remove p (map snd (filter g (tab s))) (set_tab s t') in
  cfg_eq s s' /\ tab s' = t' /\
  forall c, ct_get c (ctabs s') =
    if mem c (regs s) then remove_list (contrib (chain s) (filter g (tab s))) (ct_get c (ctabs s))
    else ct_get c (ctabs s).
Proof.
  intros p g t' s Hnd Hg s'.
  destruct (notify_remove_spec p (map snd (filter g (tab s))) (set_tab s t') Hnd) as [Hc Hget].
  fold s' in Hc, Hget. split; [|split].
  - apply core_cfg in Hc. exact Hc.
  - destruct Hc as (_&_&Ht&_). simpl in Ht. congruence.
  - intro c. rewrite Hget. simpl. rewrite pair_filter_sel by exact Hg. reflexivity.
Qed.

Lemma remove_path_sel : forall p oid s,
  let g := match oid with Some i => sel (apx s) p i | None => fun e => fst e =? p end in
  remove_path p oid s =
  notify_remove p (map snd (filter g (tab s))) (set_tab s (rt_remove_all p (map snd (filter g (tab s))) (tab s))).
Proof.
  intros p oid s g. unfold remove_path.
  assert (E : match oid with
              | Some i => if addpath_rx (sa s) then filter (fun x => pid x =? i) (at_pfx p (tab s)) else at_pfx p (tab s)
              | None => at_pfx p (tab s) end = map snd (filter g (tab s))).
  { destruct oid; [apply old_paths_sel | reflexivity]. }
  rewrite E. reflexivity.
Qed.

Lemma g_fst : forall ap p oid e,
  (match oid with Some i => sel ap p i | None => fun e => fst e =? p end) e = true -> fst e = p.
Proof. intros ap p [i|] e H; [eapply sel_fst, H | apply N.eqb_eq, H]. Qed.

Lemma remove_path_spec : forall p oid s, Kinv s -> NoDup (regs s) ->
  let g := match oid with Some i => sel (apx s) p i | None => fun e => fst e =? p end in
  let s' := remove_path p oid s in
  cfg_eq s s' /\ tab s' = filter (fun e => negb (g e)) (tab s) /\
  forall c, ct_get c (ctabs s') =
    if mem c (regs s) then remove_list (contrib (chain s) (filter g (tab s))) (ct_get c (ctabs s))
    else ct_get c (ctabs s).
Proof.
  intros p oid s HK Hnd g s'. unfold s'. rewrite remove_path_sel. fold g.
  assert (Hg : forall e, g e = true -> fst e = p) by (intros e; apply g_fst).
  destruct (drop_notify p g (rt_remove_all p (map snd (filter g (tab s))) (tab s)) s Hnd Hg) as (H1&H2&H3).
  split; [exact H1|]. split; [|exact H3].
  rewrite H2. apply (rt_remove_all_sel (apx s)); assumption.
Qed.

Lemma add_path_spec : forall p q s, Kinv s -> NoDup (regs s) ->
  let g := sel (apx s) p (pid q) in
  let qs := stored_form s q in
  let s' := add_path p q s in
  cfg_eq s s' /\ tab s' = filter (fun e => negb (g e)) (tab s) ++ [(p, qs)] /\
  forall c, ct_get c (ctabs s') =
    if mem c (regs s)
    then remove_list (contrib (chain s) (filter g (tab s))) (ct_get c (ctabs s)) ++ contrib (chain s) [(p, qs)]
    else ct_get c (ctabs s).
Proof.
  intros p q s HK Hnd g qs s'.
  assert (Hg : forall e, g e = true -> fst e = p) by (intros e; apply sel_fst).
  unfold s', add_path. rewrite old_paths_sel. fold (apx s). fold g. cbv zeta.
  fold (stored_form s q). fold qs.
  set (t1 := rt_remove_all p (map snd (filter g (tab s))) (tab s) ++ [(p, qs)]).
  destruct (drop_notify p g t1 s Hnd Hg) as (H1&H2&H3).
  set (s1 := notify_remove p (map snd (filter g (tab s))) (set_tab s t1)) in *.
  assert (Ht1 : t1 = filter (fun e => negb (g e)) (tab s) ++ [(p, qs)]).
  { unfold t1. f_equal. apply (rt_remove_all_sel (apx s)); assumption. }
  assert (Hh : hid qs = fst (validate (sa s) (asns s) (cids s) q)) by apply stored_form_hid.
  clearbody qs.
  destruct (negb (fst (validate (sa s) (asns s) (cids s) q) =? 0)) eqn:Eh.
  - (* hidden *)
    split; [exact H1|]. split; [congruence|]. intro c. rewrite H3.
    unfold contrib at 2. simpl. unfold img. simpl. rewrite Hh.
    apply negb_true_iff in Eh. rewrite Eh. simpl. rewrite app_nil_r. reflexivity.
  - apply negb_false_iff in Eh. destruct (chain s p qs) as [q'|] eqn:Ec.
    + pose proof (call_all_core (fun c => EvAdd c p q') (ct_add p q') s1) as Hc.
      assert (Hr1 : regs s1 = regs s) by (destruct H1 as (_&_&_&_&Hr); exact Hr).
      pose proof (call_all_get (fun c => EvAdd c p q') (ct_add p q') s1) as Hgc.
      rewrite Hr1 in Hgc.
      split; [|split].
      * apply core_cfg in Hc. unfold cfg_eq in *. intuition congruence.
      * destruct Hc as (_&_&Ht&_). rewrite <- Ht. congruence.
      * intro c. rewrite Hgc by exact Hnd. rewrite H3.
        unfold contrib at 2. simpl. unfold img. simpl. rewrite Hh, Eh, Ec. simpl.
        destruct (mem c (regs s)); reflexivity.
    + split; [exact H1|]. split; [congruence|]. intro c. rewrite H3.
      unfold contrib at 2. simpl. unfold img. simpl. rewrite Hh, Eh, Ec. simpl.
      rewrite app_nil_r. reflexivity.
Qed.

(* ------------------------------------------------------------------ loops that talk to one client *)
Lemma img_In : forall ch e x, In x (img ch e) ->
  fst x = fst e /\ hid (snd e) = 0 /\ ch (fst e) (snd e) = Some (snd x).
Proof.
  intros ch e x H. unfold img in H. destruct (hid (snd e) =? 0) eqn:Eh; [|contradiction].
  destruct (ch (fst e) (snd e)) eqn:Ec; [|contradiction].
  destruct H as [H|[]]. subst x. simpl. apply N.eqb_eq in Eh. auto.
Qed.

Lemma contrib_In : forall ch l x, In x (contrib ch l) -> exists e, In e l /\ In x (img ch e).
Proof. intros ch l x H. unfold contrib in H. apply in_flat_map in H. exact H. Qed.

Lemma single_fold : forall (mk : pfx -> path -> event) (f : pfx -> path -> ctable -> ctable) c l s,
  let s' := fold_left (fun acc e =>
              if negb (hid (snd e) =? 0) then acc else
              match chain acc (fst e) (snd e) with
              | None => acc
              | Some q' => call c (mk (fst e) q') (f (fst e) q') acc
              end) l s in
  core_eq s s' /\
  ct_get c (ctabs s') = fold_left (fun t e => f (fst e) (snd e) t) (contrib (chain s) l) (ct_get c (ctabs s)) /\
  forall c', c' <> c -> ct_get c' (ctabs s') = ct_get c' (ctabs s).
Proof.
  induction l as [|e l IH]; intro s; simpl.
  - split; [apply core_eq_refl|]. split; [reflexivity | reflexivity].
  - unfold img. destruct (hid (snd e) =? 0) eqn:Eh; simpl; [|apply IH].
    destruct (chain s (fst e) (snd e)) as [q'|] eqn:Ec; [|apply IH].
    set (s1 := call c (mk (fst e) q') (f (fst e) q') s).
    destruct (IH s1) as (H1&H2&H3). simpl. split; [|split].
    + eapply core_eq_trans; [apply (call_core c (mk (fst e) q') (f (fst e) q') s) | exact H1].
    + rewrite H2. unfold s1 at 1 2. simpl. rewrite ct_get_upd_same. reflexivity.
    + intros c' Hc. rewrite H3 by exact Hc. unfold s1. simpl. apply ct_get_upd_other, Hc.
Qed.

Lemma fold_ct_add : forall L t, fold_left (fun t e => ct_add (fst e) (snd e) t) L t = t ++ L.
Proof.
  induction L as [|[p q] L IH]; intro t; simpl; [symmetry; apply app_nil_r|].
  rewrite IH. unfold ct_add. rewrite <- app_assoc. reflexivity.
Qed.

Lemma set_regs_fields : forall s r, sa (set_regs s r) = sa s /\ chain (set_regs s r) = chain s /\
  tab (set_regs s r) = tab s /\ asns (set_regs s r) = asns s /\ cids (set_regs s r) = cids s /\
  regs (set_regs s r) = r /\ ctabs (set_regs s r) = ctabs s.
Proof. intros. repeat split. Qed.

Lemma register_spec : forall c s, mem c (regs s) = false ->
  let s' := register c s in
  sa s' = sa s /\ chain s' = chain s /\ tab s' = tab s /\ asns s' = asns s /\ cids s' = cids s /\
  regs s' = regs s ++ [c] /\
  ct_get c (ctabs s') = ct_get c (ctabs s) ++ contrib (chain s) (tab s) /\
  forall c', c' <> c -> ct_get c' (ctabs s') = ct_get c' (ctabs s).
Proof.
  intros c s Hm s'. unfold s', register. fold (mem c (regs s)). rewrite Hm.
  set (s1 := set_regs s (regs s ++ [c])).
  destruct (single_fold (fun p q' => EvDump c p q') ct_add c (tab s1) s1) as (H1&H2&H3).
  set (s2 := fold_left _ (tab s1) s1) in *.
  destruct H1 as (A1&A2&A3&A4&A5&A6). simpl in *.
  repeat split; try congruence.
  - rewrite ct_get_upd_same. rewrite H2. rewrite fold_ct_add. reflexivity.
  - intros c' Hc. rewrite ct_get_upd_other by exact Hc. apply H3, Hc.
Qed.

Lemma mem_filter_neq : forall c k l, mem k (filter (fun x => negb (x =? c)) l) = mem k l && negb (k =? c).
Proof.
  induction l as [|a l IH]; simpl; [reflexivity|].
  destruct (a =? c) eqn:E; simpl.
  - rewrite IH. apply N.eqb_eq in E. subst a. destruct (k =? c) eqn:E2; simpl.
    + rewrite andb_false_r. reflexivity.
    + reflexivity.
  - rewrite IH. destruct (k =? a) eqn:E2; simpl; [|reflexivity].
    apply N.eqb_eq in E2. subst a. rewrite E. reflexivity.
Qed.

Lemma unregister_spec : forall c s, mem c (regs s) = true ->
  let s' := unregister c s in
  sa s' = sa s /\ chain s' = chain s /\ tab s' = tab s /\ asns s' = asns s /\ cids s' = cids s /\
  regs s' = filter (fun k => negb (k =? c)) (regs s) /\
  ct_get c (ctabs s') = remove_list (contrib (chain s) (tab s)) (ct_get c (ctabs s)) /\
  forall c', c' <> c -> ct_get c' (ctabs s') = ct_get c' (ctabs s).
Proof.
  intros c s Hm s'. unfold s', unregister. fold (mem c (regs s)). rewrite Hm. cbn [negb].
  set (s1 := set_regs s (filter (fun k => negb (k =? c)) (regs s))).
  destruct (single_fold (fun p q' => EvRemove c p q') ct_remove c (tab s1) s1) as (H1&H2&H3).
  set (s2 := fold_left _ (tab s1) s1) in *.
  destruct H1 as (A1&A2&A3&A4&A5&A6).
  unfold s1 in A1, A2, A3, A4, A5, A6, H2, H3. cbn [set_regs sa chain tab asns cids regs ctabs] in A1, A2, A3, A4, A5, A6, H2, H3.
  repeat split; try congruence.
  - exact H2.
  - exact H3.
Qed.

(* ------------------------------------------------------------------ the invariant behind C05 *)
Record Inv (s : st) : Prop := mkInv {
  inv_K : Kinv s;
  inv_R : NoDup (regs s);
  inv_C : forall c, In c (regs s) ->
          Permutation (keys (ct_get c (ctabs s))) (keys (contrib (chain s) (tab s)));
  inv_U : forall c, ~ In c (regs s) -> ct_get c (ctabs s) = []
}.

Lemma keys_app : forall a b, keys (a ++ b) = keys a ++ keys b.
Proof. intros. unfold keys. apply map_app. Qed.

Lemma keys_perm : forall a b, Permutation a b -> Permutation (keys a) (keys b).
Proof. intros. unfold keys. apply Permutation_map. assumption. Qed.

Lemma mem_false_notin : forall c l, mem c l = false <-> ~ In c l.
Proof.
  intros. split; intro H.
  - intro Hin. apply mem_In in Hin. congruence.
  - destruct (mem c l) eqn:E; [apply mem_In in E; contradiction | reflexivity].
Qed.

(* after dropping the entries selected by g, a mirrored client mirrors the rest *)
Lemma drop_mirror : forall ch g t ct,
  Permutation (keys ct) (keys (contrib ch t)) ->
  Permutation (keys (remove_list (contrib ch (filter g t)) ct))
              (keys (contrib ch (filter (fun e => negb (g e)) t))).
Proof.
  intros ch g t ct H. apply remove_list_perm. rewrite <- keys_app.
  eapply perm_trans; [exact H|]. apply keys_perm, contrib_partition.
Qed.

Lemma Kinv_filter : forall ap (g : pfx * path -> bool) t,
  NoDup (map (tkey ap) t) -> NoDup (map (tkey ap) (filter g t)).
Proof. intros. apply NoDup_map_filter. assumption. Qed.

Lemma NoDup_app_snoc : forall {A} (l : list A) x, NoDup l -> ~ In x l -> NoDup (l ++ [x]).
Proof.
  induction l as [|a l IH]; simpl; intros x Hnd Hx.
  - constructor; [intros [] | constructor].
  - inversion Hnd as [|? ? Ha Hl]; subst. constructor.
    + intro Hin. apply in_app_or in Hin. destruct Hin as [Hin|[Hin|[]]]; [contradiction | subst; apply Hx; left; reflexivity].
    + apply IH; [exact Hl | intro; apply Hx; right; assumption].
Qed.

Lemma Inv_remove_path : forall p oid s, Inv s -> Inv (remove_path p oid s).
Proof.
  intros p oid s [HK HR HC HU].
  destruct (remove_path_spec p oid s HK HR) as ((E1&E2&E3&E4&E5)&Ht&Hg).
  set (s' := remove_path p oid s) in *.
  constructor.
  - unfold Kinv, apx. rewrite E1, Ht. apply Kinv_filter, HK.
  - rewrite E5. exact HR.
  - intros c Hc. rewrite E5 in Hc. rewrite Hg, E2, Ht.
    apply mem_In in Hc. rewrite Hc. apply drop_mirror. apply HC. apply mem_In, Hc.
  - intros c Hc. rewrite E5 in Hc. rewrite Hg. apply mem_false_notin in Hc. rewrite Hc.
    apply HU. apply mem_false_notin, Hc.
Qed.

Lemma Inv_add_path : forall p q s, Inv s -> Inv (add_path p q s).
Proof.
  intros p q s [HK HR HC HU].
  destruct (add_path_spec p q s HK HR) as ((E1&E2&E3&E4&E5)&Ht&Hg).
  set (s' := add_path p q s) in *.
  constructor.
  - unfold Kinv, apx. rewrite E1, Ht. rewrite map_app. simpl.
    apply NoDup_app_snoc.
    + apply Kinv_filter, HK.
    + intro Hin. apply in_map_iff in Hin. destruct Hin as [e [Ek He]]. apply filter_In in He.
      destruct He as [_ Hs]. apply negb_true_iff in Hs.
      assert (sel (apx s) p (pid q) e = true).
      { apply sel_tkey. unfold apx. rewrite Ek. unfold tkey. cbn [fst snd]. rewrite stored_form_pid. reflexivity. }
      unfold apx in *. congruence.
  - rewrite E5. exact HR.
  - intros c Hc. rewrite E5 in Hc. rewrite Hg, E2, Ht.
    apply mem_In in Hc. rewrite Hc. rewrite contrib_app, !keys_app.
    apply Permutation_app_tail. apply drop_mirror. apply HC. apply mem_In, Hc.
  - intros c Hc. rewrite E5 in Hc. rewrite Hg. apply mem_false_notin in Hc. rewrite Hc.
    apply HU. apply mem_false_notin, Hc.
Qed.

Lemma Inv_flush : forall s, Inv s -> Inv (flush s).
Proof.
  intros s H. unfold flush. generalize (tab s) as l. revert s H.
  intros s H l. revert s H. induction l as [|e l IH]; intros s H; simpl; [exact H|].
  apply IH. apply Inv_remove_path. exact H.
Qed.

Lemma Inv_register : forall c s, Inv s -> mem c (regs s) = false -> Inv (register c s).
Proof.
  intros c s [HK HR HC HU] Hm.
  destruct (register_spec c s Hm) as (E1&E2&E3&E4&E5&E6&E7&E8).
  set (s' := register c s) in *. apply mem_false_notin in Hm.
  constructor.
  - unfold Kinv, apx. rewrite E1, E3. exact HK.
  - rewrite E6. apply NoDup_app_snoc; assumption.
  - intros k Hk. rewrite E6 in Hk. rewrite E2, E3. destruct (N.eq_dec k c) as [->|Hne].
    + rewrite E7. rewrite (HU c Hm). simpl. apply Permutation_refl.
    + rewrite E8 by exact Hne. apply HC. apply in_app_or in Hk. destruct Hk as [Hk|[Hk|[]]]; [exact Hk | congruence].
  - intros k Hk. rewrite E6 in Hk. assert (k <> c) by (intro; subst; apply Hk, in_or_app; right; left; reflexivity).
    rewrite E8 by assumption. apply HU. intro. apply Hk, in_or_app. left. assumption.
Qed.

Lemma Inv_unregister : forall c s, Inv s -> Inv (unregister c s).
Proof.
  intros c s H. destruct (mem c (regs s)) eqn:Hm.
  2:{ unfold unregister. fold (mem c (regs s)). rewrite Hm. exact H. }
  destruct H as [HK HR HC HU].
  destruct (unregister_spec c s Hm) as (E1&E2&E3&E4&E5&E6&E7&E8).
  set (s' := unregister c s) in *. apply mem_In in Hm.
  constructor.
  - unfold Kinv, apx. rewrite E1, E3. exact HK.
  - rewrite E6. apply NoDup_filter, HR.
  - intros k Hk. rewrite E6 in Hk. apply filter_In in Hk. destruct Hk as [Hk Hne].
    apply negb_true_iff, N.eqb_neq in Hne. rewrite E8 by exact Hne. rewrite E2, E3. apply HC, Hk.
  - intros k Hk. rewrite E6 in Hk. destruct (N.eq_dec k c) as [->|Hne].
    + rewrite E7. apply keys_nil. apply remove_list_perm. rewrite app_nil_r. apply HC, Hm.
    + rewrite E8 by exact Hne. apply HU. intro Hin. apply Hk. apply filter_In. split; [exact Hin|].
      apply negb_true_iff, N.eqb_neq, Hne.
Qed.

(* ------------------------------------------------------------------ ReplaceFilterChain *)
Lemma ct_replace_perm : forall p o n t,
  (forall x, In x t -> fst x = p -> peq (snd x) o = true -> pcmp (snd x) o = true) ->
  In (ekey (p, o)) (keys t) ->
  Permutation (keys (ct_replace p o n t)) (ekey (p, n) :: keys (ct_remove p o t)).
Proof.
  induction t as [|[p' q'] r IH]; intros Hx Hin; [contradiction|].
  cbn [ct_replace ct_remove].
  destruct ((p' =? p) && peq q' o) eqn:E.
  - apply andb_true_iff in E. destruct E as [E1 E2]. apply N.eqb_eq in E1. subst p'.
    assert (Hc : pcmp q' o = true) by (apply (Hx (p, q')); [left; reflexivity | reflexivity | exact E2]).
    rewrite N.eqb_refl, Hc. simpl. unfold keys. simpl. apply Permutation_refl.
  - assert (E' : (p' =? p) && pcmp q' o = false).
    { destruct ((p' =? p) && pcmp q' o) eqn:E3; [|reflexivity].
      apply andb_true_iff in E3. destruct E3 as [E3 E4]. apply pcmp_peq in E4. rewrite E3, E4 in E. discriminate. }
    rewrite E'. unfold keys in *. cbn [map] in *. destruct Hin as [Hin|Hin].
    + apply match_iff in Hin. congruence.
    + eapply perm_trans; [apply perm_skip, IH|apply perm_swap].
      * intros x H1 H2 H3. apply Hx; [right; exact H1 | exact H2 | exact H3].
      * exact Hin.
Qed.

Lemma remove_mid : forall p o ct A B,
  Permutation (keys ct) (keys (A ++ (p, o) :: B)) ->
  Permutation (keys (ct_remove p o ct)) (keys (A ++ B)).
Proof.
  intros p o ct A B H.
  assert (Hin : In (ekey (p, o)) (keys ct)).
  { eapply Permutation_in; [apply Permutation_sym, H|]. rewrite keys_app. apply in_or_app. right. left. reflexivity. }
  apply ct_remove_perm in Hin. eapply Permutation_cons_inv.
  eapply perm_trans; [apply Permutation_sym, Hin|]. eapply perm_trans; [exact H|].
  rewrite !keys_app. simpl. apply Permutation_sym, Permutation_middle.
Qed.

Lemma add_mid : forall p n ct A B,
  Permutation (keys ct) (keys (A ++ B)) ->
  Permutation (keys (ct_add p n ct)) (keys (A ++ (p, n) :: B)).
Proof.
  intros p n ct A B H. rewrite keys_ct_add. rewrite !keys_app in *. simpl.
  eapply perm_trans; [apply Permutation_app_comm|]. simpl.
  eapply perm_trans; [apply perm_skip, H|]. apply Permutation_middle.
Qed.

Lemma keys_In : forall x t, In x (keys t) -> exists y, In y t /\ ekey y = x.
Proof. intros x t H. unfold keys in H. apply in_map_iff in H. destruct H as [y [E Hy]]. exists y. auto. Qed.

Lemma ekey_fst : forall x y, ekey x = ekey y -> fst x = fst y /\ pid (snd x) = pid (snd y).
Proof.
  intros [a b] [c d] H. unfold ekey in H. simpl in H. inversion H. split; [reflexivity|].
  simpl. rewrite <- (pkey_pid b), <- (pkey_pid d). congruence.
Qed.

Lemma unique_image : forall ap (ch c' : policy) T done p q o todo',
  NoDup (map (tkey ap) T) -> T = done ++ (p, q) :: todo' ->
  id_preserving ch -> id_preserving c' -> ch p q = Some o -> hid q = 0 ->
  forall x, In (ekey x) (keys (contrib c' done ++ contrib ch ((p, q) :: todo'))) ->
            fst x = p -> pid (snd x) = pid o -> ekey x = ekey (p, o).
Proof.
  intros ap ch c' T done p q o todo' Hnd HT Hid Hid' Hch Hh x Hin Hp Hpid.
  apply keys_In in Hin. destruct Hin as [y [Hy Ey]].
  apply ekey_fst in Ey as Ey2. destruct Ey2 as [Ey1 Ey2].
  assert (Hpo : pid o = pid q) by (eapply Hid, Hch).
  assert (HTnd : NoDup T) by (eapply NoDup_map_inv, Hnd).
  assert (Himg : forall chx e0, In e0 T -> In y (img chx e0) -> id_preserving chx -> e0 = (p, q)).
  { intros chx e0 He0 Hy0 Hidx. apply img_In in Hy0. destruct Hy0 as (F1&F2&F3).
    apply Hidx in F3. eapply (NoDup_map_inj_in (tkey ap)); [exact Hnd | exact He0 | |].
    - rewrite HT. apply in_or_app. right. left. reflexivity.
    - unfold tkey. simpl. rewrite <- F1, Ey1, Hp. f_equal. destruct ap; [|reflexivity]. congruence. }
  apply in_app_or in Hy. destruct Hy as [Hy|Hy]; apply contrib_In in Hy; destruct Hy as [e0 [He0 Hy0]].
  - exfalso. assert (e0 = (p, q)).
    { apply (Himg c' e0); [rewrite HT; apply in_or_app; left; exact He0 | exact Hy0 | exact Hid']. }
    subst e0. rewrite HT in HTnd. apply NoDup_remove_2 in HTnd. apply HTnd. apply in_or_app. left. exact He0.
  - assert (e0 = (p, q)).
    { apply (Himg ch e0); [rewrite HT; apply in_or_app; right; exact He0 | exact Hy0 | exact Hid]. }
    subst e0. unfold img in Hy0. simpl in Hy0. rewrite Hh, Hch in Hy0. simpl in Hy0.
    destruct Hy0 as [Hy0|[]]. subst y. symmetry. exact Ey.
Qed.

Definition rc_body (s : st) (c' : policy) (acc : st) (e : pfx * path) : st :=
  let p := fst e in let q := snd e in
  if negb (hid q =? 0) then acc else
  match chain s p q, c' p q with
  | None, None => acc
  | None, Some n => call_all (fun c => EvAdd c p n) (ct_add p n) acc
  | Some o, None => call_all (fun c => EvRemove c p o) (ct_remove p o) acc
  | Some o, Some n =>
      if negb (pcmp o n) then call_all (fun c => EvReplace c p o n) (ct_replace p o n) acc else acc
  end.

Lemma replace_chain_unfold : forall c' s, replace_chain c' s = set_chain (fold_left (rc_body s c') (tab s) s) c'.
Proof. reflexivity. Qed.

Lemma contrib_cons : forall ch e l, contrib ch (e :: l) = img ch e ++ contrib ch l.
Proof. reflexivity. Qed.
Lemma contrib_snoc : forall ch e l, contrib ch (l ++ [e]) = contrib ch l ++ img ch e.
Proof. intros. rewrite contrib_app. simpl. rewrite app_nil_r. reflexivity. Qed.
Lemma img_hidden : forall ch e, (hid (snd e) =? 0) = false -> img ch e = [].
Proof. intros ch e H. unfold img. rewrite H. reflexivity. Qed.
Lemma img_some : forall (ch : policy) p q o, (hid q =? 0) = true -> ch p q = Some o -> img ch (p, q) = [(p, o)].
Proof. intros ch p q o H1 H2. unfold img. simpl. rewrite H1, H2. reflexivity. Qed.
Lemma img_none : forall (ch : policy) p q, ch p q = None -> img ch (p, q) = [].
Proof. intros ch p q H2. unfold img. simpl. rewrite H2. destruct (hid q =? 0); reflexivity. Qed.

Lemma replace_loop : forall s c', Kinv s -> NoDup (regs s) -> id_preserving (chain s) -> id_preserving c' ->
  forall todo done acc, tab s = done ++ todo -> core_eq s acc ->
  (forall c, In c (regs s) ->
     Permutation (keys (ct_get c (ctabs acc))) (keys (contrib c' done ++ contrib (chain s) todo))) ->
  (forall c, ~ In c (regs s) -> ct_get c (ctabs acc) = []) ->
  let acc' := fold_left (rc_body s c') todo acc in
  core_eq s acc' /\
  (forall c, In c (regs s) -> Permutation (keys (ct_get c (ctabs acc'))) (keys (contrib c' (tab s)))) /\
  (forall c, ~ In c (regs s) -> ct_get c (ctabs acc') = []).
Proof.
  intros s c' HK HR Hid Hid'. induction todo as [|[p q] todo IH]; intros done acc HT Hcore HC HU; simpl.
  - split; [exact Hcore|]. split; [|exact HU]. intros c Hc. rewrite HT, app_nil_r. specialize (HC c Hc).
    simpl in HC. rewrite app_nil_r in HC. exact HC.
  - assert (HT' : tab s = (done ++ [(p, q)]) ++ todo) by (rewrite <- app_assoc; exact HT).
    assert (Hregs : regs acc = regs s) by (destruct Hcore as (_&_&_&_&_&Hr); congruence).
    assert (Hcall : forall mk f, let a1 := call_all mk f acc in
              core_eq s a1 /\ (forall c, In c (regs s) -> ct_get c (ctabs a1) = f (ct_get c (ctabs acc))) /\
              (forall c, ~ In c (regs s) -> ct_get c (ctabs a1) = [])).
    { intros mk f a1. split; [eapply core_eq_trans; [exact Hcore | apply call_all_core]|].
      split; intros c Hc; unfold a1; rewrite call_all_get by (rewrite Hregs; exact HR); rewrite Hregs.
      - apply mem_In in Hc. rewrite Hc. reflexivity.
      - apply mem_false_notin in Hc as Hc'. rewrite Hc'. apply HU, Hc. }
    remember (rc_body s c' acc (p, q)) as b eqn:Eb. unfold rc_body in Eb. cbn [fst snd] in Eb. cbv zeta in Eb.
    destruct (hid q =? 0) eqn:Eh; cbn [negb] in Eb.
    2:{ subst b. apply (IH (done ++ [(p, q)]) acc HT' Hcore); [|exact HU].
        intros c Hc. specialize (HC c Hc). rewrite contrib_snoc. rewrite contrib_cons in HC.
        rewrite !img_hidden in * by exact Eh. rewrite app_nil_r. exact HC. }
    apply N.eqb_eq in Eh as Eh'.
    destruct (chain s p q) as [o|] eqn:Eo; destruct (c' p q) as [n|] eqn:En.
    + (* both accept *)
      assert (HCo : forall c, In c (regs s) ->
                Permutation (keys (ct_get c (ctabs acc))) (keys (contrib c' done ++ (p, o) :: contrib (chain s) todo))).
      { intros c Hc. specialize (HC c Hc). rewrite contrib_cons, (img_some _ _ _ _ Eh Eo) in HC. exact HC. }
      destruct (pcmp o n) eqn:Ecmp; cbn [negb] in Eb; subst b.
      * apply (IH (done ++ [(p, q)]) acc HT' Hcore); [|exact HU].
        intros c Hc. specialize (HCo c Hc). rewrite contrib_snoc, (img_some _ _ _ _ Eh En).
        rewrite <- app_assoc. simpl. rewrite !keys_app in *. simpl in *.
        assert (Ek : ekey (p, n) = ekey (p, o)) by (symmetry; apply match_iff; rewrite N.eqb_refl, Ecmp; reflexivity).
        rewrite Ek. exact HCo.
      * destruct (Hcall (fun c => EvReplace c p o n) (ct_replace p o n)) as (G1&G2&G3).
        apply (IH (done ++ [(p, q)]) _ HT' G1); [|exact G3].
        intros c Hc. rewrite G2 by exact Hc. specialize (HCo c Hc).
        rewrite contrib_snoc, (img_some _ _ _ _ Eh En). rewrite <- app_assoc. simpl.
        eapply perm_trans.
        { apply ct_replace_perm.
          - intros x Hx Hxp Hxq. apply pcmp_iff.
            assert (Ex : ekey x = ekey (p, o)).
            { eapply (unique_image (apx s) (chain s) c' (tab s) done p q o todo); eauto.
              - eapply Permutation_in; [exact (HC c Hc)|]. unfold keys. apply in_map, Hx.
              - apply peq_pid, Hxq. }
            apply (f_equal snd) in Ex. exact Ex.
          - eapply Permutation_in; [apply Permutation_sym, HCo|]. rewrite keys_app. apply in_or_app. right. left. reflexivity. }
        eapply perm_trans; [apply perm_skip, (remove_mid p o _ _ _ HCo)|].
        rewrite !keys_app. simpl. apply Permutation_middle.
    + (* old accepts, new rejects *)
      subst b. destruct (Hcall (fun c => EvRemove c p o) (ct_remove p o)) as (G1&G2&G3).
      apply (IH (done ++ [(p, q)]) _ HT' G1); [|exact G3].
      intros c Hc. rewrite G2 by exact Hc. specialize (HC c Hc).
      rewrite contrib_snoc, (img_none _ _ _ En), app_nil_r.
      apply remove_mid. rewrite contrib_cons, (img_some _ _ _ _ Eh Eo) in HC. exact HC.
    + (* old rejects, new accepts *)
      subst b. destruct (Hcall (fun c => EvAdd c p n) (ct_add p n)) as (G1&G2&G3).
      apply (IH (done ++ [(p, q)]) _ HT' G1); [|exact G3].
      intros c Hc. rewrite G2 by exact Hc. specialize (HC c Hc).
      rewrite contrib_snoc, (img_some _ _ _ _ Eh En), <- app_assoc. simpl.
      apply add_mid. rewrite contrib_cons, (img_none _ _ _ Eo) in HC. exact HC.
    + subst b. apply (IH (done ++ [(p, q)]) acc HT' Hcore); [|exact HU].
      intros c Hc. specialize (HC c Hc). rewrite contrib_snoc, (img_none _ _ _ En), app_nil_r.
      rewrite contrib_cons, (img_none _ _ _ Eo) in HC. exact HC.
Qed.

Lemma Inv_replace_chain : forall c' s, Inv s -> id_preserving (chain s) -> id_preserving c' ->
  Inv (replace_chain c' s).
Proof.
  intros c' s [HK HR HC HU] Hid Hid'. rewrite replace_chain_unfold.
  destruct (replace_loop s c' HK HR Hid Hid' (tab s) [] s eq_refl (core_eq_refl s)) as (G1&G2&G3).
  - intros c Hc. simpl. apply HC, Hc.
  - exact HU.
  - set (a := fold_left (rc_body s c') (tab s) s) in *. destruct G1 as (A1&A2&A3&A4&A5&A6).
    constructor; simpl.
    + unfold Kinv, apx. simpl. rewrite <- A1, <- A3. exact HK.
    + rewrite <- A6. exact HR.
    + intros c Hc. rewrite <- A6 in Hc. rewrite <- A3. apply G2, Hc.
    + intros c Hc. rewrite <- A6 in Hc. apply G3, Hc.
Qed.

(* ------------------------------------------------------------------ unconditional facts about a step *)
Definition Base (s : st) : Prop := Kinv s /\ NoDup (regs s).

Lemma rc_fold_core : forall s c' l acc, core_eq acc (fold_left (rc_body s c') l acc).
Proof.
  induction l as [|e l IH]; intro acc; simpl; [apply core_eq_refl|].
  eapply core_eq_trans; [|apply IH]. unfold rc_body.
  destruct (negb (hid (snd e) =? 0)); [apply core_eq_refl|].
  destruct (chain s (fst e) (snd e)); destruct (c' (fst e) (snd e)); try apply core_eq_refl; try apply call_all_core.
  destruct (negb (pcmp p p0)); [apply call_all_core | apply core_eq_refl].
Qed.

Lemma register_core : forall c s,
  sa (register c s) = sa s /\ chain (register c s) = chain s /\ tab (register c s) = tab s /\
  asns (register c s) = asns s /\ cids (register c s) = cids s /\
  regs (register c s) = if mem c (regs s) then regs s else regs s ++ [c].
Proof.
  intros c s. unfold register. fold (mem c (regs s)).
  set (s1 := if mem c (regs s) then s else set_regs s (regs s ++ [c])).
  destruct (single_fold (fun p q' => EvDump c p q') ct_add c (tab s1) s1) as ((A1&A2&A3&A4&A5&A6)&_&_).
  simpl. rewrite <- A1, <- A2, <- A3, <- A4, <- A5, <- A6. unfold s1.
  destruct (mem c (regs s)); repeat split.
Qed.

Lemma unregister_core : forall c s,
  sa (unregister c s) = sa s /\ chain (unregister c s) = chain s /\ tab (unregister c s) = tab s /\
  asns (unregister c s) = asns s /\ cids (unregister c s) = cids s /\
  regs (unregister c s) = filter (fun k => negb (k =? c)) (regs s).
Proof.
  intros c s. destruct (mem c (regs s)) eqn:Hm.
  - destruct (unregister_spec c s Hm) as (E1&E2&E3&E4&E5&E6&_). repeat split; assumption.
  - unfold unregister. fold (mem c (regs s)). rewrite Hm. simpl. repeat split.
    symmetry. apply filter_all. intros x Hx. apply negb_true_iff, N.eqb_neq. intro. subst.
    apply mem_false_notin in Hm. contradiction.
Qed.

Lemma replace_core : forall c' s,
  sa (replace_chain c' s) = sa s /\ chain (replace_chain c' s) = c' /\ tab (replace_chain c' s) = tab s /\
  asns (replace_chain c' s) = asns s /\ cids (replace_chain c' s) = cids s /\ regs (replace_chain c' s) = regs s.
Proof.
  intros c' s. rewrite replace_chain_unfold.
  destruct (rc_fold_core s c' (tab s) s) as (A1&A2&A3&A4&A5&A6). simpl. repeat split; congruence.
Qed.

Lemma Base_remove_path : forall p oid s, Base s -> Base (remove_path p oid s).
Proof.
  intros p oid s [HK HR]. destruct (remove_path_spec p oid s HK HR) as ((E1&E2&E3&E4&E5)&Ht&_).
  split; [unfold Kinv, apx; rewrite E1, Ht; apply Kinv_filter, HK | rewrite E5; exact HR].
Qed.

Definition flush_loop (l : list (pfx * path)) (s : st) : st :=
  fold_left (fun acc e => remove_path (fst e) (Some (pid (snd e))) acc) l s.

Lemma flush_loop_spec : forall l s, Base s ->
  let s' := flush_loop l s in
  Base s' /\ cfg_eq s s' /\
  tab s' = filter (fun e => forallb (fun x => negb (sel (apx s) (fst x) (pid (snd x)) e)) l) (tab s).
Proof.
  induction l as [|x l IH]; intros s HB; simpl.
  - split; [exact HB|]. split; [repeat split|]. symmetry. apply filter_all. reflexivity.
  - destruct HB as [HK HR].
    destruct (remove_path_spec (fst x) (Some (pid (snd x))) s HK HR) as (Hc&Ht&_).
    pose proof (Base_remove_path (fst x) (Some (pid (snd x))) s (conj HK HR)) as HB1.
    set (s1 := remove_path (fst x) (Some (pid (snd x))) s) in *.
    destruct (IH s1 HB1) as (G1&G2&G3). fold (flush_loop l s1).
    split; [exact G1|]. split.
    + unfold cfg_eq in *. intuition congruence.
    + rewrite G3, Ht. rewrite filter_filter. destruct Hc as (Hsa&_). unfold apx. rewrite Hsa. reflexivity.
Qed.

Lemma flush_spec : forall s, Base s -> Base (flush s) /\ cfg_eq s (flush s) /\ tab (flush s) = [].
Proof.
  intros s HB. destruct (flush_loop_spec (tab s) s HB) as (G1&G2&G3).
  split; [exact G1|]. split; [exact G2|]. unfold flush. fold (flush_loop (tab s) s). rewrite G3.
  assert (H : forall l t, (forall e, In e t -> In e l) ->
            filter (fun e => forallb (fun x => negb (sel (apx s) (fst x) (pid (snd x)) e)) l) t = []).
  { intros l t. induction t as [|e t IH]; intro Hsub; simpl; [reflexivity|].
    assert (Hf : forallb (fun x => negb (sel (apx s) (fst x) (pid (snd x)) e)) l = false).
    { destruct (forallb _ l) eqn:E; [|reflexivity]. rewrite forallb_forall in E.
      specialize (E e (Hsub e (or_introl eq_refl))). rewrite sel_self in E. discriminate. }
    rewrite Hf. apply IH. intros x Hx. apply Hsub. right. exact Hx. }
  apply H. auto.
Qed.

(* the table after one operation *)
Definition tab_after (s : st) (o : op) : list (pfx * path) :=
  match o with
  | Announce p q => filter (fun e => negb (sel (apx s) p (pid q) e)) (tab s) ++ [(p, stored_form s q)]
  | Withdraw p i => filter (fun e => negb (sel (apx s) p i e)) (tab s)
  | WithdrawAll p => filter (fun e => negb (fst e =? p)) (tab s)
  | Flush => []
  | _ => tab s
  end.

Lemma step_base : forall o s, Base s ->
  Base (step s o) /\ sa (step s o) = sa s /\ tab (step s o) = tab_after s o /\
  asns (step s o) = match o with AddASN a => rc_add a (asns s) | DelASN a => rc_remove a (asns s) | _ => asns s end /\
  cids (step s o) = match o with AddCID a => rc_add a (cids s) | DelCID a => rc_remove a (cids s) | _ => cids s end /\
  chain (step s o) = match o with ReplaceChain c => c | _ => chain s end /\
  regs (step s o) = match o with
                    | Register c => if mem c (regs s) then regs s else regs s ++ [c]
                    | Unregister c => filter (fun k => negb (k =? c)) (regs s)
                    | _ => regs s end.
Proof.
  intros o s HB. destruct HB as [HK HR]. destruct o; simpl.
  - destruct (add_path_spec p q s HK HR) as ((E1&E2&E3&E4&E5)&Ht&_).
    split; [|repeat split; assumption]. split; [|rewrite E5; exact HR].
    unfold Kinv, apx. rewrite E1, Ht, map_app. simpl. apply NoDup_app_snoc; [apply Kinv_filter, HK|].
    intro Hin. apply in_map_iff in Hin. destruct Hin as [e [Ek He]]. apply filter_In in He.
    destruct He as [_ Hs]. apply negb_true_iff in Hs.
    assert (sel (apx s) p (pid q) e = true).
    { apply sel_tkey. unfold apx. rewrite Ek. unfold tkey. cbn [fst snd]. rewrite stored_form_pid. reflexivity. }
    unfold apx in *. congruence.
  - destruct (remove_path_spec p (Some i) s HK HR) as ((E1&E2&E3&E4&E5)&Ht&_).
    split; [apply Base_remove_path; split; assumption | repeat split; assumption].
  - destruct (remove_path_spec p None s HK HR) as ((E1&E2&E3&E4&E5)&Ht&_).
    split; [apply Base_remove_path; split; assumption | repeat split; assumption].
  - destruct (flush_spec s (conj HK HR)) as (G1&(E1&E2&E3&E4&E5)&G3). split; [exact G1 | repeat split; assumption].
  - destruct (register_core c s) as (E1&E2&E3&E4&E5&E6).
    split; [|repeat split; assumption]. split; [unfold Kinv, apx; rewrite E1, E3; exact HK|].
    rewrite E6. destruct (mem c (regs s)) eqn:Hm; [exact HR|]. apply NoDup_app_snoc; [exact HR | apply mem_false_notin, Hm].
  - destruct (unregister_core c s) as (E1&E2&E3&E4&E5&E6).
    split; [|repeat split; assumption]. split; [unfold Kinv, apx; rewrite E1, E3; exact HK|].
    rewrite E6. apply NoDup_filter, HR.
  - destruct (replace_core c s) as (E1&E2&E3&E4&E5&E6).
    split; [|repeat split; assumption]. split; [unfold Kinv, apx; rewrite E1, E3; exact HK | rewrite E6; exact HR].
  - split; [split; assumption | repeat split].
  - split; [split; assumption | repeat split].
  - split; [split; assumption | repeat split].
  - split; [split; assumption | repeat split].
Qed.

Lemma Base_init : forall a c, Base (init a c).
Proof. intros. split; simpl; constructor. Qed.

Lemma Inv_init : forall a c, Inv (init a c).
Proof.
  intros. constructor; simpl.
  - unfold Kinv. simpl. constructor.
  - constructor.
  - intros c0 [].
  - reflexivity.
Qed.

Lemma Inv_vrf : forall s s', Inv s -> sa s' = sa s -> chain s' = chain s -> tab s' = tab s -> regs s' = regs s ->
  ctabs s' = ctabs s -> Inv s'.
Proof.
  intros s s' [HK HR HC HU] E1 E2 E3 E4 E5. constructor.
  - unfold Kinv, apx. rewrite E1, E3. exact HK.
  - rewrite E4. exact HR.
  - intros c Hc. rewrite E4 in Hc. rewrite E5, E2, E3. apply HC, Hc.
  - intros c Hc. rewrite E4 in Hc. rewrite E5. apply HU, Hc.
Qed.

Lemma Inv_steps : forall ops s, Inv s -> reg_once (regs s) ops = true -> replace_ok (chain s) ops ->
  Inv (fold_left step ops s).
Proof.
  induction ops as [|o ops IH]; intros s HI Hreg Hrep; simpl; [exact HI|].
  assert (HB : Base s) by (destruct HI; split; assumption).
  destruct (step_base o s HB) as (_&_&_&_&_&Hch&Hrg).
  apply IH.
  - destruct o; simpl.
    + apply Inv_add_path, HI.
    + apply Inv_remove_path, HI.
    + apply Inv_remove_path, HI.
    + apply Inv_flush, HI.
    + simpl in Hreg. apply andb_true_iff in Hreg. destruct Hreg as [Hm _]. apply negb_true_iff in Hm.
      apply Inv_register; assumption.
    + apply Inv_unregister, HI.
    + simpl in Hrep. destruct Hrep as (H1&H2&_). apply Inv_replace_chain; assumption.
    + eapply Inv_vrf; [exact HI | | | | |]; reflexivity.
    + eapply Inv_vrf; [exact HI | | | | |]; reflexivity.
    + eapply Inv_vrf; [exact HI | | | | |]; reflexivity.
    + eapply Inv_vrf; [exact HI | | | | |]; reflexivity.
  - rewrite Hrg. destruct o; simpl in *; try exact Hreg.
    apply andb_true_iff in Hreg. destruct Hreg as [Hm Hr]. apply negb_true_iff in Hm.
    fold (mem c (regs s)) in Hm. rewrite Hm. exact Hr.
  - rewrite Hch. destruct o; simpl in *; try exact Hrep. destruct Hrep as (_&_&H). exact H.
Qed.

(* ------------------------------------------------------------------ refcounters vs multisets *)
Fixpoint cnt (v : N) (m : mset) : N :=
  match m with [] => 0 | x :: r => (if x =? v then 1 else 0) + cnt v r end.
Fixpoint rc_cnt (v : N) (r : refc) : N :=
  match r with [] => 0 | (k, n) :: r' => (if k =? v then n else 0) + rc_cnt v r' end.

Definition rc_pos (r : refc) : Prop := Forall (fun it => 0 < snd it) r.
Definition rc_rel (r : refc) (m : mset) : Prop := rc_pos r /\ forall v, rc_cnt v r = cnt v m.

Lemma ms_mem_cnt : forall v m, ms_mem v m = true <-> 0 < cnt v m.
Proof.
  induction m as [|x m IH]; simpl.
  - split; [discriminate | lia].
  - rewrite orb_true_iff, IH. rewrite (N.eqb_sym v x). destruct (x =? v).
    + split; intro H; [lia | left; reflexivity].
    + split; intro H; [destruct H as [H|H]; [discriminate | lia] | right; lia].
Qed.

Lemma rc_present_cnt : forall v r, rc_pos r -> (rc_present v r = true <-> 0 < rc_cnt v r).
Proof.
  induction r as [|[k n] r IH]; intro Hp; simpl.
  - split; [discriminate | lia].
  - inversion Hp as [|? ? Hk Hr]; subst. simpl in Hk. unfold rc_present in *. simpl.
    rewrite orb_true_iff, (IH Hr). destruct (k =? v).
    + split; intro H; [lia | left; reflexivity].
    + split; intro H; [destruct H as [H|H]; [discriminate | lia] | right; lia].
Qed.

Lemma rc_present_mem : forall r m v, rc_rel r m -> rc_present v r = ms_mem v m.
Proof.
  intros r m v [Hp Hc]. apply eq_true_iff_eq. rewrite rc_present_cnt by exact Hp. rewrite ms_mem_cnt, Hc. reflexivity.
Qed.

Lemma rc_add_rel : forall a r m, rc_rel r m -> rc_rel (rc_add a r) (a :: m).
Proof.
  intros a r m [Hp Hc]. split.
  - clear Hc. induction r as [|[k n] r IH]; simpl.
    + constructor; [simpl; lia | constructor].
    + inversion Hp as [|? ? Hk Hr]; subst. destruct (k =? a); constructor; simpl in *; try lia; auto.
      apply IH, Hr.
  - intro v. simpl. rewrite <- Hc. clear Hc Hp. induction r as [|[k n] r IH]; simpl.
    + lia.
    + destruct (k =? a) eqn:E; simpl.
      * apply N.eqb_eq in E. subst k. destruct (a =? v); lia.
      * rewrite IH. lia.
Qed.

Lemma rc_remove_rel : forall a r m, rc_rel r m -> rc_rel (rc_remove a r) (ms_remove a m).
Proof.
  intros a r m [Hp Hc]. split.
  - clear Hc. induction r as [|[k n] r IH]; simpl; [constructor|].
    inversion Hp as [|? ? Hk Hr]; subst. simpl in Hk. destruct (k =? a).
    + destruct (n - 1 =? 0) eqn:E; [exact Hr|]. apply N.eqb_neq in E. constructor; [simpl; lia | exact Hr].
    + constructor; [exact Hk | apply IH, Hr].
  - intro v.
    assert (H1 : rc_cnt v (rc_remove a r) = rc_cnt v r - (if a =? v then 1 else 0)).
    { clear Hc. induction r as [|[k n] r IH]; simpl; [destruct (a =? v); reflexivity|].
      inversion Hp as [|? ? Hk Hr]; subst. simpl in Hk. destruct (k =? a) eqn:E.
      - apply N.eqb_eq in E. subst k. destruct (n - 1 =? 0) eqn:E2.
        + apply N.eqb_eq in E2. destruct (a =? v); lia.
        + simpl. destruct (a =? v); lia.
      - simpl. rewrite (IH Hr). destruct (k =? v) eqn:E3; [|reflexivity].
        apply N.eqb_eq in E3. subst k. rewrite (N.eqb_sym a v), E. lia. }
    assert (H2 : cnt v (ms_remove a m) = cnt v m - (if a =? v then 1 else 0)).
    { clear. induction m as [|x m IH]; simpl; [destruct (a =? v); reflexivity|].
      destruct (x =? a) eqn:E.
      - apply N.eqb_eq in E. subst x. destruct (a =? v); lia.
      - simpl. rewrite IH. destruct (x =? v) eqn:E3; [|reflexivity].
        apply N.eqb_eq in E3. subst x. rewrite (N.eqb_sym a v), E. lia. }
    rewrite H1, H2, Hc. reflexivity.
Qed.

Lemma rc_rel_nil : rc_rel [] [].
Proof. split; [constructor | reflexivity]. Qed.

(* ------------------------------------------------------------------ validatePath = the five clauses *)
Definition lp_default (a : sattrs) (q : path) : path :=
  if negb (ibgp a) && (lpref q =? 0) then set_lpref q (deflp a) else q.

Lemma existsb_ext' : forall {A} (f g : A -> bool) l, (forall x, f x = g x) -> existsb f l = existsb g l.
Proof. intros A f g l H. induction l as [|a l IH]; simpl; [reflexivity | rewrite H, IH; reflexivity]. Qed.

Lemma validate_spec : forall a r1 r2 las lcs q, rc_rel r1 las -> rc_rel r2 lcs ->
  (fst (validate a r1 r2 q) =? 0) = negb (ineligible a las lcs q) /\
  (ineligible a las lcs q = false -> set_hid (lp_default a (snd (validate a r1 r2 q))) 0 = normalize a q).
Proof.
  intros a r1 r2 las lcs q H1 H2.
  assert (E1 : existsb (fun x => rc_present x r1) (aspath q) = own_asn_in_path las q).
  { unfold own_asn_in_path. apply existsb_ext'. intro x. apply rc_present_mem, H1. }
  assert (E2 : existsb (fun x => rc_present x r2) (clist q) = own_cluster_in_list lcs q).
  { unfold own_cluster_in_list. apply existsb_ext'. intro x. apply rc_present_mem, H2. }
  unfold validate, ineligible. rewrite E1, E2.
  unfold own_originator, empty_aspath_on_ebgp, otc_check_fails, normalize, roles_negotiated, validate_otc, lp_default.
  destruct (negb (ibgp a) && is_nil (aspath q)) eqn:B1; simpl.
  { rewrite !orb_true_r. simpl. split; [reflexivity | discriminate]. }
  destruct (own_asn_in_path las q) eqn:B2; simpl; [split; [reflexivity | discriminate]|].
  destruct (origid q =? rid a) eqn:B3; simpl; [split; [reflexivity | discriminate]|].
  destruct (own_cluster_in_list lcs q) eqn:B4; simpl; [split; [reflexivity | discriminate]|].
  destruct (role_on a), (role_adv a); simpl; try (split; [reflexivity | intros _; reflexivity]).
  destruct (otc q =? 0) eqn:B5; simpl.
  - destruct (role_remote a =? 0), (role_remote a =? 4), (role_remote a =? 1); simpl;
      (split; [rewrite ?orb_false_r; reflexivity | intros _; reflexivity]).
  - rewrite !orb_false_r.
    destruct (role_remote a =? 3), (role_remote a =? 2), (role_remote a =? 4), (otc q =? peer_asn a); simpl;
      (split; [reflexivity | try discriminate; intros _; reflexivity]).
Qed.

(* ------------------------------------------------------------------ the model's table = the spec's current announcements *)
Definition entry_rel (e : pfx * path) (a : ann) : Prop :=
  fst e = a_pfx a /\ (hid (snd e) =? 0) = a_ok a /\ pid (snd e) = pid (a_path a) /\
  (a_ok a = true -> snd e = a_path a).

Record Sim (a0 : sattrs) (s : st) (sp : sstate) : Prop := mkSim {
  sim_sa : sa s = a0;
  sim_tab : Forall2 entry_rel (tab s) (s_anns sp);
  sim_as : rc_rel (asns s) (s_las sp);
  sim_cs : rc_rel (cids s) (s_lcs sp)
}.

Lemma Forall2_filter : forall {A B} (R : A -> B -> Prop) (f : A -> bool) (g : B -> bool) l l',
  (forall x y, R x y -> f x = g y) -> Forall2 R l l' -> Forall2 R (filter f l) (filter g l').
Proof.
  intros A B R f g l l' H HF. induction HF as [|x y l l' Hxy HF IH]; simpl; [constructor|].
  rewrite (H x y Hxy). destruct (g y); [constructor; assumption | exact IH].
Qed.

Lemma normalize_pid : forall a q, pid (normalize a q) = pid q.
Proof.
  intros. unfold normalize. cbv zeta.
  destruct (roles_negotiated a && (otc q =? 0) && _); destruct (negb (ibgp a) && _); reflexivity.
Qed.

Lemma stored_form_eligible : forall s q,
  fst (validate (sa s) (asns s) (cids s) q) =? 0 = true ->
  stored_form s q = set_hid (lp_default (sa s) (snd (validate (sa s) (asns s) (cids s) q))) 0.
Proof.
  intros s q H. unfold stored_form, lp_default. cbv zeta. rewrite H. apply N.eqb_eq in H. rewrite H. reflexivity.
Qed.

Lemma sel_same_slot : forall ap p i e a, entry_rel e a -> sel ap p i e = same_slot ap p i a.
Proof. intros ap p i e a (H1&_&H3&_). unfold sel, same_slot. rewrite H1, H3. reflexivity. Qed.

Lemma Sim_step : forall a0 o s sp, Base s -> Sim a0 s sp -> Sim a0 (step s o) (spec_step a0 sp o).
Proof.
  intros a0 o s sp HB [Hsa Htab Has Hcs].
  destruct (step_base o s HB) as (_&E1&E2&E3&E4&_&_).
  constructor.
  - congruence.
  - rewrite E2. destruct o; simpl; try exact Htab; unfold apx; rewrite ?Hsa.
    + apply Forall2_app.
      * apply Forall2_filter; [|exact Htab]. intros x y Hxy. f_equal. apply sel_same_slot, Hxy.
      * constructor; [|constructor].
        destruct (validate_spec a0 (asns s) (cids s) (s_las sp) (s_lcs sp) q Has Hcs) as [V1 V2].
        unfold entry_rel. cbn [fst snd a_pfx a_path a_ok]. rewrite stored_form_hid, stored_form_pid, Hsa. repeat split.
        -- exact V1.
        -- destruct (negb (ineligible a0 (s_las sp) (s_lcs sp) q)); [rewrite normalize_pid|]; reflexivity.
        -- intro Hok. rewrite Hok. rewrite stored_form_eligible by (rewrite Hsa, V1; exact Hok).
           rewrite Hsa. apply V2. apply negb_true_iff, Hok.
    + apply Forall2_filter; [|exact Htab]. intros x y Hxy. f_equal. apply sel_same_slot, Hxy.
    + apply Forall2_filter; [|exact Htab]. intros x y (H1&_). cbv beta. f_equal. f_equal. exact H1.
    + constructor.
  - rewrite E3. destruct o; simpl; try exact Has; [apply rc_add_rel | apply rc_remove_rel]; exact Has.
  - rewrite E4. destruct o; simpl; try exact Hcs; [apply rc_add_rel | apply rc_remove_rel]; exact Hcs.
Qed.

Lemma contrib_contribution : forall ch t anns, Forall2 entry_rel t anns -> contrib ch t = contribution ch anns.
Proof.
  intros ch t anns H. induction H as [|e a t anns (H1&H2&H3&H4) HF IH]; simpl; [reflexivity|].
  rewrite IH. f_equal. unfold img. rewrite H2. destruct (a_ok a); [|reflexivity].
  rewrite H1, (H4 eq_refl). reflexivity.
Qed.

Definition regs_step (r : list N) (o : op) : list N :=
  match o with
  | Register c => if existsb (N.eqb c) r then r else r ++ [c]
  | Unregister c => filter (fun k => negb (k =? c)) r
  | _ => r end.
Definition chain_step (c : policy) (o : op) : policy := match o with ReplaceChain c' => c' | _ => c end.

Lemma spec_regs_fold : forall ops, spec_regs ops = fold_left regs_step ops [].
Proof. reflexivity. Qed.
Lemma final_policy_fold : forall pol ops, final_policy pol ops = fold_left chain_step ops pol.
Proof. reflexivity. Qed.

Lemma run_facts : forall a0 ops s sp, Base s -> Sim a0 s sp ->
  let s' := fold_left step ops s in
  Base s' /\ Sim a0 s' (fold_left (spec_step a0) ops sp) /\
  regs s' = fold_left regs_step ops (regs s) /\ chain s' = fold_left chain_step ops (chain s).
Proof.
  induction ops as [|o ops IH]; intros s sp HB HS; simpl; [auto|].
  destruct (step_base o s HB) as (HB'&_&_&_&_&Ech&Erg).
  destruct (IH (step s o) (spec_step a0 sp o) HB' (Sim_step a0 o s sp HB HS)) as (G1&G2&G3&G4).
  split; [exact G1|]. split; [exact G2|]. split.
  - rewrite G3, Erg. destruct o; reflexivity.
  - rewrite G4, Ech. destruct o; reflexivity.
Qed.

Lemma Sim_init : forall a c, Sim a (init a c) (mkSS [] [] []).
Proof. intros. constructor; simpl; [reflexivity | constructor | apply rc_rel_nil | apply rc_rel_nil]. Qed.

(* ------------------------------------------------------------------ C05 *)
Theorem mirror : forall (a : sattrs) (pol : policy) (ops : list op),
  reg_once [] ops = true -> replace_ok pol ops ->
  forall c,
    (In c (spec_regs ops) ->
       Permutation (map ekey (ct_get c (ctabs (run a pol ops))))
                   (map ekey (contribution (final_policy pol ops) (s_anns (spec_run a ops))))) /\
    (~ In c (spec_regs ops) -> ct_get c (ctabs (run a pol ops)) = []).
Proof.
  intros a pol ops Hreg Hrep c. unfold run.
  pose proof (Inv_steps ops (init a pol) (Inv_init a pol) Hreg Hrep) as [HK HR HC HU].
  destruct (run_facts a ops (init a pol) (mkSS [] [] []) (Base_init a pol) (Sim_init a pol)) as (_&[_ Htab _ _]&G3&G4).
  simpl in G3, G4. rewrite spec_regs_fold, final_policy_fold, <- G3, <- G4. unfold spec_run.
  rewrite <- (contrib_contribution _ _ _ Htab). split; [apply HC | apply HU].
Qed.

Lemma fixed_policy_replace_ok : forall ops pol, fixed_policy ops -> replace_ok pol ops.
Proof.
  induction ops as [|o ops IH]; intros pol H; simpl; [exact I|].
  assert (H' : fixed_policy ops) by (intros x Hx; apply H; right; exact Hx).
  destruct o; try (apply IH, H'). exfalso. apply (H (ReplaceChain c)). left. reflexivity.
Qed.

Lemma fixed_policy_final : forall ops pol, fixed_policy ops -> final_policy pol ops = pol.
Proof.
  induction ops as [|o ops IH]; intros pol H; simpl; [reflexivity|].
  assert (H' : fixed_policy ops) by (intros x Hx; apply H; right; exact Hx).
  destruct o; try (apply IH, H'). exfalso. apply (H (ReplaceChain c)). left. reflexivity.
Qed.

Theorem mirror_fixed : forall (a : sattrs) (pol : policy) (ops : list op),
  fixed_policy ops -> reg_once [] ops = true ->
  forall c,
    (In c (spec_regs ops) ->
       Permutation (map ekey (ct_get c (ctabs (run a pol ops))))
                   (map ekey (contribution pol (s_anns (spec_run a ops))))) /\
    (~ In c (spec_regs ops) -> ct_get c (ctabs (run a pol ops)) = []).
Proof.
  intros a pol ops Hf Hreg c.
  rewrite <- (fixed_policy_final ops pol Hf) at 2. apply mirror; [exact Hreg | apply fixed_policy_replace_ok, Hf].
Qed.

(* ------------------------------------------------------------------ corollaries: unregister / flush / replacement *)
Lemma run_snoc : forall a pol ops o, run a pol (ops ++ [o]) = step (run a pol ops) o.
Proof. intros. unfold run. rewrite fold_left_app. reflexivity. Qed.

Lemma reg_once_snoc_other : forall ops r o,
  match o with Register _ => False | _ => True end ->
  reg_once r (ops ++ [o]) = reg_once r ops.
Proof.
  induction ops as [|x ops IH]; intros r o Ho; simpl.
  - destruct o; try reflexivity. contradiction.
  - destruct x; try apply IH; try exact Ho. rewrite IH by exact Ho. reflexivity.
Qed.

Lemma replace_ok_snoc_other : forall ops pol o,
  match o with ReplaceChain _ => False | _ => True end ->
  (replace_ok pol (ops ++ [o]) <-> replace_ok pol ops).
Proof.
  induction ops as [|x ops IH]; intros pol o Ho; simpl.
  - destruct o; try tauto.
  - destruct x; try apply IH; try exact Ho. rewrite IH by exact Ho. tauto.
Qed.

Lemma spec_regs_snoc : forall ops o, spec_regs (ops ++ [o]) = regs_step (spec_regs ops) o.
Proof. intros. rewrite !spec_regs_fold, fold_left_app. reflexivity. Qed.

Lemma single_fold_log : forall (mk : pfx -> path -> event) (f : pfx -> path -> ctable -> ctable) c l s,
  log (fold_left (fun acc e =>
              if negb (hid (snd e) =? 0) then acc else
              match chain acc (fst e) (snd e) with
              | None => acc
              | Some q' => call c (mk (fst e) q') (f (fst e) q') acc
              end) l s)
  = rev (map (fun x => mk (fst x) (snd x)) (contrib (chain s) l)) ++ log s.
Proof.
  induction l as [|e l IH]; intro s; simpl; [reflexivity|].
  unfold img. destruct (hid (snd e) =? 0) eqn:Eh; simpl; [|apply IH].
  destruct (chain s (fst e) (snd e)) as [q'|] eqn:Ec; [|apply IH].
  rewrite IH. simpl. rewrite <- app_assoc. reflexivity.
Qed.

Theorem unregister_exact : forall (a : sattrs) (pol : policy) (ops : list op) (c : N),
  reg_once [] ops = true -> replace_ok pol ops -> In c (spec_regs ops) ->
  let s := run a pol ops in
  let s' := step s (Unregister c) in
  let contributed := contribution (final_policy pol ops) (s_anns (spec_run a ops)) in
  ct_get c (ctabs s') = [] /\
  log s' = rev (map (fun x => EvRemove c (fst x) (snd x)) contributed) ++ log s /\
  tab s' = tab s /\
  (forall c', c' <> c -> ct_get c' (ctabs s') = ct_get c' (ctabs s)).
Proof.
  intros a pol ops c Hreg Hrep Hc s s' contributed.
  assert (Hreg' : reg_once [] (ops ++ [Unregister c]) = true) by (rewrite reg_once_snoc_other; [exact Hreg | exact I]).
  assert (Hrep' : replace_ok pol (ops ++ [Unregister c])) by (apply replace_ok_snoc_other; [exact I | exact Hrep]).
  destruct (mirror a pol (ops ++ [Unregister c]) Hreg' Hrep' c) as [_ HU].
  rewrite run_snoc in HU. fold s in HU. split.
  - apply HU. rewrite spec_regs_snoc. simpl. intro Hin. apply filter_In in Hin. destruct Hin as [_ Hne].
    rewrite N.eqb_refl in Hne. discriminate.
  - unfold s, run in *.
    destruct (run_facts a ops (init a pol) (mkSS [] [] []) (Base_init a pol) (Sim_init a pol)) as (_&[_ Htab _ _]&G3&G4).
    simpl in G3, G4. set (s0 := fold_left step ops (init a pol)) in *.
    assert (Hm : mem c (regs s0) = true) by (apply mem_In; rewrite G3, <- spec_regs_fold; exact Hc).
    destruct (unregister_spec c s0 Hm) as (_&_&E3&_&_&_&_&E8).
    split; [|split; [exact E3 | exact E8]].
    unfold s'. simpl. unfold unregister. fold (mem c (regs s0)). rewrite Hm. cbn [negb].
    rewrite single_fold_log. simpl. unfold contributed, spec_run.
    rewrite <- (contrib_contribution _ _ _ Htab), final_policy_fold, <- G4. reflexivity.
Qed.

Theorem flush_exact : forall (a : sattrs) (pol : policy) (ops : list op),
  reg_once [] ops = true -> replace_ok pol ops ->
  let s' := run a pol (ops ++ [Flush]) in
  tab s' = [] /\ forall c, ct_get c (ctabs s') = [].
Proof.
  intros a pol ops Hreg Hrep s'.
  assert (Hreg' : reg_once [] (ops ++ [Flush]) = true) by (rewrite reg_once_snoc_other; [exact Hreg | exact I]).
  assert (Hrep' : replace_ok pol (ops ++ [Flush])) by (apply replace_ok_snoc_other; [exact I | exact Hrep]).
  assert (Hanns : s_anns (spec_run a (ops ++ [Flush])) = []).
  { unfold spec_run. rewrite fold_left_app. reflexivity. }
  split.
  - unfold s', run.
    destruct (run_facts a (ops ++ [Flush]) (init a pol) (mkSS [] [] []) (Base_init a pol) (Sim_init a pol)) as (_&[_ Htab _ _]&_).
    fold (spec_run a (ops ++ [Flush])) in Htab. rewrite Hanns in Htab. inversion Htab. reflexivity.
  - intro c. destruct (mirror a pol (ops ++ [Flush]) Hreg' Hrep' c) as [HC HU].
    destruct (in_dec N.eq_dec c (spec_regs (ops ++ [Flush]))) as [Hin|Hnin]; [|apply HU, Hnin].
    specialize (HC Hin). rewrite Hanns in HC. simpl in HC. apply keys_nil. exact HC.
Qed.

(* a new announcement replaces exactly the previous one of its slot *)
Theorem announce_replaces : forall (a : sattrs) (pol : policy) (ops : list op) (p : pfx) (q : path),
  let s := run a pol ops in
  let s' := step s (Announce p q) in
  let slot := sel (addpath_rx a) p (pid q) in
  filter slot (tab s') = [(p, stored_form s q)] /\
  filter (fun e => negb (slot e)) (tab s') = filter (fun e => negb (slot e)) (tab s).
Proof.
  intros a pol ops p q s s' slot.
  destruct (run_facts a ops (init a pol) (mkSS [] [] []) (Base_init a pol) (Sim_init a pol)) as (HB&[Hsa _ _ _]&_).
  fold (run a pol ops) in HB, Hsa. fold s in HB, Hsa.
  destruct (step_base (Announce p q) s HB) as (_&_&E2&_).
  unfold s'. rewrite E2. simpl. unfold apx. rewrite Hsa. fold slot.
  assert (Hs : slot (p, stored_form s q) = true).
  { unfold slot. apply sel_tkey. unfold tkey. cbn [fst snd]. rewrite stored_form_pid. reflexivity. }
  rewrite !filter_app. simpl. rewrite Hs. simpl. rewrite !filter_filter. split.
  - assert (Hn : forall l, filter (fun x => negb (slot x) && slot x) l = []).
    { induction l as [|x l IH]; simpl; [reflexivity|]. destruct (slot x); simpl; exact IH. }
    rewrite Hn. reflexivity.
  - rewrite app_nil_r. apply filter_ext. intro x. destruct (slot x); reflexivity.
Qed.

Lemma announce_replaces' : forall (a : sattrs) (pol : policy) (ops : list op) (p : pfx) (q : path),
  let s := run a pol ops in
  let s' := step s (Announce p q) in
  let slot := fun e : pfx * path => (fst e =? p) && (negb (addpath_rx a) || (pid (snd e) =? pid q)) in
  (exists qs, filter slot (tab s') = [(p, qs)] /\ pid qs = pid q) /\
  filter (fun e => negb (slot e)) (tab s') = filter (fun e => negb (slot e)) (tab s).
Proof.
  intros a pol ops p q s s' slot. destruct (announce_replaces a pol ops p q) as [H1 H2].
  split; [|exact H2]. exists (stored_form s q). split; [exact H1 | apply stored_form_pid].
Qed.

(* ------------------------------------------------------------------ C06: provenance of everything a client gets *)
Section Provenance.
  Variable Src : pfx -> path -> Prop.
  Variable Chs : policy -> Prop.

  Definition Just (p : pfx) (q' : path) : Prop := exists qn c, Src p qn /\ Chs c /\ c p qn = Some q'.

  Definition Gd (s : st) : Prop :=
    (forall c p q', In (p, q') (ct_get c (ctabs s)) -> Just p q') /\
    (forall e c p q', In e (log s) -> delivered e = Some (c, p, q') -> Just p q').

  Definition okf (f : ctable -> ctable) : Prop :=
    forall t, (forall p q', In (p, q') t -> Just p q') -> forall p q', In (p, q') (f t) -> Just p q'.
  Definition oke (e : event) : Prop := forall c p q', delivered e = Some (c, p, q') -> Just p q'.

  Lemma ct_get_upd_cases : forall c k f m, ct_get c (ct_upd k f m) = if c =? k then f (ct_get c m) else ct_get c m.
  Proof.
    intros. destruct (c =? k) eqn:E.
    - apply N.eqb_eq in E. subst. apply ct_get_upd_same.
    - apply ct_get_upd_other. intro. subst. rewrite N.eqb_refl in E. discriminate.
  Qed.

  Lemma call_Gd : forall c e f s, Gd s -> oke e -> okf f -> Gd (call c e f s).
  Proof.
    intros c e f s [G1 G2] He Hf. split; simpl.
    - intros k p q' Hin. rewrite ct_get_upd_cases in Hin. destruct (k =? c).
      + eapply Hf; [|exact Hin]. intros p0 q0 H0. eapply G1, H0.
      + eapply G1, Hin.
    - intros e0 k p q' [Hin|Hin] Hd; [subst e0; eapply He, Hd | eapply G2; eassumption].
  Qed.

  Lemma calls_Gd : forall (mk : N -> event) f l s, Gd s -> (forall c, oke (mk c)) -> okf f ->
    Gd (fold_left (fun acc c => call c (mk c) f acc) l s).
  Proof.
    induction l as [|c l IH]; intros s HG He Hf; simpl; [exact HG|].
    apply IH; [apply call_Gd; auto | exact He | exact Hf].
  Qed.

  Lemma okf_remove : forall p q, okf (ct_remove p q).
  Proof. intros p q t H p0 q0 Hin. apply H. eapply ct_remove_subset, Hin. Qed.
  Lemma okf_add : forall p q, Just p q -> okf (ct_add p q).
  Proof.
    intros p q HJ t H p0 q0 Hin. unfold ct_add in Hin. apply in_app_or in Hin.
    destruct Hin as [Hin|[Hin|[]]]; [apply H, Hin | inversion Hin; subst; exact HJ].
  Qed.
  Lemma okf_replace : forall p o n, Just p n -> okf (ct_replace p o n).
  Proof.
    intros p o n HJ t. induction t as [|[p' q'] r IH]; intros H p0 q0 Hin; simpl in Hin; [contradiction|].
    destruct ((p' =? p) && peq q' o) eqn:E.
    - destruct Hin as [Hin|Hin].
      + inversion Hin; subst. apply andb_true_iff in E. destruct E as [E _]. apply N.eqb_eq in E. subst. exact HJ.
      + apply H. right. exact Hin.
    - destruct Hin as [Hin|Hin].
      + inversion Hin; subst. apply H. left. reflexivity.
      + apply IH; [|exact Hin]. intros p1 q1 H1. apply H. right. exact H1.
  Qed.
  Lemma okf_id : okf (fun t => t).
  Proof. intros t H. exact H. Qed.

  Lemma oke_remove : forall c p q, oke (EvRemove c p q).
  Proof. intros c p q k p0 q0 H. discriminate. Qed.
  Lemma oke_eor : forall c, oke (EvEOR c).
  Proof. intros c k p0 q0 H. discriminate. Qed.
  Lemma oke_add : forall c p q, Just p q -> oke (EvAdd c p q).
  Proof. intros c p q HJ k p0 q0 H. inversion H; subst. exact HJ. Qed.
  Lemma oke_dump : forall c p q, Just p q -> oke (EvDump c p q).
  Proof. intros c p q HJ k p0 q0 H. inversion H; subst. exact HJ. Qed.
  Lemma oke_replace : forall c p o n, Just p n -> oke (EvReplace c p o n).
  Proof. intros c p o n HJ k p0 q0 H. inversion H; subst. exact HJ. Qed.

  Lemma call_all_Gd : forall mk f s, Gd s -> (forall c, oke (mk c)) -> okf f -> Gd (call_all mk f s).
  Proof. intros. apply calls_Gd; assumption. Qed.

  Lemma notify_remove_Gd : forall p l s, Gd s -> Gd (notify_remove p l s).
  Proof.
    intros p l. unfold notify_remove. induction l as [|q l IH]; intros s HG; simpl; [exact HG|].
    apply IH. destruct (negb (hid q =? 0)); [exact HG|]. destruct (chain s p q); [|exact HG].
    apply call_all_Gd; [exact HG | intro; apply oke_remove | apply okf_remove].
  Qed.

  Lemma Gd_set_tab : forall s t, Gd s -> Gd (set_tab s t).
  Proof. intros s t H. exact H. Qed.

  (* stored, non-hidden entries come from eligible announcements; the chain is a known policy *)
  Definition Jt (s : st) : Prop :=
    (forall p q, In (p, q) (tab s) -> hid q = 0 -> Src p q) /\ Chs (chain s).

  Lemma rt_remove_all_subset : forall p l t e, In e (rt_remove_all p l t) -> In e t.
  Proof.
    intros p l. unfold rt_remove_all. induction l as [|x l IH]; intros t e H; simpl in H; [exact H|].
    apply IH in H. eapply ct_remove_subset, H.
  Qed.

  Lemma notify_remove_core : forall p l s, core_eq s (notify_remove p l s).
  Proof.
    intros p l. unfold notify_remove. induction l as [|q l IH]; intro s; simpl; [apply core_eq_refl|].
    eapply core_eq_trans; [|apply IH]. destruct (negb (hid q =? 0)); [apply core_eq_refl|].
    destruct (chain s p q); [apply call_all_core | apply core_eq_refl].
  Qed.

  Lemma remove_path_J : forall p oid s, Jt s -> Gd s -> Jt (remove_path p oid s) /\ Gd (remove_path p oid s).
  Proof.
    intros p oid s [T1 T2] HG. unfold remove_path.
    set (rem := match oid with Some i => _ | None => _ end).
    pose proof (notify_remove_core p rem (set_tab s (rt_remove_all p rem (tab s)))) as (_&Hc&Ht&_).
    split; [|apply notify_remove_Gd, Gd_set_tab, HG].
    split; [|rewrite <- Hc; exact T2]. intros p0 q0 Hin Hh. rewrite <- Ht in Hin. simpl in Hin.
    apply T1; [eapply rt_remove_all_subset, Hin | exact Hh].
  Qed.

  Lemma flush_J : forall s, Jt s -> Gd s -> Jt (flush s) /\ Gd (flush s).
  Proof.
    intro s. change (flush s) with (flush_loop (tab s) s). generalize (tab s). intro l. revert s.
    induction l as [|e l IH]; intros s HT HG; simpl; [auto|].
    destruct (remove_path_J (fst e) (Some (pid (snd e))) s HT HG) as [H1 H2]. apply IH; assumption.
  Qed.

  Lemma single_fold_Gd : forall (mk : pfx -> path -> event) (f : pfx -> path -> ctable -> ctable) c l s,
    (forall p q q', In (p, q) l -> hid q = 0 -> chain s p q = Some q' -> oke (mk p q') /\ okf (f p q')) ->
    Gd s ->
    Gd (fold_left (fun acc e =>
              if negb (hid (snd e) =? 0) then acc else
              match chain acc (fst e) (snd e) with
              | None => acc
              | Some q' => call c (mk (fst e) q') (f (fst e) q') acc
              end) l s).
  Proof.
    induction l as [|[p q] l IH]; intros s H HG; simpl; [exact HG|].
    destruct (hid q =? 0) eqn:Eh; simpl.
    - destruct (chain s p q) as [q'|] eqn:Ec.
      + apply IH.
        * intros p0 q0 q0' Hin Hh Hc. simpl in Hc. apply (H p0 q0 q0'); [right; exact Hin | exact Hh | exact Hc].
        * destruct (H p q q' (or_introl eq_refl) (proj1 (N.eqb_eq _ _) Eh) Ec) as [He Hf]. apply call_Gd; assumption.
      + apply IH; [|exact HG]. intros p0 q0 q0' Hin Hh Hc. apply (H p0 q0 q0'); [right; exact Hin | exact Hh | exact Hc].
    - apply IH; [|exact HG]. intros p0 q0 q0' Hin Hh Hc. apply (H p0 q0 q0'); [right; exact Hin | exact Hh | exact Hc].
  Qed.

  Lemma register_J : forall c s, Jt s -> Gd s -> Jt (register c s) /\ Gd (register c s).
  Proof.
    intros c s [T1 T2] HG. destruct (register_core c s) as (_&E2&E3&_).
    split; [split; [rewrite E3; exact T1 | rewrite E2; exact T2]|].
    unfold register. set (s1 := if existsb (N.eqb c) (regs s) then s else set_regs s (regs s ++ [c])).
    assert (H1 : tab s1 = tab s /\ chain s1 = chain s /\ Gd s1) by (unfold s1; destruct (existsb _ _); repeat split; apply HG).
    destruct H1 as (Ht&Hc&HG1).
    apply call_Gd; [|apply oke_eor | apply okf_id].
    apply single_fold_Gd; [|exact HG1]. intros p q q' Hin Hh Hch. rewrite Ht in Hin. rewrite Hc in Hch.
    assert (HJ : Just p q') by (exists q, (chain s); auto).
    split; [apply oke_dump, HJ | apply okf_add, HJ].
  Qed.

  Lemma unregister_J : forall c s, Jt s -> Gd s -> Jt (unregister c s) /\ Gd (unregister c s).
  Proof.
    intros c s [T1 T2] HG. destruct (unregister_core c s) as (_&E2&E3&_).
    split; [split; [rewrite E3; exact T1 | rewrite E2; exact T2]|].
    unfold unregister. destruct (negb (existsb (N.eqb c) (regs s))); [exact HG|].
    apply single_fold_Gd; [|exact HG]. intros p q q' _ _ _. split; [apply oke_remove | apply okf_remove].
  Qed.

  Lemma add_path_J : forall p q s, Jt s -> Gd s ->
    (hid (stored_form s q) = 0 -> Src p (stored_form s q)) ->
    Jt (add_path p q s) /\ Gd (add_path p q s).
  Proof.
    intros p q s [T1 T2] HG Hsrc. unfold add_path. cbv zeta. fold (stored_form s q).
    set (qs := stored_form s q) in *.
    set (old := if addpath_rx (sa s) then _ else _).
    set (t1 := rt_remove_all p old (tab s) ++ [(p, qs)]).
    pose proof (notify_remove_core p old (set_tab s t1)) as Hc1.
    pose proof (notify_remove_Gd p old (set_tab s t1) (Gd_set_tab s t1 HG)) as HG1.
    set (s1 := notify_remove p old (set_tab s t1)) in *.
    assert (HT1 : Jt s1).
    { destruct Hc1 as (_&Hc&Ht&_). split; [|rewrite <- Hc; exact T2].
      intros p0 q0 Hin Hh. rewrite <- Ht in Hin. simpl in Hin. unfold t1 in Hin. apply in_app_or in Hin.
      destruct Hin as [Hin|[Hin|[]]].
      - apply T1; [eapply rt_remove_all_subset, Hin | exact Hh].
      - inversion Hin; subst. apply Hsrc, Hh. }
    assert (Hh : hid qs = fst (validate (sa s) (asns s) (cids s) q)) by apply stored_form_hid.
    destruct (negb (fst (validate (sa s) (asns s) (cids s) q) =? 0)) eqn:Eh; [split; assumption|].
    apply negb_false_iff, N.eqb_eq in Eh.
    destruct (chain s p qs) as [q'|] eqn:Ec; [|split; assumption].
    assert (HJ : Just p q') by (exists qs, (chain s); repeat split; [apply Hsrc; congruence | exact T2 | exact Ec]).
    pose proof (call_all_core (fun c => EvAdd c p q') (ct_add p q') s1) as (_&Hc&Ht&_).
    split.
    - destruct HT1 as [A1 A2]. split; [rewrite <- Ht; exact A1 | rewrite <- Hc; exact A2].
    - apply call_all_Gd; [exact HG1 | intro; apply oke_add, HJ | apply okf_add, HJ].
  Qed.

  Lemma replace_chain_J : forall c' s, Jt s -> Gd s -> Chs c' ->
    Jt (replace_chain c' s) /\ Gd (replace_chain c' s).
  Proof.
    intros c' s [T1 T2] HG Hc'. destruct (replace_core c' s) as (_&E2&E3&_).
    split; [split; [rewrite E3; exact T1 | rewrite E2; exact Hc']|].
    rewrite replace_chain_unfold.
    assert (H : forall l acc, (forall e, In e l -> In e (tab s)) -> Gd acc -> Gd (fold_left (rc_body s c') l acc)).
    { induction l as [|[p q] l IH]; intros acc Hsub HGa; simpl; [exact HGa|].
      apply IH; [intros e He; apply Hsub; right; exact He|].
      unfold rc_body. cbn [fst snd]. destruct (hid q =? 0) eqn:Eh; cbn [negb]; [|exact HGa].
      apply N.eqb_eq in Eh. assert (Hs : Src p q) by (apply T1; [apply Hsub; left; reflexivity | exact Eh]).
      destruct (chain s p q) as [o|] eqn:Eo; destruct (c' p q) as [n|] eqn:En; try exact HGa.
      - assert (HJ : Just p n) by (exists q, c'; auto).
        destruct (negb (pcmp o n)); [|exact HGa].
        apply call_all_Gd; [exact HGa | intro; apply oke_replace, HJ | apply okf_replace, HJ].
      - apply call_all_Gd; [exact HGa | intro; apply oke_remove | apply okf_remove].
      - assert (HJ : Just p n) by (exists q, c'; auto).
        apply call_all_Gd; [exact HGa | intro; apply oke_add, HJ | apply okf_add, HJ]. }
    apply H; [auto | exact HG].
  Qed.
End Provenance.

Lemma Just_mono : forall (S1 S2 : pfx -> path -> Prop) (C1 C2 : policy -> Prop) p q,
  (forall p q, S1 p q -> S2 p q) -> (forall c, C1 c -> C2 c) -> Just S1 C1 p q -> Just S2 C2 p q.
Proof. intros S1 S2 C1 C2 p q HS HC (qn&c&A&B&D). exists qn, c. auto. Qed.

Lemma J_mono : forall (S1 S2 : pfx -> path -> Prop) (C1 C2 : policy -> Prop) s,
  (forall p q, S1 p q -> S2 p q) -> (forall c, C1 c -> C2 c) ->
  Jt S1 C1 s /\ Gd S1 C1 s -> Jt S2 C2 s /\ Gd S2 C2 s.
Proof.
  intros S1 S2 C1 C2 s HS HC [[T1 T2] [G1 G2]]. split; split.
  - intros p q Hin Hh. apply HS, T1; assumption.
  - apply HC, T2.
  - intros c p q' Hin. eapply Just_mono; [exact HS | exact HC | eapply G1, Hin].
  - intros e c p q' Hin Hd. eapply Just_mono; [exact HS | exact HC | eapply G2; eassumption].
Qed.

Lemma J_vrf : forall (S1 : pfx -> path -> Prop) (C1 : policy -> Prop) s s',
  tab s' = tab s -> chain s' = chain s -> ctabs s' = ctabs s -> log s' = log s ->
  Jt S1 C1 s /\ Gd S1 C1 s -> Jt S1 C1 s' /\ Gd S1 C1 s'.
Proof.
  intros S1 C1 s s' E1 E2 E3 E4 [[T1 T2] [G1 G2]]. unfold Jt, Gd. rewrite E1, E2, E3, E4. auto.
Qed.

Lemma step_J : forall (S1 : pfx -> path -> Prop) (C1 : policy -> Prop) o s,
  Jt S1 C1 s /\ Gd S1 C1 s ->
  match o with
  | Announce p q => hid (stored_form s q) = 0 -> S1 p (stored_form s q)
  | ReplaceChain c' => C1 c'
  | _ => True
  end ->
  Jt S1 C1 (step s o) /\ Gd S1 C1 (step s o).
Proof.
  intros S1 C1 o s [HT HG] Hside. destruct o; simpl.
  - apply add_path_J; assumption.
  - apply remove_path_J; assumption.
  - apply remove_path_J; assumption.
  - apply flush_J; assumption.
  - apply register_J; assumption.
  - apply unregister_J; assumption.
  - apply replace_chain_J; assumption.
  - eapply J_vrf; [| | | |split; eassumption]; reflexivity.
  - eapply J_vrf; [| | | |split; eassumption]; reflexivity.
  - eapply J_vrf; [| | | |split; eassumption]; reflexivity.
  - eapply J_vrf; [| | | |split; eassumption]; reflexivity.
Qed.

Lemma eligible_src_snoc : forall a ops o p qn, eligible_src a ops p qn -> eligible_src a (ops ++ [o]) p qn.
Proof.
  intros a ops o p qn (pre&q&post&E&H1&H2). exists pre, q, (post ++ [o]). split; [|auto].
  rewrite E, <- app_assoc. reflexivity.
Qed.

Lemma policy_of_snoc : forall pol ops o c, policy_of pol ops c -> policy_of pol (ops ++ [o]) c.
Proof. intros pol ops o c [H|H]; [left; exact H | right; apply in_or_app; left; exact H]. Qed.

Theorem never_installed : forall (a : sattrs) (pol : policy) (ops : list op),
  let s := run a pol ops in
  (forall c p q', In (p, q') (ct_get c (ctabs s)) -> justified a pol ops p q') /\
  (forall e c p q', In e (log s) -> delivered e = Some (c, p, q') -> justified a pol ops p q').
Proof.
  intros a pol ops.
  assert (H : Jt (eligible_src a ops) (policy_of pol ops) (run a pol ops) /\
              Gd (eligible_src a ops) (policy_of pol ops) (run a pol ops)).
  { induction ops as [|o ops IH] using rev_ind.
    - unfold run. simpl. split; [split; [intros p q [] | left; reflexivity]|]. split; simpl.
      + intros c p q' [].
      + intros e c p q' [].
    - rewrite run_snoc.
      assert (IH' : Jt (eligible_src a (ops ++ [o])) (policy_of pol (ops ++ [o])) (run a pol ops) /\
                    Gd (eligible_src a (ops ++ [o])) (policy_of pol (ops ++ [o])) (run a pol ops)).
      { eapply J_mono; [| |exact IH]; intros; [apply eligible_src_snoc | apply policy_of_snoc]; assumption. }
      apply step_J; [exact IH'|]. destruct o; try exact I.
      + (* Announce: the stored form of an eligible announcement is a source *)
        intro Hh. unfold run in *.
        destruct (run_facts a ops (init a pol) (mkSS [] [] []) (Base_init a pol) (Sim_init a pol)) as (_&[Hsa _ Has Hcs]&_).
        set (s0 := fold_left step ops (init a pol)) in *. fold (spec_run a ops) in Has, Hcs.
        destruct (validate_spec a (asns s0) (cids s0) _ _ q Has Hcs) as [V1 V2].
        rewrite stored_form_hid, Hsa in Hh. rewrite Hh in V1. simpl in V1. symmetry in V1. apply negb_true_iff in V1.
        exists ops, q, []. split; [reflexivity|]. split; [exact V1|].
        rewrite stored_form_eligible by (rewrite Hsa, Hh; reflexivity). rewrite Hsa. apply V2, V1.
      + right. apply in_or_app. right. left. reflexivity. }
  destruct H as [_ [G1 G2]]. split; [exact G1 | exact G2].
Qed.


(* if every announcement for p was ineligible when it was received, nobody ever got anything for p *)
Theorem ineligible_never : forall (a : sattrs) (pol : policy) (ops : list op) (p : pfx),
  (forall pre q post, ops = pre ++ Announce p q :: post ->
     ineligible a (s_las (spec_run a pre)) (s_lcs (spec_run a pre)) q = true) ->
  let s := run a pol ops in
  (forall c q', ~ In (p, q') (ct_get c (ctabs s))) /\
  (forall e c q', In e (log s) -> delivered e <> Some (c, p, q')).
Proof.
  intros a pol ops p Hall s. destruct (never_installed a pol ops) as [G1 G2]. fold s in G1, G2.
  assert (Hno : forall q', ~ justified a pol ops p q').
  { intros q' (qn&c&(pre&q&post&E&H1&_)&_). rewrite (Hall pre q post E) in H1. discriminate. }
  split.
  - intros c q' Hin. eapply Hno, G1, Hin.
  - intros e c q' Hin Hd. eapply Hno, G2; eassumption.
Qed.

(* the hidden mark set by validatePath is exactly the five clauses *)
Theorem hidden_iff_ineligible : forall (a : sattrs) (pol : policy) (ops : list op) (p : pfx) (q : path),
  let s' := run a pol (ops ++ [Announce p q]) in
  exists qs, In (p, qs) (tab s') /\ pid qs = pid q /\
    (hid qs =? 0) = negb (ineligible a (s_las (spec_run a ops)) (s_lcs (spec_run a ops)) q).
Proof.
  intros a pol ops p q s'. unfold s'. rewrite run_snoc.
  destruct (announce_replaces a pol ops p q) as [H1 _].
  unfold run in *.
  destruct (run_facts a ops (init a pol) (mkSS [] [] []) (Base_init a pol) (Sim_init a pol)) as (_&[Hsa _ Has Hcs]&_).
  set (s0 := fold_left step ops (init a pol)) in *. fold (spec_run a ops) in Has, Hcs.
  exists (stored_form s0 q). split; [|split].
  - assert (Hin : In (p, stored_form s0 q) (filter (sel (addpath_rx a) p (pid q)) (tab (step s0 (Announce p q))))).
    { rewrite H1. left. reflexivity. }
    apply filter_In in Hin. apply Hin.
  - apply stored_form_pid.
  - rewrite stored_form_hid, Hsa. apply validate_spec; assumption.
Qed.

Theorem otc_matrix : forall (a : sattrs) (q : path),
  otc_check_fails a q =
  roles_negotiated a && otc_table (role_remote a) (negb (otc q =? 0)) (otc q =? peer_asn a).
Proof.
  intros a q. unfold otc_check_fails, otc_table. destruct (roles_negotiated a); [|reflexivity]. simpl.
  destruct (role_remote a) as [|r]; [simpl; rewrite ?andb_false_r; reflexivity|].
  destruct r as [r|r|]; [destruct r as [r|r|] | destruct r as [r|r|] |]; simpl;
    try (destruct r; simpl); rewrite ?andb_false_r, ?orb_false_r, ?andb_true_r; try reflexivity.
Qed.
