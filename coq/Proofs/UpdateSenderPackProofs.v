(* C18: proofs about the packing of one queue entry into UPDATE messages. *)
From Coq Require Import List NArith ZArith Bool Lia Permutation.
Import ListNotations.
From BioVerif Require Import Model.UpdateSender Spec.UpdateSenderSpec.
Open Scope Z_scope.

(* ------------------------------------------------------------------ basics *)

Lemma pfx_eqb_eq : forall a b, pfx_eqb a b = true <-> a = b.
Proof.
  intros [a1 a2] [b1 b2]. unfold pfx_eqb. cbn [x_addr x_len].
  rewrite andb_true_iff, !N.eqb_eq. split.
  - intros [H1 H2]. subst. reflexivity.
  - intros H. inversion H. auto.
Qed.

Lemma pfx_eqb_refl : forall a, pfx_eqb a a = true.
Proof. intros a. apply pfx_eqb_eq. reflexivity. Qed.

Lemma pfx_eqb_sym : forall a b, pfx_eqb a b = pfx_eqb b a.
Proof.
  intros a b. destruct (pfx_eqb a b) eqn:E.
  - apply pfx_eqb_eq in E. subst. symmetry. apply pfx_eqb_refl.
  - destruct (pfx_eqb b a) eqn:E'; [|reflexivity].
    apply pfx_eqb_eq in E'. subst. rewrite pfx_eqb_refl in E. discriminate.
Qed.

Lemma sumZ_app : forall a b, sumZ (a ++ b) = sumZ a + sumZ b.
Proof.
  induction a as [|x a IH]; intros b; [reflexivity|].
  change (x + sumZ (a ++ b) = x + sumZ a + sumZ b). rewrite IH. lia.
Qed.

Lemma nlri_sum_app : forall c a b, nlri_sum c (a ++ b) = nlri_sum c a + nlri_sum c b.
Proof. intros. unfold nlri_sum. rewrite map_app. apply sumZ_app. Qed.

Lemma nlri_sum_cons : forall c x l, nlri_sum c (x :: l) = nlri_len c x + nlri_sum c l.
Proof. reflexivity. Qed.

Lemma nlri_sum_nil : forall c, nlri_sum c [] = 0.
Proof. reflexivity. Qed.

Lemma nlri_sum_rev : forall c l, nlri_sum c (rev l) = nlri_sum c l.
Proof.
  intros c l. induction l as [|x l IH]; [reflexivity|].
  cbn [rev]. rewrite nlri_sum_app, IH, !nlri_sum_cons, nlri_sum_nil. lia.
Qed.

Lemma bytes_in_nonneg : forall n, 0 <= bytes_in n.
Proof. intros n. unfold bytes_in, zN. apply Z.div_pos; lia. Qed.

Lemma nlri_len_pos : forall c x, 1 <= nlri_len c x.
Proof.
  intros c x. unfold nlri_len. pose proof (bytes_in_nonneg (x_len x)).
  destruct (c_addpath c); lia.
Qed.

(* ------------------------------------------------------------------ packing loses nothing *)

Lemma pack_go_concat : forall c xs full b rcur,
  concat (pack_go c full b rcur xs) = rev rcur ++ xs.
Proof.
  intros c xs. induction xs as [|x r IH]; intros full b rcur; cbn [pack_go].
  - destruct rcur as [|y rc]; cbn [concat rev app]; [reflexivity|].
    rewrite !app_nil_r. reflexivity.
  - destruct (b - nlri_len c x <? 0) eqn:E.
    + cbn [concat]. rewrite IH. reflexivity.
    + rewrite IH. cbn [rev]. rewrite <- app_assoc. reflexivity.
Qed.

Lemma pack_concat : forall c p xs, concat (pack c p xs) = xs.
Proof. intros. unfold pack. rewrite pack_go_concat. reflexivity. Qed.

(* ------------------------------------------------------------------ every message respects the budget *)

Lemma pack_go_sum : forall c xs full b rcur,
  (forall x, In x xs -> nlri_len c x <= full) ->
  b = full - nlri_sum c rcur -> 0 <= b -> (rcur = [] -> b = full) ->
  forall l, In l (pack_go c full b rcur xs) -> l <> [] /\ nlri_sum c l <= full.
Proof.
  intros c xs. induction xs as [|x r IH]; intros full b rcur Hfit Hb Hpos Hnil l Hin; cbn [pack_go] in Hin.
  - destruct rcur as [|y rc]; [contradiction|].
    destruct Hin as [<-|[]]. split.
    + intros H. apply (f_equal (@length pfx)) in H. rewrite rev_length in H. discriminate.
    + rewrite nlri_sum_rev. lia.
  - assert (Hx : nlri_len c x <= full) by (apply Hfit; left; reflexivity).
    assert (Hr : forall y, In y r -> nlri_len c y <= full) by (intros y Hy; apply Hfit; right; exact Hy).
    destruct (b - nlri_len c x <? 0) eqn:E.
    + apply Z.ltb_lt in E.
      destruct Hin as [<-|Hin].
      * split.
        -- intros H. destruct rcur as [|y rc].
           ++ specialize (Hnil eq_refl). lia.
           ++ apply (f_equal (@length pfx)) in H. rewrite rev_length in H. discriminate.
        -- rewrite nlri_sum_rev. lia.
      * apply (IH full (full - nlri_len c x) [x] Hr); try assumption.
        -- rewrite nlri_sum_cons, nlri_sum_nil. lia.
        -- lia.
        -- intros H. discriminate.
    + apply Z.ltb_ge in E.
      apply (IH full (b - nlri_len c x) (x :: rcur) Hr); try assumption.
      * rewrite nlri_sum_cons. lia.
      * intros H. discriminate.
Qed.

Lemma pack_sum : forall c p xs,
  all_fit_list c p xs ->
  forall l, In l (pack c p xs) -> l <> [] /\ nlri_sum c l <= budget c p.
Proof.
  intros c p xs Hfit l Hin. unfold pack in Hin.
  destruct xs as [|x r]; [contradiction|].
  assert (H1 : 1 <= budget c p).
  { pose proof (Hfit x (or_introl eq_refl)) as H. unfold fits in H. pose proof (nlri_len_pos c x). lia. }
  apply (pack_go_sum c (x :: r) (budget c p) (budget c p) []); try assumption.
  - rewrite nlri_sum_nil. lia.
  - lia.
  - reflexivity.
Qed.

(* ------------------------------------------------------------------ the budget keeps a message within 4096 bytes *)

Lemma reserved_covers : forall c p, enc_attrs c p <= reserved c p.
Proof. intros. unfold reserved. lia. Qed.

Lemma msg_total_bound : forall c p l,
  nlri_sum c l <= budget c p -> msg_total c p l <= 4096.
Proof.
  intros c p l H. pose proof (reserved_covers c p) as Hr.
  unfold msg_total, budget, overhead, mp_attr, mp_value, enc_nexthop, nh_len in *.
  destruct (c_fam c).
  - lia.
  - destruct (255 <? 2 + 1 + 1 + 4 + 1 + nlri_sum c l); lia.
  - destruct (255 <? 2 + 1 + 1 + 16 + 1 + nlri_sum c l); lia.
Qed.

Lemma pack_msg_ok : forall c p xs,
  all_fit_list c p xs ->
  forall l, In l (pack c p xs) -> msg_ok c p l = true.
Proof.
  intros c p xs Hfit l Hin. unfold msg_ok. apply Z.leb_le.
  apply msg_total_bound. apply (pack_sum c p xs Hfit l Hin).
Qed.

Lemma pack_size : forall c p xs,
  all_fit_list c p xs ->
  forall l, In l (pack c p xs) -> l <> [] /\ msg_total c p l <= 4096.
Proof.
  intros c p xs Hfit l Hin. destruct (pack_sum c p xs Hfit l Hin) as [Hne Hs].
  split; [exact Hne|]. apply msg_total_bound. exact Hs.
Qed.

(* BGPPath.Length() alone is not an upper bound of what the encoder writes (why pathAttributesLen takes the maximum):
   iBGP, MED, ATOMIC_AGGREGATE, AGGREGATOR, AS path of one segment with two 4-octet ASNs: 44 < 50 *)
Definition underest_cfg : cfg := mkcfg V4 false true true false.
Definition underest_path : path := mkpath 1 0 [2%N] true true true false false 0 0 0 [].

Lemma length_underestimates : exists c p, length_est p < enc_attrs c p.
Proof. exists underest_cfg, underest_path. vm_compute. reflexivity. Qed.

(* ------------------------------------------------------------------ what goes on the wire *)

Lemma emit_all_ok : forall c p ms w,
  (forall l, In l ms -> msg_ok c p l = true) ->
  emit_all c p ms w = rev (map (ann_of c p) ms) ++ w.
Proof.
  intros c p ms. induction ms as [|l r IH]; intros w H; cbn [emit_all map rev app]; [reflexivity|].
  rewrite IH by (intros l' Hl'; apply H; right; exact Hl').
  unfold emit. rewrite (H l (or_introl eq_refl)). rewrite <- app_assoc. reflexivity.
Qed.

Lemma batch_wire_ok : forall c p xs,
  all_fit_list c p xs -> batch_wire c p xs = map (ann_of c p) (pack c p xs).
Proof.
  intros c p xs Hfit. unfold batch_wire.
  rewrite emit_all_ok by (apply pack_msg_ok; exact Hfit).
  rewrite app_nil_r, rev_involutive. reflexivity.
Qed.

Lemma wire_order_perm : forall c l, Permutation (wire_order c l) l.
Proof.
  intros c l. unfold wire_order. destruct (c_fam c); try apply Permutation_refl.
  apply Permutation_sym, Permutation_rev.
Qed.

Lemma announced_map_ann : forall c p ms,
  Permutation (announced (map (ann_of c p) ms)) (concat ms).
Proof.
  intros c p ms. induction ms as [|l r IH]; cbn [map announced flat_map concat]; [apply Permutation_refl|].
  apply Permutation_app; [apply wire_order_perm | exact IH].
Qed.

Lemma lossless : forall c p xs,
  all_fit_list c p xs ->
  batch_wire c p xs = map (ann_of c p) (pack c p xs) /\
  Permutation (announced (batch_wire c p xs)) xs.
Proof.
  intros c p xs Hfit. split; [apply batch_wire_ok; exact Hfit|].
  rewrite batch_wire_ok by exact Hfit.
  eapply Permutation_trans; [apply announced_map_ann|].
  rewrite pack_concat. apply Permutation_refl.
Qed.

Lemma emit_all_carries : forall c p ms w,
  (forall m, In m w -> carries c p m) ->
  forall m, In m (emit_all c p ms w) -> carries c p m.
Proof.
  intros c p ms. induction ms as [|l r IH]; intros w Hw m Hm; cbn [emit_all] in Hm; [apply Hw; exact Hm|].
  apply (IH (emit c p l w)); [|exact Hm].
  intros m' Hm'. unfold emit in Hm'. destruct (msg_ok c p l) eqn:E; [|apply Hw; exact Hm'].
  destruct Hm' as [<-|Hm']; [|apply Hw; exact Hm'].
  cbn [carries]. unfold msg_ok in E. apply Z.leb_le in E. auto.
Qed.

Lemma wire_bounded : forall c p xs m, In m (batch_wire c p xs) -> carries c p m.
Proof.
  intros c p xs m Hm. unfold batch_wire in Hm. apply in_rev in Hm.
  apply (emit_all_carries c p (pack c p xs) []); [intros m' []|exact Hm].
Qed.
