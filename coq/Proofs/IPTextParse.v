(* C15 text proofs, part 2: the IPv6 literal.  Shape of what the print loop emits, what the
   (modelled) parser does on text of that shape, and the resulting
   ParseIP (stringIPv6 bytes) = bytes. *)
From Coq Require Import ZArith Lia Bool List.
From BioVerif Require Import Lib.Word Lib.WordLemmas Model.NetArith Model.IPText Proofs.IPTextBasics.
Import ListNotations.
Open Scope Z_scope.

(* ---------- text shapes ---------- *)

(* every group preceded by ':' *)
Fixpoint tailj (ss : list str) : str :=
  match ss with [] => [] | s :: r => c_colon :: s ++ tailj r end.

(* groups separated by ':' *)
Definition joins (ss : list str) : str :=
  match ss with [] => [] | s :: r => s ++ tailj r end.

(* what the print loop emits from field t on: ':' before every field except field 0 *)
Fixpoint emits (t : nat) (ss : list str) : str :=
  match ss with
  | [] => []
  | s :: r => (if 0 <? 2 * Z.of_nat t then [c_colon] else []) ++ s ++ emits (S t) r
  end.

Lemma emits_S t ss : emits (S t) ss = tailj ss.
Proof.
  revert t. induction ss as [|s r IH]; intros t; [reflexivity|].
  cbn [emits tailj]. destruct (Z.ltb_spec 0 (2 * Z.of_nat (S t))); [|lia].
  rewrite IH. reflexivity.
Qed.

Lemma emits_0 ss : emits 0 ss = joins ss.
Proof. destruct ss as [|s r]; [reflexivity|]. cbn [emits joins]. rewrite emits_S. reflexivity. Qed.

Lemma tailj_app a b : tailj (a ++ b) = tailj a ++ tailj b.
Proof.
  induction a as [|s r IH]; [reflexivity|]. cbn [app tailj]. rewrite IH.
  rewrite <- app_assoc. reflexivity.
Qed.

(* ---------- the print loop ---------- *)

Section Print.
Variable p : list Z.

Definition groups_text : list str := map (fun t => hexgroup p (2 * Z.of_nat t)) (seq 0 8).

Lemma groups_text_length : length groups_text = 8%nat.
Proof. reflexivity. Qed.

Lemma groups_text_nth t : (t < 8)%nat -> nth t groups_text [] = hexgroup p (2 * Z.of_nat t).
Proof.
  intros H. do 8 (destruct t as [|t]; [reflexivity|]). lia.
Qed.

Lemma skipn_groups t : (t < 8)%nat ->
  skipn t groups_text = hexgroup p (2 * Z.of_nat t) :: skipn (S t) groups_text.
Proof.
  intros H. do 8 (destruct t as [|t]; [reflexivity|]). lia.
Qed.

(* past the "::" (or without one): one field per iteration *)
Lemma print_after e0 e1 : forall fuel t,
  (t <= 8)%nat -> (8 - t < fuel)%nat -> e0 < 2 * Z.of_nat t ->
  print6_loop fuel p e0 e1 (2 * Z.of_nat t) = Some (emits t (skipn t groups_text)).
Proof.
  induction fuel as [|f IH]; intros t Ht Hf He; [lia|].
  cbn [print6_loop].
  destruct (Z.ltb_spec (2 * Z.of_nat t) 16) as [L | L].
  - destruct (Z.eqb_spec (2 * Z.of_nat t) e0) as [E | NE]; [lia|].
    replace (2 * Z.of_nat t + 2) with (2 * Z.of_nat (S t)) by lia.
    rewrite IH by lia.
    rewrite (skipn_groups t) by lia. cbn [emits]. reflexivity.
  - assert (t = 8%nat) by lia. subst t. reflexivity.
Qed.

(* before the "::" at fields a .. b-1 *)
Lemma print_before (a b : nat) : (a + 2 <= b <= 8)%nat -> forall fuel t,
  (t <= a)%nat -> (8 - t < fuel)%nat ->
  print6_loop fuel p (2 * Z.of_nat a) (2 * Z.of_nat b) (2 * Z.of_nat t) =
  Some (emits t (firstn (a - t) (skipn t groups_text)) ++ [c_colon; c_colon] ++
        (if (b =? 8)%nat then [] else hexgroup p (2 * Z.of_nat b) ++ emits (S b) (skipn (S b) groups_text))).
Proof.
  intros Hab. induction fuel as [|f IH]; intros t Ht Hf; [lia|].
  cbn [print6_loop].
  destruct (Z.ltb_spec (2 * Z.of_nat t) 16) as [L | L]; [|lia].
  destruct (Z.eqb_spec (2 * Z.of_nat t) (2 * Z.of_nat a)) as [E | NE].
  - assert (t = a) by lia. subst t. replace (a - a)%nat with O by lia. cbn [firstn emits app].
    destruct (Z.leb_spec 16 (2 * Z.of_nat b)) as [L2 | L2].
    + destruct (Nat.eqb_spec b 8); [reflexivity | lia].
    + destruct (Nat.eqb_spec b 8); [lia|].
      replace (2 * Z.of_nat b + 2) with (2 * Z.of_nat (S b)) by lia.
      rewrite print_after by lia. reflexivity.
  - replace (2 * Z.of_nat t + 2) with (2 * Z.of_nat (S t)) by lia.
    rewrite IH by lia.
    rewrite (skipn_groups t) by lia.
    replace (a - t)%nat with (S (a - S t)) by lia. cbn [firstn emits].
    rewrite <- !app_assoc. reflexivity.
Qed.
End Print.

(* ---------- the parse loop on printed groups ---------- *)

Definition inr16 (g : Z) : Prop := 0 <= g < 65536.

Lemma hexval_colon : hexval c_colon = None. Proof. reflexivity. Qed.

Lemma parse6_step_end f g acc ell : inr16 g ->
  parse6_loop (S f) (appendHex g) acc ell = Some (acc ++ [g], ell).
Proof.
  intros Hg. destruct (read_hex_group g [] Hg I) as (o & Hr & Ho).
  rewrite app_nil_r in Hr. cbn [parse6_loop]. rewrite Hr, Ho. reflexivity.
Qed.

Lemma parse6_step_colon f g acc ell c2 s3 : inr16 g -> is_hex c2 = true ->
  parse6_loop (S f) (appendHex g ++ c_colon :: c2 :: s3) acc ell =
  parse6_loop f (c2 :: s3) (acc ++ [g]) ell.
Proof.
  intros Hg Hc. destruct (read_hex_group g (c_colon :: c2 :: s3) Hg hexval_colon) as (o & Hr & Ho).
  cbn [parse6_loop]. rewrite Hr, Ho.
  destruct (is_hex_not_sep c2 Hc) as [N1 _].
  change (c_colon =? c_dot) with false. change (c_colon =? c_colon) with true. cbn [negb].
  rewrite N1. reflexivity.
Qed.

Lemma parse6_step_ell_end f g acc : inr16 g ->
  parse6_loop (S f) (appendHex g ++ [c_colon; c_colon]) acc None =
  Some (acc ++ [g], Some (Z.of_nat (length (acc ++ [g])))).
Proof.
  intros Hg. destruct (read_hex_group g [c_colon; c_colon] Hg hexval_colon) as (o & Hr & Ho).
  cbn [parse6_loop]. rewrite Hr, Ho.
  change (c_colon =? c_dot) with false. change (c_colon =? c_colon) with true. cbn [negb].
  reflexivity.
Qed.

Lemma parse6_step_ell f g acc c3 s4 : inr16 g ->
  parse6_loop (S f) (appendHex g ++ c_colon :: c_colon :: c3 :: s4) acc None =
  parse6_loop f (c3 :: s4) (acc ++ [g]) (Some (Z.of_nat (length (acc ++ [g])))).
Proof.
  intros Hg.
  destruct (read_hex_group g (c_colon :: c_colon :: c3 :: s4) Hg hexval_colon) as (o & Hr & Ho).
  cbn [parse6_loop]. rewrite Hr, Ho.
  change (c_colon =? c_dot) with false. change (c_colon =? c_colon) with true. cbn [negb].
  reflexivity.
Qed.

Definition joinv (vs : list Z) : str := joins (map appendHex vs).

Lemma joinv_cons g r : joinv (g :: r) = appendHex g ++ tailj (map appendHex r).
Proof. reflexivity. Qed.

(* a non-empty printed group list starts with a hex digit *)
Lemma joinv_head g r : inr16 g -> exists c s, joinv (g :: r) = c :: s /\ is_hex c = true.
Proof.
  intros Hg. destruct (appendHex_head g Hg) as (c & s & E & Hc).
  exists c, (s ++ tailj (map appendHex r)). rewrite joinv_cons, E. split; [reflexivity | exact Hc].
Qed.

(* groups up to the end of the text *)
Lemma parse6_groups : forall r g fuel acc ell,
  Forall inr16 (g :: r) -> (length r < fuel)%nat ->
  parse6_loop fuel (joinv (g :: r)) acc ell = Some (acc ++ g :: r, ell).
Proof.
  induction r as [|g' r IH]; intros g fuel acc ell HF Hf.
  - destruct fuel as [|f]; [cbn in Hf; lia|]. rewrite joinv_cons. cbn [map tailj]. rewrite app_nil_r.
    apply parse6_step_end. inversion HF; assumption.
  - destruct fuel as [|f]; [cbn in Hf; lia|]. cbn [length] in Hf.
    inversion HF as [|? ? Hg HF']; subst.
    rewrite joinv_cons. cbn [map tailj]. fold (joinv (g' :: r)).
    change (appendHex g' ++ tailj (map appendHex r)) with (joinv (g' :: r)).
    destruct (joinv_head g' r ltac:(inversion HF'; assumption)) as (c & s & E & Hc).
    rewrite E. rewrite parse6_step_colon by assumption. rewrite <- E.
    rewrite IH by (auto; lia). rewrite <- app_assoc. reflexivity.
Qed.

(* groups, "::", then the groups r2 (possibly none) up to the end of the text *)
Lemma parse6_groups_ell : forall r g r2 fuel acc,
  Forall inr16 (g :: r) -> Forall inr16 r2 -> (length r + length r2 < fuel)%nat ->
  parse6_loop fuel (joinv (g :: r) ++ [c_colon; c_colon] ++ joinv r2) acc None =
  Some (acc ++ (g :: r) ++ r2, Some (Z.of_nat (length (acc ++ g :: r)))).
Proof.
  induction r as [|g' r IH]; intros g r2 fuel acc HF HF2 Hf.
  - destruct fuel as [|f]; [lia|]. cbn [length] in Hf.
    inversion HF as [|? ? Hg _]; subst.
    rewrite joinv_cons. cbn [map tailj]. rewrite app_nil_r.
    destruct r2 as [|g2 r3].
    + cbn [joinv joins map app]. rewrite parse6_step_ell_end by assumption.
      rewrite ?app_nil_r. reflexivity.
    + destruct (joinv_head g2 r3 ltac:(inversion HF2; assumption)) as (c & s & E & Hc).
      cbn [app]. rewrite E. rewrite parse6_step_ell by assumption. rewrite <- E.
      rewrite parse6_groups by (auto; cbn [length] in Hf; lia).
      rewrite <- app_assoc. reflexivity.
  - destruct fuel as [|f]; [lia|]. cbn [length] in Hf.
    inversion HF as [|? ? Hg HF']; subst.
    rewrite joinv_cons. cbn [map tailj].
    change (appendHex g' ++ tailj (map appendHex r)) with (joinv (g' :: r)).
    destruct (joinv_head g' r ltac:(inversion HF'; assumption)) as (c & s & E & Hc).
    rewrite <- app_assoc.
    set (T := [c_colon; c_colon] ++ joinv r2).
    change ((c_colon :: joinv (g' :: r)) ++ T) with (c_colon :: (joinv (g' :: r) ++ T)).
    rewrite E. change ((c :: s) ++ T) with (c :: (s ++ T)).
    rewrite parse6_step_colon by assumption.
    change (c :: (s ++ T)) with ((c :: s) ++ T).
    rewrite <- E. unfold T. rewrite IH by (auto; lia).
    rewrite <- !app_assoc. cbn [app]. reflexivity.
Qed.

(* ---------- first_sep ---------- *)

Lemma first_sep_hex ds rest : forallb is_hex ds = true -> first_sep (ds ++ rest) = first_sep rest.
Proof.
  induction ds as [|c ds IH]; intros H; [reflexivity|].
  cbn [forallb] in H. apply andb_true_iff in H. destruct H as [Hc H].
  cbn [app first_sep]. destruct (is_hex_not_sep c Hc) as [N1 N2]. rewrite N1, N2.
  assert (N3 : (c =? 37) = false).
  { unfold is_hex, hexval in Hc. destruct (Z.eqb_spec c 37) as [->|]; [cbn in Hc; discriminate | reflexivity]. }
  rewrite N3. apply IH, H.
Qed.

Lemma first_sep_group g rest : inr16 g -> first_sep (appendHex g ++ c_colon :: rest) = c_colon.
Proof.
  intros Hg. pose proof (forall_zrange _ _ hexgroup_all g Hg) as H.
  unfold hexgroup_ok in H. apply andb_true_iff in H. destruct H as [H1 _].
  rewrite first_sep_hex by exact H1. reflexivity.
Qed.

(* ---------- parseIPv6 on the three printed shapes ---------- *)

Definition finish6 (r : option (list Z * option Z)) : option (list Z) :=
  match r with
  | None => None
  | Some (groups, ell) =>
    let n := Z.of_nat (length groups) in
    if n <? 8 then
      match ell with
      | None => None
      | Some e => Some (firstn (Z.to_nat e) groups ++ repeat 0 (Z.to_nat (8 - n))
                        ++ skipn (Z.to_nat e) groups)
      end
    else match ell with None => Some groups | Some _ => None end
  end.

Lemma parseIPv6_hexhead S c s : S = c :: s -> is_hex c = true ->
  parseIPv6 S = finish6 (parse6_loop 8 S [] None).
Proof.
  intros -> Hc. destruct (is_hex_not_sep c Hc) as [N _]. unfold parseIPv6, finish6.
  destruct s as [|c2 r]; [reflexivity|]. cbv beta iota. rewrite N. reflexivity.
Qed.

Lemma parseIPv6_ellhead c s : is_hex c = true ->
  parseIPv6 (c_colon :: c_colon :: c :: s) = finish6 (parse6_loop 8 (c :: s) [] (Some 0)).
Proof. intros Hc. reflexivity. Qed.

(* no "::" : eight groups *)
Lemma parseIPv6_plain hs : length hs = 8%nat -> Forall inr16 hs ->
  parseIPv6 (joinv hs) = Some hs.
Proof.
  intros HL HF. destruct hs as [|g r]; [discriminate|].
  destruct (joinv_head g r ltac:(inversion HF; assumption)) as (c & s & E & Hc).
  rewrite (parseIPv6_hexhead _ c s E Hc).
  rewrite parse6_groups by (auto; cbn [length] in HL; lia). cbn [app].
  unfold finish6. rewrite HL. reflexivity.
Qed.

Lemma nth_firstn_lt (l : list Z) n i d : (i < n)%nat -> nth i (firstn n l) d = nth i l d.
Proof.
  revert n i. induction l as [|x l IH]; intros n i H.
  - rewrite firstn_nil. reflexivity.
  - destruct n as [|n]; [lia|]. destruct i as [|i]; [reflexivity|]. cbn. apply IH. lia.
Qed.

Lemma nth_skipn_add (l : list Z) n i d : nth i (skipn n l) d = nth (n + i) l d.
Proof.
  revert l. induction n as [|n IH]; intros l; [reflexivity|].
  destruct l as [|x l]; [destruct i; reflexivity|]. cbn. apply IH.
Qed.

Lemma firstn_app_exact (l1 l2 : list Z) n : length l1 = n -> firstn n (l1 ++ l2) = l1.
Proof.
  intros <-. rewrite firstn_app, firstn_all, Nat.sub_diag. cbn. apply app_nil_r.
Qed.

Lemma skipn_app_exact (l1 l2 : list Z) n : length l1 = n -> skipn n (l1 ++ l2) = l2.
Proof.
  intros <-. rewrite skipn_app, skipn_all, Nat.sub_diag. reflexivity.
Qed.

Lemma skipn_skipn_add (x y : nat) (l : list Z) : skipn x (skipn y l) = skipn (x + y) l.
Proof.
  revert l. induction y as [|y IH]; intros l.
  - rewrite Nat.add_0_r. reflexivity.
  - destruct l as [|h l]; [rewrite !skipn_nil; reflexivity|].
    rewrite Nat.add_succ_r. cbn [skipn]. apply IH.
Qed.

Lemma expand_zeros (hs : list Z) (a b : nat) :
  length hs = 8%nat -> (a <= b <= 8)%nat ->
  (forall t, (a <= t < b)%nat -> nth t hs 0 = 0) ->
  firstn a hs ++ repeat 0 (b - a) ++ skipn b hs = hs.
Proof.
  intros HL Hab HZ.
  transitivity (firstn a hs ++ skipn a hs); [f_equal | apply firstn_skipn].
  transitivity (firstn (b - a) (skipn a hs) ++ skipn (b - a) (skipn a hs)); [|apply firstn_skipn].
  rewrite skipn_skipn_add. replace (b - a + a)%nat with b by lia. f_equal.
  apply nth_ext with (d := 0) (d' := 0).
  - rewrite repeat_length, firstn_length, skipn_length. lia.
  - rewrite repeat_length. intros i Hi. rewrite nth_repeat.
    rewrite nth_firstn_lt by lia.
    rewrite nth_skipn_add. symmetry. apply HZ. lia.
Qed.

(* "::" in front *)
Lemma parseIPv6_lead hs (b : nat) : length hs = 8%nat -> Forall inr16 hs -> (2 <= b <= 8)%nat ->
  (forall t, (t < b)%nat -> nth t hs 0 = 0) ->
  parseIPv6 ([c_colon; c_colon] ++ joinv (skipn b hs)) = Some hs.
Proof.
  intros HL HF Hb HZ. unfold parseIPv6. cbn [app].
  change ((c_colon =? c_colon) && (c_colon =? c_colon)) with true. cbn iota.
  assert (HF' : Forall inr16 (skipn b hs)).
  { apply Forall_forall. intros x Hx. rewrite Forall_forall in HF. apply HF.
    rewrite <- (firstn_skipn b hs). apply in_or_app. right. exact Hx. }
  destruct (skipn b hs) as [|g r] eqn:E.
  - cbn [joinv joins map].
    assert (b = 8%nat).
    { assert (length (skipn b hs) = 0%nat) by (rewrite E; reflexivity). rewrite skipn_length in H. lia. }
    subst b. f_equal. symmetry.
    rewrite <- (expand_zeros hs 0 8 HL ltac:(lia)) by (intros; apply HZ; lia).
    rewrite skipn_all2 by lia. reflexivity.
  - destruct (joinv_head g r ltac:(inversion HF'; assumption)) as (c & s & Ej & Hc).
    rewrite Ej. rewrite <- Ej.
    assert (Hlen : length (g :: r) = (8 - b)%nat) by (rewrite <- E, skipn_length; lia).
    rewrite parse6_groups by (auto; cbn [length] in *; lia). cbn [app].
    rewrite Hlen.
    destruct (Z.ltb_spec (Z.of_nat (8 - b)) 8) as [L | L]; [|lia].
    f_equal. cbn [Z.to_nat firstn skipn app].
    replace (Z.to_nat (8 - Z.of_nat (8 - b))) with b by lia.
    rewrite <- E.
    pose proof (expand_zeros hs 0 b HL ltac:(lia)) as X. cbn [firstn app] in X.
    rewrite Nat.sub_0_r in X. apply X. intros; apply HZ; lia.
Qed.

(* "::" after at least one group *)
Lemma parseIPv6_mid hs (a b : nat) : length hs = 8%nat -> Forall inr16 hs ->
  (1 <= a)%nat -> (a + 2 <= b <= 8)%nat ->
  (forall t, (a <= t < b)%nat -> nth t hs 0 = 0) ->
  parseIPv6 (joinv (firstn a hs) ++ [c_colon; c_colon] ++ joinv (skipn b hs)) = Some hs.
Proof.
  intros HL HF Ha Hab HZ.
  assert (HF1 : Forall inr16 (firstn a hs)).
  { apply Forall_forall. intros x Hx. rewrite Forall_forall in HF. apply HF.
    rewrite <- (firstn_skipn a hs). apply in_or_app. left. exact Hx. }
  assert (HF2 : Forall inr16 (skipn b hs)).
  { apply Forall_forall. intros x Hx. rewrite Forall_forall in HF. apply HF.
    rewrite <- (firstn_skipn b hs). apply in_or_app. right. exact Hx. }
  assert (L1 : length (firstn a hs) = a) by (rewrite firstn_length; lia).
  assert (L2 : length (skipn b hs) = (8 - b)%nat) by (rewrite skipn_length; lia).
  destruct (firstn a hs) as [|g r] eqn:E1; [cbn in L1; lia|].
  destruct (joinv_head g r ltac:(inversion HF1; assumption)) as (c & s & Ej & Hc).
  rewrite (parseIPv6_hexhead _ c (s ++ [c_colon; c_colon] ++ joinv (skipn b hs)))
    by (try (rewrite Ej; reflexivity); exact Hc).
  cbn [length] in L1.
  rewrite parse6_groups_ell by (auto; lia). rewrite !app_nil_l. unfold finish6.
  rewrite app_length, L2. cbn [length].
  replace (Z.of_nat (S (length r) + (8 - b))) with (Z.of_nat (a + (8 - b))) by lia.
  destruct (Z.ltb_spec (Z.of_nat (a + (8 - b))) 8) as [L | L]; [|lia].
  f_equal.
  replace (Z.to_nat (Z.of_nat (length (g :: r)))) with a by (cbn [length]; lia).
  replace (Z.to_nat (8 - Z.of_nat (a + (8 - b)))) with (b - a)%nat by lia.
  rewrite <- E1.
  rewrite firstn_app_exact by (rewrite firstn_length; lia).
  rewrite skipn_app_exact by (rewrite firstn_length; lia).
  apply expand_zeros; auto; lia.
Qed.
