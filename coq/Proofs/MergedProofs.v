(* C29 proofs: the merged RIB holds a route iff some source currently advertises it. *)
From Coq Require Import List NArith Bool Permutation Lia.
Import ListNotations.
From BioVerif Require Import Model.Merged Spec.MergedSpec.

(* ---- association-list interface *)
Lemma lookup_set_eq r v m : lookup r (set r v m) = Some v.
Proof.
  induction m as [|[k w] m IH]; cbn.
  - now rewrite N.eqb_refl.
  - destruct (N.eqb k r) eqn:E; cbn; rewrite E; auto.
Qed.

Lemma lookup_set_neq r r' v m : r <> r' -> lookup r' (set r v m) = lookup r' m.
Proof.
  intros Hn. induction m as [|[k w] m IH]; cbn.
  - destruct (N.eqb r r') eqn:E; auto. apply N.eqb_eq in E. contradiction.
  - destruct (N.eqb k r) eqn:E; cbn.
    + apply N.eqb_eq in E. subst k.
      destruct (N.eqb r r') eqn:E2; auto. apply N.eqb_eq in E2. contradiction.
    + destruct (N.eqb k r'); auto.
Qed.

Lemma lookup_del_eq r m : lookup r (del r m) = None.
Proof.
  induction m as [|[k w] m IH]; cbn; auto.
  destruct (N.eqb k r) eqn:E; cbn; auto. now rewrite E.
Qed.

Lemma lookup_del_neq r r' m : r <> r' -> lookup r' (del r m) = lookup r' m.
Proof.
  intros Hn. induction m as [|[k w] m IH]; cbn; auto.
  destruct (N.eqb k r) eqn:E; cbn.
  - apply N.eqb_eq in E. subst k.
    destruct (N.eqb r r') eqn:E2; auto. apply N.eqb_eq in E2. contradiction.
  - destruct (N.eqb k r'); auto.
Qed.

Lemma lookup_in_keys r m l : lookup r m = Some l -> In r (map fst m).
Proof.
  induction m as [|[k w] m IH]; cbn; [discriminate|].
  destruct (N.eqb k r) eqn:E; intros H.
  - apply N.eqb_eq in E. auto.
  - right. auto.
Qed.

Lemma mem_In s l : mem s l = true <-> In s l.
Proof.
  induction l as [|x l IH]; cbn; [split; [discriminate|tauto]|].
  rewrite orb_true_iff, N.eqb_eq, IH. tauto.
Qed.

(* ---- swap_remove is "remove s" up to permutation *)
Lemma swap_remove_notin s l : ~ In s l -> swap_remove s l = l.
Proof.
  induction l as [|x l IH]; cbn; auto. intros H.
  destruct (N.eqb x s) eqn:E.
  - apply N.eqb_eq in E. tauto.
  - f_equal. apply IH. tauto.
Qed.

Lemma swap_remove_perm s l : In s l -> Permutation l (s :: swap_remove s l).
Proof.
  induction l as [|x l IH]; cbn; [tauto|]. intros H.
  destruct (N.eqb x s) eqn:E.
  - apply N.eqb_eq in E. subst x. constructor.
    destruct (rev l) as [|last rinit] eqn:R.
    + assert (l = []) by (apply (f_equal (@rev _)) in R; rewrite rev_involutive in R; exact R).
      subst. constructor.
    + assert (l = rev rinit ++ [last]) as ->
        by (apply (f_equal (@rev _)) in R; rewrite rev_involutive in R; exact R).
      apply Permutation_sym, Permutation_cons_append.
  - destruct H as [->|H]; [rewrite N.eqb_refl in E; discriminate|].
    eapply perm_trans; [apply perm_skip, IH, H | apply perm_swap].
Qed.

Lemma swap_remove_spec s l : NoDup l ->
  NoDup (swap_remove s l) /\ forall x, In x (swap_remove s l) <-> In x l /\ x <> s.
Proof.
  intros ND. destruct (in_dec N.eq_dec s l) as [Hin|Hnot].
  - pose proof (swap_remove_perm s l Hin) as P.
    pose proof (Permutation_NoDup P ND) as ND'. inversion ND' as [|? ? Hs ND'']; subst.
    split; auto. intros x. split.
    + intros Hx. split.
      * eapply Permutation_in; [apply Permutation_sym, P|]. now right.
      * intros ->. contradiction.
    + intros [Hx Hne]. eapply Permutation_in in Hx; [|exact P].
      destruct Hx as [->|Hx]; [contradiction|auto].
  - rewrite swap_remove_notin by auto. split; auto.
    intros x; split; [|tauto]. intros Hx; split; auto. intros ->; contradiction.
Qed.

Lemma rib_remove_spec r l : NoDup l ->
  NoDup (rib_remove r l) /\ forall x, In x (rib_remove r l) <-> In x l /\ x <> r.
Proof.
  induction l as [|y l IH]; cbn; intros ND.
  - split; [constructor|]. tauto.
  - inversion ND as [|? ? Hy ND']; subst.
    destruct (N.eqb y r) eqn:E.
    + apply N.eqb_eq in E. subst y. split; auto.
      intros x; split; [intros Hx; split; [now right|intros ->; contradiction]|].
      intros [[->|Hx] Hne]; [congruence|auto].
    + apply N.eqb_neq in E. destruct (IH ND') as [ND2 Hin]. split.
      * constructor; auto. rewrite Hin. tauto.
      * intros x; cbn. rewrite Hin. split.
        -- intros [->|[Hx Hne]]; auto.
        -- intros [[->|Hx] Hne]; auto.
Qed.

(* ---- the invariant tying the concrete state to the set of current advertisements *)
Definition sources_of (t : st) (r : rid) : list src :=
  match lookup r (routes t) with Some l => l | None => [] end.

Record Inv (t : st) (a : adv) : Prop := {
  inv_src : forall s r, In s (sources_of t r) <-> In (s, r) a;
  inv_wf  : forall r l, lookup r (routes t) = Some l -> l <> [] /\ NoDup l;
  inv_rib : forall r, In r (rib t) <-> lookup r (routes t) <> None;
  inv_nd  : NoDup (rib t)
}.

Lemma Inv_ext t a a' : (forall x, In x a <-> In x a') -> Inv t a -> Inv t a'.
Proof.
  intros E [A B C D]. split; auto. intros s r. rewrite A. apply E.
Qed.

Lemma inv_empty : Inv empty [].
Proof.
  split.
  - intros s r. cbn. tauto.
  - intros r l. cbn. discriminate.
  - intros r. cbn. split; [tauto|]. intros H; now apply H.
  - constructor.
Qed.

Lemma adv_mem_In s r a : adv_mem s r a = true <-> In (s, r) a.
Proof.
  unfold adv_mem. rewrite existsb_exists. split.
  - intros [[s' r'] [Hin H]]. cbn in H. apply andb_true_iff in H as [H1 H2].
    apply N.eqb_eq in H1, H2. now subst.
  - intros H. exists (s, r). cbn. now rewrite !N.eqb_refl.
Qed.

Lemma spec_add_In a s r x : In x (spec_step a (Add s r)) <-> x = (s, r) \/ In x a.
Proof.
  cbn. destruct (adv_mem s r a) eqn:E.
  - apply adv_mem_In in E. split; [auto|]. intros [->|H]; auto.
  - cbn. split; intros [H|H]; auto.
Qed.

Lemma spec_remove_In a s r x : In x (spec_step a (Remove s r)) <-> In x a /\ x <> (s, r).
Proof.
  cbn. rewrite filter_In. destruct x as [s' r']. cbn.
  rewrite negb_true_iff, andb_false_iff, !N.eqb_neq. split.
  - intros [H [Hn|Hn]]; split; auto; congruence.
  - intros [H Hn]; split; auto.
    destruct (N.eq_dec s' s) as [->|]; [right; congruence|left; auto].
Qed.

Lemma spec_drop_In a s x : In x (spec_step a (Drop s)) <-> In x a /\ fst x <> s.
Proof.
  cbn. rewrite filter_In, negb_true_iff, N.eqb_neq. tauto.
Qed.

Lemma step_add_inv t a s r : Inv t a -> Inv (step t (Add s r)) (spec_step a (Add s r)).
Proof.
  intros [A B C D]. cbn [step].
  destruct (lookup r (routes t)) as [l|] eqn:L.
  - (* existing entry: idempotent addSource *)
    destruct (B r l L) as [Hne HND].
    split; cbn [routes rib].
    + intros s' r'. rewrite spec_add_In. unfold sources_of; cbn [routes].
      destruct (N.eq_dec r r') as [<-|Hn].
      * rewrite lookup_set_eq. specialize (A s' r). unfold sources_of in A. rewrite L in A.
        unfold add_source. destruct (mem s l) eqn:M.
        -- apply mem_In in M. rewrite A. split; auto. intros [E|H]; auto.
           inversion E; subst. now apply A.
        -- rewrite in_app_iff, A. cbn. split.
           ++ intros [H|[->|[]]]; auto.
           ++ intros [E|H]; auto. inversion E; auto.
      * rewrite lookup_set_neq by auto. specialize (A s' r'). unfold sources_of in A.
        rewrite A. split; auto. intros [E|H]; auto. inversion E; congruence.
    + intros r' l'. destruct (N.eq_dec r r') as [<-|Hn].
      * rewrite lookup_set_eq. intros E; inversion E; subst l'. unfold add_source.
        destruct (mem s l) eqn:M; [auto|]. split.
        -- destruct l; discriminate.
        -- assert (~ In s l) by (rewrite <- mem_In; congruence).
           apply Permutation_NoDup with (l := s :: l).
           ++ apply Permutation_cons_append.
           ++ now constructor.
      * rewrite lookup_set_neq by auto. apply B.
    + intros r'. rewrite C. destruct (N.eq_dec r r') as [<-|Hn].
      * rewrite lookup_set_eq, L. split; discriminate.
      * now rewrite lookup_set_neq by auto.
    + exact D.
  - (* new route: install in the Loc-RIB *)
    split; cbn [routes rib].
    + intros s' r'. rewrite spec_add_In. unfold sources_of; cbn [routes].
      destruct (N.eq_dec r r') as [<-|Hn].
      * rewrite lookup_set_eq. cbn. specialize (A s' r). unfold sources_of in A. rewrite L in A.
        cbn in A. split.
        -- intros [->|[]]. now left.
        -- intros [E|H]; [inversion E; auto|]. apply A in H. destruct H.
      * rewrite lookup_set_neq by auto. specialize (A s' r'). unfold sources_of in A.
        rewrite A. split; auto. intros [E|H]; auto. inversion E; congruence.
    + intros r' l'. destruct (N.eq_dec r r') as [<-|Hn].
      * rewrite lookup_set_eq. intros E; inversion E; subst. split; [discriminate|].
        constructor; [cbn; tauto|constructor].
      * rewrite lookup_set_neq by auto. apply B.
    + intros r'. cbn. destruct (N.eq_dec r r') as [<-|Hn].
      * rewrite lookup_set_eq. split; [discriminate|auto].
      * rewrite lookup_set_neq by auto. rewrite <- C. split; [intros [E|H]; [congruence|auto]|auto].
    + constructor; auto. rewrite C, L. tauto.
Qed.

Lemma step_remove_inv t a s r : Inv t a -> Inv (step t (Remove s r)) (spec_step a (Remove s r)).
Proof.
  intros [A B C D]. cbn [step].
  destruct (lookup r (routes t)) as [l|] eqn:L.
  - destruct (B r l L) as [Hne HND].
    destruct (swap_remove_spec s l HND) as [ND' IN'].
    unfold del_route. destruct (swap_remove s l) as [|y l'] eqn:SR.
    + (* last source gone: withdraw from the Loc-RIB *)
      destruct (rib_remove_spec r (rib t) D) as [RND RIN].
      split; cbn [routes rib].
      * intros s' r'. rewrite spec_remove_In. unfold sources_of; cbn [routes].
        destruct (N.eq_dec r r') as [<-|Hn].
        -- rewrite lookup_del_eq. cbn. split; [tauto|]. intros [H Hne'].
           apply A in H. unfold sources_of in H. rewrite L in H.
           assert (In s' []) as [] . apply IN'. split; auto. congruence.
        -- rewrite lookup_del_neq by auto. specialize (A s' r'). unfold sources_of in A.
           rewrite A. split; [intros H; split; auto; congruence|tauto].
      * intros r' l0. destruct (N.eq_dec r r') as [<-|Hn].
        -- rewrite lookup_del_eq. discriminate.
        -- rewrite lookup_del_neq by auto. apply B.
      * intros r'. rewrite RIN, C. destruct (N.eq_dec r r') as [<-|Hn].
        -- rewrite lookup_del_eq. tauto.
        -- rewrite lookup_del_neq by auto. split; [tauto|]. intros H; split; auto.
      * exact RND.
    + split; cbn [routes rib].
      * intros s' r'. rewrite spec_remove_In. unfold sources_of; cbn [routes].
        destruct (N.eq_dec r r') as [<-|Hn].
        -- rewrite lookup_set_eq. rewrite IN'. specialize (A s' r). unfold sources_of in A.
           rewrite L in A. rewrite A. split; [intros [H Hn]; split; auto; congruence|].
           intros [H Hn]; split; auto. congruence.
        -- rewrite lookup_set_neq by auto. specialize (A s' r'). unfold sources_of in A.
           rewrite A. split; [intros H; split; auto; congruence|tauto].
      * intros r' l0. destruct (N.eq_dec r r') as [<-|Hn].
        -- rewrite lookup_set_eq. intros E; inversion E; subst. split; [discriminate|auto].
        -- rewrite lookup_set_neq by auto. apply B.
      * intros r'. rewrite C. destruct (N.eq_dec r r') as [<-|Hn].
        -- rewrite lookup_set_eq, L. split; discriminate.
        -- now rewrite lookup_set_neq by auto.
      * exact D.
  - (* unknown route: nothing happens, and the spec had no such advertisement *)
    eapply Inv_ext; [|split; eauto]. intros [s' r']. rewrite spec_remove_In.
    split; [|tauto]. intros H; split; auto. intros E; inversion E; subst.
    apply A in H. unfold sources_of in H. now rewrite L in H.
Qed.

(* Drop s = one Remove s k per key k present at loop entry *)
Lemma drop_as_removes t s :
  step t (Drop s) = fold_left step (map (Remove s) (map fst (routes t))) t.
Proof.
  cbn [step]. generalize (map fst (routes t)) as ks. intros ks. revert t.
  induction ks as [|k ks IH]; intros t; cbn [fold_left map]; auto.
Qed.

Lemma removes_inv s ks : forall t a, Inv t a ->
  Inv (fold_left step (map (Remove s) ks) t) (fold_left spec_step (map (Remove s) ks) a).
Proof.
  induction ks as [|k ks IH]; intros t a H; cbn [fold_left map]; auto.
  apply IH, step_remove_inv, H.
Qed.

Lemma spec_removes_In s ks : forall a x,
  In x (fold_left spec_step (map (Remove s) ks) a) <-> In x a /\ ~ (fst x = s /\ In (snd x) ks).
Proof.
  induction ks as [|k ks IH]; intros a x; cbn [fold_left map].
  - cbn. tauto.
  - rewrite IH, spec_remove_In. destruct x as [s' r']. cbn. split.
    + intros [[H Hne] Hn]. split; auto. intros [-> [->|Hk]]; [congruence|tauto].
    + intros [H Hn]. split; [split; auto|].
      * intros E; inversion E; subst. tauto.
      * tauto.
Qed.

Lemma step_drop_inv t a s : Inv t a -> Inv (step t (Drop s)) (spec_step a (Drop s)).
Proof.
  intros H. rewrite drop_as_removes.
  eapply Inv_ext; [|apply removes_inv, H].
  intros [s' r']. rewrite spec_removes_In, spec_drop_In. cbn. split.
  - intros [Hin Hn]. split; auto. intros ->. apply Hn. split; auto.
    apply (inv_src _ _ H) in Hin. unfold sources_of in Hin.
    destruct (lookup r' (routes t)) as [l|] eqn:L; [|destruct Hin].
    eapply lookup_in_keys; eauto.
  - intros [Hin Hn]; split; auto. tauto.
Qed.

Lemma step_inv t a o : Inv t a -> Inv (step t o) (spec_step a o).
Proof.
  destruct o; [apply step_add_inv|apply step_remove_inv|apply step_drop_inv].
Qed.

Lemma run_inv_gen ops : forall t a, Inv t a -> Inv (fold_left step ops t) (fold_left spec_step ops a).
Proof.
  induction ops as [|o ops IH]; intros t a H; cbn [fold_left]; auto. apply IH, step_inv, H.
Qed.

Lemma run_inv ops : Inv (run ops) (spec_run ops).
Proof. apply run_inv_gen, inv_empty. Qed.

(* ---- the property *)
Lemma present_iff_advertised ops r :
  In r (rib (run ops)) <-> advertised (spec_run ops) r.
Proof.
  pose proof (run_inv ops) as [A B C D]. rewrite C. unfold advertised. split.
  - intros H. destruct (lookup r (routes (run ops))) as [l|] eqn:L; [|congruence].
    destruct (B r l L) as [Hne _]. destruct l as [|s l]; [congruence|].
    exists s. apply A. unfold sources_of. rewrite L. now left.
  - intros [s H]. apply A in H. unfold sources_of in H.
    destruct (lookup r (routes (run ops))); [discriminate|destruct H].
Qed.

Lemma present_once ops : NoDup (rib (run ops)).
Proof. apply (inv_nd _ _ (run_inv ops)). Qed.

Lemma sources_exact ops s r :
  In s (sources_of (run ops) r) <-> In (s, r) (spec_run ops).
Proof. apply (inv_src _ _ (run_inv ops)). Qed.

(* ---- the RIS client glue *)
Lemma client_run_gen evs : forall a, fold_left client_step evs a = fold_left spec_step (map glue evs) a.
Proof.
  induction evs as [|e evs IH]; intros a; cbn [fold_left map]; [reflexivity|].
  rewrite IH. destruct e; reflexivity.
Qed.

Lemma client_events_consistent evs r :
  In r (rib (run_events evs)) <-> exists c, In (c, r) (client_run evs).
Proof.
  unfold run_events, client_run. rewrite client_run_gen. apply present_iff_advertised.
Qed.

(* ---- presence is per route identity: what happens to other routes never matters *)
Lemma about_gen r ops : forall a a',
  (forall s, In (s, r) a <-> In (s, r) a') ->
  forall s, In (s, r) (fold_left spec_step ops a) <-> In (s, r) (fold_left spec_step (filter (about r) ops) a').
Proof.
  induction ops as [|o ops IH]; intros a a' H; cbn [fold_left filter]; [exact H|].
  destruct (about r o) eqn:Ab; cbn [fold_left]; apply IH; intros s.
  - destruct o as [s0 r0|s0 r0|s0].
    + rewrite !spec_add_In, H. tauto.
    + rewrite !spec_remove_In, H. tauto.
    + rewrite !spec_drop_In, H. tauto.
  - destruct o as [s0 r0|s0 r0|s0]; cbn in Ab; try discriminate; apply N.eqb_neq in Ab.
    + rewrite spec_add_In, H. split; [intros [E|E]; auto; inversion E; congruence|auto].
    + rewrite spec_remove_In, H. split; [tauto|]. intros E. split; auto. intros E2. inversion E2. congruence.
Qed.

Lemma presence_per_route ops r :
  In r (rib (run ops)) <-> In r (rib (run (filter (about r) ops))).
Proof.
  rewrite !present_iff_advertised. unfold advertised, spec_run.
  split; intros [s H]; exists s; [apply (about_gen r ops [] []) in H|apply (about_gen r ops [] [])]; auto; tauto.
Qed.
