(* C11: the path-id manager (Model/PathIDs.v) keeps its maps consistent, counts identifiers
   exactly, and its search loop terminates. Generic in the key type. *)
From Coq Require Import List NArith Bool Lia ZArith.
From Coq Require Import ZifyBool ZifyNat ZifyN.
Import ListNotations.
From BioVerif Require Import Model.PathIDs.
Local Open Scope N_scope.

Ltac Zify.zify_post_hook ::= Z.div_mod_to_equations.

(* ---------------------------------------------------------------- ids: association-list facts *)

Lemma ids_get_cons : forall i j c m,
  ids_get i ((j, c) :: m) = if N.eqb j i then Some c else ids_get i m.
Proof. reflexivity. Qed.

Lemma ids_get_in_keys : forall i c m, ids_get i m = Some c -> In i (map fst m).
Proof.
  induction m as [|[j d] m IH]; cbn [ids_get map fst]; intros H; [discriminate|].
  destruct (N.eqb j i) eqn:E.
  - apply N.eqb_eq in E. now left.
  - right; auto.
Qed.

Lemma ids_get_not_in_keys : forall i m, ids_get i m = None -> ~ In i (map fst m).
Proof.
  induction m as [|[j d] m IH]; cbn [ids_get map fst]; intros H; [tauto|].
  destruct (N.eqb j i) eqn:E; [discriminate|].
  apply N.eqb_neq in E. intros [A|A]; [congruence|]. now apply IH.
Qed.

Lemma ids_get_set_same : forall i c m, ids_get i (ids_set i c m) = Some c.
Proof.
  induction m as [|[j d] m IH]; cbn [ids_set ids_get].
  - now rewrite N.eqb_refl.
  - destruct (N.eqb j i) eqn:E; cbn [ids_get]; rewrite E; auto.
Qed.

Lemma ids_get_set_other : forall i j c m, i <> j -> ids_get j (ids_set i c m) = ids_get j m.
Proof.
  induction m as [|[k d] m IH]; cbn [ids_set ids_get]; intros NE.
  - destruct (N.eqb i j) eqn:E; [apply N.eqb_eq in E; congruence|reflexivity].
  - destruct (N.eqb k i) eqn:E; cbn [ids_get].
    + apply N.eqb_eq in E; subst k.
      destruct (N.eqb i j) eqn:E2; [apply N.eqb_eq in E2; congruence|reflexivity].
    + destruct (N.eqb k j); auto.
Qed.

Lemma ids_set_keys : forall i c d m, ids_get i m = Some d -> map fst (ids_set i c m) = map fst m.
Proof.
  induction m as [|[j e] m IH]; cbn [ids_set ids_get map fst]; intros H; [discriminate|].
  destruct (N.eqb j i) eqn:E; cbn [map fst]; [reflexivity|]. now rewrite IH.
Qed.

Lemma ids_get_del_same : forall i m, ids_get i (ids_del i m) = None.
Proof.
  induction m as [|[j d] m IH]; cbn [ids_del filter fst ids_get]; [reflexivity|].
  destruct (N.eqb j i) eqn:E; cbn [negb]; [exact IH|].
  cbn [ids_get]. rewrite E. exact IH.
Qed.

Lemma ids_get_del_other : forall i j m, i <> j -> ids_get j (ids_del i m) = ids_get j m.
Proof.
  induction m as [|[k d] m IH]; cbn [ids_del filter fst ids_get]; intros NE; [reflexivity|].
  destruct (N.eqb k i) eqn:E; cbn [negb].
  - apply N.eqb_eq in E; subst k.
    destruct (N.eqb i j) eqn:E2; [apply N.eqb_eq in E2; congruence|]. now apply IH.
  - cbn [ids_get]. destruct (N.eqb k j); [reflexivity|]. now apply IH.
Qed.

Lemma ids_del_keys_nodup : forall i m, NoDup (map fst m) -> NoDup (map fst (ids_del i m)).
Proof.
  induction m as [|[j d] m IH]; cbn [ids_del filter fst map]; intros ND; [constructor|].
  inversion ND as [|? ? NI ND']; subst.
  destruct (N.eqb j i); cbn [negb map fst]; [now apply IH|].
  constructor; [|now apply IH].
  intros H. apply NI. clear - H.
  induction m as [|[k e] m IHm]; cbn [ids_del filter fst map] in *; [assumption|].
  destruct (N.eqb k i); cbn [negb map fst] in H; [right; auto|].
  destruct H as [H|H]; [now left|right; auto].
Qed.

Lemma ids_del_not_in : forall i m, ~ In i (map fst m) -> ids_del i m = m.
Proof.
  induction m as [|[j d] m IH]; cbn [ids_del filter fst map]; intros H; [reflexivity|].
  destruct (N.eqb j i) eqn:E.
  - apply N.eqb_eq in E. exfalso; apply H; now left.
  - cbn [negb]. f_equal. apply IH. intros A; apply H; now right.
Qed.

Lemma ids_del_length : forall i c m,
  NoDup (map fst m) -> ids_get i m = Some c -> S (length (ids_del i m)) = length m.
Proof.
  induction m as [|[j d] m IH]; cbn [ids_del filter fst ids_get map length]; intros ND H; [discriminate|].
  inversion ND as [|? ? NI ND']; subst.
  destruct (N.eqb j i) eqn:E; cbn [negb length].
  - apply N.eqb_eq in E; subst j. fold (ids_del i m). now rewrite ids_del_not_in.
  - fold (ids_del i m). f_equal. now apply IH.
Qed.

(* ---------------------------------------------------------------- the search loop terminates *)

Definition cands (fuel : nat) (cand : N) : list N :=
  map (fun j => (cand + N.of_nat j) mod w32) (seq 0 fuel).

Lemma cands_S : forall f cand,
  cand < w32 ->
  cands (S f) cand = cand :: cands f ((cand + 1) mod w32).
Proof.
  intros f cand Hc. unfold cands. cbn [seq map]. f_equal.
  - rewrite N.add_0_r. apply N.mod_small. exact Hc.
  - rewrite <- seq_shift, map_map. apply map_ext. intros j.
    unfold w32 in *. lia.
Qed.

Lemma next_free_none_all_taken : forall fuel cand m,
  cand < w32 -> next_free fuel cand m = None ->
  forall x, In x (cands fuel cand) -> In x (map fst m).
Proof.
  induction fuel as [|f IH]; intros cand m Hc H x Hx; [destruct Hx|].
  cbn [next_free] in H. destruct (ids_get cand m) eqn:G; [|discriminate].
  rewrite cands_S in Hx by exact Hc. destruct Hx as [Hx|Hx].
  - subst x. eapply ids_get_in_keys; eassumption.
  - eapply IH; [|exact H|exact Hx]. apply N.mod_lt. discriminate.
Qed.

Lemma NoDup_map_inj_on : forall (A B : Type) (f : A -> B) (l : list A),
  NoDup l -> (forall x y, In x l -> In y l -> f x = f y -> x = y) -> NoDup (map f l).
Proof.
  induction l as [|a l IH]; intros ND Inj; cbn [map]; [constructor|].
  inversion ND as [|? ? NI ND']; subst. constructor.
  - intros H. apply in_map_iff in H. destruct H as [y [E Hy]].
    assert (y = a) by (apply Inj; [now right|now left|exact E]). subst. contradiction.
  - apply IH; [assumption|]. intros x y Hx Hy. apply Inj; now right.
Qed.

Lemma cands_nodup : forall fuel cand, N.of_nat fuel <= w32 -> NoDup (cands fuel cand).
Proof.
  intros fuel cand Hf. unfold cands. apply NoDup_map_inj_on; [apply seq_NoDup|].
  intros x y Hx Hy E. apply in_seq in Hx. apply in_seq in Hy.
  unfold w32 in *. lia.
Qed.

Lemma cands_length : forall fuel cand, length (cands fuel cand) = fuel.
Proof. intros. unfold cands. now rewrite map_length, seq_length. Qed.

Lemma next_free_some : forall fuel cand m,
  cand < w32 -> N.of_nat fuel <= w32 -> (length m < fuel)%nat ->
  exists i, next_free fuel cand m = Some i.
Proof.
  intros fuel cand m Hc Hf Hl.
  destruct (next_free fuel cand m) eqn:E; [eauto|]. exfalso.
  pose proof (next_free_none_all_taken fuel cand m Hc E) as Hall.
  pose proof (NoDup_incl_length (cands_nodup fuel cand Hf) Hall) as L.
  rewrite cands_length, map_length in L. lia.
Qed.

Lemma next_free_spec : forall fuel cand m i,
  cand < w32 -> next_free fuel cand m = Some i -> ids_get i m = None /\ i < w32.
Proof.
  induction fuel as [|f IH]; intros cand m i Hc H; cbn [next_free] in H; [discriminate|].
  destruct (ids_get cand m) eqn:G.
  - eapply IH; [|exact H]. apply N.mod_lt. discriminate.
  - inversion H; subst. auto.
Qed.
