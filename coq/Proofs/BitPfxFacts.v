(* C01: facts about prefixes as bit strings (Lib/BitPfx.v). *)
From Coq Require Import List Bool Arith Lia.
From BioVerif Require Import Lib.BitPfx.
Import ListNotations.

Lemma beq_refl : forall a, beq a a = true.
Proof.
  induction a as [|x a IH]; simpl; auto.
  rewrite IH, Bool.eqb_reflx. reflexivity.
Qed.

Lemma beq_eq : forall a b, beq a b = true -> a = b.
Proof.
  induction a as [|x a IH]; intros [|y b] H; simpl in H; try discriminate; auto.
  apply andb_true_iff in H. destruct H as [H1 H2].
  apply Bool.eqb_prop in H1. subst. f_equal. auto.
Qed.

Lemma beq_true_iff : forall a b, beq a b = true <-> a = b.
Proof. split; [apply beq_eq | intros ->; apply beq_refl]. Qed.

Lemma beq_false_iff : forall a b, beq a b = false <-> a <> b.
Proof.
  intros a b. split.
  - intros H E. subst. rewrite beq_refl in H. discriminate.
  - intros H. destruct (beq a b) eqn:E; auto. apply beq_eq in E. contradiction.
Qed.

Lemma beq_sym : forall a b, beq a b = beq b a.
Proof.
  intros a b. destruct (beq a b) eqn:E.
  - apply beq_eq in E. subst. symmetry. apply beq_refl.
  - symmetry. apply beq_false_iff. apply beq_false_iff in E. congruence.
Qed.

Lemma is_pre_app : forall s t, is_pre s (s ++ t) = true.
Proof.
  induction s as [|x s IH]; intros t; simpl; auto.
  rewrite Bool.eqb_reflx, IH. reflexivity.
Qed.

Lemma is_pre_refl : forall s, is_pre s s = true.
Proof. intros s. rewrite <- (app_nil_r s) at 2. apply is_pre_app. Qed.

Lemma is_pre_split : forall s p, is_pre s p = true -> exists t, p = s ++ t.
Proof.
  induction s as [|x s IH]; intros p H.
  - exists p. reflexivity.
  - destruct p as [|y p]; simpl in H; try discriminate.
    apply andb_true_iff in H. destruct H as [H1 H2].
    apply Bool.eqb_prop in H1. subst.
    destruct (IH _ H2) as [t ->]. exists t. reflexivity.
Qed.

Lemma is_pre_iff : forall s p, is_pre s p = true <-> exists t, p = s ++ t.
Proof.
  intros s p. split.
  - apply is_pre_split.
  - intros [t ->]. apply is_pre_app.
Qed.

Lemma is_pre_length : forall s p, is_pre s p = true -> length s <= length p.
Proof.
  intros s p H. apply is_pre_split in H. destruct H as [t ->].
  rewrite app_length. lia.
Qed.

Lemma is_pre_trans : forall a b c, is_pre a b = true -> is_pre b c = true -> is_pre a c = true.
Proof.
  intros a b c H1 H2. apply is_pre_split in H1. apply is_pre_split in H2.
  destruct H1 as [t ->]. destruct H2 as [u ->].
  rewrite <- app_assoc. apply is_pre_app.
Qed.

Lemma is_pre_len_eq : forall s p, is_pre s p = true -> length p <= length s -> s = p.
Proof.
  intros s p H L. apply is_pre_split in H. destruct H as [t ->].
  rewrite app_length in L. destruct t; [rewrite app_nil_r; reflexivity | simpl in L; lia].
Qed.

Lemma is_pre_antisym : forall a b, is_pre a b = true -> is_pre b a = true -> a = b.
Proof.
  intros a b H1 H2. apply is_pre_len_eq; auto. apply is_pre_length; auto.
Qed.

Lemma is_pre_snoc_l : forall s b p, is_pre (s ++ [b]) p = true -> is_pre s p = true.
Proof.
  intros s b p H. eapply is_pre_trans; [|exact H]. apply is_pre_app.
Qed.

(* two prefixes of the same string are comparable *)
Lemma is_pre_comparable : forall a b x,
  is_pre a x = true -> is_pre b x = true -> is_pre a b = true \/ is_pre b a = true.
Proof.
  induction a as [|u a IH]; intros b x Ha Hb.
  - left. reflexivity.
  - destruct b as [|v b]; [right; reflexivity|].
    destruct x as [|w x]; simpl in Ha, Hb; try discriminate.
    apply andb_true_iff in Ha. destruct Ha as [Ha1 Ha2].
    apply andb_true_iff in Hb. destruct Hb as [Hb1 Hb2].
    apply Bool.eqb_prop in Ha1. apply Bool.eqb_prop in Hb1. subst.
    simpl. rewrite Bool.eqb_reflx. simpl. eapply IH; eauto.
Qed.

Lemma bcontains_iff : forall p x, bcontains p x = true <-> is_pre p x = true /\ p <> x.
Proof.
  intros p x. unfold bcontains. rewrite andb_true_iff, Nat.ltb_lt. split.
  - intros [L H]. split; auto. intros E. subst. lia.
  - intros [H N]. split; auto.
    pose proof (is_pre_length _ _ H) as L.
    destruct (Nat.eq_dec (length p) (length x)) as [E|E]; [|lia].
    exfalso. apply N. apply is_pre_len_eq; auto. lia.
Qed.

Lemma bcontains_false_iff : forall p x, bcontains p x = false <-> (is_pre p x = false \/ p = x).
Proof.
  intros p x. split.
  - intros H. destruct (is_pre p x) eqn:E; auto. right.
    destruct (beq p x) eqn:B; [apply beq_eq; auto|].
    apply beq_false_iff in B.
    assert (bcontains p x = true) by (apply bcontains_iff; auto). congruence.
  - intros [H|H].
    + unfold bcontains. rewrite H. apply andb_false_r.
    + subst. unfold bcontains. rewrite Nat.ltb_irrefl. reflexivity.
Qed.

Lemma bitAt_app : forall s b t, bitAt (s ++ b :: t) (length s + 1) = b.
Proof.
  intros s b t. rewrite Nat.add_1_r. simpl.
  rewrite app_nth2 by lia. rewrite Nat.sub_diag. reflexivity.
Qed.

(* a proper extension of s continues with its bit at position |s|+1 *)
Lemma is_pre_snoc : forall s p,
  is_pre s p = true -> s <> p -> is_pre (s ++ [bitAt p (length s + 1)]) p = true.
Proof.
  intros s p H N. apply is_pre_split in H. destruct H as [t ->].
  destruct t as [|b t]; [rewrite app_nil_r in N; contradiction|].
  rewrite bitAt_app.
  replace (s ++ b :: t) with ((s ++ [b]) ++ t) by (rewrite <- app_assoc; reflexivity).
  apply is_pre_app.
Qed.

Lemma is_pre_snoc_inv : forall s b p,
  is_pre (s ++ [b]) p = true -> is_pre s p = true /\ s <> p /\ bitAt p (length s + 1) = b.
Proof.
  intros s b p H. apply is_pre_split in H. destruct H as [t ->].
  rewrite <- app_assoc. simpl. split; [apply is_pre_app|]. split.
  - intros E. apply (f_equal (@length bool)) in E. rewrite app_length in E. simpl in E. lia.
  - apply bitAt_app.
Qed.

Lemma is_pre_snoc_other : forall s b p,
  is_pre (s ++ [b]) p = true -> is_pre (s ++ [negb b]) p = false.
Proof.
  intros s b p H. destruct (is_pre (s ++ [negb b]) p) eqn:E; auto.
  apply is_pre_snoc_inv in H. apply is_pre_snoc_inv in E.
  destruct H as (_ & _ & H). destruct E as (_ & _ & E).
  rewrite H in E. destruct b; discriminate.
Qed.

Lemma is_pre_snoc_bit : forall s p b,
  is_pre s p = true -> s <> p -> bitAt p (length s + 1) = b -> is_pre (s ++ [b]) p = true.
Proof. intros s p b H N <-. apply is_pre_snoc; auto. Qed.

Lemma is_pre_snoc_wrongbit : forall s p b,
  bitAt p (length s + 1) = negb b -> is_pre (s ++ [b]) p = false.
Proof.
  intros s p b Hb. destruct (is_pre (s ++ [b]) p) eqn:E; auto.
  apply is_pre_snoc_inv in E. destruct E as (_ & _ & E). rewrite E in Hb.
  destruct b; discriminate.
Qed.

(* nothing is both an extension of s++[b] and a prefix of s *)
Lemma is_pre_snoc_back : forall s b k, is_pre (s ++ [b]) k = true -> is_pre k s = true -> False.
Proof.
  intros s b k H1 H2. apply is_pre_length in H1. apply is_pre_length in H2.
  rewrite app_length in H1. simpl in H1. lia.
Qed.

(* ---- longest common prefix *)
Lemma lcp_pre_l : forall a b, is_pre (lcp a b) a = true.
Proof.
  induction a as [|x a IH]; intros [|y b]; simpl; auto.
  destruct (Bool.eqb x y) eqn:E; simpl; auto.
  rewrite Bool.eqb_reflx. simpl. apply IH.
Qed.

Lemma lcp_pre_r : forall a b, is_pre (lcp a b) b = true.
Proof.
  induction a as [|x a IH]; intros [|y b]; simpl; auto.
  destruct (Bool.eqb x y) eqn:E; simpl; auto.
  rewrite E. simpl. apply IH.
Qed.

Lemma lcp_greatest : forall s a b,
  is_pre s a = true -> is_pre s b = true -> is_pre s (lcp a b) = true.
Proof.
  induction s as [|u s IH]; intros a b Ha Hb; auto.
  destruct a as [|x a]; destruct b as [|y b]; simpl in Ha, Hb; try discriminate.
  apply andb_true_iff in Ha. destruct Ha as [Ha1 Ha2].
  apply andb_true_iff in Hb. destruct Hb as [Hb1 Hb2].
  apply Bool.eqb_prop in Ha1. apply Bool.eqb_prop in Hb1. subst.
  simpl. rewrite Bool.eqb_reflx. simpl. rewrite Bool.eqb_reflx. simpl. auto.
Qed.

(* where two incomparable strings part, their next bits differ *)
Lemma lcp_diverge : forall a b,
  is_pre a b = false -> is_pre b a = false ->
  lcp a b <> a /\ lcp a b <> b /\
  bitAt a (length (lcp a b) + 1) = negb (bitAt b (length (lcp a b) + 1)).
Proof.
  induction a as [|x a IH]; intros b Hab Hba; [discriminate|].
  destruct b as [|y b]; [discriminate|].
  simpl in Hab, Hba. simpl.
  destruct (Bool.eqb x y) eqn:E.
  - apply Bool.eqb_prop in E. subst y. rewrite Bool.eqb_reflx in Hba. simpl in Hab, Hba.
    destruct (IH b Hab Hba) as (N1 & N2 & B).
    split; [congruence|]. split; [congruence|].
    simpl length. rewrite Nat.add_1_r in *. simpl. simpl in B. exact B.
  - split; [discriminate|]. split; [discriminate|].
    simpl. destruct x, y; simpl in E; try discriminate; reflexivity.
Qed.
