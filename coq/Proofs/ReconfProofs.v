(* C36 - proofs: every reload installs exactly the sessions the new configuration asks for,
   hence the same sessions as a fresh start with that configuration. *)
From Coq Require Import List NArith PArith Bool Lia.
Import ListNotations.
From BioVerif Require Import Model.Reconf Spec.ReconfSpec.
Local Open Scope N_scope.

(* ------------------------------------------------------------------ equality tests *)

Lemma addr_eqb_eq : forall a b, addr_eqb a b = true <-> a = b.
Proof.
  intros [v1 i1] [v2 i2]; unfold addr_eqb; cbn [a_v4 a_id].
  rewrite andb_true_iff, eqb_true_iff, N.eqb_eq.
  split.
  - intros [H1 H2]; subst; reflexivity.
  - intros H; inversion H; auto.
Qed.

Lemma vrf_eqb_eq : forall a b, vrf_eqb a b = true <-> a = b.
Proof.
  intros [|n r] [|n' r']; cbn [vrf_eqb]; try (split; [discriminate | discriminate]).
  - split; auto.
  - rewrite andb_true_iff, Pos.eqb_eq, N.eqb_eq.
    split.
    + intros [H1 H2]; subst; reflexivity.
    + intros H; inversion H; auto.
Qed.

Lemma key_eqb_eq : forall a b, key_eqb a b = true <-> a = b.
Proof.
  intros [v1 a1] [v2 a2]; unfold key_eqb; cbn [fst snd].
  rewrite andb_true_iff, vrf_eqb_eq, addr_eqb_eq.
  split.
  - intros [H1 H2]; subst; reflexivity.
  - intros H; inversion H; auto.
Qed.

Lemma key_eqb_refl : forall k, key_eqb k k = true.
Proof. intros k; apply key_eqb_eq; reflexivity. Qed.

Lemma key_eqb_neq : forall a b, key_eqb a b = false <-> a <> b.
Proof.
  intros a b; split.
  - intros H E; apply key_eqb_eq in E; congruence.
  - intros H; destruct (key_eqb a b) eqn:E; auto. apply key_eqb_eq in E; contradiction.
Qed.

Lemma key_eqb_sym : forall a b, key_eqb a b = key_eqb b a.
Proof.
  intros a b; destruct (key_eqb a b) eqn:E.
  - apply key_eqb_eq in E; subst; symmetry; apply key_eqb_refl.
  - symmetry; apply key_eqb_neq; apply key_eqb_neq in E; congruence.
Qed.

Lemma afset_eqb_eq : forall a b, afset_eqb a b = true <-> a = b.
Proof.
  intros [a1 a2 a3 a4] [b1 b2 b3 b4]; unfold afset_eqb; cbn [as_aprx as_best as_max as_nhx].
  rewrite !andb_true_iff, !eqb_true_iff, N.eqb_eq.
  split.
  - intros [[[H1 H2] H3] H4]; subst; reflexivity.
  - intros H; inversion H; auto.
Qed.

Lemma opt_eqb_eq : forall A (e : A -> A -> bool),
  (forall x y, e x y = true <-> x = y) ->
  forall a b, opt_eqb e a b = true <-> a = b.
Proof.
  intros A e He [x|] [y|]; cbn [opt_eqb].
  - rewrite He; split; [intros; subst; reflexivity | intros H; inversion H; auto].
  - split; discriminate.
  - split; discriminate.
  - split; auto.
Qed.

(* ------------------------------------------------------------------ the peer map *)

Lemma lookup_remove_same : forall k l, lookup k (remove k l) = None.
Proof.
  intros k l; induction l as [|[k' p] r IH]; cbn [remove filter lookup fst]; auto.
  destruct (key_eqb k' k) eqn:E; cbn [negb lookup].
  - exact IH.
  - rewrite E; exact IH.
Qed.

Lemma lookup_remove_other : forall k k' l, key_eqb k k' = false -> lookup k' (remove k l) = lookup k' l.
Proof.
  intros k k' l Hne; induction l as [|[k0 p] r IH]; cbn [remove filter lookup fst]; auto.
  destruct (key_eqb k0 k) eqn:E; cbn [negb lookup].
  - apply key_eqb_eq in E; subst k0. rewrite Hne. exact IH.
  - destruct (key_eqb k0 k'); auto.
Qed.

Lemma lookup_set : forall k p l k',
  lookup k' ((k, p) :: remove k l) = if key_eqb k k' then Some p else lookup k' l.
Proof.
  intros k p l k'; cbn [lookup].
  destruct (key_eqb k k') eqn:E; auto.
  apply lookup_remove_other; exact E.
Qed.

Lemma lookup_filter_key : forall (f : key -> bool) k l,
  lookup k (filter (fun e => f (fst e)) l) = if f k then lookup k l else None.
Proof.
  intros f k l; induction l as [|[k' p] r IH]; cbn [filter lookup fst].
  - destruct (f k); reflexivity.
  - destruct (f k') eqn:Fk'; cbn [lookup].
    + destruct (key_eqb k' k) eqn:E.
      * apply key_eqb_eq in E; subst k'. rewrite Fk'. reflexivity.
      * exact IH.
    + destruct (key_eqb k' k) eqn:E.
      * apply key_eqb_eq in E; subst k'. rewrite Fk' in IH |- *. exact IH.
      * exact IH.
Qed.

Lemma lookup_in : forall k p l, lookup k l = Some p -> In (k, p) l.
Proof.
  intros k p l; induction l as [|[k' p'] r IH]; cbn [lookup]; try discriminate.
  destruct (key_eqb k' k) eqn:E.
  - intros H; inversion H; subst. apply key_eqb_eq in E; subst. left; reflexivity.
  - intros H; right; auto.
Qed.

Lemma in_lookup : forall k p l, NoDup (map fst l) -> In (k, p) l -> lookup k l = Some p.
Proof.
  intros k p l; induction l as [|[k' p'] r IH]; cbn [map fst lookup]; intros ND Hin.
  - destruct Hin.
  - inversion ND as [|x xs Hnot ND']; subst.
    destruct Hin as [E | Hin].
    + inversion E; subst. rewrite key_eqb_refl. reflexivity.
    + destruct (key_eqb k' k) eqn:E.
      * apply key_eqb_eq in E; subst k'. exfalso; apply Hnot.
        change k with (fst (k, p)). apply in_map. exact Hin.
      * apply IH; assumption.
Qed.

Lemma in_remove : forall k e l, In e (remove k l) -> In e l /\ fst e <> k.
Proof.
  intros k e l H; unfold remove in H; apply filter_In in H; destruct H as [H1 H2].
  split; auto. apply negb_true_iff in H2. apply key_eqb_neq; exact H2.
Qed.

Lemma nodup_filter_fst : forall (f : key * peer -> bool) l,
  NoDup (map fst l) -> NoDup (map fst (filter f l)).
Proof.
  intros f l; induction l as [|[k p] r IH]; cbn [filter map fst]; intros ND; auto.
  inversion ND as [|x xs Hnot ND']; subst.
  destruct (f (k, p)); cbn [map fst]; auto.
  constructor; auto.
  intros Hin; apply Hnot. apply in_map_iff in Hin. destruct Hin as [e [E Hin]].
  apply filter_In in Hin. destruct Hin as [Hin _]. apply in_map_iff. exists e; auto.
Qed.

Lemma nodup_set : forall k p l, NoDup (map fst l) -> NoDup (map fst ((k, p) :: remove k l)).
Proof.
  intros k p l ND; cbn [map fst]. constructor.
  - intros Hin. apply in_map_iff in Hin. destruct Hin as [e [E Hin]].
    apply in_remove in Hin. destruct Hin as [_ Hne]. contradiction.
  - apply nodup_filter_fst; exact ND.
Qed.

(* ------------------------------------------------------------------ well-formed daemon states *)

(* every peer of the map is what newPeer builds from its stored configuration, is stored under
   the key of that configuration and has a local address (AddPeer needs one) *)
Definition peer_ok (k : key) (p : peer) : Prop :=
  p = new_peer (p_cfg p) /\ (pc_vrf (p_cfg p), pc_addr (p_cfg p)) = k /\ pc_local (p_cfg p) <> None.

Definition wf (s : state) : Prop :=
  NoDup (map fst (s_peers s)) /\ forall k p, In (k, p) (s_peers s) -> peer_ok k p.

Lemma wf_init : forall rid, wf (init rid).
Proof. intros rid; split; cbn; [constructor | intros k p []]. Qed.

Lemma wf_set : forall s k p, wf s -> peer_ok k p -> wf (with_peers s ((k, p) :: remove k (s_peers s))).
Proof.
  intros s k p [ND Hall] Hok; split; cbn [with_peers s_peers].
  - apply nodup_set; exact ND.
  - intros k' p' [E | Hin].
    + inversion E; subst; exact Hok.
    + apply in_remove in Hin. destruct Hin as [Hin _]. apply Hall; exact Hin.
Qed.

Lemma wf_filter : forall s f, wf s -> wf (with_peers s (filter f (s_peers s))).
Proof.
  intros s f [ND Hall]; split; cbn [with_peers s_peers].
  - apply nodup_filter_fst; exact ND.
  - intros k p Hin. apply filter_In in Hin. destruct Hin as [Hin _]. apply Hall; exact Hin.
Qed.

(* ------------------------------------------------------------------ in-place reconfiguration is exact *)

Lemma needs_restart_false : forall a b,
  needs_restart a b = false -> pc_addr a = pc_addr b ->
  b = set_export (set_import a (pc_import b)) (pc_export b).
Proof.
  intros a b H Haddr. unfold needs_restart in H.
  repeat (apply orb_false_elim in H; let H' := fresh "E" in destruct H as [H H']).
  repeat match goal with
         | X : negb _ = false |- _ => apply negb_false_iff in X
         end.
  repeat match goal with
         | X : N.eqb _ _ = true |- _ => apply N.eqb_eq in X
         | X : Bool.eqb _ _ = true |- _ => apply eqb_prop in X
         | X : vrf_eqb _ _ = true |- _ => apply vrf_eqb_eq in X
         | X : opt_eqb addr_eqb _ _ = true |- _ => apply (opt_eqb_eq _ _ addr_eqb_eq) in X
         | X : opt_eqb afset_eqb _ _ = true |- _ => apply (opt_eqb_eq _ _ afset_eqb_eq) in X
         end.
  destruct a, b; unfold set_export, set_import; cbn in *.
  subst. reflexivity.
Qed.

Lemma needs_restart_local : forall a b,
  needs_restart a b = false -> pc_local a = pc_local b.
Proof.
  intros a b H. unfold needs_restart in H.
  repeat (apply orb_false_elim in H; let H' := fresh "E" in destruct H as [H H']).
  match goal with
  | X : negb (opt_eqb addr_eqb _ _) = false |- _ =>
    apply negb_false_iff in X; apply (opt_eqb_eq _ _ addr_eqb_eq) in X; exact X
  end.
Qed.

Lemma replace_import_new : forall c ci, replace_import (new_peer c) ci = new_peer (set_import c ci).
Proof.
  intros c ci. unfold replace_import, new_peer, with_cfg_chains, set_import, caps_of; cbn.
  destruct (pc_passive c); reflexivity.
Qed.

Lemma replace_export_new : forall c ce, replace_export (new_peer c) ce = new_peer (set_export c ce).
Proof.
  intros c ce. unfold replace_export, new_peer, with_cfg_chains, set_export, caps_of; cbn.
  destruct (pc_passive c); reflexivity.
Qed.

(* ------------------------------------------------------------------ one neighbor *)

Lemma srv_replace_ok : forall f s k c p, lookup k (s_peers s) = Some p ->
  srv_replace f s k c = Ok (with_peers s ((k, f p c) :: remove k (s_peers s))).
Proof. intros f s k c p H; unfold srv_replace; rewrite H; reflexivity. Qed.

Definition target (rid : N) (v : vrf) (n : lneighbor) : peer := new_peer (new_peer_config rid v n).

Lemma target_ok : forall rid v n, ln_local n <> None -> peer_ok (v, ln_addr n) (target rid v n).
Proof.
  intros rid v n Hl; unfold peer_ok, target; cbn [new_peer p_cfg new_peer_config pc_vrf pc_addr pc_local].
  repeat split; auto.
Qed.

(* configureSession, completely: unknown VRF -> error and nothing changed; no local address ->
   panic; otherwise the key of the neighbor holds exactly the peer a fresh AddPeer would build
   and nothing else changed *)
Lemma session_cases : forall s n, wf s ->
  match determine_vrf (s_vrfs s) n with
  | None => configure_session s n = Err s
  | Some v =>
    match ln_local n with
    | None => configure_session s n = Panicked
    | Some _ =>
      exists s', configure_session s n = Ok s' /\ s_rid s' = s_rid s /\ s_vrfs s' = s_vrfs s /\ wf s' /\
                 forall k, lookup k (s_peers s') =
                           if key_eqb (v, ln_addr n) k then Some (target (s_rid s) v n)
                           else lookup k (s_peers s)
    end
  end.
Proof.
  intros s n Hwf. unfold configure_session.
  destruct (determine_vrf (s_vrfs s) n) as [v|] eqn:Dv; [|reflexivity].
  set (newc := new_peer_config (s_rid s) v n).
  unfold get_peer_config.
  destruct (lookup (v, ln_addr n) (s_peers s)) as [p|] eqn:Lk; cbn [option_map].
  - (* the peer exists *)
    pose proof (lookup_in _ _ _ Lk) as Hin.
    destruct Hwf as [ND Hall]. pose proof (Hall _ _ Hin) as [Hnew [Hkey Hloc]].
    assert (Hwf : wf s) by (split; assumption).
    unfold reconfigure_modified.
    destruct (needs_restart (p_cfg p) newc) eqn:NR.
    + (* replaceSession *)
      rewrite Hkey. unfold add_peer, dispose_peer. cbn [with_peers s_peers s_rid s_vrfs].
      subst newc. cbn [new_peer_config pc_local pc_vrf pc_addr].
      destruct (ln_local n) as [la|] eqn:Ll; [|reflexivity].
      eexists; split; [reflexivity|]. cbn [with_peers s_peers s_rid s_vrfs].
      refine (conj eq_refl (conj eq_refl (conj (conj _ _) _))).
      * apply nodup_set. apply nodup_filter_fst. exact ND.
      * intros k' p' [E | Hin'].
        -- inversion E; subst. apply target_ok. rewrite Ll; discriminate.
        -- apply in_remove in Hin'. destruct Hin' as [Hin' _].
           apply in_remove in Hin'. destruct Hin' as [Hin' _]. apply Hall; exact Hin'.
      * intros k. rewrite lookup_set. destruct (key_eqb (v, ln_addr n) k) eqn:E; [reflexivity|].
        apply lookup_remove_other; exact E.
    + (* in place *)
      pose proof (needs_restart_local _ _ NR) as Hl. subst newc.
      cbn [new_peer_config pc_local] in Hl.
      destruct (ln_local n) as [la|] eqn:Ll; [|rewrite <- Hl in Ll; contradiction].
      cbn [new_peer_config pc_vrf].
      rewrite (srv_replace_ok replace_import s (v, ln_addr n) (ln_import n) p Lk).
      rewrite (srv_replace_ok replace_export _ (v, ln_addr n) (ln_export n)
                              (replace_import p (ln_import n)))
        by (cbn [with_peers s_peers lookup]; rewrite key_eqb_refl; reflexivity).
      eexists; split; [reflexivity|]. cbn [with_peers s_peers s_rid s_vrfs].
      assert (Hp : replace_export (replace_import p (ln_import n)) (ln_export n) = target (s_rid s) v n).
      { rewrite Hnew. rewrite replace_import_new, replace_export_new. unfold target. f_equal.
        assert (Ha : pc_addr (p_cfg p) = pc_addr (new_peer_config (s_rid s) v n)).
        { cbn [new_peer_config pc_addr]. inversion Hkey; reflexivity. }
        pose proof (needs_restart_false _ _ NR Ha) as Hb.
        cbn [new_peer_config pc_import pc_export] in Hb. congruence. }
      rewrite Hp.
      refine (conj eq_refl (conj eq_refl (conj (conj _ _) _))).
      * apply nodup_set. apply nodup_set. exact ND.
      * intros k' p' [E | Hin'].
        -- inversion E; subst. apply target_ok. rewrite Ll; discriminate.
        -- apply in_remove in Hin'. destruct Hin' as [Hin' Hne].
           destruct Hin' as [E | Hin'].
           ++ inversion E; subst. cbn [fst] in Hne. contradiction.
           ++ apply in_remove in Hin'. destruct Hin' as [Hin' _]. apply Hall; exact Hin'.
      * intros k. rewrite lookup_set. destruct (key_eqb (v, ln_addr n) k) eqn:E; [reflexivity|].
        rewrite lookup_set. rewrite E. reflexivity.
  - (* new peer *)
    unfold add_peer. subst newc. cbn [new_peer_config pc_local pc_vrf pc_addr].
    destruct (ln_local n) as [la|] eqn:Ll; [|reflexivity].
    eexists; split; [reflexivity|]. cbn [with_peers s_peers s_rid s_vrfs].
    refine (conj eq_refl (conj eq_refl (conj (conj _ _) _))).
    + apply nodup_set. destruct Hwf; assumption.
    + intros k' p' [E | Hin'].
      * inversion E; subst. apply target_ok. rewrite Ll; discriminate.
      * apply in_remove in Hin'. destruct Hin' as [Hin' _]. destruct Hwf as [_ Hall]. apply Hall; exact Hin'.
    + intros k. apply lookup_set.
Qed.

(* ------------------------------------------------------------------ all neighbors *)

Definition resolvable (vs : list (positive * N)) (n : lneighbor) : Prop :=
  (exists v, determine_vrf vs n = Some v) /\ ln_local n <> None.

Definition overlay (w : option peer) (base : option peer) : option peer :=
  match w with Some p => Some p | None => base end.

Lemma sessions_ok : forall ns s, wf s -> Forall (resolvable (s_vrfs s)) ns ->
  exists s', configure_sessions s ns = Ok s' /\ s_rid s' = s_rid s /\ s_vrfs s' = s_vrfs s /\ wf s' /\
             forall k, lookup k (s_peers s') = overlay (wanted (s_rid s) (s_vrfs s) ns k) (lookup k (s_peers s)).
Proof.
  induction ns as [|n r IH]; intros s Hwf Hall; cbn [configure_sessions wanted].
  - exists s. refine (conj eq_refl (conj eq_refl (conj eq_refl (conj Hwf _)))). intros k; reflexivity.
  - inversion Hall as [|x xs [[v Dv] Hl] Hrest]; subst.
    pose proof (session_cases s n Hwf) as Hc. rewrite Dv in Hc.
    destruct (ln_local n) as [la|] eqn:Ll; [|contradiction].
    destruct Hc as [s1 [Hcs [Hrid [Hvs [Hwf1 Hlk]]]]].
    rewrite Hcs.
    assert (Hrest1 : Forall (resolvable (s_vrfs s1)) r) by (rewrite Hvs; exact Hrest).
    destruct (IH s1 Hwf1 Hrest1) as [s' [Hcs' [Hrid' [Hvs' [Hwf' Hlk']]]]].
    exists s'. refine (conj Hcs' (conj _ (conj _ (conj Hwf' _)))); try congruence.
    intros k. rewrite Hlk'. rewrite Hrid, Hvs. rewrite Dv.
    destruct (wanted (s_rid s) (s_vrfs s) r k) as [p|]; cbn [overlay]; [reflexivity|].
    rewrite Hlk. unfold target. destruct (key_eqb (v, ln_addr n) k); reflexivity.
Qed.

(* conversely, a run of configureSession over the list that ends without error or panic shows
   that every neighbor was resolvable *)
Lemma sessions_ok_inv : forall ns s s', wf s -> configure_sessions s ns = Ok s' ->
  Forall (resolvable (s_vrfs s)) ns.
Proof.
  induction ns as [|n r IH]; intros s s' Hwf H; cbn [configure_sessions] in H.
  - constructor.
  - pose proof (session_cases s n Hwf) as Hc.
    destruct (determine_vrf (s_vrfs s) n) as [v|] eqn:Dv.
    + destruct (ln_local n) as [la|] eqn:Ll.
      * destruct Hc as [s1 [Hcs [Hrid [Hvs [Hwf1 Hlk]]]]]. rewrite Hcs in H.
        constructor.
        -- split; [exists v; exact Dv | rewrite Ll; discriminate].
        -- rewrite <- Hvs. eapply IH; eauto.
      * rewrite Hc in H. discriminate.
    + rewrite Hc in H. discriminate.
Qed.

(* whatever the outcome, a state handed back by the configurator is well-formed and keeps the
   router id *)
Lemma sessions_wf : forall ns s, wf s ->
  match configure_sessions s ns with
  | Ok s' | Err s' => wf s' /\ s_rid s' = s_rid s /\ s_vrfs s' = s_vrfs s
  | Panicked => True
  end.
Proof.
  induction ns as [|n r IH]; intros s Hwf; cbn [configure_sessions].
  - exact (conj Hwf (conj eq_refl eq_refl)).
  - pose proof (session_cases s n Hwf) as Hc.
    destruct (determine_vrf (s_vrfs s) n) as [v|] eqn:Dv.
    + destruct (ln_local n) as [la|] eqn:Ll.
      * destruct Hc as [s1 [Hcs [Hrid [Hvs [Hwf1 Hlk]]]]]. rewrite Hcs.
        specialize (IH s1 Hwf1). destruct (configure_sessions s1 r) as [s'|s'|]; auto.
        -- destruct IH as [A [B C]]. refine (conj A (conj _ _)); congruence.
        -- destruct IH as [A [B C]]. refine (conj A (conj _ _)); congruence.
      * rewrite Hc. exact I.
    + rewrite Hc. exact (conj Hwf (conj eq_refl eq_refl)).
Qed.

Lemma exists_iff_wanted : forall rid vs ns k,
  peer_exists_in_config vs ns k = is_some (wanted rid vs ns k).
Proof.
  intros rid vs ns k; induction ns as [|n r IH]; cbn [peer_exists_in_config existsb wanted is_some]; auto.
  unfold peer_exists_in_config in IH. rewrite IH.
  destruct (wanted rid vs r k) as [p|]; cbn [is_some].
  - apply orb_true_r.
  - rewrite orb_false_r.
    destruct (determine_vrf vs n) as [v|]; [|reflexivity].
    unfold key_eqb; cbn [fst snd]. destruct k as [kv ka]; cbn [fst snd].
    assert (E : vrf_eqb kv v = vrf_eqb v kv).
    { destruct (vrf_eqb kv v) eqn:E1.
      - apply vrf_eqb_eq in E1; subst. symmetry; apply vrf_eqb_eq; reflexivity.
      - destruct (vrf_eqb v kv) eqn:E2; auto. apply vrf_eqb_eq in E2; subst.
        assert (vrf_eqb kv kv = true) by (apply vrf_eqb_eq; reflexivity). congruence. }
    rewrite E. rewrite andb_comm.
    destruct (vrf_eqb v kv && addr_eqb (ln_addr n) ka); reflexivity.
Qed.

(* bgpConfigurator.configure installs exactly what the neighbor list asks for *)
Lemma configure_installs : forall ns s, wf s -> Forall (resolvable (s_vrfs s)) ns ->
  exists s', configure s ns = Ok s' /\ s_rid s' = s_rid s /\ s_vrfs s' = s_vrfs s /\ wf s' /\
             forall k, lookup k (s_peers s') = wanted (s_rid s) (s_vrfs s) ns k.
Proof.
  intros ns s Hwf Hall. unfold configure.
  destruct (sessions_ok ns s Hwf Hall) as [s1 [Hcs [Hrid [Hvs [Hwf1 Hlk]]]]].
  rewrite Hcs. eexists; split; [reflexivity|].
  unfold deconfigure_removed.
  refine (conj Hrid (conj Hvs (conj (wf_filter s1 _ Hwf1) _))).
  cbn [with_peers s_rid s_vrfs s_peers].
  intros k.
  {
    rewrite (lookup_filter_key (peer_exists_in_config (s_vrfs s1) ns)).
    rewrite (exists_iff_wanted (s_rid s) (s_vrfs s1) ns k). rewrite Hvs. rewrite Hlk.
    destruct (wanted (s_rid s) (s_vrfs s) ns k); reflexivity.
  }
Qed.

Lemma configure_wf : forall ns s, wf s ->
  match configure s ns with
  | Ok s' | Err s' => wf s' /\ s_rid s' = s_rid s
  | Panicked => True
  end.
Proof.
  intros ns s Hwf. unfold configure. pose proof (sessions_wf ns s Hwf) as H.
  destruct (configure_sessions s ns) as [s1|s1|]; auto.
  - destruct H as [A [B C]]. split; [|exact B]. apply wf_filter; exact A.
  - destruct H as [A [B C]]. split; assumption.
Qed.

(* ------------------------------------------------------------------ routing instances *)

Definition set_ri (vs : list (positive * N)) (ri : positive * N) := set_vrf vs (fst ri) (snd ri).

Lemma fold_ri : forall ris s,
  fold_left configure_ri ris s =
  {| s_rid := s_rid s; s_vrfs := fold_left set_ri ris (s_vrfs s); s_peers := s_peers s |}.
Proof.
  induction ris as [|ri r IH]; intros s; cbn [fold_left].
  - destruct s; reflexivity.
  - rewrite IH. reflexivity.
Qed.

Lemma vrf_by_name_set : forall vs n rd m,
  vrf_by_name (set_vrf vs n rd) m = if Pos.eqb n m then Some (VNamed n rd) else vrf_by_name vs m.
Proof.
  induction vs as [|[x r] t IH]; intros n rd m; cbn [set_vrf vrf_by_name].
  - reflexivity.
  - destruct (Pos.eqb x n) eqn:E1; cbn [vrf_by_name].
    + apply Pos.eqb_eq in E1; subst x. destruct (Pos.eqb n m); reflexivity.
    + destruct (Pos.eqb x m) eqn:E2.
      * apply Pos.eqb_eq in E2; subst x. rewrite Pos.eqb_sym in E1. rewrite E1. reflexivity.
      * apply IH.
Qed.

(* the registry of a running daemon resolves every name the registry of a fresh daemon
   resolves after the same routing instances were configured, and to the same VRF *)
Definition resolves_like (fresh_vs vs : list (positive * N)) : Prop :=
  forall m v, vrf_by_name fresh_vs m = Some v -> vrf_by_name vs m = Some v.

Lemma resolves_like_fold : forall ris a b, resolves_like a b ->
  resolves_like (fold_left set_ri ris a) (fold_left set_ri ris b).
Proof.
  induction ris as [|[n rd] r IH]; intros a b H; cbn [fold_left]; auto.
  apply IH. intros m v. unfold set_ri; cbn [fst snd]. rewrite !vrf_by_name_set.
  destruct (Pos.eqb n m); auto.
Qed.

Lemma resolves_like_nil : forall vs, resolves_like [] vs.
Proof. intros vs m v H; discriminate. Qed.

Lemma wanted_ext : forall rid a b ns k,
  Forall (fun n => determine_vrf a n = determine_vrf b n) ns ->
  wanted rid a ns k = wanted rid b ns k.
Proof.
  intros rid a b ns k H; induction H as [|n r Hn Hr IH]; cbn [wanted]; auto.
  rewrite IH, Hn. reflexivity.
Qed.

Lemma resolvable_like : forall a b ns, resolves_like a b ->
  Forall (resolvable a) ns ->
  Forall (resolvable b) ns /\ Forall (fun n => determine_vrf a n = determine_vrf b n) ns.
Proof.
  intros a b ns Hl H; induction H as [|n r [[v Dv] Hloc] Hr [IH1 IH2]]; split; constructor; auto.
  - split; auto. exists v. unfold determine_vrf in *. destruct (ln_ri n); auto.
  - unfold determine_vrf in *. destruct (ln_ri n) as [name|]; auto.
    rewrite Dv. symmetry. apply Hl; exact Dv.
Qed.

(* ------------------------------------------------------------------ one reload *)

Lemma reload_wf : forall s c s', wf s -> state_of (reload s c) = Some s' -> wf s' /\ s_rid s' = s_rid s.
Proof.
  intros s c s' Hwf H. unfold reload in H.
  destruct (load c) as [l|]; cbn [state_of] in H.
  - assert (Hwf0 : wf (fold_left configure_ri (l_ris l) s)).
    { rewrite fold_ri. destruct Hwf as [A B]. split; cbn [s_peers]; assumption. }
    pose proof (configure_wf (l_nbrs l) _ Hwf0) as Hc.
    assert (Hr : s_rid (fold_left configure_ri (l_ris l) s) = s_rid s) by (rewrite fold_ri; reflexivity).
    destruct (configure (fold_left configure_ri (l_ris l) s) (l_nbrs l)) as [s1|s1|];
      cbn [state_of] in H; try discriminate; inversion H; subst; destruct Hc; split; auto; congruence.
  - inversion H; subst; auto.
Qed.

(* the sessions a reload leaves behind are exactly those the new file asks for *)
Lemma reload_installs : forall s c l s', wf s -> load c = Some l -> reload s c = Applied s' ->
  forall k, lookup k (s_peers s') = wanted (s_rid s) (s_vrfs s') (l_nbrs l) k.
Proof.
  intros s c l s' Hwf Hl H k. unfold reload in H. rewrite Hl in H.
  assert (Hwf0 : wf (fold_left configure_ri (l_ris l) s)).
  { rewrite fold_ri. destruct Hwf as [A B]. split; cbn [s_peers]; assumption. }
  destruct (configure (fold_left configure_ri (l_ris l) s) (l_nbrs l)) as [s1|s1|] eqn:Hc; try discriminate.
  inversion H; subst s1.
  unfold configure in Hc.
  destruct (configure_sessions (fold_left configure_ri (l_ris l) s) (l_nbrs l)) as [s2|s2|] eqn:Hcs; try discriminate.
  pose proof (sessions_ok_inv _ _ _ Hwf0 Hcs) as Hres.
  destruct (configure_installs _ _ Hwf0 Hres) as [s3 [Hc3 [Hrid [Hvs [_ Hlk]]]]].
  unfold configure in Hc3. rewrite Hcs in Hc3. rewrite Hc in Hc3. inversion Hc3; subst s3.
  rewrite Hlk. rewrite Hvs. rewrite fold_ri. cbn [s_rid]. reflexivity.
Qed.

(* a reload from any well-formed state of a daemon with the router id of the new file gives the
   sessions of a fresh start *)
Lemma reload_converges_step : forall s c f, wf s -> s_rid s = c_rid c ->
  fresh c = Some (Applied f) ->
  exists s', reload s c = Applied s' /\ same_sessions s' f.
Proof.
  intros s c f Hwf Hrid Hf. unfold fresh, start in Hf.
  destruct (load c) as [l|] eqn:Hl; [|discriminate].
  inversion Hf as [Hf']; clear Hf.
  assert (Hi : wf (init (c_rid c))) by apply wf_init.
  pose proof (reload_installs _ _ _ _ Hi Hl Hf') as Hfk.
  unfold reload in Hf'. rewrite Hl in Hf'.
  set (f0 := fold_left configure_ri (l_ris l) (init (c_rid c))) in *.
  assert (Hwff0 : wf f0).
  { unfold f0. rewrite fold_ri. split; cbn; [constructor | intros k p []]. }
  destruct (configure f0 (l_nbrs l)) as [f1|f1|] eqn:Hc; try discriminate.
  inversion Hf'; subst f1.
  unfold configure in Hc.
  destruct (configure_sessions f0 (l_nbrs l)) as [f2|f2|] eqn:Hcs; try discriminate.
  pose proof (sessions_ok_inv _ _ _ Hwff0 Hcs) as Hresf.
  destruct (configure_installs _ _ Hwff0 Hresf) as [f3 [Hc3 [_ [Hvsf [_ _]]]]].
  unfold configure in Hc3. rewrite Hcs in Hc3. rewrite Hc in Hc3. inversion Hc3; subst f3.
  (* the running daemon *)
  set (s0 := fold_left configure_ri (l_ris l) s).
  assert (Hwf0 : wf s0).
  { unfold s0. rewrite fold_ri. destruct Hwf as [A B]. split; cbn [s_peers]; assumption. }
  assert (Hlike : resolves_like (s_vrfs f0) (s_vrfs s0)).
  { unfold f0, s0. rewrite !fold_ri. cbn [s_vrfs init]. apply resolves_like_fold. apply resolves_like_nil. }
  destruct (resolvable_like _ _ _ Hlike Hresf) as [Hress Hsame].
  destruct (configure_installs _ _ Hwf0 Hress) as [s' [Hcs' [Hrid' [Hvs' [_ Hlk']]]]].
  exists s'. split.
  - unfold reload. rewrite Hl. fold s0. rewrite Hcs'. reflexivity.
  - intros k. rewrite Hlk'. rewrite Hfk.
    rewrite Hvsf.
    assert (Hr0 : s_rid s0 = c_rid c) by (unfold s0; rewrite fold_ri; cbn [s_rid]; exact Hrid).
    rewrite Hr0. cbn [init s_rid].
    symmetry. apply wanted_ext. exact Hsame.
Qed.

(* ------------------------------------------------------------------ daemon lives *)

Lemma reloads_wf : forall cs s s', wf s -> reloads s cs = Some s' -> wf s' /\ s_rid s' = s_rid s.
Proof.
  induction cs as [|c r IH]; intros s s' Hwf H; cbn [reloads] in H.
  - inversion H; subst; auto.
  - destruct (state_of (reload s c)) as [s1|] eqn:E; [|discriminate].
    destruct (reload_wf _ _ _ Hwf E) as [Hwf1 Hrid1].
    destruct (IH _ _ Hwf1 H) as [A B]. split; auto; congruence.
Qed.

Lemma run_wf : forall c cs s, run c cs = Some s -> wf s /\ s_rid s = c_rid c.
Proof.
  intros c cs s H. unfold run, start in H.
  destruct (load c) as [l|] eqn:Hl; [|discriminate].
  destruct (state_of (reload (init (c_rid c)) c)) as [s1|] eqn:E; [|discriminate].
  destruct (reload_wf _ _ _ (wf_init _) E) as [Hwf1 Hrid1].
  destruct (reloads_wf _ _ _ Hwf1 H) as [A B]. split; auto. rewrite B, Hrid1. reflexivity.
Qed.

Theorem reload_converges : forall c1 cs c s f,
  run c1 cs = Some s -> c_rid c = c_rid c1 -> fresh c = Some (Applied f) ->
  exists s', reload s c = Applied s' /\ same_sessions s' f.
Proof.
  intros c1 cs c s f Hrun Hrid Hf.
  destruct (run_wf _ _ _ Hrun) as [Hwf Hr].
  apply reload_converges_step; auto. congruence.
Qed.

(* the same, as sets of (key, peer) pairs *)
Theorem reload_same_set : forall c1 cs c s f,
  run c1 cs = Some s -> c_rid c = c_rid c1 -> fresh c = Some (Applied f) ->
  exists s', reload s c = Applied s' /\
             forall k p, In (k, p) (s_peers s') <-> In (k, p) (s_peers f).
Proof.
  intros c1 cs c s f Hrun Hrid Hf.
  destruct (reload_converges _ _ _ _ _ Hrun Hrid Hf) as [s' [Hr Hsame]].
  exists s'; split; auto.
  destruct (run_wf _ _ _ Hrun) as [Hwf _].
  assert (E : state_of (reload s c) = Some s') by (rewrite Hr; reflexivity).
  destruct (reload_wf _ _ _ Hwf E) as [[ND' _] _].
  assert (Ef : state_of (reload (init (c_rid c)) c) = Some f).
  { unfold fresh, start in Hf. destruct (load c); [|discriminate]. inversion Hf as [Hf']. rewrite Hf'. reflexivity. }
  destruct (reload_wf _ _ _ (wf_init _) Ef) as [[NDf _] _].
  intros k p; split; intros Hin.
  - apply lookup_in. rewrite <- Hsame. apply in_lookup; assumption.
  - apply lookup_in. rewrite Hsame. apply in_lookup; assumption.
Qed.

(* what a reload installs, for a running daemon: removed neighbors are gone, added ones are
   there, every neighbor has the settings of the new file *)
Theorem reload_takes_effect : forall c1 cs c l s s',
  run c1 cs = Some s -> load c = Some l -> reload s c = Applied s' ->
  forall k, lookup k (s_peers s') = wanted (c_rid c1) (s_vrfs s') (l_nbrs l) k.
Proof.
  intros c1 cs c l s s' Hrun Hl Hr k.
  destruct (run_wf _ _ _ Hrun) as [Hwf Hrid].
  rewrite <- Hrid. eapply reload_installs; eauto.
Qed.

(* a reload never fails where a fresh start works (and never panics there) *)
Theorem reload_succeeds : forall c1 cs c s f,
  run c1 cs = Some s -> c_rid c = c_rid c1 -> fresh c = Some (Applied f) ->
  exists s', reload s c = Applied s'.
Proof.
  intros. destruct (reload_converges _ _ _ _ _ H H0 H1) as [s' [A _]]. exists s'; exact A.
Qed.

(* ------------------------------------------------------------------ the router id *)

(* Without the guard on the router id the statement is false: the BGP server keeps the router
   id of the start configuration. *)
Definition ex_nb : neighbor :=
  {| n_addr := {| a_v4 := true; a_id := 2 |}; n_local := None; n_disabled := false; n_ttl := 0;
     n_auth := 0; n_pas := 65200; n_las := 0; n_hold := 0; n_import := []; n_export := [];
     n_rsc := None; n_rrc := None; n_passive := None; n_cluster := None; n_v4 := None; n_v6 := None;
     n_mp4 := false; n_ri := None |}.

Definition ex_group (ns : list neighbor) : group :=
  {| g_local := Some {| a_v4 := true; a_id := 1 |}; g_ttl := 0; g_auth := 0; g_pas := 0; g_las := 0;
     g_hold := 0; g_import := []; g_export := []; g_rsc := None; g_rrc := None; g_passive := None;
     g_cluster := None; g_v4 := None; g_v6 := None; g_ri := None; g_neighbors := ns |}.

Definition ex_cfg (rid : N) : config :=
  {| c_as := 65100; c_rid := rid; c_policies := []; c_ris := []; c_groups := Some [ex_group [ex_nb]] |}.

Theorem reload_converges_any_router_id_refuted :
  ~ (forall c1 cs c s f,
        run c1 cs = Some s -> fresh c = Some (Applied f) ->
        exists s', reload s c = Applied s' /\ same_sessions s' f).
Proof.
  intros H.
  destruct (run (ex_cfg 1) []) as [s|] eqn:Hrun; [|vm_compute in Hrun; discriminate].
  destruct (fresh (ex_cfg 2)) as [[f| | |]|] eqn:Hf; try (vm_compute in Hf; discriminate).
  destruct (H (ex_cfg 1) [] (ex_cfg 2) s f Hrun Hf) as [s' [Hr Hsame]].
  vm_compute in Hrun. inversion Hrun; subst s. clear Hrun.
  vm_compute in Hf. inversion Hf; subst f. clear Hf.
  vm_compute in Hr. inversion Hr; subst s'. clear Hr.
  specialize (Hsame (VDefault, {| a_v4 := true; a_id := 2 |})).
  vm_compute in Hsame. discriminate.
Qed.
