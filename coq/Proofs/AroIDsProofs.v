(* C11: on an add-path session the Adj-RIB-Out model keeps table, path-id manager and the log of
   client calls consistent, for every history of AddPath / RemovePath / ReplaceFilterChain calls,
   every session kind and every export policy. *)
From Coq Require Import List NArith Bool Lia ZArith Permutation.
From Coq Require Import ZifyBool ZifyNat ZifyN.
Import ListNotations.
From BioVerif Require Import Model.PathIDs Model.AdjRIBOut Proofs.PathIDsProofs Proofs.PathIDsInv.
Local Open Scope N_scope.

(* ---------------------------------------------------------------- reflexivity of Compare *)

Lemma list_eqb_refl : forall (A : Type) (eqb : A -> A -> bool),
  (forall x, eqb x x = true) -> forall l, list_eqb eqb l l = true.
Proof. intros A eqb R. induction l as [|x l IH]; cbn [list_eqb]; [reflexivity|]. now rewrite R, IH. Qed.

Lemma opt_eqb_refl : forall (A : Type) (eqb : A -> A -> bool),
  (forall x, eqb x x = true) -> forall o, opt_eqb eqb o o = true.
Proof. intros A eqb R [x|]; cbn [opt_eqb]; auto. Qed.

Lemma pair_eqb_refl : forall x, pair_eqb x x = true.
Proof. intros [a b]. unfold pair_eqb. cbn [fst snd]. now rewrite !N.eqb_refl. Qed.

Lemma lc_eqb_refl : forall x, lc_eqb x x = true.
Proof. intros [[a b] c]. unfold lc_eqb. cbn [fst snd]. now rewrite pair_eqb_refl, N.eqb_refl. Qed.

Lemma seg_eqb_refl : forall x, seg_eqb x x = true.
Proof.
  intros [q l]. unfold seg_eqb. cbn [fst snd].
  rewrite Bool.eqb_reflx, (list_eqb_refl N N.eqb N.eqb_refl). reflexivity.
Qed.

Lemma unk_eqb_refl : forall x, unk_eqb x x = true.
Proof.
  intros [f c v]. unfold unk_eqb. cbn [u_flags u_code u_val].
  now rewrite !N.eqb_refl, (list_eqb_refl N N.eqb N.eqb_refl).
Qed.

Lemma bgp_compare_refl : forall b, bgp_compare b b = true.
Proof.
  intros b. unfold bgp_compare.
  rewrite !N.eqb_refl, !Bool.eqb_reflx.
  rewrite (opt_eqb_refl _ pair_eqb pair_eqb_refl).
  rewrite (list_eqb_refl _ seg_eqb seg_eqb_refl).
  rewrite !(opt_eqb_refl _ (list_eqb N.eqb) (list_eqb_refl N N.eqb N.eqb_refl)).
  rewrite (opt_eqb_refl _ (list_eqb lc_eqb) (list_eqb_refl _ lc_eqb lc_eqb_refl)).
  rewrite (list_eqb_refl _ unk_eqb unk_eqb_refl).
  reflexivity.
Qed.

Lemma bgp_compare_pid : forall a b, bgp_compare a b = true -> b_pid a = b_pid b.
Proof.
  intros a b H. unfold bgp_compare in H.
  repeat (apply andb_prop in H; destruct H as [H ?]).
  now apply N.eqb_eq in H.
Qed.

Lemma hkey_set_pid : forall i b, hkey_of (set_pid i b) = hkey_of b.
Proof. reflexivity. Qed.

(* ---------------------------------------------------------------- table facts *)

Definition has_key (k : hkey) (e : N * path) : bool :=
  match path_hkey (snd e) with
  | Some k' => if hkey_eq_dec k' k then true else false
  | None => false
  end.

Definition count (k : hkey) (t : list (N * path)) : nat := length (filter (has_key k) t).

Lemma count_app : forall k t1 t2, count k (t1 ++ t2) = (count k t1 + count k t2)%nat.
Proof. intros. unfold count. now rewrite filter_app, app_length. Qed.

Lemma count_cons : forall k e t, count k (e :: t) = ((if has_key k e then 1 else 0) + count k t)%nat.
Proof. intros. unfold count. cbn [filter]. destruct (has_key k e); reflexivity. Qed.

Lemma in_tbl_get : forall pfx p t, In p (tbl_get pfx t) <-> In (pfx, p) t.
Proof.
  intros pfx p t. unfold tbl_get. rewrite in_map_iff. split.
  - intros [[k x] [E H]]. cbn [snd] in E. subst x. apply filter_In in H. destruct H as [H F].
    cbn [fst] in F. apply N.eqb_eq in F. now subst.
  - intros H. exists (pfx, p). split; [reflexivity|]. apply filter_In. split; [assumption|].
    cbn [fst]. apply N.eqb_refl.
Qed.

Lemma tbl_remove_first_split : forall pfx sp t,
  In (pfx, sp) t -> path_compare sp sp = true ->
  exists t1 x t2, t = t1 ++ (pfx, x) :: t2 /\ path_compare x sp = true /\
                  tbl_remove_first pfx sp t = t1 ++ t2.
Proof.
  induction t as [|[k y] t IH]; intros HI R; [destruct HI|].
  cbn [tbl_remove_first].
  destruct (N.eqb k pfx && path_compare y sp) eqn:E.
  - apply andb_prop in E. destruct E as [E1 E2]. apply N.eqb_eq in E1. subst k.
    exists [], y, t. auto.
  - destruct HI as [HI|HI].
    + inversion HI; subst. rewrite N.eqb_refl, R in E. discriminate.
    + destruct (IH HI R) as [t1 [x [t2 [A [B C]]]]].
      exists ((k, y) :: t1), x, t2. subst t. rewrite C. auto.
Qed.

Lemma tbl_remove_first_incl : forall pfx sp t e, In e (tbl_remove_first pfx sp t) -> In e t.
Proof.
  induction t as [|[k y] t IH]; intros e H; cbn [tbl_remove_first] in H; [assumption|].
  destruct (N.eqb k pfx && path_compare y sp); [now right|].
  destruct H as [H|H]; [now left|right; auto].
Qed.

(* ---------------------------------------------------------------- the invariant *)

Section AroIDs.
  Variable P : Type.
  Variable apply : P -> N -> path -> option path.
  Variable s : sess.
  Hypothesis Hap : s_addpath s = true.

  Notation bget := (byk_get hkey hkey_eq_dec).
  Notation wfm := (wf hkey hkey_eq_dec).
  Notation rcm := (rc hkey hkey_eq_dec).

  Record Inv (a : aro P) : Prop := mkInv {
    I_wf : wfm (pm a);
    I_tbl : forall pfx p, In (pfx, p) (tbl a) ->
            exists r b, p = PBgp r b /\ bget (hkey_of b) (byk (pm a)) = Some (b_pid b);
    I_cnt : forall k, rcm (pm a) k = N.of_nat (count k (tbl a));
    I_div : diverged a = false;
    I_ann : forall pfx p, In (pfx, p) (tbl a) -> In (Announce pfx p) (elog a);
    I_wd : forall l1 l2 pfx w, elog a = l1 ++ Withdraw pfx w :: l2 -> In (Announce pfx w) l2
  }.

  Lemma Inv_init : forall c, Inv (init P c).
  Proof.
    intros c. constructor; cbn.
    - apply wf_empty.
    - intros ? ? [].
    - intros k. reflexivity.
    - reflexivity.
    - intros ? ? [].
    - intros l1 l2 pfx w H. destruct l1; discriminate.
  Qed.

  (* Inv does not depend on the current chain or the error counter *)
  Lemma Inv_irrel : forall a c e,
    Inv a -> Inv (mkAro (tbl a) (pm a) c (elog a) (diverged a) e).
  Proof. intros a c e [A B C D E F]. constructor; cbn; assumption. Qed.

  Lemma wd_cons_announce : forall (l : list event) pfx p,
    (forall l1 l2 pf w, l = l1 ++ Withdraw pf w :: l2 -> In (Announce pf w) l2) ->
    forall l1 l2 pf w, Announce pfx p :: l = l1 ++ Withdraw pf w :: l2 -> In (Announce pf w) l2.
  Proof.
    intros l pfx p H l1 l2 pf w E. destruct l1 as [|e l1]; cbn in E; [discriminate|].
    inversion E; subst. eapply H; reflexivity.
  Qed.

  Lemma wd_cons_withdraw : forall (l : list event) pfx p,
    In (Announce pfx p) l ->
    (forall l1 l2 pf w, l = l1 ++ Withdraw pf w :: l2 -> In (Announce pf w) l2) ->
    forall l1 l2 pf w, Withdraw pfx p :: l = l1 ++ Withdraw pf w :: l2 -> In (Announce pf w) l2.
  Proof.
    intros l pfx p HA H l1 l2 pf w E. destruct l1 as [|e l1]; cbn in E.
    - inversion E; subst. assumption.
    - inversion E; subst. eapply H; reflexivity.
  Qed.

  (* combined facts about addPath on a well-formed manager *)
  Lemma padd_ok : forall m k m' i,
    wfm m -> pid_add hkey hkey_eq_dec k m = (m', AddOk i) ->
    wfm m' /\ bget k (byk m') = Some i /\ rcm m' k = rcm m k + 1 /\
    (forall j, bget k (byk m) = Some j -> j = i) /\
    (forall k', k' <> k -> bget k' (byk m') = bget k' (byk m) /\ rcm m' k' = rcm m k').
  Proof.
    intros m k m' i W H.
    destruct (bget k (byk m)) as [j|] eqn:E.
    - destruct (padd_existing hkey hkey_eq_dec m k j W E) as [m2 [PA [W2 [B [R1 R2]]]]].
      rewrite PA in H. inversion H; subst m2 j.
      split; [exact W2|]. split; [now rewrite B|]. split; [exact R1|].
      split; [intros j' Ej; congruence|].
      intros k' NE. split; [now rewrite B|now apply R2].
    - pose proof (padd_outcome hkey hkey_eq_dec m k m' (AddOk i) W H) as [_ _].
      destruct (N.eq_dec (N.of_nat (length (ids m))) max32) as [EQ|NE].
      + exfalso. unfold pid_add in H. rewrite E, (wf_used _ _ m W), EQ, N.eqb_refl in H. discriminate.
      + pose proof (wf_len _ _ m W).
        destruct (padd_fresh hkey hkey_eq_dec m k W E) as [m2 [i2 [PA [W2 [B [R1 [R2 _]]]]]]]; [lia|].
        rewrite PA in H. inversion H; subst m2 i2.
        split; [exact W2|]. split; [exact B|].
        split; [unfold rc at 2; rewrite E, R1; reflexivity|].
        split; [intros j Ej; discriminate|].
        intros k' NE'. now apply R2.
  Qed.

  Lemma has_key_bgp : forall k pfx r b, has_key k (pfx, PBgp r b) = if hkey_eq_dec (hkey_of b) k then true else false.
  Proof. reflexivity. Qed.

  (* AdjRIBOut.addPath *)
  Lemma add_inner_inv : forall a pfx p, Inv a -> Inv (add_inner P s a pfx p).
  Proof.
    intros a pfx p I. unfold add_inner. rewrite Hap.
    destruct p as [snh|r b]; cbn [path_hkey]; [assumption|].
    destruct (pid_add hkey hkey_eq_dec (hkey_of b) (pm a)) as [m' res] eqn:PA.
    pose proof (I_wf a I) as W.
    destruct res as [i| |].
    - destruct (padd_ok _ _ _ _ W PA) as [W' [B [R1 [Same Oth]]]].
      cbn [path_set_pid]. constructor; cbn [tbl pm cur elog diverged errs].
      + exact W'.
      + intros pf q HI. unfold tbl_add in HI. apply in_app_or in HI. destruct HI as [HI|[HI|[]]].
        * destruct (I_tbl a I pf q HI) as [r' [b' [-> Bq]]]. exists r', b'. split; [reflexivity|].
          destruct (hkey_eq_dec (hkey_of b') (hkey_of b)) as [EQ|NE].
          -- rewrite EQ in *. rewrite B. f_equal. symmetry. now apply Same.
          -- destruct (Oth _ NE) as [-> _]. exact Bq.
        * inversion HI; subst. exists r, (set_pid i b). split; [reflexivity|].
          rewrite hkey_set_pid. exact B.
      + intros k. unfold tbl_add. rewrite count_app, count_cons. cbn [count filter length].
        rewrite has_key_bgp, hkey_set_pid.
        destruct (hkey_eq_dec (hkey_of b) k) as [<-|NE].
        * rewrite R1, (I_cnt a I). lia.
        * destruct (Oth k (not_eq_sym NE)) as [_ ->]. rewrite (I_cnt a I). lia.
      + apply (I_div a I).
      + intros pf q HI. unfold tbl_add in HI. apply in_app_or in HI. destruct HI as [HI|[HI|[]]].
        * right. now apply (I_ann a I).
        * inversion HI; subst. now left.
      + apply wd_cons_announce. apply (I_wd a I).
    - now apply Inv_irrel.
    - exfalso. destruct (padd_outcome hkey hkey_eq_dec _ _ _ _ W PA) as [ND _]. now apply ND.
  Qed.

  (* AdjRIBOut.removeExportedPath *)
  Lemma remove_exported_inv : forall a pfx p, Inv a -> Inv (fst (remove_exported P s a pfx p)).
  Proof.
    intros a pfx p I. unfold remove_exported.
    destruct (tbl_get pfx (tbl a)) as [|p0 ps] eqn:TG; [assumption|].
    rewrite Hap. rewrite <- TG.
    destruct (find (fun sp => is_announcement_of sp p) (tbl_get pfx (tbl a))) as [sp|] eqn:F; [|assumption].
    apply find_some in F. destruct F as [HIn _]. apply in_tbl_get in HIn.
    destruct (I_tbl a I pfx sp HIn) as [r [b [-> Bsp]]]. cbn [path_hkey].
    pose proof (I_wf a I) as W.
    destruct (prel_present hkey hkey_eq_dec (pm a) (hkey_of b) (b_pid b) W Bsp)
      as [m' [PR [W' [R1 [Gone [Stay Oth]]]]]].
    rewrite PR. cbn [fst].
    assert (Refl : path_compare (PBgp r b) (PBgp r b) = true) by (cbn; apply bgp_compare_refl).
    destruct (tbl_remove_first_split pfx (PBgp r b) (tbl a) HIn Refl) as [t1 [x [t2 [ET [CX ER]]]]].
    (* the entry that goes has the same key as sp *)
    assert (HX : In (pfx, x) (tbl a)) by (rewrite ET; apply in_or_app; right; now left).
    destruct (I_tbl a I pfx x HX) as [rx [bx [-> Bx]]].
    cbn [path_compare] in CX. apply bgp_compare_pid in CX.
    assert (KX : hkey_of bx = hkey_of b).
    { eapply (wf_inj _ _ (pm a) W); [exact Bx|]. rewrite CX. exact Bsp. }
    assert (CntK : count (hkey_of b) (tbl a) = S (count (hkey_of b) (t1 ++ t2))).
    { rewrite ET, !count_app, count_cons, has_key_bgp, KX.
      destruct (hkey_eq_dec (hkey_of b) (hkey_of b)); [lia|contradiction]. }
    assert (CntO : forall k, k <> hkey_of b -> count k (tbl a) = count k (t1 ++ t2)).
    { intros k NE. rewrite ET, !count_app, count_cons, has_key_bgp, KX.
      destruct (hkey_eq_dec (hkey_of b) k); [congruence|lia]. }
    constructor; cbn [tbl pm cur elog diverged errs]; rewrite ?ER.
    - exact W'.
    - intros pf q HI.
      assert (HI0 : In (pf, q) (tbl a)).
      { rewrite ET. apply in_app_or in HI. apply in_or_app. destruct HI; [now left|right; now right]. }
      destruct (I_tbl a I pf q HI0) as [r' [b' [-> Bq]]]. exists r', b'. split; [reflexivity|].
      destruct (hkey_eq_dec (hkey_of b') (hkey_of b)) as [EQ|NE].
      + rewrite EQ in *.
        destruct (N.eq_dec (rcm (pm a) (hkey_of b)) 1) as [One|NotOne].
        * (* then no entry with this key is left: contradiction with (pf, q) being there *)
          exfalso. rewrite (I_cnt a I), CntK in One.
          assert (count (hkey_of b) (t1 ++ t2) = 0%nat) by lia.
          unfold count in H. apply length_zero_iff_nil in H.
          assert (In (pf, PBgp r' b') (filter (has_key (hkey_of b)) (t1 ++ t2))).
          { apply filter_In. split; [assumption|]. rewrite has_key_bgp, EQ.
            destruct (hkey_eq_dec (hkey_of b) (hkey_of b)); [reflexivity|contradiction]. }
          rewrite H in H0. destruct H0.
        * rewrite (Stay NotOne). congruence.
      + destruct (Oth _ NE) as [-> _]. exact Bq.
    - intros k. destruct (hkey_eq_dec k (hkey_of b)) as [->|NE].
      + rewrite R1, (I_cnt a I), CntK. lia.
      + destruct (Oth k NE) as [_ ->]. rewrite (I_cnt a I). now rewrite (CntO k NE).
    - apply (I_div a I).
    - intros pf q HI. right. apply (I_ann a I). rewrite ET.
      apply in_app_or in HI. apply in_or_app. destruct HI; [now left|right; now right].
    - apply wd_cons_withdraw; [now apply (I_ann a I)|apply (I_wd a I)].
  Qed.

  Lemma remove_path_inv : forall a pfx p, Inv a -> Inv (fst (remove_path P apply s a pfx p)).
  Proof.
    intros a pfx p I. unfold remove_path.
    destruct (should_propagate s p); [|assumption].
    destruct (apply (cur a) pfx p); [|assumption].
    now apply remove_exported_inv.
  Qed.

  Lemma fold_inv : forall (A : Type) (f : aro P -> A -> aro P) (l : list A) (a : aro P),
    (forall a x, Inv a -> Inv (f a x)) -> Inv a -> Inv (fold_left f l a).
  Proof. induction l as [|x l IH]; intros a Hf I; cbn [fold_left]; auto. Qed.

  Lemma wipe_inv : forall a pfx, Inv a -> Inv (wipe P apply s a pfx).
  Proof.
    intros a pfx I. unfold wipe. apply fold_inv; [|assumption].
    intros a' x I'. now apply remove_path_inv.
  Qed.

  Lemma add_path_inv : forall a pfx p, Inv a -> Inv (add_path P apply s a pfx p).
  Proof.
    intros a pfx p I. unfold add_path.
    destruct (redistribute s p) as [r b].
    destruct (should_propagate s (PBgp r b)).
    - destruct (rewrite s r b); [|assumption].
      destruct (apply (cur a) pfx (PBgp r b0)); [|assumption].
      now apply add_inner_inv.
    - rewrite Hap. now apply wipe_inv.
  Qed.

  Lemma refresh_one_inv : forall nw pfx a p, Inv a -> Inv (refresh_one P apply s nw pfx a p).
  Proof.
    intros nw pfx a p I. unfold refresh_one.
    destruct (redistribute s p) as [r b].
    destruct (should_propagate s (PBgp r b)); [|assumption].
    destruct (rewrite s r b); [|assumption].
    destruct (apply (cur a) pfx (PBgp r b0)) as [c|]; destruct (apply nw pfx (PBgp r b0)) as [n|].
    - destruct (path_compare c n); [assumption|].
      apply add_inner_inv. now apply remove_exported_inv.
    - now apply remove_exported_inv.
    - now apply add_inner_inv.
    - assumption.
  Qed.

  Lemma replace_chain_inv : forall a nw view, Inv a -> Inv (replace_chain P apply s a nw view).
  Proof.
    intros a nw view I. unfold replace_chain.
    apply Inv_irrel.
    apply fold_inv; [|assumption].
    intros a' rt I'. apply fold_inv; [|assumption].
    intros a'' p I''. now apply refresh_one_inv.
  Qed.

  Lemma step_inv : forall a o, Inv a -> Inv (step P apply s a o).
  Proof.
    intros a [pfx p|pfx p|nw view] I; cbn [step].
    - now apply add_path_inv.
    - now apply remove_path_inv.
    - now apply replace_chain_inv.
  Qed.

  Theorem run_inv : forall c ops, Inv (run P apply s c ops).
  Proof.
    intros c ops. unfold run. apply fold_inv; [|apply Inv_init].
    intros a o I. now apply step_inv.
  Qed.

End AroIDs.
