(* C01: the trie model (Model/Trie.v, bit-string instance) refines the prefix map
   (Spec/TrieSpec.v) over every finite operation history. *)
From Coq Require Import List Bool Arith Lia ZArith Permutation.
From BioVerif Require Import Lib.BitPfx Model.Trie Spec.TrieSpec Proofs.BitPfxFacts.
Import ListNotations.

Section TrieProofs.
  Variable P : Type.
  Variable peq : P -> P -> bool.
  (* the only fact needed about the path test: a path is "the same path" as itself *)
  Hypothesis peq_refl : forall a, peq a a = true.

  Local Notation bnode := (bnode P).
  Local Notation smap := (smap P).
  Local Notation lookup := (lookup P).

  (* ---- well-formedness: every node lies below the stem it hangs from, on the side of its
     parent's next bit; dummy nodes carry no paths.  Childless dummies are allowed (removal
     leaves them behind). *)
  Fixpoint wf (s : bits) (n : bnode) : Prop :=
    match n with
    | Nil => True
    | Node cp d ps l h =>
      is_pre s cp = true /\ (d = true -> ps = []) /\
      wf (cp ++ [false]) l /\ wf (cp ++ [true]) h
    end.

  (* the map a tree stands for, as a function *)
  Fixpoint nlookup (n : bnode) (q : bits) : option (list P) :=
    match n with
    | Nil => None
    | Node cp d ps l h =>
      if beq cp q then (if d then None else Some ps)
      else if is_pre cp q then
        (if bitAt q (length cp + 1) then nlookup h q else nlookup l q)
      else None
    end.

  Lemma wf_root : forall s s' cp d ps l h,
    wf s (Node cp d ps l h) -> is_pre s' cp = true -> wf s' (Node cp d ps l h).
  Proof. intros s s' cp d ps l h (H1 & H2 & H3 & H4) H. simpl. auto. Qed.

  Lemma wf_weaken : forall s s' n, wf s n -> is_pre s' s = true -> wf s' n.
  Proof.
    intros s s' [|cp d ps l h] H Hs; [exact I|].
    eapply wf_root; eauto. destruct H as (H1 & _). eapply is_pre_trans; eauto.
  Qed.

  Lemma nlookup_notpre : forall s n q, wf s n -> is_pre s q = false -> nlookup n q = None.
  Proof.
    intros s [|cp d ps l h] q H Hq; [reflexivity|].
    destruct H as (H1 & _). simpl.
    destruct (beq cp q) eqn:E.
    - apply beq_eq in E. subst. congruence.
    - destruct (is_pre cp q) eqn:E2; auto.
      rewrite (is_pre_trans _ _ _ H1 E2) in Hq. discriminate.
  Qed.

  Lemma not_pre_snoc : forall s b q, is_pre s q = false -> is_pre (s ++ [b]) q = false.
  Proof.
    intros s b q H. destruct (is_pre (s ++ [b]) q) eqn:E; auto.
    apply is_pre_snoc_l in E. congruence.
  Qed.

  (* ================================================================ addPath *)
  Lemma nlookup_newNode : forall p a q,
    nlookup (newNode bits P p a) q = if beq p q then Some [a] else None.
  Proof.
    intros p a q. simpl. destruct (beq p q); auto.
    destruct (is_pre p q); auto. destruct (bitAt q (length p + 1)); auto.
  Qed.

  Lemma wf_newNode : forall s p a, is_pre s p = true -> wf s (newNode bits P p a).
  Proof. intros s p a H. simpl. repeat split; auto. discriminate. Qed.

  Definition add_result (old : option (list P)) (a : P) : list P :=
    match old with Some ps => ps ++ [a] | None => [a] end.

  Lemma insertBefore_ok : forall s n cp d ps l h p a,
    n = Node cp d ps l h -> wf s n -> is_pre s p = true -> bcontains p cp = true ->
    let n' := insertBefore bits P bitAt blen n cp p a in
    wf s n' /\ forall q, nlookup n' q = if beq p q then Some [a] else nlookup n q.
  Proof.
    intros s n cp d ps l h p a En Hwf Hsp Hc n'.
    apply bcontains_iff in Hc. destruct Hc as [Hpre Hne].
    pose proof (is_pre_snoc _ _ Hpre Hne) as Hside.
    assert (Hw : wf (p ++ [bitAt cp (length p + 1)]) n).
    { subst n. eapply wf_root; eauto. }
    assert (Hnone : forall q, beq p q = false ->
              (is_pre p q = false \/ bitAt q (length p + 1) = negb (bitAt cp (length p + 1))) ->
              nlookup n q = None).
    { intros q Hq [H|H]; eapply nlookup_notpre; eauto.
      - apply not_pre_snoc; auto.
      - apply is_pre_snoc_wrongbit; auto. }
    subst n'. unfold insertBefore, blen.
    destruct (bitAt cp (length p + 1)) eqn:Eb; simpl negb; cbv iota.
    - split.
      + simpl. repeat split; auto. discriminate.
      + intros q. cbn [nlookup]. destruct (beq p q) eqn:E1; auto.
        destruct (is_pre p q) eqn:E2.
        * destruct (bitAt q (length p + 1)) eqn:E3; auto.
          symmetry. apply Hnone; auto.
        * symmetry. apply Hnone; auto.
    - split.
      + simpl. repeat split; auto. discriminate.
      + intros q. cbn [nlookup]. destruct (beq p q) eqn:E1; auto.
        destruct (is_pre p q) eqn:E2.
        * destruct (bitAt q (length p + 1)) eqn:E3; auto.
          symmetry. apply Hnone; auto.
        * symmetry. apply Hnone; auto.
  Qed.

  Lemma is_pre_snoc_self : forall s b, is_pre (s ++ [b]) s = false.
  Proof.
    intros s b. destruct (is_pre (s ++ [b]) s) eqn:E; auto.
    exfalso. eapply is_pre_snoc_back; eauto. apply is_pre_refl.
  Qed.

  Lemma newSuperNode_ok : forall s n cp d ps l h p a,
    n = Node cp d ps l h -> wf s n -> is_pre s p = true ->
    is_pre cp p = false -> is_pre p cp = false ->
    let n' := newSuperNode bits P lcp bitAt blen n cp p a in
    wf s n' /\ forall q, nlookup n' q = if beq p q then Some [a] else nlookup n q.
  Proof.
    intros s n cp d ps l h p a En Hwf Hsp Hcp Hpc n'.
    destruct (lcp_diverge p cp Hpc Hcp) as (Nsp & Nsc & Hbits).
    pose proof (lcp_pre_l p cp) as Hprep. pose proof (lcp_pre_r p cp) as Hprec.
    assert (Hss : is_pre s (lcp p cp) = true).
    { apply lcp_greatest; auto. subst n. destruct Hwf as (H1 & _). exact H1. }
    pose proof (is_pre_snoc _ _ Hprep Nsp) as Hsidep.
    pose proof (is_pre_snoc _ _ Hprec Nsc) as Hsidec.
    assert (Hw : wf (lcp p cp ++ [bitAt cp (length (lcp p cp) + 1)]) n).
    { subst n. eapply wf_root; eauto. }
    assert (Hnone : forall q,
              (is_pre (lcp p cp) q = false \/ beq (lcp p cp) q = true \/
               bitAt q (length (lcp p cp) + 1) = negb (bitAt cp (length (lcp p cp) + 1))) ->
              nlookup n q = None).
    { intros q [H|[H|H]]; eapply nlookup_notpre; eauto.
      - apply not_pre_snoc; auto.
      - apply beq_eq in H. subst q. apply is_pre_snoc_self.
      - apply is_pre_snoc_wrongbit; auto. }
    assert (Hpq : forall q, beq p q = true ->
              is_pre (lcp p cp) q = true /\ beq (lcp p cp) q = false /\
              bitAt q (length (lcp p cp) + 1) = bitAt p (length (lcp p cp) + 1)).
    { intros q H. apply beq_eq in H. subst q. split; auto. split; auto.
      apply beq_false_iff; auto. }
    subst n'. unfold newSuperNode, blen.
    set (k := lcp p cp) in *.
    rewrite Hbits in *.
    destruct (bitAt cp (length k + 1)) eqn:Ec; simpl negb in *; cbv iota; simpl fst; simpl snd.
    - (* old node on the high side, new node low *)
      split.
      + simpl. repeat split; auto. discriminate.
      + intros q. cbn [nlookup].
        destruct (beq k q) eqn:E1.
        * destruct (beq p q) eqn:E0; [destruct (Hpq q E0) as (_ & X & _); congruence|].
          symmetry. apply Hnone; auto.
        * destruct (is_pre k q) eqn:E2.
          -- destruct (bitAt q (length k + 1)) eqn:E3.
             ++ destruct (beq p q) eqn:E0; auto.
                destruct (Hpq q E0) as (_ & _ & X). congruence.
             ++ rewrite nlookup_newNode. destruct (beq p q) eqn:E0; auto.
                symmetry. apply Hnone; auto.
          -- destruct (beq p q) eqn:E0; [destruct (Hpq q E0) as (X & _ & _); congruence|].
             symmetry. apply Hnone; auto.
    - split.
      + simpl. repeat split; auto. discriminate.
      + intros q. cbn [nlookup].
        destruct (beq k q) eqn:E1.
        * destruct (beq p q) eqn:E0; [destruct (Hpq q E0) as (_ & X & _); congruence|].
          symmetry. apply Hnone; auto.
        * destruct (is_pre k q) eqn:E2.
          -- destruct (bitAt q (length k + 1)) eqn:E3.
             ++ rewrite nlookup_newNode. destruct (beq p q) eqn:E0; auto.
                symmetry. apply Hnone; auto.
             ++ destruct (beq p q) eqn:E0; auto.
                destruct (Hpq q E0) as (_ & _ & X). congruence.
          -- destruct (beq p q) eqn:E0; [destruct (Hpq q E0) as (X & _ & _); congruence|].
             symmetry. apply Hnone; auto.
  Qed.

  Lemma addPath_ok : forall n s p a,
    wf s n -> is_pre s p = true ->
    wf s (fst (b_addPath P n p a)) /\
    (forall q, nlookup (fst (b_addPath P n p a)) q =
               if beq p q then Some (add_result (nlookup n p) a) else nlookup n q) /\
    snd (b_addPath P n p a) = match nlookup n p with Some _ => false | None => true end.
  Proof.
    unfold b_addPath.
    induction n as [|cp d ps l IHl h IHh]; intros s p a Hwf Hsp.
    - cbn [addPath fst snd]. split; [apply wf_newNode; auto|]. split; auto.
      intros q. rewrite nlookup_newNode. reflexivity.
    - cbn [addPath]. change (blen cp) with (length cp).
      destruct (beq cp p) eqn:E1.
      + (* the node itself *)
        apply beq_eq in E1. subst cp. cbn [fst snd].
        destruct Hwf as (H1 & H2 & H3 & H4).
        split; [simpl; repeat split; auto; discriminate|]. split.
        * intros q. cbn [nlookup]. rewrite beq_refl.
          destruct (beq p q) eqn:E; auto.
          destruct d; auto. rewrite H2 by reflexivity. reflexivity.
        * cbn [nlookup]. rewrite beq_refl. destruct d; reflexivity.
      + destruct (bcontains cp p) eqn:E2; cbn [negb].
        * (* descend *)
          apply bcontains_iff in E2. destruct E2 as [Hpre Hne].
          pose proof (is_pre_snoc _ _ Hpre Hne) as Hside.
          destruct Hwf as (H1 & H2 & H3 & H4).
          destruct (bitAt p (length cp + 1)) eqn:Eb; cbn [negb].
          -- destruct (IHh (cp ++ [true]) p a H4 Hside) as (W & L & S).
             destruct (addPath bits P beq bcontains lcp bitAt blen h p a) as [h' isNew].
             cbn [fst snd] in *. split; [simpl; auto|]. split.
             ++ intros q. cbn [nlookup]. rewrite E1, Hpre, Eb.
                destruct (beq cp q) eqn:E3.
                ** apply beq_eq in E3. subst q.
                   rewrite (proj2 (beq_false_iff p cp)) by congruence. reflexivity.
                ** destruct (is_pre cp q) eqn:E4.
                   --- destruct (bitAt q (length cp + 1)) eqn:E5; [apply L|].
                       destruct (beq p q) eqn:E6; auto. apply beq_eq in E6. congruence.
                   --- destruct (beq p q) eqn:E6; auto. apply beq_eq in E6. congruence.
             ++ cbn [nlookup]. rewrite E1, Hpre, Eb. exact S.
          -- destruct (IHl (cp ++ [false]) p a H3 Hside) as (W & L & S).
             destruct (addPath bits P beq bcontains lcp bitAt blen l p a) as [l' isNew].
             cbn [fst snd] in *. split; [simpl; auto|]. split.
             ++ intros q. cbn [nlookup]. rewrite E1, Hpre, Eb.
                destruct (beq cp q) eqn:E3.
                ** apply beq_eq in E3. subst q.
                   rewrite (proj2 (beq_false_iff p cp)) by congruence. reflexivity.
                ** destruct (is_pre cp q) eqn:E4.
                   --- destruct (bitAt q (length cp + 1)) eqn:E5; [|apply L].
                       destruct (beq p q) eqn:E6; auto. apply beq_eq in E6. congruence.
                   --- destruct (beq p q) eqn:E6; auto. apply beq_eq in E6. congruence.
             ++ cbn [nlookup]. rewrite E1, Hpre, Eb. exact S.
        * (* p is not below this node *)
          apply beq_false_iff in E1.
          assert (Hcp : is_pre cp p = false).
          { apply bcontains_false_iff in E2. destruct E2; congruence. }
          assert (Hold : nlookup (Node cp d ps l h) p = None).
          { cbn [nlookup]. rewrite (proj2 (beq_false_iff cp p)) by auto. rewrite Hcp. reflexivity. }
          rewrite Hold. cbn [add_result].
          destruct (bcontains p cp) eqn:E3; cbn [fst snd].
          -- destruct (insertBefore_ok s _ cp d ps l h p a eq_refl Hwf Hsp E3) as (W & L).
             split; auto.
          -- assert (Hpc : is_pre p cp = false).
             { apply bcontains_false_iff in E3. destruct E3; congruence. }
             destruct (newSuperNode_ok s _ cp d ps l h p a eq_refl Hwf Hsp Hcp Hpc) as (W & L).
             split; auto.
  Qed.

  (* ================================================================ removePath *)
  Lemma removePath_notpre : forall n s p a,
    wf s n -> is_pre s p = false -> b_removePath P peq n p a = (n, false).
  Proof.
    unfold b_removePath.
    induction n as [|cp d ps l IHl h IHh]; intros s p a Hwf Hsp; [reflexivity|].
    destruct Hwf as (H1 & H2 & H3 & H4).
    cbn [removePath]. change (blen cp) with (length cp).
    assert (Hcp : is_pre cp p = false).
    { destruct (is_pre cp p) eqn:E; auto. rewrite (is_pre_trans _ _ _ H1 E) in Hsp. discriminate. }
    destruct (beq cp p) eqn:E1.
    - apply beq_eq in E1. subst. rewrite is_pre_refl in Hcp. discriminate.
    - destruct (bitAt p (length cp + 1)); cbn [negb].
      + rewrite (IHh (cp ++ [true]) p a H4 (not_pre_snoc _ _ _ Hcp)). reflexivity.
      + rewrite (IHl (cp ++ [false]) p a H3 (not_pre_snoc _ _ _ Hcp)). reflexivity.
  Qed.

  Definition rem_result (old : option (list P)) (a : P) : option (list P) :=
    match old with
    | None => None
    | Some ps => if is_nil P (remove_first P peq a ps) then None else Some (remove_first P peq a ps)
    end.

  Lemma is_nil_true : forall ps : list P, is_nil P ps = true -> ps = [].
  Proof. intros [|x ps] H; [reflexivity|discriminate]. Qed.

  Lemma removePath_ok : forall n s p a,
    wf s n ->
    wf s (fst (b_removePath P peq n p a)) /\
    (forall q, nlookup (fst (b_removePath P peq n p a)) q =
               if beq p q then rem_result (nlookup n p) a else nlookup n q) /\
    snd (b_removePath P peq n p a) =
      match nlookup n p with
      | Some ps => is_nil P (remove_first P peq a ps)
      | None => false
      end.
  Proof.
    induction n as [|cp d ps l IHl h IHh]; intros s p a Hwf.
    - cbn. split; auto. split; auto. intros q. destruct (beq p q); reflexivity.
    - pose proof Hwf as Hwf0. destruct Hwf as (H1 & H2 & H3 & H4).
      unfold b_removePath in *. cbn [removePath]. change (blen cp) with (length cp).
      destruct (beq cp p) eqn:E1.
      + apply beq_eq in E1. subst cp. destruct d.
        * cbn [fst snd]. split; auto. cbn [nlookup]. rewrite beq_refl. split; auto.
          intros q. destruct (beq p q) eqn:E; auto.
        * cbn [fst snd]. split.
          { simpl. repeat split; auto. intros Hd.
            destruct (is_nil P (remove_first P peq a ps)) eqn:En; [|discriminate].
            apply is_nil_true; auto. }
          cbn [nlookup]. rewrite beq_refl. cbn [rem_result]. split; auto.
          intros q. destruct (beq p q) eqn:E; auto.
          destruct (is_nil P (remove_first P peq a ps)); reflexivity.
      + destruct (is_pre cp p) eqn:Hpre.
        * assert (Hne : cp <> p) by (apply beq_false_iff; auto).
          pose proof (is_pre_snoc _ _ Hpre Hne) as Hside.
          destruct (bitAt p (length cp + 1)) eqn:Eb; cbn [negb].
          -- destruct (IHh (cp ++ [true]) p a H4) as (W & L & S).
             destruct (removePath bits P peq beq bitAt blen h p a) as [h' fin].
             cbn [fst snd] in *. split; [simpl; auto|]. split.
             ++ intros q. cbn [nlookup]. rewrite E1, Hpre, Eb.
                destruct (beq cp q) eqn:E3.
                ** apply beq_eq in E3. subst q.
                   rewrite (proj2 (beq_false_iff p cp)) by congruence. reflexivity.
                ** destruct (is_pre cp q) eqn:E4.
                   --- destruct (bitAt q (length cp + 1)) eqn:E5; [apply L|].
                       destruct (beq p q) eqn:E6; auto. apply beq_eq in E6. congruence.
                   --- destruct (beq p q) eqn:E6; auto. apply beq_eq in E6. congruence.
             ++ cbn [nlookup]. rewrite E1, Hpre, Eb. exact S.
          -- destruct (IHl (cp ++ [false]) p a H3) as (W & L & S).
             destruct (removePath bits P peq beq bitAt blen l p a) as [l' fin].
             cbn [fst snd] in *. split; [simpl; auto|]. split.
             ++ intros q. cbn [nlookup]. rewrite E1, Hpre, Eb.
                destruct (beq cp q) eqn:E3.
                ** apply beq_eq in E3. subst q.
                   rewrite (proj2 (beq_false_iff p cp)) by congruence. reflexivity.
                ** destruct (is_pre cp q) eqn:E4.
                   --- destruct (bitAt q (length cp + 1)) eqn:E5; [|apply L].
                       destruct (beq p q) eqn:E6; auto. apply beq_eq in E6. congruence.
                   --- destruct (beq p q) eqn:E6; auto. apply beq_eq in E6. congruence.
             ++ cbn [nlookup]. rewrite E1, Hpre, Eb. exact S.
        * (* p is not below this node: nothing changes *)
          assert (Hold : nlookup (Node cp d ps l h) p = None).
          { cbn [nlookup]. rewrite E1, Hpre. reflexivity. }
          rewrite Hold. cbn [rem_result].
          destruct (bitAt p (length cp + 1)) eqn:Eb; cbn [negb].
          -- pose proof (removePath_notpre h (cp ++ [true]) p a H4 (not_pre_snoc _ _ _ Hpre)) as R.
             unfold b_removePath in R. rewrite R. cbn [fst snd]. split; auto. split; auto.
             intros q. destruct (beq p q) eqn:E6; auto. apply beq_eq in E6. subst q. exact Hold.
          -- pose proof (removePath_notpre l (cp ++ [false]) p a H3 (not_pre_snoc _ _ _ Hpre)) as R.
             unfold b_removePath in R. rewrite R. cbn [fst snd]. split; auto. split; auto.
             intros q. destruct (beq p q) eqn:E6; auto. apply beq_eq in E6. subst q. exact Hold.
  Qed.

  (* ================================================================ get *)
  Lemma get_notpre : forall n s q, wf s n -> is_pre s q = false -> b_get P n q = None.
  Proof.
    unfold b_get.
    induction n as [|cp d ps l IHl h IHh]; intros s q Hwf Hsq; [reflexivity|].
    destruct Hwf as (H1 & H2 & H3 & H4).
    cbn [get]. change (blen cp) with (length cp). change (blen q) with (length q).
    assert (Hcp : is_pre cp q = false).
    { destruct (is_pre cp q) eqn:E; auto. rewrite (is_pre_trans _ _ _ H1 E) in Hsq. discriminate. }
    destruct (beq cp q) eqn:E1.
    - apply beq_eq in E1. subst. rewrite is_pre_refl in Hcp. discriminate.
    - destruct (length q <? length cp); auto.
      destruct (bitAt q (length cp + 1)); cbn [negb].
      + apply (IHh (cp ++ [true])); auto. apply not_pre_snoc; auto.
      + apply (IHl (cp ++ [false])); auto. apply not_pre_snoc; auto.
  Qed.

  Lemma get_ok : forall n s q,
    wf s n ->
    b_get P n q = match nlookup n q with Some ps => Some (q, ps) | None => None end.
  Proof.
    induction n as [|cp d ps l IHl h IHh]; intros s q Hwf; [reflexivity|].
    destruct Hwf as (H1 & H2 & H3 & H4).
    unfold b_get in *. cbn [get nlookup].
    change (blen cp) with (length cp). change (blen q) with (length q).
    destruct (beq cp q) eqn:E1.
    - apply beq_eq in E1. subst. destruct d; reflexivity.
    - destruct (is_pre cp q) eqn:Hpre.
      + pose proof (is_pre_length _ _ Hpre) as Hlen.
        destruct (length q <? length cp) eqn:El; [apply Nat.ltb_lt in El; lia|].
        destruct (bitAt q (length cp + 1)); cbn [negb]; eauto.
      + destruct (length q <? length cp); auto.
        destruct (bitAt q (length cp + 1)); cbn [negb].
        * apply (get_notpre h (cp ++ [true])); auto. apply not_pre_snoc; auto.
        * apply (get_notpre l (cp ++ [false])); auto. apply not_pre_snoc; auto.
  Qed.

  (* ================================================================ substPath *)
  Lemma substPath_notpre : forall n s q o nw,
    wf s n -> is_pre s q = false -> b_substPath P peq n q o nw = n.
  Proof.
    unfold b_substPath.
    induction n as [|cp d ps l IHl h IHh]; intros s q o nw Hwf Hsq; [reflexivity|].
    destruct Hwf as (H1 & H2 & H3 & H4).
    cbn [substPath]. change (blen cp) with (length cp). change (blen q) with (length q).
    assert (Hcp : is_pre cp q = false).
    { destruct (is_pre cp q) eqn:E; auto. rewrite (is_pre_trans _ _ _ H1 E) in Hsq. discriminate. }
    destruct (beq cp q) eqn:E1.
    - apply beq_eq in E1. subst. rewrite is_pre_refl in Hcp. discriminate.
    - destruct (length q <? length cp); auto.
      destruct (bitAt q (length cp + 1)); cbn [negb].
      + rewrite (IHh (cp ++ [true])); auto. apply not_pre_snoc; auto.
      + rewrite (IHl (cp ++ [false])); auto. apply not_pre_snoc; auto.
  Qed.

  Definition subst_result (old : option (list P)) (o nw : P) : option (list P) :=
    match old with
    | None => None
    | Some ps => Some (subst_first P peq o nw ps)
    end.

  Lemma substPath_ok : forall n s p o nw,
    wf s n ->
    wf s (b_substPath P peq n p o nw) /\
    (forall q, nlookup (b_substPath P peq n p o nw) q =
               if beq p q then subst_result (nlookup n p) o nw else nlookup n q).
  Proof.
    induction n as [|cp d ps l IHl h IHh]; intros s p o nw Hwf.
    - cbn. split; auto. intros q. destruct (beq p q); reflexivity.
    - pose proof Hwf as Hwf0. destruct Hwf as (H1 & H2 & H3 & H4).
      unfold b_substPath in *. cbn [substPath].
      change (blen cp) with (length cp). change (blen p) with (length p).
      destruct (beq cp p) eqn:E1.
      + apply beq_eq in E1. subst cp. destruct d.
        * split; auto. cbn [nlookup]. rewrite beq_refl. cbn [subst_result].
          intros q. destruct (beq p q) eqn:E; auto.
        * split; [simpl; repeat split; auto; discriminate|].
          cbn [nlookup]. rewrite beq_refl. cbn [subst_result].
          intros q. destruct (beq p q) eqn:E; auto.
      + destruct (is_pre cp p) eqn:Hpre.
        * pose proof (is_pre_length _ _ Hpre) as Hlen.
          destruct (length p <? length cp) eqn:El; [apply Nat.ltb_lt in El; lia|].
          assert (Hne : cp <> p) by (apply beq_false_iff; auto).
          destruct (bitAt p (length cp + 1)) eqn:Eb; cbn [negb].
          -- destruct (IHh (cp ++ [true]) p o nw H4) as (W & L).
             split; [simpl; auto|].
             intros q. cbn [nlookup]. rewrite E1, Hpre, Eb.
             destruct (beq cp q) eqn:E3.
             ** apply beq_eq in E3. subst q.
                rewrite (proj2 (beq_false_iff p cp)) by congruence. reflexivity.
             ** destruct (is_pre cp q) eqn:E4.
                --- destruct (bitAt q (length cp + 1)) eqn:E5; [apply L|].
                    destruct (beq p q) eqn:E6; auto. apply beq_eq in E6. congruence.
                --- destruct (beq p q) eqn:E6; auto. apply beq_eq in E6. congruence.
          -- destruct (IHl (cp ++ [false]) p o nw H3) as (W & L).
             split; [simpl; auto|].
             intros q. cbn [nlookup]. rewrite E1, Hpre, Eb.
             destruct (beq cp q) eqn:E3.
             ** apply beq_eq in E3. subst q.
                rewrite (proj2 (beq_false_iff p cp)) by congruence. reflexivity.
             ** destruct (is_pre cp q) eqn:E4.
                --- destruct (bitAt q (length cp + 1)) eqn:E5; [|apply L].
                    destruct (beq p q) eqn:E6; auto. apply beq_eq in E6. congruence.
                --- destruct (beq p q) eqn:E6; auto. apply beq_eq in E6. congruence.
        * assert (Hold : nlookup (Node cp d ps l h) p = None).
          { cbn [nlookup]. rewrite E1, Hpre. reflexivity. }
          rewrite Hold. cbn [subst_result].
          assert (Hsame : forall q, nlookup (Node cp d ps l h) q =
                    if beq p q then None else nlookup (Node cp d ps l h) q).
          { intros q. destruct (beq p q) eqn:E6; auto. apply beq_eq in E6. subst q. exact Hold. }
          destruct (length p <? length cp); [split; auto|].
          destruct (bitAt p (length cp + 1)) eqn:Eb; cbn [negb].
          -- pose proof (substPath_notpre h (cp ++ [true]) p o nw H4 (not_pre_snoc _ _ _ Hpre)) as R.
             unfold b_substPath in R. rewrite R. split; auto.
          -- pose proof (substPath_notpre l (cp ++ [false]) p o nw H3 (not_pre_snoc _ _ _ Hpre)) as R.
             unfold b_substPath in R. rewrite R. split; auto.
  Qed.

  (* ================================================================ dump *)
  Lemma lookup_app : forall (m1 m2 : smap) q,
    lookup (m1 ++ m2) q = match lookup m1 q with Some v => Some v | None => lookup m2 q end.
  Proof.
    induction m1 as [|[k v] m1 IH]; intros m2 q; simpl; auto.
    destruct (beq k q); auto.
  Qed.

  Lemma lookup_None : forall (m : smap) q,
    (forall e, In e m -> fst e <> q) -> lookup m q = None.
  Proof.
    induction m as [|[k v] m IH]; intros q H; simpl; auto.
    destruct (beq k q) eqn:E.
    - apply beq_eq in E. exfalso. apply (H (k, v)); simpl; auto.
    - apply IH. intros e He. apply H. simpl. auto.
  Qed.

  Lemma dump_keys_pre : forall n s e, wf s n -> In e (b_dump P n) -> is_pre s (fst e) = true.
  Proof.
    unfold b_dump.
    induction n as [|cp d ps l IHl h IHh]; intros s e Hwf Hin; [contradiction|].
    destruct Hwf as (H1 & H2 & H3 & H4). cbn [dump] in Hin.
    apply in_app_or in Hin. destruct Hin as [Hin|Hin].
    - destruct d; [contradiction|]. destruct Hin as [<-|[]]. exact H1.
    - apply in_app_or in Hin. destruct Hin as [Hin|Hin].
      + eapply is_pre_trans; [exact H1|]. eapply is_pre_snoc_l. eapply IHl; eauto.
      + eapply is_pre_trans; [exact H1|]. eapply is_pre_snoc_l. eapply IHh; eauto.
  Qed.

  Lemma lookup_dump_notpre : forall n s q,
    wf s n -> is_pre s q = false -> lookup (b_dump P n) q = None.
  Proof.
    intros n s q Hwf Hq. apply lookup_None. intros e He E.
    rewrite <- E in Hq. rewrite (dump_keys_pre n s e Hwf He) in Hq. discriminate.
  Qed.

  Lemma lookup_dump : forall n s q, wf s n -> lookup (b_dump P n) q = nlookup n q.
  Proof.
    induction n as [|cp d ps l IHl h IHh]; intros s q Hwf; [reflexivity|].
    destruct Hwf as (H1 & H2 & H3 & H4).
    unfold b_dump in *. cbn [dump nlookup].
    destruct (beq cp q) eqn:E1.
    - apply beq_eq in E1. subst q. destruct d.
      + cbn [app]. rewrite lookup_app.
        rewrite (lookup_dump_notpre l (cp ++ [false])); auto using is_pre_snoc_self.
        rewrite (lookup_dump_notpre h (cp ++ [true])); auto using is_pre_snoc_self.
      + simpl. rewrite beq_refl. reflexivity.
    - assert (Hskip : lookup ((if d then [] else [(cp, ps)]) ++ dump bits P l ++ dump bits P h) q
                      = lookup (dump bits P l ++ dump bits P h) q).
      { destruct d; auto. simpl. rewrite E1. reflexivity. }
      rewrite Hskip, lookup_app.
      destruct (is_pre cp q) eqn:Hpre.
      + assert (Hne : cp <> q) by (apply beq_false_iff; auto).
        pose proof (is_pre_snoc _ _ Hpre Hne) as Hside.
        destruct (bitAt q (length cp + 1)) eqn:Eb.
        * rewrite (lookup_dump_notpre l (cp ++ [false])); eauto.
          apply (is_pre_snoc_other cp true q Hside).
        * rewrite (IHl (cp ++ [false]) q H3).
          destruct (nlookup l q); auto.
          rewrite (lookup_dump_notpre h (cp ++ [true])); eauto.
          apply (is_pre_snoc_other cp false q Hside).
      + rewrite (lookup_dump_notpre l (cp ++ [false])); auto using not_pre_snoc.
        rewrite (lookup_dump_notpre h (cp ++ [true])); auto using not_pre_snoc.
  Qed.

  Lemma NoDup_app_intro : forall (A : Type) (l1 l2 : list A),
    NoDup l1 -> NoDup l2 -> (forall x, In x l1 -> In x l2 -> False) -> NoDup (l1 ++ l2).
  Proof.
    induction l1 as [|x l1 IH]; intros l2 H1 H2 Hd; simpl; auto.
    inversion H1; subst. constructor.
    - intros Hin. apply in_app_or in Hin. destruct Hin; [contradiction|].
      eapply Hd; simpl; eauto.
    - apply IH; auto. intros y Hy1 Hy2. eapply Hd; simpl; eauto.
  Qed.

  Lemma dump_key_in : forall n s k,
    wf s n -> In k (map fst (b_dump P n)) -> is_pre s k = true.
  Proof.
    intros n s k Hwf Hin. apply in_map_iff in Hin. destruct Hin as (e & <- & He).
    eapply dump_keys_pre; eauto.
  Qed.

  Lemma dump_NoDup : forall n s, wf s n -> NoDup (map fst (b_dump P n)).
  Proof.
    induction n as [|cp d ps l IHl h IHh]; intros s Hwf; [constructor|].
    destruct Hwf as (H1 & H2 & H3 & H4).
    unfold b_dump in *. cbn [dump]. rewrite !map_app.
    apply NoDup_app_intro.
    - destruct d; simpl; repeat constructor. intros [].
    - apply NoDup_app_intro; eauto.
      intros k Hl Hh.
      pose proof (dump_key_in l _ k H3 Hl) as A. pose proof (dump_key_in h _ k H4 Hh) as B.
      pose proof (is_pre_snoc_other cp false k A) as C. cbn [negb] in C. congruence.
    - intros k Hk Hin. destruct d; [contradiction|]. destruct Hk as [<-|[]].
      apply in_app_or in Hin. destruct Hin as [Hin|Hin].
      + pose proof (dump_key_in l _ _ H3 Hin) as A. rewrite is_pre_snoc_self in A. discriminate.
      + pose proof (dump_key_in h _ _ H4 Hin) as A. rewrite is_pre_snoc_self in A. discriminate.
  Qed.

  (* ================================================================ lpm and getLonger *)
  Lemma filter_none : forall (A : Type) (f : A -> bool) l,
    (forall e, In e l -> f e = false) -> filter f l = [].
  Proof.
    induction l as [|x l IH]; intros H; simpl; auto.
    rewrite (H x) by (simpl; auto). apply IH. intros e He. apply H. simpl. auto.
  Qed.

  Lemma filter_all : forall (A : Type) (f : A -> bool) l,
    (forall e, In e l -> f e = true) -> filter f l = l.
  Proof.
    induction l as [|x l IH]; intros H; simpl; auto.
    rewrite (H x) by (simpl; auto). f_equal. apply IH. intros e He. apply H. simpl. auto.
  Qed.

  Lemma covering_pre : forall q e, covering P q e = true -> is_pre (fst e) q = true.
  Proof.
    intros q e H. unfold covering in H. apply orb_true_iff in H. destruct H as [H|H].
    - apply beq_eq in H. rewrite H. apply is_pre_refl.
    - apply bcontains_iff in H. tauto.
  Qed.

  Lemma covered_pre : forall q e, covered P q e = true -> is_pre q (fst e) = true.
  Proof.
    intros q e H. unfold covered in H. apply orb_true_iff in H. destruct H as [H|H].
    - apply beq_eq in H. rewrite H. apply is_pre_refl.
    - apply bcontains_iff in H. tauto.
  Qed.

  Lemma pre_covering : forall q e, is_pre (fst e) q = true -> covering P q e = true.
  Proof.
    intros q e H. unfold covering. destruct (beq (fst e) q) eqn:E; auto.
    apply bcontains_iff. split; auto. apply beq_false_iff; auto.
  Qed.

  Lemma pre_covered : forall q e, is_pre q (fst e) = true -> covered P q e = true.
  Proof.
    intros q e H. unfold covered. destruct (beq (fst e) q) eqn:E; auto.
    apply bcontains_iff. split; auto. apply beq_false_iff in E. congruence.
  Qed.

  (* no key of a child's subtree covers the parent's own prefix *)
  Lemma child_not_covering : forall n cp b e,
    wf (cp ++ [b]) n -> In e (b_dump P n) -> is_pre (fst e) cp = false.
  Proof.
    intros n cp b e Hwf Hin. destruct (is_pre (fst e) cp) eqn:E; auto.
    exfalso. eapply is_pre_snoc_back; [eapply dump_keys_pre; eauto | exact E].
  Qed.

  Lemma lpm_filter : forall n s q,
    wf s n -> b_lpm P n q = filter (covering P q) (b_dump P n).
  Proof.
    induction n as [|cp d ps l IHl h IHh]; intros s q Hwf; [reflexivity|].
    destruct Hwf as (H1 & H2 & H3 & H4).
    unfold b_lpm, b_dump in *. cbn [lpm dump]. rewrite !filter_app. unfold broute, route in *.
    destruct (beq cp q && negb d) eqn:E1.
    - apply andb_true_iff in E1. destruct E1 as [E1 Ed]. apply beq_eq in E1. subst q.
      destruct d; [discriminate|].
      rewrite (filter_none (bits * list P) (covering P cp) (dump bits P l)),
              (filter_none (bits * list P) (covering P cp) (dump bits P h)).
      + simpl. unfold covering at 1. simpl. rewrite beq_refl. reflexivity.
      + intros e He. destruct (covering P cp e) eqn:C; auto. apply covering_pre in C.
        rewrite (child_not_covering h cp true e H4 He) in C. discriminate.
      + intros e He. destruct (covering P cp e) eqn:C; auto. apply covering_pre in C.
        rewrite (child_not_covering l cp false e H3 He) in C. discriminate.
    - destruct (bcontains cp q) eqn:E2; cbn [negb].
      + rewrite <- (IHl _ q H3), <- (IHh _ q H4).
        destruct d; auto. simpl. unfold covering at 1. simpl. rewrite E2, orb_true_r. reflexivity.
      + (* nothing below this node covers q *)
        assert (Hhead : filter (covering P q) (if d then [] else [(cp, ps)]) = []).
        { destruct d; auto. simpl. unfold covering. simpl. rewrite E2.
          rewrite andb_true_r in E1. rewrite E1. reflexivity. }
        assert (Hkids : forall b n, wf (cp ++ [b]) n -> filter (covering P q) (dump bits P n) = []).
        { intros b n Hn. apply filter_none. intros e He.
          destruct (covering P q e) eqn:C; auto. apply covering_pre in C.
          pose proof (dump_keys_pre n _ e Hn He) as Hk.
          assert (Hcq : is_pre cp q = true).
          { eapply is_pre_trans; [|exact C]. eapply is_pre_snoc_l; eauto. }
          apply bcontains_false_iff in E2. destruct E2 as [E2|E2]; [congruence|]. subst q.
          rewrite (child_not_covering n cp b e Hn He) in C. discriminate. }
        rewrite Hhead, (Hkids false l H3), (Hkids true h H4). reflexivity.
  Qed.

  Lemma longer_filter : forall n s q,
    wf s n -> b_dump P (b_getLongerNode P n q) = filter (covered P q) (b_dump P n).
  Proof.
    induction n as [|cp d ps l IHl h IHh]; intros s q Hwf; [reflexivity|].
    pose proof Hwf as Hwf0. destruct Hwf as (H1 & H2 & H3 & H4).
    unfold b_getLongerNode, b_dump in *. cbn [getLongerNode].
    change (blen cp) with (length cp).
    destruct (beq cp q || bcontains q cp) eqn:E1.
    - (* the whole subtree is inside q *)
      symmetry. apply filter_all. intros e He. apply pre_covered.
      assert (Hq : is_pre q cp = true).
      { apply orb_true_iff in E1. destruct E1 as [E1|E1].
        - apply beq_eq in E1. subst. apply is_pre_refl.
        - apply bcontains_iff in E1. tauto. }
      eapply is_pre_trans; [exact Hq|].
      apply (dump_keys_pre (Node cp d ps l h) cp e); auto.
      eapply wf_root; eauto. apply is_pre_refl.
    - apply orb_false_iff in E1. destruct E1 as [E1 E1'].
      assert (Hqc : is_pre q cp = false).
      { apply bcontains_false_iff in E1'. destruct E1' as [|E]; auto.
        subst. rewrite beq_refl in E1. discriminate. }
      cbn [dump]. rewrite !filter_app. unfold broute, route in *.
      assert (Hhead : filter (covered P q) (if d then [] else [(cp, ps)]) = []).
      { destruct d; auto. simpl. unfold covered. simpl. rewrite E1, E1'. reflexivity. }
      rewrite Hhead. cbn [app].
      destruct (bcontains cp q) eqn:E2; cbn [negb].
      + apply bcontains_iff in E2. destruct E2 as [Hpre Hne].
        pose proof (is_pre_snoc _ _ Hpre Hne) as Hside.
        assert (Hother : forall n, wf (cp ++ [negb (bitAt q (length cp + 1))]) n ->
                  filter (covered P q) (dump bits P n) = []).
        { intros n Hn. apply filter_none. intros e He.
          destruct (covered P q e) eqn:C; auto. apply covered_pre in C.
          pose proof (dump_keys_pre n _ e Hn He) as Hk.
          pose proof (is_pre_trans _ _ _ Hside C) as Hk'.
          rewrite (is_pre_snoc_other _ _ _ Hk') in Hk. discriminate. }
        destruct (bitAt q (length cp + 1)) eqn:Eb; cbn [negb] in *.
        * rewrite (Hother l H3). cbn [app]. apply (IHh _ q H4).
        * rewrite (Hother h H4), app_nil_r. apply (IHl _ q H3).
      + assert (Hcq : is_pre cp q = false).
        { apply bcontains_false_iff in E2. destruct E2 as [|E]; auto.
          subst. rewrite beq_refl in E1. discriminate. }
        assert (Hkids : forall b n, wf (cp ++ [b]) n -> filter (covered P q) (dump bits P n) = []).
        { intros b n Hn. apply filter_none. intros e He.
          destruct (covered P q e) eqn:C; auto. apply covered_pre in C.
          pose proof (dump_keys_pre n _ e Hn He) as Hk. apply is_pre_snoc_l in Hk.
          destruct (is_pre_comparable _ _ _ C Hk); congruence. }
        rewrite (Hkids false l H3), (Hkids true h H4). reflexivity.
  Qed.

  (* ================================================================ facts about the map *)
  Lemma lookup_set : forall (m : smap) p v q,
    lookup (set P m p v) q = if beq p q then Some v else lookup m q.
  Proof.
    induction m as [|[k w] m IH]; intros p v q; simpl.
    - destruct (beq p q); reflexivity.
    - destruct (beq k p) eqn:E; simpl.
      + apply beq_eq in E. subst k. destruct (beq p q); reflexivity.
      + rewrite IH. destruct (beq k q) eqn:E2; auto.
        destruct (beq p q) eqn:E3; auto.
        apply beq_eq in E2. apply beq_eq in E3. subst. rewrite beq_refl in E. discriminate.
  Qed.

  Lemma set_keys : forall (m : smap) p v k,
    In k (map fst (set P m p v)) -> k = p \/ In k (map fst m).
  Proof.
    induction m as [|[k0 w] m IH]; intros p v k H; simpl in *.
    - destruct H as [H|[]]; auto.
    - destruct (beq k0 p) eqn:E; simpl in H.
      + destruct H; auto.
      + destruct H as [H|H]; auto. apply IH in H. tauto.
  Qed.

  Lemma set_NoDup : forall (m : smap) p v, NoDup (map fst m) -> NoDup (map fst (set P m p v)).
  Proof.
    induction m as [|[k w] m IH]; intros p v H; simpl.
    - repeat constructor. intros [].
    - inversion H; subst. destruct (beq k p) eqn:E; simpl.
      + constructor; auto.
      + constructor; auto. intros Hin. apply set_keys in Hin. destruct Hin as [Hin|Hin]; auto.
        subst. rewrite beq_refl in E. discriminate.
  Qed.

  Lemma set_length : forall (m : smap) p v,
    length (set P m p v) = match lookup m p with Some _ => length m | None => S (length m) end.
  Proof.
    induction m as [|[k w] m IH]; intros p v; simpl; auto.
    destruct (beq k p); simpl; auto. rewrite IH. destruct (lookup m p); reflexivity.
  Qed.

  Lemma lookup_notin : forall (m : smap) q, ~ In q (map fst m) -> lookup m q = None.
  Proof.
    intros m q H. apply lookup_None. intros e He E. apply H. rewrite <- E. apply in_map. exact He.
  Qed.

  Lemma lookup_None_notin : forall (m : smap) q, lookup m q = None -> ~ In q (map fst m).
  Proof.
    induction m as [|[k w] m IH]; intros q H; simpl in *; auto.
    destruct (beq k q) eqn:E; [discriminate|].
    intros [Hk|Hin]; [subst; rewrite beq_refl in E; discriminate|]. eapply IH; eauto.
  Qed.

  Lemma lookup_In : forall (m : smap) q v, lookup m q = Some v -> In (q, v) m.
  Proof.
    induction m as [|[k w] m IH]; intros q v H; simpl in *; [discriminate|].
    destruct (beq k q) eqn:E.
    - apply beq_eq in E. inversion H. subst. auto.
    - right. auto.
  Qed.

  Lemma lookup_del : forall (m : smap) p q,
    NoDup (map fst m) -> lookup (del P m p) q = if beq p q then None else lookup m q.
  Proof.
    induction m as [|[k w] m IH]; intros p q H; simpl.
    - destruct (beq p q); reflexivity.
    - inversion H; subst. destruct (beq k p) eqn:E; simpl.
      + apply beq_eq in E. subst k. destruct (beq p q) eqn:E2; auto.
        apply beq_eq in E2. subst q. apply lookup_notin; auto.
      + rewrite IH by auto. destruct (beq k q) eqn:E2; auto.
        destruct (beq p q) eqn:E3; auto.
        apply beq_eq in E2. apply beq_eq in E3. subst. rewrite beq_refl in E. discriminate.
  Qed.

  Lemma del_keys : forall (m : smap) p k, In k (map fst (del P m p)) -> In k (map fst m).
  Proof.
    induction m as [|[k0 w] m IH]; intros p k H; simpl in *; auto.
    destruct (beq k0 p); simpl in *; auto. destruct H; eauto.
  Qed.

  Lemma del_NoDup : forall (m : smap) p, NoDup (map fst m) -> NoDup (map fst (del P m p)).
  Proof.
    induction m as [|[k w] m IH]; intros p H; simpl; auto.
    inversion H; subst. destruct (beq k p); simpl; auto.
    constructor; auto. intros Hin. apply del_keys in Hin. contradiction.
  Qed.

  Lemma del_length : forall (m : smap) p v,
    lookup m p = Some v -> length m = S (length (del P m p)).
  Proof.
    induction m as [|[k w] m IH]; intros p v H; simpl in *; [discriminate|].
    destruct (beq k p); simpl; auto. f_equal. eapply IH; eauto.
  Qed.

  Lemma perm_filter : forall (A : Type) (f : A -> bool) l l',
    Permutation l l' -> Permutation (filter f l) (filter f l').
  Proof.
    intros A f l l' H. induction H; simpl.
    - constructor.
    - destruct (f x); auto.
    - destruct (f x), (f y); auto. constructor.
    - eapply perm_trans; eauto.
  Qed.

  (* two duplicate-free association lists with the same lookups are permutations of each other *)
  Lemma equiv_perm : forall (m1 m2 : smap),
    NoDup (map fst m1) -> NoDup (map fst m2) ->
    (forall q, lookup m1 q = lookup m2 q) -> Permutation m1 m2.
  Proof.
    induction m1 as [|[k v] r IH]; intros m2 N1 N2 H.
    - destruct m2 as [|[k v] r]; [constructor|].
      specialize (H k). simpl in H. rewrite beq_refl in H. discriminate.
    - inversion N1 as [|? ? Hk Nr]; subst.
      assert (Hin : In (k, v) m2).
      { apply lookup_In. rewrite <- H. simpl. rewrite beq_refl. reflexivity. }
      apply in_split in Hin. destruct Hin as (a & b & ->).
      apply Permutation_cons_app.
      rewrite map_app in N2. simpl in N2.
      pose proof (NoDup_remove_1 _ _ _ N2) as N2'. pose proof (NoDup_remove_2 _ _ _ N2) as Hk2.
      rewrite <- map_app in N2', Hk2.
      apply IH; auto.
      intros q. destruct (beq k q) eqn:E.
      + apply beq_eq in E. subst q. rewrite (lookup_notin r k Hk), (lookup_notin (a ++ b) k Hk2).
        reflexivity.
      + specialize (H q). simpl in H. rewrite E in H. rewrite H.
        rewrite !lookup_app. simpl. rewrite E. reflexivity.
  Qed.

  (* ================================================================ the refinement invariant *)
  Local Notation rootT := (root bits P).
  Local Notation countT := (count bits P).

  Definition Inv (t : btable P) (m : smap) : Prop :=
    wf [] (rootT t) /\
    (forall q, nlookup (rootT t) q = lookup m q) /\
    NoDup (map fst m) /\
    (forall q ps, lookup m q = Some ps -> ps <> []) /\
    countT t = Z.of_nat (length m).

  Lemma Inv_empty : Inv (b_empty P) [].
  Proof.
    unfold Inv. simpl. repeat split; auto. constructor. intros q ps H. discriminate.
  Qed.

  Lemma Inv_equiv : forall t m1 m2,
    Inv t m1 -> NoDup (map fst m2) -> (forall q, lookup m1 q = lookup m2 q) -> Inv t m2.
  Proof.
    intros t m1 m2 (W & L & N & E & C) N2 H.
    unfold Inv. repeat split; auto.
    - intros q. rewrite L. apply H.
    - intros q ps Hq. rewrite <- H in Hq. eauto.
    - rewrite C. f_equal. apply Permutation_length. apply equiv_perm; auto.
  Qed.

  Lemma Inv_add : forall t m p a,
    Inv t m -> Inv (t_addPath bits P beq bcontains lcp bitAt blen t p a) (spec_add P m p a).
  Proof.
    intros t m p a (W & L & N & E & C).
    destruct (addPath_ok (rootT t) [] p a W eq_refl) as (W' & L' & S').
    unfold t_addPath, b_addPath in *.
    destruct (addPath bits P beq bcontains lcp bitAt blen (rootT t) p a) as [r isNew].
    cbn [fst snd] in *. unfold Inv, spec_add. cbn [root count].
    split; auto. split; [|split; [|split]].
    - intros q. rewrite L', lookup_set, !L. reflexivity.
    - apply set_NoDup; auto.
    - intros q ps. rewrite lookup_set. destruct (beq p q).
      + intros H. inversion H. destruct (lookup m p) as [l0|]; [|discriminate].
        destruct l0; discriminate.
      + eauto.
    - rewrite set_length, S', L, C. destruct (lookup m p); [reflexivity|].
      rewrite Nat2Z.inj_succ. reflexivity.
  Qed.

  Lemma lookup_self_None : forall (m : smap) p q,
    lookup m p = None -> (if beq p q then None else lookup m q) = lookup m q.
  Proof.
    intros m p q H. destruct (beq p q) eqn:E; auto. apply beq_eq in E. subst. auto.
  Qed.

  Lemma Inv_remove : forall t m p a,
    Inv t m -> Inv (t_removePath bits P peq beq bitAt blen t p a) (spec_remove P peq m p a).
  Proof.
    intros t m p a (W & L & N & E & C).
    destruct (removePath_ok (rootT t) [] p a W) as (W' & L' & S').
    unfold t_removePath, b_removePath in *.
    destruct (removePath bits P peq beq bitAt blen (rootT t) p a) as [r fin].
    cbn [fst snd] in *. unfold Inv, spec_remove. cbn [root count].
    rewrite L in *. destruct (lookup m p) as [ps|] eqn:Hp; cbn [rem_result] in *.
    - destruct (is_nil P (remove_first P peq a ps)) eqn:En; subst fin.
      + split; auto. split; [|split; [|split]].
        * intros q. rewrite L', lookup_del, L by auto. reflexivity.
        * apply del_NoDup; auto.
        * intros q ps0. rewrite lookup_del by auto. destruct (beq p q); [discriminate|eauto].
        * rewrite C, (del_length m p ps Hp), Nat2Z.inj_succ. lia.
      + split; auto. split; [|split; [|split]].
        * intros q. rewrite L', lookup_set, L. reflexivity.
        * apply set_NoDup; auto.
        * intros q ps0. rewrite lookup_set. destruct (beq p q); [|eauto].
          intros H. inversion H. subst ps0. intros Hnil. rewrite Hnil in En. discriminate.
        * rewrite set_length, Hp. exact C.
    - subst fin. split; auto. split; [|split; [|split]]; auto.
      intros q. rewrite L', L. apply lookup_self_None; auto.
  Qed.

  Lemma subst_first_nonnil : forall o nw (ps : list P), ps <> [] -> subst_first P peq o nw ps <> [].
  Proof. intros o nw [|x ps] H; [contradiction|]. simpl. destruct (peq x o); discriminate. Qed.

  Lemma Inv_subst : forall t m p o nw,
    Inv t m -> Inv (t_substPath bits P peq beq bitAt blen t p o nw) (spec_subst P peq m p o nw).
  Proof.
    intros t m p o nw (W & L & N & E & C).
    destruct (substPath_ok (rootT t) [] p o nw W) as (W' & L').
    unfold t_substPath, b_substPath in *. unfold Inv, spec_subst. cbn [root count].
    rewrite L in *. destruct (lookup m p) as [ps|] eqn:Hp; cbn [subst_result] in *.
    - split; auto. split; [|split; [|split]].
      + intros q. rewrite L', lookup_set, L. reflexivity.
      + apply set_NoDup; auto.
      + intros q ps0. rewrite lookup_set. destruct (beq p q); [|eauto].
        intros H. inversion H. apply subst_first_nonnil. eauto.
      + rewrite set_length, Hp. exact C.
    - split; auto. split; [|split; [|split]]; auto.
      intros q. rewrite L', L. apply lookup_self_None; auto.
  Qed.

  Definition spec_removeAll (m : smap) (p : bits) (xs : list P) : smap :=
    fold_left (fun m a => spec_remove P peq m p a) xs m.

  Lemma Inv_removePaths : forall xs t m p,
    Inv t m -> Inv (t_removePaths bits P peq beq bitAt blen t p xs) (spec_removeAll m p xs).
  Proof.
    unfold t_removePaths, spec_removeAll.
    induction xs as [|x xs IH]; intros t m p H; simpl; auto.
    apply IH. apply Inv_remove. exact H.
  Qed.

  (* removing, one after the other, all the paths stored for p empties p and nothing else *)
  Lemma removeAll_lookup : forall ps (m : smap) p,
    NoDup (map fst m) -> lookup m p = Some ps -> ps <> [] ->
    forall q, lookup (spec_removeAll m p ps) q = if beq p q then None else lookup m q.
  Proof.
    unfold spec_removeAll.
    induction ps as [|x xs IH]; intros m p N Hp Hne q; [contradiction|].
    simpl. unfold spec_remove at 2. rewrite Hp. simpl. rewrite peq_refl.
    destruct xs as [|y ys].
    - simpl. apply lookup_del; auto.
    - cbn [is_nil].
      rewrite (IH (set P m p (y :: ys)) p).
      + rewrite lookup_set. destruct (beq p q); reflexivity.
      + apply set_NoDup; auto.
      + rewrite lookup_set, beq_refl. reflexivity.
      + discriminate.
  Qed.

  Lemma t_get_ok : forall t m q,
    Inv t m ->
    bt_get P t q = match lookup m q with Some ps => Some (q, ps) | None => None end.
  Proof.
    intros t m q (W & L & _). unfold bt_get, t_get.
    pose proof (get_ok (rootT t) [] q W) as G. unfold b_get in G. rewrite G, L. reflexivity.
  Qed.

  Lemma Inv_replace : forall t m p a,
    Inv t m ->
    Inv (t_replacePath bits P peq beq bcontains lcp bitAt blen t p a) (spec_replace P m p a).
  Proof.
    intros t m p a H. pose proof H as (W & L & N & E & C).
    unfold t_replacePath, spec_replace.
    pose proof (t_get_ok t m p H) as G. unfold bt_get in G. rewrite G.
    destruct (lookup m p) as [ps|] eqn:Hp.
    - cbn [snd].
      pose proof (Inv_removePaths ps t m p H) as H1.
      pose proof (Inv_add _ _ p a H1) as H2.
      eapply Inv_equiv; [exact H2| apply set_NoDup; auto |].
      pose proof (removeAll_lookup ps m p N Hp (E _ _ Hp)) as R.
      intros q. unfold spec_add. rewrite !lookup_set, (R p), beq_refl, (R q).
      destruct (beq p q); reflexivity.
    - pose proof (Inv_add t m p a H) as H2. unfold spec_add in H2. rewrite Hp in H2. exact H2.
  Qed.

  Lemma Inv_removePfx : forall t m p,
    Inv t m -> Inv (t_removePfx bits P peq beq bitAt blen t p) (spec_removePfx P m p).
  Proof.
    intros t m p H. pose proof H as (W & L & N & E & C).
    unfold t_removePfx, spec_removePfx.
    pose proof (t_get_ok t m p H) as G. unfold bt_get in G. rewrite G.
    destruct (lookup m p) as [ps|] eqn:Hp.
    - cbn [snd].
      pose proof (Inv_removePaths ps t m p H) as H1.
      eapply Inv_equiv; [exact H1| apply del_NoDup; auto |].
      intros q. rewrite (removeAll_lookup ps m p N Hp (E _ _ Hp)), lookup_del by auto. reflexivity.
    - eapply Inv_equiv; [exact H| apply del_NoDup; auto |].
      intros q. rewrite lookup_del by auto. symmetry. apply lookup_self_None; auto.
  Qed.

  Lemma Inv_step : forall t m o, Inv t m -> Inv (b_step P peq t o) (spec_step P peq m o).
  Proof.
    intros t m [p a|p a|p a|p|p o nw] H; unfold b_step; simpl.
    - apply Inv_add; auto.
    - apply Inv_remove; auto.
    - apply Inv_replace; auto.
    - apply Inv_removePfx; auto.
    - apply Inv_subst; auto.
  Qed.

  Lemma Inv_fold : forall ops t m,
    Inv t m -> Inv (fold_left (b_step P peq) ops t) (fold_left (spec_step P peq) ops m).
  Proof.
    induction ops as [|o ops IH]; intros t m H; simpl; auto.
    apply IH. apply Inv_step. exact H.
  Qed.

  Theorem Inv_run : forall ops, Inv (b_run P peq ops) (spec_run P peq ops).
  Proof. intros ops. apply (Inv_fold ops (b_empty P) []). apply Inv_empty. Qed.

  (* ================================================================ the refinement theorems *)
  Theorem refines_get : forall ops q,
    bt_get P (b_run P peq ops) q = spec_get P (spec_run P peq ops) q.
  Proof. intros ops q. apply t_get_ok. apply Inv_run. Qed.

  Lemma dump_perm : forall t m, Inv t m -> Permutation (bt_dump P t) m.
  Proof.
    intros t m (W & L & N & E & C). unfold bt_dump, t_dump.
    apply equiv_perm; auto.
    - apply (dump_NoDup (rootT t) [] W).
    - intros q. rewrite <- L. apply (lookup_dump (rootT t) [] q W).
  Qed.

  Theorem refines_dump : forall ops,
    Permutation (bt_dump P (b_run P peq ops)) (spec_run P peq ops) /\
    NoDup (map fst (bt_dump P (b_run P peq ops))).
  Proof.
    intros ops. pose proof (Inv_run ops) as H. split; [apply dump_perm; auto|].
    destruct H as (W & _). apply (dump_NoDup _ [] W).
  Qed.

  Theorem refines_lpm : forall ops q,
    Permutation (bt_lpm P (b_run P peq ops) q) (spec_lpm P (spec_run P peq ops) q).
  Proof.
    intros ops q. pose proof (Inv_run ops) as H. pose proof H as (W & _).
    unfold bt_lpm, t_lpm, spec_lpm.
    pose proof (lpm_filter (rootT (b_run P peq ops)) [] q W) as F. unfold b_lpm in F. rewrite F.
    apply perm_filter. apply (dump_perm _ _ H).
  Qed.

  Theorem refines_longer : forall ops q,
    Permutation (bt_getLonger P (b_run P peq ops) q) (spec_longer P (spec_run P peq ops) q).
  Proof.
    intros ops q. pose proof (Inv_run ops) as H. pose proof H as (W & _).
    unfold bt_getLonger, t_getLonger, spec_longer.
    pose proof (longer_filter (rootT (b_run P peq ops)) [] q W) as F.
    unfold b_dump, b_getLongerNode in F. rewrite F.
    apply perm_filter. apply (dump_perm _ _ H).
  Qed.

  Theorem refines_count : forall ops,
    bt_count P (b_run P peq ops) = Z.of_nat (length (spec_run P peq ops)).
  Proof. intros ops. destruct (Inv_run ops) as (_ & _ & _ & _ & C). exact C. Qed.

  (* the map itself never lists a prefix twice and never keeps a prefix without paths *)
  Theorem spec_wellformed : forall ops,
    NoDup (map fst (spec_run P peq ops)) /\
    forall q ps, lookup (spec_run P peq ops) q = Some ps -> ps <> [].
  Proof. intros ops. destruct (Inv_run ops) as (_ & _ & N & E & _). auto. Qed.
End TrieProofs.
