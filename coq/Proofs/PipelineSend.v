(* Pipeline, part 5: the update senders of the composed model.
   - every session's sender is a run of the component model (Model.UpdateSender.run) on the recorded labels;
   - End-of-RIB completes within the registration (toSendMu is held throughout), so the sender is never locked
     when the Adj-RIB-Out calls it: its Add / Remove labels are exactly the Adj-RIB-Out's calls on its client;
   - with C10 (converges_partial) as a black box: once drained the peer's view is what those calls amount to. *)
From Coq Require Import List NArith ZArith Bool Arith Lia Permutation.
Import ListNotations.
From BioVerif Require Import Model.Pipeline Spec.PipelineSpec Proofs.PipelineIn Proofs.PipelineLoc Proofs.PipelineProofs
  Proofs.PipelineOut.
From BioVerif Require Model.AdjRIBIn Model.LocRIBClients Model.AdjRIBOut Model.UpdateSender Model.LocView
  Spec.LocRIBClientsSpec Spec.ExportViewSpec Spec.UpdateSenderSpec Proofs.UpdateSenderProofs.
Local Open Scope nat_scope.

(* ------------------------------------------------------------------ the Adj-RIB-Out only extends its client log *)
Section Elog.
  Import AdjRIBOut.
  Variable P : Type.
  Variable apply : P -> N -> path -> option path.
  Variable s : sess.

  Definition lext (a a' : aro P) : Prop := exists new, elog a' = new ++ elog a.

  Lemma lext_refl : forall a, lext a a.
  Proof. intros a. now exists []. Qed.

  Lemma lext_trans : forall a b c, lext a b -> lext b c -> lext a c.
  Proof. intros a b c [n1 E1] [n2 E2]. exists (n2 ++ n1). now rewrite E2, E1, app_assoc. Qed.

  Lemma lext_fold : forall (A : Type) (g : aro P -> A -> aro P) l a, (forall acc x, lext acc (g acc x)) -> lext a (fold_left g l a).
  Proof.
    intros A g l. induction l as [|x l IH]; intros a H; cbn [fold_left]; [apply lext_refl|].
    eapply lext_trans; [apply H|apply IH; exact H].
  Qed.

  Lemma lext_add_inner : forall a pfx p, lext a (add_inner P s a pfx p).
  Proof.
    intros a pfx p. unfold add_inner. destruct (s_addpath s).
    - destruct (path_hkey p); [|(exists []; reflexivity)].
      destruct (PathIDs.pid_add hkey hkey_eq_dec h (pm a)) as [m [id| |]]; cbn.
      + now exists [Announce pfx (path_set_pid id p)].
      + (exists []; reflexivity).
      + (exists []; reflexivity).
    - cbn. exists (Announce pfx p :: rev (map (Withdraw pfx) (tbl_get pfx (tbl a)))). reflexivity.
  Qed.

  Lemma lext_remove_exported : forall a pfx p, lext a (fst (remove_exported P s a pfx p)).
  Proof.
    intros a pfx p. unfold remove_exported. destruct (tbl_get pfx (tbl a)) as [|x l]; [(exists []; reflexivity)|].
    destruct (s_addpath s).
    - destruct (find (fun sp => is_announcement_of sp p) (x :: l)) as [sp|]; [|(exists []; reflexivity)].
      destruct (path_hkey sp); [|(exists []; reflexivity)].
      destruct (PathIDs.pid_release hkey hkey_eq_dec h (pm a)) as [m [r|]]; cbn.
      + now exists [Withdraw pfx sp].
      + (exists []; reflexivity).
    - cbn. now exists [Withdraw pfx p].
  Qed.

  Lemma lext_remove_path : forall a pfx p, lext a (fst (remove_path P apply s a pfx p)).
  Proof.
    intros a pfx p. unfold remove_path. destruct (should_propagate s p); [|(exists []; reflexivity)].
    destruct (apply (cur a) pfx p); [apply lext_remove_exported|(exists []; reflexivity)].
  Qed.

  Lemma lext_add_path : forall a pfx p, lext a (add_path P apply s a pfx p).
  Proof.
    intros a pfx p. unfold add_path. destruct (redistribute s p) as [r b].
    destruct (should_propagate s (PBgp r b)).
    - destruct (rewrite s r b); [|(exists []; reflexivity)].
      destruct (apply (cur a) pfx (PBgp r b0)); [apply lext_add_inner|(exists []; reflexivity)].
    - destruct (s_addpath s); [|(exists []; reflexivity)]. unfold wipe. apply lext_fold. intros acc x. apply lext_remove_path.
  Qed.

  (* AddPath / RemovePath: the calls of the Loc-RIB *)
  Lemma lext_step : forall a o, match o with OReplace _ _ => False | _ => True end -> lext a (step P apply s a o).
  Proof.
    intros a o H. destruct o as [pfx p|pfx p|nw v]; [apply lext_add_path|apply lext_remove_path|contradiction].
  Qed.
End Elog.

(* ------------------------------------------------------------------ the update sender *)
Section Send.
  Import UpdateSender.

  Lemma run_from_app : forall c a b s, run_from c s (a ++ b) = match run_from c s a with Some s' => run_from c s' b | None => None end.
  Proof.
    intros c a. induction a as [|l a IH]; intros b s; cbn [app run_from]; [reflexivity|].
    destruct (step c s l); [apply IH|reflexivity].
  Qed.

  (* what us_take keeps: a run of the component model, on exactly the labels taken *)
  Definition Urun (c : cfg) (ul : st * list label) : Prop := run c (rev (snd ul)) = Some (fst ul).

  Lemma us_take_run : forall c ul l, Urun c ul -> Urun c (us_take c ul l).
  Proof.
    intros c [u lab] l H. unfold us_take, Urun in *. cbn [fst snd] in *.
    destruct (step c u l) as [u'|] eqn:E; cbn [fst snd]; [|exact H].
    unfold run in *. cbn [rev]. rewrite run_from_app, H. cbn [run_from]. now rewrite E.
  Qed.

  Lemma us_take_fold_run : forall c ls ul, Urun c ul -> Urun c (fold_left (us_take c) ls ul).
  Proof.
    intros c ls. induction ls as [|l ls IH]; intros ul H; cbn [fold_left]; [exact H|]. apply IH. now apply us_take_run.
  Qed.

  Definition route_label (l : label) : bool := match l with Add _ _ | Remove _ _ => true | _ => false end.

  (* while EndOfRIB is not in progress every AddPath / RemovePath is taken *)
  Lemma us_take_route1 : forall c u lab l, eor u = None -> route_label l = true ->
    exists u', us_take c (u, lab) l = (u', l :: lab) /\ eor u' = None.
  Proof.
    intros c u lab l HE Hl.
    assert (HU : unlocked u = true) by (unfold unlocked; now rewrite HE).
    unfold us_take. cbn [fst snd].
    destruct l as [x p|x p|k| |o|]; try discriminate; cbn [step]; rewrite HU; eexists; (split; [reflexivity|exact HE]).
  Qed.

  Lemma us_take_routes : forall c ls u lab,
    eor u = None -> Forall (fun l => route_label l = true) ls ->
    let r := fold_left (us_take c) ls (u, lab) in
    eor (fst r) = None /\ snd r = rev ls ++ lab.
  Proof.
    intros c ls. induction ls as [|l ls IH]; intros u lab HE HF; cbn [fold_left]; [auto|].
    inversion HF as [|? ? Hl HF']; subst.
    destruct (us_take_route1 c u lab l HE Hl) as [u' [E1 E2]]. rewrite E1.
    destruct (IH u' (l :: lab) E2 HF') as [F1 F2]. cbv zeta in *. split; [exact F1|].
    rewrite F2. cbn [rev]. now rewrite <- app_assoc.
  Qed.

  (* a label that is not AddPath / RemovePath does not show among the route labels, and leaves eor alone unless it is EndOfRIB's *)
  Lemma us_take_other : forall c u lab l, route_label l = false ->
    filter route_label (rev (snd (us_take c (u, lab) l))) = filter route_label (rev lab).
  Proof.
    intros c u lab l H. unfold us_take. cbn [fst snd]. destruct (step c u l); cbn [snd]; [|reflexivity].
    cbn [rev]. rewrite filter_app. cbn [filter]. rewrite H. apply app_nil_r.
  Qed.

  Lemma us_take_sender_eor : forall c u lab l, eor u = None ->
    match l with Dequeue _ | EmitOne => True | _ => False end -> eor (fst (us_take c (u, lab) l)) = None.
  Proof.
    intros c u lab l HE Hl. unfold us_take. cbn [fst snd].
    destruct l as [x p|x p|k| |o|]; try contradiction; cbn [step].
    - unfold unlocked. destruct (eor u) eqn:EE; [discriminate|]. destruct (inflight u); cbn [fst eor]; [exact EE|].
      destruct (q_take k (queue u)) as [[e q']|]; cbn [fst eor]; first [exact EE|reflexivity].
    - destruct (inflight u) as [b|]; cbn [fst]; [|exact HE]. destruct (b_msgs b); cbn [fst eor]; exact HE.
  Qed.

  (* EndOfRIB: the flush of every batch and the marker; afterwards the sender is unlocked again *)
  Fixpoint eor_count (bs : list batch) : nat :=
    match bs with [] => 0 | b :: r => Nat.max 1 (length (b_msgs b)) + eor_count r end.

  Lemma eor_step_msg : forall c u lab p m ms bs, eor u = Some (mkbatch p (m :: ms) :: bs) ->
    us_take c (u, lab) EoRStep =
    (mkst (queue u) (inflight u) (Some (match ms with [] => bs | _ => mkbatch p ms :: bs end)) (emit c p m (wire u)), EoRStep :: lab).
  Proof. intros c u lab p m ms bs HE. unfold us_take. cbn [fst snd step]. rewrite HE. reflexivity. Qed.

  Lemma eor_step_empty : forall c u lab p bs, eor u = Some (mkbatch p [] :: bs) ->
    us_take c (u, lab) EoRStep = (mkst (queue u) (inflight u) (Some bs) (wire u), EoRStep :: lab).
  Proof. intros c u lab p bs HE. unfold us_take. cbn [fst snd step]. rewrite HE. reflexivity. Qed.

  Lemma eor_step_last : forall c u lab, eor u = Some [] ->
    us_take c (u, lab) EoRStep = (mkst (queue u) (inflight u) None (MEoR :: wire u), EoRStep :: lab).
  Proof. intros c u lab HE. unfold us_take. cbn [fst snd step]. rewrite HE. reflexivity. Qed.

  Lemma filter_snoc_eor : forall lab, filter route_label (rev (EoRStep :: lab)) = filter route_label (rev lab).
  Proof. intros lab. cbn [rev]. rewrite filter_app. cbn. apply app_nil_r. Qed.

  Lemma eor_one_batch : forall c ms p bs u lab, ms <> [] ->
    eor u = Some (mkbatch p ms :: bs) ->
    let r := fold_left (us_take c) (repeat EoRStep (length ms)) (u, lab) in
    eor (fst r) = Some bs /\ filter route_label (rev (snd r)) = filter route_label (rev lab).
  Proof.
    intros c ms. induction ms as [|m ms IH]; intros p bs u lab NE HE; [congruence|].
    cbn [length repeat fold_left]. rewrite (eor_step_msg c u lab p m ms bs HE).
    destruct ms as [|m' ms'].
    - cbn [length repeat fold_left fst snd eor]. split; [reflexivity|apply filter_snoc_eor].
    - match goal with |- context [fold_left _ _ (?u1, ?l1)] => destruct (IH p bs u1 l1) as [E1 E2] end; [discriminate|reflexivity|].
      cbv zeta in *. split; [exact E1|]. rewrite E2. apply filter_snoc_eor.
  Qed.

  Lemma eor_batches : forall c bs u lab,
    eor u = Some bs ->
    let r := fold_left (us_take c) (repeat EoRStep (eor_count bs)) (u, lab) in
    eor (fst r) = Some [] /\ filter route_label (rev (snd r)) = filter route_label (rev lab).
  Proof.
    intros c bs. induction bs as [|[p ms] bs IH]; intros u lab HE; cbn [eor_count].
    - cbn. auto.
    - cbn [b_msgs]. destruct ms as [|m ms].
      + cbn [length Nat.max Nat.add repeat fold_left]. rewrite (eor_step_empty c u lab p bs HE).
        match goal with |- context [fold_left _ _ (?u1, ?l1)] => destruct (IH u1 l1) as [E1 E2] end; [reflexivity|].
        cbv zeta in *. split; [exact E1|]. rewrite E2. apply filter_snoc_eor.
      + replace (Nat.max 1 (length (m :: ms))) with (length (m :: ms)) by (cbn; lia).
        rewrite repeat_app, fold_left_app.
        destruct (eor_one_batch c (m :: ms) p bs u lab) as [E1 E2]; [discriminate|exact HE|]. cbv zeta in E1, E2.
        destruct (fold_left (us_take c) (repeat EoRStep (length (m :: ms))) (u, lab)) as [u1 l1] eqn:EF. cbn [fst snd] in *.
        destruct (IH u1 l1 E1) as [F1 F2]. cbv zeta in *. split; [exact F1|]. now rewrite F2.
  Qed.

  Lemma in_order_nil : forall q, in_order [] q = q.
  Proof. reflexivity. Qed.

  Lemma eor_steps_count : forall c q, eor_steps c q = S (eor_count (map (batch_of c) q)).
  Proof.
    intros c q. unfold eor_steps. f_equal. induction q as [|e q IH]; [reflexivity|]. cbn [fold_right map eor_count]. now rewrite IH.
  Qed.

  Lemma us_eor_spec : forall c u lab, eor u = None ->
    let r := us_eor c (u, lab) in
    eor (fst r) = None /\ filter route_label (rev (snd r)) = filter route_label (rev lab).
  Proof.
    intros c u lab HE. unfold us_eor. cbn [fst].
    assert (HU : unlocked u = true) by (unfold unlocked; now rewrite HE).
    assert (E0 : us_take c (u, lab) (EoRBegin []) =
                 (mkst [] (inflight u) (Some (map (batch_of c) (queue u))) (wire u), EoRBegin [] :: lab)).
    { unfold us_take. cbn [fst snd step]. rewrite HU. reflexivity. }
    rewrite E0, eor_steps_count. clear E0.
    replace (S (eor_count (map (batch_of c) (queue u)))) with (eor_count (map (batch_of c) (queue u)) + 1)%nat by lia.
    rewrite repeat_app, fold_left_app. cbn [repeat fold_left].
    match goal with |- context [fold_left _ (repeat _ _) (?u1, ?l1)] => destruct (eor_batches c (map (batch_of c) (queue u)) u1 l1) as [E1 E2] end; [reflexivity|].
    cbv zeta in E1, E2.
    match goal with |- context [fold_left _ (repeat _ _) ?x] => destruct (fold_left (us_take c) (repeat EoRStep (eor_count (map (batch_of c) (queue u)))) x) as [u2 l2] eqn:EF end.
    cbn [fst snd] in *. rewrite (eor_step_last c u2 l2 E1). cbn [fst snd eor]. split; [reflexivity|].
    rewrite filter_snoc_eor, E2. cbn [rev]. rewrite filter_app. cbn. apply app_nil_r.
  Qed.

  Lemma us_eor_run : forall c ul, Urun c ul -> Urun c (us_eor c ul).
  Proof. intros c ul H. unfold us_eor. apply us_take_fold_run. now apply us_take_run. Qed.

  (* the Adj-RIB-Out as the labels define it only reads the route labels *)
  Lemma adj_rib_out_filter : forall c ls, UpdateSenderSpec.adj_rib_out c ls = UpdateSenderSpec.adj_rib_out c (filter route_label ls).
  Proof.
    intros c ls. unfold UpdateSenderSpec.adj_rib_out. generalize UpdateSenderSpec.rib_empty.
    induction ls as [|l ls IH]; intros r; [reflexivity|]. cbn [fold_left filter].
    destruct l; cbn [route_label fold_left UpdateSenderSpec.rib_step]; apply IH.
  Qed.
End Send.

(* ------------------------------------------------------------------ in the composed model *)
Section PipeSend.
  Variable P : Type.
  Variable apply : P -> N -> AdjRIBOut.path -> option AdjRIBOut.path.
  Variable sel : nat -> list (LocRIBClients.entry AdjRIBOut.path) -> list (LocRIBClients.entry AdjRIBOut.path) * nat.
  Variable tagf : AdjRIBOut.bgp -> N.
  Variable cfgs : list (scfg P).

  Notation sst := (sst P).
  Notation pst := (pst P).
  Notation pstep := (Pipeline.step P apply sel tagf cfgs).
  Notation prun := (Pipeline.run P apply sel tagf cfgs).

  (* the sending half of one session *)
  Definition Usess (c : scfg P) (s : sst) : Prop :=
    UpdateSender.run (sc_us P c) (rev (ss_lab P s)) = Some (ss_us P s) /\
    UpdateSender.eor (ss_us P s) = None /\
    filter route_label (rev (ss_lab P s)) = client_calls P tagf (ss_out P s).

  Lemma lab_of_route : forall e, route_label (lab_of tagf e) = true.
  Proof. intros [p x|p x]; reflexivity. Qed.

  Lemma Usess_aro_call : forall c o s, match o with AdjRIBOut.OReplace _ _ => False | _ => True end ->
    Usess c s -> Usess c (aro_call P apply tagf c o s).
  Proof.
    intros c o s Ho [HR [HE HF]]. unfold aro_call.
    destruct (lext_step P apply (sc_sess P c) (ss_out P s) o Ho) as [new HL].
    rewrite HL, gained_app.
    set (ls := map (lab_of tagf) (rev new)).
    assert (FL : Forall (fun l => route_label l = true) ls).
    { unfold ls. apply Forall_forall. intros l Hl. apply in_map_iff in Hl. destruct Hl as [e [<- _]]. apply lab_of_route. }
    destruct (us_take_routes (sc_us P c) ls (ss_us P s) (ss_lab P s) HE FL) as [E1 E2]. cbv zeta in E1, E2.
    unfold Usess. cbn [set_out ss_us ss_lab ss_out]. split; [|split].
    - apply (us_take_fold_run (sc_us P c) ls (ss_us P s, ss_lab P s)). exact HR.
    - exact E1.
    - rewrite E2, rev_app_distr, rev_involutive, filter_app, HF.
      unfold client_calls. rewrite HL, rev_app_distr, map_app. f_equal.
      unfold ls. clear -tagf. induction (rev new) as [|e l IH]; [reflexivity|]. cbn [map filter]. rewrite lab_of_route. now rewrite IH.
  Qed.

  Lemma Usess_aro_eor : forall c s, Usess c s -> Usess c (aro_eor P c s).
  Proof.
    intros c s [HR [HE HF]]. unfold aro_eor.
    destruct (us_eor_spec (sc_us P c) (ss_us P s) (ss_lab P s) HE) as [E1 E2]. cbv zeta in E1, E2.
    unfold Usess. cbn [set_out ss_us ss_lab ss_out]. split; [|split].
    - apply (us_eor_run (sc_us P c) (ss_us P s, ss_lab P s)). exact HR.
    - exact E1.
    - now rewrite E2.
  Qed.

  Lemma Usess_ext : forall c s s', ss_us P s' = ss_us P s -> ss_lab P s' = ss_lab P s -> ss_out P s' = ss_out P s ->
    Usess c s -> Usess c s'.
  Proof. intros c s s' E1 E2 E3 H. unfold Usess in *. now rewrite E1, E2, E3. Qed.

  Definition Uinv (ss : list sst) : Prop :=
    forall j c s, nth_error cfgs j = Some c -> nth_error ss j = Some s -> Usess c s.

  Lemma Uinv_with_cfg : forall k f ss,
    (forall c s, Usess c s -> Usess c (f c s)) -> Uinv ss -> Uinv (with_cfg P cfgs k f ss).
  Proof.
    intros k f ss Hf HU j c s' Hc Hs'. rewrite (with_cfg_nth P cfgs k j f ss c Hc) in Hs'.
    destruct (nth_error ss j) as [s0|] eqn:Hs0; [|discriminate]. inversion Hs'; subst s'.
    destruct (k =? j); [apply Hf|]; now apply (HU j c s0).
  Qed.

  Lemma Uinv_deliver : forall ss b, Uinv ss -> Uinv (deliver P apply tagf cfgs ss b).
  Proof.
    intros ss b HU. destruct b as [k p e|k p e|k p e|k|k p es]; cbn [deliver]; try exact HU;
      apply Uinv_with_cfg; try exact HU; intros c s H; first [apply Usess_aro_call; [exact I|exact H]|now apply Usess_aro_eor].
  Qed.

  Lemma Uinv_note_views : forall loc ps only ss, Uinv ss -> Uinv (note_views P loc ps only ss).
  Proof.
    intros loc ps only ss HU j c s' Hc Hs'. rewrite (note_views_nth P) in Hs'.
    destruct (nth_error ss j) as [s0|] eqn:Hs0; [|discriminate]. inversion Hs'; subst s'.
    pose proof (HU j c s0 Hc Hs0) as H0.
    destruct (LocRIBClients.lookup j (LocRIBClients.clients loc)); [|exact H0].
    destruct (match only with Some k' => j =? k' | None => true end); [|exact H0].
    eapply Usess_ext; [| | |exact H0]; reflexivity.
  Qed.

  Lemma Uinv_loc_op : forall st o, Uinv (ps_sess P st) -> Uinv (ps_sess P (loc_op P apply sel tagf cfgs st o)).
  Proof.
    intros st o HU. unfold loc_op.
    destruct (LocRIBClients.step AdjRIBOut.path AdjRIBOut.path_compare AdjRIBOut.path_equal sel (ps_loc P st) o) as [loc' cbs|]; [|exact HU].
    destruct (op_prefixes loc' o) as [ps only]. cbn [ps_sess]. apply Uinv_note_views.
    clear -HU. revert HU. generalize (ps_sess P st). induction cbs as [|b cbs IH]; intros ss HU; cbn [fold_left]; [exact HU|].
    apply IH. now apply Uinv_deliver.
  Qed.

  Lemma Uinv_upd : forall k f ss, (forall c s, nth_error cfgs k = Some c -> Usess c s -> Usess c (f s)) -> Uinv ss -> Uinv (upd_nth k f ss).
  Proof.
    intros k f ss Hf HU j c s' Hc Hs'. destruct (Nat.eq_dec j k) as [->|NE].
    - destruct (nth_error ss k) as [s0|] eqn:Hs0.
      + rewrite (nth_error_upd_same _ k f ss s0 Hs0) in Hs'. inversion Hs'; subst s'. apply Hf; [exact Hc|]. now apply (HU k c s0).
      + rewrite upd_nth_none in Hs' by assumption. congruence.
    - rewrite nth_error_upd_other in Hs' by assumption. now apply (HU j c s').
  Qed.

  Lemma Uinv_in_op : forall k st o, Uinv (ps_sess P st) -> Uinv (ps_sess P (in_op P apply sel tagf cfgs k st o)).
  Proof.
    intros k st o HU. unfold in_op. destruct (nth_error cfgs k) as [c|]; [|exact HU].
    destruct (nth_error (ps_sess P st) k) as [s|]; [|exact HU].
    match goal with |- context [fold_left ?g ?l ?x] => generalize l; assert (H0 : Uinv (ps_sess P x)) end.
    { cbn [with_sess ps_sess]. apply Uinv_upd; [|exact HU]. intros c' s' _ H. eapply Usess_ext; [| | |exact H]; reflexivity. }
    match goal with |- forall l, Uinv (ps_sess P (fold_left ?g l ?x)) => generalize dependent x end.
    intros x Hx l. revert x Hx. induction l as [|e l IH]; intros x Hx; cbn [fold_left]; [exact Hx|].
    apply IH. destruct (loc_of_event P c e); [now apply Uinv_loc_op|exact Hx].
  Qed.

  Lemma Uinv_broadcast : forall js ops st, Uinv (ps_sess P st) -> Uinv (ps_sess P (vrf_broadcast P apply sel tagf cfgs js ops st)).
  Proof.
    intros js ops. unfold vrf_broadcast. induction js as [|j js IH]; intros st HU; cbn [fold_left]; [exact HU|].
    apply IH. clear IH. revert st HU. induction ops as [|o ops IH]; intros st HU; cbn [fold_left]; [exact HU|].
    apply IH. now apply Uinv_in_op.
  Qed.

  Lemma Uinv_us_event : forall st k l, match l with UpdateSender.Dequeue _ | UpdateSender.EmitOne => True | _ => False end ->
    Uinv (ps_sess P st) -> Uinv (ps_sess P (us_event P cfgs k l st)).
  Proof.
    intros st k l Hl HU. unfold us_event. destruct (is_up P st k); [|exact HU]. cbn [with_sess ps_sess].
    apply Uinv_with_cfg; [|exact HU]. intros c s [HR [HE HF]]. unfold Usess. cbn [set_out ss_us ss_lab ss_out]. split; [|split].
    - apply (us_take_run (sc_us P c) (ss_us P s, ss_lab P s) l). exact HR.
    - now apply us_take_sender_eor.
    - rewrite us_take_other; [exact HF|]. destruct l; try contradiction; reflexivity.
  Qed.

  Lemma Usess_fresh : forall c i ops, Usess c (mkSst P true i (AdjRIBOut.init P (sc_exp P c)) UpdateSender.init ops [] []).
  Proof. intros. unfold Usess. cbn. repeat split. Qed.

  Lemma Uinv_step : forall st ev, Uinv (ps_sess P st) -> Uinv (ps_sess P (pstep st ev)).
  Proof.
    intros st ev HU. destruct ev as [k|k|k p q|k p i|k key|k]; cbn [Pipeline.step].
    - destruct (nth_error cfgs k) as [c|] eqn:Hc; [|exact HU]. destruct (is_up P st k); [exact HU|].
      apply Uinv_loc_op, Uinv_in_op, Uinv_broadcast. cbn [with_sess ps_sess].
      apply Uinv_upd; [|exact HU]. intros c' s' Hc' _. rewrite Hc in Hc'. inversion Hc'; subst c'. apply Usess_fresh.
    - destruct (nth_error cfgs k) as [c|]; [|exact HU]. destruct (negb (is_up P st k)); [exact HU|].
      cbn [with_sess ps_sess]. apply Uinv_upd.
      + intros c' s' _ H. eapply Usess_ext; [| | |exact H]; reflexivity.
      + apply Uinv_loc_op, Uinv_in_op, Uinv_broadcast. exact HU.
    - destruct (is_up P st k); [now apply Uinv_in_op|exact HU].
    - destruct (is_up P st k); [now apply Uinv_in_op|exact HU].
    - now apply Uinv_us_event.
    - now apply Uinv_us_event.
  Qed.

  Lemma Uinv_run : forall evs, Uinv (ps_sess P (prun evs)).
  Proof.
    intros evs. unfold Pipeline.run.
    assert (G : forall l st, Uinv (ps_sess P st) -> Uinv (ps_sess P (fold_left pstep l st))).
    { induction l as [|e l IH]; intros st H; cbn [fold_left]; [exact H|]. apply IH. now apply Uinv_step. }
    apply G. unfold Pipeline.init. cbn [ps_sess]. intros j c s Hc Hs.
    rewrite nth_error_map, Hc in Hs. inversion Hs. unfold Usess, dead_sst. cbn. repeat split.
  Qed.

  (* C10, composed: for every session and every history - all interleavings of route changes on any session with this
     sender's steps - under the guards of C10 on the labels the sender took: once it is drained, the peer's view is
     what the calls of the session's Adj-RIB-Out on its client amount to *)
  Theorem peer_view_is_announced : forall evs j c s,
    nth_error cfgs j = Some c -> nth_error (ps_sess P (prun evs)) j = Some s ->
    let ls := rev (ss_lab P s) in
    UpdateSender.run (sc_us P c) ls = Some (ss_us P s) /\
    filter route_label ls = client_calls P tagf (ss_out P s) /\
    (UpdateSenderSpec.client_protocol (sc_us P c) ls -> UpdateSenderSpec.hash_faithful (sc_us P c) ls ->
     UpdateSenderSpec.all_fit (sc_us P c) ls -> UpdateSenderSpec.no_withdraw_in_flight (sc_us P c) ls ->
     drained P s = true ->
     forall p pid, peer_view P s p pid = UpdateSenderSpec.adj_rib_out (sc_us P c) (client_calls P tagf (ss_out P s)) (upfx p) pid).
  Proof.
    intros evs j c s Hc Hs ls. destruct (Uinv_run evs j c s Hc Hs) as [HR [_ HF]]. fold ls in HR, HF.
    split; [exact HR|]. split; [exact HF|]. intros G1 G2 G3 G4 HD p pid.
    unfold peer_view, drained in *.
    rewrite (UpdateSenderProofs.converges_partial (sc_us P c) ls (ss_us P s) HR G1 G2 G3 G4 HD).
    now rewrite adj_rib_out_filter, HF.
  Qed.
End PipeSend.

(* end to end: 2 + 3a + the interface condition *)
Theorem peer_view_converges :
  forall (P : Type) (apply : P -> N -> AdjRIBOut.path -> option AdjRIBOut.path)
         (sel : nat -> list (LocRIBClients.entry AdjRIBOut.path) -> list (LocRIBClients.entry AdjRIBOut.path) * nat)
         (tagf : AdjRIBOut.bgp -> N),
  LocRIBClientsSpec.sel_ok AdjRIBOut.path sel ->
  forall (cfgs : list (scfg P)) (evs : list event) (j : nat) (c : scfg P) (s : sst P),
  let st := run P apply sel tagf cfgs evs in
  let ls := rev (ss_lab P s) in
  locrib_paths_distinct P st ->
  nth_error cfgs j = Some c -> nth_error (ps_sess P st) j = Some s -> ss_up P s = true ->
  ExportViewSpec.guards (apply (sc_exp P c)) (sc_sess P c) (ss_hist P s) -> AdjRIBOut.errs (ss_out P s) = 0%N ->
  UpdateSenderSpec.client_protocol (sc_us P c) ls -> UpdateSenderSpec.hash_faithful (sc_us P c) ls ->
  UpdateSenderSpec.all_fit (sc_us P c) ls -> UpdateSenderSpec.no_withdraw_in_flight (sc_us P c) ls ->
  log_tracks_table P tagf (sc_us P c) (ss_out P s) ->
  drained P s = true ->
  (forall p pid, peer_view P s p pid = keyed_table P tagf (sc_us P c) (ss_out P s) p pid) /\
  (forall p : N,
     Permutation (map (ExportViewSpec.norm (sc_sess P c)) (AdjRIBOut.tbl_get p (AdjRIBOut.tbl (ss_out P s))))
                 (map (ExportViewSpec.norm (sc_sess P c))
                      (ExportViewSpec.export_view (apply (sc_exp P c)) (sc_sess P c) p
                         (visible (sc_opts P c) (ps_loc P st) (lpfx p))))).
Proof.
  intros P apply sel tagf Hsel cfgs evs j c s st ls HD Hc Hs Hu HG HE G1 G2 G3 G4 HT Hdr. split.
  - intros p pid.
    destruct (peer_view_is_announced P apply sel tagf cfgs evs j c s Hc Hs) as [_ [_ H]].
    rewrite (H G1 G2 G3 G4 Hdr p pid). apply HT.
  - exact (proj2 (ribout_is_export_of_selection P apply sel tagf Hsel cfgs evs j c s HD Hc Hs Hu HG HE)).
Qed.
