(* C08, part C: whole view changes and whole histories. *)
From Coq Require Import List NArith Bool Lia Permutation.
Import ListNotations.
From BioVerif Require Import Model.PathIDs Model.AdjRIBOut Model.LocView Spec.ExportViewSpec
  Proofs.PathIDsProofs Proofs.PathIDsInv Proofs.AroIDsProofs Proofs.ExportViewA Proofs.ExportViewB.
Local Open Scope N_scope.

(* ---------------------------------------------------------------- list facts *)

Lemma mem_path_iff : forall p l, mem_path p l = true <-> In p l.
Proof. intros p l. unfold mem_path. destruct (in_dec path_eq_dec p l); split; auto; discriminate. Qed.

Lemma in_paths_diff : forall x a b, In x (paths_diff a b) <-> In x a /\ ~ In x b.
Proof.
  intros x a b. unfold paths_diff. rewrite filter_In. split; intros [A B]; split; auto.
  - intros H. apply mem_path_iff in H. rewrite H in B. discriminate.
  - destruct (mem_path x b) eqn:E; [apply mem_path_iff in E; contradiction|reflexivity].
Qed.

Lemma nodup_paths_diff : forall a b, NoDup a -> NoDup (paths_diff a b).
Proof. intros. unfold paths_diff. now apply NoDup_filter. Qed.

Lemma NoDup_app_intro : forall (A : Type) (l l' : list A),
  NoDup l -> NoDup l' -> (forall x, In x l -> ~ In x l') -> NoDup (l ++ l').
Proof.
  induction l as [|a l IH]; intros l' N1 N2 D; cbn [app]; [assumption|].
  inversion N1 as [|? ? NI N1']; subst. constructor.
  - intros H. apply in_app_or in H. destruct H as [H|H]; [contradiction|]. apply (D a); [now left|assumption].
  - apply IH; [assumption|assumption|]. intros x Hx. apply D. now right.
Qed.

Lemma fold_left_map : forall (A B C : Type) (g : A -> C -> A) (k : B -> C) (l : list B) (a : A),
  fold_left g (map k l) a = fold_left (fun acc x => g acc (k x)) l a.
Proof. induction l as [|x l IH]; intros a; cbn [map fold_left]; auto. Qed.

Lemma view_get_set_same : forall pfx l v, view_get pfx (view_set pfx l v) = l.
Proof.
  induction v as [|[k m] v IH]; cbn [view_set view_get].
  - now rewrite N.eqb_refl.
  - destruct (N.eqb k pfx) eqn:E; cbn [view_get]; rewrite E; auto.
Qed.

Lemma view_get_set_other : forall pfx pfx' l v, pfx <> pfx' -> view_get pfx' (view_set pfx l v) = view_get pfx' v.
Proof.
  induction v as [|[k m] v IH]; cbn [view_set view_get]; intros NE.
  - destruct (N.eqb pfx pfx') eqn:E; [apply N.eqb_eq in E; contradiction|reflexivity].
  - destruct (N.eqb k pfx) eqn:E; cbn [view_get].
    + apply N.eqb_eq in E. subst k.
      destruct (N.eqb pfx pfx') eqn:E2; [apply N.eqb_eq in E2; contradiction|reflexivity].
    + destruct (N.eqb k pfx'); auto.
Qed.

Lemma norm_id : forall s, s_addpath s = false -> forall l, map (norm s) l = l.
Proof.
  intros s H l. induction l as [|x l IH]; [reflexivity|].
  cbn [map]. rewrite IH. unfold norm. now rewrite H.
Qed.

Section Assembly.
  Variable P : Type.
  Variable apply : P -> N -> path -> option path.
  Variable s : sess.
  Variable c : P.
  Variable h : list (N * list path).

  Notation f := (apply c).
  Hypothesis G : guards f s h.

  Notation rm := (fun (pfx : N) (acc : aro P) (p : path) => fst (remove_path P apply s acc pfx p)).
  Notation ad := (fun (pfx : N) (acc : aro P) (p : path) => add_path P apply s acc pfx p).

  (* the client calls of one change, as two folds *)
  Lemma change_fold : forall old new pfx a,
    fold_left (step P apply s) (change_ops P old new pfx) a =
    fold_left (ad pfx) (paths_diff new old) (fold_left (rm pfx) (paths_diff old new) a).
  Proof.
    intros. unfold change_ops. rewrite fold_left_app, !fold_left_map. reflexivity.
  Qed.

  Lemma rm_fold_other : forall pfx pfx' l a, pfx <> pfx' ->
    tbl_get pfx' (tbl (fold_left (rm pfx) l a)) = tbl_get pfx' (tbl a) /\
    cur (fold_left (rm pfx) l a) = cur a /\ errs (fold_left (rm pfx) l a) = errs a.
  Proof.
    intros pfx pfx' l. induction l as [|x l IH]; intros a NE; cbn [fold_left]; [auto|].
    destruct (IH (fst (remove_path P apply s a pfx x)) NE) as [A [B C]].
    rewrite A, B, C. split; [now apply remove_path_other|]. split; [apply remove_path_cur|apply errs_remove_path].
  Qed.

  Lemma ad_fold_other : forall pfx pfx' l a, pfx <> pfx' ->
    tbl_get pfx' (tbl (fold_left (ad pfx) l a)) = tbl_get pfx' (tbl a) /\
    cur (fold_left (ad pfx) l a) = cur a /\ errs a <= errs (fold_left (ad pfx) l a).
  Proof.
    intros pfx pfx' l. induction l as [|x l IH]; intros a NE; cbn [fold_left]; [split; [|split]; auto; lia|].
    destruct (IH (add_path P apply s a pfx x) NE) as [A [B C]].
    rewrite A, B. split; [now apply add_path_other|]. split; [apply add_path_cur|].
    pose proof (errs_add_path P apply s a pfx x). lia.
  Qed.

  (* ---------------------------------------------------------------- add path: all removes, all adds *)

  Section AddPath.
    Hypothesis Hap : s_addpath s = true.

    Notation APp := (AP P apply s c).

    Lemma AP_perm : forall a pfx W W', Permutation W W' -> APp a pfx W -> APp a pfx W'.
    Proof.
      intros a pfx W W' HP H. unfold AP in *. eapply Permutation_trans; [exact H|].
      apply Permutation_map. unfold export_view. now apply Permutation_flat_map.
    Qed.

    Lemma ap_remove_all : forall pfx R W a,
      NoDup W -> (forall x, In x W -> inh h pfx x) -> NoDup R -> incl R W ->
      cur a = c -> Inv P a -> APp a pfx W ->
      let a' := fold_left (rm pfx) R a in
      exists W', NoDup W' /\ (forall x, In x W' <-> In x W /\ ~ In x R) /\
                 APp a' pfx W' /\ Inv P a' /\ cur a' = c.
    Proof.
      intros pfx R. induction R as [|p R IH]; intros W a NDW HW NDR HI Hc I H; cbn [fold_left].
      - exists W. split; [assumption|]. split; [intros x; split; [intros A; split; [assumption|intros []]|tauto]|]. auto.
      - apply NoDup_cons_iff in NDR. destruct NDR as [NIp NDR'].
        assert (HpW : In p W) by (apply HI; now left).
        destruct (in_split p W HpW) as [W1 [W2 ->]].
        pose proof (ap_remove P apply s c h G Hap a pfx W1 p W2 Hc I H NDW HW) as H1. cbn zeta in H1.
        pose proof (NoDup_remove_1 _ _ _ NDW) as ND12.
        pose proof (NoDup_remove_2 _ _ _ NDW) as NI12.
        set (a1 := fst (remove_path P apply s a pfx p)) in *.
        assert (Hc1 : cur a1 = c) by (unfold a1; rewrite remove_path_cur; exact Hc).
        assert (I1 : Inv P a1) by (unfold a1; now apply remove_path_inv).
        assert (In12 : forall x, In x (W1 ++ W2) <-> In x (W1 ++ p :: W2) /\ x <> p).
        { intros x. rewrite !in_app_iff. cbn [In]. split.
          - intros A. split; [tauto|]. intros ->. apply NI12. apply in_or_app. tauto.
          - intros [[A|[A|A]] B]; [now left|congruence|now right]. }
        destruct (IH (W1 ++ W2) a1 ND12) as [W' [NDW' [InW' [HAP [I' Hc']]]]]; try assumption.
        + intros x Hx. apply HW. apply In12 in Hx. tauto.
        + intros x Hx. apply In12. split; [apply HI; now right|]. intros ->. contradiction.
        + exists W'. split; [assumption|]. split; [|auto].
          intros x. rewrite InW', In12. cbn [In]. split.
          * intros [[A B] C]. split; [assumption|]. intros [D|D]; [congruence|contradiction].
          * intros [A B]. split; [split; [assumption|]|]; intros D; apply B; [left; now symmetry|now right].
    Qed.

    Lemma ap_add_all : forall pfx A W a,
      (forall x, In x A -> inh h pfx x) -> cur a = c -> Inv P a -> APp a pfx W ->
      let a' := fold_left (ad pfx) A a in
      errs a' = errs a -> APp a' pfx (W ++ A) /\ Inv P a' /\ cur a' = c.
    Proof.
      intros pfx A. induction A as [|p A IH]; intros W a HA Hc I H; cbn [fold_left]; intros HE.
      - rewrite app_nil_r. auto.
      - set (a1 := add_path P apply s a pfx p) in *.
        assert (M1 : errs a <= errs a1) by apply errs_add_path.
        assert (M2 : errs a1 <= errs (fold_left (ad pfx) A a1)).
        { apply errs_fold_le. intros. apply errs_add_path. }
        assert (HE1 : errs a1 = errs a) by lia.
        pose proof (ap_add P apply s c h G Hap a pfx W p Hc I H (HA p (or_introl eq_refl)) HE1) as H1.
        assert (Hc1 : cur a1 = c) by (unfold a1; rewrite add_path_cur; exact Hc).
        assert (I1 : Inv P a1) by (unfold a1; now apply add_path_inv).
        destruct (IH (W ++ [p]) a1) as [HAP [I' Hc']]; try assumption.
        + intros x Hx. apply HA. now right.
        + lia.
        + rewrite <- app_assoc in HAP. auto.
    Qed.
  End AddPath.

  (* ---------------------------------------------------------------- the invariant of feed *)

  Record FI (st : view * aro P) : Prop := mkFI {
    fi_cur : cur (snd st) = c;
    fi_inv : s_addpath s = true -> Inv P (snd st);
    fi_views : forall pfx, view_get pfx (fst st) = [] \/ In (pfx, view_get pfx (fst st)) h;
    fi_view : ribout_is_export_view f s (fst st) (snd st)
  }.

  Lemma FI_init : FI ([], init P c).
  Proof.
    constructor; cbn [fst snd].
    - reflexivity.
    - intros _. apply Inv_init.
    - intros pfx. now left.
    - intros pfx. cbn. constructor.
  Qed.

  Lemma errs_feed_step : forall st ch, errs (snd st) <= errs (snd (feed_step P apply s st ch)).
  Proof.
    intros [v a] [pfx new]. cbn [feed_step snd]. rewrite change_fold.
    pose proof (errs_fold_le P path (ad pfx) (paths_diff new (view_get pfx v))
                  (fold_left (rm pfx) (paths_diff (view_get pfx v) new) a)
                  (fun a x => errs_add_path P apply s a pfx x)) as M.
    destruct (N.eq_dec pfx (pfx + 1)) as [E|NE]; [lia|].
    destruct (rm_fold_other pfx (pfx + 1) (paths_diff (view_get pfx v) new) a NE) as [_ [_ R]].
    lia.
  Qed.

  Lemma errs_feed : forall l st, errs (snd st) <= errs (snd (fold_left (feed_step P apply s) l st)).
  Proof.
    induction l as [|ch l IH]; intros st; cbn [fold_left]; [lia|].
    specialize (IH (feed_step P apply s st ch)). pose proof (errs_feed_step st ch). lia.
  Qed.

  Lemma view_paths_inh : forall pfx l, l = [] \/ In (pfx, l) h -> forall x, In x l -> inh h pfx x.
  Proof. intros pfx l [->|H] x Hx; [destruct Hx|]. exists l. auto. Qed.

  Lemma view_nodup : forall pfx l, l = [] \/ In (pfx, l) h -> NoDup l.
  Proof. intros pfx l [->|H]; [constructor|]. eapply (g_nodup f s h G); eassumption. Qed.

  Lemma FI_step : forall st pfx new,
    FI st -> In (pfx, new) h ->
    errs (snd (feed_step P apply s st (pfx, new))) = errs (snd st) ->
    FI (feed_step P apply s st (pfx, new)).
  Proof.
    intros [v a] pfx new [Hc I HV H] HN HE. cbn [fst snd] in *. cbn [feed_step fst snd] in *.
    rewrite change_fold in *.
    set (old := view_get pfx v) in *.
    set (a1 := fold_left (rm pfx) (paths_diff old new) a) in *.
    set (a2 := fold_left (ad pfx) (paths_diff new old) a1) in *.
    assert (OldH : old = [] \/ In (pfx, old) h) by apply HV.
    (* facts that do not depend on the mode *)
    assert (Hc2 : cur a2 = c).
    { destruct (N.eq_dec pfx (pfx + 1)) as [E|NE]; [lia|].
      destruct (ad_fold_other pfx (pfx + 1) (paths_diff new old) a1 NE) as [_ [B _]].
      destruct (rm_fold_other pfx (pfx + 1) (paths_diff old new) a NE) as [_ [B' _]].
      unfold a2. rewrite B. unfold a1. rewrite B'. exact Hc. }
    assert (Other : forall pfx', pfx <> pfx' -> tbl_get pfx' (tbl a2) = tbl_get pfx' (tbl a)).
    { intros pfx' NE.
      destruct (ad_fold_other pfx pfx' (paths_diff new old) a1 NE) as [A _].
      destruct (rm_fold_other pfx pfx' (paths_diff old new) a NE) as [A' _].
      unfold a2. rewrite A. unfold a1. exact A'. }
    assert (Views : forall pfx', view_get pfx' (view_set pfx new v) = [] \/
                                 In (pfx', view_get pfx' (view_set pfx new v)) h).
    { intros pfx'. destruct (N.eq_dec pfx pfx') as [<-|NE].
      - rewrite view_get_set_same. now right.
      - rewrite view_get_set_other by assumption. apply HV. }
    assert (E1 : errs a1 = errs a).
    { destruct (N.eq_dec pfx (pfx + 1)) as [E|NE]; [lia|].
      exact (proj2 (proj2 (rm_fold_other pfx (pfx + 1) (paths_diff old new) a NE))). }
    assert (E2 : errs a2 = errs a1) by lia.
    (* the prefix itself *)
    assert (Here : Permutation (map (norm s) (tbl_get pfx (tbl a2))) (map (norm s) (export_view f s pfx new)) /\
                   (s_addpath s = true -> Inv P a2)).
    { destruct (s_addpath s) eqn:Hap.
      - (* add path *)
        specialize (I eq_refl).
        assert (H0 : AP P apply s c a pfx old).
        { unfold AP. specialize (H pfx). unfold norm in H. rewrite Hap in H. exact H. }
        destruct (ap_remove_all Hap pfx (paths_diff old new) old a) as [W' [NDW' [InW' [HAP [I1 Hc1]]]]];
          try assumption.
        + now apply (view_nodup pfx).
        + now apply (view_paths_inh pfx).
        + apply nodup_paths_diff. now apply (view_nodup pfx).
        + intros x Hx. apply in_paths_diff in Hx. tauto.
        + fold a1 in HAP, I1, Hc1.
          destruct (ap_add_all Hap pfx (paths_diff new old) W' a1) as [HAP2 [I2 _]]; try assumption.
          * intros x Hx. apply in_paths_diff in Hx. exists new. tauto.
          * fold a2 in HAP2, I2. split; [|intros _; exact I2].
            unfold norm. rewrite Hap.
            apply (AP_perm a2 pfx (W' ++ paths_diff new old) new); [|exact HAP2].
            apply NoDup_Permutation.
            -- apply NoDup_app_intro; [assumption|apply nodup_paths_diff; eapply (g_nodup f s h G); eassumption|].
               intros x Hx Hx'. apply InW' in Hx. apply in_paths_diff in Hx'. tauto.
            -- eapply (g_nodup f s h G); eassumption.
            -- intros x. rewrite in_app_iff, InW', !in_paths_diff. split.
               ++ intros [[A B]|[A B]]; [|assumption].
                  destruct (in_dec path_eq_dec x new); [assumption|]. exfalso. apply B. auto.
               ++ intros A. destruct (in_dec path_eq_dec x old) as [O|O]; [left|right; auto].
                  split; [assumption|]. tauto.
      - (* best only: at most one path on either side *)
        split; [|discriminate].
        rewrite !(norm_id s Hap).
        assert (T0 : tbl_get pfx (tbl a) = export_view f s pfx old).
        { specialize (H pfx). rewrite !(norm_id s Hap) in H. fold old in H.
          assert (L : (length old <= 1)%nat).
          { destruct OldH as [->|O]; [cbn; lia|]. eapply (g_best f s h G Hap); eassumption. }
          destruct old as [|o [|o2 old']]; [| |cbn in L; lia].
          - cbn in *. apply Permutation_sym, Permutation_nil in H. exact H.
          - cbn [export_view flat_map] in *. rewrite app_nil_r in *.
            destruct (export_with f s pfx o); cbn [opt_list] in *.
            + apply Permutation_sym, Permutation_length_1_inv in H. exact H.
            + apply Permutation_sym, Permutation_nil in H. exact H. }
        assert (LN : (length new <= 1)%nat) by (eapply (g_best f s h G Hap); eassumption).
        assert (LO : (length old <= 1)%nat).
        { destruct OldH as [O|O]; [rewrite O; cbn; lia|]. eapply (g_best f s h G Hap); eassumption. }
        assert (BGPo : forall x, In x old -> exists b, x = PBgp 0 b).
        { intros x Hx. destruct (view_paths_inh pfx old OldH x Hx) as [l [A B]]. eapply (g_bgp f s h G); eassumption. }
        assert (BGPn : forall x, In x new -> exists b, x = PBgp 0 b).
        { intros x Hx. eapply (g_bgp f s h G); eassumption. }
        apply Permutation_refl'. unfold a2, a1.
        destruct old as [|o [|o2 old']]; [| |cbn in LO; lia]; destruct new as [|n [|n2 new']]; try (cbn in LN; lia).
        + cbn. exact T0.
        + cbn [paths_diff filter mem_path]. destruct (in_dec path_eq_dec n []) as [[]|_]. cbn [negb fold_left].
          destruct (BGPn n (or_introl eq_refl)) as [bn ->].
          apply (best_add P apply s c h G Hap a pfx bn Hc). exact T0.
        + cbn [paths_diff filter mem_path]. destruct (in_dec path_eq_dec o []) as [[]|_]. cbn [negb fold_left].
          destruct (BGPo o (or_introl eq_refl)) as [bo ->].
          apply (best_remove P apply s c h G Hap a pfx bo Hc). exact T0.
        + destruct (BGPo o (or_introl eq_refl)) as [bo ->].
          destruct (BGPn n (or_introl eq_refl)) as [bn ->].
          unfold paths_diff. cbn [filter]. unfold mem_path.
          destruct (in_dec path_eq_dec (PBgp 0 bo) [PBgp 0 bn]) as [[EQ|[]]|NI].
          * (* same path: nothing to do *)
            inversion EQ; subst bn.
            destruct (in_dec path_eq_dec (PBgp 0 bo) [PBgp 0 bo]) as [_|NI]; [|exfalso; apply NI; now left].
            cbn [negb fold_left]. exact T0.
          * destruct (in_dec path_eq_dec (PBgp 0 bn) [PBgp 0 bo]) as [[EQ|[]]|NI2].
            { exfalso. apply NI. left. now symmetry. }
            cbn [negb fold_left].
            apply (best_add P apply s c h G Hap _ pfx bn); [rewrite remove_path_cur; exact Hc|].
            apply (best_remove P apply s c h G Hap a pfx bo Hc). exact T0. }
    destruct Here as [HereP HereI].
    constructor; cbn [fst snd].
    - exact Hc2.
    - exact HereI.
    - exact Views.
    - intros pfx'. destruct (N.eq_dec pfx pfx') as [<-|NE].
      + rewrite view_get_set_same. exact HereP.
      + rewrite view_get_set_other, Other by assumption. apply H.
  Qed.

  Lemma FI_feed : forall l st,
    incl l h -> FI st ->
    errs (snd (fold_left (feed_step P apply s) l st)) = errs (snd st) ->
    FI (fold_left (feed_step P apply s) l st).
  Proof.
    induction l as [|[pfx new] l IH]; intros st HI F HE; cbn [fold_left] in *; [assumption|].
    pose proof (errs_feed_step st (pfx, new)) as M1.
    pose proof (errs_feed l (feed_step P apply s st (pfx, new))) as M2.
    apply IH.
    - intros x Hx. apply HI. now right.
    - apply FI_step; [assumption|apply HI; now left|lia].
    - lia.
  Qed.
End Assembly.

(* For every Loc-RIB history that satisfies the guards and during which no identifier allocation failed *)
Theorem ribout_is_export_view_partial :
  forall (P : Type) (apply : P -> N -> path -> option path) (s : sess) (c : P) (h : list (N * list path)),
  guards (apply c) s h ->
  errs (snd (feed P apply s c h)) = 0 ->
  ribout_is_export_view (apply c) s (fst (feed P apply s c h)) (snd (feed P apply s c h)).
Proof.
  intros P apply s c h G HE. unfold feed in *.
  apply (fi_view P apply s c h).
  apply FI_feed; [assumption|apply incl_refl|apply FI_init|exact HE].
Qed.
