(* C09: export eligibility and attribute rewriting of the Adj-RIB-Out model, for all inputs. *)
From Coq Require Import List NArith Bool Lia.
Import ListNotations.
From BioVerif Require Import Model.PathIDs Model.AdjRIBOut Model.ExportWire Spec.ExportSpec.
Local Open Scope N_scope.

Section Export.
  Variable f : N -> path -> option path.   (* any export policy *)
  Variable s : sess.
  Variable pfx : N.

  (* ---------------------------------------------------------------- never advertised *)

  Lemma disallowed_true : forall b c,
    has_comm c b -> (c = NO_ADVERTISE \/ (c = NO_EXPORT /\ s_ibgp s = false)) -> disallowed s b = true.
  Proof.
    intros b c H Hc. unfold disallowed. apply existsb_exists. exists c. split; [exact H|].
    destruct Hc as [->|[-> Hi]].
    - rewrite N.eqb_refl. apply orb_true_r.
    - rewrite N.eqb_refl, Hi. reflexivity.
  Qed.

  Lemma not_propagated_none : forall r b,
    should_propagate s (PBgp 0 b) = false -> export_with f s pfx (PBgp r b) = None.
  Proof. intros r b H. unfold export_with. cbn [redistribute]. now rewrite H. Qed.

  Lemma never_no_advertise : forall r b,
    has_comm NO_ADVERTISE b -> export_with f s pfx (PBgp r b) = None.
  Proof.
    intros r b H. apply not_propagated_none. cbn [should_propagate].
    rewrite (disallowed_true b NO_ADVERTISE H (or_introl eq_refl)). apply andb_false_r.
  Qed.

  Lemma never_no_export_to_ebgp : forall r b,
    s_ibgp s = false -> has_comm NO_EXPORT b -> export_with f s pfx (PBgp r b) = None.
  Proof.
    intros r b Hi H. apply not_propagated_none. cbn [should_propagate].
    rewrite (disallowed_true b NO_EXPORT H (or_intror (conj eq_refl Hi))). apply andb_false_r.
  Qed.

  Lemma never_back_to_source : forall r b,
    b_src b = s_peerip s -> export_with f s pfx (PBgp r b) = None.
  Proof.
    intros r b H. apply not_propagated_none. cbn [should_propagate].
    rewrite H, N.eqb_refl. reflexivity.
  Qed.

  Lemma never_ibgp_to_nonclient : forall r b,
    s_ibgp s = true -> s_rrclient s = false -> b_ebgp b = false ->
    export_with f s pfx (PBgp r b) = None.
  Proof.
    intros r b Hi Hr He. unfold export_with. cbn [redistribute].
    destruct (should_propagate s (PBgp 0 b)); [|reflexivity].
    unfold rewrite, rewrite_ibgp. rewrite Hi, N.eqb_refl, He, Hr. reflexivity.
  Qed.

  Lemma never_otc_to_provider_peer_rs : forall r b,
    peer_is s [role_provider; role_peer; role_rs] -> b_otc b <> 0 ->
    export_with f s pfx (PBgp r b) = None.
  Proof.
    intros r b [Hi [Hon Hr]] Hotc. unfold export_with. cbn [redistribute].
    destruct (should_propagate s (PBgp 0 b)); [|reflexivity].
    unfold rewrite, rewrite_ebgp. rewrite Hi, Hon.
    assert (RI : role_in (s_role s) [0; 4; 1] = true).
    { unfold role_in. apply existsb_exists. exists (s_role s). split; [exact Hr|apply N.eqb_refl]. }
    assert (O : forall b1, b_otc b1 = b_otc b -> negb (N.eqb (b_otc b1) 0) = true).
    { intros b1 E. rewrite E. apply negb_true_iff. now apply N.eqb_neq. }
    destruct (s_rsclient s); cbn [negb].
    - rewrite (O b eq_refl), RI. reflexivity.
    - rewrite O, RI; [reflexivity|].
      unfold bgp_prepend. cbn [N.eqb]. reflexivity.
  Qed.

  (* ---------------------------------------------------------------- the rewrites *)

  Lemma as_tokens_prepend_one : forall asn p, as_tokens (prepend_one asn p) = TAsn asn :: as_tokens p.
  Proof.
    intros asn p. unfold prepend_one.
    destruct p as [|[q asns] rest]; [reflexivity|].
    destruct q; [|reflexivity].
    destruct (Nat.eqb (length asns) 255); reflexivity.
  Qed.

  Lemma bgp_prepend_1 : forall asn b,
    bgp_prepend asn 1 b =
    set_aspath (prepend_one asn (b_aspath b)) (as_length (prepend_one asn (b_aspath b))) b.
  Proof. reflexivity. Qed.

  (* eBGP, not a route-server client: local ASN in front, next-hop-self, ASPathLen recomputed *)
  Lemma rewrites_ebgp : forall r b b',
    s_ibgp s = false -> s_rsclient s = false -> rewrite s r b = Some b' ->
    b_nh b' = s_localip s /\ asn_prepended (s_localasn s) b b' /\ b_aslen b' = as_length (b_aspath b').
  Proof.
    intros r b b' Hi Hrs H. unfold rewrite, rewrite_ebgp in H. rewrite Hi, Hrs in H. cbn [negb] in H.
    set (b1 := set_nh (s_localip s) (bgp_prepend (s_localasn s) 1 b)) in *.
    assert (P1 : b_nh b1 = s_localip s /\ asn_prepended (s_localasn s) b b1 /\ b_aslen b1 = as_length (b_aspath b1)).
    { unfold b1. rewrite bgp_prepend_1. unfold asn_prepended.
      cbn [set_nh set_aspath b_nh b_aspath b_aslen]. rewrite as_tokens_prepend_one. auto. }
    assert (K : forall v, b_nh (set_otc v b1) = b_nh b1 /\ b_aspath (set_otc v b1) = b_aspath b1 /\
                          b_aslen (set_otc v b1) = b_aslen b1) by (intros; auto).
    destruct (s_role_on s).
    - destruct (negb (N.eqb (b_otc b1) 0) && role_in (s_role s) [0; 4; 1]); [discriminate|].
      destruct (N.eqb (b_otc b1) 0 && role_in (s_role s) [3; 4; 2]); inversion H; subst b'.
      + unfold asn_prepended in *. cbn [set_otc b_nh b_aspath b_aslen]. exact P1.
      + exact P1.
    - inversion H; subst b'. exact P1.
  Qed.

  (* a route-server client gets AS_PATH and NEXT_HOP untouched *)
  Lemma rewrites_rs_client_transparent : forall r b b',
    s_ibgp s = false -> s_rsclient s = true -> rewrite s r b = Some b' ->
    b_nh b' = b_nh b /\ b_aspath b' = b_aspath b /\ b_aslen b' = b_aslen b.
  Proof.
    intros r b b' Hi Hrs H. unfold rewrite, rewrite_ebgp in H. rewrite Hi, Hrs in H. cbn [negb] in H.
    destruct (s_role_on s).
    - destruct (negb (N.eqb (b_otc b) 0) && role_in (s_role s) [0; 4; 1]); [discriminate|].
      destruct (N.eqb (b_otc b) 0 && role_in (s_role s) [3; 4; 2]); inversion H; subst b'; auto.
    - inversion H; subst b'. auto.
  Qed.

  (* reflected to a route-reflector client: ORIGINATOR_ID kept or created from the source,
     CLUSTER_LIST = local cluster id in front of the old one; both reach the wire *)
  Lemma rewrites_rr_client : forall b b',
    s_ibgp s = true -> s_rrclient s = true -> rewrite s 0 b = Some b' ->
    b_oid b' = (if N.eqb (b_oid b) 0 then b_src b else b_oid b) /\
    b_cl b' = Some (s_clusterid s :: olist (b_cl b)) /\
    on_wire s b' (WOriginator (b_oid b')) /\
    on_wire s b' (WClusterList (s_clusterid s :: olist (b_cl b))).
  Proof.
    intros b b' Hi Hr H. unfold rewrite, rewrite_ibgp in H. rewrite Hi, Hr in H.
    cbn [N.eqb negb andb] in H. rewrite andb_false_r in H. inversion H; subst b'. clear H.
    assert (A : b_oid (set_cl (Some (s_clusterid s :: olist (b_cl (if N.eqb (b_oid b) 0 then set_oid (b_src b) b else b))))
                     (if N.eqb (b_oid b) 0 then set_oid (b_src b) b else b))
              = (if N.eqb (b_oid b) 0 then b_src b else b_oid b)).
    { destruct (N.eqb (b_oid b) 0); reflexivity. }
    assert (C : olist (b_cl (if N.eqb (b_oid b) 0 then set_oid (b_src b) b else b)) = olist (b_cl b)).
    { destruct (N.eqb (b_oid b) 0); reflexivity. }
    rewrite C in *.
    split; [exact A|]. split; [reflexivity|].
    unfold on_wire, sess_wire, wire. rewrite Hi, Hr. split.
    - apply in_or_app; right. apply in_or_app; right. apply in_or_app; right. apply in_or_app; right.
      apply in_or_app; right. apply in_or_app; left. now left.
    - apply in_or_app; right. apply in_or_app; right. apply in_or_app; right. apply in_or_app; right.
      apply in_or_app; right. apply in_or_app; left. right. cbn [set_cl b_cl nonempty]. now left.
  Qed.

  (* OTC towards customers, peers and RS clients: added (local ASN) when absent ... *)
  Lemma rewrites_otc_added : forall r b b',
    peer_is s [role_customer; role_peer; role_rs_client] -> b_otc b = 0 ->
    rewrite s r b = Some b' -> b_otc b' = s_localasn s.
  Proof.
    intros r b b' [Hi [Hon Hr]] Hotc H. unfold rewrite, rewrite_ebgp in H. rewrite Hi, Hon in H.
    assert (RI : role_in (s_role s) [3; 4; 2] = true).
    { unfold role_in. apply existsb_exists. exists (s_role s). split; [exact Hr|apply N.eqb_refl]. }
    set (b1 := if negb (s_rsclient s) then set_nh (s_localip s) (bgp_prepend (s_localasn s) 1 b) else b) in *.
    assert (O1 : b_otc b1 = 0) by (unfold b1; destruct (s_rsclient s); cbn; exact Hotc).
    rewrite O1 in H. cbn [N.eqb negb andb] in H. rewrite RI in H. inversion H. reflexivity.
  Qed.

  (* ... and kept as it is when present (towards anybody it may go to) *)
  Lemma rewrites_otc_kept : forall r b b',
    s_ibgp s = false -> b_otc b <> 0 -> rewrite s r b = Some b' -> b_otc b' = b_otc b.
  Proof.
    intros r b b' Hi Hotc H. unfold rewrite, rewrite_ebgp in H. rewrite Hi in H.
    set (b1 := if negb (s_rsclient s) then set_nh (s_localip s) (bgp_prepend (s_localasn s) 1 b) else b) in *.
    assert (O1 : b_otc b1 = b_otc b) by (unfold b1; destruct (s_rsclient s); reflexivity).
    assert (NZ : N.eqb (b_otc b1) 0 = false) by (rewrite O1; now apply N.eqb_neq).
    destruct (s_role_on s).
    - rewrite NZ in H. cbn [negb andb] in H.
      destruct (role_in (s_role s) [0; 4; 1]); [discriminate|]. inversion H; subst. exact O1.
    - inversion H; subst. exact O1.
  Qed.

  (* LOCAL_PREF is on the wire exactly on iBGP sessions *)
  Lemma localpref_only_ibgp : forall b, (exists l, on_wire s b (WLocalPref l)) <-> s_ibgp s = true.
  Proof.
    intros b. unfold on_wire, sess_wire, wire. split.
    - intros [l H]. destruct (s_ibgp s); [reflexivity|]. exfalso.
      repeat (apply in_app_or in H; destruct H as [H|H]);
        try (cbn in H; repeat (destruct H as [H|H]; try discriminate); try destruct H; fail).
      + destruct (N.eqb (b_med b) 0); cbn in H; repeat (destruct H as [H|H]; try discriminate); destruct H.
      + destruct (b_atomic b); cbn in H; repeat (destruct H as [H|H]; try discriminate); destruct H.
      + destruct (b_agg b); cbn in H; repeat (destruct H as [H|H]; try discriminate); destruct H.
      + destruct (s_rrclient s); [|destruct H]. destruct H as [H|H]; [discriminate|].
        unfold nonempty in H. destruct (b_cl b) as [[|x l0]|]; cbn in H; repeat (destruct H as [H|H]; try discriminate); destruct H.
      + unfold nonempty in H. destruct (b_comms b) as [[|x l0]|]; cbn in H; repeat (destruct H as [H|H]; try discriminate); destruct H.
      + unfold nonempty in H. destruct (b_lcomms b) as [[|x l0]|]; cbn in H; repeat (destruct H as [H|H]; try discriminate); destruct H.
      + apply in_map_iff in H. destruct H as [u [E _]]. discriminate.
    - intros Hi. exists (b_lp b). rewrite Hi.
      apply in_or_app; right. apply in_or_app; right. apply in_or_app; right. apply in_or_app; right.
      apply in_or_app; left. now left.
  Qed.

  (* ---------------------------------------------------------------- completeness of eligibility *)

  (* a BGP-learned path that none of the five rules excludes is exported (under the identity policy) *)
  Lemma eligible_is_exported : forall r b,
    ~ has_comm NO_ADVERTISE b ->
    (s_ibgp s = false -> ~ has_comm NO_EXPORT b) ->
    b_src b <> s_peerip s ->
    (s_ibgp s = true -> s_rrclient s = false -> b_ebgp b = true) ->
    (peer_is s [role_provider; role_peer; role_rs] -> b_otc b = 0) ->
    exists q, export_with accept_all s pfx (PBgp r b) = Some q.
  Proof.
    intros r b NA NE NS NI NO. unfold export_with, accept_all. cbn [redistribute].
    assert (SP : should_propagate s (PBgp 0 b) = true).
    { cbn [should_propagate]. apply andb_true_intro. split.
      - apply negb_true_iff. now apply N.eqb_neq.
      - apply negb_true_iff. unfold disallowed. apply not_true_is_false. intros H.
        apply existsb_exists in H. destruct H as [c [Hc Hd]].
        apply orb_prop in Hd. destruct Hd as [Hd|Hd].
        + apply andb_prop in Hd. destruct Hd as [E Hi]. apply N.eqb_eq in E. subst c.
          apply negb_true_iff in Hi. now apply (NE Hi).
        + apply N.eqb_eq in Hd. subst c. now apply NA. }
    rewrite SP. unfold rewrite.
    destruct (s_ibgp s) eqn:Hi.
    - unfold rewrite_ibgp. cbn [N.eqb negb].
      destruct (s_rrclient s) eqn:Hr.
      + rewrite andb_false_r. eauto.
      + rewrite (NI eq_refl eq_refl). cbn [negb andb]. eauto.
    - unfold rewrite_ebgp.
      set (b1 := if negb (s_rsclient s) then set_nh (s_localip s) (bgp_prepend (s_localasn s) 1 b) else b).
      assert (O1 : b_otc b1 = b_otc b) by (unfold b1; destruct (s_rsclient s); reflexivity).
      destruct (s_role_on s) eqn:Hon; [|eauto].
      destruct (negb (N.eqb (b_otc b1) 0) && role_in (s_role s) [0; 4; 1]) eqn:Bad.
      + exfalso. apply andb_prop in Bad. destruct Bad as [NZ RI].
        apply negb_true_iff, N.eqb_neq in NZ. apply NZ. rewrite O1. apply NO.
        split; [exact Hi|]. split; [exact Hon|].
        unfold role_in in RI. apply existsb_exists in RI. destruct RI as [x [Hx E]].
        apply N.eqb_eq in E. now subst x.
      + destruct (N.eqb (b_otc b1) 0 && role_in (s_role s) [3; 4; 2]); eauto.
  Qed.
End Export.

(* ---------------------------------------------------------------- OTC never reaches the wire *)

(* a path without unknown attributes has no attribute 35 on the wire, whatever its OnlyToCustomer *)
Lemma otc_not_on_wire : forall s b a, b_unk b = [] -> In a (sess_wire s b) -> wcode a <> 35.
Proof.
  intros s b a HU H. unfold sess_wire, wire in H. rewrite HU in H. cbn [map] in H. rewrite app_nil_r in H.
  repeat (apply in_app_or in H; destruct H as [H|H]).
  - cbn in H. repeat (destruct H as [H|H]; [subst a; cbn; discriminate|]). destruct H.
  - destruct (N.eqb (b_med b) 0); cbn in H; repeat (destruct H as [H|H]; [subst a; cbn; discriminate|]); destruct H.
  - destruct (b_atomic b); cbn in H; repeat (destruct H as [H|H]; [subst a; cbn; discriminate|]); destruct H.
  - destruct (b_agg b); cbn in H; repeat (destruct H as [H|H]; [subst a; cbn; discriminate|]); destruct H.
  - destruct (s_ibgp s); cbn in H; repeat (destruct H as [H|H]; [subst a; cbn; discriminate|]); destruct H.
  - destruct (s_rrclient s); [|destruct H]. destruct H as [H|H]; [subst a; cbn; discriminate|].
    unfold nonempty in H. destruct (b_cl b) as [[|x l0]|]; cbn in H; repeat (destruct H as [H|H]; [subst a; cbn; discriminate|]); destruct H.
  - unfold nonempty in H. destruct (b_comms b) as [[|x l0]|]; cbn in H; repeat (destruct H as [H|H]; [subst a; cbn; discriminate|]); destruct H.
  - unfold nonempty in H. destruct (b_lcomms b) as [[|x l0]|]; cbn in H; repeat (destruct H as [H|H]; [subst a; cbn; discriminate|]); destruct H.
Qed.
