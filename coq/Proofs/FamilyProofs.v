(* C12: the skip test of fsmAddressFamily.replace{Import,Export}FilterChain is harmless: with or without the
   shortcut the tables end up as the new policy demands. *)
From Coq Require Import List NArith Bool Lia Permutation.
Import ListNotations.
From BioVerif Require Import Model.PathIDs Model.AdjRIBOut Model.LocView Model.ImportReplace
  Spec.ExportViewSpec Spec.ReplaceSpec
  Proofs.AroIDsProofs Proofs.ExportViewC Proofs.ReplaceProofs Proofs.ImportReplaceProofs.
Local Open Scope N_scope.

Lemma export_with_ext : forall (f g : N -> path -> option path) s pfx p,
  (forall pf q, f pf q = g pf q) -> export_with f s pfx p = export_with g s pfx p.
Proof.
  intros f g s pfx p E. unfold export_with. destruct (redistribute s p) as [r b].
  destruct (should_propagate s (PBgp r b)); [|reflexivity].
  destruct (rewrite s r b); [apply E|reflexivity].
Qed.

Lemma export_view_ext : forall (f g : N -> path -> option path) s pfx l,
  (forall pf q, f pf q = g pf q) -> export_view f s pfx l = export_view g s pfx l.
Proof.
  intros f g s pfx l E. unfold export_view. apply flat_map_ext. intros p.
  now rewrite (export_with_ext f g s pfx p E).
Qed.

Lemma establish_ext : forall (f g : N -> path -> option path) r,
  (forall pf q, f pf q = g pf q) -> establish f r = establish g r.
Proof.
  intros f g r E. unfold establish. apply flat_map_ext. intros [[pfx p] h]. destruct h; [reflexivity|].
  now rewrite E.
Qed.

(* export side, the fsm's entry point, session established *)
Theorem family_export_converges :
  forall (s : sess) (f : family) (a : aro chain) (c : chain) (v : view),
  fam_up f = true ->
  rguards (interp (fam_exp f)) (interp c) s v ->
  cur a = fam_exp f -> (s_addpath s = true -> Inv chain a) ->
  ribout_is_export_view (interp (fam_exp f)) s v a ->
  let x' := fam_replace_export s (f, a) c v in
  errs (snd x') = errs a ->
  ribout_is_export_view (interp c) s v (snd x') /\
  (forall pfx p, interp (fam_exp (fst x')) pfx p = interp c pfx p) /\
  (forall pfx p, interp (cur (snd x')) pfx p = interp c pfx p).
Proof.
  intros s f a c v Up G Hc I H x' HE. unfold x', fam_replace_export in *. cbn [fst snd] in *.
  destruct (chain_eqb c (fam_exp f)) eqn:EQ; cbn [fst snd] in *.
  - (* skipped: the two policies treat every route alike *)
    pose proof (chain_eqb_sound c (fam_exp f) EQ) as S.
    split; [|split].
    + intros pfx. rewrite (export_view_ext (interp c) (interp (fam_exp f)) s pfx _ S). apply H.
    + intros pfx p. symmetry. apply S.
    + intros pfx p. rewrite Hc. symmetry. apply S.
  - rewrite Up in *.
    destruct (replace_converges chain interp s (fam_exp f) c v a G Hc I H HE) as [R C].
    split; [exact R|]. split; [reflexivity|]. intros pfx p. now rewrite C.
Qed.

(* import side, the fsm's entry point, session established *)
Theorem family_import_converges :
  forall (f : family) (r : rin) (other l : loc) (c : chain),
  fam_up f = true ->
  iguards (interp (fam_imp f)) (interp c) r other ->
  Permutation l (other ++ establish (interp (fam_imp f)) r) ->
  let x' := fam_replace_import (f, l) r c in
  Permutation (snd x') (other ++ establish (interp c) r) /\
  (forall pfx p, interp (fam_imp (fst x')) pfx p = interp c pfx p).
Proof.
  intros f r other l c Up G H x'. unfold x', fam_replace_import. cbn [fst snd].
  destruct (chain_eqb c (fam_imp f)) eqn:EQ; cbn [fst snd].
  - pose proof (chain_eqb_sound c (fam_imp f) EQ) as S. split.
    + rewrite (establish_ext (interp c) (interp (fam_imp f)) r S). exact H.
    + intros pfx p. symmetry. apply S.
  - rewrite Up. split; [|reflexivity]. now apply import_replace_converges.
Qed.

(* established or not: afterwards the address family holds a chain that filters like the new one, and a
   session that is down keeps its (non-existent) tables *)
Theorem family_replace_stores :
  forall (s : sess) (f : family) (a : aro chain) (l : loc) (r : rin) (c : chain) (v : view),
  (forall pfx p, interp (fam_exp (fst (fam_replace_export s (f, a) c v))) pfx p = interp c pfx p) /\
  (forall pfx p, interp (fam_imp (fst (fam_replace_import (f, l) r c))) pfx p = interp c pfx p) /\
  fam_up (fst (fam_replace_export s (f, a) c v)) = fam_up f /\
  fam_up (fst (fam_replace_import (f, l) r c)) = fam_up f /\
  (fam_up f = false -> snd (fam_replace_export s (f, a) c v) = a /\ snd (fam_replace_import (f, l) r c) = l).
Proof.
  intros s f a l r c v. unfold fam_replace_export, fam_replace_import. cbn [fst snd].
  split; [|split; [|split; [|split]]].
  - intros pfx p. destruct (chain_eqb c (fam_exp f)) eqn:E1; cbn [fst fam_exp]; [|reflexivity].
    symmetry. now apply chain_eqb_sound.
  - intros pfx p. destruct (chain_eqb c (fam_imp f)) eqn:E2; cbn [fst fam_imp]; [|reflexivity].
    symmetry. now apply chain_eqb_sound.
  - destruct (chain_eqb c (fam_exp f)); reflexivity.
  - destruct (chain_eqb c (fam_imp f)); reflexivity.
  - intros Dn. rewrite Dn. split.
    + destruct (chain_eqb c (fam_exp f)); reflexivity.
    + destruct (chain_eqb c (fam_imp f)); reflexivity.
Qed.

(* init(): the initial dump of the Loc-RIB is a history like any other *)
Lemma init_fold_is_feed : forall s (v : view) (vw : view) (a : aro chain),
  NoDup (map fst v) -> (forall pfx l, In (pfx, l) v -> view_get pfx vw = []) ->
  snd (fold_left (feed_step chain interp s) v (vw, a)) =
  fold_left (fun a e => fold_left (fun a p => add_path chain interp s a (fst e) p) (snd e) a) v a.
Proof.
  intros s v. induction v as [|[pfx l] v IH]; intros vw a ND HE; cbn [fold_left]; [reflexivity|].
  cbn [feed_step fst snd]. rewrite (HE pfx l (or_introl eq_refl)).
  cbn [map fst] in ND. apply NoDup_cons_iff in ND. destruct ND as [NI ND].
  rewrite IH.
  - f_equal. unfold change_ops, paths_diff. cbn [filter map app].
    assert (F : filter (fun p : path => negb (mem_path p [])) l = l).
    { clear. induction l as [|x l IHl]; [reflexivity|]. cbn [filter]. unfold mem_path at 1.
      destruct (in_dec path_eq_dec x []) as [[]|_]. cbn [negb]. now rewrite IHl. }
    rewrite F, fold_left_map. reflexivity.
  - exact ND.
  - intros pfx' l' HI. rewrite view_get_set_other; [apply (HE pfx' l'); now right|].
    intros ->. apply NI. now apply (in_map fst) in HI.
Qed.

Theorem family_init_converges :
  forall (s : sess) (f : family) (v : view),
  guards (interp (fam_exp f)) s v -> NoDup (map fst v) ->
  let x' := fam_init_export s f v in
  errs (snd x') = 0 ->
  ribout_is_export_view (interp (fam_exp f)) s (fst (feed chain interp s (fam_exp f) v)) (snd x') /\
  fam_up (fst x') = true /\ cur (snd x') = fam_exp f.
Proof.
  intros s f v G ND x' HE. unfold x', fam_init_export in *. cbn [fst snd fam_up] in *.
  assert (EQ : snd (feed chain interp s (fam_exp f) v) =
               fold_left (fun a e => fold_left (fun a p => add_path chain interp s a (fst e) p) (snd e) a) v (init chain (fam_exp f))).
  { unfold feed. apply (init_fold_is_feed s); [exact ND|]. intros; reflexivity. }
  rewrite <- EQ in *. split; [|split; [reflexivity|]].
  - now apply ribout_is_export_view_partial.
  - apply (fi_cur chain interp s (fam_exp f) v).
    unfold feed. apply FI_feed; [assumption|apply incl_refl|apply FI_init|exact HE].
Qed.

(* a replacement that arrives while the session is down is not lost: the session that comes up next is the
   one the new policy asks for *)
Theorem family_down_replace_then_init :
  forall (s : sess) (f : family) (a : aro chain) (c : chain) (v0 v : view),
  let f' := fst (fam_replace_export s (f, a) c v0) in
  guards (interp (fam_exp f')) s v -> NoDup (map fst v) ->
  let x' := fam_init_export s f' v in
  errs (snd x') = 0 ->
  forall pfx, Permutation (map (norm s) (tbl_get pfx (tbl (snd x'))))
                          (map (norm s) (export_view (interp c) s pfx
                                           (view_get pfx (fst (feed chain interp s (fam_exp f') v))))).
Proof.
  intros s f a c v0 v f' G ND x' HE pfx.
  destruct (family_init_converges s f' v G ND HE) as [R _]. fold x' in R.
  destruct (family_replace_stores s f a [] [] c v0) as [S _]. fold f' in S.
  rewrite <- (export_view_ext (interp (fam_exp f')) (interp c) s pfx _ S). apply R.
Qed.

(* a replacement is skipped only against the chain of the same direction, and only when nothing changes *)
Theorem family_never_skipped_export : forall s f a c v,
  fam_replace_export s (f, a) c v = (f, a) \/ fam_exp (fst (fam_replace_export s (f, a) c v)) = c.
Proof.
  intros. unfold fam_replace_export. cbn [fst snd]. destruct (chain_eqb c (fam_exp f)); [now left|now right].
Qed.
