(* C12: the skip test of fsmAddressFamily.replace{Import,Export}FilterChain is harmless: with or without the
   shortcut the tables end up as the new policy demands. *)
From Coq Require Import List NArith Bool Lia Permutation.
Import ListNotations.
From BioVerif Require Import Model.PathIDs Model.AdjRIBOut Model.LocView Model.ImportReplace
  Spec.ExportViewSpec Spec.ReplaceSpec
  Proofs.AroIDsProofs Proofs.ReplaceProofs Proofs.ImportReplaceProofs.
Local Open Scope N_scope.

Lemma export_with_ext : forall (f g : N -> path -> option path) s pfx p,
  (forall pf q, f pf q = g pf q) -> export_with f s pfx p = export_with g s pfx p.
Proof.
  intros f g s pfx p E. unfold export_with. destruct (redistribute s p) as [r b].
  destruct (should_propagate s (PBgp r b)); [|reflexivity].
  destruct (rewrite s r b); [apply E|reflexivity].
Qed.

Lemma export_view_ext : forall (f g : N -> path -> option path) s pfx l,
  (forall pf q, f pf q = g pf q) -> export_view f s pfx l = export_view g s pfx l.
Proof.
  intros f g s pfx l E. unfold export_view. apply flat_map_ext. intros p.
  now rewrite (export_with_ext f g s pfx p E).
Qed.

Lemma establish_ext : forall (f g : N -> path -> option path) r,
  (forall pf q, f pf q = g pf q) -> establish f r = establish g r.
Proof.
  intros f g r E. unfold establish. apply flat_map_ext. intros [[pfx p] h]. destruct h; [reflexivity|].
  now rewrite E.
Qed.

(* export side, the fsm's entry point *)
Theorem family_export_converges :
  forall (s : sess) (f : family) (a : aro chain) (c : chain) (v : view),
  rguards (interp (fam_exp f)) (interp c) s v ->
  cur a = fam_exp f -> (s_addpath s = true -> Inv chain a) ->
  ribout_is_export_view (interp (fam_exp f)) s v a ->
  let x' := fam_replace_export s (f, a) c v in
  errs (snd x') = errs a ->
  ribout_is_export_view (interp c) s v (snd x') /\
  (forall pfx p, interp (fam_exp (fst x')) pfx p = interp c pfx p) /\
  (forall pfx p, interp (cur (snd x')) pfx p = interp c pfx p).
Proof.
  intros s f a c v G Hc I H x' HE. unfold x', fam_replace_export in *. cbn [fst snd] in *.
  destruct (chain_eqb c (fam_exp f)) eqn:EQ; cbn [fst snd] in *.
  - (* skipped: the two policies treat every route alike *)
    pose proof (chain_eqb_sound c (fam_exp f) EQ) as S.
    split; [|split].
    + intros pfx. rewrite (export_view_ext (interp c) (interp (fam_exp f)) s pfx _ S). apply H.
    + intros pfx p. symmetry. apply S.
    + intros pfx p. rewrite Hc. symmetry. apply S.
  - destruct (replace_converges chain interp s (fam_exp f) c v a G Hc I H HE) as [R C].
    split; [exact R|]. split; [reflexivity|]. intros pfx p. now rewrite C.
Qed.

(* import side, the fsm's entry point *)
Theorem family_import_converges :
  forall (f : family) (r : rin) (other l : loc) (c : chain),
  iguards (interp (fam_imp f)) (interp c) r other ->
  Permutation l (other ++ establish (interp (fam_imp f)) r) ->
  let x' := fam_replace_import (f, l) r c in
  Permutation (snd x') (other ++ establish (interp c) r) /\
  (forall pfx p, interp (fam_imp (fst x')) pfx p = interp c pfx p).
Proof.
  intros f r other l c G H x'. unfold x', fam_replace_import. cbn [fst snd].
  destruct (chain_eqb c (fam_imp f)) eqn:EQ; cbn [fst snd].
  - pose proof (chain_eqb_sound c (fam_imp f) EQ) as S. split.
    + rewrite (establish_ext (interp c) (interp (fam_imp f)) r S). exact H.
    + intros pfx p. symmetry. apply S.
  - split; [|reflexivity]. now apply import_replace_converges.
Qed.

(* a replacement is skipped only against the chain of the same direction, and only when nothing changes *)
Theorem family_never_skipped_export : forall s f a c v,
  fam_replace_export s (f, a) c v = (f, a) \/ fam_exp (fst (fam_replace_export s (f, a) c v)) = c.
Proof.
  intros. unfold fam_replace_export. cbn [fst snd]. destruct (chain_eqb c (fam_exp f)); [now left|now right].
Qed.
