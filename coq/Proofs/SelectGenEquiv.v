(* C02/C03: the path-preference functions REGENERATED from the Go source (Gen/SelectGen.v, tools/gosub2coq,
   profile "route") agree with the hand-written model (Model/PathSel.v) the C02/C03 theorems are about.
   Deliberately shallow proofs: when route/bgp_path.go, route/static.go or net/ip.go (Compare) change their
   meaning, SelectGen.v changes and this file stops compiling. *)
From Coq Require Import List NArith ZArith Bool.
Import ListNotations.
From BioVerif Require Import Model.PathSel Spec.PathSelSpec Proofs.PathSelProofs Gen.SelectGen.
Open Scope N_scope.

Lemma gen_ip_compare_eq a b : g_IP_Compare a b = ip_compare a b.
Proof. reflexivity. Qed.

Lemma gen_cluster_list_len_eq b : g_BGPPath_clusterListLen b = cl_len b.
Proof. reflexivity. Qed.

Lemma gen_bgp_select_eq b c : g_BGPPath_Select b c = bgp_select b c.
Proof.
  unfold g_BGPPath_Select, bgp_select, eff_id.
  destruct (origid c =? 0), (origid b =? 0); reflexivity.
Qed.

Lemma gen_bgp_ecmp_eq b c : g_BGPPath_ECMP b c = bgp_ecmp b c.
Proof. reflexivity. Qed.

Lemma gen_static_select_eq s t : g_StaticPath_Select s t = static_select s t.
Proof. reflexivity. Qed.

Lemma gen_static_ecmp_eq s t : g_StaticPath_ECMP s t = static_ecmp s t.
Proof. reflexivity. Qed.

Theorem generated_select_agrees :
  (forall b c, g_BGPPath_Select b c = bgp_select b c) /\
  (forall b c, g_BGPPath_ECMP b c = bgp_ecmp b c) /\
  (forall b, g_BGPPath_clusterListLen b = cl_len b) /\
  (forall s t, g_StaticPath_Select s t = static_select s t) /\
  (forall s t, g_StaticPath_ECMP s t = static_ecmp s t) /\
  (forall a b, g_IP_Compare a b = ip_compare a b).
Proof.
  exact (conj gen_bgp_select_eq (conj gen_bgp_ecmp_eq (conj gen_cluster_list_len_eq
          (conj gen_static_select_eq (conj gen_static_ecmp_eq gen_ip_compare_eq))))).
Qed.

(* the RFC-order theorem on the generated Select *)
Theorem bgp_select_gen_is_rfc (b c : bgp_path) :
  g_BGPPath_Select b c = rfc_cmp_bgp (bgp_key_of b) (bgp_key_of c).
Proof. rewrite gen_bgp_select_eq. apply bgp_select_is_rfc. Qed.

Theorem bgp_ecmp_gen_is_key (b c : bgp_path) :
  g_BGPPath_ECMP b c = bgp_ecmp b c.
Proof. apply gen_bgp_ecmp_eq. Qed.

(* the dispatcher Path.Select (hand-modelled: type dispatch, nil sub-path = Panic) over the GENERATED
   per-protocol functions *)
Definition path_select_gen (p q : path) : res Z :=
  if ptype q <? ptype p then Ok 1%Z
  else if ptype p <? ptype q then Ok (-1)%Z
  else if ptype p =? BGPPathType then
    match pbgp p, pbgp q with
    | Some b, Some c => Ok (g_BGPPath_Select b c)
    | _, _ => Panic
    end
  else if ptype p =? StaticPathType then
    match pstatic p, pstatic q with
    | Some s, Some t => Ok (g_StaticPath_Select s t)
    | _, _ => Panic
    end
  else if ptype p =? FIBPathType then Panic
  else Ok 0%Z.

Lemma path_select_gen_eq p q : path_select_gen p q = path_select p q.
Proof.
  unfold path_select_gen, path_select.
  destruct (pbgp p), (pbgp q), (pstatic p), (pstatic q);
    rewrite ?gen_bgp_select_eq, ?gen_static_select_eq; reflexivity.
Qed.

Definition prefers_gen (a b : wpath) : Prop :=
  path_select_gen (embed a) (embed b) = Ok 1%Z \/ path_select_gen (embed a) (embed b) = Ok 0%Z.

Theorem total_preorder_gen :
  (forall a b, prefers_gen a b \/ prefers_gen b a) /\
  (forall a b c, prefers_gen a b -> prefers_gen b c -> prefers_gen a c).
Proof.
  unfold prefers_gen. split.
  - intros a b. rewrite !path_select_gen_eq. apply prefers_total.
  - intros a b c. rewrite !path_select_gen_eq. apply prefers_trans.
Qed.
