(* C14, part 3: the store model of Chain.Process simulates the reference interpreter. *)
From Coq Require Import List NArith Bool Lia Arith.
Import ListNotations.
From BioVerif Require Import Model.Policy Spec.PolicyRef Proofs.PolicyBits Proofs.PolicyProofs.
Local Open Scope N_scope.

Lemma sim_same L0 st r v vd :
  nth_error st r = Some v -> path_wfb v = true -> (L0 <= r)%nat ->
  sim L0 (Ok (st, mkR r (rej_of vd) (term_of vd))) st (v, vd).
Proof.
  intros Hn Hw HL. exists st, r. simpl. repeat split; auto.
Qed.

Lemma sim_fresh L0 st v' :
  (L0 <= length st)%nat -> path_wfb v' = true ->
  sim L0 (Ok (st ++ [v'], mkR (length st) false false)) st (v', Continue).
Proof.
  intros HL Hw. exists (st ++ [v']), (length st). simpl.
  split; [reflexivity |]. split; [apply nth_error_app_last |]. split; [exact Hw |].
  split; [exact HL |]. apply frame_alloc. exact HL.
Qed.

Lemma sim_inplace L0 st r v' :
  (r < length st)%nat -> (L0 <= r)%nat -> path_wfb v' = true ->
  sim L0 (Ok (upd st r v', mkR r false false)) st (v', Continue).
Proof.
  intros Hlt HL Hw. exists (upd st r v'), r. simpl.
  split; [reflexivity |]. split; [apply nth_error_upd_same; exact Hlt |]. split; [exact Hw |].
  split; [exact HL |]. apply frame_upd. exact HL.
Qed.

Lemma set_next_hop_ok nh v : set_next_hop nh v = next_hop_ref nh v.
Proof.
  unfold set_next_hop, next_hop_ref, on_bgp, on_attrs.
  destruct (pa_type v =? BGPPathType); [| reflexivity].
  destruct (pa_bgp v) as [b |] eqn:Eb; [| reflexivity].
  destruct (b_a b) eqn:Ea; [reflexivity |].
  destruct v as [ty bg stc]. simpl in *. subst bg. destruct b. simpl in *. subst. reflexivity.
Qed.

Lemma next_hop_wf nh v : path_wfb v = true -> path_wfb (next_hop_ref nh v) = true.
Proof.
  intros Hw. unfold next_hop_ref.
  destruct (pa_type v =? BGPPathType); [apply path_wfb_on_attrs; exact Hw |].
  destruct (pa_type v =? StaticPathType); [| exact Hw].
  destruct (pa_static v); exact Hw.
Qed.

Lemma prepend_wf asn times v : path_wfb v = true -> path_wfb (on_bgp (prepend_ref asn times) v) = true.
Proof.
  intros Hw. unfold path_wfb in *. unfold on_bgp. destruct (pa_bgp v) as [b |] eqn:Eb.
  - simpl. unfold prepend_ref. destruct (times =? 0); [exact Hw |]. simpl. exact Hw.
  - rewrite Eb. reflexivity.
Qed.

Lemma act_sim L0 a st r v :
  nth_error st r = Some v -> path_wfb v = true -> (L0 <= r)%nat ->
  sim L0 (act_do a st r) st (act_ref a v).
Proof.
  intros Hn Hw HL. pose proof (nth_error_lt _ _ _ Hn) as Hlt.
  unfold act_do. rewrite Hn.
  destruct a as [| | lp | med | nh | asn times]; cbn [act_ref].
  - apply (sim_same L0 st r v Accepted); auto.
  - apply (sim_same L0 st r v Rejected); auto.
  - pose proof (path_wfb_on_attrs (fun x => mkA lp (a_med x) (a_nh x)) v Hw) as Hw2.
    unfold on_bgp in *. unfold path_wfb in Hw. destruct (pa_bgp v) as [b |] eqn:Eb.
    + unfold on_attrs in *. destruct (b_a b) as [a0 |] eqn:Ea; [| discriminate].
      unfold alloc, cont. rewrite upd_app_last. apply sim_fresh; [lia | exact Hw2].
    + apply (sim_same L0 st r v Continue); auto.
  - pose proof (path_wfb_on_attrs (fun x => mkA (a_lp x) med (a_nh x)) v Hw) as Hw2.
    unfold on_bgp in *. unfold path_wfb in Hw. destruct (pa_bgp v) as [b |] eqn:Eb.
    + unfold on_attrs in *. destruct (b_a b) as [a0 |] eqn:Ea; [| discriminate].
      unfold alloc, cont. rewrite upd_app_last. apply sim_fresh; [lia | exact Hw2].
    + apply (sim_same L0 st r v Continue); auto.
  - unfold alloc, cont. rewrite upd_app_last, set_next_hop_ok.
    apply sim_fresh; [lia | apply next_hop_wf; exact Hw].
  - pose proof (prepend_wf asn times v Hw) as Hw2.
    unfold on_bgp in *. destruct (pa_bgp v) as [b |] eqn:Eb.
    + unfold cont. rewrite bgp_prepend_ok. apply sim_inplace; auto.
    + apply (sim_same L0 st r v Continue); auto.
Qed.

Lemma sim_frame L0 m st st1 sp : frame L0 st st1 -> sim L0 m st1 sp -> sim L0 m st sp.
Proof.
  intros Hf [st' [r' [E [Hn [Hw [HL Hf2]]]]]]. exists st', r'. repeat split; auto;
  destruct (frame_trans L0 st st1 st' Hf Hf2); auto.
Qed.

Lemma actions_sim L0 acts : forall st r v,
  nth_error st r = Some v -> path_wfb v = true -> (L0 <= r)%nat ->
  sim L0 (process_actions acts st r) st (seq_ref act_ref acts v).
Proof.
  induction acts as [| a acts IH]; intros st r v Hn Hw HL.
  - simpl. apply (sim_same L0 st r v Continue); auto.
  - cbn [process_actions seq_ref].
    destruct (act_sim L0 a st r v Hn Hw HL) as [st1 [r1 [E [Hn1 [Hw1 [HL1 Hf1]]]]]].
    rewrite E. cbn [ar_term ar_path ar_reject]. destruct (act_ref a v) as [v1 vd]. cbn [fst snd] in *.
    destruct vd; cbn [term_of rej_of].
    + apply (sim_frame L0 _ st st1); auto.
    + exists st1, r1. cbn [fst snd rej_of term_of]. repeat split; auto; apply Hf1.
    + exists st1, r1. cbn [fst snd rej_of term_of]. repeat split; auto; apply Hf1.
Qed.

(* value-level reading of the model: the reference evaluation order with the MODEL's
   condition test for an arbitrary matcher function mm (no well-formedness of prefixes needed) *)
Section WithMatcher.
Variable mm : matcher -> prefix -> prefix -> bool.

Definition applies_m (env : penv) (p : prefix) (t : term) (a : path) : bool :=
  if is_nil (t_from t) then true else any_of (fun f => cond_matches_w mm env f p a) (t_from t).
Definition term_val (env : penv) (p : prefix) (t : term) (a : path) : path * verdict :=
  if applies_m env p t a then seq_ref act_ref (t_then t) a else (a, Continue).
Definition filter_val (env : penv) (p : prefix) (f : filter) (a : path) : path * verdict :=
  seq_ref (term_val env p) f a.
Definition chain_val (env : penv) (c : chain) (p : prefix) (a : path) : path * bool :=
  let (a', v) := seq_ref (filter_val env p) c a in (a', rej_of v).

Lemma term_sim L0 env p t st r v :
  nth_error st r = Some v -> path_wfb v = true -> (L0 <= r)%nat ->
  sim L0 (term_process_w mm env t p st r) st (term_val env p t v).
Proof.
  intros Hn Hw HL. unfold term_process_w, term_val, applies_m. rewrite Hn.
  destruct (is_nil (t_from t)); [apply actions_sim; auto |].
  destruct (any_of _ (t_from t)); [apply actions_sim; auto |].
  apply (sim_same L0 st r v Continue); auto.
Qed.

Lemma filter_sim L0 env p f : forall st r v,
  nth_error st r = Some v -> path_wfb v = true -> (L0 <= r)%nat ->
  sim L0 (filter_process_w mm env f p st r) st (filter_val env p f v).
Proof.
  unfold filter_val. induction f as [| t f IH]; intros st r v Hn Hw HL.
  - simpl. apply (sim_same L0 st r v Continue); auto.
  - cbn [filter_process_w seq_ref].
    destruct (term_sim L0 env p t st r v Hn Hw HL) as [st1 [r1 [E [Hn1 [Hw1 [HL1 Hf1]]]]]].
    rewrite E. cbn [ar_term ar_path ar_reject]. destruct (term_val env p t v) as [v1 vd]. cbn [fst snd] in *.
    destruct vd; cbn [term_of rej_of].
    + apply (sim_frame L0 _ st st1); auto.
    + exists st1, r1. cbn [fst snd rej_of term_of]. repeat split; auto; apply Hf1.
    + exists st1, r1. cbn [fst snd rej_of term_of]. repeat split; auto; apply Hf1.
Qed.

Lemma chain_loop_sim L0 env p c : forall st r v,
  nth_error st r = Some v -> path_wfb v = true -> (L0 <= r)%nat ->
  exists st' r',
    chain_loop_w mm env c p st r = Ok (st', r', snd (chain_val env c p v)) /\
    nth_error st' r' = Some (fst (chain_val env c p v)) /\
    path_wfb (fst (chain_val env c p v)) = true /\ (L0 <= r')%nat /\ frame L0 st st'.
Proof.
  unfold chain_val. induction c as [| f c IH]; intros st r v Hn Hw HL.
  - simpl. exists st, r. repeat split; auto.
  - cbn [chain_loop_w seq_ref].
    destruct (filter_sim L0 env p f st r v Hn Hw HL) as [st1 [r1 [E [Hn1 [Hw1 [HL1 Hf1]]]]]].
    rewrite E. cbn [ar_term ar_path ar_reject]. destruct (filter_val env p f v) as [v1 vd]. cbn [fst snd] in *.
    destruct vd; cbn [term_of rej_of].
    + destruct (IH st1 r1 v1 Hn1 Hw1 HL1) as [st2 [r2 [E2 [Hn2 [Hw2 [HL2 Hf2]]]]]].
      exists st2, r2. repeat split; auto; destruct (frame_trans L0 st st1 st2 Hf1 Hf2); auto.
    + exists st1, r1. cbn [fst snd rej_of]. repeat split; auto; apply Hf1.
    + exists st1, r1. cbn [fst snd rej_of]. repeat split; auto; apply Hf1.
Qed.

(* Chain.Process on a valid pointer to a well-formed path: never panics, computes chain_val on the
   value, returns a fresh cell and leaves every cell of the caller's store untouched *)
Theorem process_val env c p st r v :
  nth_error st r = Some v -> path_wfb v = true ->
  exists st' r',
    process_w mm env c p st r = Ok (st', r', snd (chain_val env c p v)) /\
    nth_error st' r' = Some (fst (chain_val env c p v)) /\
    (length st <= r')%nat /\
    (forall k, (k < length st)%nat -> nth_error st' k = nth_error st k).
Proof.
  intros Hn Hw. unfold process_w, alloc. rewrite Hn.
  destruct (chain_loop_sim (length st) env p c (st ++ [v]) (length st) v
              (nth_error_app_last st v) Hw (le_n _)) as [st' [r' [E [Hn' [_ [HL [_ Hf]]]]]]].
  exists st', r'. repeat split; auto.
  intros k Hk. rewrite (Hf k Hk). apply nth_error_app1. exact Hk.
Qed.

(* ------------------------------------------------------------------ chain_val = chain_ref *)

Lemma seq_ref_ext_in {X : Type} (f g : X -> path -> path * verdict) l :
  (forall x, In x l -> forall a, f x a = g x a) -> forall a, seq_ref f l a = seq_ref g l a.
Proof.
  induction l as [| x l IH]; intros H a; [reflexivity |].
  cbn [seq_ref]. rewrite (H x (or_introl eq_refl) a). destruct (g x a) as [a' v].
  destruct v; auto; apply IH; intros y Hy; apply H; right; exact Hy.
Qed.

Hypothesis Hmm : mm_ok mm.

Lemma term_val_ref env p t a :
  forallb (cond_wfb env) (t_from t) = true -> prefix_wfb p = true ->
  term_val env p t a = term_ref env p t a.
Proof.
  intros Wt Wp. unfold term_val, term_ref, applies_m. rewrite part_any.
  rewrite (part_ext_in _ (fun c => cond_ref env c p a)); [reflexivity |].
  intros c Hc. apply cond_ok_w; auto. apply (forallb_In _ _ _ Wt Hc).
Qed.

Theorem chain_val_ref env c p a :
  chain_wfb env c = true -> prefix_wfb p = true -> chain_val env c p a = chain_ref env c p a.
Proof.
  intros Wc Wp. unfold chain_val, chain_ref.
  rewrite (seq_ref_ext_in (filter_val env p) (filter_ref env p) c).
  - destruct (seq_ref (filter_ref env p) c a) as [a' v]. destruct v; reflexivity.
  - intros f Hf b. unfold filter_val, filter_ref. apply seq_ref_ext_in.
    intros t Ht b'. apply term_val_ref; auto.
    unfold chain_wfb in Wc. apply (forallb_In _ _ _ (forallb_In _ _ _ Wc Hf) Ht).
Qed.

(* the reference-interpreter statement for the engine instantiated with mm *)
Theorem process_ref_w env c p st r v :
  chain_wfb env c = true -> prefix_wfb p = true -> path_wfb v = true ->
  nth_error st r = Some v ->
  exists st' r',
    process_w mm env c p st r = Ok (st', r', snd (chain_ref env c p v)) /\
    nth_error st' r' = Some (fst (chain_ref env c p v)) /\
    (length st <= r')%nat /\
    (forall k, (k < length st)%nat -> nth_error st' k = nth_error st k).
Proof.
  intros Wc Wp Wv Hn. rewrite <- (chain_val_ref env c p v Wc Wp). apply process_val; auto.
Qed.

End WithMatcher.

(* ------------------------------------------------------------------ the C14 statements *)

Theorem process_ref env c p st r v :
  chain_wfb env c = true -> prefix_wfb p = true -> path_wfb v = true ->
  nth_error st r = Some v ->
  exists st' r',
    process env c p st r = Ok (st', r', snd (chain_ref env c p v)) /\
    nth_error st' r' = Some (fst (chain_ref env c p v)) /\
    (length st <= r')%nat /\
    (forall k, (k < length st)%nat -> nth_error st' k = nth_error st k).
Proof. apply process_ref_w. exact matcher_match_ok. Qed.

Theorem no_panic env c p st r v :
  path_wfb v = true -> nth_error st r = Some v -> process env c p st r <> Panic.
Proof.
  intros Wv Hn. destruct (process_val matcher_match env c p st r v Hn Wv) as [st' [r' [E _]]].
  unfold process. rewrite E. discriminate.
Qed.
