(* C31 proofs. *)
From Coq Require Import List Bool NArith Lia.
Import ListNotations.
From BioVerif Require Import Model.Adj Spec.AdjSpec.
Open Scope N_scope.

(* ------------------------------------------------------------------ table lemmas *)

Lemma lookup_update_same : forall k v t, lookup k (update k v t) = Some v.
Proof.
  induction t as [| [k' v'] r IH]; simpl.
  - rewrite N.eqb_refl. reflexivity.
  - destruct (N.eqb k' k) eqn:E; simpl; rewrite E; auto.
Qed.

Lemma lookup_update_other : forall k k' v t, k' <> k -> lookup k (update k' v t) = lookup k t.
Proof.
  induction t as [| [k'' v''] r IH]; intros Hne; simpl.
  - destruct (N.eqb k' k) eqn:E; auto. apply N.eqb_eq in E. contradiction.
  - destruct (N.eqb k'' k') eqn:E; simpl.
    + apply N.eqb_eq in E. subst k''. apply N.eqb_neq in Hne. rewrite Hne. reflexivity.
    + rewrite IH; auto.
Qed.

Lemma lookup_in : forall k t nb, lookup k t = Some nb -> In (k, nb) t.
Proof.
  induction t as [| [k' v'] r IH]; intros nb H; simpl in *; try discriminate.
  destruct (N.eqb k' k) eqn:E.
  - apply N.eqb_eq in E. subst. injection H as H. subst. auto.
  - right. apply IH; auto.
Qed.

Lemma lookup_none_notin : forall k t, lookup k t = None -> ~ In k (map fst t).
Proof.
  induction t as [| [k' v'] r IH]; intros H; simpl in *; auto.
  destruct (N.eqb k' k) eqn:E; try discriminate.
  apply N.eqb_neq in E. intros [H1 | H1]; auto. apply IH; auto.
Qed.

Lemma notin_lookup_none : forall k t, ~ In k (map fst t) -> lookup k t = None.
Proof.
  induction t as [| [k' v'] r IH]; intros H; simpl in *; auto.
  destruct (N.eqb k' k) eqn:E.
  - apply N.eqb_eq in E. subst. exfalso. apply H. auto.
  - apply IH. intros H1. apply H. auto.
Qed.

Lemma update_keys_in : forall k v t x, In x (map fst (update k v t)) -> x = k \/ In x (map fst t).
Proof.
  induction t as [| [k' v'] r IH]; intros x H; simpl in *.
  - destruct H as [H | []]. auto.
  - destruct (N.eqb k' k) eqn:E; simpl in *.
    + destruct H as [H | H]; auto.
    + destruct H as [H | H]; auto. apply IH in H. destruct H; auto.
Qed.

Lemma update_nodup : forall k v t, NoDup (map fst t) -> NoDup (map fst (update k v t)).
Proof.
  induction t as [| [k' v'] r IH]; intros H; simpl in *.
  - constructor; auto.
  - inversion H as [| ? ? Hn Hr]; subst.
    destruct (N.eqb k' k) eqn:E; simpl.
    + constructor; auto.
    + constructor; auto. intros Hin. apply update_keys_in in Hin. destruct Hin as [Hin | Hin].
      * subst. rewrite N.eqb_refl in E. discriminate.
      * contradiction.
Qed.

(* ------------------------------------------------------------------ the checker *)

Lemma check_all_keys : forall nw t x, In x (map fst (fst (check_all nw t))) -> In x (map fst t).
Proof.
  induction t as [| [k nb] r IH]; intros x H; simpl in *; auto.
  destruct (check_all nw r) as [r' req'] eqn:Er. simpl in IH.
  destruct (check nw nb) as [[nb' |] req]; simpl in *.
  - destruct H as [H | H]; auto.
  - auto.
Qed.

Lemma check_all_nodup : forall nw t, NoDup (map fst t) -> NoDup (map fst (fst (check_all nw t))).
Proof.
  induction t as [| [k nb] r IH]; intros H; simpl in *.
  - constructor.
  - inversion H as [| ? ? Hn Hr]; subst.
    destruct (check_all nw r) as [r' req'] eqn:Er. simpl in IH.
    destruct (check nw nb) as [[nb' |] req]; simpl.
    + constructor; auto. intros Hin.
      apply Hn. pose proof (check_all_keys nw r k) as Hk. rewrite Er in Hk. simpl in Hk. auto.
    + auto.
Qed.

(* lookup through one pass of all checkers, keys unique *)
Lemma check_all_lookup : forall nw t k, NoDup (map fst t) ->
  lookup k (fst (check_all nw t)) =
  match lookup k t with
  | None => None
  | Some nb => fst (check nw nb)
  end.
Proof.
  induction t as [| [k' nb'] r IH]; intros k Hnd; simpl; auto.
  inversion Hnd as [| ? ? Hn Hr]; subst.
  specialize (IH k Hr).
  destruct (check_all nw r) as [r' req'] eqn:Er. simpl in IH.
  destruct (N.eqb k' k) eqn:E.
  - apply N.eqb_eq in E. subst k'.
    destruct (check nw nb') as [[nb1 |] req] eqn:Ec; simpl.
    + rewrite N.eqb_refl. reflexivity.
    + (* removed: no later binding of k *)
      rewrite IH. rewrite (notin_lookup_none k r Hn). reflexivity.
  - destruct (check nw nb') as [[nb1 |] req] eqn:Ec; simpl.
    + rewrite E. exact IH.
    + exact IH.
Qed.

Lemma check_all_in : forall nw t k nb1, In (k, nb1) (fst (check_all nw t)) ->
  exists nb req, In (k, nb) t /\ check nw nb = (Some nb1, req).
Proof.
  induction t as [| [k' nb'] r IH]; intros k nb1 H; simpl in *; try contradiction.
  destruct (check_all nw r) as [r' req'] eqn:Er. simpl in IH.
  destruct (check nw nb') as [[nb2 |] req] eqn:Ec; simpl in *.
  - destruct H as [H | H].
    + injection H as H1 H2. subst. exists nb', req. auto.
    + destruct (IH k nb1 H) as (nb & rq & Hin & Hc). exists nb, rq. auto.
  - destruct (IH k nb1 H) as (nb & rq & Hin & Hc). exists nb, rq. auto.
Qed.

(* what one checker pass guarantees about a neighbor it keeps *)
Lemma check_some : forall nw nb nb1 req, check nw nb = (Some nb1, req) ->
  (state nb1 = Up -> nw <= timeout nb1 /\ nb1 = nb) /\
  (state nb1 = Init -> nw <= timeout nb1 /\ nb1 = nb) /\
  (state nb1 = Down -> nw - changed nb1 <= down_keep) /\
  (state nb = Up -> timeout nb < nw -> nb1 = mkNbr Down (timeout nb) nw /\ req = true).
Proof.
  intros nw nb nb1 req H. unfold check in H.
  destruct nb as [st to ch]. simpl in H.
  destruct st; simpl in H.
  - (* Init *)
    destruct (to <? nw) eqn:Et; simpl in H.
    + destruct (down_keep <? nw - nw) eqn:Ek; try discriminate.
      injection H as H1 H2. subst. simpl. apply N.ltb_ge in Ek.
      repeat split; intros; try discriminate; auto.
    + injection H as H1 H2. subst. simpl. apply N.ltb_ge in Et.
      repeat split; intros; try discriminate; auto.
  - (* Up *)
    destruct (to <? nw) eqn:Et; simpl in H.
    + destruct (down_keep <? nw - nw) eqn:Ek; try discriminate.
      injection H as H1 H2. subst. simpl. apply N.ltb_ge in Ek.
      repeat split; intros; try discriminate; auto.
    + injection H as H1 H2. subst. simpl. apply N.ltb_ge in Et.
      repeat split; intros; try discriminate; auto; try lia.
  - (* Down *)
    destruct (down_keep <? nw - ch) eqn:Ek; try discriminate.
    injection H as H1 H2. subst. simpl. apply N.ltb_ge in Ek.
    repeat split; intros; try discriminate; auto.
Qed.

(* ------------------------------------------------------------------ reachable tables have unique keys *)

Definition wf (s : srv) : Prop := NoDup (map fst (nbrs s)).

Lemma step_wf : forall s e, wf s -> wf (step s e).
Proof.
  intros s e H. unfold wf in *. destruct e as [k hold v | d | |]; simpl.
  - destruct v; simpl; auto; unfold on_hello;
      destruct (lookup k (nbrs s)) as [nb0 |]; simpl; try apply update_nodup; auto.
    + destruct (hello_existing (now s) nb0 hold true). simpl. apply update_nodup; auto.
    + destruct (hello_existing (now s) nb0 hold false). simpl. apply update_nodup; auto.
  - pose proof (check_all_nodup (now s + d) (nbrs s) H) as Hn.
    destruct (check_all (now s + d) (nbrs s)) as [t' req]. simpl in *. exact Hn.
  - destruct (pending s); simpl; auto.
  - auto.
Qed.

Lemma run_wf : forall evs s, wf s -> wf (run s evs).
Proof.
  induction evs as [| e r IH]; intros s H; simpl; auto.
  apply IH. apply step_wf. exact H.
Qed.

Lemma init_wf : wf init.
Proof. unfold wf, init. simpl. constructor. Qed.

Lemma tick_lookup : forall s d k, wf s ->
  lookup k (nbrs (step s (Tick d))) =
  match lookup k (nbrs s) with
  | None => None
  | Some nb => fst (check (now s + d) nb)
  end.
Proof.
  intros s d k H. simpl.
  pose proof (check_all_lookup (now s + d) (nbrs s) k H) as Hl.
  destruct (check_all (now s + d) (nbrs s)) as [t' req]. simpl in *. exact Hl.
Qed.

Lemma hello_lookup_other : forall s k hold v x, x <> k ->
  lookup x (nbrs (step s (Hello k hold v))) = lookup x (nbrs s).
Proof.
  intros s k hold v x Hne. destruct v; simpl; auto; unfold on_hello;
    destruct (lookup k (nbrs s)) as [nb0 |]; simpl.
  - destruct (hello_existing (now s) nb0 hold true). simpl. apply lookup_update_other. auto.
  - apply lookup_update_other. auto.
  - destruct (hello_existing (now s) nb0 hold false). simpl. apply lookup_update_other. auto.
  - apply lookup_update_other. auto.
Qed.

Lemma hello_lookup_same : forall s k hold lists,
  lookup k (nbrs (on_hello s k hold lists)) =
  Some (match lookup k (nbrs s) with
        | None => mkNbr Init (now s + hold) (now s)
        | Some nb0 => fst (hello_existing (now s) nb0 hold lists)
        end).
Proof.
  intros s k hold lists. unfold on_hello. destruct (lookup k (nbrs s)) as [nb0 |]; simpl.
  - destruct (hello_existing (now s) nb0 hold lists). simpl. apply lookup_update_same.
  - apply lookup_update_same.
Qed.

(* ------------------------------------------------------------------ Up only after a hello that lists us *)

Definition up_ok (lv : N -> option bool) (s : srv) : Prop :=
  forall k nb, lookup k (nbrs s) = Some nb -> state nb = Up -> lv k = Some true.

Lemma hello_existing_notlists : forall nw nb hold, state (fst (hello_existing nw nb hold false)) <> Up.
Proof.
  intros nw nb hold. unfold hello_existing. rewrite andb_false_r. simpl.
  destruct (is_up (state nb)) eqn:E; simpl.
  - discriminate.
  - intros H. rewrite H in E. discriminate.
Qed.

Lemma step_up_ok : forall s e lv, wf s -> up_ok lv s -> up_ok (track lv e) (step s e).
Proof.
  intros s e lv Hwf Hok. destruct e as [k hold v | d | |].
  - intros x nb Hl Hup. destruct (N.eqb x k) eqn:E.
    + apply N.eqb_eq in E. subst x. destruct v; simpl in *.
      * rewrite N.eqb_refl. reflexivity.
      * rewrite hello_lookup_same in Hl. injection Hl as Hl. subst nb.
        destruct (lookup k (nbrs s)) as [nb0 |].
        -- exfalso. eapply hello_existing_notlists; eauto.
        -- simpl in Hup. discriminate.
      * eapply Hok; eauto.
      * eapply Hok; eauto.
    + assert (Hne : x <> k) by (apply N.eqb_neq; exact E).
      rewrite hello_lookup_other in Hl; auto.
      destruct v; simpl; try rewrite E; eapply Hok; eauto.
  - intros x nb Hl Hup. rewrite tick_lookup in Hl; auto. simpl.
    destruct (lookup x (nbrs s)) as [nb0 |] eqn:E0; try discriminate.
    destruct (check (now s + d) nb0) as [o req] eqn:Ec. simpl in Hl. subst o.
    destruct (check_some _ _ _ _ Ec) as (Hu & _). destruct (Hu Hup) as [_ Heq]. subst nb0.
    eapply Hok; eauto.
  - simpl. destruct (pending s); simpl; auto.
  - simpl. exact Hok.
Qed.

Lemma run_up_ok : forall evs s lv, wf s -> up_ok lv s -> up_ok (fold_left track evs lv) (run s evs).
Proof.
  induction evs as [| e r IH]; intros s lv Hwf Hok; simpl; auto.
  apply IH.
  - apply step_wf; auto.
  - apply step_up_ok; auto.
Qed.

Theorem up_only_after_threeway : forall evs k nb,
  lookup k (nbrs (run init evs)) = Some nb -> state nb = Up -> last_valid evs k = Some true.
Proof.
  intros evs k nb Hl Hup. unfold last_valid.
  eapply (run_up_ok evs init (fun _ => None)); eauto.
  - apply init_wf.
  - intros x nb0 H. simpl in H. discriminate.
Qed.

(* the handshake's forward direction: a known neighbor whose hello lists us is Up afterwards *)
Theorem up_on_threeway : forall s k hold nb0,
  lookup k (nbrs s) = Some nb0 ->
  exists nb, lookup k (nbrs (step s (Hello k hold Lists))) = Some nb /\ state nb = Up /\
             timeout nb = now s + hold.
Proof.
  intros s k hold nb0 Hl. simpl. rewrite hello_lookup_same. rewrite Hl.
  eexists. split; [reflexivity |]. unfold hello_existing. rewrite andb_true_r. simpl.
  destruct (is_up (state nb0)) eqn:E; simpl; auto.
  destruct (state nb0); simpl in E; try discriminate. auto.
Qed.

(* the first hello only creates the neighbor *)
Theorem first_hello_creates_init : forall s k hold lists,
  lookup k (nbrs s) = None ->
  lookup k (nbrs (on_hello s k hold lists)) = Some (mkNbr Init (now s + hold) (now s)).
Proof.
  intros s k hold lists Hl. rewrite hello_lookup_same. rewrite Hl. reflexivity.
Qed.

(* ------------------------------------------------------------------ Down on mismatch or timeout *)

Theorem down_on_mismatch : forall s k hold,
  (forall nb, lookup k (nbrs (step s (Hello k hold NotLists))) = Some nb -> state nb <> Up) /\
  (forall nb0, lookup k (nbrs s) = Some nb0 -> state nb0 = Up ->
     lookup k (nbrs (step s (Hello k hold NotLists))) = Some (mkNbr Down (now s + hold) (now s)) /\
     pending (step s (Hello k hold NotLists)) = true).
Proof.
  intros s k hold. split.
  - intros nb Hl. simpl in Hl. rewrite hello_lookup_same in Hl. injection Hl as Hl. subst nb.
    destruct (lookup k (nbrs s)) as [nb0 |].
    + apply hello_existing_notlists.
    + simpl. discriminate.
  - intros nb0 Hl Hup. simpl. split.
    + rewrite hello_lookup_same. rewrite Hl. unfold hello_existing. rewrite Hup. simpl. reflexivity.
    + unfold on_hello. rewrite Hl. unfold hello_existing. rewrite Hup. simpl.
      apply orb_true_r.
Qed.

Lemma check_all_req : forall nw t k nb, lookup k t = Some nb -> snd (check nw nb) = true ->
  snd (check_all nw t) = true.
Proof.
  induction t as [| [k' nb'] r IH]; intros k nb Hl Hr; simpl in *; try discriminate.
  destruct (check_all nw r) as [r' req'] eqn:Er. simpl in IH.
  destruct (N.eqb k' k) eqn:E.
  - injection Hl as Hl. subst nb'.
    destruct (check nw nb) as [[nb1 |] req]; simpl in *; subst; reflexivity.
  - specialize (IH k nb Hl Hr). subst req'.
    destruct (check nw nb') as [[nb1 |] req]; simpl; apply orb_true_r.
Qed.

Theorem down_on_timeout : forall s d k, wf s ->
  (forall nb, lookup k (nbrs (step s (Tick d))) = Some nb -> state nb <> Down ->
     now (step s (Tick d)) <= timeout nb) /\
  (forall nb0, lookup k (nbrs s) = Some nb0 -> state nb0 = Up -> timeout nb0 < now s + d ->
     lookup k (nbrs (step s (Tick d))) = Some (mkNbr Down (timeout nb0) (now s + d)) /\
     pending (step s (Tick d)) = true).
Proof.
  intros s d k Hwf. split.
  - intros nb Hl Hnd. rewrite tick_lookup in Hl; auto.
    destruct (lookup k (nbrs s)) as [nb0 |]; try discriminate.
    destruct (check (now s + d) nb0) as [o req] eqn:Ec. simpl in Hl. subst o.
    destruct (check_some _ _ _ _ Ec) as (Hu & Hi & _).
    assert (Hnow : now (step s (Tick d)) = now s + d).
    { simpl. destruct (check_all (now s + d) (nbrs s)). reflexivity. }
    rewrite Hnow. destruct (state nb) eqn:Es.
    + apply Hi; auto.
    + apply Hu; auto.
    + contradiction.
  - intros nb0 Hl Hup Hto. split.
    + rewrite tick_lookup; auto. rewrite Hl.
      unfold check. rewrite Hup. simpl. apply N.ltb_lt in Hto. rewrite Hto. simpl.
      rewrite N.sub_diag. simpl. reflexivity.
    + simpl. pose proof (check_all_req (now s + d) (nbrs s) k nb0 Hl) as Hr.
      destruct (check_all (now s + d) (nbrs s)) as [t' req]. simpl in *.
      rewrite Hr; [apply orb_true_r |].
      unfold check. rewrite Hup. simpl. apply N.ltb_lt in Hto. rewrite Hto. simpl.
      rewrite N.sub_diag. simpl. reflexivity.
Qed.

(* ------------------------------------------------------------------ state changes lie in the past *)

Definition tm (s : srv) : Prop :=
  forall k nb, lookup k (nbrs s) = Some nb -> changed nb <= now s.

Lemma step_now : forall s e, now (step s e) = match e with Tick d => now s + d | _ => now s end.
Proof.
  intros s e. destruct e as [k hold v | d | |]; cbn [step].
  - destruct v; auto; unfold on_hello; destruct (lookup k (nbrs s)) as [nb0 |]; cbn [now]; auto.
    + destruct (hello_existing (now s) nb0 hold true); auto.
    + destruct (hello_existing (now s) nb0 hold false); auto.
  - destruct (check_all (now s + d) (nbrs s)). reflexivity.
  - destruct (pending s); auto.
  - reflexivity.
Qed.

Lemma hello_existing_changed : forall nw nb hold lists, changed nb <= nw ->
  changed (fst (hello_existing nw nb hold lists)) <= nw.
Proof.
  intros nw nb hold lists H. unfold hello_existing.
  destruct (negb (is_up (state nb)) && lists); [cbn [fst changed]; lia |].
  destruct (is_up (state nb) && negb lists); cbn [fst changed]; lia.
Qed.

Lemma check_changed : forall nw nb nb1 req, check nw nb = (Some nb1, req) -> changed nb <= nw ->
  changed nb1 <= nw.
Proof.
  intros nw nb nb1 req H Hc. unfold check in H.
  destruct (negb (is_down (state nb)) && (timeout nb <? nw)); cbn [state changed] in H.
  - cbn [is_down] in H. destruct (down_keep <? nw - nw); try discriminate.
    injection H as H1 H2. subst nb1. cbn [changed]. lia.
  - destruct (is_down (state nb) && (down_keep <? nw - changed nb)); try discriminate.
    injection H as H1 H2. subst nb1. exact Hc.
Qed.

Lemma step_tm : forall s e, wf s -> tm s -> tm (step s e).
Proof.
  intros s e Hwf Ht x nb Hl. rewrite step_now. destruct e as [k hold v | d | |].
  - destruct (N.eqb x k) eqn:E.
    + apply N.eqb_eq in E. subst x.
      assert (Hg : forall lists nb', lookup k (nbrs (on_hello s k hold lists)) = Some nb' ->
                                     changed nb' <= now s).
      { intros lists nb' H. rewrite hello_lookup_same in H. injection H as H. subst nb'.
        destruct (lookup k (nbrs s)) as [nb0 |] eqn:E0.
        - apply hello_existing_changed. eapply Ht; eauto.
        - cbn [changed]. lia. }
      destruct v; cbn [step] in Hl; eauto.
    + rewrite hello_lookup_other in Hl; [eapply Ht; eauto |].
      intros Heq. subst. rewrite N.eqb_refl in E. discriminate.
  - rewrite tick_lookup in Hl; auto.
    destruct (lookup x (nbrs s)) as [nb0 |] eqn:E0; try discriminate.
    destruct (check (now s + d) nb0) as [o req] eqn:Ec. cbn [fst] in Hl. subst o.
    eapply check_changed; eauto. specialize (Ht x nb0 E0). lia.
  - cbn [step] in Hl. destruct (pending s); cbn [nbrs] in Hl; eapply Ht; eauto.
  - cbn [step nbrs] in Hl. eapply Ht; eauto.
Qed.

Lemma run_tm : forall evs s, wf s -> tm s -> tm (run s evs).
Proof.
  induction evs as [| e r IH]; intros s Hwf Ht; cbn [run fold_left]; auto.
  apply IH; [apply step_wf | apply step_tm]; auto.
Qed.

Lemma init_tm : tm init.
Proof. intros k nb H. cbn in H. discriminate. Qed.

(* ------------------------------------------------------------------ a silent neighbor disappears *)

Lemma check_rank : forall nw0 d nb, 0 < d ->
  match fst (check (nw0 + d) nb) with
  | None => True
  | Some nb1 => rank (nw0 + d) nb1 + 1 <= rank nw0 nb
  end.
Proof.
  intros nw0 d nb Hd. unfold check, rank.
  destruct nb as [st to ch]. simpl.
  destruct st; simpl.
  - destruct (to <? nw0 + d) eqn:Et; simpl.
    + rewrite N.sub_diag. simpl. lia.
    + apply N.ltb_ge in Et. lia.
  - destruct (to <? nw0 + d) eqn:Et; simpl.
    + rewrite N.sub_diag. simpl. lia.
    + apply N.ltb_ge in Et. lia.
  - destruct (down_keep <? nw0 + d - ch) eqn:Ek; simpl; auto.
    apply N.ltb_ge in Ek. unfold down_keep in Ek. lia.
Qed.

Lemma silent_absent : forall evs s k, wf s -> silent k evs = true ->
  lookup k (nbrs s) = None -> lookup k (nbrs (run s evs)) = None.
Proof.
  induction evs as [| e r IH]; intros s k Hwf Hs Hl; simpl in *; auto.
  apply andb_true_iff in Hs. destruct Hs as [He Hr].
  apply IH; auto.
  - apply step_wf; auto.
  - destruct e as [k' hold v | d | |].
    + destruct (N.eqb k' k) eqn:E.
      * apply N.eqb_eq in E. subst k'. destruct v; simpl in He; try rewrite N.eqb_refl in He;
          try discriminate; simpl; auto.
      * rewrite hello_lookup_other; auto. intros Heq. subst. rewrite N.eqb_refl in E. discriminate.
    + rewrite tick_lookup; auto. rewrite Hl. reflexivity.
    + simpl. destruct (pending s); auto.
    + simpl. auto.
Qed.

Lemma silent_rank : forall evs s k nb, wf s -> silent k evs = true -> ticks_pos evs = true ->
  lookup k (nbrs s) = Some nb ->
  match lookup k (nbrs (run s evs)) with
  | None => True
  | Some nb' => rank (now (run s evs)) nb' + count_ticks evs <= rank (now s) nb
  end.
Proof.
  induction evs as [| e r IH]; intros s k nb Hwf Hs Hp Hl.
  - cbn [run fold_left count_ticks]. rewrite Hl. lia.
  - unfold silent, ticks_pos in Hs, Hp. cbn [forallb] in Hs, Hp.
    fold (silent k r) in Hs. fold (ticks_pos r) in Hp.
    change (run s (e :: r)) with (run (step s e) r).
    apply andb_true_iff in Hs. destruct Hs as [He Hr].
    apply andb_true_iff in Hp. destruct Hp as [Hpe Hpr].
    assert (Hwf' : wf (step s e)) by (apply step_wf; auto).
    destruct e as [k' hold v | d | |].
    + (* hello: k keeps its record and the clock stands still *)
      assert (Hl' : lookup k (nbrs (step s (Hello k' hold v))) = Some nb).
      { destruct (N.eqb k' k) eqn:E.
        - apply N.eqb_eq in E. subst k'. destruct v; simpl in He; try rewrite N.eqb_refl in He;
            try discriminate; simpl; auto.
        - rewrite hello_lookup_other; auto. intros Heq. subst. rewrite N.eqb_refl in E. discriminate. }
      assert (Hn : now (step s (Hello k' hold v)) = now s).
      { destruct v; simpl; auto; unfold on_hello; destruct (lookup k' (nbrs s)); simpl; auto.
        - destruct (hello_existing (now s) n hold true); auto.
        - destruct (hello_existing (now s) n hold false); auto. }
      specialize (IH _ k nb Hwf' Hr Hpr Hl'). rewrite Hn in IH. exact IH.
    + (* tick *)
      simpl in Hpe. apply N.ltb_lt in Hpe.
      pose proof (tick_lookup s d k Hwf) as Ht. rewrite Hl in Ht.
      pose proof (check_rank (now s) d nb Hpe) as Hr1.
      assert (Hn : now (step s (Tick d)) = now s + d).
      { simpl. destruct (check_all (now s + d) (nbrs s)). reflexivity. }
      destruct (fst (check (now s + d) nb)) as [nb1 |] eqn:Ec.
      * specialize (IH _ k nb1 Hwf' Hr Hpr Ht). rewrite Hn in IH.
        change (count_ticks (Tick d :: r)) with (1 + count_ticks r).
        destruct (lookup k (nbrs (run (step s (Tick d)) r))); auto. lia.
      * rewrite (silent_absent r _ k Hwf' Hr Ht). exact I.
    + assert (Hl' : lookup k (nbrs (step s Regen)) = Some nb) by (simpl; destruct (pending s); auto).
      assert (Hn : now (step s Regen) = now s) by (simpl; destruct (pending s); auto).
      specialize (IH _ k nb Hwf' Hr Hpr Hl'). rewrite Hn in IH. exact IH.
    + specialize (IH _ k nb Hwf' Hr Hpr Hl). exact IH.
Qed.

Theorem eventually_removed : forall evs0 evs k nb,
  lookup k (nbrs (run init evs0)) = Some nb ->
  silent k evs = true -> ticks_pos evs = true ->
  rank (now (run init evs0)) nb < count_ticks evs ->
  lookup k (nbrs (run (run init evs0) evs)) = None.
Proof.
  intros evs0 evs k nb Hl Hs Hp Hr.
  pose proof (silent_rank evs (run init evs0) k nb (run_wf evs0 init init_wf) Hs Hp Hl) as H.
  destruct (lookup k (nbrs (run (run init evs0) evs))) as [nb' |]; auto. lia.
Qed.

(* explicit bound right after a hello: hold + 124 checker runs *)
Theorem removed_after_last_hello : forall evs0 k hold v evs,
  (v = Lists \/ v = NotLists) ->
  silent k evs = true -> ticks_pos evs = true ->
  hold + 124 <= count_ticks evs ->
  lookup k (nbrs (run init (evs0 ++ Hello k hold v :: evs))) = None.
Proof.
  intros evs0 k hold v evs Hv Hs Hp Hc.
  assert (Happ : run init (evs0 ++ Hello k hold v :: evs) =
                 run (step (run init evs0) (Hello k hold v)) evs).
  { unfold run. rewrite fold_left_app. reflexivity. }
  rewrite Happ. clear Happ.
  set (s0 := run init evs0). set (s1 := step s0 (Hello k hold v)).
  assert (Hwf1 : wf s1) by (apply step_wf; apply run_wf; apply init_wf).
  assert (Hn : now s1 = now s0).
  { unfold s1. destruct Hv; subst v; simpl; unfold on_hello; destruct (lookup k (nbrs s0)); simpl; auto.
    - destruct (hello_existing (now s0) n hold true); auto.
    - destruct (hello_existing (now s0) n hold false); auto. }
  assert (Htm0 : tm s0) by (apply run_tm; [apply init_wf | apply init_tm]).
  assert (Hl : exists nb, lookup k (nbrs s1) = Some nb /\ rank (now s0) nb <= hold + 123).
  { assert (Hg : forall lists, exists nb, lookup k (nbrs (on_hello s0 k hold lists)) = Some nb /\
                                          rank (now s0) nb <= hold + 123).
    { intros lists. rewrite hello_lookup_same. eexists. split; [reflexivity |].
      destruct (lookup k (nbrs s0)) as [nb0 |] eqn:E0.
      - specialize (Htm0 k nb0 E0). unfold hello_existing, rank.
        destruct (negb (is_up (state nb0)) && lists); [cbn [fst state is_down timeout]; lia |].
        destruct (is_up (state nb0) && negb lists); [cbn [fst state is_down timeout changed]; lia |].
        cbn [fst state is_down timeout changed]. destruct (is_down (state nb0)); lia.
      - unfold rank. cbn [state is_down timeout]. lia. }
    unfold s1. destruct Hv; subst v; cbn [step]; apply Hg. }
  rewrite <- Hn in Hl.
  destruct Hl as (nb & Hl & Hrk).
  pose proof (silent_rank evs s1 k nb Hwf1 Hs Hp Hl) as H.
  destruct (lookup k (nbrs (run s1 evs))) as [nb' |]; auto. lia.
Qed.

(* ------------------------------------------------------------------ the LSP lists the Up adjacencies *)

Lemma up_ids_update_same : forall k v t old, lookup k t = Some old ->
  is_up (state v) = is_up (state old) -> up_ids (update k v t) = up_ids t.
Proof.
  induction t as [| [k' v'] r IH]; intros old Hl Hu; simpl in *; try discriminate.
  destruct (N.eqb k' k) eqn:E.
  - injection Hl as Hl. subst v'. unfold up_ids. simpl. rewrite Hu.
    destruct (is_up (state old)); reflexivity.
  - specialize (IH old Hl Hu). unfold up_ids in *. simpl.
    destruct (is_up (state v')); simpl; rewrite IH; reflexivity.
Qed.

Lemma up_ids_update_new : forall k v t, lookup k t = None ->
  is_up (state v) = false -> up_ids (update k v t) = up_ids t.
Proof.
  induction t as [| [k' v'] r IH]; intros Hl Hu; simpl in *.
  - unfold up_ids. simpl. rewrite Hu. reflexivity.
  - destruct (N.eqb k' k) eqn:E; try discriminate.
    specialize (IH Hl Hu). unfold up_ids in *. simpl.
    destruct (is_up (state v')); simpl; rewrite IH; reflexivity.
Qed.

Lemma check_cases : forall nw nb,
  snd (check nw nb) = true \/
  match fst (check nw nb) with
  | None => is_up (state nb) = false
  | Some nb1 => is_up (state nb1) = is_up (state nb)
  end.
Proof.
  intros nw nb. unfold check. destruct nb as [st to ch]. simpl.
  destruct st; simpl.
  - destruct (to <? nw); simpl.
    + destruct (down_keep <? nw - nw); simpl; auto.
    + auto.
  - destruct (to <? nw); simpl.
    + destruct (down_keep <? nw - nw); simpl; auto.
    + auto.
  - destruct (down_keep <? nw - ch); simpl; auto.
Qed.

Lemma check_all_up_ids : forall nw t, snd (check_all nw t) = false ->
  up_ids (fst (check_all nw t)) = up_ids t.
Proof.
  induction t as [| [k nb] r IH]; intros H; simpl in *; auto.
  destruct (check_all nw r) as [r' req'] eqn:Er. simpl in *.
  pose proof (check_cases nw nb) as Hc.
  destruct (check nw nb) as [o req] eqn:Ec. simpl in Hc.
  assert (Hreq : req = false /\ req' = false).
  { destruct o; simpl in H; apply orb_false_iff in H; exact H. }
  destruct Hreq as [Hr1 Hr2]. subst req req'. specialize (IH eq_refl).
  destruct Hc as [Hc | Hc]; [discriminate |].
  unfold up_ids in *. destruct o as [nb1 |]; simpl.
  - rewrite Hc. destruct (is_up (state nb)); simpl; rewrite IH; reflexivity.
  - rewrite Hc. exact IH.
Qed.

Lemma hello_existing_noreq : forall nw nb hold lists,
  snd (hello_existing nw nb hold lists) = false ->
  is_up (state (fst (hello_existing nw nb hold lists))) = is_up (state nb).
Proof.
  intros nw nb hold lists. unfold hello_existing.
  destruct (negb (is_up (state nb)) && lists); simpl; [discriminate |].
  destruct (is_up (state nb) && negb lists); simpl; [discriminate |]. reflexivity.
Qed.

Definition lsp_ok (s : srv) : Prop := pending s = true \/ lsp s = up_ids (nbrs s).

Lemma step_lsp_ok : forall s e, lsp_ok s -> lsp_ok (step s e).
Proof.
  intros s e H. unfold lsp_ok in *. destruct e as [k hold v | d | |]; simpl.
  - assert (Hh : forall lists, pending (on_hello s k hold lists) = true \/
                               lsp (on_hello s k hold lists) = up_ids (nbrs (on_hello s k hold lists))).
    { intros lists. unfold on_hello. destruct (lookup k (nbrs s)) as [nb0 |] eqn:El; simpl.
      - destruct (hello_existing (now s) nb0 hold lists) as [nb' req] eqn:Eh. simpl.
        destruct req.
        + left. apply orb_true_r.
        + destruct H as [H | H]; [left; rewrite H; reflexivity |]. right. rewrite H.
          symmetry. eapply up_ids_update_same; eauto.
          pose proof (hello_existing_noreq (now s) nb0 hold lists) as Hq.
          rewrite Eh in Hq. simpl in Hq. apply Hq. reflexivity.
      - destruct H as [H | H]; auto. right. rewrite H. symmetry. apply up_ids_update_new; auto. }
    destruct v; simpl; [apply Hh | apply Hh | exact H | exact H].
  - pose proof (check_all_up_ids (now s + d) (nbrs s)) as Hc.
    destruct (check_all (now s + d) (nbrs s)) as [t' req]. simpl in *.
    destruct req.
    + left. apply orb_true_r.
    + destruct H as [H | H]; [left; rewrite H; reflexivity |]. right. rewrite H. symmetry. auto.
  - destruct (pending s) eqn:Ep; simpl.
    + right. reflexivity.
    + rewrite Ep. destruct H as [H | H]; [discriminate | right; exact H].
  - auto.
Qed.

Theorem lsp_lists_up : forall evs,
  (* whenever no update is pending, the LSP lists exactly the Up adjacencies ... *)
  (pending (run init evs) = true \/ lsp (run init evs) = up_ids (nbrs (run init evs))) /\
  (* ... and a regeneration makes it so at once *)
  lsp (step (run init evs) ForceRegen) = up_ids (nbrs (run init evs)) /\
  (pending (run init evs) = true ->
     lsp (step (run init evs) Regen) = up_ids (nbrs (run init evs)) /\
     pending (step (run init evs) Regen) = false).
Proof.
  intros evs. split; [| split].
  - assert (H : forall evs s, lsp_ok s -> lsp_ok (run s evs)).
    { induction evs0 as [| e r IH]; intros s Hs; simpl; auto. apply IH. apply step_lsp_ok. auto. }
    apply (H evs init). left. reflexivity.
  - reflexivity.
  - intros Hp. simpl. rewrite Hp. simpl. auto.
Qed.

(* membership form: k is listed iff its adjacency is Up (tables with unique keys) *)
Lemma up_ids_spec : forall t k, NoDup (map fst t) ->
  (In k (up_ids t) <-> exists nb, lookup k t = Some nb /\ state nb = Up).
Proof.
  induction t as [| [k' nb'] r IH]; intros k Hnd; simpl.
  - unfold up_ids. simpl. split; [contradiction | intros (nb & H & _); discriminate].
  - inversion Hnd as [| ? ? Hn Hr]; subst. unfold up_ids in *. simpl.
    destruct (N.eqb k' k) eqn:E.
    + apply N.eqb_eq in E. subst k'.
      destruct (is_up (state nb')) eqn:Eu; simpl.
      * split; intros _.
        -- exists nb'. split; auto. destruct (state nb'); simpl in Eu; try discriminate; auto.
        -- auto.
      * split.
        -- intros Hin. exfalso. apply Hn.
           apply in_map_iff in Hin. destruct Hin as ([x y] & Hx & Hin). simpl in Hx. subst x.
           apply filter_In in Hin. destruct Hin as [Hin _].
           apply in_map_iff. exists (k, y). auto.
        -- intros (nb & Hl & Hs). injection Hl as Hl. subst nb'. rewrite Hs in Eu. discriminate.
    + apply N.eqb_neq in E.
      destruct (is_up (state nb')) eqn:Eu; simpl.
      * rewrite (IH k Hr). split.
        -- intros [H | H]; [contradiction | exact H].
        -- intros H. right. exact H.
      * apply IH; auto.
Qed.

Theorem lsp_lists_exactly_up : forall evs k,
  In k (lsp (step (run init evs) ForceRegen)) <->
  exists nb, lookup k (nbrs (run init evs)) = Some nb /\ state nb = Up.
Proof.
  intros evs k. simpl. apply up_ids_spec. apply (run_wf evs init init_wf).
Qed.

(* ------------------------------------------------------------------ a change that lands while the LSP is being built *)

(* The updater takes the request (flag cleared) BEFORE it builds: [ForceRegen] is the build (LSP :=
   the Up adjacencies it sees), the hello arrives during the build and may set the flag again, then
   the updater looks at the flag again ([Regen]). *)
Theorem change_during_build : forall evs k hold v,
  let s := run init (evs ++ [ForceRegen; Hello k hold v; Regen]) in
  lsp s = up_ids (nbrs s) /\ pending s = false.
Proof.
  intros evs k hold v s.
  assert (Happ : s = step (run init (evs ++ [ForceRegen; Hello k hold v])) Regen).
  { unfold s, run. rewrite !fold_left_app. reflexivity. }
  destruct (lsp_lists_up (evs ++ [ForceRegen; Hello k hold v])) as (Hinv & _ & Hreg).
  set (s2 := run init (evs ++ [ForceRegen; Hello k hold v])) in *.
  rewrite Happ. destruct (pending s2) eqn:Ep.
  - destruct (Hreg eq_refl) as [H1 H2]. split; [| exact H2].
    rewrite H1. simpl. rewrite Ep. reflexivity.
  - simpl. rewrite Ep. destruct Hinv as [Hinv | Hinv]; [discriminate |]. split; assumption.
Qed.

(* an updater that also clears the flag AFTER building (seeded change C31-2r3) loses that request *)
Definition drained (s : srv) : srv := mkSrv (now s) (nbrs s) false (lsp s).

Theorem drain_after_build_loses_change :
  let s0 := run init [Hello 0 9 NotLists; Regen] in
  let s := step (drained (run s0 [ForceRegen; Hello 0 9 Lists])) Regen in
  up_ids (nbrs s) = [0] /\ lsp s = [] /\ pending s = false.
Proof. vm_compute. repeat split; reflexivity. Qed.
