(* Anchor making sure nat, positive, N and Z are part of every extracted model,
   so that ocaml/common/conv.ml (int <-> nat/N/Z converters) type-checks against it. *)
From Coq Require Import NArith ZArith.
Definition conv_anchor (n : nat) (a : N) (z : Z) : nat * N * Z :=
  (S n, N.succ a, Z.succ z).
