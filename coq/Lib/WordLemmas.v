(* Lemmas about Lib/Word.v: every word operation characterised by div / mod / testbit. *)
From Coq Require Import ZArith Lia Bool.
From BioVerif Require Import Lib.Word.
Open Scope Z_scope.

Lemma pow2_pos n : 0 <= n -> 0 < 2 ^ n.
Proof. intros; apply Z.pow_pos_nonneg; lia. Qed.

Lemma pow2_le n m : 0 <= n <= m -> 2 ^ n <= 2 ^ m.
Proof. intros; apply Z.pow_le_mono_r; lia. Qed.

Lemma pow2_lt n m : 0 <= n < m -> 2 ^ n < 2 ^ m.
Proof. intros; apply Z.pow_lt_mono_r; lia. Qed.

Lemma pow2_split n m : 0 <= n <= m -> 2 ^ m = 2 ^ (m - n) * 2 ^ n.
Proof. intros; rewrite <- Z.pow_add_r by lia; f_equal; lia. Qed.

Lemma wrap_mod w z : 0 <= w -> wrap w z = z mod 2 ^ w.
Proof. intros; unfold wrap; apply Z.land_ones; lia. Qed.

Lemma wrap_small w z : 0 <= z < 2 ^ w -> wrap w z = z.
Proof.
  intros H. destruct (Z_lt_le_dec w 0) as [Hw | Hw].
  - rewrite Z.pow_neg_r in H by lia; lia.
  - rewrite wrap_mod by lia. apply Z.mod_small; lia.
Qed.

Lemma wrap_range w z : 0 <= w -> 0 <= wrap w z < 2 ^ w.
Proof. intros; rewrite wrap_mod by lia; apply Z.mod_pos_bound, pow2_pos; lia. Qed.

Lemma wsub_small w a b : 0 <= b <= a -> a < 2 ^ w -> wsub w a b = a - b.
Proof. intros; unfold wsub; apply wrap_small; lia. Qed.

Lemma wsub_wrap w a b : 0 <= a < b -> b <= 2 ^ w -> wsub w a b = 2 ^ w + a - b.
Proof.
  intros H1 H2. assert (Hw : 0 <= w).
  { destruct (Z_lt_le_dec w 0) as [Hw | Hw]; [rewrite Z.pow_neg_r in H2 by lia; lia | lia]. }
  unfold wsub. rewrite wrap_mod by lia.
  symmetry; apply Z.mod_unique with (q := -1); lia.
Qed.

Lemma wadd_small w a b : 0 <= a -> 0 <= b -> a + b < 2 ^ w -> wadd w a b = a + b.
Proof. intros; unfold wadd; apply wrap_small; lia. Qed.

Lemma testbit_high w a i : 0 <= a < 2 ^ w -> w <= i -> Z.testbit a i = false.
Proof.
  intros Ha Hi.
  destruct (Z_lt_le_dec w 0) as [Hw | Hw].
  - rewrite Z.pow_neg_r in Ha by lia; lia.
  - rewrite <- (Z.mod_small a (2 ^ w)) by lia.
    apply Z.mod_pow2_bits_high; lia.
Qed.

(* x << n on a w-bit word, any count *)
Lemma wshl_spec w x n : 0 <= w -> 0 <= n -> wshl w x n = (x * 2 ^ n) mod 2 ^ w.
Proof.
  intros Hw Hn; unfold wshl. rewrite wrap_mod by lia.
  destruct (w <=? n) eqn:E.
  - apply Z.leb_le in E.
    rewrite (pow2_split w n) by lia.
    rewrite Z.mul_assoc, Z.mod_mul; [reflexivity | pose proof (pow2_pos w); lia].
  - rewrite Z.shiftl_mul_pow2 by lia; reflexivity.
Qed.

Lemma wshl_small w x n : 0 <= w -> 0 <= n -> 0 <= x -> x * 2 ^ n < 2 ^ w -> wshl w x n = x * 2 ^ n.
Proof.
  intros; rewrite wshl_spec by lia; apply Z.mod_small.
  pose proof (pow2_pos n); nia.
Qed.

(* x >> n on a w-bit word, any count *)
Lemma wshr_spec w x n : 0 <= n -> 0 <= x < 2 ^ w -> wshr w x n = x / 2 ^ n.
Proof.
  intros Hn Hx; unfold wshr.
  destruct (w <=? n) eqn:E.
  - apply Z.leb_le in E.
    destruct (Z_lt_le_dec w 0) as [Hw | Hw].
    + rewrite Z.pow_neg_r in Hx by lia; lia.
    + symmetry; apply Z.div_small. pose proof (pow2_le w n); lia.
  - apply Z.shiftr_div_pow2; lia.
Qed.

Lemma div_pow2_range w x n : 0 <= n <= w -> 0 <= x < 2 ^ w -> 0 <= x / 2 ^ n < 2 ^ (w - n).
Proof.
  intros Hn Hx. pose proof (pow2_pos n).
  split; [apply Z.div_pos; lia|].
  apply Z.div_lt_upper_bound; [lia|]. rewrite Z.mul_comm, <- pow2_split; lia.
Qed.

(* MaxUintW << n : the mask of the high w-n bits *)
Lemma mask_high w n : 0 < w -> 0 <= n ->
  wshl w (maxu w) n = if n <? w then 2 ^ w - 2 ^ n else 0.
Proof.
  intros Hw Hn; unfold wshl, maxu. rewrite wrap_mod by lia.
  destruct (w <=? n) eqn:E; destruct (n <? w) eqn:F; try lia; try reflexivity.
  rewrite Z.shiftl_mul_pow2 by lia.
  pose proof (pow2_lt n w ltac:(lia)). pose proof (pow2_pos n ltac:(lia)).
  symmetry; apply Z.mod_unique with (q := 2 ^ n - 1); lia.
Qed.

Lemma pow2_diff_shiftl w n : 0 <= n <= w -> 2 ^ w - 2 ^ n = Z.shiftl (Z.ones (w - n)) n.
Proof.
  intros; rewrite Z.ones_equiv, Z.shiftl_mul_pow2 by lia.
  rewrite (pow2_split n w) by lia; lia.
Qed.

(* a & (mask of the high w-n bits) clears the low n bits *)
Lemma land_high_mask w n a : 0 <= n <= w -> 0 <= a < 2 ^ w ->
  Z.land a (2 ^ w - 2 ^ n) = a / 2 ^ n * 2 ^ n.
Proof.
  intros Hn Ha.
  rewrite pow2_diff_shiftl by lia.
  rewrite <- Z.shiftr_div_pow2, <- Z.shiftl_mul_pow2 by lia.
  apply Z.bits_inj'; intros i Hi.
  rewrite Z.land_spec, !Z.shiftl_spec by lia.
  destruct (Z_lt_le_dec i n) as [L | L].
  - rewrite !(Z.testbit_neg_r _ (i - n)) by lia. apply andb_false_r.
  - rewrite Z.shiftr_spec by lia. replace (i - n + n) with i by lia.
    destruct (Z_lt_le_dec i w) as [L2 | L2].
    + rewrite Z.ones_spec_low by lia. apply andb_true_r.
    + rewrite Z.ones_spec_high by lia. rewrite (testbit_high w a i) by lia. reflexivity.
Qed.

Lemma div_mul_pow2_range w n a : 0 <= n <= w -> 0 <= a < 2 ^ w -> 0 <= a / 2 ^ n * 2 ^ n < 2 ^ w.
Proof.
  intros Hn Ha. pose proof (pow2_pos n ltac:(lia)).
  pose proof (Z.mul_div_le a (2 ^ n) ltac:(lia)).
  pose proof (Z.div_pos a (2 ^ n) ltac:(lia) ltac:(lia)). nia.
Qed.

Lemma land_pow2 a n : 0 <= n -> Z.land a (2 ^ n) = if Z.testbit a n then 2 ^ n else 0.
Proof.
  intros Hn. apply Z.bits_inj'; intros i Hi.
  rewrite Z.land_spec, Z.pow2_bits_eqb by lia.
  destruct (Z.eqb_spec n i) as [->|Hne].
  - rewrite andb_true_r. destruct (Z.testbit a i); [rewrite Z.pow2_bits_true by lia; reflexivity | apply eq_sym, Z.bits_0].
  - rewrite andb_false_r. destruct (Z.testbit a n); [rewrite Z.pow2_bits_false by lia; reflexivity | apply eq_sym, Z.bits_0].
Qed.

Lemma land_pow2_nonzero a n : 0 <= n -> negb (Z.land a (2 ^ n) =? 0) = Z.testbit a n.
Proof.
  intros Hn; rewrite land_pow2 by lia.
  destruct (Z.testbit a n); [|reflexivity].
  pose proof (pow2_pos n Hn). destruct (Z.eqb_spec (2 ^ n) 0); [lia | reflexivity].
Qed.

Lemma land_ones_mod a n : 0 <= n -> Z.land a (2 ^ n - 1) = a mod 2 ^ n.
Proof. intros; rewrite <- Z.land_ones by lia. rewrite Z.ones_equiv; reflexivity. Qed.

(* (x << k) == 0 on a w-bit word: the low w-k bits of x are zero *)
Lemma shl_zero_iff w k x : 0 <= k <= w ->
  ((x * 2 ^ k) mod 2 ^ w = 0 <-> x mod 2 ^ (w - k) = 0).
Proof.
  intros Hk. rewrite (pow2_split k w) by lia.
  pose proof (pow2_pos k ltac:(lia)). pose proof (pow2_pos (w - k) ltac:(lia)).
  rewrite Z.mul_mod_distr_r by lia. nia.
Qed.

(* equality of the parts above bit n, bitwise *)
Lemma div_eq_bits w n a b : 0 <= n <= w -> 0 <= a < 2 ^ w -> 0 <= b < 2 ^ w ->
  (a / 2 ^ n = b / 2 ^ n <-> forall j, n <= j < w -> Z.testbit a j = Z.testbit b j).
Proof.
  intros Hn Ha Hb. rewrite <- !Z.shiftr_div_pow2 by lia. split.
  - intros E j Hj.
    replace j with (j - n + n) by lia. rewrite <- !Z.shiftr_spec by lia. rewrite E; reflexivity.
  - intros E. apply Z.bits_inj'; intros i Hi. rewrite !Z.shiftr_spec by lia.
    destruct (Z_lt_le_dec (i + n) w) as [L | L].
    + apply E; lia.
    + rewrite (testbit_high w a), (testbit_high w b) by lia. reflexivity.
Qed.

Lemma mod_zero_bits w n a : 0 <= n <= w -> 0 <= a ->
  (a mod 2 ^ n = 0 <-> forall j, 0 <= j < n -> Z.testbit a j = false).
Proof.
  intros Hn Ha. split.
  - intros E j Hj. rewrite <- (Z.mod_pow2_bits_low a n j) by lia. rewrite E. apply Z.bits_0.
  - intros E. apply Z.bits_inj'; intros i Hi. rewrite Z.bits_0.
    destruct (Z_lt_le_dec i n) as [L | L].
    + rewrite Z.mod_pow2_bits_low by lia. apply E; lia.
    + apply Z.mod_pow2_bits_high; lia.
Qed.

(* bits of (a >> n) << n *)
Lemma clear_low_bits a n j : 0 <= n -> 0 <= j ->
  Z.testbit (a / 2 ^ n * 2 ^ n) j = if j <? n then false else Z.testbit a j.
Proof.
  intros Hn Hj. rewrite <- Z.shiftr_div_pow2, <- Z.shiftl_mul_pow2 by lia.
  rewrite Z.shiftl_spec by lia.
  destruct (j <? n) eqn:E.
  - apply Z.ltb_lt in E. apply Z.testbit_neg_r; lia.
  - apply Z.ltb_ge in E. rewrite Z.shiftr_spec by lia. f_equal; lia.
Qed.

(* a & (MaxUintW << n), any count n: the low n bits of a cleared *)
Lemma land_wshl_maxu w n a : 0 < w -> 0 <= n -> 0 <= a < 2 ^ w ->
  Z.land a (wshl w (maxu w) n) = a / 2 ^ n * 2 ^ n.
Proof.
  intros Hw Hn Ha. rewrite mask_high by lia.
  destruct (n <? w) eqn:E.
  - apply Z.ltb_lt in E. apply land_high_mask; lia.
  - apply Z.ltb_ge in E. rewrite Z.land_0_r.
    rewrite Z.div_small; [reflexivity|]. pose proof (pow2_le w n); lia.
Qed.

Lemma land_maxu w a : 0 <= w -> 0 <= a < 2 ^ w -> Z.land a (maxu w) = a.
Proof.
  intros Hw Ha. unfold maxu. rewrite land_ones_mod by lia. apply Z.mod_small; lia.
Qed.

Lemma mul_pow2_eqb a b n : 0 <= n -> (a * 2 ^ n =? b * 2 ^ n) = (a =? b).
Proof.
  intros Hn. pose proof (pow2_pos n Hn).
  destruct (Z.eqb_spec a b) as [->|Hne]; [apply Z.eqb_refl|].
  apply Z.eqb_neq. nia.
Qed.

(* (x >> n) << n on a w-bit word does not overflow *)
Lemma wshl_wshr w x n : 0 <= w -> 0 <= n -> 0 <= x < 2 ^ w ->
  wshl w (wshr w x n) n = x / 2 ^ n * 2 ^ n.
Proof.
  intros Hw Hn Hx. rewrite wshr_spec by lia. rewrite wshl_spec by lia.
  apply Z.mod_small.
  pose proof (pow2_pos n Hn).
  pose proof (Z.mul_div_le x (2 ^ n) ltac:(lia)).
  pose proof (Z.div_pos x (2 ^ n) ltac:(lia) ltac:(lia)). nia.
Qed.

(* 1 << n on a w-bit word *)
Lemma wshl_one w n : 0 <= w -> 0 <= n -> wshl w 1 n = if n <? w then 2 ^ n else 0.
Proof.
  intros Hw Hn. unfold wshl.
  destruct (w <=? n) eqn:E; destruct (n <? w) eqn:F; try lia; try reflexivity.
  rewrite Z.shiftl_mul_pow2, Z.mul_1_l by lia. apply wrap_small.
  pose proof (pow2_pos n Hn). pose proof (pow2_lt n w). lia.
Qed.
