(* C01: prefix arithmetic on bit strings.
   A prefix is modelled as the list of its significant bits, most significant first; the
   length of the list is the prefix length, so the definitions hold for every address width
   (IPv4: lists of length <= 32, IPv6: <= 128).  Host bits are not represented: a prefix in
   this model is a canonical prefix.  Definitions only (no proofs in this file).

   Go counterpart (github.com/bio-routing/bio-rd/net):
     beq        = Prefix.Equal             (same address, same length)
     bcontains  = Prefix.Contains          (STRICT: x.len <= pfx.len gives false; then the first
                                            pfx.len bits agree)
     lcp        = Prefix.GetSupernet       (longest common prefix; the trie calls it only for two
                                            prefixes none of which is a prefix of the other, where
                                            supernetIPv4 and supernetIPv6 both compute exactly this)
     bitAt p i  = p.Addr().BitAtPosition(i) (1-based from the left; positions beyond the prefix
                                            length read host bits, which are 0 for a canonical
                                            prefix, and positions beyond the width give false) *)
From Coq Require Import List Bool Arith.
Import ListNotations.

Definition bits := list bool.

Fixpoint beq (a b : bits) : bool :=
  match a, b with
  | [], [] => true
  | x :: a', y :: b' => Bool.eqb x y && beq a' b'
  | _, _ => false
  end.

(* s is a (not necessarily strict) prefix of p *)
Fixpoint is_pre (s p : bits) : bool :=
  match s, p with
  | [], _ => true
  | x :: s', y :: p' => Bool.eqb x y && is_pre s' p'
  | _ :: _, [] => false
  end.

Definition bcontains (p x : bits) : bool :=
  (length p <? length x) && is_pre p x.

Fixpoint lcp (a b : bits) : bits :=
  match a, b with
  | x :: a', y :: b' => if Bool.eqb x y then x :: lcp a' b' else []
  | _, _ => []
  end.

Definition bitAt (p : bits) (pos : nat) : bool :=
  match pos with
  | O => false
  | S k => nth k p false
  end.

Definition blen (p : bits) : nat := length p.
