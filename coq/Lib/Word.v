(* Machine words of Go's unsigned integer types as integers in Z.
   A value of type uintW is a Z in [0, 2^W).  Every operation that can leave the range wraps
   explicitly (mod 2^W); shifts follow the Go specification: the count is an unsigned integer,
   and a count >= W yields 0 for both << and >> on unsigned operands.
   Definitions only (so that models importing this file still build when a proof breaks);
   the lemmas are in Lib/WordLemmas.v. *)
From Coq Require Import ZArith Bool.
Open Scope Z_scope.

(* z mod 2^w, computed as z & (2^w - 1) (Lib/WordLemmas.v: wrap_mod) *)
Definition wrap (w z : Z) : Z := Z.land z (Z.ones w).
Definition maxu (w : Z) : Z := 2 ^ w - 1.                 (* math.MaxUintW / ^uintW(0) *)
Definition inrange (w z : Z) : Prop := 0 <= z < 2 ^ w.
Definition inrangeb (w z : Z) : bool := (0 <=? z) && (z <? 2 ^ w).

Definition wadd (w a b : Z) : Z := wrap w (a + b).        (* a + b  on uintW *)
Definition wsub (w a b : Z) : Z := wrap w (a - b).        (* a - b  on uintW *)
Definition wmul (w a b : Z) : Z := wrap w (a * b).        (* a * b  on uintW *)
Definition wshl (w x n : Z) : Z :=                        (* x << n on uintW, n unsigned *)
  if w <=? n then 0 else wrap w (Z.shiftl x n).
Definition wshr (w x n : Z) : Z :=                        (* x >> n on uintW, n unsigned *)
  if w <=? n then 0 else Z.shiftr x n.
Definition wand (a b : Z) : Z := Z.land a b.              (* a & b *)
Definition wor (a b : Z) : Z := Z.lor a b.                (* a | b *)
Definition wconv (w z : Z) : Z := wrap w z.               (* uintW(z): conversion truncates *)
Definition wminu (a b : Z) : Z := if a <? b then a else b.
