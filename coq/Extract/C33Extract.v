From Coq Require Import Extraction ExtrOcamlBasic List NArith.
From BioVerif Require Import Lib.Conv Model.Ifa.
Extraction Language OCaml.
Extraction "c33_model.ml" conv_anchor init step head_discipline sends_hellos can_form_adjacency.
