From Coq Require Import Extraction ExtrOcamlBasic List NArith.
From BioVerif Require Import Lib.Conv Model.Adj.
Extraction Language OCaml.
Extraction "c31_model.ml" conv_anchor init step up_ids.
