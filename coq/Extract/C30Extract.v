From Coq Require Import Extraction ExtrOcamlBasic List NArith ZArith.
From BioVerif Require Import Lib.Conv Model.ISISCodec.
Extraction Language OCaml.
Extraction "c30_model.ml" conv_anchor decode decode_l2 enc_packet enc_body
  lsp_update_length lsp_set_checksum new_csnps new_psnps
  new_area_tlv new_dynhost_tlv new_proto_tlv new_ipif_tlv new_entries_tlv new_p2padj_tlv new_padding_tlv new_terid_tlv
  new_extis_nbr new_extis_tlv new_extip_tlv.
