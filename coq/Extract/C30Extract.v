From Coq Require Import Extraction ExtrOcamlBasic List NArith ZArith.
From BioVerif Require Import Lib.Conv Model.ISISCodec.
Extraction Language OCaml.
Extraction "c30_model.ml" conv_anchor decode decode_l2 enc_packet enc_body
  lsp_update_length lsp_set_checksum new_csnps new_psnps.
