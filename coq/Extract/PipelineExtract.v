(* Extraction of the composed RIB pipeline (Model/Pipeline.v) for ocaml/pipeline/pipeline_run.ml.
   The component models use the same names for different things (path, step, Announce, OAdd ...); the
   driver therefore builds and reads everything through the pl_* wrappers below, which only rename.
   Export policies: the bounded chain language with its interpreter, as in Extract/AroExtract.v. *)
From Coq Require Import Extraction ExtrOcamlBasic List NArith ZArith.
Import ListNotations.
From BioVerif Require Import Lib.Conv Model.PathIDs Model.AdjRIBOut Model.ExportWire Model.LocView Model.Pipeline.

Definition pl_scfg := scfg chain.
Definition pl_pst := pst chain.
Definition pl_sst := sst chain.

(* receiving half *)
Definition pl_sattrs (ibgp addpath_rx : bool) (rid peer_asn deflp : N) (role_on role_adv : bool) (remote : N) : AdjRIBIn.sattrs :=
  AdjRIBIn.mkSA ibgp addpath_rx rid peer_asn deflp role_on role_adv remote.
Definition pl_policy (code arg : N) : AdjRIBIn.policy := AdjRIBIn.sample_policy code arg.
Definition pl_inpath (id lp med nh : N) (asp : list N) (orig : N) (cl : list N) (otc : N) : AdjRIBIn.path :=
  AdjRIBIn.mkPath id lp med nh asp orig cl otc 0%N.
Definition pl_inpath_fields (q : AdjRIBIn.path) : (N * N * N * N) * (list N * N * list N) * (N * N) :=
  ((AdjRIBIn.pid q, AdjRIBIn.lpref q, AdjRIBIn.med q, AdjRIBIn.nhop q), (AdjRIBIn.aspath q, AdjRIBIn.origid q, AdjRIBIn.clist q), (AdjRIBIn.otc q, AdjRIBIn.hid q)).

(* sending half *)
Definition pl_opts (best ecmp : bool) (maxp : nat) : LocRIBClients.opts := LocRIBClients.mkOpts best ecmp maxp.
Definition pl_uscfg (s : sess) : UpdateSender.cfg := UpdateSender.mkcfg UpdateSender.V4 (s_addpath s) true (s_ibgp s) (s_rrclient s).

Definition pl_cfg (sa : AdjRIBIn.sattrs) (pol : AdjRIBIn.policy) (ip bgpid asn : N) (cid : option N)
           (s : sess) (o : LocRIBClients.opts) (exp : chain) : pl_scfg :=
  mkScfg chain sa pol ip bgpid asn cid s o exp (pl_uscfg s).

(* events *)
Definition pl_up (k : nat) : event := EUp k.
Definition pl_down (k : nat) : event := EDown k.
Definition pl_announce (k : nat) (p : N) (q : AdjRIBIn.path) : event := EAnnounce k p q.
Definition pl_withdraw (k : nat) (p i : N) : event := EWithdraw k p i.
Definition pl_dequeue (tagf : bgp -> N) (k : nat) (x : path) : event := EDequeue k (UpdateSender.pkey (enc tagf x)).
Definition pl_dequeue_key (k : nat) (tag pid : N) : event := EDequeue k (tag, pid).
Definition pl_emit (k : nat) : event := EEmit k.

Definition pl_init (cfgs : list pl_scfg) : pl_pst := init chain cfgs.
Definition pl_step (sel : nat -> list (LocRIBClients.entry path) -> list (LocRIBClients.entry path) * nat) (tagf : bgp -> N)
           (cfgs : list pl_scfg) (st : pl_pst) (ev : event) : pl_pst :=
  step chain interp sel tagf cfgs st ev.

(* observables *)
Definition pl_sessions (st : pl_pst) : list pl_sst := ps_sess chain st.
Definition pl_panicked (st : pl_pst) : bool := ps_panic chain st.
Definition pl_clock (st : pl_pst) : nat := LocRIBClients.clock (ps_loc chain st).
Definition pl_candidates (st : pl_pst) (p : N) : list path * nat :=
  (candidates chain st p, LocRIBClients.ecmp (LocRIBClients.route_at (ps_loc chain st) (lpfx p))).
Definition pl_is_up (s : pl_sst) : bool := ss_up chain s.
Definition pl_in_tab (s : pl_sst) : list (N * AdjRIBIn.path) := AdjRIBIn.tab (ss_in chain s).
Definition pl_out_tab (s : pl_sst) : list (N * path) := tbl (ss_out chain s).
Definition pl_out_errs (s : pl_sst) : N := errs (ss_out chain s).
Definition pl_hist (s : pl_sst) : list (N * list path) := ss_hist chain s.
Definition pl_nlabels (s : pl_sst) : nat := length (ss_lab chain s).
Definition pl_drained (s : pl_sst) : bool := drained chain s.
(* the prefix id of an update sender prefix (inverse of Pipeline.upfx) *)
Definition pl_pfx_id (x : UpdateSender.pfx) : N := (UpdateSender.x_addr x * 64 + UpdateSender.x_len x)%N.
Definition pl_pending (s : pl_sst) : list (N * N * list N) :=
  map (fun e => (UpdateSender.p_tag (UpdateSender.e_path e), UpdateSender.p_pid (UpdateSender.e_path e), map pl_pfx_id (UpdateSender.e_pfxs e))) (UpdateSender.queue (ss_us chain s)).
Definition pl_inflight (s : pl_sst) : bool :=
  match UpdateSender.inflight (ss_us chain s) with Some _ => true | None => false end.

(* the wire, oldest message first: (kind, tag, path id, prefixes); kind 0 announcement, 1 withdrawal, 2 End-of-RIB *)
Definition pl_msg (m : UpdateSender.msg) : N * N * N * list N :=
  match m with
  | UpdateSender.MAnn tag pid _ xs => (0%N, tag, pid, map pl_pfx_id xs)
  | UpdateSender.MWd x pid => (1%N, 0%N, pid, [pl_pfx_id x])
  | UpdateSender.MEoR => (2%N, 0%N, 0%N, [])
  end.
Definition pl_wire (s : pl_sst) : list (N * N * N * list N) := rev (map pl_msg (UpdateSender.wire (ss_us chain s))).
Definition pl_peer_view (s : pl_sst) (p pid : N) : option N := peer_view chain s p pid.

(* the C08 statement evaluated by the driver on the ghost history of a session: the table the component
   model computes for that history (Model.LocView.feed) *)
Definition pl_feed_tbl (s : sess) (c : chain) (h : list (N * list path)) : list (N * path) :=
  tbl (snd (feed chain interp s c h)).

Extraction Language OCaml.
Extraction "pipeline_model.ml" conv_anchor
  pl_sattrs pl_policy pl_inpath pl_inpath_fields pl_opts pl_uscfg pl_cfg
  pl_up pl_down pl_announce pl_withdraw pl_dequeue pl_dequeue_key pl_emit pl_init pl_step
  pl_sessions pl_panicked pl_clock pl_candidates pl_is_up pl_in_tab pl_out_tab pl_out_errs pl_hist
  pl_nlabels pl_drained pl_pending pl_inflight pl_wire pl_peer_view pl_feed_tbl
  interp hkey_of hkey_eq_dec tbl_get sess_wire export_with new_bgp.
