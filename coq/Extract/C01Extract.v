From Coq Require Import Extraction ExtrOcamlBasic List NArith ZArith.
From BioVerif Require Import Lib.Conv Lib.BitPfx Model.Trie Model.TrieRaw Spec.TrieSpec
  Model.NetArith Gen.NetGen Model.TrieNet.
Extraction Language OCaml.

(* paths are numbered; N.eqb plays route.Path.Compare / Equal *)
Definition x_empty := b_empty N.
Definition x_step := b_step N N.eqb.
Definition x_get := bt_get N.
Definition x_lpm := bt_lpm N.
Definition x_longer := bt_getLonger N.
Definition x_dump := bt_dump N.
Definition x_count := bt_count N.
Definition x_spec_step := spec_step N N.eqb.
Definition x_spec_get := spec_get N.
Definition x_spec_lpm := spec_lpm N.
Definition x_spec_longer := spec_longer N.

(* the raw (non-canonical IPv4) instance, for the "rn" stream *)
Definition x_r_empty := r_empty N.
Definition x_r_step := r_step N N.eqb.
Definition x_r_get := rt_get N.
Definition x_r_lpm := rt_lpm N.
Definition x_r_longer := rt_getLonger N.
Definition x_r_dump := rt_dump N.
Definition x_r_count := rt_count N.

(* the machine-word instance with the prefix operations regenerated from the Go source (Gen/NetGen.v);
   run as a second model on the same traces *)
Definition x_g_empty := empty NetArith.pfx N.
Definition x_g_step := g_step N N.eqb.
Definition x_g_get := gt_get N.
Definition x_g_lpm := gt_lpm N.
Definition x_g_longer := gt_getLonger N.
Definition x_g_dump := nt_dump N.
Definition x_g_count := nt_count N.

Extraction "c01_model.ml" conv_anchor x_empty x_step x_get x_lpm x_longer x_dump x_count
  x_spec_step x_spec_get x_spec_lpm x_spec_longer
  x_r_empty x_r_step x_r_get x_r_lpm x_r_longer x_r_dump x_r_count mkR
  x_g_empty x_g_step x_g_get x_g_lpm x_g_longer x_g_dump x_g_count mkpfx mkip.
