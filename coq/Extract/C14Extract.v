From Coq Require Import Extraction ExtrOcamlBasic List NArith.
From BioVerif Require Import Lib.Conv Model.Policy Spec.PolicyRef.
Extraction Language OCaml.
Extraction "c14_model.ml" conv_anchor process chain_equal chain_ref
  prefix_wfb chain_wfb path_wfb matcher_match m_ref.
