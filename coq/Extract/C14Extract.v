From Coq Require Import Extraction ExtrOcamlBasic List NArith.
From BioVerif Require Import Lib.Conv Model.Policy Model.PolicyConfig Spec.PolicyRef Spec.PolicyConfigSpec.
Extraction Language OCaml.
Extraction "c14_model.ml" conv_anchor process chain_equal chain_ref
  prefix_wfb chain_wfb path_wfb matcher_match m_ref
  load_cfg policy_ref import_names export_names.
