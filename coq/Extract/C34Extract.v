From Coq Require Import Extraction ExtrOcamlBasic List NArith.
From BioVerif Require Import Lib.Conv Model.APIConv.
Extraction Language OCaml.
Extraction "c34_model.ml" conv_anchor to_proto from_proto roundtrip from_proto_h roundtrip_h empty_heap run_history.
