From Coq Require Import Extraction ExtrOcamlBasic List NArith ZArith.
From BioVerif Require Import Lib.Conv.
From BioVerif Require Model.ISISCodec Model.ISISSpeaker.
Extraction Language OCaml.
Extraction "isisspeaker_model.ml" conv_anchor ISISSpeaker.init ISISSpeaker.step ISISCodec.decode.
