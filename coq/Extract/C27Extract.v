From Coq Require Import Extraction ExtrOcamlBasic List NArith.
From BioVerif Require Import Lib.Conv Model.BMPCodec Model.BMPRouter Model.BMPStack.
Extraction Language OCaml.
Extraction "c27_model.ml" conv_anchor recv decode process cleanup serve step run init observe
  table view disposed len bmp_contributing_asns bmp_contributing_cluster_ids
  stack_open_decode stack_upd_apply stack_alloc.
