From Coq Require Import Extraction ExtrOcamlBasic List NArith.
From BioVerif Require Import Lib.Conv Model.BGPCodec Model.BGPEncode.
Extraction Language OCaml.
Extraction "c17_model.ml" conv_anchor decode optionsOf renderMsg encodeMsg eoptsOf doptsOf.
