From Coq Require Import Extraction ExtrOcamlBasic List NArith ZArith.
From BioVerif Require Import Lib.Conv Model.UpdateSender Spec.UpdateSenderSpec.
Extraction Language OCaml.
Extraction "c18_model.ml" conv_anchor pack budget reserved length_est enc_attrs overhead msg_total msg_ok
  nlri_len batch_wire announced init step pkey quiescent.
