From Coq Require Import Extraction ExtrOcamlBasic List ZArith.
From BioVerif Require Import Lib.Conv Lib.Word Model.NetArith Model.IPText.
Extraction Language OCaml.
Extraction "c15_model.ml" conv_anchor
  mkip mkpfx hi lo legacy addr plen
  Contains containsIPv4 containsIPv6 pfx_equal ip_equal ip_compare GetSupernet supernetIPv4 supernetIPv6
  Valid checkLastNBitsUint32 checkLastNBitsUint64 BaseAddr BitAtPosition MaskLastNBits BytesInAddr
  ip_string pfx_string Bytes IPFromBytes IPFromString PrefixFromString appendHex.
