From Coq Require Import Extraction ExtrOcamlBasic List ZArith.
From BioVerif Require Import Lib.Conv Lib.Word Model.NetArith Model.IPText Gen.NetGen.
Extraction Language OCaml.
Extraction "c15_model.ml" conv_anchor
  mkip mkpfx hi lo legacy addr plen
  Contains containsIPv4 containsIPv6 pfx_equal ip_equal ip_compare GetSupernet supernetIPv4 supernetIPv6
  Valid checkLastNBitsUint32 checkLastNBitsUint64 BaseAddr BitAtPosition MaskLastNBits BytesInAddr
  ip_string pfx_string Bytes IPFromBytes IPFromString PrefixFromString appendHex
  g_Prefix_Contains g_Prefix_containsIPv4 g_Prefix_containsIPv6 g_Prefix_Equal g_IP_Equal g_IP_Compare
  g_Prefix_GetSupernet g_Prefix_Valid g_checkLastNBitsUint32 g_checkLastNBitsUint64 g_Prefix_BaseAddr
  g_IP_BitAtPosition g_IP_MaskLastNBits.
