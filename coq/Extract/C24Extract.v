From Coq Require Import Extraction ExtrOcamlBasic List NArith.
From BioVerif Require Import Lib.Conv Model.Collision Spec.CollisionSpec.
Extraction Language OCaml.
Extraction "c24_model.ml" conv_anchor step init get est held rib_clients probe_ok
  spec_step spec_init sget local_less.
