From Coq Require Import Extraction ExtrOcamlBasic List NArith ZArith.
From BioVerif Require Import Lib.Conv Model.UpdateSender Spec.UpdateSenderSpec.
Extraction Language OCaml.
Extraction "c10_model.ml" conv_anchor init step view quiescent pkey wd_total budget nlri_len
  rib_empty rib_step.
