From Coq Require Import Extraction ExtrOcamlBasic List NArith ZArith.
From BioVerif Require Import Lib.Conv Model.Dijkstra Spec.DijkstraSpec.
Extraction Language OCaml.
Extraction "c35_model.ml" conv_anchor run run_seq spt new_topology tw graph_of weight is_path_b.
