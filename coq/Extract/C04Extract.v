From Coq Require Import Extraction ExtrOcamlBasic List.
From BioVerif Require Import Lib.Conv Model.LocRIBClients Spec.LocRIBClientsSpec.
Extraction Language OCaml.
Extraction "c04_model.ml" conv_anchor step init route_at lookup held want.
