(* Extraction of the wire-to-wire speaker (Model/Speaker.v) for ocaml/speaker/speaker_run.ml: the pl_* wrappers of
   Extract/PipelineExtract.v (configuration, observables of the RIB pipeline) plus the sp_* wrappers below. *)
From Coq Require Import Extraction ExtrOcamlBasic List NArith ZArith.
Import ListNotations.
From BioVerif Require Import Lib.Conv Model.PathIDs Model.AdjRIBOut Model.ExportWire Model.LocView Model.Pipeline
  Model.Speaker Extract.PipelineExtract.
From BioVerif Require Model.BGPCodec Model.BGPEncode.

Definition sp_spcfg := spcfg chain.
Definition sp_spst := spst chain.

Definition sp_cfg (c : pl_scfg) (addpath_rx asn32 addpath_tx : bool) : sp_spcfg :=
  mkSpcfg chain c (BGPCodec.mkOpts addpath_rx false asn32 false) (BGPEncode.mkEOpts addpath_tx asn32).

Definition sp_up (k : nat) : sevent := SUp k.
Definition sp_down (k : nat) : sevent := SDown k.
Definition sp_recv (k : nat) (b : list N) : sevent := SRecv k b.
Definition sp_dequeue_key (k : nat) (tag pid : N) : sevent := SDequeue k (tag, pid).
Definition sp_emit (k : nat) : sevent := SEmit k.

Definition sp_init (cs : list sp_spcfg) : sp_spst := sinit chain cs.
Definition sp_step (sel : nat -> list (LocRIBClients.entry path) -> list (LocRIBClients.entry path) * nat) (tagf : bgp -> N)
           (cs : list sp_spcfg) (st : sp_spst) (ev : sevent) : sp_spst :=
  sstep chain interp sel tagf cs st ev.

Definition sp_pipeline (st : sp_spst) : pl_pst := sp_pipe chain st.
Definition sp_crashed (st : sp_spst) : bool := sp_crash chain st.

(* what the decoder makes of one received frame: 0 UPDATE, 1 KEEPALIVE, 2 NOTIFICATION, 3 OPEN, 4 error, 5 panic / fuel *)
Definition sp_recv_kind (c : sp_spcfg) (b : list N) : N :=
  match recv_decode (sp_dec chain c) b with
  | BGPCodec.Ok m _ =>
    match BGPCodec.m_body m with
    | BGPCodec.BUpdate _ => 0 | BGPCodec.BKeepalive => 1 | BGPCodec.BNotification _ _ => 2 | BGPCodec.BOpen _ => 3
    end
  | BGPCodec.Err => 4
  | _ => 5
  end%N.
Definition sp_frame_ok (b : list N) : bool := frame_ok b.
Definition sp_covered (c : sp_spcfg) (b : list N) : bool :=
  match recv_decode (sp_dec chain c) b with
  | BGPCodec.Ok m _ => match BGPCodec.m_body m with BGPCodec.BUpdate u => covered u | _ => true end
  | _ => true
  end.

(* the UPDATE messages written to session c's connection since it came up, oldest first (None: not encodable) *)
Definition sp_output (tagf : bgp -> N) (c : sp_spcfg) (s : pl_sst) : list (option (list N)) := output chain tagf c s.

Extraction Language OCaml.
Extraction "speaker_model.ml" conv_anchor
  pl_sattrs pl_policy pl_inpath pl_inpath_fields pl_opts pl_uscfg pl_cfg
  pl_sessions pl_panicked pl_clock pl_candidates pl_is_up pl_in_tab pl_out_tab pl_out_errs pl_hist
  pl_nlabels pl_drained pl_pending pl_inflight pl_wire pl_peer_view pl_feed_tbl
  sp_cfg sp_up sp_down sp_recv sp_dequeue_key sp_emit sp_init sp_step sp_pipeline sp_crashed sp_recv_kind sp_frame_ok
  sp_covered sp_output
  interp hkey_of hkey_eq_dec tbl_get sess_wire export_with new_bgp.
