From Coq Require Import Extraction ExtrOcamlBasic List NArith ZArith.
From BioVerif Require Import Lib.Conv Model.PathSel Spec.PathSelSpec.
Extraction Language OCaml.
Extraction "c03_model.ml" conv_anchor path_select path_ecmp path_compare path_equal ecmp_count
  run_exec pkey rfc_cmp ecmp_key view embed.
