From Coq Require Import Extraction ExtrOcamlBasic List NArith.
From BioVerif Require Import Lib.Conv Model.Merged Spec.MergedSpec.
Extraction Language OCaml.
Extraction "c29_model.ml" conv_anchor step empty rib routes unique_count single_source_count
  spec_step adv_mem.
