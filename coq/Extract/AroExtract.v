(* Extraction of the Adj-RIB-Out models (shared by C08, C09, C11, C12, C13). *)
From Coq Require Import Extraction ExtrOcamlBasic List NArith.
From BioVerif Require Import Lib.Conv Model.PathIDs Model.AdjRIBOut Model.ExportWire Model.LocView Model.Heap Model.ImportReplace.
Extraction Language OCaml.
Extraction "aro_model.ml" conv_anchor step init interp export_with route_count
  tbl_get hkey_of path_hkey hkey_eq_dec pidm_empty new_bgp sess_wire
  change_ops view_get view_set feed_step
  hstep hnew heap_empty read entries obj_get
  replace_in establish chain_eqb fam_replace_export fam_replace_import fam_init_export fam_dispose.
