From Coq Require Import Extraction ExtrOcamlBasic List NArith.
From BioVerif Require Import Lib.Conv Model.FSM Spec.RFC4271FSM.
Extraction Language OCaml.
Extraction "c23_model.ml" conv_anchor step init_sess sys_step init_sys sent_open frame_of decode
  recv_msg recv_msg_unguarded decode_header validate_open process_caps open_verdict_of neg_start
  rc_count alist_get rfc_edge att_after.
