From Coq Require Import Extraction ExtrOcamlBasic List NArith String.
From BioVerif Require Import Lib.Conv Model.LockSem Gen.LockModel Spec.LockSpec.
Extraction Language OCaml.
Extraction "c25_model.ml" conv_anchor acyclic_check good_edges all_edges good_cycle all_cycle
  edge_rows leak_rows rdv_rows acc_rows unclassified_fields dyn_rows
  lock_names field_names lock_edges accesses analysed_functions guarded_fields.
