(* Extraction for the C25 / C26 model drivers.  The report rows of Spec/LockSpec.v are evaluated
   here (vm_compute) and exported with their names as character-code lists, so that Coq's `string`
   type does not shadow OCaml's in the driver; acyclic_check is extracted as a function and re-run
   by the driver on the evaluated edge lists. *)
From Coq Require Import Extraction ExtrOcamlBasic List NArith String Ascii.
Import ListNotations.
From BioVerif Require Import Lib.Conv Model.LockSem Gen.LockModel Spec.LockSpec.

Fixpoint codes (s : string) : list N :=
  match s with EmptyString => [] | String a r => N_of_ascii a :: codes r end.

Definition x_good_edges : list (N * N) := Eval vm_compute in good_edges.
Definition x_all_edges : list (N * N) := Eval vm_compute in all_edges.
Definition x_edge_rows : list (row_verdict * list (list N)) :=
  Eval vm_compute in map (fun r => (fst r, [codes (fst (fst (snd r))); codes (snd (fst (snd r))); codes (snd (snd r))])) edge_rows.
Definition x_leak_rows : list (row_verdict * list (list N)) :=
  Eval vm_compute in map (fun r => (fst r, [codes (fst (snd r)); codes (snd (snd r))])) leak_rows.
Definition x_rdv_rows : list (row_verdict * list (list N)) :=
  Eval vm_compute in map (fun r => (fst r, [codes (fst (snd r)); codes (snd (snd r))])) rdv_rows.
Definition x_acc_rows : list (row_verdict * list (list N) * bool) :=
  Eval vm_compute in map (fun r => (fst r, [codes (fst (fst (snd r))); codes (snd (fst (snd r)))], snd (snd r))) acc_rows.
Definition x_shared_rows : list (row_verdict * list (list N)) :=
  Eval vm_compute in map (fun r => (fst r, [codes (fst (fst (snd r))); codes (snd (fst (snd r))); codes (snd (snd r))])) shared_rows.
Definition x_join_rows : list (row_verdict * list (list N)) :=
  Eval vm_compute in map (fun r => (fst r, [codes (fst (fst (snd r))); codes (snd (fst (snd r))); codes (snd (snd r))])) join_rows.
Definition x_unclassified : list (list N) := Eval vm_compute in map codes unclassified_fields.
Definition x_dyn_rows : list (list (list N)) := Eval vm_compute in map (fun d => [codes (fst d); codes (snd d)]) dyn_rows.
Definition x_good_cycle : option (list (list N)) :=
  Eval vm_compute in match good_cycle with Some w => Some (map codes w) | None => None end.
Definition x_all_cycle : option (list (list N)) :=
  Eval vm_compute in match all_cycle with Some w => Some (map codes w) | None => None end.
Definition x_lock_names : list (N * list N) := Eval vm_compute in map (fun p => (fst p, codes (snd p))) lock_names.
Definition x_counts : list N :=
  Eval vm_compute in [N.of_nat (List.length lock_names); N.of_nat (List.length lock_edges); N.of_nat (List.length accesses);
                      N.of_nat (List.length field_names); analysed_functions; N.of_nat (List.length guarded_fields)].

Extraction Language OCaml.
Extraction "c25_model.ml" conv_anchor acyclic_check is_cycle x_good_edges x_all_edges x_edge_rows x_leak_rows
  x_rdv_rows x_acc_rows x_shared_rows x_join_rows x_unclassified x_dyn_rows x_good_cycle x_all_cycle x_lock_names x_counts.
