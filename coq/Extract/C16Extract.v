From Coq Require Import Extraction ExtrOcamlBasic List NArith.
From BioVerif Require Import Lib.Conv Model.BGPCodec.
Extraction Language OCaml.
Extraction "c16_model.ml" conv_anchor decode optionsOf renderMsg.
