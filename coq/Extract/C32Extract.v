From Coq Require Import Extraction ExtrOcamlBasic List NArith.
From BioVerif Require Import Lib.Conv Model.LSDB.
Extraction Language OCaml.
Extraction "c32_model.ml" conv_anchor init step lsps_to_send psnps_to_send csnps_to_send.
