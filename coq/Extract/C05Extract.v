From Coq Require Import Extraction ExtrOcamlBasic List NArith.
From BioVerif Require Import Lib.Conv Model.AdjRIBIn.
Extraction Language OCaml.
Extraction "c05_model.ml" conv_anchor step init sample_policy tab regs ctabs log ct_get pcmp peq.
