From Coq Require Import Extraction ExtrOcamlBasic List NArith.
From BioVerif Require Import Lib.Conv Model.AdjRIBIn Model.UpdateApply Spec.AdjRIBInSpec Spec.UpdateApplySpec.
Extraction Language OCaml.
Extraction "c20_model.ml" conv_anchor step init sample_policy tab regs ctabs log ct_get register
  process_update message_ops.
