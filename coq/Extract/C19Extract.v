From Coq Require Import Extraction ExtrOcamlBasic List NArith.
From BioVerif Require Import Lib.Conv Model.BGPCodec Model.BGPInstall.
Extraction Language OCaml.
Extraction "c19_model.ml" conv_anchor decode optionsOf renderMsg installed renderEntry.
