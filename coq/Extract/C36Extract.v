From Coq Require Import Extraction ExtrOcamlBasic List NArith.
From BioVerif Require Import Lib.Conv Model.Reconf Spec.ReconfSpec.
Extraction Language OCaml.
Extraction "c36_model.ml" conv_anchor init reload start state_of load wanted lookup reload_restarts key_eqb.
