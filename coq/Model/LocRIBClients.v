(* C04: executable model of routingtable/locRIB (LocRIB) and routingtable.ClientManager as far as
   clients are concerned: AddPath / RemovePath / ReplacePath with propagateChanges
   (removePathsFromClients, addPathsToClients, route.PathsDiff), RegisterWithOptions with
   UpdateNewClient, Unregister, RefreshClient.

   * A path OBJECT (Go pointer) is an object id [oid]; its attributes are a value of an abstract
     type [val].  route.PathsDiff compares pointers, so the model compares oids.  Every AddPath /
     ReplacePath call brings a new object: its oid is the number of the operation ([clock]).
   * Route.RemovePath removes the first stored path p with p.Compare(arg)  -> parameter [cmp];
     Route.ReplacePath replaces the first stored path p with p.Equal(old)  -> parameter [eqv].
   * Route.PathSelection (sort by Path.Select, then updateEqualPathCount) is the parameter [sel]:
     it maps the stored list (in storage order) to the ordered list and the ECMP count.  It is
     indexed by the operation number so that nothing is assumed about its being a function of
     the list only.  How paths are ranked is the business of C02/C03.
   * The trie below (routingtable.RoutingTable) is a finite map prefix -> route kept in ascending
     prefix order; a prefix whose last path is removed has no route (node.dummy, Get = nil).
   * `r.Paths()[:n]` with n > len is a Go panic: outcome [Panic].
   No proofs in this file. *)
From Coq Require Import List Arith Bool.
Import ListNotations.

Definition oid := nat.
Definition pfx := nat.
Definition cid := nat.

(* routingtable.ClientOptions *)
Record opts := mkOpts { bestOnly : bool; ecmpOnly : bool; maxPaths : nat }.

(* the zero value, returned by ClientManager.GetOptions for an unknown client *)
Definition zero_opts : opts := mkOpts false false 0.

(* ClientOptions.GetMaxPaths *)
Definition get_max_paths (o : opts) (ecmpPaths : nat) : nat :=
  if bestOnly o then 1 else if ecmpOnly o then ecmpPaths else maxPaths o.

(* finite maps with nat keys: association lists kept in ascending key order *)
Fixpoint lookup {A : Type} (k : nat) (m : list (nat * A)) : option A :=
  match m with
  | [] => None
  | (k', v) :: m' => if k' =? k then Some v else lookup k m'
  end.

Definition del {A : Type} (k : nat) (m : list (nat * A)) : list (nat * A) :=
  filter (fun kv => negb (fst kv =? k)) m.

Fixpoint insert {A : Type} (k : nat) (v : A) (m : list (nat * A)) : list (nat * A) :=
  match m with
  | [] => [(k, v)]
  | (k', v') :: m' => if k <? k' then (k, v) :: m else (k', v') :: insert k v m'
  end.

Definition put {A : Type} (k : nat) (v : A) (m : list (nat * A)) : list (nat * A) :=
  insert k v (del k m).

Section Model.

Variable val : Type.
Variable cmp : val -> val -> bool.   (* stored.Compare(arg), route.removePath *)
Variable eqv : val -> val -> bool.   (* stored.Equal(arg), Route.ReplacePath *)

Definition entry : Type := (oid * val)%type.

Variable sel : nat -> list entry -> list entry * nat.   (* Route.PathSelection *)

(* route.Route: paths in selection order + ecmpPaths.  A nil *Route reads as no paths, count 0. *)
Record route := mkRoute { paths : list entry; ecmp : nat }.
Definition nil_route : route := mkRoute [] 0.

Record state := mkState {
  routes : list (pfx * route);
  clients : list (cid * opts);
  clock : nat
}.

Definition init : state := mkState [] [] 0.

Definition route_at (st : state) (p : pfx) : route :=
  match lookup p (routes st) with Some r => r | None => nil_route end.

(* callbacks delivered to clients (routingtable.RouteTableClient) *)
Inductive cb :=
| CbAdd (c : cid) (p : pfx) (e : entry)          (* client.AddPath(pfx, path) *)
| CbRemove (c : cid) (p : pfx) (e : entry)       (* client.RemovePath(pfx, path) *)
| CbDump (c : cid) (p : pfx) (e : entry)         (* client.AddPathInitialDump(pfx, path.Copy()) *)
| CbEndOfRIB (c : cid)                           (* client.EndOfRIB() *)
| CbRefresh (c : cid) (p : pfx) (es : list entry) (* client.RefreshRoute(pfx, paths) *).

Inductive outcome := Ok (st : state) (cbs : list cb) | Panic.

(* route.PathsDiff / pathsContains: elements of a whose pointer is not in b *)
Definition has_oid (o : oid) (l : list entry) : bool := existsb (fun e => fst e =? o) l.
Definition paths_diff (a b : list entry) : list entry :=
  filter (fun e => negb (has_oid (fst e) b)) a.

(* Paths()[0:min(GetMaxPaths(ECMPPathCount()), len(Paths()))] *)
Definition limit_slice (o : opts) (r : route) : list entry :=
  firstn (Nat.min (get_max_paths o (ecmp r)) (length (paths r))) (paths r).

(* LocRIB.removePathsFromClients / addPathsToClients / propagateChanges *)
Definition remove_from_clients (cl : list (cid * opts)) (p : pfx) (oldr newr : route) : list cb :=
  flat_map (fun co => map (CbRemove (fst co) p)
                          (paths_diff (limit_slice (snd co) oldr) (limit_slice (snd co) newr))) cl.
Definition add_to_clients (cl : list (cid * opts)) (p : pfx) (oldr newr : route) : list cb :=
  flat_map (fun co => map (CbAdd (fst co) p)
                          (paths_diff (limit_slice (snd co) newr) (limit_slice (snd co) oldr))) cl.
Definition propagate (cl : list (cid * opts)) (p : pfx) (oldr newr : route) : list cb :=
  remove_from_clients cl p oldr newr ++ add_to_clients cl p oldr newr.

(* l[:n] *)
Definition slice_to (n : nat) (l : list entry) : option (list entry) :=
  if n <=? length l then Some (firstn n l) else None.

(* the n computed in UpdateNewClient and RefreshClient *)
Definition dump_count (o : opts) (r : route) : nat :=
  if bestOnly o then 1
  else if ecmpOnly o then ecmp r
  else Nat.min (maxPaths o) (length (paths r)).

(* LocRIB.UpdateNewClient: loop over rt.Dump() *)
Fixpoint dump_routes (c : cid) (o : opts) (rs : list (pfx * route)) : option (list cb) :=
  match rs with
  | [] => Some []
  | (p, r) :: rest =>
    match slice_to (dump_count o r) (paths r) with
    | None => None
    | Some es =>
      match dump_routes c o rest with
      | None => None
      | Some more => Some (map (CbDump c p) es ++ more)
      end
    end
  end.

(* LocRIB.RefreshClient *)
Fixpoint refresh_routes (c : cid) (o : opts) (rs : list (pfx * route)) : option (list cb) :=
  match rs with
  | [] => Some []
  | (p, r) :: rest =>
    match slice_to (dump_count o r) (paths r) with
    | None => None
    | Some es =>
      match refresh_routes c o rest with
      | None => None
      | Some more => Some (CbRefresh c p es :: more)
      end
    end
  end.

(* route.removePath: drop the first element satisfying f *)
Fixpoint remove_first (f : entry -> bool) (l : list entry) : list entry :=
  match l with
  | [] => []
  | x :: l' => if f x then l' else x :: remove_first f l'
  end.

(* Route.ReplacePath: overwrite the first element satisfying f; None = "Path not found" *)
Fixpoint replace_first (f : entry -> bool) (n : entry) (l : list entry) : option (list entry) :=
  match l with
  | [] => None
  | x :: l' =>
    if f x then Some (n :: l')
    else match replace_first f n l' with
         | None => None
         | Some r => Some (x :: r)
         end
  end.

(* the trie after the operation: a route without paths is not there (dummy node) *)
Definition store (p : pfx) (r : route) (rs : list (pfx * route)) : list (pfx * route) :=
  match paths r with
  | [] => del p rs
  | _ :: _ => put p r rs
  end.

Definition selected (t : nat) (pre : list entry) : route :=
  let (srt, e) := sel t pre in mkRoute srt e.

Inductive op :=
| OAdd (p : pfx) (v : val)                 (* LocRIB.AddPath(pfx, new object with value v) *)
| ORemove (p : pfx) (v : val)              (* LocRIB.RemovePath(pfx, path with value v) *)
| OReplace (p : pfx) (vold vnew : val)     (* LocRIB.ReplacePath(pfx, old, new object) *)
| ORegister (c : cid) (o : opts)           (* LocRIB.RegisterWithOptions (Register = BestOnly) *)
| OUnregister (c : cid)                    (* LocRIB.Unregister *)
| ORefresh (c : cid)                       (* LocRIB.RefreshClient *).

Definition tick (st : state) : state := mkState (routes st) (clients st) (S (clock st)).

Definition step (st : state) (o : op) : outcome :=
  let t := clock st in
  match o with
  | OAdd p v =>
    (* oldRoute = copy or empty; rt.AddPath appends; PathSelection; propagateChanges *)
    let oldr := route_at st p in
    let newr := selected t (paths oldr ++ [(t, v)]) in
    Ok (mkState (store p newr (routes st)) (clients st) (S t))
       (propagate (clients st) p oldr newr)
  | ORemove p v =>
    match lookup p (routes st) with
    | None => Ok (tick st) []
    | Some oldr =>
      let pre := remove_first (fun e => cmp (snd e) v) (paths oldr) in
      (* no path left: node becomes dummy, rt.Get = nil, newRoute = nil *)
      let newr := match pre with [] => nil_route | _ :: _ => selected t pre end in
      Ok (mkState (store p newr (routes st)) (clients st) (S t))
         (propagate (clients st) p oldr newr)
    end
  | OReplace p vold vnew =>
    match lookup p (routes st) with
    | None => Ok (tick st) []
    | Some oldr =>
      match replace_first (fun e => eqv (snd e) vold) (t, vnew) (paths oldr) with
      | None => Ok (tick st) []
      | Some pre =>
        let newr := selected t pre in
        Ok (mkState (store p newr (routes st)) (clients st) (S t))
           (propagate (clients st) p oldr newr)
      end
    end
  | ORegister c o =>
    (* ClientManager: clients[client] = opt; master.UpdateNewClient(client) *)
    match dump_routes c o (routes st) with
    | None => Panic
    | Some cbs => Ok (mkState (routes st) (put c o (clients st)) (S t)) (cbs ++ [CbEndOfRIB c])
    end
  | OUnregister c =>
    Ok (mkState (routes st) (del c (clients st)) (S t)) []
  | ORefresh c =>
    let o := match lookup c (clients st) with Some o => o | None => zero_opts end in
    match refresh_routes c o (routes st) with
    | None => Panic
    | Some cbs => Ok (tick st) cbs
    end
  end.

(* a history, with the callbacks each operation caused *)
Definition trace : Type := list (op * list cb).

Fixpoint run (st : state) (tr : trace) (ops : list op) : option (state * trace) :=
  match ops with
  | [] => Some (st, tr)
  | o :: rest =>
    match step st o with
    | Panic => None
    | Ok st' cbs => run st' (tr ++ [(o, cbs)]) rest
    end
  end.

End Model.

Arguments CbAdd {val}. Arguments CbRemove {val}. Arguments CbDump {val}.
Arguments CbEndOfRIB {val}. Arguments CbRefresh {val}.
Arguments OAdd {val}. Arguments ORemove {val}. Arguments OReplace {val}.
Arguments ORegister {val}. Arguments OUnregister {val}. Arguments ORefresh {val}.
Arguments Ok {val}. Arguments Panic {val}.
Arguments mkRoute {val}. Arguments paths {val}. Arguments ecmp {val}. Arguments nil_route {val}.
Arguments mkState {val}. Arguments routes {val}. Arguments clients {val}. Arguments clock {val}.
Arguments init {val}. Arguments route_at {val}.
