(* C31: executable model of the level 2 point-to-point neighbor table of one IS-IS interface:
   protocols/isis/server/neighbor_manager.go (processP2PHello, validateP2PHello,
   addNeighborIfNotExists, dropNeighbour), neighbor.go (neighborFromP2PHello, processP2PHello,
   adjChecker, timedOut, down, dispose) and lsp.go (extendedISReachabilityTLV: the neighbors the
   local LSP lists), with the LSP update request flag (lsdb.requestL2LSPUpdate / l2LSPUpdater).
   Time is in whole seconds (the harness only moves the clock by whole seconds).
   No proofs in this file. *)
From Coq Require Import List Bool NArith.
Import ListNotations.
Open Scope N_scope.

Inductive adj_state := Init | Up | Down.

Definition is_up (s : adj_state) : bool := match s with Up => true | _ => false end.
Definition is_down (s : adj_state) : bool := match s with Down => true | _ => false end.

Record nbr := mkNbr {
  state : adj_state;
  timeout : N;      (* n.timeout: time of the last accepted hello + its holding time *)
  changed : N       (* n.lastStateChange *)
}.

(* neighbors are keyed by the sender's MAC address (here: a number) *)
Definition table := list (N * nbr).

Record srv := mkSrv {
  now : N;
  nbrs : table;
  pending : bool;       (* an LSP update request is queued in lsdb.refreshCh *)
  lsp : list N          (* neighbors listed in the local LSP's extended IS reachability TLV *)
}.

Definition down_keep : N := 120.   (* neighborDownTimeoutS *)

Fixpoint lookup (k : N) (t : table) : option nbr :=
  match t with
  | [] => None
  | (k', v) :: r => if N.eqb k' k then Some v else lookup k r
  end.

Fixpoint update (k : N) (v : nbr) (t : table) : table :=
  match t with
  | [] => [(k, v)]
  | (k', v') :: r => if N.eqb k' k then (k', v) :: r else (k', v') :: update k v r
  end.

(* what a received hello amounts to after decoding and validation *)
Inductive verdict :=
| Lists        (* valid; the three-way TLV names this system and this circuit *)
| NotLists     (* valid; the TLV names someone else, another circuit, or nobody *)
| Rejected     (* validateP2PHello fails: processPkt returns an error, nothing changes *)
| Ignored.     (* a level-1-only hello on an interface without level 1: silently dropped *)

Inductive event :=
| Hello (k : N) (hold : N) (v : verdict)
| Tick (d : N)          (* the clock moves d seconds ahead, then every adjacency checker runs once *)
| Regen                 (* the LSP updater takes a queued request (if any) and regenerates the LSP *)
| ForceRegen.           (* lsdb.updateL2LSP is run regardless *)

(* the Up neighbors, in table order: what generateLocalLSP puts into the LSP *)
Definition up_ids (t : table) : list N :=
  map fst (filter (fun kv => is_up (state (snd kv))) t).

(* neighbor.processP2PHello for an existing neighbor; result: new record, "requested an LSP update" *)
Definition hello_existing (nw : N) (nb : nbr) (hold : N) (lists : bool) : nbr * bool :=
  let to := nw + hold in
  if negb (is_up (state nb)) && lists then (mkNbr Up to nw, true)
  else if is_up (state nb) && negb lists then (mkNbr Down to nw, true)
  else (mkNbr (state nb) to (changed nb), false).

Definition on_hello (s : srv) (k hold : N) (lists : bool) : srv :=
  match lookup k (nbrs s) with
  | None =>
    (* addNeighborIfNotExists: the first hello only creates the neighbor (Init) *)
    mkSrv (now s) (update k (mkNbr Init (now s + hold) (now s)) (nbrs s)) (pending s) (lsp s)
  | Some nb =>
    let (nb', req) := hello_existing (now s) nb hold lists in
    mkSrv (now s) (update k nb' (nbrs s)) (pending s || req) (lsp s)
  end.

(* one pass of neighbor.adjChecker's loop body at time nw:
   None = the neighbor was disposed of; the flag says an LSP update was requested *)
Definition check (nw : N) (nb : nbr) : option nbr * bool :=
  let timed_out := negb (is_down (state nb)) && (timeout nb <? nw) in
  let nb1 := if timed_out then mkNbr Down (timeout nb) nw else nb in
  let req := timed_out && is_up (state nb) in
  if is_down (state nb1) && (down_keep <? nw - changed nb1) then (None, req)
  else (Some nb1, req).

Fixpoint check_all (nw : N) (t : table) : table * bool :=
  match t with
  | [] => ([], false)
  | (k, nb) :: r =>
    let (r', req') := check_all nw r in
    match check nw nb with
    | (None, req) => (r', req || req')
    | (Some nb', req) => ((k, nb') :: r', req || req')
    end
  end.

Definition step (s : srv) (e : event) : srv :=
  match e with
  | Hello k hold Lists => on_hello s k hold true
  | Hello k hold NotLists => on_hello s k hold false
  | Hello _ _ Rejected => s
  | Hello _ _ Ignored => s
  | Tick d =>
    let nw := now s + d in
    let (t', req) := check_all nw (nbrs s) in
    mkSrv nw t' (pending s || req) (lsp s)
  | Regen =>
    if pending s then mkSrv (now s) (nbrs s) false (up_ids (nbrs s)) else s
  | ForceRegen => mkSrv (now s) (nbrs s) (pending s) (up_ids (nbrs s))
  end.

Definition run (s : srv) (evs : list event) : srv := fold_left step evs s.

(* the harness' initial state: interface up (that requested an LSP update), no neighbors, no LSP *)
Definition init : srv := mkSrv 0 [] true [].
