(* C35: executable model of util/dijkstra/dijkstra.go (NewTopology, newSPT, Topology.SPT).

   Go maps are association lists with unique keys (put replaces the value of an existing key,
   otherwise adds a binding).  The order in which `for k := range m` visits a map is NOT a
   function of the map: every `range` whose order can influence the result takes its order from
   an oracle (ord_edges / ord_nodes, indexed by the iteration of the main loop); the theorems hold
   for every oracle that returns a permutation of its argument.  (newSPT and the construction of
   `unmarked` also range over t.nodes, but only build fresh maps whose content does not depend on
   the order; the representation order of an association list is unobservable because every later
   traversal goes through the oracle.)

   int64 arithmetic is modelled with wrap-around (add64).  Reading a missing key yields Go's zero
   value (spt_get: Path{nil, 0}).  Node names are numbers (the harness names node i "n<i>").

   `next` is a *Node in Go: option node here.  `guard` = presence of the nil test before
   `from = *next` (true = the code as repaired by the fix commit; false = the code as found,
   where dereferencing nil panics).  The check runs with guard = true. *)
From Coq Require Import List NArith ZArith Bool.
Import ListNotations.
Open Scope Z_scope.

Definition node := N.
Record edge := mkE { ea : node; eb : node; ew : Z }.
Record path := mkP { pedges : list edge; pdist : Z }.

(* ---- Go maps with Node keys *)
Section Assoc.
  Context {A : Type}.
  Fixpoint get (k : node) (m : list (node * A)) : option A :=
    match m with
    | [] => None
    | (k', v) :: m' => if N.eqb k' k then Some v else get k m'
    end.
  Fixpoint put (k : node) (v : A) (m : list (node * A)) : list (node * A) :=
    match m with
    | [] => [(k, v)]
    | (k', v') :: m' => if N.eqb k' k then (k', v) :: m' else (k', v') :: put k v m'
    end.
  Definition keys (m : list (node * A)) : list node := map fst m.
End Assoc.

(* ---- int64 *)
Definition two63 : Z := 9223372036854775808.
Definition wrap64 (z : Z) : Z := (z + two63) mod (2 * two63) - two63.
Definition add64 (a b : Z) : Z := wrap64 (a + b).

(* ---- Topology *)
Record topology := mkT {
  t_nodes : list (node * Z);                  (* map[Node]int64, every value -1 *)
  t_edges : list (node * list (node * Z))     (* map[Node]map[Node]int64 *)
}.

(* if _, ok := t.edges[e.NodeA]; !ok { t.edges[e.NodeA] = make(...) }; t.edges[e.NodeA][e.NodeB] = e.Distance *)
Definition add_edge (m : list (node * list (node * Z))) (e : edge) : list (node * list (node * Z)) :=
  let inner := match get (ea e) m with Some i => i | None => [] end in
  put (ea e) (put (eb e) (ew e) inner) m.

Definition new_topology (nodes : list node) (edges : list edge) : topology :=
  mkT (fold_left (fun m n => put n (-1) m) nodes [])
      (fold_left add_edge edges []).

(* weight of the edge u -> v in the topology, if any *)
Definition tw (t : topology) (u v : node) : option Z :=
  match get u (t_edges t) with Some i => get v i | None => None end.

Definition new_spt (t : topology) : list (node * path) :=
  map (fun kv => (fst kv, mkP [] (-1))) (t_nodes t).

(* spt[n] for reading: zero value when absent *)
Definition spt_get (spt : list (node * path)) (n : node) : path :=
  match get n spt with Some p => p | None => mkP [] 0 end.

(* ---- map iteration order *)
Record oracle := mkO {
  ord_edges : nat -> list (node * Z) -> list (node * Z);
  ord_nodes : nat -> list node -> list node
}.

Inductive outcome :=
| Ok (spt : list (node * path))
| Panic          (* nil pointer dereference: from = *next with next == nil *)
| OutOfFuel.     (* not a Go behaviour; excluded by the theorems *)

(* body of `for neighbor, distance := range t.edges[from]` *)
Definition relax1 (from : node) (spt : list (node * path)) (nd : node * Z) : list (node * path) :=
  let neighbor := fst nd in
  let distance := snd nd in
  if pdist (spt_get spt neighbor) =? -1 then
    put neighbor (mkP (pedges (spt_get spt from) ++ [mkE from neighbor distance])
                      (add64 (pdist (spt_get spt from)) distance)) spt
  else if add64 (pdist (spt_get spt from)) distance <? pdist (spt_get spt neighbor) then
    put neighbor (mkP (pedges (spt_get spt from) ++ [mkE from neighbor distance])
                      (add64 (pdist (spt_get spt from)) distance)) spt
  else spt.

(* body of `for candidate := range unmarked` with the running (next, nextDistance) *)
Fixpoint select (spt : list (node * path)) (cands : list node) (next : option node) (nextDistance : Z)
  : option node :=
  match cands with
  | [] => next
  | c :: r =>
    let d := pdist (spt_get spt c) in
    if d =? -1 then select spt r next nextDistance
    else match next with
         | None => select spt r (Some c) d
         | Some _ => if d <? nextDistance then select spt r (Some c) d
                     else select spt r next nextDistance
         end
  end.

Definition remove_node (n : node) (l : list node) : list node :=
  filter (fun x => negb (N.eqb x n)) l.

(* `for len(unmarked) > 0 { ... }`; k counts iterations (index into the oracle) *)
Fixpoint loop (guard : bool) (o : oracle) (t : topology) (fuel k : nat)
         (spt : list (node * path)) (from : node) (unmarked : list node) : outcome :=
  match unmarked with
  | [] => Ok spt
  | _ :: _ =>
    match fuel with
    | O => OutOfFuel
    | S fuel' =>
      let out := match get from (t_edges t) with Some i => i | None => [] end in
      let spt' := fold_left (relax1 from) (ord_edges o k out) spt in
      match select spt' (ord_nodes o k unmarked) None 0 with
      | None => if guard then Ok spt' (* if next == nil { break } *) else Panic (* from = *next *)
      | Some nx => loop guard o t fuel' (S k) spt' nx (remove_node nx unmarked)
      end
    end
  end.

Definition spt_run (guard : bool) (o : oracle) (t : topology) (from : node) : outcome :=
  let spt := new_spt t in
  (* tmp := spt[from]; tmp.Distance = 0; spt[from] = tmp *)
  let spt0 := put from (mkP (pedges (spt_get spt from)) 0) spt in
  let unmarked := remove_node from (keys (t_nodes t)) in
  loop guard o t (length unmarked) 0 spt0 from unmarked.

(* NewTopology(nodes, edges).SPT(from) *)
Definition run (guard : bool) (o : oracle) (nodes : list node) (edges : list edge) (from : node) : outcome :=
  spt_run guard o (new_topology nodes edges) from.

(* ---- several SPT calls on ONE Topology object.
   t.SPT(from) returns the tree; the Topology it leaves behind is part of the model's result so that
   a later call sees it.  In the code as it is SPT writes neither t.nodes nor t.edges (reading
   t.edges[from] for a missing key does not insert), so the topology is handed on unchanged. *)
Definition spt (guard : bool) (o : oracle) (t : topology) (from : node) : topology * outcome :=
  (t, spt_run guard o t from).

(* calls = the sources of successive t.SPT(..) calls, each with the map order it happens to see *)
Fixpoint spt_seq (guard : bool) (t : topology) (calls : list (oracle * node)) : list outcome :=
  match calls with
  | [] => []
  | (o, from) :: rest => let '(t', out) := spt guard o t from in out :: spt_seq guard t' rest
  end.

(* t := NewTopology(nodes, edges); t.SPT(s1); t.SPT(s2); ... *)
Definition run_seq (guard : bool) (nodes : list node) (edges : list edge) (calls : list (oracle * node))
  : list outcome :=
  spt_seq guard (new_topology nodes edges) calls.
