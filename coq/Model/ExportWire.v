(* C09: which path attributes an exported path puts on the wire.
   Model of packet.PathAttributes(p, iBGP, rrClient) followed by PathAttribute.Serialize of each
   element (protocols/bgp/packet/path_attributes.go), at the level of "attribute type + value":
   flags and length octets are the codec's business (C16/C17).  After fix 39af1475 a nil
   CLUSTER_LIST is serialized like an empty one (nothing).  There is no encoder for OTC (type 35):
   BGPPathA.OnlyToCustomer never reaches the wire.  No proofs in this file. *)
From Coq Require Import List NArith Bool.
Import ListNotations.
From BioVerif Require Import Model.PathIDs Model.AdjRIBOut.
Local Open Scope N_scope.

Inductive wattr :=
| WAsPath (p : list (bool * list N))
| WOrigin (o : N)
| WNextHop (n : N)
| WMed (m : N)
| WAtomic
| WAggregator (a : N * N)
| WLocalPref (l : N)
| WOriginator (o : N)
| WClusterList (l : list N)
| WComms (l : list N)
| WLComms (l : list (N * N * N))
| WUnknown (u : unkattr).

Definition nonempty {A : Type} (mk : list A -> wattr) (o : option (list A)) : list wattr :=
  match o with Some (x :: l) => [mk (x :: l)] | _ => [] end.

(* serializeASPath skips segments without ASNs (fix 2131a070: such a segment is malformed on the wire) *)
Definition wire_segments (p : list (bool * list N)) : list (bool * list N) :=
  filter (fun sg : bool * list N => match snd sg with [] => false | _ => true end) p.

(* the update sender calls PathAttributes(path, session is iBGP, peer is an RR client) *)
Definition wire (ibgp rr : bool) (b : bgp) : list wattr :=
  [WAsPath (wire_segments (b_aspath b)); WOrigin (b_origin b); WNextHop (b_nh b)]
  ++ (if N.eqb (b_med b) 0 then [] else [WMed (b_med b)])
  ++ (if b_atomic b then [WAtomic] else [])
  ++ (match b_agg b with Some a => [WAggregator a] | None => [] end)
  ++ (if ibgp then [WLocalPref (b_lp b)] else [])
  ++ (if rr then WOriginator (b_oid b) :: nonempty WClusterList (b_cl b) else [])
  ++ nonempty WComms (b_comms b)
  ++ nonempty WLComms (b_lcomms b)
  ++ map WUnknown (b_unk b).

Definition sess_wire (s : sess) (b : bgp) : list wattr := wire (s_ibgp s) (s_rrclient s) b.

(* attribute type codes *)
Definition wcode (a : wattr) : N :=
  match a with
  | WOrigin _ => 1 | WAsPath _ => 2 | WNextHop _ => 3 | WMed _ => 4 | WLocalPref _ => 5
  | WAtomic => 6 | WAggregator _ => 7 | WComms _ => 8 | WOriginator _ => 9 | WClusterList _ => 10
  | WLComms _ => 32 | WUnknown u => u_code u
  end.
