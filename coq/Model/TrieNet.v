(* C01: the trie model (Model/Trie.v) instantiated with the MACHINE-WORD prefixes of package net
   (Model/NetArith.v: records of uint64 words + uint8 length, the transcription of
   /repo/net/prefix.go and ip.go that C15 is about) and with the definitions REGENERATED from the
   Go source on every run (Gen/NetGen.v, tools/gosub2coq).  One instance serves IPv4 and IPv6:
   the family is the isLegacy flag inside the address.  No proofs in this file.

   trie.go calls          model
   pfx.Equal(x)           pfx_equal / g_Prefix_Equal
   pfx.Contains(x)        Contains / g_Prefix_Contains
   pfx.GetSupernet(x)     GetSupernet / g_Prefix_GetSupernet; the loops of supernetIPv4/6 are fuelled
                          fixpoints that return None when the fuel runs out, which C15_supernet_total4/6
                          exclude; the instance reads None as the receiver (never taken)
   x.Addr().BitAtPosition(n.route.Pfxlen() + 1)   BitAtPosition (addr x) (len + 1), uint8 sum (len <= 128)
   x.Len()                plen, as a natural number *)
From Coq Require Import List Bool Arith ZArith NArith.
From BioVerif Require Import Lib.Word Model.NetArith Gen.NetGen Model.Trie.
Import ListNotations.

Definition n_len (p : pfx) : nat := Z.to_nat (plen p).
Definition n_bitAt (p : pfx) (pos : nat) : bool := BitAtPosition (addr p) (Z.of_nat pos).
Definition n_supernet (p x : pfx) : pfx :=
  match GetSupernet p x with Some s => s | None => p end.

Definition g_bitAt (p : pfx) (pos : nat) : bool := g_IP_BitAtPosition (addr p) (Z.of_nat pos).
Definition g_supernet (p x : pfx) : pfx :=
  match g_Prefix_GetSupernet p x with Some s => s | None => p end.

Section NetTrie.
  Variable P : Type.
  Variable peq : P -> P -> bool.

  Definition ntable := table pfx P.
  Definition nop := op pfx P.
  Definition nroute := route pfx P.

  (* hand-written transcription of package net *)
  Definition n_run : list nop -> ntable := run pfx P peq pfx_equal Contains n_supernet n_bitAt n_len.
  Definition n_step : ntable -> nop -> ntable := step pfx P peq pfx_equal Contains n_supernet n_bitAt n_len.
  Definition nt_get (t : ntable) (q : pfx) : option nroute := t_get pfx P pfx_equal n_bitAt n_len t q.
  Definition nt_lpm (t : ntable) (q : pfx) : list nroute := t_lpm pfx P pfx_equal Contains t q.
  Definition nt_getLonger (t : ntable) (q : pfx) : list nroute :=
    t_getLonger pfx P pfx_equal Contains n_bitAt n_len t q.
  Definition nt_dump (t : ntable) : list nroute := t_dump pfx P t.
  Definition nt_count (t : ntable) : Z := count pfx P t.

  (* regenerated from the source *)
  Definition g_run : list nop -> ntable :=
    run pfx P peq g_Prefix_Equal g_Prefix_Contains g_supernet g_bitAt n_len.
  Definition g_step : ntable -> nop -> ntable :=
    step pfx P peq g_Prefix_Equal g_Prefix_Contains g_supernet g_bitAt n_len.
  Definition gt_get (t : ntable) (q : pfx) : option nroute := t_get pfx P g_Prefix_Equal g_bitAt n_len t q.
  Definition gt_lpm (t : ntable) (q : pfx) : list nroute := t_lpm pfx P g_Prefix_Equal g_Prefix_Contains t q.
  Definition gt_getLonger (t : ntable) (q : pfx) : list nroute :=
    t_getLonger pfx P g_Prefix_Equal g_Prefix_Contains g_bitAt n_len t q.
End NetTrie.
