(* C15: text side of package net: IP.String / Prefix.String (stringIPv4, stringIPv6, appendHex,
   Bytes) transcribed from /repo/net/ip.go, and IPFromString / IPFromBytes / PrefixFromString.
   Strings are lists of byte codes (Z).  Go's net.ParseIP is not bio-rd code: it is MODELLED
   here after net/netip (parseIPv4Fields, parseIPv6) without zones and without the embedded
   dotted-quad tail of an IPv6 literal (those inputs give None = "outside the model").
   No proofs in this file. *)
From Coq Require Import ZArith Bool List.
From BioVerif Require Import Lib.Word Model.NetArith.
Import ListNotations.
Open Scope Z_scope.

Definition str := list Z.
Definition c_dot : Z := 46.    (* '.' *)
Definition c_slash : Z := 47.  (* '/' *)
Definition c_colon : Z := 58.  (* ':' *)
Definition c_0 : Z := 48.
Definition c_plus : Z := 43.
Definition c_minus : Z := 45.

(* ---------- formatting ---------- *)

(* fmt "%d" of a value below 1000 (bytes and prefix lengths are uint8) *)
Definition fmt_dec (n : Z) : str :=
  if n <? 10 then [c_0 + n]
  else if n <? 100 then [c_0 + n / 10; c_0 + n mod 10]
  else [c_0 + n / 100; c_0 + (n / 10) mod 10; c_0 + n mod 10].

(* const hexDigit = "0123456789abcdef" *)
Definition hexDigit (d : Z) : Z := if d <? 10 then c_0 + d else 87 + d.

(* func appendHex(dst []byte, i uint32) []byte *)
Definition appendHex (i : Z) : str :=
  if i =? 0 then [c_0]
  else flat_map (fun j => let v := wshr 32 i (j * 4) in
                          if 0 <? v then [hexDigit (wand v 15)] else [])
                [7; 6; 5; 4; 3; 2; 1; 0].

(* byte(x & 0xFF<<k >> k) *)
Definition byte_at (x k : Z) : Z := wconv 8 (wshr 64 (wand x (255 * 2 ^ k)) k).

(* func (ip *IP) bytesIPv4() []byte *)
Definition bytesIPv4 (a : ip) : list Z :=
  let u := ToUint32 a in
  [byte_at u 24; byte_at u 16; byte_at u 8; wconv 8 (wand u 255)].

(* func (ip *IP) bytesIPv6() []byte *)
Definition bytesIPv6 (a : ip) : list Z :=
  [byte_at (hi a) 56; byte_at (hi a) 48; byte_at (hi a) 40; byte_at (hi a) 32;
   byte_at (hi a) 24; byte_at (hi a) 16; byte_at (hi a) 8; wconv 8 (wand (hi a) 255);
   byte_at (lo a) 56; byte_at (lo a) 48; byte_at (lo a) 40; byte_at (lo a) 32;
   byte_at (lo a) 24; byte_at (lo a) 16; byte_at (lo a) 8; wconv 8 (wand (lo a) 255)].

(* func (ip IP) Bytes() []byte *)
Definition Bytes (a : ip) : list Z := if negb (legacy a) then bytesIPv6 a else bytesIPv4 a.

Definition byte_nth (p : list Z) (i : Z) : Z := nth (Z.to_nat i) p 0.

(* func (ip IP) stringIPv4() string: fmt.Sprintf("%d.%d.%d.%d", b[0], b[1], b[2], b[3]) *)
Definition stringIPv4 (a : ip) : str :=
  let b := Bytes a in
  fmt_dec (byte_nth b 0) ++ [c_dot] ++ fmt_dec (byte_nth b 1) ++ [c_dot] ++
  fmt_dec (byte_nth b 2) ++ [c_dot] ++ fmt_dec (byte_nth b 3).

(* stringIPv6, first loop: the longest run of zero 16-bit fields (the first of the longest).
     for i := 0; i < 16; i += 2 {
       j := i
       for j < 16 && p[j] == 0 && p[j+1] == 0 { j += 2 }
       if j > i && j-i > e1-e0 { e0 = i; e1 = j; i = j } }
   z k = (p[2k] == 0 && p[2k+1] == 0), evaluated up front. *)
Definition zflags (p : list Z) : list bool :=
  map (fun k => (byte_nth p (2 * k) =? 0) && (byte_nth p (2 * k + 1) =? 0)) [0; 1; 2; 3; 4; 5; 6; 7].

Fixpoint scan_zero (fuel : nat) (z : list bool) (j : Z) : option Z :=
  match fuel with
  | O => None
  | S f => if (j <? 16) && nth (Z.to_nat (j / 2)) z false then scan_zero f z (j + 2) else Some j
  end.

Fixpoint zero_run_loop (fuel : nat) (z : list bool) (i e0 e1 : Z) : option (Z * Z) :=
  match fuel with
  | O => None
  | S f =>
    if i <? 16 then
      match scan_zero 9 z i with
      | None => None
      | Some j =>
        if (i <? j) && (e1 - e0 <? j - i)
        then zero_run_loop f z (j + 2) i j
        else zero_run_loop f z (i + 2) e0 e1
      end
    else Some (e0, e1)
  end.

(* ... followed by: if e1-e0 <= 2 { e0 = -1; e1 = -1 } *)
Definition zero_run (z : list bool) : option (Z * Z) :=
  match zero_run_loop 9 z 0 (-1) (-1) with
  | None => None
  | Some (e0, e1) => if e1 - e0 <=? 2 then Some (-1, -1) else Some (e0, e1)
  end.

(* appendHex(b, (uint32(p[i])<<8)|uint32(p[i+1])) *)
Definition hexgroup (p : list Z) (i : Z) : str :=
  appendHex (wor (wshl 32 (byte_nth p i) 8) (byte_nth p (i + 1))).

(* stringIPv6, second loop:
     for i := 0; i < 16; i += 2 {
       if i == e0 { b = append(b, ':', ':'); i = e1; if i >= 16 { break } }
       else if i > 0 { b = append(b, ':') }
       b = appendHex(b, ...) } *)
Fixpoint print6_loop (fuel : nat) (p : list Z) (e0 e1 i : Z) : option str :=
  match fuel with
  | O => None
  | S f =>
    if i <? 16 then
      if i =? e0 then
        if 16 <=? e1 then Some [c_colon; c_colon]
        else match print6_loop f p e0 e1 (e1 + 2) with
             | None => None
             | Some r => Some ([c_colon; c_colon] ++ hexgroup p e1 ++ r)
             end
      else
        match print6_loop f p e0 e1 (i + 2) with
        | None => None
        | Some r => Some ((if 0 <? i then [c_colon] else []) ++ hexgroup p i ++ r)
        end
    else Some []
  end.

(* func (ip IP) stringIPv6() string; None = a loop ran out of fuel (excluded by stringIPv6_total) *)
Definition stringIPv6 (a : ip) : option str :=
  let p := Bytes a in
  match zero_run (zflags p) with
  | None => None
  | Some (e0, e1) => print6_loop 9 p e0 e1 0
  end.

(* func (ip IP) String() string *)
Definition ip_string (a : ip) : option str :=
  if negb (legacy a) then stringIPv6 a else Some (stringIPv4 a).

(* func (pfx *Prefix) String() string: fmt.Sprintf("%s/%d", pfx.addr.String(), pfx.len) *)
Definition pfx_string (p : pfx) : option str :=
  match ip_string (addr p) with
  | None => None
  | Some s => Some (s ++ [c_slash] ++ fmt_dec (plen p))
  end.

(* ---------- parsing: model of net.ParseIP (net/netip) ---------- *)

Definition is_digit (c : Z) : bool := (48 <=? c) && (c <=? 57).

(* netip.parseIPv4Fields, one pass over the characters *)
Fixpoint parse4_loop (s : str) (i len prev val pos digLen : Z) (fields : list Z)
  : option (list Z * Z * Z) :=
  match s with
  | [] => Some (fields, val, pos)
  | c :: r =>
    if is_digit c then
      if (digLen =? 1) && (val =? 0) then None        (* octet with leading zero *)
      else
        let val' := val * 10 + (c - 48) in
        if 255 <? val' then None                        (* value > 255 *)
        else parse4_loop r (i + 1) len c val' pos (digLen + 1) fields
    else if c =? c_dot then
      if (i =? 0) || (i =? len - 1) || (prev =? c_dot) then None
      else if pos =? 3 then None                        (* too long *)
      else parse4_loop r (i + 1) len c 0 (pos + 1) 0 (fields ++ [wconv 8 val])
    else None                                           (* unexpected character *)
  end.

Definition parseIPv4 (s : str) : option (list Z) :=
  match parse4_loop s 0 (Z.of_nat (length s)) (-1) 0 0 0 [] with
  | None => None
  | Some (fields, val, pos) => if pos <? 3 then None else Some (fields ++ [wconv 8 val])
  end.

Definition hexval (c : Z) : option Z :=
  if (48 <=? c) && (c <=? 57) then Some (c - 48)
  else if (97 <=? c) && (c <=? 102) then Some (c - 87)
  else if (65 <=? c) && (c <=? 70) then Some (c - 55)
  else None.

(* the inner loop of netip.parseIPv6: one hex group.  Result: (acc, off, rest); None = error
   (more than 4 digits, value >= 2^16) *)
Fixpoint read_hex (s : str) (off acc : Z) : option (Z * Z * str) :=
  match s with
  | [] => Some (acc, off, [])
  | c :: r =>
    match hexval c with
    | None => Some (acc, off, s)
    | Some d =>
      let acc' := wadd 32 (wshl 32 acc 4) d in
      if 3 <? off then None
      else if 65535 <? acc' then None
      else read_hex r (off + 1) acc'
    end
  end.

(* the outer loop of netip.parseIPv6 (for i < 16): fuel = number of groups still allowed.
   groups = 16-bit fields parsed so far; ell = number of fields before the "::", if seen. *)
Fixpoint parse6_loop (fuel : nat) (s : str) (groups : list Z) (ell : option Z)
  : option (list Z * option Z) :=
  match fuel with
  | O => None                                 (* i = 16 with input left: trailing garbage *)
  | S f =>
    match read_hex s 0 0 with
    | None => None
    | Some (acc, off, s1) =>
      if off =? 0 then None                   (* no digits *)
      else
        match s1 with
        | [] => Some (groups ++ [acc], ell)   (* end of string *)
        | c :: s2 =>
          if c =? c_dot then None             (* embedded IPv4: outside the model *)
          else if negb (c =? c_colon) then None   (* unexpected character *)
          else
            let groups' := groups ++ [acc] in
            match s2 with
            | [] => None                      (* colon must be followed by more characters *)
            | c2 :: s3 =>
              if c2 =? c_colon then
                match ell with
                | Some _ => None              (* multiple :: *)
                | None =>
                  let ell' := Some (Z.of_nat (length groups')) in
                  match s3 with
                  | [] => Some (groups', ell')
                  | _ :: _ => parse6_loop f s3 groups' ell'
                  end
                end
              else parse6_loop f s2 groups' ell
            end
        end
    end
  end.

(* netip.parseIPv6 without zones; result: the eight 16-bit fields *)
Definition parseIPv6 (s : str) : option (list Z) :=
  let '(s0, ell0) :=
    match s with
    | c1 :: c2 :: r => if (c1 =? c_colon) && (c2 =? c_colon) then (r, Some 0) else (s, None)
    | _ => (s, None)
    end in
  match s0, ell0 with
  | [], Some _ => Some [0; 0; 0; 0; 0; 0; 0; 0]        (* "::" *)
  | _, _ =>
    match parse6_loop 8 s0 [] ell0 with
    | None => None
    | Some (groups, ell) =>
      let n := Z.of_nat (length groups) in
      if n <? 8 then
        match ell with
        | None => None                                  (* too short *)
        | Some e => Some (firstn (Z.to_nat e) groups ++ repeat 0 (Z.to_nat (8 - n))
                          ++ skipn (Z.to_nat e) groups)
        end
      else match ell with
           | None => Some groups
           | Some _ => None                             (* :: must stand for at least one field *)
           end
    end
  end.

(* netip.ParseAddr dispatch on the first '.' or ':' ; net.ParseIP returns 16 bytes (As16):
   an IPv4 address in its IPv4-mapped form *)
Fixpoint first_sep (s : str) : Z :=
  match s with
  | [] => 0
  | c :: r => if c =? c_dot then c_dot else if c =? c_colon then c_colon
              else if c =? 37 then 37 else first_sep r
  end.

Definition ParseIP (s : str) : option (list Z) :=
  let k := first_sep s in
  if k =? c_dot then
    match parseIPv4 s with
    | None => None
    | Some f => Some ([0; 0; 0; 0; 0; 0; 0; 0; 0; 0; 255; 255] ++ f)
    end
  else if k =? c_colon then
    match parseIPv6 s with
    | None => None
    | Some g => Some (flat_map (fun h => [wconv 8 (wshr 32 h 8); wconv 8 h]) g)
    end
  else None.

(* ---------- package net again ---------- *)

(* net.IP.To4 of the standard library (4 bytes, or 16 bytes in IPv4-mapped form) *)
Definition To4 (b : list Z) : option (list Z) :=
  if Z.of_nat (length b) =? 4 then Some b
  else if (Z.of_nat (length b) =? 16)
          && forallb (fun x => x =? 0) (firstn 10 b)
          && (byte_nth b 10 =? 255) && (byte_nth b 11 =? 255)
       then Some (skipn 12 b)
       else None.

(* uint16(b[i])<<8 + uint16(b[i+1]) *)
Definition u16 (b : list Z) (i : Z) : Z := wadd 16 (wshl 16 (byte_nth b i) 8) (byte_nth b (i + 1)).

(* func IPFromBytes(b []byte) (IP, error); None = error *)
Definition IPFromBytes (b : list Z) : option ip :=
  match To4 b with
  | Some ip4 => Some (IPv4FromOctets (byte_nth ip4 0) (byte_nth ip4 1) (byte_nth ip4 2) (byte_nth ip4 3))
  | None =>
    if Z.of_nat (length b) =? 16 then
      Some (IPv6FromBlocks (u16 b 0) (u16 b 2) (u16 b 4) (u16 b 6) (u16 b 8) (u16 b 10) (u16 b 12) (u16 b 14))
    else None
  end.

(* func IPFromString(str string) (IP, error); None = error (or outside the ParseIP model) *)
Definition IPFromString (s : str) : option ip :=
  match ParseIP s with
  | None => None
  | Some b =>
    match To4 b with
    | Some ip4 => IPFromBytes ip4
    | None => IPFromBytes b           (* ip.To16() of a 16-byte address is the address *)
    end
  end.

(* strings.Split(s, "/") *)
Fixpoint split_slash (s : str) (cur : str) : list str :=
  match s with
  | [] => [cur]
  | c :: r => if c =? c_slash then cur :: split_slash r [] else split_slash r (cur ++ [c])
  end.

Fixpoint dec_value (s : str) (acc : Z) : option Z :=
  match s with
  | [] => Some acc
  | c :: r => if is_digit c then dec_value r (acc * 10 + (c - 48)) else None
  end.

(* strconv.Atoi (base 10, optional sign, int64 range); None = error *)
Definition Atoi (s : str) : option Z :=
  let '(neg, ds) :=
    match s with
    | c :: r => if c =? c_plus then (false, r) else if c =? c_minus then (true, r) else (false, s)
    | [] => (false, s)
    end in
  match ds with
  | [] => None
  | _ =>
    match dec_value ds 0 with
    | None => None
    | Some v =>
      if neg then (if 2 ^ 63 <? v then None else Some (- v))
      else (if 2 ^ 63 - 1 <? v then None else Some v)
    end
  end.

(* func PrefixFromString(s string): pointer to Prefix, error; None = error *)
Definition PrefixFromString (s : str) : option pfx :=
  match split_slash s [] with
  | [p0; p1] =>
    match IPFromString p0 with
    | None => None
    | Some a =>
      match Atoi p1 with
      | None => None
      | Some l => Some (mkpfx a (wconv 8 l))
      end
    end
  | _ => None
  end.
