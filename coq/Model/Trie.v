(* C01: executable model of routingtable/trie.go + routingtable/table.go (+ the parts of
   route/route.go and routingtable/locRIB/loc_rib.go that act on the table).

   The model is parametric in
     - the path type P with the test `peq x a` (Go: x.Compare(a) in route.removePath,
       x.Equal(a) in Route.ReplacePath; both are "same path" for the paths the tables hold);
       paths are never nil (AddPath(pfx, nil) is only used by unit tests);
     - a prefix-arithmetic interface (p_equal, p_contains, p_supernet, p_bitAt, p_len), which is
       instantiated with the bit-string functions of Lib/BitPfx.v below (`B...` definitions).
   A Go *node is a `node`; nil is `Nil`. Mutation in place is modelled by returning the new tree.
   node.skip is not modelled: no lookup reads it.  No proofs in this file. *)
From Coq Require Import List Bool Arith ZArith NArith.
From BioVerif Require Import Lib.BitPfx.
Import ListNotations.

Section PathLists.
  Variable P : Type.
  Variable peq : P -> P -> bool.

  (* route.removePath: delete the first element x with x.Compare(a); unchanged if there is none *)
  Fixpoint remove_first (a : P) (ps : list P) : list P :=
    match ps with
    | [] => []
    | x :: r => if peq x a then r else x :: remove_first a r
    end.

  (* Route.ReplacePath: overwrite the first element x with x.Equal(old) by new *)
  Fixpoint subst_first (old new : P) (ps : list P) : list P :=
    match ps with
    | [] => []
    | x :: r => if peq x old then new :: r else x :: subst_first old new r
    end.

  Definition is_nil (ps : list P) : bool := match ps with [] => true | _ => false end.
End PathLists.

Section Trie.
  Variable pfx : Type.
  Variable P : Type.
  Variable peq : P -> P -> bool.
  Variables p_equal p_contains : pfx -> pfx -> bool.
  Variable p_supernet : pfx -> pfx -> pfx.
  Variable p_bitAt : pfx -> nat -> bool.
  Variable p_len : pfx -> nat.

  (* trie.go: type node struct { skip; dummy; route (prefix + paths); l; h } *)
  Inductive node :=
  | Nil
  | Node (p : pfx) (dummy : bool) (paths : list P) (l h : node).

  Definition route := (pfx * list P)%type.

  (* newNode(pfx, path, skip, false) with a non-nil path *)
  Definition newNode (p : pfx) (a : P) : node := Node p false [a] Nil Nil.

  (* node.insertBefore: the new node takes n as its child on the side of n's bit at len(pfx)+1 *)
  Definition insertBefore (n : node) (cp p : pfx) (a : P) : node :=
    if negb (p_bitAt cp (p_len p + 1)) then Node p false [a] n Nil
    else Node p false [a] Nil n.

  (* node.newSuperNode + insertChildren: a dummy node for the common supernet; first the old node
     is placed, then the new one (which overwrites the old one if it lands on the same side) *)
  Definition newSuperNode (n : node) (cp p : pfx) (a : P) : node :=
    let s := p_supernet p cp in
    let lh := if negb (p_bitAt cp (p_len s + 1)) then (n, Nil) else (Nil, n) in
    if negb (p_bitAt p (p_len s + 1)) then Node s true [] (newNode p a) (snd lh)
    else Node s true [] (fst lh) (newNode p a).

  (* node.addPath (with insertLow/insertHigh inlined; a nil child or a nil root gets a new node).
     The boolean is Go's isNew: "a node became non-dummy". *)
  Fixpoint addPath (n : node) (p : pfx) (a : P) : node * bool :=
    match n with
    | Nil => (newNode p a, true)
    | Node cp d ps l h =>
      if p_equal cp p then (Node cp false (ps ++ [a]) l h, d)
      else if negb (p_contains cp p) then
        if p_contains p cp then (insertBefore n cp p a, true)
        else (newSuperNode n cp p a, true)
      else if negb (p_bitAt p (p_len cp + 1)) then
        let (l', isNew) := addPath l p a in (Node cp d ps l' h, isNew)
      else
        let (h', isNew) := addPath h p a in (Node cp d ps l h', isNew)
    end.

  (* node.removePath: the boolean is Go's `final` (the node lost its last path) *)
  Fixpoint removePath (n : node) (p : pfx) (a : P) : node * bool :=
    match n with
    | Nil => (Nil, false)
    | Node cp d ps l h =>
      if p_equal cp p then
        if d then (n, false)
        else
          let ps' := remove_first P peq a ps in
          (Node cp (if is_nil P ps' then true else d) ps' l h, is_nil P ps')
      else if negb (p_bitAt p (p_len cp + 1)) then
        let (l', final) := removePath l p a in (Node cp d ps l' h, final)
      else
        let (h', final) := removePath h p a in (Node cp d ps l h', final)
    end.

  (* node.get: the route of the non-dummy node with exactly this prefix *)
  Fixpoint get (n : node) (q : pfx) : option route :=
    match n with
    | Nil => None
    | Node cp d ps l h =>
      if p_equal cp q then (if d then None else Some (cp, ps))
      else if p_len q <? p_len cp then None
      else if negb (p_bitAt q (p_len cp + 1)) then get l q
      else get h q
    end.

  (* Route.ReplacePath applied to the route found by get (LocRIB.ReplacePath) *)
  Fixpoint substPath (n : node) (q : pfx) (old new : P) : node :=
    match n with
    | Nil => Nil
    | Node cp d ps l h =>
      if p_equal cp q then (if d then n else Node cp d (subst_first P peq old new ps) l h)
      else if p_len q <? p_len cp then n
      else if negb (p_bitAt q (p_len cp + 1)) then Node cp d ps (substPath l q old new) h
      else Node cp d ps l (substPath h q old new)
    end.

  (* node.lpm *)
  Fixpoint lpm (n : node) (q : pfx) : list route :=
    match n with
    | Nil => []
    | Node cp d ps l h =>
      if p_equal cp q && negb d then [(cp, ps)]
      else if negb (p_contains cp q) then []
      else (if d then [] else [(cp, ps)]) ++ lpm l q ++ lpm h q
    end.

  (* node.dump and node.dumpPfxs: pre-order list of the non-dummy nodes *)
  Fixpoint dump (n : node) : list route :=
    match n with
    | Nil => []
    | Node cp d ps l h => (if d then [] else [(cp, ps)]) ++ dump l ++ dump h
    end.

  (* node.getLonger (after fix 47330c15): the topmost node equal to or covered by q; Nil = nil *)
  Fixpoint getLongerNode (n : node) (q : pfx) : node :=
    match n with
    | Nil => Nil
    | Node cp d ps l h =>
      if p_equal cp q || p_contains q cp then n
      else if negb (p_contains cp q) then Nil
      else if negb (p_bitAt q (p_len cp + 1)) then getLongerNode l q
      else getLongerNode h q
    end.

  (* ---- table.go: RoutingTable { routeCount int64; root *node } *)
  Record table := mkT { root : node; count : Z }.

  Definition empty : table := mkT Nil 0%Z.

  Definition t_addPath (t : table) (p : pfx) (a : P) : table :=
    let (r, isNew) := addPath (root t) p a in
    mkT r (if isNew then (count t + 1)%Z else count t).

  Definition t_removePath (t : table) (p : pfx) (a : P) : table :=
    let (r, final) := removePath (root t) p a in
    mkT r (if final then (count t - 1)%Z else count t).

  Definition t_removePaths (t : table) (p : pfx) (ps : list P) : table :=
    fold_left (fun t a => t_removePath t p a) ps t.

  Definition t_get (t : table) (q : pfx) : option route := get (root t) q.

  Definition t_replacePath (t : table) (p : pfx) (a : P) : table :=
    match t_get t p with
    | None => t_addPath t p a
    | Some r => t_addPath (t_removePaths t p (snd r)) p a
    end.

  Definition t_removePfx (t : table) (p : pfx) : table :=
    match t_get t p with
    | None => t
    | Some r => t_removePaths t p (snd r)
    end.

  Definition t_substPath (t : table) (p : pfx) (old new : P) : table :=
    mkT (substPath (root t) p old new) (count t).

  Definition t_lpm (t : table) (q : pfx) : list route := lpm (root t) q.
  Definition t_getLonger (t : table) (q : pfx) : list route := dump (getLongerNode (root t) q).
  Definition t_dump (t : table) : list route := dump (root t).

  (* Operations of a history.  Add/Remove are RoutingTable.AddPath/RemovePath and LocRIB.AddPath/
     RemovePath (which add path selection, i.e. a reordering of the path list, and client
     notification); Replace/RemovePfx are RoutingTable.ReplacePath/RemovePfx; Subst is
     LocRIB.ReplacePath(pfx, old, new). *)
  Inductive op :=
  | Add (p : pfx) (a : P)
  | Remove (p : pfx) (a : P)
  | Replace (p : pfx) (a : P)
  | RemovePfx (p : pfx)
  | Subst (p : pfx) (old new : P).

  Definition step (t : table) (o : op) : table :=
    match o with
    | Add p a => t_addPath t p a
    | Remove p a => t_removePath t p a
    | Replace p a => t_replacePath t p a
    | RemovePfx p => t_removePfx t p
    | Subst p old new => t_substPath t p old new
    end.

  Definition run (ops : list op) : table := fold_left step ops empty.
End Trie.

Arguments Nil {pfx P}.
Arguments Node {pfx P}.

(* ---- the instance the theorems and the correspondence check are about: prefixes = bit strings *)
Section BitTrie.
  Variable P : Type.
  Variable peq : P -> P -> bool.

  Definition bnode := node bits P.
  Definition btable := table bits P.
  Definition bop := op bits P.
  Definition broute := route bits P.

  Definition b_addPath : bnode -> bits -> P -> bnode * bool :=
    addPath bits P beq bcontains lcp bitAt blen.
  Definition b_removePath : bnode -> bits -> P -> bnode * bool :=
    removePath bits P peq beq bitAt blen.
  Definition b_get : bnode -> bits -> option broute := get bits P beq bitAt blen.
  Definition b_substPath : bnode -> bits -> P -> P -> bnode := substPath bits P peq beq bitAt blen.
  Definition b_lpm : bnode -> bits -> list broute := lpm bits P beq bcontains.
  Definition b_dump : bnode -> list broute := dump bits P.
  Definition b_getLongerNode : bnode -> bits -> bnode := getLongerNode bits P beq bcontains bitAt blen.

  Definition b_empty : btable := empty bits P.
  Definition b_step : btable -> bop -> btable := step bits P peq beq bcontains lcp bitAt blen.
  Definition b_run : list bop -> btable := run bits P peq beq bcontains lcp bitAt blen.
  Definition bt_get (t : btable) (q : bits) : option broute := t_get bits P beq bitAt blen t q.
  Definition bt_lpm (t : btable) (q : bits) : list broute := t_lpm bits P beq bcontains t q.
  Definition bt_getLonger (t : btable) (q : bits) : list broute :=
    t_getLonger bits P beq bcontains bitAt blen t q.
  Definition bt_dump (t : btable) : list broute := t_dump bits P t.
  Definition bt_count (t : btable) : Z := count bits P t.
End BitTrie.
