(* C24: executable model of BGP connection collision handling in protocols/bgp/server
   (peer.go: collisionHandling / shouldCeaseOnCollision / isOpenConfirmState / isEstablishedState,
    fsm_open_sent.go: openMsgReceived, fsm.go: the loop in FSM.run, FSM.cease,
    fsm_open_confirm.go / fsm_established.go: keepaliveReceived, cease, establishedState.run's prologue).

   One peer with (up to) two FSM instances: index false = the outgoing connection's FSM (peer.fsms[0]),
   index true = the FSM incomingConnectionWorker appends for an accepted connection.

   Granularity = what the code makes atomic:
     - a state's handler runs from its select to the return of run() in one piece (it only touches its own
       FSM, except for collisionHandling, which reads the OTHER FSM's published state under fsmsMu/stateMu);
     - FSM.run() stores the returned state afterwards:  next, reason := fsm.state.run(); ...; fsm.state = next.
       Until then collisionHandling of the other FSM still sees the old state ([pend] = returned, not stored);
     - FSM.cease() is a send on the target's unbuffered eventCh, made while collisionHandling holds fsmsMu: the
       caller is blocked ([waiting]) until the target's select takes the event ([LTake]); a select with several
       ready channels may take a KEEPALIVE first; the target's handler ([LHandle]) then runs concurrently
       with the caller's continuation;
     - an FSM whose run() returns the Cease state ends without storing it: [alive] = false, [pub] stays.

   No proofs in this file. *)
From Coq Require Import List NArith Bool.
Import ListNotations.

Inductive fstate := Absent | Idle | Connect | Active | OpenSent | OpenConfirm | Established.

Inductive msg := MOpen | MKeepalive | MNotif (code sub : N).

Definition cease_notification : msg := MNotif 6 0.          (* packet.Cease, subcode 0 *)
Definition bad_bgp_identifier : msg := MNotif 2 3.          (* OpenMessageError / BadBGPIdentifier *)

Record inst := mkinst {
  pub : fstate;            (* fsm.state, what the other FSM's collisionHandling (and the metrics) read *)
  pend : option fstate;    (* run() returned this state, FSM.run() has not stored it yet *)
  alive : bool;            (* FSM.run() has not returned *)
  nid : N;                 (* fsm.neighborID *)
  attached : bool;         (* fsm.ribsInitialized: Adj-RIB-In registered with the Loc-RIB *)
  wire : list msg;         (* messages written on the connection, NEWEST FIRST *)
  closed : bool;           (* con.Close() called *)
  waiting : bool;          (* inside collisionHandling, blocked in cease() of the other FSM *)
  ceasing : bool           (* its select took a Cease event; the handler has not run yet *)
}.

Record cfg := mkcfg { rid : N; las : N; pas : N }.   (* peer.routerID, peer.localASN, peer.peerASN *)

Record peer := mkpeer { pc : cfg; f0 : inst; f1 : inst }.

Definition idx := bool.
Definition get (p : peer) (i : idx) : inst := if i then f1 p else f0 p.
Definition set (p : peer) (i : idx) (f : inst) : peer :=
  if i then mkpeer (pc p) (f0 p) f else mkpeer (pc p) f (f1 p).

Definition is_established (s : fstate) : bool := match s with Established => true | _ => false end.
Definition is_open_confirm (s : fstate) : bool := match s with OpenConfirm => true | _ => false end.
Definition is_open_sent (s : fstate) : bool := match s with OpenSent => true | _ => false end.
Definition is_connect (s : fstate) : bool := match s with Connect => true | _ => false end.
Definition is_absent (s : fstate) : bool := match s with Absent => true | _ => false end.
Definition is_none {A} (o : option A) : bool := match o with None => true | Some _ => false end.

(* peer.shouldCeaseOnCollision(callingFSM): "cease the OTHER (OpenConfirm) connection" *)
Definition should_cease_on_collision (c : cfg) (neighbor : N) : bool :=
  if N.eqb (rid c) neighbor then N.ltb (las c) (pas c) else N.ltb (rid c) neighbor.

Inductive ch_outcome :=
| ChPass                 (* collisionHandling returns false *)
| ChCeaseSelf            (* collisionHandling returns true *)
| ChCease (j : idx).     (* fsms[j].cease() is called; the loop goes on behind j once the event was taken *)

(* the loop of peer.collisionHandling over (a suffix of) peer.fsms *)
Fixpoint coll_loop (c : cfg) (me : idx) (neighbor : N) (es : list (idx * inst)) : ch_outcome :=
  match es with
  | [] => ChPass
  | (j, f) :: rest =>
    if Bool.eqb j me then coll_loop c me neighbor rest
    else if is_established (pub f) then ChCeaseSelf
    else if negb (is_open_confirm (pub f)) then coll_loop c me neighbor rest
    else if should_cease_on_collision c neighbor then ChCease j
    else ChCeaseSelf
  end.

(* peer.fsms; an FSM that does not exist yet is in no state the loop reacts to *)
Definition entries (p : peer) : list (idx * inst) := [(false, f0 p); (true, f1 p)].
Definition entries_after (p : peer) (j : idx) : list (idx * inst) :=
  if j then [] else [(true, f1 p)].

Definition fresh : inst := mkinst Absent None false 0 false [] false false false.

(* the FSM's goroutine sits in the select of its published state *)
Definition ready (f : inst) : bool :=
  alive f && is_none (pend f) && negb (waiting f) && negb (ceasing f).

Definition with_pend (f : inst) (s : fstate) : inst :=
  mkinst (pub f) (Some s) (alive f) (nid f) (attached f) (wire f) (closed f) (waiting f) (ceasing f).
Definition with_nid (f : inst) (n : N) : inst :=
  mkinst (pub f) (pend f) (alive f) n (attached f) (wire f) (closed f) (waiting f) (ceasing f).
Definition send (f : inst) (m : msg) : inst :=
  mkinst (pub f) (pend f) (alive f) (nid f) (attached f) (m :: wire f) (closed f) (waiting f) (ceasing f).
Definition close (f : inst) : inst :=
  mkinst (pub f) (pend f) (alive f) (nid f) (attached f) (wire f) true (waiting f) (ceasing f).
Definition ended (f : inst) : inst :=           (* run() returned the Cease state: FSM.run() returns *)
  mkinst (pub f) None false (nid f) (attached f) (wire f) (closed f) false false.
Definition with_waiting (f : inst) (b : bool) : inst :=
  mkinst (pub f) (pend f) (alive f) (nid f) (attached f) (wire f) (closed f) b (ceasing f).
Definition with_ceasing (f : inst) (b : bool) : inst :=
  mkinst (pub f) (pend f) (alive f) (nid f) (attached f) (wire f) (closed f) (waiting f) b.
Definition with_attached (f : inst) (b : bool) : inst :=
  mkinst (pub f) (pend f) (alive f) (nid f) b (wire f) (closed f) (waiting f) (ceasing f).

(* openSentState.cease / openConfirmState.cease: NOTIFICATION(Cease), Close, Cease state *)
Definition cease_self (f : inst) : inst := ended (close (send f cease_notification)).

(* what follows collisionHandling == false in openMsgReceived: KEEPALIVE, handleOpenMessage (the OPEN
   carries the configured peer AS and no role) -> OpenConfirm *)
Definition open_accepted (f : inst) : inst := with_pend (send f MKeepalive) OpenConfirm.

(* the caller's side of an outcome of (the rest of) the collision loop *)
Definition after_check (f : inst) (o : ch_outcome) : inst :=
  match o with
  | ChPass => open_accepted f
  | ChCeaseSelf => cease_self f
  | ChCease _ => with_waiting f true
  end.

Inductive label :=
| LUp                      (* the outgoing FSM's dial succeeded: Connect -> OPEN sent, OpenSent stored *)
| LAccept                  (* incomingConnectionWorker: new FSM appended, connection handed over, OPEN sent, OpenSent stored *)
| LOpen (i : idx) (id : N) (* openSentState: the peer's OPEN (BGP identifier id) is received and processed *)
| LPublish (i : idx)       (* FSM.run(): fsm.state = next; next.run() up to its select *)
| LKeep (i : idx)          (* openConfirmState / establishedState: a KEEPALIVE is received *)
| LTake (j : idx)          (* FSM j's select takes the Cease event the other FSM is sending *)
| LHandle (j : idx).       (* FSM j's Cease handler runs *)

Definition step (p : peer) (l : label) : option peer :=
  match l with
  | LUp =>
    let f := f0 p in
    if ready f && is_connect (pub f)
    then Some (set p false (mkinst OpenSent None true (nid f) false (MOpen :: wire f) false false false))
    else None
  | LAccept =>
    if is_absent (pub (f1 p))
    then Some (set p true (mkinst OpenSent None true 0 false [MOpen] false false false))
    else None
  | LOpen i id =>
    let f := get p i in
    if ready f && is_open_sent (pub f) then
      let f' := with_nid f id in
      if N.eqb (las (pc p)) (pas (pc p)) && N.eqb (rid (pc p)) id
      then Some (set p i (with_pend (close (send f' bad_bgp_identifier)) Idle))
      else
        let p' := set p i f' in
        Some (set p i (after_check f' (coll_loop (pc p) i id (entries p'))))
    else None
  | LPublish i =>
    let f := get p i in
    match pend f with
    | Some s =>
      if alive f
      then Some (set p i (mkinst s None true (nid f) (attached f || is_established s) (wire f) (closed f)
                                 (waiting f) (ceasing f)))
      else None
    | None => None
    end
  | LKeep i =>
    let f := get p i in
    if ready f && (is_open_confirm (pub f) || is_established (pub f))
    then Some (set p i (with_pend f Established))
    else None
  | LTake j =>
    let f := get p j in
    let g := get p (negb j) in
    if waiting g && ready f && (is_open_sent (pub f) || is_open_confirm (pub f) || is_established (pub f)) then
      (* j is now inside its handler; cease() returns in the caller, whose loop goes on behind j *)
      let p1 := set p j (with_ceasing f true) in
      let g' := with_waiting g false in
      Some (set p1 (negb j) (after_check g' (coll_loop (pc p) (negb j) (nid g) (entries_after p1 j))))
    else None
  | LHandle j =>
    let f := get p j in
    if alive f && ceasing f
    then Some (set p j (ended (close (send (with_attached f (attached f && negb (is_established (pub f))))
                                           cease_notification))))
    else None
  end.

Fixpoint run (p : peer) (ls : list label) : option peer :=
  match ls with
  | [] => Some p
  | l :: ls' => match step p l with Some p' => run p' ls' | None => None end
  end.

(* start: the outgoing FSM was started (Idle -> AutomaticStart -> Connect), no connection accepted yet *)
Definition init (c : cfg) : peer :=
  mkpeer c (mkinst Connect None true 0 false [] false false false) fresh.

(* observables *)
Definition established_live (f : inst) : bool := alive f && is_established (pub f).
Definition est (f : inst) : bool := established_live f || attached f.   (* Established and/or contributing routes *)
Definition held (p : peer) (j : idx) : bool := waiting (get p (negb j)).   (* a Cease event is in flight to j *)
Definition rib_clients (p : peer) : N :=
  (if attached (f0 p) then 1 else 0) + (if attached (f1 p) then 1 else 0).
Definition probe_ok (f : inst) : bool := ready f && is_established (pub f).
