(* C14 <-> C15 link, definitions only: the policy engine of Model/Policy.v instantiated with the
   net.Prefix methods REGENERATED from the Go source (Gen/NetGen.v, written by tools/gosub2coq on
   every run) instead of the hand transcription in Model/Policy.v. *)
From Coq Require Import ZArith NArith Bool List.
From BioVerif Require Import Lib.Word Model.NetArith Gen.NetGen Model.Policy.

(* the same address / prefix in C15's representation (machine words as Z) *)
Definition to_net_ip (a : Policy.ip) : NetArith.ip :=
  NetArith.mkip (Z.of_N (ip_hi a)) (Z.of_N (ip_lo a)) (ip_v4 a).
Definition to_net_pfx (p : Policy.prefix) : NetArith.pfx :=
  NetArith.mkpfx (to_net_ip (pf_addr p)) (Z.of_N (pf_len p)).

(* Prefix.Equal / Prefix.Contains (pointer receivers) as generated from net/prefix.go *)
Definition gen_equal (p x : Policy.prefix) : bool := g_Prefix_Equal (to_net_pfx p) (to_net_pfx x).
Definition gen_contains (p x : Policy.prefix) : bool := g_Prefix_Contains (to_net_pfx p) (to_net_pfx x).

Definition matcher_match_gen : matcher -> Policy.prefix -> Policy.prefix -> bool :=
  matcher_match_w gen_equal gen_contains.

(* Chain.Process with route-filter / prefix-list matchers computed by the generated net functions *)
Definition process_gen : penv -> chain -> Policy.prefix -> store -> nat -> res (store * nat * bool) :=
  process_w matcher_match_gen.
