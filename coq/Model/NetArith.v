(* C15: executable model of the prefix / address arithmetic of /repo/net/prefix.go and
   /repo/net/ip.go, transcribed function by function and statement by statement.
   uint8 / uint32 / uint64 values are integers in Z; every operation that can wrap in Go
   wraps here (Lib/Word.v); a shift whose count is >= the width of the shifted type gives 0.
   No proofs in this file. *)
From Coq Require Import ZArith Bool List.
From BioVerif Require Import Lib.Word.
Import ListNotations.
Open Scope Z_scope.

(* type IP struct { higher uint64; lower uint64; isLegacy bool } *)
Record ip := mkip { hi : Z; lo : Z; legacy : bool }.
(* type Prefix struct { addr IP; len uint8 } *)
Record pfx := mkpfx { addr : ip; plen : Z }.

(* func IPv4(val uint32) IP *)
Definition IPv4 (val : Z) : ip := mkip 0 (wconv 64 val) true.
(* func IPv6(higher, lower uint64) IP *)
Definition IPv6 (h l : Z) : ip := mkip h l false.
(* func NewPfx(addr IP, len uint8) Prefix *)
Definition NewPfx (a : ip) (l : Z) : pfx := mkpfx a l.

(* func IPv4FromOctets(o1, o2, o3, o4 uint8) IP
     return IPv4(uint32(o1)<<24 + uint32(o2)<<16 + uint32(o3)<<8 + uint32(o4)) *)
Definition IPv4FromOctets (o1 o2 o3 o4 : Z) : ip :=
  IPv4 (wadd 32 (wadd 32 (wadd 32 (wshl 32 o1 24) (wshl 32 o2 16)) (wshl 32 o3 8)) o4).

(* func IPv6FromBlocks(b1..b8 uint16) IP *)
Definition blocks64 (b1 b2 b3 b4 : Z) : Z :=
  wadd 64 (wadd 64 (wadd 64 (wshl 64 b1 48) (wshl 64 b2 32)) (wshl 64 b3 16)) b4.
Definition IPv6FromBlocks (b1 b2 b3 b4 b5 b6 b7 b8 : Z) : ip :=
  IPv6 (blocks64 b1 b2 b3 b4) (blocks64 b5 b6 b7 b8).

(* func (ip IP) ToUint32() uint32 { return uint32(^uint64(0) >> 32 & ip.lower) } *)
Definition ToUint32 (a : ip) : Z :=
  wconv 32 (wand (wshr 64 (maxu 64) 32) (lo a)).

(* func (ip *IP) Equal(other IP) bool { return *ip == other } *)
Definition ip_equal (a b : ip) : bool :=
  (hi a =? hi b) && (lo a =? lo b) && Bool.eqb (legacy a) (legacy b).

(* func (ip *IP) Compare(other *IP) int8 *)
Definition ip_compare (a b : ip) : Z :=
  if hi b <? hi a then 1
  else if hi a <? hi b then -1
  else if lo b <? lo a then 1
  else if lo a <? lo b then -1
  else 0.

(* func (ip IP) bitAtPositionIPv4(pos uint8) bool *)
Definition bitAtPositionIPv4 (a : ip) (pos : Z) : bool :=
  if 32 <? pos then false
  else negb (wand (ToUint32 a) (wshl 32 1 (wsub 8 32 pos)) =? 0).

(* func (ip IP) bitAtPositionIPv6(pos uint8) bool *)
Definition bitAtPositionIPv6 (a : ip) (pos : Z) : bool :=
  if 128 <? pos then false
  else if pos <=? 64 then negb (wand (hi a) (wshl 64 1 (wsub 8 64 pos)) =? 0)
  else negb (wand (lo a) (wshl 64 1 (wsub 8 128 pos)) =? 0).

(* func (ip IP) BitAtPosition(pos uint8) bool *)
Definition BitAtPosition (a : ip) (pos : Z) : bool :=
  if legacy a then bitAtPositionIPv4 a pos else bitAtPositionIPv6 a pos.

(* func (ip IP) maskLastNBitsIPv4(n uint8) IP *)
Definition maskLastNBitsIPv4 (a : ip) (n : Z) : ip :=
  let mask := wshl 64 (maxu 64) n in
  mkip (hi a) (wand (lo a) mask) (legacy a).

(* func (ip IP) maskLastNBitsIPv6(n uint8) IP
     maskBitsLow := uint8(bmath.Min(int(n), 64)); maskBitsHigh := uint8(bmath.Max(int(n)-64, 0)) *)
Definition maskLastNBitsIPv6 (a : ip) (n : Z) : ip :=
  let maskBitsLow := wconv 8 (Z.min n 64) in
  let maskBitsHigh := wconv 8 (Z.max (n - 64) 0) in
  let maskLow := wshl 64 (maxu 64) maskBitsLow in
  let maskHigh := wshl 64 (maxu 64) maskBitsHigh in
  mkip (wand (hi a) maskHigh) (wand (lo a) maskLow) (legacy a).

(* func (ip *IP) MaskLastNBits(n uint8) IP *)
Definition MaskLastNBits (a : ip) (n : Z) : ip :=
  if legacy a then maskLastNBitsIPv4 a n else maskLastNBitsIPv6 a n.

(* func (pfx *Prefix) containsIPv4(x *Prefix) bool
     mask := uint32((math.MaxUint32 << (32 - pfx.len))) *)
Definition containsIPv4 (p x : pfx) : bool :=
  let mask := wshl 32 (maxu 32) (wsub 8 32 (plen p)) in
  wand (ToUint32 (addr p)) mask =? wand (ToUint32 (addr x)) mask.

(* func (pfx *Prefix) containsIPv6(x *Prefix) bool *)
Definition containsIPv6 (p x : pfx) : bool :=
  let '(maskHigh, maskLow) :=
    if plen p <=? 64
    then (wshl 64 (maxu 64) (wsub 8 64 (plen p)), 0)
    else (maxu 64, wshl 64 (maxu 64) (wsub 8 128 (plen p))) in
  (wand (hi (addr p)) maskHigh =? wand (hi (addr x)) maskHigh) &&
  (wand (lo (addr p)) maskLow =? wand (lo (addr x)) maskLow).

(* func (pfx *Prefix) Contains(x *Prefix) bool *)
Definition Contains (p x : pfx) : bool :=
  if negb (Bool.eqb (legacy (addr p)) (legacy (addr x))) then false
  else if plen x <=? plen p then false
  else if legacy (addr p) then containsIPv4 p x
  else containsIPv6 p x.

(* func (pfx *Prefix) Equal(x *Prefix) bool *)
Definition pfx_equal (p x : pfx) : bool :=
  ip_equal (addr p) (addr x) && (plen p =? plen x).

(* func (pfx *Prefix) supernetIPv4(x *Prefix) Prefix
     for i := 0; a != b; i++ { a = a >> 1; b = b >> 1; maxPfxLen-- }
   The loop is a fuelled function; None = out of fuel (excluded by supernetIPv4_total). *)
Fixpoint supernet4_loop (fuel : nat) (a b maxPfxLen : Z) : option (Z * Z) :=
  match fuel with
  | O => None
  | S f =>
    if a =? b then Some (a, maxPfxLen)
    else supernet4_loop f (wshr 32 a 1) (wshr 32 b 1) (wsub 8 maxPfxLen 1)
  end.

Definition supernetIPv4 (p x : pfx) : option pfx :=
  let maxPfxLen := wsub 8 (wminu (plen p) (plen x)) 1 in
  let a := wshr 32 (ToUint32 (addr p)) (wsub 8 32 maxPfxLen) in
  let b := wshr 32 (ToUint32 (addr x)) (wsub 8 32 maxPfxLen) in
  match supernet4_loop 34 a b maxPfxLen with
  | None => None
  | Some (a', maxPfxLen') =>
    Some (mkpfx (IPv4 (wshl 32 a' (wsub 8 32 maxPfxLen'))) maxPfxLen')
  end.

(* func (pfx *Prefix) supernetIPv6(x *Prefix) Prefix
     for a == b && pfxLen < maxPfxLen {
       a = pfx.addr.BitAtPosition(pfxLen + 2); b = x.addr.BitAtPosition(pfxLen + 2); pfxLen++
       if pfxLen == 64 { mask = 0 }
       m := pfxLen % 64
       mask = mask + uint64(1)<<(64-m) } *)
Fixpoint supernet6_loop (fuel : nat) (pa xa : ip) (maxPfxLen : Z) (a b : bool) (pfxLen mask : Z)
  : option (Z * Z) :=
  match fuel with
  | O => None
  | S f =>
    if Bool.eqb a b && (pfxLen <? maxPfxLen) then
      let a' := BitAtPosition pa (wadd 8 pfxLen 2) in
      let b' := BitAtPosition xa (wadd 8 pfxLen 2) in
      let pfxLen' := wadd 8 pfxLen 1 in
      let mask1 := if pfxLen' =? 64 then 0 else mask in
      let m := pfxLen' mod 64 in
      let mask' := wadd 64 mask1 (wshl 64 1 (wsub 8 64 m)) in
      supernet6_loop f pa xa maxPfxLen a' b' pfxLen' mask'
    else Some (pfxLen, mask)
  end.

Definition supernetIPv6 (p x : pfx) : option pfx :=
  let maxPfxLen := wminu (plen p) (plen x) in
  let a := BitAtPosition (addr p) 1 in
  let b := BitAtPosition (addr x) 1 in
  match supernet6_loop 257 (addr p) (addr x) maxPfxLen a b 0 0 with
  | None => None
  | Some (pfxLen, mask) =>
    if pfxLen =? 0 then Some (NewPfx (IPv6 0 0) pfxLen)
    else if 64 <=? pfxLen
    then Some (NewPfx (IPv6 (hi (addr p)) (wand (lo (addr p)) mask)) pfxLen)
    else Some (NewPfx (IPv6 (wand (hi (addr p)) mask) 0) pfxLen)
  end.

(* func (pfx *Prefix) GetSupernet(x *Prefix) Prefix *)
Definition GetSupernet (p x : pfx) : option pfx :=
  if legacy (addr p) then supernetIPv4 p x else supernetIPv6 p x.

(* func checkLastNBitsUint32(x uint32, n uint8) bool { return x<<(32-n) == 0 } *)
Definition checkLastNBitsUint32 (x n : Z) : bool := wshl 32 x (wsub 8 32 n) =? 0.
(* func checkLastNBitsUint64(x uint64, n uint8) bool { return x<<(64-n) == 0 } *)
Definition checkLastNBitsUint64 (x n : Z) : bool := wshl 64 x (wsub 8 64 n) =? 0.

(* func (p *Prefix) Valid() bool *)
Definition Valid (p : pfx) : bool :=
  if legacy (addr p) then
    checkLastNBitsUint32 (wconv 32 (lo (addr p))) (wsub 8 32 (plen p))
  else if plen p <=? 64 then
    if negb (lo (addr p) =? 0) then false
    else checkLastNBitsUint64 (hi (addr p)) (wsub 8 64 (plen p))
  else checkLastNBitsUint64 (lo (addr p)) (wsub 8 64 (wsub 8 (plen p) 64)).

(* func (p *Prefix) baseAddr4() IP *)
Definition baseAddr4 (p : pfx) : ip :=
  let a := addr p in
  let l1 := wshr 64 (lo a) (wsub 8 32 (plen p)) in
  let l2 := wshl 64 l1 (wsub 8 32 (plen p)) in
  mkip (hi a) l2 (legacy a).

(* func (p *Prefix) baseAddr6() IP *)
Definition baseAddr6 (p : pfx) : ip :=
  let a := addr p in
  if plen p <=? 64 then
    let h1 := wshr 64 (hi a) (wsub 8 64 (plen p)) in
    let h2 := wshl 64 h1 (wsub 8 64 (plen p)) in
    mkip h2 0 (legacy a)
  else
    let l1 := wshr 64 (lo a) (wsub 8 128 (plen p)) in
    let l2 := wshl 64 l1 (wsub 8 128 (plen p)) in
    mkip (hi a) l2 (legacy a).

(* func (p *Prefix) BaseAddr() IP *)
Definition BaseAddr (p : pfx) : ip :=
  if legacy (addr p) then baseAddr4 p else baseAddr6 p.

(* func BytesInAddr(pfxlen uint8) uint8 { return uint8(math.Ceil(float64(pfxlen) / 8)) }
   float64 represents every k/8 with k < 256 exactly, so Ceil is the integer ceiling. *)
Definition BytesInAddr (pfxlen : Z) : Z := wconv 8 ((pfxlen + 7) / 8).
