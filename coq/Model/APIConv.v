(* C34: executable model of the route <-> API (protobuf) conversion:
     route/route.go     Route.ToProto, RouteFromProtoRoute, hiddenReasonFromProto
     route/path.go      Path.ToProto
     route/bgp_path.go  BGPPath.ToProto, BGPPathFromProtoBGPPath
     route/static.go    StaticPath.ToProto, StaticPathFromProtoStaticPath
     net/ip.go, net/prefix.go, protocols/bgp/types/{as_path,large_community,unknown_attribute}.go

   Go pointers that the code tests for nil or dereferences are `option`s; dereferencing nil is the
   explicit outcome Panic.  Pointers to slices (e.g. the Communities field) are `option (list _)`:
   None = nil pointer, Some [] = pointer to an empty slice.  Slices themselves (repeated fields of
   the API messages, UnknownAttributes, ASNs, Value) are lists: nil and empty are identified, the
   code only looks at len().  Numbers are N; a narrowing Go conversion uint8(x)/uint16(x) is
   `mod 2^8`/`mod 2^16`, widening conversions are the identity.  IP.Ptr(), Dedup() and the
   attribute cache return an equal value and are the identity here.
   Fields of route.Path / BGPPathA the API has no field for (RedistributedFrom, Aggregator,
   AtomicAggregate, FIBPath) are carried in the records to show that they do not come back. *)
From Coq Require Import List NArith Bool.
Import ListNotations.
Open Scope N_scope.

Inductive result (A : Type) := Ok (a : A) | Panic.
Arguments Ok {A} a.
Arguments Panic {A}.

Definition bind {A B} (r : result A) (f : A -> result B) : result B :=
  match r with Ok a => f a | Panic => Panic end.

Fixpoint mapM {A B} (f : A -> result B) (l : list A) : result (list B) :=
  match l with
  | [] => Ok []
  | x :: r => bind (f x) (fun y => bind (mapM f r) (fun ys => Ok (y :: ys)))
  end.

(* ---- bio-rd side *)
Record ip := mkIP { ip_hi : N; ip_lo : N; ip_legacy : bool }.
Record prefix := mkPfx { pfx_addr : ip; pfx_len : N }.
Record segment := mkSeg { seg_type : N; seg_asns : list N }.
Record lcomm := mkLC { lc_ga : N; lc_d1 : N; lc_d2 : N }.
Record unknown_attr := mkUA {
  ua_optional : bool; ua_transitive : bool; ua_partial : bool; ua_code : N; ua_value : list N }.

Record bgp_path_a := mkA {
  a_nexthop : option ip; a_source : option ip;
  a_localpref : N; a_med : N; a_bgpid : N; a_origid : N;
  a_aggregator : option (N * N);      (* no API field *)
  a_ebgp : bool;
  a_atomic : bool;                    (* no API field *)
  a_origin : N; a_otc : N }.

Record bgp_path := mkB {
  b_a : option bgp_path_a;
  b_aspath : option (list segment);
  b_cluster : option (list N);
  b_comms : option (list N);
  b_lcomms : option (list lcomm);
  b_unknown : list unknown_attr;
  b_pathid : N;
  b_aspathlen : N;
  b_postpolicy : bool }.

Record static_path := mkS { s_nexthop : option ip }.

Record path := mkPath {
  p_type : N;
  p_redist : N;                       (* no API field *)
  p_hidden : N;
  p_ltime : N;
  p_static : option static_path;
  p_bgp : option bgp_path }.

Record route := mkR { r_pfx : option prefix; r_paths : list path }.

Definition StaticPathType : N := 1.
Definition BGPPathType : N := 2.
Definition ASSet : N := 1.
Definition ASSequence : N := 2.

(* ---- API side (route/api/route.proto, net/api/net.proto) *)
Record api_ip := mkAIP { aip_higher : N; aip_lower : N; aip_version : N }. (* IPv4 = 0, IPv6 = 1 *)
Record api_prefix := mkAPfx { apfx_addr : option api_ip; apfx_len : N }.
Record api_seg := mkASeg { aseg_seq : bool; aseg_asns : list N }.
Record api_lcomm := mkALC { alc_ga : N; alc_d1 : N; alc_d2 : N }.
Record api_unknown := mkAUA {
  aua_optional : bool; aua_transitive : bool; aua_partial : bool; aua_code : N; aua_value : list N }.
Record api_bgp := mkAB {
  ab_pathid : N; ab_nexthop : option api_ip; ab_localpref : N; ab_aspath : list api_seg;
  ab_origin : N; ab_med : N; ab_ebgp : bool; ab_bgpid : N; ab_source : option api_ip;
  ab_comms : list N; ab_lcomms : list api_lcomm; ab_origid : N; ab_cluster : list N;
  ab_unknown : list api_unknown; ab_postpolicy : bool; ab_otc : N }.
Record api_static := mkAS { as_nexthop : option api_ip }.
Record api_path := mkAP {
  ap_type : N;                        (* Static = 0, BGP = 1 *)
  ap_static : option api_static; ap_bgp : option api_bgp;
  ap_hidden : N; ap_ltime : N }.
Record api_route := mkAR { ar_pfx : option api_prefix; ar_paths : list api_path }.

Definition Path_Static : N := 0.
Definition Path_BGP : N := 1.

(* ================================================================== to the API *)
Definition ip_to_proto (a : ip) : api_ip :=
  mkAIP (ip_hi a) (ip_lo a) (if ip_legacy a then 0 else 1).

Definition prefix_to_proto (p : prefix) : api_prefix :=
  mkAPfx (Some (ip_to_proto (pfx_addr p))) (pfx_len p).

Definition seg_to_proto (s : segment) : api_seg :=
  mkASeg (N.eqb (seg_type s) ASSequence) (seg_asns s).

Definition lcomm_to_proto (c : lcomm) : api_lcomm := mkALC (lc_ga c) (lc_d1 c) (lc_d2 c).

Definition unknown_to_proto (u : unknown_attr) : api_unknown :=
  mkAUA (ua_optional u) (ua_transitive u) (ua_partial u) (ua_code u) (ua_value u).

Definition olist {A} (o : option (list A)) : list A := match o with Some l => l | None => [] end.

(* BGPPath.ToProto (receiver non-nil) *)
Definition bgp_to_proto (b : bgp_path) : api_bgp :=
  let a := b_a b in
  mkAB (b_pathid b)
       (match a with Some x => option_map ip_to_proto (a_nexthop x) | None => None end)
       (match a with Some x => a_localpref x | None => 0 end)
       (map seg_to_proto (olist (b_aspath b)))
       (match a with Some x => a_origin x | None => 0 end)
       (match a with Some x => a_med x | None => 0 end)
       (match a with Some x => a_ebgp x | None => false end)
       (match a with Some x => a_bgpid x | None => 0 end)
       (match a with Some x => option_map ip_to_proto (a_source x) | None => None end)
       (olist (b_comms b))
       (map lcomm_to_proto (olist (b_lcomms b)))
       (match a with Some x => a_origid x | None => 0 end)
       (olist (b_cluster b))
       (map unknown_to_proto (b_unknown b))
       (b_postpolicy b)
       (match a with Some x => a_otc x | None => 0 end).

(* StaticPath.ToProto (receiver non-nil): s.NextHop.ToProto() has a value receiver *)
Definition static_to_proto (s : static_path) : result api_static :=
  match s_nexthop s with
  | Some nh => Ok (mkAS (Some (ip_to_proto nh)))
  | None => Panic
  end.

(* the switch over p.HiddenReason in Path.ToProto: seven cases, no default *)
Definition hidden_to_proto (h : N) : N := if h <=? 6 then h else 0.

(* the switch over p.Type in Path.ToProto: two cases, no default (zero value = Static) *)
Definition type_to_proto (t : N) : N := if t =? BGPPathType then Path_BGP else Path_Static.

Definition path_to_proto (p : path) : result api_path :=
  bind (match p_static p with
        | Some s => bind (static_to_proto s) (fun x => Ok (Some x))
        | None => Ok None
        end)
       (fun st =>
          Ok (mkAP (type_to_proto (p_type p)) st (option_map bgp_to_proto (p_bgp p))
                   (hidden_to_proto (p_hidden p)) (p_ltime p))).

(* Route.ToProto: r.pfx.ToProto() has a value receiver *)
Definition to_proto (r : route) : result api_route :=
  match r_pfx r with
  | None => Panic
  | Some pf => bind (mapM path_to_proto (r_paths r)) (fun ps => Ok (mkAR (Some (prefix_to_proto pf)) ps))
  end.

(* ================================================================== from the API *)
Definition ip_from_proto (a : option api_ip) : result ip :=
  match a with
  | Some x => Ok (mkIP (aip_higher x) (aip_lower x) (N.eqb (aip_version x) 0))
  | None => Panic
  end.

Definition prefix_from_proto (p : option api_prefix) : result prefix :=
  match p with
  | Some x => bind (ip_from_proto (apfx_addr x)) (fun a => Ok (mkPfx a (apfx_len x mod 256)))
  | None => Panic
  end.

Definition seg_from_proto (s : api_seg) : segment :=
  mkSeg (if aseg_seq s then ASSequence else ASSet) (aseg_asns s).

Definition lcomm_from_proto (c : api_lcomm) : lcomm := mkLC (alc_ga c) (alc_d1 c) (alc_d2 c).

Definition unknown_from_proto (u : api_unknown) : unknown_attr :=
  mkUA (aua_optional u) (aua_transitive u) (aua_partial u) (aua_code u mod 256) (aua_value u).

(* ASPath.Length: uint16 counter *)
Fixpoint aspath_count (l : list segment) : N :=
  match l with
  | [] => 0
  | s :: r => (if seg_type s =? ASSet then 1 else N.of_nat (length (seg_asns s))) + aspath_count r
  end.
Definition aspath_length (l : list segment) : N := aspath_count l mod 65536.

(* `if len(x) > 0 { p.X = &copy }` *)
Definition nonempty {A} (l : list A) : option (list A) :=
  match l with [] => None | _ => Some l end.

(* BGPPathFromProtoBGPPath *)
Definition bgp_from_proto (pb : option api_bgp) : result bgp_path :=
  match pb with
  | None => Panic
  | Some x =>
    let asp := map seg_from_proto (ab_aspath x) in
    bind (ip_from_proto (ab_nexthop x)) (fun nh =>
    bind (ip_from_proto (ab_source x)) (fun src =>
      Ok (mkB (Some (mkA (Some nh) (Some src) (ab_localpref x) (ab_med x) (ab_bgpid x) (ab_origid x)
                         None (ab_ebgp x) false (ab_origin x mod 256) (ab_otc x)))
              (Some asp)
              (nonempty (ab_cluster x))
              (nonempty (ab_comms x))
              (nonempty (map lcomm_from_proto (ab_lcomms x)))
              (map unknown_from_proto (ab_unknown x))
              (ab_pathid x)
              (aspath_length asp)
              (ab_postpolicy x))))
  end.

Definition static_from_proto (ps : option api_static) : result static_path :=
  match ps with
  | None => Panic
  | Some x => bind (ip_from_proto (as_nexthop x)) (fun nh => Ok (mkS (Some nh)))
  end.

(* hiddenReasonFromProto *)
Definition hidden_from_proto (h : N) : N :=
  if h <=? 6 then h else if h <=? 255 then h else 255.

Definition path_from_proto (ap : api_path) : result path :=
  let h := hidden_from_proto (ap_hidden ap) in
  if ap_type ap =? Path_BGP then
    bind (bgp_from_proto (ap_bgp ap)) (fun b => Ok (mkPath BGPPathType 0 h 0 None (Some b)))
  else if ap_type ap =? Path_Static then
    bind (static_from_proto (ap_static ap)) (fun s => Ok (mkPath StaticPathType 0 h 0 (Some s) None))
  else Ok (mkPath 0 0 h 0 None None).

(* RouteFromProtoRoute *)
Definition from_proto (ar : api_route) : result route :=
  bind (prefix_from_proto (ar_pfx ar)) (fun pf =>
  bind (mapM path_from_proto (ar_paths ar)) (fun ps => Ok (mkR (Some pf) ps))).

Definition roundtrip (r : route) : result route := bind (to_proto r) from_proto.

(* ================================================================== histories of conversions
   RouteFromProtoRoute(ar, dedup) is not a function of ar alone: with dedup = true every attribute
   block goes through the process-wide cache of route/bgp_path_cache.go,

       cache map[BGPPathA]*BGPPathA        get(p): if x, ok := cache[*p]; ok { return x }
                                                    cache[*p] = p; return p

   The key is the struct VALUE of the block, and BGPPathA holds its addresses as pointers
   (NextHop, Source *bnet.IP; Aggregator): two keys are equal only if these pointers are equal.
   BGPPathFromProtoBGPPath builds both addresses with IPFromProtoIP(..).Ptr(), i.e. freshly
   allocated.  The model makes this explicit: a heap hands out addresses, a cache key is
   (address of NextHop, address of Source, the remaining fields), the cache is an association list
   from keys to the stored blocks.  Whether a lookup can ever hit is then a theorem
   (Proofs: from_proto_h_stateless), not an assumption. *)
Definition addr := N.

Record ckey := mkCK {
  ck_nh : addr; ck_src : addr;
  ck_localpref : N; ck_med : N; ck_bgpid : N; ck_origid : N;
  ck_agg : option addr;
  ck_ebgp : bool; ck_atomic : bool; ck_origin : N; ck_otc : N }.

Definition opt_addr_eqb (a b : option addr) : bool :=
  match a, b with
  | None, None => true
  | Some x, Some y => x =? y
  | _, _ => false
  end.

(* Go's == on the struct *)
Definition ckey_eqb (a b : ckey) : bool :=
  (ck_nh a =? ck_nh b) && (ck_src a =? ck_src b) &&
  (ck_localpref a =? ck_localpref b) && (ck_med a =? ck_med b) &&
  (ck_bgpid a =? ck_bgpid b) && (ck_origid a =? ck_origid b) &&
  opt_addr_eqb (ck_agg a) (ck_agg b) &&
  Bool.eqb (ck_ebgp a) (ck_ebgp b) && Bool.eqb (ck_atomic a) (ck_atomic b) &&
  (ck_origin a =? ck_origin b) && (ck_otc a =? ck_otc b).

Record heap := mkH {
  h_cache : list (ckey * bgp_path_a);    (* bgpC.cache: key -> the block stored under it *)
  h_next : addr }.                       (* every address >= h_next is unallocated *)

Definition empty_heap : heap := mkH [] 0.

Fixpoint cache_find (k : ckey) (c : list (ckey * bgp_path_a)) : option bgp_path_a :=
  match c with
  | [] => None
  | (k', v) :: r => if ckey_eqb k' k then Some v else cache_find k r
  end.

(* bgpPathACache.get *)
Definition cache_get (k : ckey) (blk : bgp_path_a) (h : heap) : bgp_path_a * heap :=
  match cache_find k (h_cache h) with
  | Some x => (x, h)
  | None => (blk, mkH ((k, blk) :: h_cache h) (h_next h))
  end.

(* computations that allocate / use the cache; a panic keeps the heap reached so far *)
Definition hres (A : Type) : Type := (result A * heap)%type.
Definition hbind {A B} (m : heap -> hres A) (f : A -> heap -> hres B) : heap -> hres B :=
  fun h => match m h with
           | (Ok a, h') => f a h'
           | (Panic, h') => (Panic, h')
           end.
Definition hret {A} (a : A) : heap -> hres A := fun h => (Ok a, h).

Fixpoint mapM_h {A B} (f : A -> heap -> hres B) (l : list A) : heap -> hres (list B) :=
  match l with
  | [] => hret []
  | x :: r => hbind (f x) (fun y => hbind (mapM_h f r) (fun ys => hret (y :: ys)))
  end.

(* bnet.IPFromProtoIP(a).Ptr(): the value and the address of the fresh copy *)
Definition ip_ptr_from_proto (a : option api_ip) : heap -> hres (ip * addr) :=
  fun h => match ip_from_proto a with
           | Ok i => (Ok (i, h_next h), mkH (h_cache h) (h_next h + 1))
           | Panic => (Panic, h)
           end.

(* BGPPathFromProtoBGPPath(pb, dedup) *)
Definition bgp_from_proto_h (dedup : bool) (pb : option api_bgp) : heap -> hres bgp_path :=
  match pb with
  | None => fun h => (Panic, h)
  | Some x =>
    let asp := map seg_from_proto (ab_aspath x) in
    hbind (ip_ptr_from_proto (ab_nexthop x)) (fun nh =>
    hbind (ip_ptr_from_proto (ab_source x)) (fun src => fun h =>
      let blk := mkA (Some (fst nh)) (Some (fst src)) (ab_localpref x) (ab_med x) (ab_bgpid x)
                     (ab_origid x) None (ab_ebgp x) false (ab_origin x mod 256) (ab_otc x) in
      let key := mkCK (snd nh) (snd src) (ab_localpref x) (ab_med x) (ab_bgpid x) (ab_origid x)
                      None (ab_ebgp x) false (ab_origin x mod 256) (ab_otc x) in
      let '(blk', h') := if dedup then cache_get key blk h else (blk, h) in
      (Ok (mkB (Some blk')
               (Some asp)
               (nonempty (ab_cluster x))
               (nonempty (ab_comms x))
               (nonempty (map lcomm_from_proto (ab_lcomms x)))
               (map unknown_from_proto (ab_unknown x))
               (ab_pathid x)
               (aspath_length asp)
               (ab_postpolicy x)), h')))
  end.

Definition path_from_proto_h (dedup : bool) (ap : api_path) : heap -> hres path :=
  let hd := hidden_from_proto (ap_hidden ap) in
  if ap_type ap =? Path_BGP then
    hbind (bgp_from_proto_h dedup (ap_bgp ap)) (fun b => hret (mkPath BGPPathType 0 hd 0 None (Some b)))
  else if ap_type ap =? Path_Static then
    fun h => (bind (static_from_proto (ap_static ap)) (fun s => Ok (mkPath StaticPathType 0 hd 0 (Some s) None)), h)
  else hret (mkPath 0 0 hd 0 None None).

(* RouteFromProtoRoute(ar, dedup) in a given state of the process *)
Definition from_proto_h (dedup : bool) (ar : api_route) : heap -> hres route :=
  fun h => match prefix_from_proto (ar_pfx ar) with
           | Panic => (Panic, h)
           | Ok pf => hbind (mapM_h (path_from_proto_h dedup) (ar_paths ar))
                            (fun ps => hret (mkR (Some pf) ps)) h
           end.

(* one step of a history: r.ToProto() and RouteFromProtoRoute(.., dedup) *)
Definition roundtrip_h (dedup : bool) (r : route) : heap -> hres route :=
  fun h => match to_proto r with
           | Panic => (Panic, h)
           | Ok ar => from_proto_h dedup ar h
           end.

(* a history of conversions in one process: the results, in order *)
Fixpoint run_history (h : heap) (l : list (route * bool)) : list (result route) :=
  match l with
  | [] => []
  | (r, dd) :: rest => let '(res, h') := roundtrip_h dd r h in res :: run_history h' rest
  end.
