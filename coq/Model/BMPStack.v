(* BMPStack: the BMP router model (Model/BMPRouter.v over Model/BMPCodec.v) with its abstract BGP layer
   INSTANTIATED by the verified component models - nothing of them is copied:

     open_decode  :=  Model.BGPCodec.decodeOpen on the OPEN without its 19 byte header
                      (processPeerUpNotification: len(msg) >= MinOpenLen, packet.DecodeOpenMsg(msg[HeaderLen:])),
                      then the capabilities the peer up processing reads (conv_open)
     upd_apply    :=  Model.BGPCodec.decode with the pseudo session's decode options; anything but a decoded
                      UPDATE applies nothing (processRouteMonitoringMsg); the UPDATE is converted
                      (conv_update) to the input of Model.UpdateApply and read NLRI by NLRI with
                      Spec.UpdateApplySpec.message_ops - for IPv4 unicast, then for IPv6 unicast, as
                      establishedState.update calls the two address families (C20_per_nlri: that list IS
                      what UpdateApply.process_update does to the Adj-RIB-In); every Announce / Withdraw
                      becomes the Adj-RIB-In call the BMP router model consumes (uevent_of_op).

   New here: the conversions between the representations
     codec prefix (ip, length)          <-> UpdateApply prefix N (enc_pfx / dec_pfx)  <-> BMPRouter prefix (address, length)
     codec attribute (type, value)       -> UpdateApply attribute (conv_attr; always well typed)
     codec OPEN (parameters, capabilities) -> open_info
     AdjRIBIn path (AS_PATH, ORIGINATOR_ID, CLUSTER_LIST) -> pattrs (what validatePath reads)
   and the allocation of the whole stack (stack_alloc: BMP layer + inner BGP decoder). No proofs here. *)
From Coq Require Import List NArith Bool.
Import ListNotations.
From BioVerif Require Model.BGPCodec Model.AdjRIBIn Model.UpdateApply Spec.UpdateApplySpec.
From BioVerif Require Import Model.BMPCodec Model.BMPRouter.
Open Scope N_scope.


(* ------------------------------------------------------------------ OPEN *)

(* the capabilities of all optional parameters, in order (getCaps) *)
Definition open_caps (o : BGPCodec.open_msg) : list BGPCodec.cap := flat_map BGPCodec.o_caps (BGPCodec.op_params o).

Definition conv_open (o : BGPCodec.open_msg) : open_info :=
  mk_open (BGPCodec.op_asn o) (BGPCodec.op_id o)
    (flat_map (fun c => match BGPCodec.c_val c with BGPCodec.CVASN4 a => [a] | _ => [] end) (open_caps o))
    (flat_map (fun c => match BGPCodec.c_val c with BGPCodec.CVAddPath l => l | _ => [] end) (open_caps o)).

Definition bgp_header_len : nat := 19.
Definition min_open_len : N := 29.

Definition stack_open_decode (b : bytes) : option open_info :=
  if len b <? min_open_len then None
  else
    let body := skipn bgp_header_len b in
    match BGPCodec.decodeOpen (S (length body)) body 0 with
    | (BGPCodec.Ok (BGPCodec.BOpen o) _, _) => Some (conv_open o)
    | _ => None
    end.

(* ------------------------------------------------------------------ UPDATE: codec -> UpdateApply *)

Definition two64s : N := 18446744073709551616.

Definition ip_value (a : BGPCodec.ip) : N :=
  match a with BGPCodec.IP4 v => v | BGPCodec.IP6 hi lo => hi * two64s + lo end.

(* UpdateApply / AdjRIBIn prefixes are numbers: address and length packed; the family is that of the
   attribute / field the prefix comes from *)
Definition enc_pfx (p : BGPCodec.prefix) : AdjRIBIn.pfx := ip_value (BGPCodec.p_ip p) * 256 + BGPCodec.p_len p mod 256.
Definition dec_pfx (n : AdjRIBIn.pfx) : prefix := (n / 256, n mod 256).

Definition conv_nlri (n : BGPCodec.nlri) : UpdateApply.nlri := UpdateApply.mkNLRI (enc_pfx (BGPCodec.n_pfx n)) (BGPCodec.n_id n).

(* the value of every attribute has the Go type the code asserts for its type code (typed = true): the
   decoder model builds the value from the type code *)
Definition conv_attr (a : BGPCodec.attr) : UpdateApply.attr :=
  match BGPCodec.a_type a, BGPCodec.a_val a with
  | 5, BGPCodec.AVU32 v => UpdateApply.ALocalPref true v
  | 4, BGPCodec.AVU32 v => UpdateApply.AMed true v
  | 3, BGPCodec.AVNextHop ip => UpdateApply.ANextHop true (ip_value ip)
  | 2, BGPCodec.AVASPath segs => UpdateApply.AASPath true (flat_map snd segs)
  | 9, BGPCodec.AVU32 v => UpdateApply.AOriginator true v
  | 10, BGPCodec.AVCluster l => UpdateApply.AClusterList true l
  | 14, BGPCodec.AVMPReach afi safi nh nl => UpdateApply.AReach true (UpdateApply.mkReach afi safi (ip_value nh) (map conv_nlri nl))
  | 15, BGPCodec.AVMPUnreach afi safi nl => UpdateApply.AUnreach true (UpdateApply.mkUnreach afi safi (map conv_nlri nl))
  | 6, _ => UpdateApply.ASkipped
  | _, _ => UpdateApply.AIgnored true
  end.

Definition conv_update (u : BGPCodec.update_msg) : UpdateApply.update :=
  UpdateApply.mkUpdate (map conv_nlri (BGPCodec.u_withdrawn u)) (map conv_attr (BGPCodec.u_attrs u)) (map conv_nlri (BGPCodec.u_nlri u)).

(* what AdjRIBIn.validatePath reads of a path *)
Definition pattrs_of (q : AdjRIBIn.path) : pattrs :=
  mk_pa (AdjRIBIn.is_nil (AdjRIBIn.aspath q)) (AdjRIBIn.aspath q) (AdjRIBIn.origid q) (AdjRIBIn.clist q).

Definition uevent_of_op (v6 : bool) (o : AdjRIBIn.op) : list uevent :=
  match o with
  | AdjRIBIn.Announce p q => [UAnn v6 (dec_pfx p) (AdjRIBIn.pid q) (pattrs_of q)]
  | AdjRIBIn.Withdraw p i => [UWdr v6 (dec_pfx p) i]
  | _ => []
  end.

(* establishedState.update: ipv4Unicast.processUpdate, then ipv6Unicast.processUpdate *)
Definition events_of_update (u : UpdateApply.update) : list uevent :=
  flat_map (uevent_of_op false) (UpdateApplySpec.message_ops 1 u) ++ flat_map (uevent_of_op true) (UpdateApplySpec.message_ops 2 u).

(* fsm.decodeOptions of the pseudo FSM: add-path per family, 4 octet AS numbers unless the A flag of
   the per-peer header is set, no extended next hop *)
Definition stack_options (ap4 ap6 a32 : bool) : BGPCodec.options := BGPCodec.mkOpts ap4 ap6 a32 false.

Definition stack_upd_apply (ap4 ap6 a32 : bool) (b : bytes) : list uevent :=
  match BGPCodec.decode (S (length b)) (stack_options ap4 ap6 a32) b with
  | (BGPCodec.Ok m _, _) =>
    match BGPCodec.m_body m with
    | BGPCodec.BUpdate u => events_of_update (conv_update u)
    | _ => []
    end
  | _ => []
  end.

(* ------------------------------------------------------------------ the instantiated router *)

Definition stack_process (c : cfg) := process stack_open_decode stack_upd_apply c.
Definition stack_serve (c : cfg) := serve stack_open_decode stack_upd_apply c.
Definition stack_step (c : cfg) := step stack_open_decode stack_upd_apply c.
Definition stack_run (c : cfg) := run stack_open_decode stack_upd_apply c.

(* ------------------------------------------------------------------ allocation of the inner BGP decoder *)

Definition open_alloc (b : bytes) : N :=
  if len b <? min_open_len then 0
  else let body := skipn bgp_header_len b in snd (BGPCodec.decodeOpen (S (length body)) body 0).

(* what handing one decoded BMP message to the handlers makes the BGP decoder allocate: the carried
   BGP message of a route monitoring message that reaches packet.Decode, the two OPENs of a peer up *)
Definition inner_alloc (c : cfg) (st : rstate) (m : bmp_msg) : N :=
  match m with
  | MRouteMon h upd =>
    if (ignore_pre c && negb (flag_l h)) || (ignore_post c && flag_l h) then 0
    else if mem_src (src_of h) (r_ignored st) then 0
    else match find_nbr (p_rd h, p_addr h) (r_nbrs st) with
         | None => 0
         | Some n => snd (BGPCodec.decode (S (length upd)) (stack_options (n_ap4 n) (n_ap6 n) (negb (flag_a h))) upd)
         end
  | MPeerUp h _ _ _ sent rcvd _ =>
    if ignored_asn c (p_as h) then 0
    else open_alloc sent + match stack_open_decode sent with Some _ => open_alloc rcvd | None => 0 end
  | _ => 0
  end.

Definition inner_alloc_msg (c : cfg) (st : rstate) (msg : bytes) : N :=
  match decode msg with (Ok m, _) => inner_alloc c st m | _ => 0 end.

(* Router.serve once more, summing what the inner BGP decoder allocates along the way; the BMP layer's
   own allocation is the cost component of serve *)
Fixpoint inner_alloc_stream (c : cfg) (fuel : nat) (st : rstate) (s : bytes) : N :=
  match fuel with
  | O => 0
  | S f =>
    if r_closed st then 0
    else match recv s with
         | RMsg m rest _ =>
           match stack_process c st m with
           | (POk, st', _) => inner_alloc_msg c st m + inner_alloc_stream c f st' rest
           | _ => inner_alloc_msg c st m
           end
         | _ => 0
         end
  end.

(* total length-driven allocation of the stack while serving the stream s *)
Definition stack_alloc (c : cfg) (st : rstate) (s : bytes) : N :=
  match stack_serve c st s with
  | SDone _ cost _ => cost + inner_alloc_stream c (S (length s)) st s
  | SPanic cost _ => cost
  | SFuel => 0
  end.
