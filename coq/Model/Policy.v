(* C14: executable model of routingtable/filter (Chain / Filter / Term / TermCondition /
   matchers / RouteFilter / PrefixList / CommunityFilter / LargeCommunityFilter) and of
   routingtable/filter/actions, following the Go call structure.

   Data:
   * net.IP = {higher, lower uint64; isLegacy bool}; net.Prefix = {addr, len uint8}.
     Prefix.Equal / Prefix.Contains are transcribed here on the machine words (masks, uint8
     subtraction); the link to the Go methods is checked by the correspondence run.
   * route.Path is modelled by the parts policy evaluation reads or writes: Type, BGPPath
     (nil or: BGPPathA (nil or LocalPref, MED, NextHop), ASPath (nil or segments), ASPathLen,
     Communities (nil or list), LargeCommunities (nil or list)), StaticPath (nil or NextHop).
   * Paths live in a store (list of cells, a *route.Path is an index): Path.Copy allocates a
     cell, ASPathPrependAction mutates the current cell in place, the other rewriting actions
     copy first.  This makes the copy-on-entry of Chain.Process observable: the caller's cell
     must be unchanged and the returned pointer fresh.
   * A RouteFilter holds a POINTER to its pattern (RouteFilter.equal compares pointers):
     rf_pat is a pointer id, [penv] maps pointer ids to prefixes.
   * nil dereferences are the explicit outcome [Panic].

   The evaluation functions are parametrised by the matcher function (suffix _w) so that the same
   engine can be instantiated with the net functions regenerated from the Go source
   (Proofs/PolicyNetLink.v).  No proofs in this file. *)
From Coq Require Import List NArith Bool.
Import ListNotations.
Local Open Scope N_scope.

(* ------------------------------------------------------------------ net *)

Record ip := mkIP { ip_v4 : bool; ip_hi : N; ip_lo : N }.
Record prefix := mkPfx { pf_addr : ip; pf_len : N }.

Definition two32 : N := 4294967296.
Definition two64 : N := 18446744073709551616.
Definition max32 : N := 4294967295.
Definition max64 : N := 18446744073709551615.

(* uint8 subtraction a - b (a <= 255; b is reduced to a uint8 first, so the definition is total) *)
Definition u8sub (a b : N) : N := (a + 256 - b mod 256) mod 256.
(* uint32(MaxUint32 << s), MaxUint64 << s *)
Definition shl32 (s : N) : N := (N.shiftl max32 s) mod two32.
Definition shl64 (s : N) : N := (N.shiftl max64 s) mod two64.

(* IP.Equal: struct comparison *)
Definition ip_eqb (a b : ip) : bool :=
  Bool.eqb (ip_v4 a) (ip_v4 b) && (ip_hi a =? ip_hi b) && (ip_lo a =? ip_lo b).

(* Prefix.Equal *)
Definition pfx_equal (p x : prefix) : bool :=
  ip_eqb (pf_addr p) (pf_addr x) && (pf_len p =? pf_len x).

(* IP.ToUint32 *)
Definition to_u32 (a : ip) : N := ip_lo a mod two32.

(* Prefix.containsIPv4 *)
Definition contains4 (p x : prefix) : bool :=
  let mask := shl32 (u8sub 32 (pf_len p)) in
  N.land (to_u32 (pf_addr p)) mask =? N.land (to_u32 (pf_addr x)) mask.

(* Prefix.containsIPv6 *)
Definition contains6 (p x : prefix) : bool :=
  let mh := if pf_len p <=? 64 then shl64 (u8sub 64 (pf_len p)) else max64 in
  let ml := if pf_len p <=? 64 then 0 else shl64 (u8sub 128 (pf_len p)) in
  (N.land (ip_hi (pf_addr p)) mh =? N.land (ip_hi (pf_addr x)) mh) &&
  (N.land (ip_lo (pf_addr p)) ml =? N.land (ip_lo (pf_addr x)) ml).

(* Prefix.Contains (strict: x must be longer; never across families) *)
Definition pfx_contains (p x : prefix) : bool :=
  if negb (Bool.eqb (ip_v4 (pf_addr p)) (ip_v4 (pf_addr x))) then false
  else if pf_len x <=? pf_len p then false
  else if ip_v4 (pf_addr p) then contains4 p x else contains6 p x.

(* ------------------------------------------------------------------ matchers *)

Inductive matcher := MExact | MOrLonger | MLonger | MRange (mn mx : N).

(* ExactMatcher / OrLongerMatcher / LongerMatcher / InRangeMatcher .Match(pattern, prefix),
   parametrised by the two net.Prefix methods they call (Equal, Contains) *)
Definition matcher_match_w (ne nc : prefix -> prefix -> bool) (m : matcher) (pat p : prefix) : bool :=
  match m with
  | MExact => ne pat p
  | MOrLonger => ne pat p || nc pat p
  | MLonger => nc pat p && (pf_len pat <? pf_len p)
  | MRange mn mx => (ne pat p || nc pat p) && (mn <=? pf_len p) && (pf_len p <=? mx)
  end.

Definition matcher_match : matcher -> prefix -> prefix -> bool := matcher_match_w pfx_equal pfx_contains.

Definition matcher_equal (m x : matcher) : bool :=
  match m, x with
  | MExact, MExact => true
  | MOrLonger, MOrLonger => true
  | MLonger, MLonger => true
  | MRange a b, MRange c d => negb (negb (a =? c) || negb (b =? d))
  | _, _ => false
  end.

(* ------------------------------------------------------------------ policy AST *)

Definition ptr := N.
Definition penv := ptr -> prefix.

Record route_filter := mkRF { rf_pat : ptr; rf_m : matcher }.
Record prefix_list := mkPL { pl_allowed : list prefix; pl_m : matcher }.
Definition lcomm := (N * N * N)%type.

Record cond := mkCond {
  c_pls : list prefix_list;
  c_rfs : list route_filter;
  c_cfs : list N;
  c_lcfs : list lcomm;
  c_protos : list N }.

Inductive action :=
| AAccept
| AReject
| ASetLocalPref (v : N)
| ASetMED (v : N)
| ASetNextHop (a : ip)
| APrepend (asn times : N).

Record term := mkTerm { t_from : list cond; t_then : list action }.
Definition filter := list term.
Definition chain := list filter.

(* ------------------------------------------------------------------ paths *)

Record bgpa := mkA { a_lp : N; a_med : N; a_nh : option ip }.
Definition seg := (N * list N)%type.           (* segment type, ASNs *)
Record bgppath := mkB {
  b_a : option bgpa;
  b_aspath : option (list seg);
  b_aspathlen : N;
  b_comms : option (list N);
  b_lcomms : option (list lcomm) }.
Record path := mkP {
  pa_type : N;
  pa_bgp : option bgppath;
  pa_static : option (option ip) }.

Definition StaticPathType : N := 1.
Definition BGPPathType : N := 2.
Definition ASSet : N := 1.
Definition ASSequence : N := 2.
Definition MaxASNsSegment : N := 255.

(* ------------------------------------------------------------------ term conditions *)

Definition lcomm_eqb (a b : lcomm) : bool :=
  let '(a1, a2, a3) := a in let '(b1, b2, b3) := b in (a1 =? b1) && (a2 =? b2) && (a3 =? b3).

(* for _, x := range l { if f(x) { return true } }; return false *)
Fixpoint any_of {A : Type} (f : A -> bool) (l : list A) : bool :=
  match l with
  | [] => false
  | x :: l' => if f x then true else any_of f l'
  end.

(* PrefixList.Matches (after the fix: uses the list's matcher) *)
Definition pl_matches_w (mm : matcher -> prefix -> prefix -> bool) (l : prefix_list) (p : prefix) : bool :=
  any_of (fun a => mm (pl_m l) a p) (pl_allowed l).

(* RouteFilter.Matches *)
Definition rf_matches_w (mm : matcher -> prefix -> prefix -> bool) (env : penv) (f : route_filter) (p : prefix) : bool :=
  mm (rf_m f) (env (rf_pat f)) p.

(* CommunityFilter.Matches (after the fix: nil list does not match) *)
Definition cf_matches (c : N) (coms : option (list N)) : bool :=
  match coms with
  | None => false
  | Some l => any_of (fun x => x =? c) l
  end.

(* LargeCommunityFilter.Matches *)
Definition lcf_matches (c : lcomm) (coms : option (list lcomm)) : bool :=
  match coms with
  | None => false
  | Some l => any_of (fun x => lcomm_eqb x c) l
  end.

Definition is_nil {A : Type} (l : list A) : bool := match l with [] => true | _ => false end.

Definition matches_prefix_lists_w (mm : matcher -> prefix -> prefix -> bool) (c : cond) (p : prefix) : bool :=
  if is_nil (c_pls c) then true else any_of (fun l => pl_matches_w mm l p) (c_pls c).

Definition matches_route_filters_w (mm : matcher -> prefix -> prefix -> bool) (env : penv) (c : cond) (p : prefix) : bool :=
  if is_nil (c_rfs c) then true else any_of (fun f => rf_matches_w mm env f p) (c_rfs c).

Definition matches_community_filters (c : cond) (pa : path) : bool :=
  if is_nil (c_cfs c) then true else
  match pa_bgp pa with
  | None => false
  | Some b => any_of (fun f => cf_matches f (b_comms b)) (c_cfs c)
  end.

Definition matches_large_community_filters (c : cond) (pa : path) : bool :=
  if is_nil (c_lcfs c) then true else
  match pa_bgp pa with
  | None => false
  | Some b => any_of (fun f => lcf_matches f (b_lcomms b)) (c_lcfs c)
  end.

Definition matches_protocols (c : cond) (pa : path) : bool :=
  if is_nil (c_protos c) then true else any_of (fun t => t =? pa_type pa) (c_protos c).

(* TermCondition.Matches *)
Definition cond_matches_w (mm : matcher -> prefix -> prefix -> bool) (env : penv) (c : cond) (p : prefix) (pa : path) : bool :=
  matches_prefix_lists_w mm c p &&
  matches_route_filters_w mm env c p &&
  matches_community_filters c pa &&
  matches_large_community_filters c pa &&
  matches_protocols c pa.

(* ------------------------------------------------------------------ store and outcomes *)

Inductive res (A : Type) : Type := Panic | Ok (a : A).
Arguments Panic {A}.
Arguments Ok {A} a.

Definition store := list path.

Fixpoint upd (st : store) (r : nat) (v : path) : store :=
  match st, r with
  | [], _ => []
  | _ :: st', O => v :: st'
  | x :: st', S r' => x :: upd st' r' v
  end.

(* Path.Copy on a non-nil path: a new cell with the same contents (the copy is deep for every
   part an action writes: BGPPathA, the AS path segment array, StaticPath) *)
Definition alloc (st : store) (v : path) : store * nat := (st ++ [v], length st).

(* actions.Result / TermResult / FilterResult *)
Record ares := mkR { ar_path : nat; ar_reject : bool; ar_term : bool }.

(* ------------------------------------------------------------------ actions *)

Definition new_seq : seg := (ASSequence, []).

(* ASPath.Length (uint16) *)
Fixpoint aspath_length (l : list seg) : N :=
  match l with
  | [] => 0
  | (ty, asns) :: l' =>
    ((if ty =? ASSet then 1 else N.of_nat (length asns)) + aspath_length l') mod 65536
  end.

Definition first_len (l : list seg) : N :=
  match l with [] => 0 | (_, asns) :: _ => N.of_nat (length asns) end.

Definition cons_first (asn : N) (l : list seg) : list seg :=
  match l with [] => [] | (ty, asns) :: r => (ty, asn :: asns) :: r end.

(* the loop of BGPPath.Prepend (after the fix: the test is on the leading segment's ASN count) *)
Fixpoint prepend_loop (n : nat) (asn : N) (l : list seg) : list seg :=
  match n with
  | O => l
  | S n' =>
    let l1 := if first_len l =? MaxASNsSegment then new_seq :: l else l in
    prepend_loop n' asn (cons_first asn l1)
  end.

(* BGPPath.Prepend (after the fix: a nil AS path is treated as empty) *)
Definition bgp_prepend (asn times : N) (b : bgppath) : bgppath :=
  if times =? 0 then b else
  let l0 := match b_aspath b with None => [] | Some l => l end in
  let l1 := if is_nil l0 then new_seq :: l0 else l0 in
  let l2 := match l1 with
            | (ty, _) :: _ => if ty =? ASSet then new_seq :: l1 else l1
            | [] => l1
            end in
  let l3 := prepend_loop (N.to_nat times) asn l2 in
  mkB (b_a b) (Some l3) (aspath_length l3) (b_comms b) (b_lcomms b).

(* Path.SetNextHop *)
Definition set_next_hop (nh : ip) (pa : path) : path :=
  if pa_type pa =? BGPPathType then
    match pa_bgp pa with
    | Some b =>
      match b_a b with
      | Some a => mkP (pa_type pa)
                      (Some (mkB (Some (mkA (a_lp a) (a_med a) (Some nh))) (b_aspath b) (b_aspathlen b)
                                 (b_comms b) (b_lcomms b)))
                      (pa_static pa)
      | None => pa
      end
    | None => pa
    end
  else if pa_type pa =? StaticPathType then
    match pa_static pa with
    | Some _ => mkP (pa_type pa) (pa_bgp pa) (Some (Some nh))
    | None => pa
    end
  else pa.

Definition cont (st : store) (r : nat) : res (store * ares) := Ok (st, mkR r false false).

(* Action.Do(p, pa) on the cell r *)
Definition act_do (a : action) (st : store) (r : nat) : res (store * ares) :=
  match nth_error st r with
  | None => Panic
  | Some pa =>
    match a with
    | AAccept => Ok (st, mkR r false true)
    | AReject => Ok (st, mkR r true true)
    | ASetLocalPref v =>
      match pa_bgp pa with
      | None => cont st r
      | Some b =>
        let '(st1, m) := alloc st pa in        (* modified := pa.Copy() *)
        match b_a b with
        | None => Panic                        (* modified.BGPPath.BGPPathA.LocalPref = ... *)
        | Some a0 =>
          let b' := mkB (Some (mkA v (a_med a0) (a_nh a0))) (b_aspath b) (b_aspathlen b) (b_comms b) (b_lcomms b) in
          cont (upd st1 m (mkP (pa_type pa) (Some b') (pa_static pa))) m
        end
      end
    | ASetMED v =>
      match pa_bgp pa with
      | None => cont st r
      | Some b =>
        let '(st1, m) := alloc st pa in
        match b_a b with
        | None => Panic
        | Some a0 =>
          let b' := mkB (Some (mkA (a_lp a0) v (a_nh a0))) (b_aspath b) (b_aspathlen b) (b_comms b) (b_lcomms b) in
          cont (upd st1 m (mkP (pa_type pa) (Some b') (pa_static pa))) m
        end
      end
    | ASetNextHop nh =>
      let '(st1, m) := alloc st pa in
      cont (upd st1 m (set_next_hop nh pa)) m
    | APrepend asn times =>
      match pa_bgp pa with
      | None => cont st r
      | Some b =>                               (* in place: pa.BGPPath.Prepend(asn, times) *)
        cont (upd st r (mkP (pa_type pa) (Some (bgp_prepend asn times b)) (pa_static pa))) r
      end
    end
  end.

(* Term.processActions *)
Fixpoint process_actions (acts : list action) (st : store) (r : nat) : res (store * ares) :=
  match acts with
  | [] => cont st r
  | a :: acts' =>
    match act_do a st r with
    | Panic => Panic
    | Ok (st1, ar) =>
      if ar_term ar then Ok (st1, mkR (ar_path ar) (ar_reject ar) true)
      else process_actions acts' st1 (ar_path ar)
    end
  end.

(* Term.Process *)
Definition term_process_w (mm : matcher -> prefix -> prefix -> bool) (env : penv) (t : term) (p : prefix) (st : store) (r : nat) : res (store * ares) :=
  match nth_error st r with
  | None => Panic
  | Some pa =>
    if is_nil (t_from t) then process_actions (t_then t) st r
    else if any_of (fun f => cond_matches_w mm env f p pa) (t_from t) then process_actions (t_then t) st r
    else cont st r
  end.

(* Filter.Process *)
Fixpoint filter_process_w (mm : matcher -> prefix -> prefix -> bool) (env : penv) (f : filter) (p : prefix) (st : store) (r : nat) : res (store * ares) :=
  match f with
  | [] => cont st r
  | t :: f' =>
    match term_process_w mm env t p st r with
    | Panic => Panic
    | Ok (st1, tr) =>
      if ar_term tr then Ok (st1, mkR (ar_path tr) (ar_reject tr) (ar_term tr))
      else filter_process_w mm env f' p st1 (ar_path tr)
    end
  end.

Fixpoint chain_loop_w (mm : matcher -> prefix -> prefix -> bool) (env : penv) (c : chain) (p : prefix) (st : store) (mp : nat) : res (store * nat * bool) :=
  match c with
  | [] => Ok (st, mp, false)
  | f :: c' =>
    match filter_process_w mm env f p st mp with
    | Panic => Panic
    | Ok (st1, fr) =>
      if ar_term fr then Ok (st1, ar_path fr, ar_reject fr)
      else chain_loop_w mm env c' p st1 (ar_path fr)
    end
  end.

(* Chain.Process(p, pa) for a non-nil pa: result store, returned pointer, reject *)
Definition process_w (mm : matcher -> prefix -> prefix -> bool) (env : penv) (c : chain) (p : prefix) (st : store) (r : nat) : res (store * nat * bool) :=
  match nth_error st r with
  | None => Panic
  | Some pa =>
    let '(st1, mp) := alloc st pa in           (* mp := pa.Copy() *)
    chain_loop_w mm env c p st1 mp
  end.

(* the policy engine with the matchers of this file (Prefix.Equal / Prefix.Contains above) *)
Definition cond_matches : penv -> cond -> prefix -> path -> bool := cond_matches_w matcher_match.
Definition process : penv -> chain -> prefix -> store -> nat -> res (store * nat * bool) := process_w matcher_match.

(* ------------------------------------------------------------------ Equal *)

(* if len(a) != len(b) { return false }; for i := range a { if !eq(a[i], b[i]) { return false } } *)
Fixpoint all2 {A : Type} (eq : A -> A -> bool) (a b : list A) : bool :=
  match a, b with
  | x :: a', y :: b' => if eq x y then all2 eq a' b' else false
  | _, _ => true
  end.

Definition same_len {A B : Type} (a : list A) (b : list B) : bool :=
  Nat.eqb (length a) (length b).

(* RouteFilter.equal: pointer comparison of the patterns *)
Definition rf_equal (f x : route_filter) : bool :=
  if negb (rf_pat f =? rf_pat x) then false
  else if negb (matcher_equal (rf_m f) (rf_m x)) then false
  else true.

(* PrefixList.equal (added by the fix of TermCondition.equal) *)
Definition pl_equal (l x : prefix_list) : bool :=
  if negb (same_len (pl_allowed l) (pl_allowed x)) then false
  else if negb (matcher_equal (pl_m l) (pl_m x)) then false
  else all2 pfx_equal (pl_allowed l) (pl_allowed x).

(* TermCondition.equal (after the fix) *)
Definition cond_equal (t x : cond) : bool :=
  if negb (same_len (c_pls t) (c_pls x)) then false
  else if negb (same_len (c_rfs t) (c_rfs x)) then false
  else if negb (same_len (c_cfs t) (c_cfs x)) then false
  else if negb (same_len (c_lcfs t) (c_lcfs x)) then false
  else if negb (same_len (c_protos t) (c_protos x)) then false
  else if negb (all2 pl_equal (c_pls t) (c_pls x)) then false
  else if negb (all2 rf_equal (c_rfs t) (c_rfs x)) then false
  else if negb (all2 N.eqb (c_cfs t) (c_cfs x)) then false
  else if negb (all2 lcomm_eqb (c_lcfs t) (c_lcfs x)) then false
  else all2 N.eqb (c_protos t) (c_protos x).

(* Action.Equal; SetNextHopAction compares deduplicated *IP pointers = values *)
Definition action_equal (a b : action) : bool :=
  match a, b with
  | AAccept, AAccept => true
  | AReject, AReject => true
  | ASetLocalPref v, ASetLocalPref w => v =? w
  | ASetMED v, ASetMED w => v =? w
  | ASetNextHop x, ASetNextHop y => ip_eqb x y
  | APrepend n t, APrepend m u => if negb (n =? m) then false else if negb (t =? u) then false else true
  | _, _ => false
  end.

(* Term.equal *)
Definition term_equal (t x : term) : bool :=
  if negb (same_len (t_from t) (t_from x)) then false
  else if negb (same_len (t_then t) (t_then x)) then false
  else if negb (all2 cond_equal (t_from t) (t_from x)) then false
  else all2 action_equal (t_then t) (t_then x).

(* Filter.equal *)
Definition filter_equal (f x : filter) : bool :=
  if negb (same_len f x) then false else all2 term_equal f x.

(* Chain.Equal *)
Definition chain_equal (c d : chain) : bool :=
  if negb (same_len c d) then false else all2 filter_equal c d.
