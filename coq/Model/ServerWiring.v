(* Server-level wiring of the BGP daemon (protocols/bgp/server: server.go AddPeer / DisposePeer /
   Replace{Import,Export}FilterChain / incomingConnectionWorker, peer.go newPeer / replace*FilterChain / stop,
   fsm.go newFSM, fsm_established.go init / uninit, fsm_address_family.go init / dispose).

   Executable model, no proofs here. What is modelled is the bookkeeping the per-property models take for granted:
   the peer map, the per-peer stored configuration (effective chains, cluster id), the FSM list of a peer (FSMs are
   created LATER than the peer and copy the peer-level state at that moment), the per-VRF reference counters of
   contributing ASNs / cluster ids and the registrations of the per-family tables at the Loc-RIB.
   The tables themselves are the business of Model/AdjRIBIn, Model/AdjRIBOut, Model/LocRIBClients, Model/FSM. *)

From Coq Require Import List Arith Bool.
Import ListNotations.

(* ---- filter chains as far as the wiring looks at them: filterOrDefault maps the empty chain to "reject all" *)
Inductive chain := CEmpty | CAccept | CReject | COther (n : nat).

Definition chain_eqb (a b : chain) : bool :=
  match a, b with
  | CEmpty, CEmpty | CAccept, CAccept | CReject, CReject => true
  | COther n, COther m => Nat.eqb n m
  | _, _ => false
  end.

Definition effective (c : chain) : chain := match c with CEmpty => CReject | _ => c end.

Inductive fam := V4 | V6.
Definition fam_eqb (a b : fam) : bool := match a, b with V4, V4 | V6, V6 => true | _, _ => false end.

(* ---- configuration handed to AddPeer *)
Record peer_cfg := {
  c_id : nat;            (* (VRF, neighbor address) key of the peer manager *)
  c_vrf : nat;
  c_las : nat;           (* local ASN *)
  c_router_id : nat;
  c_rrc : bool;          (* route reflector client *)
  c_cluster : nat;       (* configured cluster id, 0 = not configured *)
  c_has4 : bool; c_has6 : bool;
  c_imp : chain; c_exp : chain
}.

(* one address family of one FSM (fsmAddressFamily) *)
Record famst := { f_imp : chain; f_exp : chain; f_attached : bool }.

Record fsm := {
  m_id : nat;
  m_est : bool;                 (* in Established with ribsInitialized *)
  m_f4 : option famst; m_f6 : option famst
}.

Record peer := {
  p_cfg : peer_cfg;             (* config as handed in, chains replaced by Replace*FilterChain (peer.config) *)
  p_cluster : nat;              (* peer.clusterID *)
  p_imp : chain; p_exp : chain; (* peerAddressFamily.{import,export}FilterChain: what later FSMs copy *)
  p_fsms : list fsm;
  p_next : nat                  (* next FSM id *)
}.

(* a registration: the Adj-RIB-In / Adj-RIB-Out pair of (peer, fsm, family) attached to the VRF's Loc-RIB, with the
   contributions fsmAddressFamily.init made for it *)
Record reg := { r_pid : nat; r_fid : nat; r_fam : fam; r_asn : nat * nat; r_cl : option (nat * nat) }.

Record server := {
  peers : list peer;
  regs : list reg;
  asn_bag : list (nat * nat);            (* VRF.contributingASNs, a bag of (vrf, asn): Add = cons, Remove = remove one *)
  cl_bag : list (option (nat * nat))     (* VRF.contributingClusterIDs, Some (vrf, cid) per route reflector client family *)
}.

Definition init : server := {| peers := []; regs := []; asn_bag := []; cl_bag := [] |}.

Definition pid (p : peer) : nat := c_id (p_cfg p).

Inductive event :=
| AddPeer (c : peer_cfg)
| Inbound (id : nat)                  (* incomingConnectionWorker: a new FSM for the peer *)
| Establish (id fid : nat)            (* the FSM reaches Established: establishedState.init *)
| Down (id fid : nat)                 (* the FSM leaves Established and stays (Idle): establishedState.uninit *)
| ReplaceImport (id : nat) (c : chain)
| ReplaceExport (id : nat) (c : chain)
| Dispose (id : nat).

(* ---- bags *)
Fixpoint remove1 {A} (eqb : A -> A -> bool) (x : A) (l : list A) : list A :=
  match l with
  | [] => []
  | y :: t => if eqb x y then t else y :: remove1 eqb x t
  end.

Definition key_eqb (a b : nat * nat) : bool := Nat.eqb (fst a) (fst b) && Nat.eqb (snd a) (snd b).
Definition okey_eqb (a b : option (nat * nat)) : bool :=
  match a, b with
  | None, None => true
  | Some x, Some y => key_eqb x y
  | _, _ => false
  end.

(* ---- newPeer *)
Definition new_peer (c : peer_cfg) : peer :=
  {| p_cfg := c;
     p_cluster := if c_rrc c && Nat.eqb (c_cluster c) 0 then c_router_id c else c_cluster c;
     p_imp := effective (c_imp c); p_exp := effective (c_exp c);
     p_fsms := []; p_next := 0 |}.

(* ---- newFSM: the families copy the peer-level chains of the moment *)
Definition new_fam (p : peer) (has : bool) : option famst :=
  if has then Some {| f_imp := p_imp p; f_exp := p_exp p; f_attached := false |} else None.

Definition new_fsm (p : peer) : fsm :=
  {| m_id := p_next p; m_est := false;
     m_f4 := new_fam p (c_has4 (p_cfg p)); m_f6 := new_fam p (c_has6 (p_cfg p)) |}.

Definition upd_peer (id : nat) (f : peer -> peer) (ps : list peer) : list peer :=
  map (fun p => if Nat.eqb (pid p) id then f p else p) ps.

Definition find_peer (id : nat) (ps : list peer) : option peer := find (fun p => Nat.eqb (pid p) id) ps.

Definition upd_fsm (fid : nat) (f : fsm -> fsm) (ms : list fsm) : list fsm :=
  map (fun m => if Nat.eqb (m_id m) fid then f m else m) ms.

Definition find_fsm (fid : nat) (ms : list fsm) : option fsm := find (fun m => Nat.eqb (m_id m) fid) ms.

(* ---- establishedState.init / fsmAddressFamily.init *)
Definition set_attached (b : bool) (o : option famst) : option famst :=
  match o with Some f => Some {| f_imp := f_imp f; f_exp := f_exp f; f_attached := b |} | None => None end.

Definition attached (o : option famst) : bool := match o with Some f => f_attached f | None => false end.

Definition mk_reg (p : peer) (fid : nat) (a : fam) : reg :=
  {| r_pid := pid p; r_fid := fid; r_fam := a;
     r_asn := (c_vrf (p_cfg p), c_las (p_cfg p));
     r_cl := if c_rrc (p_cfg p) then Some (c_vrf (p_cfg p), p_cluster p) else None |}.

Definition attach (r : reg) (s : server) : server :=
  {| peers := peers s; regs := r :: regs s; asn_bag := r_asn r :: asn_bag s; cl_bag := r_cl r :: cl_bag s |}.

Definition reg_is (id fid : nat) (a : fam) (r : reg) : bool :=
  Nat.eqb (r_pid r) id && Nat.eqb (r_fid r) fid && fam_eqb (r_fam r) a.

(* fsmAddressFamily.dispose of (peer, fsm, family): releases exactly what init took for it. (A family object is
   attached at most once - fsmAddressFamily.initialized -, so "the registrations of (peer, fsm, family)" is at most one
   on every reachable state; the model removes whatever is there and releases one reference per registration.) *)
Definition detach (id fid : nat) (a : fam) (s : server) : server :=
  let gr := partition (reg_is id fid a) (regs s) in
  {| peers := peers s; regs := snd gr;
     asn_bag := fold_left (fun b r => remove1 key_eqb (r_asn r) b) (fst gr) (asn_bag s);
     cl_bag := fold_left (fun b r => remove1 okey_eqb (r_cl r) b) (fst gr) (cl_bag s) |}.

Definition fsm_up (m : fsm) : fsm :=
  {| m_id := m_id m; m_est := true; m_f4 := set_attached true (m_f4 m); m_f6 := set_attached true (m_f6 m) |}.

Definition fsm_down (m : fsm) : fsm :=
  {| m_id := m_id m; m_est := false; m_f4 := set_attached false (m_f4 m); m_f6 := set_attached false (m_f6 m) |}.

Definition with_peers (s : server) (ps : list peer) : server :=
  {| peers := ps; regs := regs s; asn_bag := asn_bag s; cl_bag := cl_bag s |}.

Definition set_fsms (ms : list fsm) (p : peer) : peer :=
  {| p_cfg := p_cfg p; p_cluster := p_cluster p; p_imp := p_imp p; p_exp := p_exp p; p_fsms := ms; p_next := p_next p |}.

Definition establish (id fid : nat) (s : server) : server :=
  match find_peer id (peers s) with
  | None => s
  | Some p =>
      match find_fsm fid (p_fsms p) with
      | None => s
      | Some m =>
          if m_est m then s else
          let s1 := with_peers s (upd_peer id (fun p => set_fsms (upd_fsm fid fsm_up (p_fsms p)) p) (peers s)) in
          let s2 := if c_has4 (p_cfg p) then attach (mk_reg p fid V4) s1 else s1 in
          if c_has6 (p_cfg p) then attach (mk_reg p fid V6) s2 else s2
      end
  end.

(* establishedState.uninit: BOTH families *)
Definition uninit (id fid : nat) (s : server) : server := detach id fid V6 (detach id fid V4 s).

Definition down (id fid : nat) (s : server) : server :=
  let s1 := uninit id fid s in
  with_peers s1 (upd_peer id (fun p => set_fsms (upd_fsm fid fsm_down (p_fsms p)) p) (peers s1)).

(* peer.replace{Import,Export}FilterChain: config keeps the chain as given; the peer-level state and every existing
   FSM get the effective chain *)
Definition set_fam_imp (c : chain) (o : option famst) : option famst :=
  match o with Some f => Some {| f_imp := c; f_exp := f_exp f; f_attached := f_attached f |} | None => None end.
Definition set_fam_exp (c : chain) (o : option famst) : option famst :=
  match o with Some f => Some {| f_imp := f_imp f; f_exp := c; f_attached := f_attached f |} | None => None end.

Definition cfg_with_imp (c : chain) (g : peer_cfg) : peer_cfg :=
  {| c_id := c_id g; c_vrf := c_vrf g; c_las := c_las g; c_router_id := c_router_id g; c_rrc := c_rrc g;
     c_cluster := c_cluster g; c_has4 := c_has4 g; c_has6 := c_has6 g; c_imp := c; c_exp := c_exp g |}.
Definition cfg_with_exp (c : chain) (g : peer_cfg) : peer_cfg :=
  {| c_id := c_id g; c_vrf := c_vrf g; c_las := c_las g; c_router_id := c_router_id g; c_rrc := c_rrc g;
     c_cluster := c_cluster g; c_has4 := c_has4 g; c_has6 := c_has6 g; c_imp := c_imp g; c_exp := c |}.

Definition replace_imp (c : chain) (p : peer) : peer :=
  {| p_cfg := cfg_with_imp c (p_cfg p); p_cluster := p_cluster p; p_imp := effective c; p_exp := p_exp p;
     p_fsms := map (fun m => {| m_id := m_id m; m_est := m_est m;
                                m_f4 := set_fam_imp (effective c) (m_f4 m);
                                m_f6 := set_fam_imp (effective c) (m_f6 m) |}) (p_fsms p);
     p_next := p_next p |}.

Definition replace_exp (c : chain) (p : peer) : peer :=
  {| p_cfg := cfg_with_exp c (p_cfg p); p_cluster := p_cluster p; p_imp := p_imp p; p_exp := effective c;
     p_fsms := map (fun m => {| m_id := m_id m; m_est := m_est m;
                                m_f4 := set_fam_exp (effective c) (m_f4 m);
                                m_f6 := set_fam_exp (effective c) (m_f6 m) |}) (p_fsms p);
     p_next := p_next p |}.

(* peer.stop + peers.remove: Cease reaches EVERY FSM of the peer (a blocking send), an established one runs uninit *)
Fixpoint cease_all (id : nat) (ms : list fsm) (s : server) : server :=
  match ms with
  | [] => s
  | m :: t => cease_all id t (uninit id (m_id m) s)
  end.

Definition dispose (id : nat) (s : server) : server :=
  match find_peer id (peers s) with
  | None => s
  | Some p =>
      let s1 := cease_all id (p_fsms p) s in
      with_peers s1 (filter (fun q => negb (Nat.eqb (pid q) id)) (peers s1))
  end.

Definition step (s : server) (e : event) : server :=
  match e with
  | AddPeer c =>
      match find_peer (c_id c) (peers s) with
      | Some _ => s                       (* the daemon disposes before it adds again *)
      | None => with_peers s (new_peer c :: peers s)
      end
  | Inbound id =>
      with_peers s (upd_peer id (fun p =>
        {| p_cfg := p_cfg p; p_cluster := p_cluster p; p_imp := p_imp p; p_exp := p_exp p;
           p_fsms := p_fsms p ++ [new_fsm p]; p_next := S (p_next p) |}) (peers s))
  | Establish id fid => establish id fid s
  | Down id fid => down id fid s
  | ReplaceImport id c => with_peers s (upd_peer id (replace_imp c) (peers s))
  | ReplaceExport id c => with_peers s (upd_peer id (replace_exp c) (peers s))
  | Dispose id => dispose id s
  end.

Definition run (evs : list event) : server := fold_left step evs init.

(* observables *)
Definition contributing_asn (s : server) (v a : nat) : bool := existsb (key_eqb (v, a)) (asn_bag s).
Definition contributing_cluster (s : server) (v c : nat) : bool := existsb (okey_eqb (Some (v, c))) (cl_bag s).
Definition effective_cluster (c : peer_cfg) : nat := if Nat.eqb (c_cluster c) 0 then c_router_id c else c_cluster c.
