(* C19: model of what the established session does with a decoded UPDATE
   (protocols/bgp/server/fsm_address_family.go: processUpdate, multiProtocolUpdates, withdraws, updates,
   multiProtocolUpdate, multiProtocolWithdraw) as far as the content of the Adj-RIB-In is concerned.
   The server validates nothing beyond what packet.Decode accepted: processUpdate only compares AFI/SAFI.
   An Adj-RIB-In entry is (prefix, path identifier, path has a next hop). AddPath / RemovePath follow
   routingtable/adjRIBIn: without add-path one path per prefix (ReplacePath; RemovePath removes the prefix),
   with add-path one path per (prefix, path identifier). *)
From Coq Require Import List NArith Bool.
Import ListNotations.
From BioVerif Require Import Model.BGPCodec.
Local Open Scope N_scope.

Definition ip_eqb (a b : ip) : bool :=
  match a, b with
  | IP4 x, IP4 y => x =? y
  | IP6 h1 l1, IP6 h2 l2 => (h1 =? h2) && (l1 =? l2)
  | _, _ => false
  end.
Definition pfx_eqb (a b : prefix) : bool := ip_eqb (p_ip a) (p_ip b) && (p_len a =? p_len b).

Record entry := mkEntry { e_pfx : prefix; e_id : N; e_nh : bool }.

Definition same_key (addPathRX : bool) (p : prefix) (id : N) (e : entry) : bool :=
  pfx_eqb (e_pfx e) p && (if addPathRX then e_id e =? id else true).

Definition removePath (ap : bool) (t : list entry) (p : prefix) (id : N) : list entry :=
  filter (fun e => negb (same_key ap p id e)) t.
Definition addPath (ap : bool) (t : list entry) (p : prefix) (id : N) (nh : bool) : list entry :=
  removePath ap t p id ++ [mkEntry p id nh].

(* getMPReachAndUnreachNLRIs: the last attribute of each kind wins *)
Fixpoint lastReach (l : list attr) (acc : option (N * N * list nlri)) : option (N * N * list nlri) :=
  match l with
  | [] => acc
  | a :: r => lastReach r (match a_val a with
                           | AVMPReach afi safi _ nl => if a_type a =? 14 then Some (afi, safi, nl) else acc
                           | _ => acc end)
  end.
Fixpoint lastUnreach (l : list attr) (acc : option (N * N * list nlri)) : option (N * N * list nlri) :=
  match l with
  | [] => acc
  | a :: r => lastUnreach r (match a_val a with
                             | AVMPUnreach afi safi nl => if a_type a =? 15 then Some (afi, safi, nl) else acc
                             | _ => acc end)
  end.

(* processUpdate of the unicast family `afi` (1 or 2) on an empty Adj-RIB-In *)
Definition processUpdate (afi : N) (ap : bool) (u : update_msg) : list entry :=
  let t := [] in
  let t := match lastReach (u_attrs u) None with
           | Some (a, s, nl) =>
             if (a =? afi) && (s =? 1)
             then fold_left (fun t n => addPath ap t (n_pfx n) (n_id n) true) nl t else t
           | None => t end in
  let t := match lastUnreach (u_attrs u) None with
           | Some (a, s, nl) =>
             if (a =? afi) && (s =? 1)
             then fold_left (fun t n => removePath ap t (n_pfx n) (n_id n)) nl t else t
           | None => t end in
  if afi =? 1 then
    let t := fold_left (fun t n => removePath ap t (n_pfx n) (n_id n)) (u_withdrawn u) t in
    fold_left (fun t n => addPath ap t (n_pfx n) (n_id n) (hasAttr 3 (u_attrs u))) (u_nlri u) t
  else t.

(* what a session installs from the bytes b: nothing unless they decode to an UPDATE *)
Definition installed (afi : N) (o : options) (r : outcome msg * N) : list entry :=
  match fst r with
  | Ok m _ => match m_body m with
              | BUpdate u => processUpdate afi (if afi =? 1 then addPath4 o else addPath6 o) u
              | _ => []
              end
  | _ => []
  end.

(* rendering for the harness: 4|6, then IP tokens, len, id, next hop flag *)
Definition renderEntry (e : entry) : list N :=
  renderIP (p_ip (e_pfx e)) ++ [p_len (e_pfx e); e_id e; b2n (e_nh e)].
