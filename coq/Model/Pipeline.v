(* Pipeline: the composed model of the RIB pipeline of one BGP speaker (C08 stage "pipeline", reused by
   C05 / C10).  Nothing is re-modelled here: the component models are threaded exactly as
   protocols/bgp/server/fsm_address_family.go wires the Go objects

       adjRIBIn.New(import chain, vrf, attrs)  --Register-->  locRIB.LocRIB
       locRIB.LocRIB  --RegisterWithOptions(addPathTX)-->  adjRIBOut.New(rib, attrs, export chain)
       adjRIBOut  --Register-->  UpdateSender  --Write-->  peer

       Model.AdjRIBIn.step      every call it delivers to its client (log) becomes
       Model.LocRIBClients.step AddPath / RemovePath / ReplacePath; every callback of that becomes
       Model.AdjRIBOut.step     OAdd / ORemove of the session the callback is addressed to; every event
                                it logs for its client becomes
       Model.UpdateSender.step  Add / Remove; the sender's own steps (Dequeue, EmitOne) are events.

   A session has a receiving half (Adj-RIB-In, import policy) and a sending half (Adj-RIB-Out with its
   Loc-RIB client options, update sender, peer), like fsmAddressFamily; a pure receiver is a session
   whose export policy rejects, a pure sender one that never announces.  The VRF's contributing ASN /
   cluster-id refcounters are shared: a session coming up or going down changes them in every
   Adj-RIB-In (init / dispose).

   The components use different path and prefix representations.  Conversions (explicit, below):
     lift   Adj-RIB-In path (what the import side looks at) -> route.Path value as the Loc-RIB and the
            Adj-RIB-Out see it (Source = the peer's address, BGP identifier, eBGP flag from the session)
     enc    exported path -> what the update sender looks at (identity of the hashed tuple through the
            parameter tagf = sha256, path id, the shape that determines the sizes)
     prefixes: N (Adj-RIB-In, Adj-RIB-Out), nat (Loc-RIB), (address, length) (update sender)

   Parameters: P/apply (export policies, as in Model.AdjRIBOut), sel (Route.PathSelection, as in
   Model.LocRIBClients: how paths are ranked is C02/C03's business), tagf.
   Ghost fields (ss_ops, ss_hist, ss_lab) record what each component was fed; they are not read by
   the step function.  No proofs in this file. *)
From Coq Require Import List NArith ZArith Bool Arith.
Import ListNotations.
From BioVerif Require Model.PathIDs Model.AdjRIBIn Model.LocRIBClients Model.AdjRIBOut Model.UpdateSender.


(* ------------------------------------------------------------------ conversions *)

Definition lenN {A : Type} (l : list A) : N := N.of_nat (length l).

(* the AS_PATH of a received path: one AS_SEQUENCE, or no segment at all *)
Definition segs (l : list N) : list (bool * list N) :=
  match l with [] => [] | _ => [(true, l)] end.

Definition opt_nonempty (l : list N) : option (list N) :=
  match l with [] => None | _ => Some l end.

(* the peer's address and BGP identifier, whether the session is iBGP: what fsmAddressFamily.newRoutePath /
   processAttributes put into every path learned from the session *)
Definition lift (ip bgpid : N) (ibgp : bool) (q : AdjRIBIn.path) : AdjRIBOut.path :=
  AdjRIBOut.PBgp 0 (AdjRIBOut.mkBgp (AdjRIBIn.nhop q) ip (AdjRIBIn.lpref q) (AdjRIBIn.med q) bgpid (AdjRIBIn.origid q) None (negb ibgp) false 0%N
                     (AdjRIBIn.otc q) (segs (AdjRIBIn.aspath q)) (lenN (AdjRIBIn.aspath q)) (opt_nonempty (AdjRIBIn.clist q))
                     None None [] (AdjRIBIn.pid q)).

(* Loc-RIB prefixes are nat *)
Definition lpfx (p : N) : LocRIBClients.pfx := N.to_nat p.
(* update sender prefixes: a prefix id is address * 64 + length (a bijection between N and (address, length < 64)) *)
Definition upfx (p : N) : UpdateSender.pfx := UpdateSender.mkpfx (p / 64)%N (p mod 64)%N.

Definition is_some {A : Type} (o : option A) : bool := match o with Some _ => true | None => false end.

(* ------------------------------------------------------------------ small list helpers *)

Fixpoint upd_nth {A : Type} (k : nat) (f : A -> A) (l : list A) : list A :=
  match l, k with
  | [], _ => []
  | x :: r, O => f x :: r
  | x :: r, S k' => x :: upd_nth k' f r
  end.

(* the elements a log (newest first) gained, oldest first *)
Definition gained {A : Type} (before after : list A) : list A :=
  rev (firstn (length after - length before) after).

Section Pipe.
  Variable P : Type.
  Variable apply : P -> N -> AdjRIBOut.path -> option AdjRIBOut.path.
  Variable sel : nat -> list (LocRIBClients.entry AdjRIBOut.path) -> list (LocRIBClients.entry AdjRIBOut.path) * nat.
  Variable tagf : AdjRIBOut.bgp -> N.          (* sha256 of the tuple BGPPath.ComputeHash formats: factors through AdjRIBOut.hkey_of *)

  (* ---------------------------------------------------------------- configuration of a session *)
  Record scfg := mkScfg {
    sc_sa : AdjRIBIn.sattrs;        (* what the Adj-RIB-In reads of the session attributes *)
    sc_pol : AdjRIBIn.policy;       (* import policy: any function *)
    sc_ip : N;               (* the peer's address *)
    sc_bgpid : N;            (* the peer's BGP identifier *)
    sc_asn : N;              (* local ASN the session contributes to the VRF while it is up *)
    sc_cid : option N;       (* cluster id it contributes (route reflector clients) *)
    sc_sess : AdjRIBOut.sess;        (* what the Adj-RIB-Out reads of the session attributes *)
    sc_opts : LocRIBClients.opts;        (* fsmAddressFamily.addPathTX: the Adj-RIB-Out's options as Loc-RIB client *)
    sc_exp : P;              (* export policy *)
    sc_us : UpdateSender.cfg            (* the update sender's session kind *)
  }.

  Definition lift_of (c : scfg) (q : AdjRIBIn.path) : AdjRIBOut.path := lift (sc_ip c) (sc_bgpid c) (AdjRIBIn.ibgp (sc_sa c)) q.

  (* what the update sender reads of an exported path *)
  Definition enc (p : AdjRIBOut.path) : UpdateSender.path :=
    match p with
    | AdjRIBOut.PBgp _ b =>
      UpdateSender.mkpath (tagf b) (AdjRIBOut.b_pid b)
               (map (fun sg : bool * list N => lenN (snd sg)) (AdjRIBOut.b_aspath b))
               (negb (N.eqb (AdjRIBOut.b_med b) 0)) (AdjRIBOut.b_atomic b) (is_some (AdjRIBOut.b_agg b))
               (negb (N.eqb (AdjRIBOut.b_oid b) 0)) (negb (N.eqb (AdjRIBOut.b_otc b) 0))
               (lenN (AdjRIBOut.olist (AdjRIBOut.b_cl b))) (lenN (AdjRIBOut.olist (AdjRIBOut.b_comms b))) (lenN (AdjRIBOut.olist (AdjRIBOut.b_lcomms b)))
               (map (fun u => lenN (AdjRIBOut.u_val u)) (AdjRIBOut.b_unk b))
    | AdjRIBOut.PStatic _ => UpdateSender.mkpath 0 0 [] false false false false false 0 0 0 []   (* never exported *)
    end.

  (* ---------------------------------------------------------------- state *)
  Record sst := mkSst {
    ss_up : bool;
    ss_in : AdjRIBIn.st;                      (* the Adj-RIB-In (client 0 = the Loc-RIB) *)
    ss_out : AdjRIBOut.aro P;                  (* the Adj-RIB-Out *)
    ss_us : UpdateSender.st;                      (* the update sender; its wire log is what the peer received *)
    ss_ops : list AdjRIBIn.op;                (* ghost: the calls made on this Adj-RIB-In since it was created *)
    ss_hist : list (N * list AdjRIBOut.path);  (* ghost: what the Loc-RIB let this Adj-RIB-Out see since it registered *)
    ss_lab : list UpdateSender.label              (* ghost: the steps this update sender took, newest first *)
  }.

  Record pst := mkPst {
    ps_sess : list sst;
    ps_loc : LocRIBClients.state AdjRIBOut.path;
    ps_panic : bool;                   (* a Loc-RIB operation panicked (r.Paths()[:n], n > len) *)
    ps_seen : list (list AdjRIBOut.path) (* ghost: the path list of the touched prefix after every route change *)
  }.

  Definition with_sess (st : pst) (ss : list sst) : pst := mkPst ss (ps_loc st) (ps_panic st) (ps_seen st).

  Definition set_in (s : sst) (i : AdjRIBIn.st) (ops : list AdjRIBIn.op) : sst :=
    mkSst (ss_up s) i (ss_out s) (ss_us s) ops (ss_hist s) (ss_lab s).
  Definition set_out (s : sst) (a : AdjRIBOut.aro P) (u : UpdateSender.st) (lab : list UpdateSender.label) : sst :=
    mkSst (ss_up s) (ss_in s) a u (ss_ops s) (ss_hist s) lab.
  Definition set_hist (s : sst) (h : list (N * list AdjRIBOut.path)) : sst :=
    mkSst (ss_up s) (ss_in s) (ss_out s) (ss_us s) (ss_ops s) h (ss_lab s).
  Definition set_up (s : sst) (b : bool) : sst :=
    mkSst b (ss_in s) (ss_out s) (ss_us s) (ss_ops s) (ss_hist s) (ss_lab s).

  (* a session that never came up: untouched objects *)
  Definition dead_sst (c : scfg) : sst :=
    mkSst false (AdjRIBIn.init (sc_sa c) (sc_pol c)) (AdjRIBOut.init P (sc_exp c)) UpdateSender.init [] [] [].

  Definition init (cfgs : list scfg) : pst := mkPst (map dead_sst cfgs) LocRIBClients.init false [].

  (* ---------------------------------------------------------------- update sender *)

  (* one step of a session's update sender; a label that is not enabled is not taken *)
  Definition us_take (c : UpdateSender.cfg) (ul : UpdateSender.st * list UpdateSender.label) (l : UpdateSender.label) : UpdateSender.st * list UpdateSender.label :=
    match UpdateSender.step c (fst ul) l with
    | Some u' => (u', l :: snd ul)
    | None => ul
    end.

  (* UpdateSender.EndOfRIB: the whole flush and the marker, under toSendMu (map order: as stored) *)
  Definition eor_steps (c : UpdateSender.cfg) (q : list UpdateSender.entry) : nat :=
    S (fold_right (fun e acc => Nat.max 1 (length (UpdateSender.b_msgs (UpdateSender.batch_of c e))) + acc) 0 q).

  Definition us_eor (c : UpdateSender.cfg) (ul : UpdateSender.st * list UpdateSender.label) : UpdateSender.st * list UpdateSender.label :=
    let ul1 := us_take c ul (UpdateSender.EoRBegin []) in
    fold_left (us_take c) (repeat UpdateSender.EoRStep (eor_steps c (UpdateSender.queue (fst ul)))) ul1.

  Definition lab_of (ev : AdjRIBOut.event) : UpdateSender.label :=
    match ev with
    | AdjRIBOut.Announce p x => UpdateSender.Add (upfx p) (enc x)
    | AdjRIBOut.Withdraw p x => UpdateSender.Remove (upfx p) (enc x)
    end.

  (* ---------------------------------------------------------------- Adj-RIB-Out of a session *)

  (* one call of the Loc-RIB on the session's Adj-RIB-Out; what it tells its client goes to the sender *)
  Definition aro_call (c : scfg) (o : AdjRIBOut.op P) (s : sst) : sst :=
    let a' := AdjRIBOut.step P apply (sc_sess c) (ss_out s) o in
    let evs := gained (AdjRIBOut.elog (ss_out s)) (AdjRIBOut.elog a') in
    let ul := fold_left (us_take (sc_us c)) (map lab_of evs) (ss_us s, ss_lab s) in
    set_out s a' (fst ul) (snd ul).

  Definition aro_eor (c : scfg) (s : sst) : sst :=
    let ul := us_eor (sc_us c) (ss_us s, ss_lab s) in
    set_out s (ss_out s) (fst ul) (snd ul).

  Definition with_cfg (cfgs : list scfg) (k : nat) (f : scfg -> sst -> sst) (ss : list sst) : list sst :=
    match nth_error cfgs k with
    | Some c => upd_nth k (f c) ss
    | None => ss
    end.

  (* a callback of the Loc-RIB, delivered to the Adj-RIB-Out it is addressed to *)
  Definition deliver (cfgs : list scfg) (ss : list sst) (b : LocRIBClients.cb AdjRIBOut.path) : list sst :=
    match b with
    | LocRIBClients.CbAdd k p e => with_cfg cfgs k (fun c => aro_call c (AdjRIBOut.OAdd (N.of_nat p) (snd e))) ss
    | LocRIBClients.CbDump k p e => with_cfg cfgs k (fun c => aro_call c (AdjRIBOut.OAdd (N.of_nat p) (snd e))) ss
    | LocRIBClients.CbRemove k p e => with_cfg cfgs k (fun c => aro_call c (AdjRIBOut.ORemove (N.of_nat p) (snd e))) ss
    | LocRIBClients.CbEndOfRIB k => with_cfg cfgs k aro_eor ss
    | LocRIBClients.CbRefresh _ _ _ => ss
    end.

  (* ---------------------------------------------------------------- Loc-RIB *)

  (* the first 1 / N selected paths of a prefix, as the client with options o is entitled to see them *)
  Definition visible (o : LocRIBClients.opts) (loc : LocRIBClients.state AdjRIBOut.path) (p : LocRIBClients.pfx) : list AdjRIBOut.path :=
    map snd (LocRIBClients.limit_slice AdjRIBOut.path o (LocRIBClients.route_at loc p)).

  (* ghost: after a Loc-RIB operation on the prefixes ps, note what every registered session now sees *)
  Definition note_views (loc : LocRIBClients.state AdjRIBOut.path) (ps : list LocRIBClients.pfx) (only : option nat) (ss : list sst) : list sst :=
    map (fun ks : nat * sst =>
           let (k, s) := ks in
           match LocRIBClients.lookup k (LocRIBClients.clients loc) with
           | Some o =>
             if match only with Some k' => Nat.eqb k k' | None => true end
             then set_hist s (ss_hist s ++ map (fun p => (N.of_nat p, visible o loc p)) ps)
             else s
           | None => s
           end) (combine (seq 0 (length ss)) ss).

  Definition op_prefixes (loc : LocRIBClients.state AdjRIBOut.path) (o : LocRIBClients.op AdjRIBOut.path) : list LocRIBClients.pfx * option nat :=
    match o with
    | LocRIBClients.OAdd p _ | LocRIBClients.ORemove p _ | LocRIBClients.OReplace p _ _ => ([p], None)
    | LocRIBClients.ORegister k _ => (map fst (LocRIBClients.routes loc), Some k)
    | LocRIBClients.OUnregister _ | LocRIBClients.ORefresh _ => ([], None)
    end.

  (* one operation on the Loc-RIB, its callbacks delivered in order *)
  Definition loc_op (cfgs : list scfg) (st : pst) (o : LocRIBClients.op AdjRIBOut.path) : pst :=
    match LocRIBClients.step AdjRIBOut.path AdjRIBOut.path_compare AdjRIBOut.path_equal sel (ps_loc st) o with
    | LocRIBClients.Panic => mkPst (ps_sess st) (ps_loc st) true (ps_seen st)
    | LocRIBClients.Ok loc' cbs =>
      let ss := fold_left (deliver cfgs) cbs (ps_sess st) in
      let (ps, only) := op_prefixes loc' o in
      mkPst (note_views loc' ps only ss) loc' (ps_panic st)
            (ps_seen st ++ match only with
                           | None => map (fun p => map snd (LocRIBClients.paths (LocRIBClients.route_at loc' p))) ps
                           | Some _ => []
                           end)
    end.

  (* ---------------------------------------------------------------- Adj-RIB-In of a session *)

  (* a call an Adj-RIB-In delivered to its client 0 (the Loc-RIB), as the Loc-RIB operation it is *)
  Definition loc_of_event (c : scfg) (e : AdjRIBIn.event) : option (LocRIBClients.op AdjRIBOut.path) :=
    match e with
    | AdjRIBIn.EvAdd k p q | AdjRIBIn.EvDump k p q =>
      if N.eqb k 0 then Some (LocRIBClients.OAdd (lpfx p) (lift_of c q)) else None
    | AdjRIBIn.EvRemove k p q =>
      if N.eqb k 0 then Some (LocRIBClients.ORemove (lpfx p) (lift_of c q)) else None
    | AdjRIBIn.EvReplace k p o n =>
      if N.eqb k 0 then Some (LocRIBClients.OReplace (lpfx p) (lift_of c o) (lift_of c n)) else None
    | AdjRIBIn.EvEOR _ => None                                   (* LocRIB.EndOfRIB does nothing *)
    end.

  (* one call on the Adj-RIB-In of session k; the calls it makes on the Loc-RIB are carried out in order *)
  Definition in_op (cfgs : list scfg) (k : nat) (st : pst) (o : AdjRIBIn.op) : pst :=
    match nth_error cfgs k, nth_error (ps_sess st) k with
    | Some c, Some s =>
      let i' := AdjRIBIn.step (ss_in s) o in
      let evs := gained (AdjRIBIn.log (ss_in s)) (AdjRIBIn.log i') in
      let st1 := with_sess st (upd_nth k (fun s => set_in s i' (ss_ops s ++ [o])) (ps_sess st)) in
      fold_left (fun acc e => match loc_of_event c e with
                              | Some lo => loc_op cfgs acc lo
                              | None => acc
                              end) evs st1
    | _, _ => st
    end.

  (* ---------------------------------------------------------------- the shared VRF *)

  Definition vrf_add (c : scfg) : list AdjRIBIn.op :=
    AdjRIBIn.AddASN (sc_asn c) :: match sc_cid c with Some i => [AdjRIBIn.AddCID i] | None => [] end.
  Definition vrf_del (c : scfg) : list AdjRIBIn.op :=
    AdjRIBIn.DelASN (sc_asn c) :: match sc_cid c with Some i => [AdjRIBIn.DelCID i] | None => [] end.

  Definition is_up (st : pst) (k : nat) : bool :=
    match nth_error (ps_sess st) k with Some s => ss_up s | None => false end.

  (* the sessions that are up, except k *)
  Definition others_up (cfgs : list scfg) (st : pst) (k : nat) : list nat :=
    filter (fun j => negb (Nat.eqb j k) && is_up st j) (seq 0 (length cfgs)).

  Definition cfg_ops (cfgs : list scfg) (f : scfg -> list AdjRIBIn.op) (j : nat) : list AdjRIBIn.op :=
    match nth_error cfgs j with Some c => f c | None => [] end.

  (* apply the VRF change ops to the Adj-RIB-Ins of the sessions js *)
  Definition vrf_broadcast (cfgs : list scfg) (js : list nat) (ops : list AdjRIBIn.op) (st : pst) : pst :=
    fold_left (fun acc j => fold_left (in_op cfgs j) ops acc) js st.

  (* ---------------------------------------------------------------- events *)
  Inductive event :=
  | EUp (k : nat)                            (* fsmAddressFamily.init *)
  | EDown (k : nat)                          (* fsmAddressFamily.dispose *)
  | EAnnounce (k : nat) (p : N) (q : AdjRIBIn.path) (* adjRIBIn.AddPath *)
  | EWithdraw (k : nat) (p : N) (i : N)      (* adjRIBIn.RemovePath with a path carrying identifier i *)
  | EDequeue (k : nat) (key : UpdateSender.key)         (* sender(): the locked half of one iteration *)
  | EEmit (k : nat).                         (* sender(): one Write of the unlocked half *)

  Definition us_event (cfgs : list scfg) (k : nat) (l : UpdateSender.label) (st : pst) : pst :=
    if is_up st k then
      with_sess st (with_cfg cfgs k (fun c s =>
               let ul := us_take (sc_us c) (ss_us s, ss_lab s) l in
               set_out s (ss_out s) (fst ul) (snd ul)) (ps_sess st))
    else st.

  Definition step (cfgs : list scfg) (st : pst) (ev : event) : pst :=
    match ev with
    | EUp k =>
      match nth_error cfgs k with
      | Some c =>
        if is_up st k then st else
        let others := others_up cfgs st k in
        (* a fresh Adj-RIB-In: it reads the VRF as the sessions that are up have left it *)
        let pre := flat_map (cfg_ops cfgs vrf_add) others in
        let fresh := mkSst true (fold_left AdjRIBIn.step pre (AdjRIBIn.init (sc_sa c) (sc_pol c)))
                           (AdjRIBOut.init P (sc_exp c)) UpdateSender.init pre [] [] in
        let st1 := with_sess st (upd_nth k (fun _ => fresh) (ps_sess st)) in
        (* vrf.AddContributingASN / AddContributingClusterID: seen by every Adj-RIB-In, the new one included *)
        let st2 := vrf_broadcast cfgs (others ++ [k]) (vrf_add c) st1 in
        (* adjRIBIn.Register(rib) *)
        let st3 := in_op cfgs k st2 (AdjRIBIn.Register 0%N) in
        (* rib.RegisterWithOptions(adjRIBOut, addPathTX): initial dump, EndOfRIB *)
        loc_op cfgs st3 (LocRIBClients.ORegister k (sc_opts c))
      | None => st
      end
    | EDown k =>
      match nth_error cfgs k with
      | Some c =>
        if negb (is_up st k) then st else
        let others := others_up cfgs st k in
        let st1 := vrf_broadcast cfgs (others ++ [k]) (vrf_del c) st in
        (* adjRIBIn.Unregister(rib): withdraws what the session contributed, from every client of the Loc-RIB *)
        let st2 := in_op cfgs k st1 (AdjRIBIn.Unregister 0%N) in
        (* rib.Unregister(adjRIBOut) *)
        let st3 := loc_op cfgs st2 (LocRIBClients.OUnregister k) in
        with_sess st3 (upd_nth k (fun s => set_up s false) (ps_sess st3))
      | None => st
      end
    | EAnnounce k p q => if is_up st k then in_op cfgs k st (AdjRIBIn.Announce p q) else st
    | EWithdraw k p i => if is_up st k then in_op cfgs k st (AdjRIBIn.Withdraw p i) else st
    | EDequeue k key => us_event cfgs k (UpdateSender.Dequeue key) st
    | EEmit k => us_event cfgs k UpdateSender.EmitOne st
    end.

  Definition run (cfgs : list scfg) (evs : list event) : pst := fold_left (step cfgs) evs (init cfgs).

  (* ---------------------------------------------------------------- observables *)

  Definition sess_at (st : pst) (k : nat) : option sst := nth_error (ps_sess st) k.

  (* the candidates of a prefix in the Loc-RIB, in selection order, and the ECMP count *)
  Definition candidates (st : pst) (p : N) : list AdjRIBOut.path :=
    map snd (LocRIBClients.paths (LocRIBClients.route_at (ps_loc st) (lpfx p))).

  (* the peer's view: what replaying everything written to it leaves at (prefix, path id) *)
  Definition peer_view (s : sst) (p : N) (pid : N) : option N := UpdateSender.view (UpdateSender.wire (ss_us s)) (upfx p) pid.

  (* nothing queued, nothing in flight *)
  Definition drained (s : sst) : bool := UpdateSender.quiescent (ss_us s).
End Pipe.
